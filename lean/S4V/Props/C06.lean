/-
C06 — output is independent of thread scheduling and the run always ends.
C01 — merged output is chronological with a deterministic tie rule.
C07 — (the protocol part) a faulty source cannot disturb the others.

All three are corollaries of `S4V.Props.CoordSpec` (the coordinator model of
`processing_loop`); this file instantiates the bounded-channel layer with the
capacity found in the source (`S4V.Gen.Consts.CHANNEL_CAPACITY`).
-/
import S4V.Props.CoordSpec
import S4V.Gen.Consts
import S4V.Gen.Coord

namespace S4V.Props.C06
open S4V.Model.Coord S4V.Props.CoordSpec S4V.Gen.Consts
open S4V.Lemmas.Coord (WF BReach deliverable iterations specMsgs)

/-- the channels of the source have room for at least one datum -/
theorem C06_capacity_pos : 1 ≤ CHANNEL_CAPACITY := by decide

/-- with the source's channel capacity: no deadlock — in every reachable state of the
worker/channel/coordinator system that has not finished, some step is enabled -/
theorem C06_no_deadlock {scripts : List (List Datum)} (hwf : WF scripts) (hne : scripts ≠ [])
    {b : BSt} (hr : BReach CHANNEL_CAPACITY scripts b) (hf : b.core.fin = false) :
    ∃ ev, (bstep CHANNEL_CAPACITY b ev).isSome = true :=
  bprogress C06_capacity_pos hwf hne hr hf

/-- … the loop never leaves early through `recv_many_chan → None` … -/
theorem C06_never_stops_early {scripts : List (List Datum)} (hwf : WF scripts) (hne : scripts ≠ [])
    {b : BSt} (h : BReach CHANNEL_CAPACITY scripts b) : bstep CHANNEL_CAPACITY b (.coord .brk) = none :=
  b_no_break hwf hne h

/-- … and whatever the schedule, a finished run has printed the merge of the scripts -/
theorem C06_output_is_merge {scripts : List (List Datum)} {b : BSt}
    (h : BReach CHANNEL_CAPACITY scripts b) (hf : b.core.fin = true) :
    b.core.printed = merge (scripts.map (fun sc => msgsOf (deliverable sc))) :=
  b_confluence h hf

/-- bound on the number of coordinator iterations of any run -/
theorem C06_terminates (scripts : List (List Datum)) (evs : List Ev) (s : St)
    (hr : run (init scripts) evs = some s) :
    iterations evs ≤ 2 * (scripts.map List.length).sum + scripts.length + 2 :=
  terminates scripts evs s hr

/-- C01: each source's messages appear exactly once, in their original order -/
theorem C01_per_source_order (ls : List (List Msg)) (i : Nat) :
    ((merge ls).filter (fun p => p.1 = i)).map (fun p => p.2) = ls.getD i [] :=
  merge_per_source ls i

/-- C01: if every source is chronological so is the output -/
theorem C01_sorted (ls : List (List Msg))
    (h : ∀ j : Nat, (ls.getD j []).Pairwise (fun a b => a.dt ≤ b.dt)) :
    ((merge ls).map (fun p => p.2.dt)).Pairwise (· ≤ ·) :=
  merge_sorted ls h

/-- C01: equal instants are printed in the order the sources were named -/
theorem C01_ties {ls : List (List Msg)}
    (hs : ∀ j : Nat, (ls.getD j []).Pairwise (fun a b => a.dt ≤ b.dt))
    {pre mid post : List (Nat × Msg)} {i j : Nat} {m m' : Msg}
    (h : merge ls = pre ++ (i, m) :: (mid ++ (j, m') :: post)) (hdt : m.dt = m'.dt) : i ≤ j :=
  merge_ties hs h hdt

/-- C07: the output restricted to healthy sources is the merge of the healthy sources -/
theorem C07_isolation {healthy : Nat → Bool} {scripts : List (List Datum)} {b : BSt}
    (h : BReach CHANNEL_CAPACITY scripts b) (hf : b.core.fin = true) :
    b.core.printed.filter (fun p => healthy p.1) =
      merge ((specMsgs scripts).mapIdx (fun i l => if healthy i then l else [])) :=
  b_isolation healthy h hf

/-- **C01 (tie to the source).** The model's `merge` takes, at every step, the FIRST source (in source = PathId
order) whose head carries the minimal instant. That is the behaviour of the source's
`map_pathid_datum.iter_mut().min_by(|x, y| x.1.0.dt().cmp(y.1.0.dt()))` exactly when the three facts below hold;
they are re-read from `processing_loop` on every run (`gen/gen_coord.py`; any other container, picker or comparator
makes the translation fail): the pending map iterates in PathId order, `min_by` returns the first minimum, and the
comparator orders whole instants (nanoseconds) — not a truncation of them (seeded change C01-a compared
`timestamp_micros()`). -/
theorem C01_pick_matches_source :
    S4V.Gen.Coord.PENDING_IN_PATHID_ORDER = true ∧ S4V.Gen.Coord.PICK_FIRST_MINIMUM = true ∧
    S4V.Gen.Coord.COMPARES_FULL_INSTANTS = true := by decide

/-- why the comparator must see whole instants: a merge that compares instants truncated to microseconds
(`dt / 1000`) prints two sources' messages out of order when they differ by less than a microsecond -/
theorem truncated_compare_misorders :
    let a : Msg := ⟨1000000999, 0⟩
    let b : Msg := ⟨1000000001, 1⟩
    (merge [[a], [b]]).map (fun p => p.2.dt) = [1000000001, 1000000999] ∧
    (merge [[⟨a.dt / 1000, 0⟩], [⟨b.dt / 1000, 1⟩]]).map (fun p => p.1) = [0, 1] := by decide

end S4V.Props.C06
