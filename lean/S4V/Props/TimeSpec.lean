/-
C04 — timestamps are interpreted as the instant they denote (post-capture pipeline).

Over `S4V.Model.DtParse` (mirror of `captures_to_buffer_bytes` + `datetime_parse_from_str`)
and the tables regenerated from src/data/datetime.rs (`S4V.Gen.TimeTables`).

Tables
* `C04_range_start_zero`   every `DTPD!` row has `range_regex.start = 0`
* `C04_sets_consistent`    for every generated `DTFSS_*` set the strftime pattern is exactly the
                           item sequence its enum fields stand for (and `%#z` wherever the zone
                           piece may lack minutes)
* `C04_tz_table`           every non-empty zone value is `±HH:MM`, |offset| ≤ 14 h, scans (both
                           `%z`/`%:z` and `%#z`) to that offset; upper/lower-case keys agree
* `C04_month_table`        every accepted month name maps to the month it names
* `C04_month_abbrev_complete` every written form (3 cases × optional dot) of every abbreviation has an arm
* `C04_may_dot`            REPAIRED (was F27 `C04_may_dot_panics`): `May.` (accepted by `CGP_MONTHb`'s
                           `(…|May|…)[\.]?`) now maps to `05`; `C04_may_dot_before_repair` is the
                           counter-model (table without the three names: look-up fails = the old panic)

Stages of `C04_normalise_parse`
* stage P  `C04_normalise_parse`  (all date-time sets): if the pieces written to the buffer are the
           canonical ones for the denoted fields, the attributed instant is `instantNs` of them;
           zone-less sets and `_fill` read the date-time in the fallback zone
* stage N  notations -> canonical pieces: `C04_day_forms`, `C04_month_ms`, `C04_month_name`,
           `C04_hour_k`, `C04_year_fill`, `C04_fraction_pad`, `C04_fraction_truncate`,
           `C04_tz_named`, `C04_tz_ambiguous`
* stage E  epoch sets: `C04_epoch_shifted` — FINDING: the instant is shifted by the fallback offset
           (`C04_epoch_full_false`)
Not proved here (absent): general lemmas that the numeric zone notations `±HHMM`, `±HH:MM`, `±HH`,
U+2212 scan to their offset for ALL values (checked on instances below and by the correspondence),
and that `offString` scans for every fallback offset (instances only).
-/
import S4V.Lemmas.DtParse
import S4V.Lemmas.Time

namespace S4V.Props.TimeSpec
open S4V.Gen.TimeTables S4V.Model.Time S4V.Model.DtParse S4V.Lemmas.DtParse

/-! ### tables -/

theorem C04_range_start_zero : rows.all (fun r => r.rangeStart == 0) = true := by decide +kernel

theorem C04_rows_count : rows.length = 173 ∧ allDTFSS.length = 37 := by decide +kernel

/-- every row names a generated set -/
theorem C04_rows_sets : rows.all (fun r => allDTFSS.contains (r.dtfsName, r.dtfs)) = true := by decide +kernel

theorem C04_sets_consistent : ∀ p ∈ allDTFSS, Consistent p.2 := by decide

/-- offset in seconds denoted by a `±HH:MM` value -/
def tzValueOffset (v : Bytes) : Option Int :=
  match v with
  | [s, h1, h2, 58, m1, m2] =>
    if (s = 43 || s = 45) && isDigit h1 && isDigit h2 && isDigit m1 && isDigit m2 then
      let a : Int := numVal [h1, h2] * 3600 + numVal [m1, m2] * 60
      if numVal [m1, m2] ≤ 59 ∧ a ≤ 14 * 3600 then some (if s = 45 then -a else a) else none
    else none
  | _ => none

def lowerB (b : Bytes) : Bytes := b.map fun c => if 65 ≤ c && c ≤ 90 then c + 32 else c
def upperB (b : Bytes) : Bytes := b.map fun c => if 97 ≤ c && c ≤ 122 then c - 32 else c

def tzEntryOK (kv : Bytes × Bytes) : Bool :=
  (kv.2.isEmpty ||
    match tzValueOffset kv.2 with
    | some o => tzScan false kv.2 == some (o, []) && tzScan true kv.2 == some (o, []) &&
        kv.2.all (fun b => b != 32 && b != 9 && b != 10 && b != 13)
    | none => false) &&
  -- both case variants of the key are present and denote the same offset (or are both ambiguous)
  (lookup tzTableB (lowerB kv.1)).map tzValueOffset == some (tzValueOffset kv.2) &&
  (lookup tzTableB (upperB kv.1)).map tzValueOffset == some (tzValueOffset kv.2)

theorem C04_tz_table : tzTableB.all tzEntryOK = true := by decide +kernel

/-- the only textual difference between the case variants: `AZOST` is `+00:00`, `azost` is `-00:00` -/
theorem C04_tz_case_text :
    tzTableB.filter (fun kv => lookup tzTableB (lowerB kv.1) != some kv.2 || lookup tzTableB (upperB kv.1) != some kv.2)
      = [([65, 90, 79, 83, 84], [43, 48, 48, 58, 48, 48]), ([97, 122, 111, 115, 116], [45, 48, 48, 58, 48, 48])] := by
  decide +kernel

theorem C04_tz_table_size : tzTableB.length = 392 ∧ tzTable.length = 392 := by decide +kernel

def monthSpec : List (Bytes × Nat) :=
  [("jan".toUTF8.toList, 1), ("feb".toUTF8.toList, 2), ("mar".toUTF8.toList, 3), ("apr".toUTF8.toList, 4),
   ("may".toUTF8.toList, 5), ("jun".toUTF8.toList, 6), ("jul".toUTF8.toList, 7), ("aug".toUTF8.toList, 8),
   ("sep".toUTF8.toList, 9), ("oct".toUTF8.toList, 10), ("nov".toUTF8.toList, 11), ("dec".toUTF8.toList, 12)]

/-- the month a name denotes: by its first three letters, case-insensitively -/
def monthOfName (name : Bytes) : Option Nat :=
  (monthSpec.find? fun p => p.1 = (lowerB name).take 3).map (·.2)

def monthEntryOK (kv : Bytes × Bytes) : Bool :=
  match monthOfName kv.1 with
  | some m => kv.2 == dec2 m
  | none => false

theorem C04_month_table : monthNamesB.all monthEntryOK = true := by decide +kernel

theorem C04_month_table_size : monthNamesB.length = 105 ∧ monthNames.length = 105 := by decide +kernel

/-- first letter upper-case, the rest as given -/
def capitalB (b : Bytes) : Bytes :=
  match b with
  | [] => []
  | c :: r => upperB [c] ++ r

/-- the six written forms of an abbreviation the month regex `CGP_MONTHb` accepts
(`(jan|Jan|JAN|…)[\.]?`): lower / Capitalised / UPPER, each with and without a trailing dot -/
def abbrevForms (abbr : Bytes) : List Bytes :=
  [abbr, capitalB abbr, upperB abbr, abbr ++ [46], capitalB abbr ++ [46], upperB abbr ++ [46]]

/-- every form of every abbreviation has an arm and maps to its month — `may.`/`May.`/`MAY.` included
(72 forms) -/
theorem C04_month_abbrev_complete :
    monthSpec.all (fun p => (abbrevForms p.1).all fun f => lookup monthNamesB f == some (dec2 p.2)) = true := by
  decide +kernel

/-- REPAIRED (was finding F27, `C04_may_dot_panics`). `May.` is matched by `CGP_MONTHb`
(`(…|may|May|MAY|…)[\.]?`) and `month_bB_to_month_m_bytes` now has the arm
`b"may." | b"May." | b"MAY." => MONTH_05_m`: the month piece is `05` like for every other dotted
abbreviation. -/
theorem C04_may_dot (set : DTFSSet) (c : Captures)
    (hm : set.month = .b ∨ set.month = .B)
    (hc : c.month = some [77, 97, 121, 46] ∨ c.month = some [109, 97, 121, 46] ∨ c.month = some [77, 65, 89, 46]) :
    monthPiece set.month c = some (dec2 5) := by
  rcases hm with hm | hm <;> rcases hc with hc | hc | hc <;> rw [hm] <;>
    simp only [monthPiece, hc, Option.bind_some] <;> decide +kernel

example : ("May.".toUTF8.toList, "may.".toUTF8.toList, "MAY.".toUTF8.toList)
    = (([77, 97, 121, 46], [109, 97, 121, 46], [77, 65, 89, 46]) : Bytes × Bytes × Bytes) := by decide +kernel

/-- the hypotheses of `C04_may_dot` are satisfiable (the RFC 3164-with-year set, capture `May.`) -/
example : monthPiece DTFSS_BdHMSY.month { month := some [77, 97, 121, 46] } = some [48, 53] := by decide +kernel

/-- `may.`, `May.`, `MAY.` -/
def mayDotNames : List Bytes := [[109, 97, 121, 46], [77, 97, 121, 46], [77, 65, 89, 46]]

/-- Counter-model documenting the repair: the month table as it was before commit b9821264
("MONTH_05_b_ld not needed"), i.e. without the three dotted May names. -/
def monthNamesB_beforeRepair : List (Bytes × Bytes) :=
  monthNamesB.filter fun kv => !mayDotNames.contains kv.1

/-- with the old table (102 names) the look-up of `May.` / `may.` / `MAY.` fails — the code took the
`data_ => panic!` arm — while every other name is treated as now -/
theorem C04_may_dot_before_repair :
    monthNamesB_beforeRepair.length = 102 ∧
    lookup monthNamesB_beforeRepair [77, 97, 121, 46] = none ∧
    lookup monthNamesB_beforeRepair [109, 97, 121, 46] = none ∧
    lookup monthNamesB_beforeRepair [77, 65, 89, 46] = none ∧
    (monthNamesB.all fun kv => mayDotNames.contains kv.1 ||
        lookup monthNamesB_beforeRepair kv.1 == lookup monthNamesB kv.1) = true := by
  decide +kernel

/-! ### stage P: canonical pieces parse to the denoted instant -/

/-- **C04 (normalise ∘ parse), date-time sets.** For every generated set of the date-time family:
if the buffer pieces are the canonical ones for year `Y`, month `M`, day `D`, `H:N:S`, `NS`
nanoseconds and zone offset `OFF` (for zone-less / `_fill` sets `OFF` is the fallback offset),
and `Y-M-D` is a real date, the instant attributed is `instantNs Y M D H N S NS OFF`. -/
theorem C04_normalise_parse (name : String) (set : DTFSSet) (hmem : (name, set) ∈ allDTFSS) (hdt : set.epoch = .none_)
    (c : Captures) (fbOff : Int) (fill : Option Int)
    (yb sb fb zb : Bytes) (Y : Int) (M D H N : Nat) (S NS OFF : Int)
    (hyP : yearPiece set.year c fill = some yb) (hy : YearPieceOK set.year yb Y)
    (hmP : monthPiece set.month c = some (dec2 M)) (hM : 1 ≤ M ∧ M ≤ 12)
    (hdP : dayPiece set.day c = some (dec2 D)) (hD : 1 ≤ D ∧ D ≤ 31)
    (hhP : hourPiece set.hour c = some (dec2 H)) (hH : H ≤ 23)
    (hnP : minutePiece set.minute c = some (dec2 N)) (hN : N ≤ 59)
    (hsP : secondPiece set.second c = some sb) (hs : SecPieceOK set.second sb S)
    (hfP : fracPiece set.fractional c = some fb) (hf : FracPieceOK set.fractional fb NS)
    (hzP : tzPiece set.tz c (offString fbOff) = some zb) (hzl : zb.length ≤ 9)
    (hz : ∀ perm, (set.tz = .zp → perm = true) → TzPieceOK set.tz perm zb fbOff OFF)
    (hvalid : validDate Y M D = true) :
    capturesToInstant set c fbOff fill = some (instantNs Y M D H N S NS OFF) := by
  have hcons : Consistent set := C04_sets_consistent (name, set) hmem
  have hpat : parsePattern set.pattern = some (dtItems set true) ∨
      (set.tz ≠ .zp ∧ parsePattern set.pattern = some (dtItems set false)) := by
    rcases hcons with ⟨_, _, _, _, _, _, hpat⟩ | ⟨he, _⟩
    · exact hpat
    · rw [hdt] at he; cases he
  have hep : epochPiece set.epoch c = some [] := by rw [hdt]; rfl
  -- lengths
  have ly : yb.length ≤ 4 := by
    cases hk : set.year <;> rw [hk] at hy
    · obtain ⟨n, _, rfl, _⟩ := hy; simp [dec4]
    · obtain ⟨n, _, rfl, _⟩ := hy; simp [dec2]
    · obtain ⟨n, _, rfl, _⟩ := hy; simp [dec4]
    · exact absurd hy (by simp [YearPieceOK])
  have ls : sb.length ≤ 2 := by
    cases hk : set.second <;> rw [hk] at hs
    · obtain ⟨n, _, rfl, _⟩ := hs; simp [dec2]
    · obtain ⟨n, _, rfl, _⟩ := hs; simp [dec2]
    · obtain ⟨rfl, _⟩ := hs; simp
  have lf : fb.length ≤ 10 := by
    cases hk : set.fractional <;> rw [hk] at hf
    · obtain ⟨f9, _, hl, rfl, _⟩ := hf; simp [hl]
    · obtain ⟨rfl, _⟩ := hf; simp
  have hbuf : capturesToBuffer set c (offString fbOff) fill =
      some (yb ++ (dec2 M ++ (dec2 D ++ (84 :: (dec2 H ++ (dec2 N ++ (sb ++ (fb ++ zb)))))))) := by
    unfold capturesToBuffer
    rw [hep, hyP, hmP, hdP, hhP, hnP, hsP, hfP, hzP]
    simp only [List.nil_append]
    have : (yb ++ (dec2 M ++ (dec2 D ++ (84 :: (dec2 H ++ (dec2 N ++ (sb ++ (fb ++ zb)))))))).length ≤ BUFLEN := by
      simp [dec2, BUFLEN]; omega
    rw [if_pos this]
  unfold capturesToInstant
  rw [hbuf]
  simp only [Option.bind_some]
  rcases hpat with hpat | ⟨hzp, hpat⟩
  · exact parse_dt_buffer set true hpat yb sb fb zb Y M D H N S NS OFF fbOff hy hM hD hH hN hs hf
      (hz true (fun _ => rfl)) hvalid
  · exact parse_dt_buffer set false hpat yb sb fb zb Y M D H N S NS OFF fbOff hy hM hD hH hN hs hf
      (hz false (fun h => absurd h hzp)) hvalid

/-! ### stage N: notations normalise to the canonical pieces -/

/-- day `08`, `8` and ` 8` all give the piece `08` -/
theorem C04_day_forms (c : Captures) (D : Nat) (hD : D ≤ 99)
    (h : c.day = some (dec2 D) ∨ (D < 10 ∧ (c.day = some [dchar D] ∨ c.day = some [32, dchar D]))) :
    dayPiece .e_or_d c = some (dec2 D) := by
  rcases h with h | ⟨h10, h | h⟩
  · have h32 : dchar (D / 10) ≠ 32 := (notBlank_dchar _).1
    simp [dayPiece, h, dec2, h32]
  · simp [dayPiece, h, dec2_small D h10]
  · simp [dayPiece, h, dec2_small D h10]

/-- month `1`–`12` without padding (`DTFS_Month::ms`) -/
theorem C04_month_ms (c : Captures) (M : Nat) (hM : 1 ≤ M ∧ M ≤ 12) (h : c.month = some (natDec M)) :
    monthPiece .ms c = some (dec2 M) := by
  by_cases h10 : M < 10
  · simp [monthPiece, h, natDec_lt10 M h10, dec2_small M h10]
  · have := natDec_2 M (by omega) (by omega)
    simp [monthPiece, h, this, dec2]

/-- a month name in any accepted form gives the two digits of the month it names -/
theorem C04_month_name (c : Captures) (name v : Bytes) (h : c.month = some name) (hk : lookup monthNamesB name = some v) :
    monthPiece .b c = some v ∧ monthPiece .B c = some v := by
  simp [monthPiece, h, hk]

/-- hour `0`–`23` without padding (`DTFS_Hour::k`) -/
theorem C04_hour_k (c : Captures) (H : Nat) (hH : H ≤ 23) (h : c.hour = some (natDec H)) :
    hourPiece .k c = some (dec2 H) := by
  by_cases h10 : H < 10
  · simp [hourPiece, h, natDec_lt10 H h10, dec2_small H h10]
  · have := natDec_2 H (by omega) (by omega)
    simp [hourPiece, h, this, dec2]

/-- a year-less set takes the four digits of the fill year (`process_missing_year`'s year) -/
theorem C04_year_fill (c : Captures) (Y : Nat) (h1 : 1000 ≤ Y) (h2 : Y ≤ 9999) (hc : c.year = none) :
    yearPiece .fill c (some (Y : Int)) = some (dec4 Y) ∧ YearPieceOK .fill (dec4 Y) Y := by
  constructor
  · have : ¬ ((Y : Int) < 0) := by omega
    simp [yearPiece, hc, intDec, this, natDec_4 Y h1 (by omega)]
  · exact ⟨Y, by omega, rfl, rfl⟩

/-- 1–9 fraction digits are kept as written: right-padded with zeros to nanoseconds -/
theorem C04_fraction_pad (c : Captures) (f : Bytes) (hd : AllDigits f) (hl : f.length ≤ 9) (h : c.fractional = some f) :
    fracPiece .f c = some (46 :: (f ++ List.replicate (9 - f.length) 48)) ∧
      FracPieceOK .f (46 :: (f ++ List.replicate (9 - f.length) 48)) (numVal (f ++ List.replicate (9 - f.length) 48)) := by
  constructor
  · simp [fracPiece, h, fracNorm, hl]
  · refine ⟨f ++ List.replicate (9 - f.length) 48, ?_, by simp; omega, rfl, rfl⟩
    intro b hb
    rcases List.mem_append.mp hb with hb | hb
    · exact hd b hb
    · have := List.eq_of_mem_replicate hb; subst this; decide

/-- padding with zeros multiplies by the power of ten: `.5` is 500 000 000 ns -/
theorem numVal_pad (f : Bytes) (k : Nat) : numVal (f ++ List.replicate k 48) = numVal f * 10 ^ k := by
  induction k with
  | zero => simp
  | succ k ih =>
    rw [List.replicate_succ', ← List.append_assoc]
    unfold numVal at ih ⊢
    rw [List.foldl_append, ih]
    simp [List.foldl, Int.pow_succ, Int.mul_assoc]

/-- 10–12 fraction digits are truncated (not rounded) to the first nine -/
theorem C04_fraction_truncate (c : Captures) (f : Bytes) (hd : AllDigits f) (h10 : 10 ≤ f.length) (h12 : f.length ≤ 12)
    (h : c.fractional = some f) :
    fracPiece .f c = some (46 :: f.take 9) ∧ FracPieceOK .f (46 :: f.take 9) (numVal (f.take 9)) := by
  constructor
  · have a : ¬ f.length ≤ 9 := by omega
    simp [fracPiece, h, fracNorm, a, h12]
  · refine ⟨f.take 9, fun b hb => hd b (List.mem_of_mem_take hb), by simp; omega, rfl, rfl⟩

/-- a zone abbreviation with a non-empty table value is read at that value -/
theorem C04_tz_named (c : Captures) (name v tzs : Bytes) (h : c.tz = some name) (hk : lookup tzTableB name = some v)
    (hv : v ≠ []) : tzPiece .Z c tzs = some v := by
  have : v.isEmpty = false := by cases v <;> simp_all
  simp only [tzPiece, h, hk, Option.map_some, this]
  rfl

/-- an ambiguous abbreviation (empty table value) or an unknown one is read in the fallback zone -/
theorem C04_tz_ambiguous (c : Captures) (name tzs : Bytes) (h : c.tz = some name)
    (hk : lookup tzTableB name = some [] ∨ lookup tzTableB name = none) : tzPiece .Z c tzs = some tzs := by
  rcases hk with hk | hk <;> simp [tzPiece, h, hk]

/-! ### instances (non-vacuity; also the numeric zone forms on concrete values) -/

def caps (y mo d h mi s : String) (f tz : Option String) : Captures :=
  { year := some y.toUTF8.toList, month := some mo.toUTF8.toList, day := some d.toUTF8.toList, hour := some h.toUTF8.toList,
    minute := some mi.toUTF8.toList, second := some s.toUTF8.toList, fractional := f.map (·.toUTF8.toList),
    tz := tz.map (·.toUTF8.toList) }

-- RFC 3339 with fraction and `+05:30`; U+2212 minus; `±HHMM`; `±HH`; named zone; ambiguous zone -> fallback
example : capturesToInstant DTFSS_YmdHMSfzc (caps "2024" "02" "29" "23" "59" "59" (some "5") (some "+05:30")) 0 none
    = some (instantNs 2024 2 29 23 59 59 500000000 19800) := by decide +kernel
example : capturesToInstant DTFSS_YmdHMSzc (caps "2000" "01" "01" "00" "00" "00" none (some "−08:00")) 3600 none
    = some (instantNs 2000 1 1 0 0 0 0 (-28800)) := by decide +kernel
example : capturesToInstant DTFSS_YmdHMSz (caps "2099" "12" "30" "12" "00" "00" none (some "-0945")) 0 none
    = some (instantNs 2099 12 30 12 0 0 0 (-35100)) := by decide +kernel
example : capturesToInstant DTFSS_YmdHMSzp (caps "1970" "01" "02" "00" "00" "00" none (some "+14")) 0 none
    = some (instantNs 1970 1 2 0 0 0 0 50400) := by decide +kernel
example : capturesToInstant DTFSS_bdHMSYZ (caps "2024" "Sep." " 8" "07" "08" "09" none (some "PST")) 7200 none
    = some (instantNs 2024 9 8 7 8 9 0 (-28800)) := by decide +kernel
example : capturesToInstant DTFSS_bdHMSYZ (caps "2024" "SEPTEMBER" "8" "07" "08" "09" none (some "IST")) 19800 none
    = some (instantNs 2024 9 8 7 8 9 0 19800) := by decide +kernel
-- zone-less: read in the fallback zone; year-less: fill year
example : capturesToInstant DTFSS_YmdHMS (caps "2024" "02" "29" "23" "59" "59" none none) (-28800) none
    = some (instantNs 2024 2 29 23 59 59 0 (-28800)) := by decide +kernel
example : capturesToInstant DTFSS_BdHMS { caps "" "jan" " 1" "00" "30" "00" none none with year := none } 19800 (some 2021)
    = some (instantNs 2021 1 1 0 30 0 0 19800) := by decide +kernel

/-! ### stage E: epoch sets -/

/-- FINDING. A Unix-epoch timestamp is parsed as a *naive local* date-time and then placed in the
fallback zone: the attributed instant is the denoted one minus the `--tz-offset`. -/
theorem C04_epoch_shifted :
    capturesToInstant DTFSS_s { epoch := some "1000000000".toUTF8.toList } 18000 none
      = some ((1000000000 - 18000) * 1000000000) ∧
    capturesToInstant DTFSS_sf { epoch := some "1000000000".toUTF8.toList, fractional := some "25".toUTF8.toList } (-3600) none
      = some ((1000000000 + 3600) * 1000000000 + 250000000) := by decide +kernel

/-- "an epoch timestamp is attributed the instant it denotes, whatever the fallback offset" -/
def C04_epoch_full : Prop :=
  ∀ (fbOff : Int), capturesToInstant DTFSS_s { epoch := some "1000000000".toUTF8.toList } fbOff none
    = some (1000000000 * 1000000000)

theorem C04_epoch_full_false : ¬ C04_epoch_full := by
  intro h
  have := h 18000
  revert this
  decide +kernel

/-- with `--tz-offset` 0 (the checks' default) it is the denoted instant -/
theorem C04_epoch_partial : capturesToInstant DTFSS_s { epoch := some "1000000000".toUTF8.toList } 0 none
    = some (1000000000 * 1000000000) := by decide +kernel

/-! ### the calendar under `instantNs` (proved in `S4V.Lemmas.Time`, all `Int` years / days) -/

theorem C04_civil_roundtrip₁ (y m d : Int) (h : validDate y m d = true) :
    civilFromDays (daysFromCivil y m d) = (y, m, d) := S4V.Lemmas.Time.civil_roundtrip₁ y m d h

theorem C04_civil_roundtrip₂ (z : Int) :
    let (y, m, d) := civilFromDays z
    validDate y m d = true ∧ daysFromCivil y m d = z := S4V.Lemmas.Time.civil_roundtrip₂ z

theorem C04_days_epoch : daysFromCivil 1970 1 1 = 0 := S4V.Lemmas.Time.daysFromCivil_epoch

theorem C04_days_strictMono (y₁ m₁ d₁ y₂ m₂ d₂ : Int) (h₁ : validDate y₁ m₁ d₁ = true) (h₂ : validDate y₂ m₂ d₂ = true) :
    daysFromCivil y₁ m₁ d₁ < daysFromCivil y₂ m₂ d₂ ↔ S4V.Lemmas.Time.LexLt y₁ m₁ d₁ y₂ m₂ d₂ :=
  S4V.Lemmas.Time.daysFromCivil_lt_iff_lex y₁ m₁ d₁ y₂ m₂ d₂ h₁ h₂

theorem C04_epochSeconds_strictMono (y₁ m₁ d₁ hh₁ mm₁ ss₁ y₂ m₂ d₂ hh₂ mm₂ ss₂ off : Int)
    (h₁ : validDate y₁ m₁ d₁ = true) (h₂ : validDate y₂ m₂ d₂ = true)
    (t₁ : S4V.Lemmas.Time.ValidTime hh₁ mm₁ ss₁) (t₂ : S4V.Lemmas.Time.ValidTime hh₂ mm₂ ss₂)
    (hlt : S4V.Lemmas.Time.LexLt y₁ m₁ d₁ y₂ m₂ d₂ ∨
      ((y₁, m₁, d₁) = (y₂, m₂, d₂) ∧ (hh₁ < hh₂ ∨ (hh₁ = hh₂ ∧ (mm₁ < mm₂ ∨ (mm₁ = mm₂ ∧ ss₁ < ss₂)))))) :
    epochSeconds y₁ m₁ d₁ hh₁ mm₁ ss₁ off < epochSeconds y₂ m₂ d₂ hh₂ mm₂ ss₂ off :=
  S4V.Lemmas.Time.epochSeconds_strictMono _ _ _ _ _ _ _ _ _ _ _ _ _ h₁ h₂ t₁ t₂ hlt

end S4V.Props.TimeSpec
