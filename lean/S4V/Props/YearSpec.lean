/-
C11 — year-less timestamps receive the right year.

Model: `S4V.Model.Year.processMissingYearL lead off mtimeYear msgs after` (mirror of
`SyslogProcessor::process_missing_year`; `processMissingYear = processMissingYearL false`), a
function of the control skeleton `S4V.Gen.Year` regenerated from the loop body (order of the jump
test and the exits, comparison operators, year step, `--dt-after` break variants), of
`S4V.Gen.Filter.dtAfterOrBefore`, and of the threshold `S4V.Gen.Consts.BACKWARDS_TIME_JUMP_S`
regenerated from `BACKWARDS_TIME_JUMP_MEANS_NEW_YEAR`. Every theorem below goes through
`S4V.Lemmas.Year.walk_eq_nf`, which unfolds the generated skeleton: a source edit that moves the
start-of-file exit in front of the jump test, adds a break on `dt == --dt-after`, changes `>` to
`>=`, the year step or the break variants regenerates different constants and the proofs fail.

`Plain off ms`: every message is a real month/day other than 29 February (its line parses with
every fill year). For plain files the loop reduces to its simple form (`walkNF_eq_walkS`).

Proved here
* `C11_last_year`    the last message of a plain file is dated in the year of the mtime
                     (`C11_last_year_full_false`, `C11_last_feb29_lost`: not so for a trailing 29 February)
* `C11_years`        every message gets its true year (hypotheses: no 29 February, the true
                     year never decreases, time never runs backwards by more than the
                     threshold, consecutive gaps < 365 days − threshold, mtime in the last
                     message's year); non-vacuity: `example` over two year boundaries
* `C11_window`       the same with `--dt-after A`: exact description of which messages are
                     re-dated (all down to and including the first one before `A`)
* `C11_monotone`     plain files, any order/mtime: the dates produced never step back by more than the threshold
* `C11_threshold`    the generated threshold is 25 h
* `C11_years_full_false`  the statement without the 29-February exclusion is FALSE of the model
                     (and of the code: witness replayed by vlib/props/C11.py), Issue #245
* `C11_feb29_first_undated` a leading 29 February is never re-dated (the code then prints it
                     with the dummy year 1972)
* `C11_refind_redates`  with text before the first message and a leading 29 February in a leap
                     mtime year, the message after it is found again and dated one year early

* `C11_skeleton`     the regenerated skeleton is: jump test, start-of-file exit, `--dt-after` test;
                     `>` and `>`; `year - 1`; break on `OccursBefore` only
* `start_exit_before_jump_misdates_first`  counter-model: with the start-of-file exit in front of
                     the jump test, the first message of a file whose December→January wrap lies
                     between message 1 and 2 is dated one year late
* `break_on_equal_after_loses`  counter-model: with a break on `dt == --dt-after`, of two messages
                     at the instant `A` only the later one is re-dated (`-a A`)

Not modelled here (checked end to end by vlib/props/C11.py): where the mtime comes from
per container, printing order, and that window/merge use the stored dates.
-/
import S4V.Lemmas.Year

namespace S4V.Props.YearSpec
open S4V.Model.Time S4V.Model.Year S4V.Lemmas.Time S4V.Lemmas.Year
open S4V.Gen.Consts
open S4V.Gen.Year (Decision)

/-- the generated `BACKWARDS_TIME_JUMP_MEANS_NEW_YEAR` is 25 hours -/
theorem C11_threshold : BACKWARDS_TIME_JUMP_S = 25 * 3600 := by decide

/-- the control skeleton regenerated from `process_missing_year` -/
theorem C11_skeleton :
    S4V.Gen.Year.DECISIONS = [.jump, .startExit, .afterFilter] ∧
    S4V.Gen.Year.JUMP_TEST_BEFORE_START_EXIT = true ∧
    S4V.Gen.Year.JUMP_LATER_STRICT = true ∧ S4V.Gen.Year.JUMP_DIFF_STRICT = true ∧
    S4V.Gen.Year.JUMP_YEAR_STEP = -1 ∧
    S4V.Gen.Year.AFTER_FILTER_BREAKS_ON = ["OccursBefore"] := by decide

/-- `processMissingYearL` through the normal form of the loop (unfolds the generated skeleton) -/
theorem pmy_nf (lead : Bool) (off Y : Int) (ms : List Msg) (after : Option Int) :
    processMissingYearL lead off Y ms after
      = walkNF BACKWARDS_TIME_JUMP_S off after (fuelFor ms) ms.reverse Y none [] := by
  unfold processMissingYearL processMissingYearG
  rw [← walk_eq_nf lead]
  rfl

/-- every message of the file is a real month/day other than 29 February -/
def Plain (off : Int) (ms : List Msg) : Prop := ∀ m ∈ ms, AlwaysParse off m

theorem alwaysParse_of_valid (off y : Int) (m : Msg) (h : validDate y m.mo m.day = true)
    (h29 : ¬ (m.mo = 2 ∧ m.day = 29)) : AlwaysParse off m := by
  intro y'
  have := valid_shift y y' m.mo m.day h29 h
  refine ⟨daysFromCivil y' m.mo m.day * 86400 + m.sod - off, ?_⟩
  simp [dateWith, this]

/-- for a plain file: the simple form of the loop, in file order -/
theorem pmy_simple (lead : Bool) (off Y : Int) (ms : List Msg) (after : Option Int) (hp : Plain off ms) :
    processMissingYearL lead off Y ms after
      = (walkS BACKWARDS_TIME_JUMP_S off after (fuelFor ms) ms.reverse Y none).reverse := by
  rw [pmy_nf, walkNF_eq_walkS _ _ _ _ _ _ _ _ (by intro m hm; exact hp m (by simpa using hm)) (by simp)
    (by intro _ m e r h; cases h)]
  simp

/-- The last message of a plain file is dated in the year of the file's mtime. (Not so when the
last line is a 29 February: `C11_last_feb29_lost`.) -/
theorem C11_last_year (lead : Bool) (off Y : Int) (ms : List Msg) (m : Msg) (after : Option Int)
    (hp : Plain off (ms ++ [m])) :
    (processMissingYearL lead off Y (ms ++ [m]) after).getLast? = some (dateWith off Y m) := by
  rw [pmy_simple lead off Y _ after hp]
  unfold fuelFor
  rw [List.reverse_append]
  simp only [List.reverse_cons, List.reverse_nil, List.nil_append, List.singleton_append]
  obtain ⟨dt, hd⟩ := hp m (by simp) Y
  unfold walkS
  simp only [findParse, hd, jumpedNF, Bool.false_eq_true, if_false, List.length_nil, List.replicate, List.nil_append]
  simp

/-- a file (in file order) of messages with their true years, acceptable to `C11_years` -/
def WellDated (ts : List TMsg) : Prop :=
  (∀ t ∈ ts, t.Ok) ∧ Adj (Step BACKWARDS_TIME_JUMP_S) ts

theorem plain_of_wellDated (off : Int) (ts : List TMsg) (hw : WellDated ts) : Plain off (ts.map TMsg.msg) := by
  intro m hm
  simp at hm
  obtain ⟨t, ht, rfl⟩ := hm
  have h := hw.1 t ht
  exact alwaysParse_of_valid off t.y t.msg h.1 h.2.1

/-- **C11 (years).** If no message is a 29 February, the true year never decreases along the
file, time never runs backwards by more than 25 h, consecutive messages are less than
365 days − 25 h apart, and the mtime lies in the last message's year, then every message is
dated with its true year (so the year steps back exactly at each December→January wrap). -/
theorem C11_years (lead : Bool) (off Y : Int) (ts : List TMsg) (hw : WellDated ts)
    (hY : ∀ t, ts.getLast? = some t → Y = t.y) :
    processMissingYearL lead off Y (ts.map TMsg.msg) none = ts.map fun t => some (t.instant off) := by
  rw [pmy_simple lead off Y _ none (plain_of_wellDated off ts hw)]
  rw [← List.map_reverse]
  have hadj : Adj (fun b a => Step BACKWARDS_TIME_JUMP_S a b) ts.reverse :=
    (adj_reverse (fun b a => Step BACKWARDS_TIME_JUMP_S a b) ts).mpr hw.2
  rw [walk_true_years BACKWARDS_TIME_JUMP_S off none (by decide) ts.reverse (fuelFor (ts.map TMsg.msg)) Y none
    (by simp [fuelFor]) (by intro t ht; exact hw.1 t (by simpa using ht)) hadj
    (by
      intro r hr
      refine Or.inl ⟨rfl, hY r ?_⟩
      rw [List.head?_reverse] at hr; exact hr)]
  simp [stopSpec_none, List.map_reverse, Function.comp_def]

/-- **C11 (window).** With `--dt-after A` the backward pass stops at the first message (walking
back) that is before `A`: that message and all later ones carry their true dates, earlier
ones are left undated (`none`) — they are before the window in a chronological file. -/
theorem C11_window (lead : Bool) (off Y : Int) (after : Option Int) (ts : List TMsg) (hw : WellDated ts)
    (hY : ∀ t, ts.getLast? = some t → Y = t.y) :
    processMissingYearL lead off Y (ts.map TMsg.msg) after
      = (stopSpec after (ts.reverse.map (TMsg.instant off))).reverse := by
  rw [pmy_simple lead off Y _ after (plain_of_wellDated off ts hw)]
  rw [← List.map_reverse]
  have hadj : Adj (fun b a => Step BACKWARDS_TIME_JUMP_S a b) ts.reverse :=
    (adj_reverse (fun b a => Step BACKWARDS_TIME_JUMP_S a b) ts).mpr hw.2
  rw [walk_true_years BACKWARDS_TIME_JUMP_S off after (by decide) ts.reverse (fuelFor (ts.map TMsg.msg)) Y none
    (by simp [fuelFor]) (by intro t ht; exact hw.1 t (by simpa using ht)) hadj
    (by
      intro r hr
      refine Or.inl ⟨rfl, hY r ?_⟩
      rw [List.head?_reverse] at hr; exact hr)]

/-- the hypotheses of `C11_years` are satisfiable: a file spanning two year boundaries,
with a 20-hour backward step and an 11-month gap -/
def sample : List TMsg :=
  [⟨2019, 12, 30, 36000⟩, ⟨2019, 12, 31, 86399⟩, ⟨2020, 1, 1, 0⟩, ⟨2020, 1, 1, 1⟩,
   ⟨2020, 12, 1, 0⟩, ⟨2021, 1, 5, 1800⟩, ⟨2021, 1, 4, 9000⟩]

example : WellDated sample := by
  unfold WellDated
  constructor
  · decide
  · unfold sample; decide

example : processMissingYear 0 2021 (sample.map TMsg.msg) none = sample.map fun t => some (t.instant 0) := by
  decide

/-- **C11 (monotone).** Whatever the mtime and the order of a plain file's messages, the dates
stored by the pass never step back by more than the threshold from one dated message to the next
dated one. (With 29 February lines the statement is not proved: a sysline found with a common
fill year also takes following 29 February lines that were stored with a leap year, `blank`.) -/
theorem C11_monotone (lead : Bool) (off Y : Int) (ms : List Msg) (after : Option Int) (hp : Plain off ms) :
    Adj (fun a b => a ≤ b + BACKWARDS_TIME_JUMP_S) ((processMissingYearL lead off Y ms after).filterMap id) := by
  rw [pmy_simple lead off Y ms after hp]
  rw [List.filterMap_reverse, adj_reverse]
  exact (walk_revOK BACKWARDS_TIME_JUMP_S off after (by decide) (fuelFor ms) ms.reverse Y none).1

/-! ### 29 February (Issue #245) -/

/-- `C11_years` without the "no 29 February" hypothesis -/
def C11_years_full : Prop :=
  ∀ (off Y : Int) (ts : List TMsg),
    (∀ t ∈ ts, validDate t.y t.mo t.day = true ∧ 0 ≤ t.sod ∧ t.sod < 86400) →
    Adj (Step BACKWARDS_TIME_JUMP_S) ts →
    (∀ t, ts.getLast? = some t → Y = t.y) →
    processMissingYear off Y (ts.map TMsg.msg) none = ts.map fun t => some (t.instant off)

/-- witness: `Jan  2` 2024, `Feb 29` 2024, `Feb 20` 2025 with an mtime in 2025. Read with 2025
the 29 February is not a date, so its line is swallowed by the `Jan  2` message, which then is
not more than 25 h after `Feb 20 2025` and keeps the year 2025. -/
def feb29Witness : List TMsg := [⟨2024, 1, 2, 0⟩, ⟨2024, 2, 29, 43200⟩, ⟨2025, 2, 20, 0⟩]

theorem C11_feb29_witness :
    processMissingYear 0 2025 (feb29Witness.map TMsg.msg) none
      = [some 1735776000, none, some 1740009600] := by decide

theorem C11_years_full_false : ¬ C11_years_full := by
  intro h
  have := h 0 2025 feb29Witness (by decide) (by unfold feb29Witness; decide) (by decide)
  revert this
  decide

/-- a 29 February at the head of the file followed by a later-year message is never re-dated
(the forward pass then parses it with the dummy year 1972) -/
theorem C11_feb29_first_undated :
    processMissingYear 0 2025 [⟨2, 29, 43200⟩, ⟨1, 5, 1800⟩] none = [none, some 1736037000] := by decide

/-- a 29 February as LAST line, mtime in a leap year: it is stored with the leap year, then the
message before it steps the year back (December→…) and, re-read with the common year, takes the
29 February line as a continuation line — the last message loses its sysline (found by the
in-process correspondence; same root as Issue #245) -/
theorem C11_last_feb29_lost :
    processMissingYear 0 2044 [⟨10, 31, 0⟩, ⟨2, 29, 0⟩] none = [some 2329862400, none] := by decide   -- 2043-10-31

/-- `C11_last_year` without the plain-file hypothesis is false of the model (and of the code) -/
theorem C11_last_year_full_false :
    ¬ (∀ (off Y : Int) (ms : List Msg) (m : Msg), validDate Y m.mo m.day = true →
        (processMissingYear off Y (ms ++ [m]) none).getLast? = some (dateWith off Y m)) := by
  intro h
  have := h 0 2044 [⟨10, 31, 0⟩] ⟨2, 29, 0⟩ (by decide)
  revert this
  decide

/-- text before the first message and a 29 February first: the message after it is found AGAIN
after the year was stepped back for the 29 February, and is re-dated one year early -/
theorem C11_refind_redates :
    processMissingYearL true 0 2004 [⟨2, 29, 0⟩, ⟨1, 4, 0⟩, ⟨1, 15, 0⟩] none
      = [none, some 1041638400, some 1074124800] := by decide   -- 2003-01-04, 2004-01-15

/-! ### counter-models: what the two planted defects of the loop body do -/

/-- planted defect 1: `if fo_prev < charsz_fo { break; }` moved in front of the jump test -/
def skelStartExitFirst : Skel := { skel with decisions := [.startExit, .jump, .afterFilter] }

/-- With the start-of-file exit in front of the jump test the first message of the file is never
compared with its successor: a 2-message file whose first message, read with the mtime's year `Y`,
is more than the threshold AFTER the second one (the December→January wrap lies between them)
keeps the year `Y` for message 1 — one year late; the stored dates then step back by more than the
threshold, i.e. `C11_monotone` is false of that skeleton. -/
theorem start_exit_before_jump_misdates_first (off Y : Int) (m1 m2 : Msg) (t1 t2 : Int)
    (h1 : dateWith off Y m1 = some t1) (h2 : dateWith off Y m2 = some t2)
    (hwrap : t1 - t2 > BACKWARDS_TIME_JUMP_S) :
    processMissingYearG skelStartExitFirst false off Y [m1, m2] none = [some t1, some t2] ∧
      ¬ Adj (fun a b => a ≤ b + BACKWARDS_TIME_JUMP_S)
          ((processMissingYearG skelStartExitFirst false off Y [m1, m2] none).filterMap id) := by
  have hres : processMissingYearG skelStartExitFirst false off Y [m1, m2] none = [some t1, some t2] := by
    simp [processMissingYearG, fuelFor, walkG, findParse, h1, h2, verdict, verdictL, decision,
      skelStartExitFirst, skel, jumpedG, breaksAfterG, afterVariant, S4V.Gen.Filter.dtAfterOrBefore,
      S4V.Gen.Year.AFTER_FILTER_BREAKS_ON, blank]
  refine ⟨hres, ?_⟩
  rw [hres]
  simp only [List.filterMap_cons, id, List.filterMap_nil, Adj]
  omega

/-- the same file under the skeleton of the current source: message 1 is re-read with `Y - 1` -/
theorem current_source_dates_first (off Y : Int) (m1 m2 : Msg) (t1 t2 t1' : Int)
    (h1 : dateWith off Y m1 = some t1) (h2 : dateWith off Y m2 = some t2)
    (hwrap : t1 - t2 > BACKWARDS_TIME_JUMP_S)
    (h1' : dateWith off (Y - 1) m1 = some t1') (h2' : (dateWith off (Y - 1) m2).isSome = true) (hle : t1' ≤ t2) :
    processMissingYear off Y [m1, m2] none = [some t1', some t2] := by
  unfold processMissingYear
  rw [pmy_nf]
  have hlt : t2 < t1 := by have : (0 : Int) < BACKWARDS_TIME_JUMP_S := by decide
                           omega
  have hnj : ¬ (t2 < t1' ∧ BACKWARDS_TIME_JUMP_S < t1' - t2) := by omega
  simp [fuelFor, walkNF, findParse, refind, blank, h1, h2, h1', h2', jumpedNF, beforeWindow, hlt, hwrap, hnj]

example : processMissingYearG skelStartExitFirst false 0 2021 [⟨12, 31, 86399⟩, ⟨1, 1, 0⟩] none
    = [some 1640995199, some 1609459200] := by decide   -- 2021-12-31T23:59:59 (wrong), 2021-01-01T00:00:00

example : processMissingYear 0 2021 [⟨12, 31, 86399⟩, ⟨1, 1, 0⟩] none
    = [some 1609459199, some 1609459200] := by decide   -- 2020-12-31T23:59:59

/-- planted defect 2: an extra `if filter_dt_after_opt.as_ref() == Some(syslinep.dt()) { break; }` -/
def skelBreakOnEqual : Skel := { skel with decisions := [.jump, .startExit, .equalAfter, .afterFilter] }

/-- With a break on `dt == --dt-after`, of two messages at the same instant `A` only the later one
is re-dated under `-a A`; the earlier one — inside the window — keeps the filler year. -/
theorem break_on_equal_after_loses (lead : Bool) (off Y : Int) (m : Msg) (A : Int)
    (h : dateWith off Y m = some A) :
    processMissingYearG skelBreakOnEqual lead off Y [m, m] (some A) = [none, some A] := by
  simp [processMissingYearG, fuelFor, walkG, findParse, h, verdict, verdictL, decision,
    skelBreakOnEqual, skel, jumpedG, blank]

/-- the current source re-dates both -/
theorem current_source_keeps_equal (lead : Bool) (off Y : Int) (m : Msg) (A : Int)
    (h : dateWith off Y m = some A) :
    processMissingYearL lead off Y [m, m] (some A) = [some A, some A] := by
  rw [pmy_nf]
  have hJ : ¬ (BACKWARDS_TIME_JUMP_S < 0) := by decide
  simp [fuelFor, walkNF, findParse, refind, blank, h, jumpedNF, beforeWindow, hJ]

end S4V.Props.YearSpec
