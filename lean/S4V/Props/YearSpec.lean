/-
C11 — year-less timestamps receive the right year.

Model: `S4V.Model.Year.processMissingYear off mtimeYear msgs after` (mirror of
`SyslogProcessor::process_missing_year`), threshold `S4V.Gen.Consts.BACKWARDS_TIME_JUMP_S`
regenerated from `BACKWARDS_TIME_JUMP_MEANS_NEW_YEAR`.

Proved here
* `C11_last_year`    the last message is dated in the year of the mtime
* `C11_years`        every message gets its true year (hypotheses: no 29 February, the true
                     year never decreases, time never runs backwards by more than the
                     threshold, consecutive gaps < 365 days − threshold, mtime in the last
                     message's year); non-vacuity: `example` over two year boundaries
* `C11_window`       the same with `--dt-after A`: exact description of which messages are
                     re-dated (all down to and including the first one before `A`)
* `C11_monotone`     unconditional: the dates produced never step back by more than the threshold
* `C11_threshold`    the generated threshold is 25 h
* `C11_years_full_false`  the statement without the 29-February exclusion is FALSE of the model
                     (and of the code: witness replayed by vlib/props/C11.py), Issue #245
* `C11_feb29_first_undated` a leading 29 February is never re-dated (the code then prints it
                     with the dummy year 1972)

Not modelled here (checked end to end by vlib/props/C11.py): where the mtime comes from
per container, printing order, and that window/merge use the stored dates.
-/
import S4V.Lemmas.Year

namespace S4V.Props.YearSpec
open S4V.Model.Time S4V.Model.Year S4V.Lemmas.Time S4V.Lemmas.Year
open S4V.Gen.Consts

/-- the generated `BACKWARDS_TIME_JUMP_MEANS_NEW_YEAR` is 25 hours -/
theorem C11_threshold : BACKWARDS_TIME_JUMP_S = 25 * 3600 := by decide

/-- The last message of the file is dated in the year of the file's mtime. -/
theorem C11_last_year (off Y : Int) (ms : List Msg) (m : Msg) (after : Option Int)
    (h : validDate Y m.mo m.day = true) :
    (processMissingYear off Y (ms ++ [m]) after).getLast? = some (dateWith off Y m) := by
  unfold processMissingYear fuelFor
  rw [List.reverse_append]
  simp only [List.reverse_cons, List.reverse_nil, List.nil_append, List.singleton_append]
  have hd : dateWith off Y m = some (daysFromCivil Y m.mo m.day * 86400 + m.sod - off) := by
    simp [dateWith, h]
  unfold walk
  simp only [findParse, hd, jumped, Bool.false_eq_true, if_false, List.replicate, List.nil_append]
  simp

/-- a file (in file order) of messages with their true years, acceptable to `C11_years` -/
def WellDated (ts : List TMsg) : Prop :=
  (∀ t ∈ ts, t.Ok) ∧ Adj (Step BACKWARDS_TIME_JUMP_S) ts

/-- **C11 (years).** If no message is a 29 February, the true year never decreases along the
file, time never runs backwards by more than 25 h, consecutive messages are less than
365 days − 25 h apart, and the mtime lies in the last message's year, then every message is
dated with its true year (so the year steps back exactly at each December→January wrap). -/
theorem C11_years (off Y : Int) (ts : List TMsg) (hw : WellDated ts)
    (hY : ∀ t, ts.getLast? = some t → Y = t.y) :
    processMissingYear off Y (ts.map TMsg.msg) none = ts.map fun t => some (t.instant off) := by
  unfold processMissingYear
  rw [← List.map_reverse]
  have hadj : Adj (fun b a => Step BACKWARDS_TIME_JUMP_S a b) ts.reverse :=
    (adj_reverse (fun b a => Step BACKWARDS_TIME_JUMP_S a b) ts).mpr hw.2
  rw [walk_true_years BACKWARDS_TIME_JUMP_S off none (by decide) ts.reverse (fuelFor (ts.map TMsg.msg)) Y none
    (by simp [fuelFor]) (by intro t ht; exact hw.1 t (by simpa using ht)) hadj
    (by
      intro r hr
      refine Or.inl ⟨rfl, hY r ?_⟩
      rw [List.head?_reverse] at hr; exact hr)]
  simp [stopSpec_none, List.map_reverse, Function.comp_def]

/-- **C11 (window).** With `--dt-after A` the backward pass stops at the first message (walking
back) that is before `A`: that message and all later ones carry their true dates, earlier
ones are left undated (`none`) — they are before the window in a chronological file. -/
theorem C11_window (off Y : Int) (after : Option Int) (ts : List TMsg) (hw : WellDated ts)
    (hY : ∀ t, ts.getLast? = some t → Y = t.y) :
    processMissingYear off Y (ts.map TMsg.msg) after
      = (stopSpec after (ts.reverse.map (TMsg.instant off))).reverse := by
  unfold processMissingYear
  rw [← List.map_reverse]
  have hadj : Adj (fun b a => Step BACKWARDS_TIME_JUMP_S a b) ts.reverse :=
    (adj_reverse (fun b a => Step BACKWARDS_TIME_JUMP_S a b) ts).mpr hw.2
  rw [walk_true_years BACKWARDS_TIME_JUMP_S off after (by decide) ts.reverse (fuelFor (ts.map TMsg.msg)) Y none
    (by simp [fuelFor]) (by intro t ht; exact hw.1 t (by simpa using ht)) hadj
    (by
      intro r hr
      refine Or.inl ⟨rfl, hY r ?_⟩
      rw [List.head?_reverse] at hr; exact hr)]

/-- the hypotheses of `C11_years` are satisfiable: a file spanning two year boundaries,
with a 20-hour backward step and an 11-month gap -/
def sample : List TMsg :=
  [⟨2019, 12, 30, 36000⟩, ⟨2019, 12, 31, 86399⟩, ⟨2020, 1, 1, 0⟩, ⟨2020, 1, 1, 1⟩,
   ⟨2020, 12, 1, 0⟩, ⟨2021, 1, 5, 1800⟩, ⟨2021, 1, 4, 9000⟩]

example : WellDated sample := by
  unfold WellDated
  constructor
  · decide
  · unfold sample; decide

example : processMissingYear 0 2021 (sample.map TMsg.msg) none = sample.map fun t => some (t.instant 0) := by
  decide

/-- **C11 (monotone).** Whatever the file and the mtime, the dates stored by the pass never
step back by more than the threshold from one dated message to the next dated one. -/
theorem C11_monotone (off Y : Int) (ms : List Msg) (after : Option Int) :
    Adj (fun a b => a ≤ b + BACKWARDS_TIME_JUMP_S) ((processMissingYear off Y ms after).filterMap id) := by
  unfold processMissingYear
  rw [List.filterMap_reverse, adj_reverse]
  exact (walk_revOK BACKWARDS_TIME_JUMP_S off after (by decide) (fuelFor ms) ms.reverse Y none).1

/-! ### 29 February (Issue #245) -/

/-- `C11_years` without the "no 29 February" hypothesis -/
def C11_years_full : Prop :=
  ∀ (off Y : Int) (ts : List TMsg),
    (∀ t ∈ ts, validDate t.y t.mo t.day = true ∧ 0 ≤ t.sod ∧ t.sod < 86400) →
    Adj (Step BACKWARDS_TIME_JUMP_S) ts →
    (∀ t, ts.getLast? = some t → Y = t.y) →
    processMissingYear off Y (ts.map TMsg.msg) none = ts.map fun t => some (t.instant off)

/-- witness: `Jan  2` 2024, `Feb 29` 2024, `Feb 20` 2025 with an mtime in 2025. Read with 2025
the 29 February is not a date, so its line is swallowed by the `Jan  2` message, which then is
not more than 25 h after `Feb 20 2025` and keeps the year 2025. -/
def feb29Witness : List TMsg := [⟨2024, 1, 2, 0⟩, ⟨2024, 2, 29, 43200⟩, ⟨2025, 2, 20, 0⟩]

theorem C11_feb29_witness :
    processMissingYear 0 2025 (feb29Witness.map TMsg.msg) none
      = [some 1735776000, none, some 1740009600] := by decide

theorem C11_years_full_false : ¬ C11_years_full := by
  intro h
  have := h 0 2025 feb29Witness (by decide) (by unfold feb29Witness; decide) (by decide)
  revert this
  decide

/-- a 29 February at the head of the file followed by a later-year message is never re-dated
(the forward pass then parses it with the dummy year 1972) -/
theorem C11_feb29_first_undated :
    processMissingYear 0 2025 [⟨2, 29, 43200⟩, ⟨1, 5, 1800⟩] none = [none, some 1736037000] := by decide

end S4V.Props.YearSpec
