/-
Property C08 (also C12: block-size independence, C05: streamed reads) — the record walk of `FixedStructReader`
inside the model.

What is proved here, for ALL file contents `d`, record sizes `sz ≥ 1`, windows, and for the plain reader as well as the
streamed reader that keeps its blocks (`new` calls `disable_drop_data` on a streamed file: generated
`STREAMED_KEEPS_BLOCKS`):

* `readData_spec`       `read_data_to_buffer(beg, end, false, buf)` = `d[beg, min end |d|)` for requests of at most one
                        block size (the data lies in one block or in two adjacent blocks: arms One and Two), exact
                        `Done` / `Err` conditions;
* `preprocess_spec`     the map `preprocess_timevalues` builds is `SortDrain.build` of the non-null in-window records
                        keyed `(tv, fo)`; the four counters;
* `walk_spec`           from `fileoffset_first`, `process_entry_at` visits exactly the keys of the map in ascending order,
                        each once, each record = `d[fo, fo + sz)` whether it comes from the cache or from a fresh read,
                        then `Done`;
* `C08_walk_is_stable_sort`   hence the visited offsets are `SortSpec.C08_order`'s stable sort by time;
* drops                 `dropBlock` keeps the reader faithful (`Faithful.drop`), so every later read is still exact.

The theorems are stated for block sizes `bs ≥ sz` (a record spans at most two blocks). For `bs < sz` the record is
assembled by the Many arm of `read_data`, which the model contains (`readData`, `copyMany`) and the correspondence `fwalk`
exercises (block sizes from 1), but whose exactness is not proved here.

Counter-models (`*_loses`, `*_wrong`): the other value of each regenerated fact, on concrete files.
-/
import S4V.Lemmas.FixedWalkRead
import S4V.Props.SortSpec

namespace S4V.Props.FixedWalkSpec
open S4V.Gen.Blocks S4V.Gen.Stream S4V.Gen.Keys S4V.Gen.FixedWalk S4V.Model.Lines S4V.Model.Stream
  S4V.Model.SortDrain S4V.Model.FixedWalk S4V.Lemmas.SortDrain S4V.Lemmas.Stream S4V.Lemmas.StreamKeep
  S4V.Lemmas.FixedWalk S4V.Lemmas.FixedWalkRead

/-! ### the two readers -/

/-- invariant of the plain-file reader -/
def PlainI (d : Bytes) (bs : Nat) : Rd → Prop := fun r => PInv d r ∧ r.bs = bs
/-- invariant of the streamed reader after `disable_drop_data` -/
def KeepI (d : Bytes) (bs : Nat) : Rd → Prop := fun r => (∃ n, KInv d r n) ∧ r.bs = bs

theorem plain_new (d : Bytes) (bs : Nat) (hbs : 1 ≤ bs) : PlainI d bs (rdNew cfg0 .plain bs d [] []) := by
  have : rdNew cfg0 .plain bs d [] [] = Rd.new .plain bs d [] [] := by simp [rdNew]
  rw [this]
  exact ⟨PInv.new bs d [] [] hbs, rfl⟩

/-- `new` on a streamed file: gz / bz2 / lz4 with every chunking of the decoder -/
theorem keep_new (kind : Kind) (d : Bytes) (bs : Nat) (cs csPre : List Nat) (hbs : 1 ≤ bs)
    (hk : kind = .gz ∨ kind = .bz2 ∨ kind = .lz4) : KeepI d bs (rdNew cfg0 kind bs d cs csPre) := by
  have hne : kind ≠ .plain := by rcases hk with h | h | h <;> rw [h] <;> decide
  have : rdNew cfg0 kind bs d cs csPre = (Rd.new kind bs d cs csPre).disableDropData := by
    simp [rdNew, cfg0, STREAMED_KEEPS_BLOCKS, hne]
  rw [this]
  have hdec : DecOk kind bs cs := by
    rcases hk with h | h | h
    · exact Or.inl h
    · exact Or.inr (Or.inl h)
    · exact Or.inr (Or.inr (Or.inl h))
  obtain ⟨h, e⟩ := KInv.new kind bs d cs csPre hbs hdec
  exact ⟨⟨0, h⟩, e⟩

theorem plain_exact (d : Bytes) (bs : Nat) (hbs : 1 ≤ bs) : ReadsExact d (PlainI d bs) bs :=
  readsExact_short (faithful_plain d bs hbs)

theorem keep_exact (d : Bytes) (bs : Nat) (hbs : 1 ≤ bs) : ReadsExact d (KeepI d bs) bs :=
  readsExact_short (faithful_keep d bs hbs)

/-! ### `read_data_to_buffer` -/

/-- **readData_spec** — from any state of a faithful reader (plain file: any history of reads and drops; streamed file
with blocks kept: any history), a request of at most `bs` bytes returns exactly `d[beg, min end |d|)`:
`Done` iff that range is empty, `Err` iff the buffer is shorter than the range. Independent of where the block
boundaries fall. -/
theorem readData_spec {d : Bytes} {bs : Nat} {I : Rd → Prop} (hF : Faithful d bs I) (r : Rd) (beg e len : Nat)
    (hr : I r) (hlen : 1 ≤ len) (hspan : e ≤ beg + bs) :
    ∃ r', I r' ∧ readDataToBuffer r beg e false len =
      (if beg ≥ min e d.length then R3.done
       else if len < min e d.length - beg then R3.err
       else R3.found (sl d beg (min e d.length)), r') := by
  obtain ⟨r', h1, _, h3⟩ := read_exact_short hF r beg e len hr hlen hspan
  exact ⟨r', h1, h3⟩

/-- an empty buffer is an error before anything is read -/
theorem readData_empty_buffer (r : Rd) (beg e : Nat) (o : Bool) : readDataToBuffer r beg e o 0 = (.err, r) := by
  simp [readDataToBuffer, lenCheckFails, LEN_CHECK_STRICT]

-- non-vacuity and the arms beyond the theorem (Many, with `bs = 1, 2`), plain and gz, across block sizes
example : (readDataSeq (Rd.new .plain 4 [1, 2, 3, 4, 5, 6, 7, 8, 9] [] []) [(2, 7, false, 9), (7, 20, false, 9), (9, 12, false, 3), (3, 6, false, 2)]).1
    = [.found [3, 4, 5, 6, 7], .found [8, 9], .done, .err] := by decide
example : ∀ bs ∈ [1, 2, 3, 4, 5, 9, 10],
    (readDataSeq (Rd.new .plain bs [1, 2, 3, 4, 5, 6, 7, 8, 9] [] []) [(1, 8, false, 9), (0, 9, false, 9), (8, 9, false, 1)]).1
      = [.found [2, 3, 4, 5, 6, 7, 8], .found [1, 2, 3, 4, 5, 6, 7, 8, 9], .found [9]] := by decide
example : ∀ bs ∈ [1, 2, 3, 4, 9],
    (readDataSeq (Rd.new .gz bs [1, 2, 3, 4, 5, 6, 7, 8, 9] [] []).disableDropData [(5, 9, false, 9), (0, 6, false, 9)]).1
      = [.found [6, 7, 8, 9], .found [1, 2, 3, 4, 5, 6]] := by decide
-- `oneblock = true`: Done as soon as the range leaves the first block
example : (readDataSeq (Rd.new .plain 4 [1, 2, 3, 4, 5, 6, 7, 8, 9] [] []) [(2, 4, true, 9), (2, 5, true, 9)]).1
    = [.found [3, 4], .done] := by decide

/-! ### `preprocess_timevalues` -/

/-- the records of the file: offsets `0, sz, 2·sz, …` below `|d|`, with the time value read from `tvSz` bytes at `tvOff` -/
def recsOf (p : P) (d : Bytes) : List Rec := recsAt p d (offs p.sz (d.length / p.sz) 0)

/-- **preprocess_spec** — whatever the block size (`≥` the size of a time value) and reader kind: the loop ends with `Done`,
the map is the ordered map of the non-null in-window records keyed `(tv, fo) ↦ fo`, and
`total_entries` = non-null records, `invalid` = records without a time value, `valid_no_pass_filter` = non-null records
outside the window, `out_of_order` = non-null records earlier than the previous non-null record. -/
theorem preprocess_spec {d : Bytes} {I : Rd → Prop} {span : Nat} (hI : ReadsExact d I span) (p : P)
    (a b : Option (Int × Int)) (hsz : 1 ≤ p.sz) (htv : 1 ≤ p.tvSz) (hin : p.tvOff + p.tvSz ≤ p.sz) (hsp : p.tvSz ≤ span)
    (hdiv : d.length % p.sz = 0) (r : Rd) (hr : I r) :
    ∃ r' k, I r' ∧ r'.bs = r.bs ∧
      preprocess cfg0 p a b r =
        (.found (k, build (((recsOf p d).filter (fixedKeep a b)).map fun x => (fixedKey x, x.idx))), r')
      ∧ k.total = (nonNull (recsOf p d)).length
      ∧ k.invalid = noneCount p d (offs p.sz (d.length / p.sz) 0)
      ∧ k.noPass = ((nonNull (recsOf p d)).filter (fun x => !fixedKeep a b x)).length
      ∧ k.ooo = descents none (nonNull (recsOf p d)) := by
  have hn : 0 + d.length / p.sz * p.sz = d.length := by
    have := Nat.div_add_mod' d.length p.sz
    omega
  have hle : d.length / p.sz ≤ d.length := Nat.div_le_self _ _
  obtain ⟨r', h1, h2, h3⟩ := preLoop_eq hI p a b hsz htv hin hsp (d.length / p.sz) (r.fsz + 2) r 0
    (List.replicate p.tvSz 0) (none, {}, []) hr (by rw [hI.fsz r hr]; omega) hn (by simp)
  have hm := preFold_map p a b d (offs p.sz (d.length / p.sz) 0) (none, {}, [])
  obtain ⟨c1, c2, c3, c4⟩ := preFold_cnt p a b d (offs p.sz (d.length / p.sz) 0) (none, {}, [])
  refine ⟨r', (preFold cfg0 p a b d (offs p.sz (d.length / p.sz) 0) (none, {}, [])).2.1, h1, h2, ?_, ?_, ?_, ?_, ?_⟩
  · unfold preprocess
    rw [h3, hm]
    rfl
  · simpa [recsOf] using c1
  · simpa using c2
  · simpa [recsOf] using c3
  · simpa [recsOf] using c4

/-! ### the walk -/

theorem offs_pairwise {sz : Nat} (hsz : 1 ≤ sz) : ∀ (n fo : Nat), (offs sz n fo).Pairwise (· < ·) := by
  intro n
  induction n with
  | zero => intro fo; exact List.Pairwise.nil
  | succ n ih =>
    intro fo
    simp only [offs, List.pairwise_cons]
    refine ⟨?_, ih _⟩
    intro x hx
    obtain ⟨i, _, e⟩ := offs_mem hx
    rw [e]; have : 0 ≤ i * sz := Nat.zero_le _
    omega

theorem recsAt_idx (p : P) (d : Bytes) : ∀ (os : List Nat) (x : Rec), x ∈ recsAt p d os → x.idx ∈ os := by
  intro os
  induction os with
  | nil => intro x h; cases h
  | cons fo rest ih =>
    intro x h
    simp only [recsAt] at h
    cases htv : tvAt p d fo with
    | none => rw [htv] at h; exact List.mem_cons_of_mem _ (ih x h)
    | some tv =>
      rw [htv] at h
      rcases List.mem_cons.1 h with h | h
      · rw [h]; exact List.mem_cons_self ..
      · exact List.mem_cons_of_mem _ (ih x h)

theorem recsAt_pairwise (p : P) (d : Bytes) : ∀ (os : List Nat), os.Pairwise (· < ·) →
    (recsAt p d os).Pairwise (fun x y => x.idx < y.idx) := by
  intro os
  induction os with
  | nil => intro _; exact List.Pairwise.nil
  | cons fo rest ih =>
    intro h
    rw [List.pairwise_cons] at h
    simp only [recsAt]
    cases htv : tvAt p d fo with
    | none => exact ih h.2
    | some tv =>
      simp only
      rw [List.pairwise_cons]
      exact ⟨fun y hy => h.1 _ (recsAt_idx p d rest y hy), ih h.2⟩

theorem recsOf_pairwise (p : P) (d : Bytes) (hsz : 1 ≤ p.sz) : (recsOf p d).Pairwise (fun x y => x.idx < y.idx) :=
  recsAt_pairwise p d _ (offs_pairwise hsz _ _)

/-- the map `preprocess_timevalues` builds is well formed: strictly sorted, its offsets are record offsets inside the file,
no offset twice -/
theorem built_mapOk (p : P) (d : Bytes) (a b : Option (Int × Int)) (hsz : 1 ≤ p.sz) (hdiv : d.length % p.sz = 0) :
    MapOk p.sz d.length (build (((recsOf p d).filter (fixedKeep a b)).map fun x => (fixedKey x, x.idx))) := by
  have hpw := recsOf_pairwise p d hsz
  have hL : ((recsOf p d).filter (fixedKeep a b)).Pairwise (fun x y => x.idx < y.idx) := hpw.sublist List.filter_sublist
  have hnd : ((((recsOf p d).filter (fixedKeep a b)).map fun x => (fixedKey x, x.idx)).map (·.1)).Nodup := by
    rw [List.map_map, List.Nodup, List.pairwise_map]
    exact hL.imp (fun h => SortSpec.fixedKey_ne h)
  have hperm := SortSpec.build_mem_of_distinct hnd
  refine ⟨build_ksorted _, ?_, ?_⟩
  · intro e he
    have he' := hperm.mem_iff.1 he
    obtain ⟨x, hx, rfl⟩ := List.mem_map.1 he'
    have hx' := (List.mem_filter.1 hx).1
    have hidx := recsAt_idx p d _ x hx'
    obtain ⟨i, hi, e⟩ := offs_mem hidx
    simp only
    rw [e, Nat.zero_add]
    have h1 := Nat.div_add_mod' d.length p.sz
    have h2 : (i + 1) * p.sz ≤ d.length / p.sz * p.sz := Nat.mul_le_mul_right _ hi
    rw [Nat.add_mul] at h2
    exact ⟨Nat.mul_mod_left i p.sz, by omega⟩
  · have := (hperm.map (·.2)).nodup_iff.2
    apply this
    rw [List.map_map]
    rw [List.Nodup, List.pairwise_map]
    exact hL.imp (fun h => by simp only [Function.comp]; omega)

/-- **walk_spec** — the reader `new` built (`frNew … = ok fr …`, with ANY set of records pre-parsed by `score_file`
in its cache, as long as each is the record of the file at its offset), driven as `exec_fixedstructprocessor` drives it:
one entry per key of the map, in ascending `(tv, fo)` order, each with the bytes `d[fo, fo + sz)`, then `Done`.
A record `FixedStruct::new` rejects is a recoverable error (`Emit.bad`) and the walk goes on.
Block sizes `bs ≥ sz`; plain or streamed reader (any `I` with exact reads). -/
theorem walk_spec {d : Bytes} {I : Rd → Prop} {span : Nat} (hI : ReadsExact d I span) (p : P)
    (a b : Option (Int × Int)) (hsz : 1 ≤ p.sz) (htv : 1 ≤ p.tvSz) (hin : p.tvOff + p.tvSz ≤ p.sz) (hsp : p.sz ≤ span)
    (hdiv : d.length % p.sz = 0) (r : Rd) (hr : I r) (scored : List (Nat × Bytes)) (hsc : CacheOk p d scored)
    (buflen : Nat) (hbuf : p.sz ≤ buflen) {fr : FR} {k : Cnt} {fef mx : Nat}
    (hnew : frNew cfg0 p a b r scored = .ok fr k fef mx) :
    fr.map = build (((recsOf p d).filter (fixedKeep a b)).map fun x => (fixedKey x, x.idx))
    ∧ ∃ fr', walk cfg0 p buflen fr = (fr.map.map (emitOf p d), .done, fr') := by
  obtain ⟨r', k', h1, _, h3, _⟩ := preprocess_spec hI p a b hsz htv hin (by omega) hdiv r hr
  unfold frNew at hnew
  rw [h3] at hnew
  simp only at hnew
  split at hnew
  · split at hnew <;> cases hnew
  · rename_i hne
    injection hnew with e1 e2 e3 e4
    subst e1
    refine ⟨rfl, ?_⟩
    simp only
    have hok := built_mapOk p d a b hsz hdiv
    generalize hm : build (((recsOf p d).filter (fixedKeep a b)).map fun x => (fixedKey x, x.idx)) = m at hok hne ⊢
    cases m with
    | nil => simp at hne
    | cons e rest =>
      obtain ⟨k0, fo0⟩ := e
      unfold walk
      simp only [foFirst_head hok.sorted]
      obtain ⟨fr', _, _, _, f4⟩ := walkLoop_spec hI p hsz hsp hdiv buflen hbuf rest (rest.length + 1 + 2)
        { rd := r', map := (k0, fo0) :: rest, cache := scored.filter (fun e => ((k0, fo0) :: rest).any (fun x => x.2 == e.1)),
          use := useBuild r'.bs p.sz ((k0, fo0) :: rest),
          processed := (scored.filter (fun e => ((k0, fo0) :: rest).any (fun x => x.2 == e.1))).length }
        k0 fo0 [] h1 rfl hok (hsc.filter _) (by omega)
      exact ⟨fr', by simpa using f4⟩

/-- **C08_walk_is_stable_sort** — the offsets the worker visits are the non-null in-window records of the file stably
sorted by time value (equal times in file order): `SortSpec.C08_order` applied to the map `walk_spec` walks. So the
printed sequence is the same for every block size `≥ sz` and for plain or streamed (blocks kept) reads. -/
theorem C08_walk_is_stable_sort {d : Bytes} {I : Rd → Prop} {span : Nat} (hI : ReadsExact d I span) (p : P)
    (a b : Option (Int × Int)) (hsz : 1 ≤ p.sz) (htv : 1 ≤ p.tvSz) (hin : p.tvOff + p.tvSz ≤ p.sz) (hsp : p.sz ≤ span)
    (hdiv : d.length % p.sz = 0) (r : Rd) (hr : I r) (scored : List (Nat × Bytes)) (hsc : CacheOk p d scored)
    (buflen : Nat) (hbuf : p.sz ≤ buflen) {fr : FR} {k : Cnt} {fef mx : Nat}
    (hnew : frNew cfg0 p a b r scored = .ok fr k fef mx) :
    ∃ fr', walk cfg0 p buflen fr = (fr.map.map (emitOf p d), .done, fr')
      ∧ fr.map.map (·.2) =
          (stableSort (fun x : Rec => (x.tv.1, x.tv.2, 0)) ((recsOf p d).filter (fixedKeep a b))).map (·.idx) := by
  obtain ⟨hm, fr', hw⟩ := walk_spec hI p a b hsz htv hin hsp hdiv r hr scored hsc buflen hbuf hnew
  refine ⟨fr', hw, ?_⟩
  rw [hm]
  exact SortSpec.C08_order (recsOf_pairwise p d hsz) a b

/-! ### concrete runs and counter-models -/

/-- a toy layout: 2-byte records, the first byte is the time (seconds), `[9, 9]` is rejected by `FixedStruct::new` -/
def pT : P :=
  { sz := 2, tvOff := 0, tvSz := 1,
    tvOf := fun b => match b with | [x] => some (x.toNat, 0) | _ => none,
    newOk := fun r => r != [9, 9] }

/-- `new` (given what `score_file` cached) + the worker loop: what is sent, how the loop ended -/
def runWalk (c : Cfg) (kind : Kind) (bs : Nat) (d : Bytes) (a b : Option (Int × Int)) (scored : List (Nat × Bytes)) :
    Option (List Emit × End) :=
  match frNew c pT a b (rdNew c kind bs d [] []) scored with
  | .ok fr _ _ _ => let w := walk c pT 8 fr; some (w.1, w.2.1)
  | _ => none

/-- five records: times 3, 1, 2, 0 (null), 2 -/
def dT : Bytes := [3, 10, 1, 11, 2, 12, 0, 13, 2, 14]

def expectedT : List Emit := [.msg 2 [1, 11] false, .msg 4 [2, 12] false, .msg 8 [2, 14] true, .msg 0 [3, 10] false]

/-- the same sequence for every block size (1 and 2: a record spans blocks; 3: records straddle boundaries; 10, 64: one
block), plain or gz, with or without cached records: time order, the tie 4/8 in file order, the null record skipped;
`is_last` marks the positionally last record, which is NOT the last one sent -/
theorem walk_example :
    (∀ bs ∈ [1, 2, 3, 4, 10, 64], ∀ kind ∈ [Kind.plain, Kind.gz],
      ∀ scored ∈ [[], [(0, [3, 10]), (4, [2, 12])], [(8, [2, 14])]],
        runWalk cfg0 kind bs dT none none scored = some (expectedT, .done)) := by decide

/-- a record `FixedStruct::new` rejects: a recoverable error, the walk goes on -/
example : runWalk cfg0 .plain 3 [3, 10, 9, 9, 2, 12] none none [] = some ([.msg 4 [2, 12] true, .msg 0 [3, 10] false, .bad], .done) := by
  decide

/-- window: both bounds inclusive -/
example : runWalk cfg0 .plain 3 dT (some (2, 0)) (some (3, 0)) [] = some ([.msg 4 [2, 12] false, .msg 8 [2, 14] true, .msg 0 [3, 10] false], .done) := by
  decide

/-- counter-model — `fo_next_` taken from the CURRENT pair (match-this before take-next): the first record is sent twice,
then the walk stops -/
theorem next_from_current_wrong :
    runWalk { cfg0 with nextFirst := false } .plain 3 dT none none [] = some ([.msg 2 [1, 11] false, .msg 2 [1, 11] false], .done) := by
  decide

/-- counter-model — prefilter `<` → `<=`: the records AT the lower bound are lost -/
theorem prefilter_le_loses :
    runWalk { cfg0 with skipAfter := fun tv f => fixedSkipAfter tv f || tv == f } .plain 3 dT (some (2, 0)) (some (3, 0)) []
      = some ([.msg 0 [3, 10] false], .done) := by decide

/-- counter-model — reading `end - 1`: every record loses its last byte (the zeroed slice shows through) -/
theorem read_end_minus_one_wrong :
    runWalk { cfg0 with recEnd := fun fo sz => fo + sz - 1 } .plain 3 dT none none []
      = some ([.msg 2 [1, 0] false, .msg 4 [2, 0] false, .msg 8 [2, 0] true, .msg 0 [3, 0] false], .done) := by decide

/-- … but a record served from the cache is unaffected: cache and fresh read would disagree -/
example :
    runWalk { cfg0 with recEnd := fun fo sz => fo + sz - 1 } .plain 3 dT none none [(4, [2, 12])]
      = some ([.msg 2 [1, 0] false, .msg 4 [2, 12] false, .msg 8 [2, 0] true, .msg 0 [3, 0] false], .done) := by decide

/-- counter-model — reading one byte less of the time value: an empty request is `Done` at once, no record is found -/
theorem tv_end_minus_one_wrong :
    runWalk { cfg0 with tvEnd := fun b sz => b + sz - 1 } .plain 3 dT none none [] = none := by decide

/-- counter-model (the defect repaired by `fix:` fd997268, F24) — a streamed file whose blocks are NOT kept: the scan reads
ahead, the look-back drop discards the earlier blocks, the first `process_entry_at` gets `Done`: nothing is printed -/
theorem streamed_without_keep_loses :
    (∀ bs ∈ [1, 2, 3], runWalk { cfg0 with keepStreamed := false } .gz bs dT none none [] = some ([], .done))
    ∧ runWalk { cfg0 with keepStreamed := false } .gz 10 dT none none [] = some (expectedT, .done) := by decide

/-- edits that do NOT change what is sent (each key is still visited once): leaving the key in the map, leaving the
record in the cache -/
example : runWalk { cfg0 with removesKey := false } .plain 3 dT none none [(0, [3, 10])] = some (expectedT, .done)
    ∧ runWalk { cfg0 with cacheRemoves := false } .plain 3 dT none none [(0, [3, 10])] = some (expectedT, .done) := by decide

/-- the generated facts the theorems above rest on -/
theorem generated_facts :
    WALK_NEXT_CHECK_FIRST = true ∧ WALK_REMOVES_KEY = true ∧ CACHE_HIT_REMOVES = true ∧ STREAMED_KEEPS_BLOCKS = true
    ∧ PE_DONE_GE = true ∧ NEW_ERR_CONTINUES = true ∧ REC_ONEBLOCK = false ∧ PRE_ONEBLOCK = false
    ∧ RD_MANY_LOOP_INCLUSIVE = true ∧ LEN_CHECK_STRICT = true ∧ USE_COUNT_INCLUSIVE = DROP_LOOP_INCLUSIVE
    ∧ PRE_STEPS = ["invalid", "null", "ooo", "prev", "total", "after", "before", "insert", "advance"]
    ∧ fixedOutOfOrder (1, 0) (1, 0) = false ∧ fixedOutOfOrder (1, 0) (1, 1) = true ∧ fixedOutOfOrder (2, 0) (1, 5) = false
    ∧ dropWhen 1 = true ∧ dropWhen 2 = false ∧ dropEndFo 6 2 = 8 ∧ peFloor 7 2 = 6
    ∧ isLastRec 8 2 10 = true ∧ isLastRec 6 2 10 = false ∧ MANY_MID_SKIP = 1 ∧ MANY_MID_LESS = 2 := by decide

/-! ### drops -/

/-- `drop_entry` never disturbs later reads: whatever blocks it drops (plain file) or fails to drop (streamed file, blocks
kept), the reader stays faithful — so a dropped block that IS needed again (plain file) is read again correctly -/
theorem dropEntry_safe {d : Bytes} {I : Rd → Prop} {span : Nat} (hI : ReadsExact d I span) (p : P) (fr : FR) (fo : Nat)
    (h : I fr.rd) : I (dropEntry p fr fo).rd ∧ (dropEntry p fr fo).map = fr.map ∧ (dropEntry p fr fo).cache = fr.cache := by
  obtain ⟨h1, h2, h3, _⟩ := dropEntry_inv hI p fr fo h
  exact ⟨h1, h2, h3⟩

/-- on a streamed file (`drop_data` off) `drop_entry` drops nothing and counts an error when a use count reaches 1 -/
example :
    let fr : FR := { rd := (Rd.new .gz 2 [1, 2, 3, 4] [] []).disableDropData, map := [], cache := [], use := [(0, 1), (1, 2)] }
    ((dropEntry pT fr 0).dropOk, (dropEntry pT fr 0).dropErr, (dropEntry pT fr 0).use) = (0, 1, [(1, 1), (0, 1)]) := by decide
/-- on a plain file the block whose count reaches 1 is dropped, the other count goes down -/
example :
    let fr : FR := { rd := Rd.new .plain 2 [1, 2, 3, 4] [] [], map := [], cache := [], use := [(0, 1), (1, 2)] }
    ((dropEntry pT fr 0).dropOk, (dropEntry pT fr 0).dropErr, (dropEntry pT fr 0).use) = (1, 0, [(1, 1)]) := by decide

end S4V.Props.FixedWalkSpec
