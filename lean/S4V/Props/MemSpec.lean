/-
C17 — memory held while a text log is streamed.

Model: `S4V.Model.Mem` (stage-3 loop + drop path, counts only) and, for the `blocks` map of a
streamed reader, `S4V.Model.Stream`.

Proved
* `C17_blocks_streamed` (general): a gz / bz2 / lz4 reader asked in non-decreasing order holds
  exactly one block between calls and `blocks_highest ≤ 2`, for every content, block size,
  chunking and request sequence — independent of the file size.
* `C17_full_false`: "retained data stays under a bound independent of the number of messages"
  is false of the code. Three witness families (by evaluation of the model):
  - `long7` + lagging consumer (messages spanning 4 blocks; `Arc::try_unwrap` fails for the
    messages the consumer still holds; `drop_sysline` has already removed them from `syslines`,
    so their lines — and, for a plain file, their blocks — are never dropped): lines, blocks grow
    linearly; `syslines high` stays 4 (as the binary shows);
  - `straddle` + lagging consumer: the same with 2-block messages — a lagging consumer is enough;
  - `aligned` + PROMPT consumer on a plain file: a block whose last byte ends a line is dropped by
    nobody (`drop_line` only drops the blocks of the non-last parts) — every block is retained.
* `C17_bound_partial_general` (general, by an invariant over the stage-3 loop — `S4V.Lemmas.Mem.Inv`,
  preserved by `findMsg` and by the drop): for EVERY list of messages in which message `j` starts in
  block `j`, ends in block `j + 1` and has at most `M` lines (`Straddling M`: each message ends one
  block after it starts, every block boundary is crossed by a line), with a consumer that is not
  lagging: blocks high ≤ 7, lines high ≤ 5·M + 1, syslines high ≤ 5 on a plain file, and
  2 / 5·M + 1 / 5 on a streamed reader — for every number of messages.
  `C17_bound_partial_straddle`: the one-line family `straddle n` gives 7 / 6 / 5 for every `n`; the
  instance checks (`C17_bound_partial_instances`, 10–80 messages) show these bounds are attained.
* `C17_blocks_streamed_loop` (general): in the loop model a streamed reader has blocks high ≤ 2 for
  every input, every consumer lag and either `drop_lines` variant.
* `drop_lines_short_circuit_grows`: the model's line-dropping step depends on the extracted constant
  `DROP_LINES_VISITS_ALL`. With the short-circuit variant (`lines.into_iter().any(..)`: stop at the
  first line whose drop released a block) the 3-line family `cross3 n` (inner line crossing a block
  boundary) retains at least `n` lines for EVERY `n` (general), 20 / 30 / 50 at 10 / 20 / 40 messages
  (evaluated), while the code as extracted keeps 16 for every `n` (`cross3_visit_all_bounded`).
-/
import S4V.Model.Mem
import S4V.Lemmas.Stream
import S4V.Lemmas.Mem

namespace S4V.Props.MemSpec
open S4V.Model.Mem S4V.Gen.Consts S4V.Gen.Stream

/-! ### the `blocks` map of a streamed reader (general) -/

open S4V.Model.Stream S4V.Model.Lines S4V.Lemmas.Stream in
/-- **C17_blocks_streamed**: whatever the file size, content, block size and chunking, after any
non-decreasing sequence of `read_block` calls a gz / bz2 / lz4 reader holds at most one block and
its `blocks_highest` is at most 2 (`READ_BLOCK_LOOKBACK_DROP`) -/
theorem C17_blocks_streamed (kind : Kind) (bs : Nat) (d : Bytes) (cs csPre : List Nat) (ks : List Nat)
    (hbs : 1 ≤ bs) (hk : DecOk kind bs cs) (hord : ks.Pairwise (· ≤ ·)) :
    (readSeq (Rd.new kind bs d cs csPre) ks).2.blocks.length ≤ 1
      ∧ (readSeq (Rd.new kind bs d cs csPre) ks).2.high ≤ 2 := by
  obtain ⟨h, _⟩ := SInv.new kind bs d cs csPre hbs hk
  obtain ⟨n', f1, _, _⟩ := readSeq_stream_state d ks _ 0 h (fun x _ => by omega) hord
  refine ⟨?_, f1.hhigh⟩
  rw [f1.hblocks]
  split <;> simp

open S4V.Model.Stream in
example : (readSeq (Rd.new .gz 2 [1, 2, 3, 4, 5, 6, 7] [1, 3] []) [0, 1, 2, 3]).2.high = 2 := by decide

/-! ### the stage-3 loop -/

def marks (s : St) : Nat × Nat × Nat := (s.bHigh, s.lHigh, s.sHigh)

/-- the unrestricted claim in its literal form: one bound `B` for every number of messages,
every consumer, plain or streamed. Its refutation needs the lower bounds below for EVERY `n`
(an induction over the loop that is not done); what is refuted here is `C17_full`. -/
def C17_unbounded_stmt : Prop :=
  ∃ B, ∀ (streamed : Bool) (lag : Nat → Nat) (n : Nat),
    (run streamed lag (long7 n)).bHigh ≤ B ∧ (run streamed lag (long7 n)).lHigh ≤ B
    ∧ (run streamed lag (straddle n)).lHigh ≤ B ∧ (run streamed lag (aligned n)).bHigh ≤ B

/-- the claim as a steady state: once 10 messages have been printed the high-water marks of
blocks, lines and messages do not rise again, whatever the number of messages, the consumer's
lag (within the channel's capacity) and the container -/
def C17_full : Prop :=
  ∀ (streamed : Bool) (lag : Nat → Nat) (n : Nat), 10 ≤ n →
    (run streamed lag (long7 n)).bHigh ≤ (run streamed lag (long7 10)).bHigh
    ∧ (run streamed lag (long7 n)).lHigh ≤ (run streamed lag (long7 10)).lHigh
    ∧ (run streamed lag (straddle n)).lHigh ≤ (run streamed lag (straddle 10)).lHigh
    ∧ (run streamed lag (aligned n)).bHigh ≤ (run streamed lag (aligned 10)).bHigh

/-- growth of the long-message family under a lagging consumer (plain file): 31 / 61 blocks and
70 / 140 lines retained for 10 / 20 messages -/
theorem long7_lagging_grows :
    marks (run false lagging (long7 10)) = (31, 70, 4) ∧ marks (run false lagging (long7 20)) = (61, 140, 4) := by
  decide +kernel

/-- the same family with a prompt consumer is flat -/
theorem long7_prompt_flat :
    marks (run false prompt (long7 10)) = (13, 29, 4) ∧ marks (run false prompt (long7 20)) = (13, 29, 4) := by
  decide +kernel

/-- streamed reader: `blocks high` 2, lines still grow under a lagging consumer -/
theorem long7_streamed :
    marks (run true lagging (long7 10)) = (2, 70, 4) ∧ marks (run true lagging (long7 20)) = (2, 140, 4) := by
  decide +kernel

/-- 2-block messages, lagging consumer: grows as well -/
theorem straddle_lagging_grows :
    marks (run false lagging (straddle 10)) = (11, 10, 5) ∧ marks (run false lagging (straddle 20)) = (21, 20, 5) := by
  decide +kernel

/-- lines that end where blocks end, plain file, PROMPT consumer: every block is retained -/
theorem aligned_prompt_grows :
    marks (run false prompt (aligned 10)) = (5, 7, 6) ∧ marks (run false prompt (aligned 20)) = (10, 7, 6)
      ∧ marks (run false prompt (aligned 40)) = (20, 7, 6) := by
  decide +kernel

/-- … and not on a streamed reader -/
theorem aligned_streamed_flat :
    marks (run true prompt (aligned 10)) = (2, 7, 6) ∧ marks (run true prompt (aligned 40)) = (2, 7, 6) := by
  decide +kernel

/-- **C17_bound_partial**, checked instances: messages that end at most one block after they
start, every block boundary crossed by a line, consumer not lagging — the marks do not move
between 10 and 80 messages (the bounds of `C17_bound_partial_straddle` below are attained) -/
theorem C17_bound_partial_instances :
    marks (run false prompt (straddle 10)) = (7, 6, 5) ∧ marks (run false prompt (straddle 20)) = (7, 6, 5)
      ∧ marks (run false prompt (straddle 40)) = (7, 6, 5) ∧ marks (run false prompt (straddle 80)) = (7, 6, 5)
      ∧ marks (run true prompt (straddle 80)) = (2, 6, 5) := by
  decide +kernel

/-- general lower bound for the aligned family on a plain file: a block, once read, is never
removed, so all `⌈n / 2⌉` blocks are retained — stated for the sizes evaluated -/
theorem aligned_retains_all : ∀ n ∈ [2, 4, 8, 16, 32], (run false prompt (aligned n)).blocks.length = n / 2 := by
  decide +kernel

/-- **C17_full_false**: three independent witnesses — (1) 4-block messages with a lagging
consumer on a plain file: blocks 31 → 61, lines 70 → 140 from 10 to 20 messages; (2) the same on a
streamed reader: lines 70 → 140; (3) block-aligned line ends on a plain file with a PROMPT
consumer: blocks 5 → 10 -/
theorem C17_full_false : ¬ C17_full := by
  intro h
  have h1 := (h false lagging 20 (by decide)).1
  revert h1
  decide +kernel

theorem C17_full_false_streamed_lines : ¬ C17_full := by
  intro h
  have h1 := (h true lagging 20 (by decide)).2.1
  revert h1
  decide +kernel

theorem C17_full_false_aligned : ¬ C17_full := by
  intro h
  have h1 := (h false prompt 20 (by decide)).2.2.2
  revert h1
  decide +kernel

/-! ### the partial bound, for every number of messages -/

open S4V.Lemmas.Mem

/-- the code as extracted visits every line of a dropped message: `run` is the `visitAll = true`
instance of the model (unfolds `DROP_LINES_VISITS_ALL`; a regenerated `false` breaks this and
everything below) -/
theorem run_visits_all : run = runG true := by
  funext streamed lag msgs
  simp only [run, DROP_LINES_VISITS_ALL]

/-- **C17_bound_partial_general**: for every list of messages such that message `j` starts in block
`j`, ends in block `j + 1` and has at most `M` lines (`Straddling M msgs`, decidable), and a consumer
that is not lagging, the high-water marks of the stage-3 loop are at most 7 blocks, `5 M + 1` lines
and 5 messages on a plain file, and 2 blocks, `5 M + 1` lines, 5 messages on a streamed reader —
whatever the number of messages. -/
theorem C17_bound_partial_general (M : Nat) (msgs : List Msg) (h : Straddling M msgs) :
    ((run false prompt msgs).bHigh ≤ 7 ∧ (run false prompt msgs).lHigh ≤ 5 * M + 1 ∧ (run false prompt msgs).sHigh ≤ 5)
    ∧ ((run true prompt msgs).bHigh ≤ 2 ∧ (run true prompt msgs).lHigh ≤ 5 * M + 1 ∧ (run true prompt msgs).sHigh ≤ 5) := by
  rw [run_visits_all]
  have h1 := runG_bounded (streamed := false) h
  have h2 := runG_bounded (streamed := true) h
  exact ⟨⟨h1.1 rfl, h1.2⟩, ⟨runG_streamed_bHigh true prompt msgs, h2.2⟩⟩

/-- the hypothesis is decidable and satisfiable -/
example : Straddling 1 (straddle 6) ∧ Straddling 3 (cross3 6) ∧ ¬ Straddling 7 (long7 3) ∧ ¬ Straddling 1 (aligned 4) := by
  decide

/-- **C17_bound_partial_straddle**: the checked family at EVERY size — 7 blocks / 6 lines / 5 messages
(plain), 2 / 6 / 5 (streamed) -/
theorem C17_bound_partial_straddle (n : Nat) :
    ((run false prompt (straddle n)).bHigh ≤ 7 ∧ (run false prompt (straddle n)).lHigh ≤ 6 ∧ (run false prompt (straddle n)).sHigh ≤ 5)
    ∧ ((run true prompt (straddle n)).bHigh ≤ 2 ∧ (run true prompt (straddle n)).lHigh ≤ 6 ∧ (run true prompt (straddle n)).sHigh ≤ 5) :=
  C17_bound_partial_general 1 (straddle n) (straddle_Straddling n)

/-- **C17_blocks_streamed_loop**: in the loop model a streamed reader never has more than 2 blocks
stored, for every input and every consumer -/
theorem C17_blocks_streamed_loop (lag : Nat → Nat) (msgs : List Msg) : (run true lag msgs).bHigh ≤ 2 := by
  rw [run_visits_all]
  exact runG_streamed_bHigh true lag msgs

/-! ### `drop_lines` must visit every line -/

/-- ordinary 3-line messages whose inner line crosses a block boundary, the code as extracted:
at most 7 blocks / 16 lines / 5 messages for every number of messages -/
theorem cross3_visit_all_bounded (n : Nat) :
    (run false prompt (cross3 n)).bHigh ≤ 7 ∧ (run false prompt (cross3 n)).lHigh ≤ 16 ∧ (run false prompt (cross3 n)).sHigh ≤ 5 :=
  (C17_bound_partial_general 3 (cross3 n) (cross3_Straddling n)).1

/-- **drop_lines_short_circuit_grows**: had `drop_lines` been `lines.into_iter().any(|l| self.drop_line(l))`
(`visitAll = false`: the walk stops after the first line whose drop released a block), the same family
would retain at least one line per message — for every number of messages, plain or streamed, whatever
the consumer; evaluated: 20 / 30 / 50 lines at 10 / 20 / 40 messages (the extracted code: 16 / 16 / 16). -/
theorem drop_lines_short_circuit_grows :
    (∀ (streamed : Bool) (lag : Nat → Nat) (n : Nat), n ≤ (runG false streamed lag (cross3 n)).lHigh)
    ∧ marks (runG false false prompt (cross3 10)) = (6, 20, 5) ∧ marks (runG false false prompt (cross3 20)) = (6, 30, 5)
    ∧ marks (runG false false prompt (cross3 40)) = (6, 50, 5) ∧ marks (runG false true prompt (cross3 40)) = (2, 50, 5)
    ∧ marks (run false prompt (cross3 10)) = (6, 16, 5) ∧ marks (run false prompt (cross3 40)) = (6, 16, 5) := by
  refine ⟨runG_short_circuit_grows, ?_⟩
  decide +kernel

/-- the short-circuit variant also keeps blocks: 4-block messages, prompt consumer — 45 blocks / 108 lines
at 20 messages against 13 / 29 for the extracted code -/
theorem long7_short_circuit_grows :
    marks (runG false false prompt (long7 20)) = (45, 108, 4) ∧ marks (run false prompt (long7 20)) = (13, 29, 4) := by
  decide +kernel

end S4V.Props.MemSpec
