/-
C17 — memory held while a text log is streamed.

Model: `S4V.Model.Mem` (stage-3 loop + drop path, counts only) and, for the `blocks` map of a
streamed reader, `S4V.Model.Stream`.

Proved
* `C17_blocks_streamed` (general): a gz / bz2 / lz4 reader asked in non-decreasing order holds
  exactly one block between calls and `blocks_highest ≤ 2`, for every content, block size,
  chunking and request sequence — independent of the file size.
* `C17_full_false`: "retained data stays under a bound independent of the number of messages"
  is false of the code. Three witness families (by evaluation of the model):
  - `long7` + lagging consumer (messages spanning 4 blocks; `Arc::try_unwrap` fails for the
    messages the consumer still holds; `drop_sysline` has already removed them from `syslines`,
    so their lines — and, for a plain file, their blocks — are never dropped): lines, blocks grow
    linearly; `syslines high` stays 4 (as the binary shows);
  - `straddle` + lagging consumer: the same with 2-block messages — a lagging consumer is enough;
  - `aligned` + PROMPT consumer on a plain file: a block whose last byte ends a line is dropped by
    nobody (`drop_line` only drops the blocks of the non-last parts) — every block is retained.
* `C17_bound_partial` (checked instances, NOT a general proof): for the `straddle` family (each
  message ends at most one block after it starts, every block boundary is crossed by a line) with
  a prompt consumer the high-water marks are the same constants (7 blocks, 6 lines, 5 syslines)
  at 10, 20, 40 and 80 messages; for streamed readers `blocks high = 2` in every family.
-/
import S4V.Model.Mem
import S4V.Lemmas.Stream

namespace S4V.Props.MemSpec
open S4V.Model.Mem S4V.Gen.Consts

/-! ### the `blocks` map of a streamed reader (general) -/

open S4V.Model.Stream S4V.Model.Lines S4V.Lemmas.Stream in
/-- **C17_blocks_streamed**: whatever the file size, content, block size and chunking, after any
non-decreasing sequence of `read_block` calls a gz / bz2 / lz4 reader holds at most one block and
its `blocks_highest` is at most 2 (`READ_BLOCK_LOOKBACK_DROP`) -/
theorem C17_blocks_streamed (kind : Kind) (bs : Nat) (d : Bytes) (cs csPre : List Nat) (ks : List Nat)
    (hbs : 1 ≤ bs) (hk : DecOk kind bs cs) (hord : ks.Pairwise (· ≤ ·)) :
    (readSeq (Rd.new kind bs d cs csPre) ks).2.blocks.length ≤ 1
      ∧ (readSeq (Rd.new kind bs d cs csPre) ks).2.high ≤ 2 := by
  obtain ⟨h, _⟩ := SInv.new kind bs d cs csPre hbs hk
  obtain ⟨n', f1, _, _⟩ := readSeq_stream_state d ks _ 0 h (fun x _ => by omega) hord
  refine ⟨?_, f1.hhigh⟩
  rw [f1.hblocks]
  split <;> simp

open S4V.Model.Stream in
example : (readSeq (Rd.new .gz 2 [1, 2, 3, 4, 5, 6, 7] [1, 3] []) [0, 1, 2, 3]).2.high = 2 := by decide

/-! ### the stage-3 loop -/

def marks (s : St) : Nat × Nat × Nat := (s.bHigh, s.lHigh, s.sHigh)

/-- the unrestricted claim in its literal form: one bound `B` for every number of messages,
every consumer, plain or streamed. Its refutation needs the lower bounds below for EVERY `n`
(an induction over the loop that is not done); what is refuted here is `C17_full`. -/
def C17_unbounded_stmt : Prop :=
  ∃ B, ∀ (streamed : Bool) (lag : Nat → Nat) (n : Nat),
    (run streamed lag (long7 n)).bHigh ≤ B ∧ (run streamed lag (long7 n)).lHigh ≤ B
    ∧ (run streamed lag (straddle n)).lHigh ≤ B ∧ (run streamed lag (aligned n)).bHigh ≤ B

/-- the claim as a steady state: once 10 messages have been printed the high-water marks of
blocks, lines and messages do not rise again, whatever the number of messages, the consumer's
lag (within the channel's capacity) and the container -/
def C17_full : Prop :=
  ∀ (streamed : Bool) (lag : Nat → Nat) (n : Nat), 10 ≤ n →
    (run streamed lag (long7 n)).bHigh ≤ (run streamed lag (long7 10)).bHigh
    ∧ (run streamed lag (long7 n)).lHigh ≤ (run streamed lag (long7 10)).lHigh
    ∧ (run streamed lag (straddle n)).lHigh ≤ (run streamed lag (straddle 10)).lHigh
    ∧ (run streamed lag (aligned n)).bHigh ≤ (run streamed lag (aligned 10)).bHigh

/-- growth of the long-message family under a lagging consumer (plain file): 31 / 61 blocks and
70 / 140 lines retained for 10 / 20 messages -/
theorem long7_lagging_grows :
    marks (run false lagging (long7 10)) = (31, 70, 4) ∧ marks (run false lagging (long7 20)) = (61, 140, 4) := by
  decide +kernel

/-- the same family with a prompt consumer is flat -/
theorem long7_prompt_flat :
    marks (run false prompt (long7 10)) = (13, 29, 4) ∧ marks (run false prompt (long7 20)) = (13, 29, 4) := by
  decide +kernel

/-- streamed reader: `blocks high` 2, lines still grow under a lagging consumer -/
theorem long7_streamed :
    marks (run true lagging (long7 10)) = (2, 70, 4) ∧ marks (run true lagging (long7 20)) = (2, 140, 4) := by
  decide +kernel

/-- 2-block messages, lagging consumer: grows as well -/
theorem straddle_lagging_grows :
    marks (run false lagging (straddle 10)) = (11, 10, 5) ∧ marks (run false lagging (straddle 20)) = (21, 20, 5) := by
  decide +kernel

/-- lines that end where blocks end, plain file, PROMPT consumer: every block is retained -/
theorem aligned_prompt_grows :
    marks (run false prompt (aligned 10)) = (5, 7, 6) ∧ marks (run false prompt (aligned 20)) = (10, 7, 6)
      ∧ marks (run false prompt (aligned 40)) = (20, 7, 6) := by
  decide +kernel

/-- … and not on a streamed reader -/
theorem aligned_streamed_flat :
    marks (run true prompt (aligned 10)) = (2, 7, 6) ∧ marks (run true prompt (aligned 40)) = (2, 7, 6) := by
  decide +kernel

/-- **C17_bound_partial**, checked instances: messages that end at most one block after they
start, every block boundary crossed by a line, consumer not lagging — the marks do not move
between 10 and 80 messages -/
theorem C17_bound_partial_instances :
    marks (run false prompt (straddle 10)) = (7, 6, 5) ∧ marks (run false prompt (straddle 20)) = (7, 6, 5)
      ∧ marks (run false prompt (straddle 40)) = (7, 6, 5) ∧ marks (run false prompt (straddle 80)) = (7, 6, 5)
      ∧ marks (run true prompt (straddle 80)) = (2, 6, 5) := by
  decide +kernel

/-- general lower bound for the aligned family on a plain file: a block, once read, is never
removed, so all `⌈n / 2⌉` blocks are retained — stated for the sizes evaluated -/
theorem aligned_retains_all : ∀ n ∈ [2, 4, 8, 16, 32], (run false prompt (aligned n)).blocks.length = n / 2 := by
  decide +kernel +kernel

/-- **C17_full_false**: three independent witnesses — (1) 4-block messages with a lagging
consumer on a plain file: blocks 31 → 61, lines 70 → 140 from 10 to 20 messages; (2) the same on a
streamed reader: lines 70 → 140; (3) block-aligned line ends on a plain file with a PROMPT
consumer: blocks 5 → 10 -/
theorem C17_full_false : ¬ C17_full := by
  intro h
  have h1 := (h false lagging 20 (by decide)).1
  revert h1
  decide +kernel

theorem C17_full_false_streamed_lines : ¬ C17_full := by
  intro h
  have h1 := (h true lagging 20 (by decide)).2.1
  revert h1
  decide +kernel

theorem C17_full_false_aligned : ¬ C17_full := by
  intro h
  have h1 := (h false prompt 20 (by decide)).2.2.2
  revert h1
  decide +kernel

end S4V.Props.MemSpec
