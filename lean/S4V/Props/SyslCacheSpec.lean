/-
Property theorems for the cached `SyslineReader` model (`S4V.Model.SyslCached`):
how far the stored state (`syslines`, `syslines_by_range`, the LRU) is TRANSPARENT.

Summary
* never a wrong message: from every reachable store, `find_sysline(fo)` answers what a
  cache-free reader answers, or panics (`findSyslineCached_sound`, `runOps_sound`);
* it answers exactly the cache-free answer when `fo` lies at or after every range whose
  message was dropped (`findSyslineCached_transparent`), hence for every history without
  drops (`runOps_transparent_nodrop`) and for the forward-only discipline of
  `exec_syslogprocessor` (`runOps_transparent`, `streaming_discipline`);
* full transparency is FALSE of the code, twice:
  - `transparent_full_false`: `find_sysline(fo); drop_data(bo); find_sysline(fo)` panics
    (`drop_sysline` leaves the range in `syslines_by_range`; `check_store` then reads
    `self.syslines[fo]`). Reproduced on the real reader (harness `syslc`).
  - `transparent_nodrop_full_false`: `find_sysline_in_block(fo)` inside a continuation line
    caches the NEXT message under key `fo`; a later `find_sysline(fo)` returns it.
    Reproduced on the real reader.
All proofs appeal to `S4V.Lemmas.SyslCached`. Core Lean only.
-/
import S4V.Lemmas.SyslCached

namespace S4V.Props.SyslCacheSpec
open S4V.Model.Syslines S4V.Model.SyslCached S4V.Lemmas.Syslines S4V.Gen.SyslCache
open S4V.Lemmas.SyslCached (Ans StaleBelow IbSafe IbSafeAll boundAt NoDrop)

abbrev Inv := @S4V.Lemmas.SyslCached.Inv

/-- running example: a head-less line, message `[2..5]` (instant 3, one continuation
line at 5), message `[6..8]` (instant 7) -/
def exL : List LineInfo := [⟨0, 1, none⟩, ⟨2, 4, some 3⟩, ⟨5, 5, none⟩, ⟨6, 8, some 7⟩]

example : WFLines exL := by decide
example : messages exL = [⟨2, 5, 3⟩, ⟨6, 8, 7⟩] := by decide

/-! ### 0. the generated facts the model is parameterised by -/

theorem lruCap_eq : lruCap = 4 := by decide
/-- `drop_sysline` leaves `syslines_by_range` alone (regenerated from the source) -/
theorem drop_keeps_range : DROP_REMOVES_BY_RANGE = false := rfl
/-- `check_store` indexes `self.syslines[fo]` on a by-range hit -/
theorem by_range_hit_indexes : BY_RANGE_HIT_INDEXES_SYSLINES = true := rfl
example : empty.lruEnabled = true := rfl

/-! ### 1. the invariant -/

/-- the invariant, spelled out -/
theorem inv_iff (ls : List LineInfo) (st : Store) :
    Inv ls st ↔
      -- every stored message is a message of the file (bounds and instant)
      (∀ s ∈ st.syslines, s ∈ messages ls) ∧
      -- every range is `[beg, end+1) ↦ beg` of a message of the file (stored or dropped)
      (∀ e ∈ st.byRange, ∃ m ∈ messages ls, e = (m.beg, m.fin + 1, m.beg)) ∧
      -- every LRU entry is the answer a cache-free reader gives for its key
      (∀ p ∈ st.lru, p.2 = ofRes (findSysline ls p.1)) ∧
      st.lru.length ≤ lruCap ∧ st.lru.Pairwise (fun p q => p.1 ≠ q.1) :=
  ⟨fun h => ⟨h.sl_true, h.rng_true, h.lru_true, h.lru_len, h.lru_keys⟩,
   fun ⟨a, b, c, d, e⟩ => ⟨a, b, c, d, e⟩⟩

theorem inv_empty (ls : List LineInfo) : Inv ls empty ∧ Inv ls emptyNoLru :=
  ⟨S4V.Lemmas.SyslCached.inv_empty ls _, S4V.Lemmas.SyslCached.inv_empty ls _⟩

/-- a fresh reader has no stale range -/
theorem staleBelow_empty (k : Nat) : StaleBelow empty k ∧ StaleBelow emptyNoLru k :=
  ⟨S4V.Lemmas.SyslCached.staleBelow_empty _ k, S4V.Lemmas.SyslCached.staleBelow_empty _ k⟩

/-! ### 2. one `find_sysline` -/

/-- from every store satisfying the invariant (warm caches, after any drops): the answer is
the cache-free answer or a panic — never another message — and the invariant is kept -/
theorem findSyslineCached_sound {ls : List LineInfo} (hwf : WFLines ls) {st : Store}
    (h : Inv ls st) (fo : Nat) :
    let (r, st') := findSyslineCached ls st fo
    (r = ofRes (findSysline ls fo) ∨ r = .panic) ∧ Inv ls st' :=
  let g := S4V.Lemmas.SyslCached.findSyslineCached_spec hwf h fo
  ⟨g.sound, g.inv⟩

/-- main theorem (partial form): when every range whose message is no longer stored ends at
or before `k`, a request at `fo ≥ k` answers exactly what a cache-free reader answers — same
message bounds, instant and `fo_next`, or `Done` — and no new stale range appears -/
theorem findSyslineCached_transparent {ls : List LineInfo} (hwf : WFLines ls) {st : Store}
    (fo : Nat) (h : Inv ls st) {k : Nat} (hk : StaleBelow st k) (hfo : k ≤ fo) :
    let (r, st') := findSyslineCached ls st fo
    r = ofRes (findSysline ls fo) ∧ Inv ls st' ∧ StaleBelow st' k :=
  let g := S4V.Lemmas.SyslCached.findSyslineCached_spec hwf h fo
  ⟨(g.stale k hk).2 hfo, g.inv, (g.stale k hk).1⟩

/-- with no stale range at all (`k = 0`): every offset -/
theorem findSyslineCached_transparent_nostale {ls : List LineInfo} (hwf : WFLines ls)
    {st : Store} (fo : Nat) (h : Inv ls st) (hk : StaleBelow st 0) :
    (findSyslineCached ls st fo).1 = ofRes (findSysline ls fo) :=
  (findSyslineCached_transparent hwf fo h hk (Nat.zero_le _)).1

/-- the "ran into a processed sysline" switch of part A never fires on a store satisfying the
invariant: part A with the store in view is part A -/
theorem switch_never_fires {ls : List LineInfo} (hwf : WFLines ls) {st : Store} (h : Inv ls st)
    {fo : Nat} (hmiss : rmContains st.byRange fo = false) (fuel : Nat) :
    slPartAC ls (rmContains st.byRange) fuel fo false 0 = slPartA ls fuel fo false 0 :=
  S4V.Lemmas.SyslCached.slPartAC_eq hwf (S4V.Lemmas.SyslCached.knownTrue_of_inv h) _ _ _ _
    (fun _ => hmiss)

/-- the store after `find_sysline(3)` on a fresh reader of `exL` -/
def st1 : Store := (findSyslineCached exL empty 3).2

example : st1 = ⟨[⟨2, 5, 3⟩], [(2, 6, 2)], [(3, .found 6 ⟨2, 5, 3⟩)], true⟩ := by decide
example : Inv exL st1 := (findSyslineCached_sound (by decide) (inv_empty exL).1 3).2
/-- LRU hit (key 3), by-range hit (offset 5, then cached under key 5), full walk (offset 0:
head-less prefix, forwards to the first message), `Done` past the end (cached too) -/
example : (findSyslineCached exL st1 3).1 = .found 6 ⟨2, 5, 3⟩ ∧
    (findSyslineCached exL st1 5).1 = .found 6 ⟨2, 5, 3⟩ ∧
    lruGet (findSyslineCached exL st1 5).2.lru 5 = some (.found 6 ⟨2, 5, 3⟩) ∧
    (findSyslineCached exL st1 0).1 = .found 6 ⟨2, 5, 3⟩ ∧
    (findSyslineCached exL st1 9).1 = .done ∧
    lruGet (findSyslineCached exL st1 9).2.lru 9 = some .done := by decide
example : (findSyslineCached exL st1 5).1 = ofRes (findSysline exL 5) :=
  findSyslineCached_transparent_nostale (by decide) 5
    (findSyslineCached_sound (by decide) (inv_empty exL).1 3).2 (by decide)

/-! ### 3. in-block requests, drops, clear, remove -/

/-- `find_sysline_in_block(fo)` at a *safe* offset (the forward-only walk and the full walk
start the message at the same line): the answer is the cache-free `find_sysline` answer, or
`Done` (the in-block walk gave up), or a panic (stale range); the invariant is kept -/
theorem findSyslineIBCached_sound {ls : List LineInfo} (hwf : WFLines ls) {st : Store}
    (h : Inv ls st) (fo : Nat) (w : Bool) (hsafe : IbSafe ls fo) :
    let (r, st') := findSyslineIBCached ls st fo w
    (r = ofRes (findSysline ls fo) ∨ r = .panic ∨ r = .done) ∧ Inv ls st' :=
  let g := S4V.Lemmas.SyslCached.findSyslineIBCached_spec hwf h fo w hsafe
  ⟨g.2.1, g.1⟩

/-- offsets inside a timestamped line, and offsets at or past the end, are safe -/
theorem ibSafe_of_head {ls : List LineInfo} (hwf : WFLines ls) {fo : Nat} {l : LineInfo} {t : Int}
    (hl : lineAt ls fo = some l) (ht : l.dt = some t) : IbSafe ls fo :=
  S4V.Lemmas.SyslCached.ibSafe_of_head hwf hl ht

theorem ibSafe_of_beyond {ls : List LineInfo} (hwf : WFLines ls) {fo : Nat}
    (h : fileSz ls ≤ fo) : IbSafe ls fo :=
  S4V.Lemmas.SyslCached.ibSafe_of_beyond hwf h

example : IbSafe exL 0 ∧ IbSafe exL 3 ∧ IbSafe exL 7 ∧ ¬ IbSafe exL 5 := by decide
example : IbSafe exL 3 := ibSafe_of_head (l := ⟨2, 4, some 3⟩) (by decide) (by decide) rfl

/-- `drop_data(bo)` keeps the invariant; the ranges it leaves behind end at or before
`(bo + 1) * bs` -/
theorem dropData_inv {ls : List LineInfo} (hwf : WFLines ls) {bs : Nat} (hbs : 1 ≤ bs) {st : Store}
    (h : Inv ls st) (bo : Nat) {k : Nat} (hk : StaleBelow st k) :
    Inv ls (dropData bs st bo) ∧ StaleBelow (dropData bs st bo) (max k ((bo + 1) * bs)) :=
  S4V.Lemmas.SyslCached.dropData_spec hwf hbs h bo hk

theorem clearSyslines_inv {ls : List LineInfo} {st : Store} (h : Inv ls st) :
    Inv ls (clearSyslines st) ∧ StaleBelow (clearSyslines st) 0 :=
  S4V.Lemmas.SyslCached.clearSyslines_spec h 0

theorem removeSysline_inv {ls : List LineInfo} (hwf : WFLines ls) {st : Store} (h : Inv ls st)
    (fo : Nat) {k : Nat} (hk : StaleBelow st k) :
    Inv ls (removeSysline st fo).2 ∧ StaleBelow (removeSysline st fo).2 k :=
  S4V.Lemmas.SyslCached.removeSysline_spec hwf h fo hk

example : dropData 4 st1 1 = ⟨[], [(2, 6, 2)], [(3, .found 6 ⟨2, 5, 3⟩)], true⟩ := by decide
example : Inv exL (dropData 4 st1 1) ∧ StaleBelow (dropData 4 st1 1) (max 0 ((1 + 1) * 4)) :=
  dropData_inv (by decide) (by decide) (findSyslineCached_sound (by decide) (inv_empty exL).1 3).2 1
    (by decide)
example : (removeSysline st1 2).2 = ⟨[], [], [], true⟩ ∧ clearSyslines st1 = ⟨[], [], [], true⟩ := by
  decide

/-! ### 4. whole histories -/

/-- every history from a fresh reader (LRU enabled or disabled) whose in-block requests are
safe: every `find_sysline(fo)` answers the cache-free answer or panics; it answers the
cache-free answer when `fo` is at or after `(bo + 1) * bs` for every earlier `drop_data(bo)` -/
theorem runOps_transparent {ls : List LineInfo} (hwf : WFLines ls) {bs : Nat} (hbs : 1 ≤ bs)
    (ops : List Op) (lru : Bool) (hs : IbSafeAll ls ops) (i fo : Nat)
    (hi : ops[i]? = some (.find fo)) :
    let outs := (runOps ls bs (if lru then empty else emptyNoLru) ops).1
    (outs[i]? = some (.res (ofRes (findSysline ls fo))) ∨ outs[i]? = some (.res .panic)) ∧
    (boundAt bs 0 ops i ≤ fo → outs[i]? = some (.res (ofRes (findSysline ls fo)))) := by
  have hI : Inv ls (if lru then empty else emptyNoLru) := by
    cases lru
    · exact (inv_empty ls).2
    · exact (inv_empty ls).1
  have hk : StaleBelow (if lru then empty else emptyNoLru) 0 := by
    cases lru
    · exact (staleBelow_empty 0).2
    · exact (staleBelow_empty 0).1
  exact S4V.Lemmas.SyslCached.Trace.find_at ops _ 0
    (S4V.Lemmas.SyslCached.runOps_spec hwf hbs ops hI hk hs).1 i fo hi

/-- soundness alone -/
theorem runOps_sound {ls : List LineInfo} (hwf : WFLines ls) {bs : Nat} (hbs : 1 ≤ bs)
    (ops : List Op) (lru : Bool) (hs : IbSafeAll ls ops) (i fo : Nat)
    (hi : ops[i]? = some (.find fo)) :
    let outs := (runOps ls bs (if lru then empty else emptyNoLru) ops).1
    outs[i]? = some (.res (ofRes (findSysline ls fo))) ∨ outs[i]? = some (.res .panic) :=
  (runOps_transparent hwf hbs ops lru hs i fo hi).1

/-- histories without `drop_data`: fully transparent — every history of `find_sysline`,
safe `find_sysline_in_block`, `clear_syslines`, `remove_sysline` -/
theorem runOps_transparent_nodrop {ls : List LineInfo} (hwf : WFLines ls) {bs : Nat} (hbs : 1 ≤ bs)
    (ops : List Op) (lru : Bool) (hs : IbSafeAll ls ops) (hnd : NoDrop ops)
    (i fo : Nat) (hi : ops[i]? = some (.find fo)) :
    (runOps ls bs (if lru then empty else emptyNoLru) ops).1[i]?
      = some (.res (ofRes (findSysline ls fo))) := by
  apply (runOps_transparent hwf hbs ops lru hs i fo hi).2
  rw [S4V.Lemmas.SyslCached.boundAt_noDrop bs 0 ops hnd i]
  exact Nat.zero_le _

/-- every reachable store satisfies the invariant -/
theorem runOps_inv {ls : List LineInfo} (hwf : WFLines ls) {bs : Nat} (hbs : 1 ≤ bs)
    (ops : List Op) (hs : IbSafeAll ls ops) : Inv ls (runOps ls bs empty ops).2 :=
  (S4V.Lemmas.SyslCached.runOps_spec hwf hbs ops (inv_empty ls).1 (staleBelow_empty 0).1 hs).2

/-- the same over the bytes of a file: `ls = linesFrom P d` for any parser `P` -/
theorem runOps_transparent_nodrop_bytes (P : S4V.Model.Lines.Bytes → Option Int)
    (d : S4V.Model.Lines.Bytes) {bs : Nat} (hbs : 1 ≤ bs) (ops : List Op) (lru : Bool)
    (hs : IbSafeAll (linesFrom P d) ops) (hnd : NoDrop ops)
    (i fo : Nat) (hi : ops[i]? = some (.find fo)) :
    (runOps (linesFrom P d) bs (if lru then empty else emptyNoLru) ops).1[i]?
      = some (.res (ofRes (findSysline (linesFrom P d) fo))) :=
  runOps_transparent_nodrop (linesFrom_wf P d) hbs ops lru hs hnd i fo hi

/-- a non-trivial reachable store: walk, by-range hit, LRU hit, safe in-block request,
remove, walk again, past the end -/
def exOps : List Op := [.find 3, .find 5, .find 3, .findib 7 true, .remove 2, .find 4, .find 9, .find 0]

example : (runOps exL 4 empty exOps).2 =
    ⟨[⟨2, 5, 3⟩, ⟨6, 8, 7⟩], [(2, 6, 2), (6, 9, 6)],
     [(0, .found 6 ⟨2, 5, 3⟩), (9, .done), (4, .found 6 ⟨2, 5, 3⟩)], true⟩ := by decide
example : Inv exL (runOps exL 4 empty exOps).2 := runOps_inv (by decide) (by decide) _ (by decide)
example : (runOps exL 4 empty exOps).1[5]? = some (.res (ofRes (findSysline exL 4))) :=
  runOps_transparent_nodrop (by decide) (by decide) exOps true (by decide) (by decide) 5 4 rfl

/-- the discipline of `exec_syslogprocessor` (forward-only finds; `drop_data_try` drops blocks
at least two before the block where the previous message begins): finds after the drop are
answered exactly -/
def streamOps : List Op := [.find 0, .find 6, .drop 0, .find 9]

theorem streaming_discipline :
    (runOps exL 2 empty streamOps).1 =
      [.res (ofRes (findSysline exL 0)), .res (ofRes (findSysline exL 6)), .unit,
       .res (ofRes (findSysline exL 9))] := by decide

example : boundAt 2 0 streamOps 3 = 2 := by decide
example : (runOps exL 2 empty streamOps).1[3]? = some (.res (ofRes (findSysline exL 9))) :=
  (runOps_transparent (by decide) (by decide) streamOps true (by decide) 3 9 rfl).2 (by decide)

/-! ### 5. full transparency is false of the code -/

/-- the statement one would like: every `find_sysline` of every history answers what a
cache-free reader answers -/
def transparent_full : Prop :=
  ∀ (ls : List LineInfo) (bs : Nat) (ops : List Op), WFLines ls → 1 ≤ bs → ∀ (i fo : Nat),
    ops[i]? = some (Op.find fo) →
    (runOps ls bs empty ops).1[i]? = some (Out.res (ofRes (findSysline ls fo)))

/-- WITNESS (reproduced on the real `SyslineReader`, harness `syslc`): `find_sysline(2)`,
`drop_data(0)`, `find_sysline(2)` on `exL` with block size 16 — the third call panics:
`drop_sysline` removed the message from `syslines` and the LRU but left its range in
`syslines_by_range`; `check_store` hits the range and reads `self.syslines[fo]` -/
def dropWitness : List Op := [.find 2, .drop 0, .find 2]

theorem drop_then_find_panics :
    (runOps exL 16 empty dropWitness).1 = [.res (.found 6 ⟨2, 5, 3⟩), .unit, .res .panic] ∧
    (runOps exL 16 emptyNoLru dropWitness).1 = [.res (.found 6 ⟨2, 5, 3⟩), .unit, .res .panic] ∧
    ofRes (findSysline exL 2) = .found 6 ⟨2, 5, 3⟩ := by decide

theorem transparent_full_false : ¬ transparent_full := by
  intro h
  exact absurd (h exL 16 dropWitness (by decide) (by decide) 2 2 rfl) (by decide)

/-- counter-model: were `drop_sysline` to remove the range too, the witness history would be
answered by a fresh walk -/
def dropSyslineFixed (st : Store) (s : Sysl) : Store :=
  { st with syslines := slRemove st.syslines s.beg, lru := lruPop st.lru s.beg,
            byRange := rmRemove st.byRange s.beg (s.fin + 1) }

theorem drop_removing_range_repairs_witness :
    let st := (findSyslineCached exL empty 2).2
    (findSyslineCached exL (dropSysline st ⟨2, 5, 3⟩) 2).1 = .panic ∧
    (findSyslineCached exL (dropSyslineFixed st ⟨2, 5, 3⟩) 2).1 = ofRes (findSysline exL 2) := by
  decide

/-- the statement without drops but with unrestricted in-block requests -/
def transparent_nodrop_full : Prop :=
  ∀ (ls : List LineInfo) (bs : Nat) (ops : List Op), WFLines ls → 1 ≤ bs →
    NoDrop ops → ∀ (i fo : Nat), ops[i]? = some (Op.find fo) →
    (runOps ls bs empty ops).1[i]? = some (Out.res (ofRes (findSysline ls fo)))

/-- WITNESS (reproduced on the real reader): `find_sysline_in_block(5)` — offset 5 is the
continuation line of message `[2..5]`; the in-block walk goes forwards only, builds message
`[6..8]` and caches it in the LRU under key 5; `find_sysline(5)` then returns `[6..8]`
where a cache-free reader returns `[2..5]`. With the LRU disabled the answer is right. -/
def ibWitness : List Op := [.findib 5 true, .find 5]

theorem findib_poisons_lru :
    (runOps exL 16 empty ibWitness).1 = [.res (.found 9 ⟨6, 8, 7⟩), .res (.found 9 ⟨6, 8, 7⟩)] ∧
    ofRes (findSysline exL 5) = .found 6 ⟨2, 5, 3⟩ ∧
    (runOps exL 16 emptyNoLru ibWitness).1 = [.res (.found 9 ⟨6, 8, 7⟩), .res (.found 6 ⟨2, 5, 3⟩)] ∧
    ¬ IbSafe exL 5 ∧ ¬ Inv exL (runOps exL 16 empty ibWitness).2 := by
  refine ⟨by decide, by decide, by decide, by decide, ?_⟩
  intro h
  exact absurd (h.lru_true (5, .found 9 ⟨6, 8, 7⟩) (by decide)) (by decide)

theorem transparent_nodrop_full_false : ¬ transparent_nodrop_full := by
  intro h
  exact absurd (h exL 16 ibWitness (by decide) (by decide) (by decide) 1 5 rfl) (by decide)

/-! ### 6. the invariant matters -/

/-- a store holding a FALSE message (`[2..4]`: the continuation line is missing) answers it,
and then lets the "ran into a processed sysline" switch fire for the line it lacks -/
theorem false_message_poisons :
    let bad : Store := ⟨[⟨2, 4, 3⟩], [(2, 5, 2)], [], true⟩
    (findSyslineCached exL bad 3).1 = .found 5 ⟨2, 4, 3⟩ ∧
    ofRes (findSysline exL 3) = .found 6 ⟨2, 5, 3⟩ ∧
    (findSyslineCached exL bad 5).1 = .found 9 ⟨6, 8, 7⟩ ∧
    ofRes (findSysline exL 5) = .found 6 ⟨2, 5, 3⟩ ∧ ¬ Inv exL bad := by
  refine ⟨by decide, by decide, by decide, by decide, ?_⟩
  intro h
  exact absurd (h.sl_true ⟨2, 4, 3⟩ (by decide)) (by decide)

end S4V.Props.SyslCacheSpec
