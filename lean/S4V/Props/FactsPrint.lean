/-
An obligation over a fact regenerated from the source, with the counter-model of the seeded change that showed the fact
matters (wave 7). See DESIGN.md §10.5.
-/
import S4V.Gen.Print

namespace S4V.Props.FactsPrint

/-! ### C13: the datetime field of a message is that message's own instant -/

/-- the datetime fields printed for a run of messages with instants `ts`: `fmt` is the formatting of one instant in the
requested zone and -d format (chrono, trusted). `stateless = true`: each message is formatted from its own instant.
`false`: the last formatted field is remembered under `key t` and reused while the key repeats (the shape the
regenerated fact rules out). -/
def dtFields (stateless : Bool) (key : Int → Int) (fmt : Int → List UInt8) : Option (Int × List UInt8) → List Int → List (List UInt8)
  | _, [] => []
  | last, t :: ts =>
    if stateless then fmt t :: dtFields stateless key fmt none ts
    else match last with
      | some (k, f) => if k = key t then f :: dtFields stateless key fmt (some (k, f)) ts
                       else fmt t :: dtFields stateless key fmt (some (key t, fmt t)) ts
      | none => fmt t :: dtFields stateless key fmt (some (key t, fmt t)) ts

theorem dtFields_stateless (key : Int → Int) (fmt : Int → List UInt8) (last) (ts : List Int) :
    dtFields true key fmt last ts = ts.map fmt := by
  induction ts generalizing last with
  | nil => rfl
  | cons t ts ih => simp [dtFields, ih]

/-- **C13_dt_field_own_instant.** Unfolds the regenerated `DT_FIELD_STATELESS`: every message's datetime field is the
formatting of ITS instant, whatever came before it. -/
theorem C13_dt_field_own_instant (key : Int → Int) (fmt : Int → List UInt8) (ts : List Int) :
    dtFields S4V.Gen.Print.DT_FIELD_STATELESS key fmt none ts = ts.map fmt := by
  have h : S4V.Gen.Print.DT_FIELD_STATELESS = true := by decide
  rw [h]; exact dtFields_stateless key fmt none ts

/-- counter-model (seeded change C13-d): a cache keyed on milliseconds gives the second of two messages in the same
millisecond the first one's field (instants in microseconds, the field shows microseconds) -/
theorem cached_dt_field_wrong :
    dtFields false (· / 1000) (fun t => [(t % 256).toNat.toUInt8]) none [5000001, 5000002] = [[65], [65]] ∧
    [5000001, 5000002].map (fun t : Int => [(t % 256).toNat.toUInt8]) = [[65], [66]] := by decide

end S4V.Props.FactsPrint
