/-
C04, regex slice — the 173 regular expressions of `DATETIME_PARSE_DATAS` inside the model.

Over `S4V.Gen.Regex` (regenerated from src/data/datetime.rs by gen/gen_regex.py: every row's
`regex_pattern` parsed into `Re`, `DTFSSet::has_year4/has_d2`, `range_regex`), the language
semantics `S4V.Model.Regex.Matches`, and the mirrors of `slice_contains_*`, `ezcheck_slice`,
`find_datetime_in_line` in `S4V.Model.Ezcheck`.

Byte tests
* `C04_slice_contains_X_2_spec`, `C04_slice_contains_X_2_unroll_spec`, `C04_slice_contains_D2_spec`,
  `C04_slice_contains_12_D2_spec`  the modelled functions compute "contains '1'/'2'",
  "contains two consecutive digits", "either", for every input
Table (all rows, by `decide +kernel` over the generated table, lifted by the soundness lemmas)
* `C04_every_pattern_needs_digit`  every match of every row contains an ASCII digit
* `C04_year4_needs_12`             a row with `has_year4` only matches text containing '1' or '2'
* `C04_d2_needs_D2`                a row with `has_d2` only matches text containing two consecutive digits
* `C04_range_start_zero_rgx`       every row has `range_regex.start = 0`
* `C04_ezcheck_sound`              a slice that `ezcheck_slice` skips contains no match of the row's regex
Loop
* `C04_ezcheck_transparent`        for the generated table and every matcher that only answers
                                   `Some` on a regex match: `find_datetime_in_line` with EZCHECKs =
                                   the same loop without them, every line, every index list
* `C04_ezcheck_transparent_general` the same for any table whose listed rows start at 0
* `C04_ezcheck_transparent_full` / `_full_false`  without "start = 0" the statement is FALSE: the
                                   cursors are offsets into a `start = 0` slice but are applied to
                                   slices starting elsewhere (latent: no such row exists today)
Matcher (stage 2)
* `C04_search_sound`               `search r s = some ⟨a, b, _⟩` → `r` matches `s[a..b)` in context
-/
import S4V.Gen.Regex
import S4V.Gen.Consts
import S4V.Lemmas.Regex
import S4V.Lemmas.EzLoop
import S4V.Lemmas.RegexExec

namespace S4V.Props.RegexSpec
open S4V.Model.Regex S4V.Model.Ezcheck S4V.Gen.Regex
open S4V.Lemmas.Ezcheck S4V.Lemmas.Regex S4V.Lemmas.EzLoop

/-! ### the byte tests compute their specifications -/

theorem has12_iff (s : List UInt8) : has12 s = true ↔ ∃ b ∈ s, b = 49 ∨ b = 50 := by
  simp [has12, hasByte, is12]

theorem hasD2_iff (s : List UInt8) :
    hasD2 s = true ↔ ∃ pre a b post, s = pre ++ a :: b :: post ∧ isDigit a = true ∧ isDigit b = true := by
  constructor
  · intro h
    induction s with
    | nil => simp [hasD2] at h
    | cons x t ih =>
      rw [hasD2_cons] at h
      simp only [Bool.or_eq_true, Bool.and_eq_true] at h
      rcases h with ⟨hx, ht⟩ | ht
      · cases t with
        | nil => simp [startsDb] at ht
        | cons y t => exact ⟨[], x, y, t, rfl, hx, ht⟩
      · obtain ⟨pre, a, b, post, hs, ha, hb⟩ := ih ht
        exact ⟨x :: pre, a, b, post, by simp [hs], ha, hb⟩
  · rintro ⟨pre, a, b, post, hs, ha, hb⟩
    subst hs
    exact hasD2_append_right _ (by simp [hasD2, ha, hb])

/-- `slice_contains_X_2(slice, b"12")` ⇔ the slice contains `'1'` or `'2'` -/
theorem C04_slice_contains_X_2_spec (s : List UInt8) :
    sliceContainsX2 s 49 50 = true ↔ ∃ b ∈ s, b = 49 ∨ b = 50 := by
  rw [sliceContainsX2_12, has12_iff]

/-- the hand-unrolled `slice_contains_X_2_unroll` (lengths 2…99 special-cased) is the same function -/
theorem C04_slice_contains_X_2_unroll_spec (s : List UInt8) (a b : UInt8) :
    sliceContainsX2Unroll s a b = sliceContainsX2 s a b := sliceContainsX2Unroll_eq s a b

/-- `slice_contains_D2` ⇔ two consecutive ASCII digits somewhere in the slice -/
theorem C04_slice_contains_D2_spec (s : List UInt8) :
    sliceContainsD2 s = true ↔
      ∃ pre a b post, s = pre ++ a :: b :: post ∧ isDigit a = true ∧ isDigit b = true := by
  rw [sliceContainsD2_eq, hasD2_iff]

/-- `slice_contains_12_D2` ⇔ `'1'`/`'2'` present, or two consecutive digits present -/
theorem C04_slice_contains_12_D2_spec (s : List UInt8) :
    sliceContains12D2 s = (sliceContainsX2 s 49 50 || sliceContainsD2 s) := by
  rw [sliceContains12D2_eq, sliceContainsX2_12, sliceContainsD2_eq]

/-! ### the table -/

def rowInfo (r : Row) : RowInfo := ⟨r.hasYear4, r.hasD2, r.rangeStart, r.rangeEnd⟩

/-- what is decided for every generated row -/
def rowOk (r : Row) : Bool :=
  needsDigit r.re && (!r.hasYear4 || needs12 r.re) && (!r.hasD2 || needsD2 r.re) && r.rangeStart == 0

theorem rows_ok_all : rows.all rowOk = true := by decide +kernel

theorem rows_ok {r : Row} (h : r ∈ rows) : rowOk r = true :=
  List.all_eq_true.mp rows_ok_all r h

theorem rows_count : rows.length = rowCount := by decide +kernel

/-- every match of every pattern contains an ASCII digit -/
theorem C04_every_pattern_needs_digit {r : Row} (hr : r ∈ rows) {pre s post : List UInt8}
    (hm : Matches r.re pre s post) : hasDigit s = true := by
  have h := rows_ok hr
  simp only [rowOk, Bool.and_eq_true] at h
  exact needsDigit_sound hm h.1.1.1

/-- a pattern whose `DTFSSet` has a four-digit year only matches text with a `'1'` or a `'2'` -/
theorem C04_year4_needs_12 {r : Row} (hr : r ∈ rows) (hy : r.hasYear4 = true) {pre s post : List UInt8}
    (hm : Matches r.re pre s post) : has12 s = true := by
  have h := rows_ok hr
  simp only [rowOk, Bool.and_eq_true, hy, Bool.not_true, Bool.false_or] at h
  exact needs12_sound hm h.1.1.2

/-- a pattern whose `DTFSSet` `has_d2` only matches text with two consecutive digits -/
theorem C04_d2_needs_D2 {r : Row} (hr : r ∈ rows) (hd : r.hasD2 = true) {pre s post : List UInt8}
    (hm : Matches r.re pre s post) : hasD2 s = true := by
  have h := rows_ok hr
  simp only [rowOk, Bool.and_eq_true, hd, Bool.not_true, Bool.false_or] at h
  exact needsD2_sound hm h.1.2

theorem C04_range_start_zero_rgx {r : Row} (hr : r ∈ rows) : r.rangeStart = 0 := by
  have h := rows_ok hr
  simp only [rowOk, Bool.and_eq_true, beq_iff_eq] at h
  exact h.2

/-- what a match inside a slice implies for the two byte tests -/
theorem matchesIn_flags {r : Row} (hr : r ∈ rows) {slice : List UInt8} (hm : MatchesIn r.re slice) :
    (r.hasYear4 = true → has12 slice = true) ∧ (r.hasD2 = true → hasD2 slice = true) := by
  have h := rows_ok hr
  simp only [rowOk, Bool.and_eq_true] at h
  constructor
  · intro hy
    have : needs12 r.re = true := by simpa [hy] using h.1.1.2
    exact hasByte_of_matchesIn this hm
  · intro hd
    have : needsD2 r.re = true := by simpa [hd] using h.1.2
    exact hasD2_of_matchesIn this hm

/-- the stateless EZCHECK spelled out -/
theorem ezcheckSkips_eq (d : RowInfo) (slice : List UInt8) :
    ezcheckSkips d slice =
      match d.hasYear4, d.hasD2 with
      | true, false => !has12 slice
      | false, true => !hasD2 slice
      | true, true => !(has12 slice || hasD2 slice)
      | false, false => false := by
  cases hy : d.hasYear4 <;> cases hd : d.hasD2 <;>
    simp [ezcheckSkips, ezcheckSlice, hy, hd, tailFrom, sliceContainsX2_12, sliceContainsD2_eq,
      sliceContains12D2_eq] <;>
    cases has12 slice <;> cases hasD2 slice <;> simp

/-- **EZCHECK soundness**: for every generated row and every byte slice, if `ezcheck_slice` says
"skip" then the row's regex has no match anywhere inside the slice -/
theorem C04_ezcheck_sound {r : Row} (hr : r ∈ rows) (slice : List UInt8)
    (hskip : ezcheckSkips (rowInfo r) slice = true) : ¬ MatchesIn r.re slice := by
  intro hm
  obtain ⟨h12, hd2⟩ := matchesIn_flags hr hm
  rw [ezcheckSkips_eq] at hskip
  simp only [rowInfo] at hskip
  cases hy : r.hasYear4 <;> cases hd : r.hasD2 <;> simp only [hy, hd] at hskip
  · cases hskip
  · simp [hd2 hd] at hskip
  · simp [h12 hy] at hskip
  · simp [h12 hy] at hskip

/-- the hypothesis of `C04_ezcheck_sound` is met: a line without digits is skipped for row 0 … -/
example : ezcheckSkips (rowInfo row0) "[hello world]".toUTF8.toList = true := by decide +kernel
/-- … and a line with a stamp is not -/
example : ezcheckSkips (rowInfo row0) "[2000-01-02 03:04:05.678]".toUTF8.toList = false := by decide +kernel

/-! ### the loop -/

/-- `DATETIME_PARSE_DATAS[i]` (an out-of-range index panics in the code; the model answers row 0) -/
def rowAt (i : Nat) : Row := (rows[i]?).getD row0

theorem row0_mem : row0 ∈ rows := by
  simp [rows, rowsChunk0]

theorem rowAt_mem (i : Nat) : rowAt i ∈ rows := by
  unfold rowAt
  cases h : rows[i]? with
  | none => exact row0_mem
  | some r => exact List.mem_of_getElem? h

def tblInfo (i : Nat) : RowInfo := rowInfo (rowAt i)

/-- **EZCHECK transparency, generated table**: let `mt` stand for `bytes_to_regex_to_datetime` —
any function that answers `Some` only when the row's regex matches inside the slice. Then for every
line, every `charsz` and every list of row indexes, `find_datetime_in_line` returns the same
(row, value) as the same loop with every EZCHECK and cursor removed. -/
theorem C04_ezcheck_transparent {α : Type} (mt : Nat → List UInt8 → Option α)
    (hmt : ∀ i s x, mt i s = some x → MatchesIn (rowAt i).re s)
    (line : List UInt8) (charsz : Nat) (idxs : List Nat) :
    findDatetimeInLine S4V.Gen.Consts.DATETIME_STR_MIN tblInfo mt line charsz idxs =
      findDatetimeInLinePlain S4V.Gen.Consts.DATETIME_STR_MIN tblInfo mt line idxs := by
  apply findDatetimeInLine_eq_plain
  · intro i s x h
    exact matchesIn_flags (rowAt_mem i) (hmt i s x h)
  · intro i _
    exact C04_range_start_zero_rgx (rowAt_mem i)

/-- the same for any table, as long as the listed rows start their slice at 0 -/
theorem C04_ezcheck_transparent_general {α : Type} (strMin : Nat) (info : Nat → RowInfo)
    (mt : Nat → List UInt8 → Option α) (hR : Respects info mt) (line : List UInt8) (charsz : Nat)
    (idxs : List Nat) (hstart : ∀ i ∈ idxs, (info i).rangeStart = 0) :
    findDatetimeInLine strMin info mt line charsz idxs = findDatetimeInLinePlain strMin info mt line idxs :=
  findDatetimeInLine_eq_plain strMin info mt hR line charsz idxs hstart

/-- the statement without "start = 0" -/
def C04_ezcheck_transparent_full : Prop :=
  ∀ (info : Nat → RowInfo) (mt : Nat → List UInt8 → Option Unit), Respects info mt →
    ∀ (line : List UInt8) (charsz : Nat) (idxs : List Nat),
      findDatetimeInLine 8 info mt line charsz idxs = findDatetimeInLinePlain 8 info mt line idxs

/-- witness table: row 0 = `[0, 3)`, row 1 = `[2, 10)`, both `(has_year4, !has_d2)` -/
def wInfo (i : Nat) : RowInfo := if i = 0 then ⟨true, false, 0, 3⟩ else ⟨true, false, 2, 10⟩
/-- witness matcher: "matches" exactly the slices containing `'1'`/`'2'` -/
def wMt (_ : Nat) (s : List UInt8) : Option Unit := if has12 s then some () else none
/-- `xxx1xxxx`: row 0 proves `[0,3)` clean and sets the cursor to 2; row 1's slice `[2,8)` is then
tested from ITS offset 2 = line offset 4, which jumps over the `'1'` at line offset 3 -/
def wLine : List UInt8 := [120, 120, 120, 49, 120, 120, 120, 120]

theorem C04_ezcheck_transparent_full_false : ¬ C04_ezcheck_transparent_full := by
  intro h
  have hR : Respects wInfo wMt := by
    intro i s x hx
    refine ⟨fun _ => ?_, fun hd => ?_⟩
    · unfold wMt at hx
      split at hx
      · assumption
      · cases hx
    · unfold wInfo at hd
      split at hd <;> cases hd
  have := h wInfo wMt hR wLine 1 [0, 1]
  revert this
  decide +kernel

/-- hypotheses of `C04_ezcheck_transparent` are satisfiable by a non-trivial matcher: the model's
own `search` (its soundness is `C04_search_sound`) -/
example : ∃ mt : Nat → List UInt8 → Option Res,
    (∀ i s x, mt i s = some x → MatchesIn (rowAt i).re s) ∧
    mt 0 "[2000-01-02 03:04:05.678]".toUTF8.toList ≠ none :=
  ⟨fun i s => search (rowAt i).re s,
   fun _ _ x h => S4V.Lemmas.RegexExec.search_matchesIn h,
   by decide +kernel⟩

/-! ### the executable matcher -/

/-- **matcher soundness**: whatever `search` returns is a match of the language semantics, at the
reported span, in the context of the rest of the slice -/
theorem C04_search_sound {r : Re} {s : List UInt8} {res : Res} (h : search r s = some res) :
    ∃ pre mid post, s = pre ++ mid ++ post ∧ pre.length = res.start ∧
      res.stop = res.start + mid.length ∧ Matches r pre mid post :=
  S4V.Lemmas.RegexExec.search_sound h

end S4V.Props.RegexSpec
