/-
C05 / C15 — WHICH member of a `.tar` a listed entry reads back.

`process_path_tar` lists `archive|name` for every regular member; each reader later finds the member again by that
string only. The statements below are about the model `S4V.Model.TarMember` instantiated with the facts the
translator extracted from `BlockReader::new`, `read_block_FileTar`, `decompress_to_ntf` and `process_path_tar`
(`S4V.Gen.TarMember`); the proofs unfold those facts, and the counter-models at the end show that the other value of
each fact makes `C05_tar_member_distinct` false.

Summary: a listed entry reads the data of the FIRST entry (of any type) whose lossy name equals its own
(`C05_tar_member_dup_reads_first`); so it reads its own bytes iff that first entry carries the same bytes
(`C05_tar_member_iff`), in particular when all entry names are pairwise distinct (`C05_tar_member_distinct`).
Without that hypothesis the statement is false (`C05_tar_member_full_false`, finding F33: two members of one name;
also: a symlink / hard link / contiguous entry of the same name in front of the file, two names that differ only in
bytes that are not UTF-8), and a member whose name holds the separator `|` cannot be read at all
(`C05_tar_member_sep_false`).
-/
import S4V.Lemmas.TarMember

namespace S4V.Props.TarMemberSpec
open S4V.Model.Path (Bytes)
open S4V.Model.TarMember S4V.Gen.TarMember S4V.Lemmas.TarMember

/-- the name a member is listed under: `entry.path().to_string_lossy()` -/
abbrev name (e : Entry) : Bytes := candName .entryPath e

/-! ### the generated facts, unfolded -/

theorem brHit_eq (sub : Bytes) (e : Entry) : hit brNewSite sub e = (name e == sub) := by
  simp [hit, brNewSite, cmpOk]

theorem ntfHit_eq (sub : Bytes) (e : Entry) : hit ntfSite sub e = (name e == sub) := by
  simp [hit, ntfSite, cmpOk]

/-- `BlockReader::new` + `read_block_FileTar`, as the source has them -/
theorem brRead_eq (fs : Fs) (full : Bytes) :
    brRead fs full =
      match splitLast sepB full with
      | none => .newErrNoSep
      | some (p, sub) =>
        match fs p with
        | none => .newErrOpen
        | some ar =>
          match ar.find? (fun e => name e == sub) with
          | some e => brWant e
          | none => if ar = [] then .readErr else .empty := by
  unfold brRead brReadWith
  simp only [splitFull, show brSplitAtLast = true from rfl, if_true]
  cases splitLast sepB full with
  | none => rfl
  | some ps =>
    obtain ⟨p, sub⟩ := ps
    simp only
    cases fs p with
    | none => rfl
    | some ar =>
      simp only
      rw [brReadAll_brNew brNewSite rfl sub ar]
      have : hit brNewSite sub = fun e => name e == sub := by funext e; exact brHit_eq sub e
      rw [this]
      rfl

/-- `decompress_to_ntf`, as the source has it -/
theorem ntfRead_eq (fs : Fs) (full : Bytes) :
    ntfRead fs full =
      match splitLast sepB full with
      | none => .errNoSep
      | some (p, sub) =>
        match fs p with
        | none => .errOpen
        | some ar =>
          match ar.find? (fun e => name e == sub) with
          | some e => .ok e.data
          | none => .none := by
  unfold ntfRead ntfReadWith
  simp only [splitFull, show ntfSplitAtLast = true from rfl, if_true]
  cases splitLast sepB full with
  | none => rfl
  | some ps =>
    obtain ⟨p, sub⟩ := ps
    simp only
    cases fs p with
    | none => rfl
    | some ar =>
      simp only
      rw [ntfLoop_first ntfSite rfl sub ar]
      have : hit ntfSite sub = fun e => name e == sub := by funext e; exact ntfHit_eq sub e
      rw [this]
      cases ar.find? (fun e => name e == sub) <;> rfl

/-- what `process_path_tar` lists: the regular entries, each as `archive SEP lossy(entry.path())` -/
theorem mem_listed (tp : Bytes) (ar : Archive) (full : Bytes) (e : Entry) :
    (full, e) ∈ listed tp ar ↔ e ∈ ar ∧ e.regular = true ∧ full = tp ++ sepB :: name e := by
  simp only [listed, listedWith, show listAcc = NameAcc.entryPath from rfl, show listRegularOnly = true from rfl,
    fullName, sepB_eq, List.mem_map, List.mem_filter]
  constructor
  · rintro ⟨a, ⟨ha, hr⟩, h⟩
    have h1 : a = e := (Prod.mk.inj h).2
    subst h1
    exact ⟨ha, by simpa using hr, by simpa using (Prod.mk.inj h).1.symm⟩
  · rintro ⟨ha, hr, hf⟩
    exact ⟨e, ⟨ha, by simpa using hr⟩, by simp [hf]⟩

/-! ### the three sites agree -/

/-- The two lookup loops are the same loop (accessor, comparison, `break`, no type filter), split the name the same way,
and look for the name the listing produced; `read_block_FileTar` re-finds the member by the index the first loop stored
(`brReadAll`). Hence for EVERY string both readers deliver the same bytes (an empty member is `Done` for the block reader). -/
theorem C05_lookup_sites_agree :
    brNewSite = ntfSite ∧ brSplitAtLast = ntfSplitAtLast ∧ listAcc = brNewSite.acc ∧ readBlockByStoredIndex = true ∧
    ∀ (fs : Fs) (full d : Bytes),
      (ntfRead fs full = .ok d → brRead fs full = if d = [] then .empty else .ok d) ∧
      (brRead fs full = .ok d → ntfRead fs full = .ok d) := by
  refine ⟨by decide, by decide, by decide, by decide, ?_⟩
  intro fs full d
  rw [brRead_eq, ntfRead_eq]
  cases splitLast sepB full with
  | none => simp
  | some ps =>
    obtain ⟨p, sub⟩ := ps
    simp only
    cases fs p with
    | none => simp
    | some ar =>
      simp only
      cases ar.find? (fun e => name e == sub) with
      | none => by_cases h : ar = [] <;> simp [h]
      | some e =>
        simp only [brWant]
        constructor
        · intro h
          have : e.data = d := by simpa using h
          simp [this]
        · intro h
          by_cases hd : e.data = []
          · simp [hd] at h
          · simpa [hd] using h

/-! ### what IS read -/

/-- Whatever either reader delivers is the data of an entry whose lossy name equals the requested sub-path, in the
archive the name's first part opens: never the bytes of a differently named member. -/
theorem C05_tar_read_is_named (fs : Fs) (full d : Bytes) (h : brRead fs full = .ok d ∨ ntfRead fs full = .ok d) :
    ∃ p sub ar e, splitLast sepB full = some (p, sub) ∧ fs p = some ar ∧ e ∈ ar ∧ name e = sub ∧ e.data = d := by
  have hn : ntfRead fs full = .ok d := by
    rcases h with h | h
    · exact (C05_lookup_sites_agree.2.2.2.2 fs full d).2 h
    · exact h
  rw [ntfRead_eq] at hn
  cases hs : splitLast sepB full with
  | none => simp [hs] at hn
  | some ps =>
    obtain ⟨p, sub⟩ := ps
    simp only [hs] at hn
    cases hp : fs p with
    | none => simp [hp] at hn
    | some ar =>
      simp only [hp] at hn
      cases hf : ar.find? (fun e => name e == sub) with
      | none => simp [hf] at hn
      | some e =>
        simp only [hf] at hn
        refine ⟨p, sub, ar, e, rfl, hp, List.mem_of_find?_eq_some hf, ?_, by simpa using hn⟩
        simpa using List.find?_some hf

/-- A listed entry (name without the separator) reads the FIRST entry of the archive that carries its name — of any
entry type, regular or not. -/
theorem C05_tar_member_dup_reads_first (fs : Fs) (tp : Bytes) (ar : Archive) (hfs : fs tp = some ar)
    (full : Bytes) (e : Entry) (hl : (full, e) ∈ listed tp ar) (hsep : sepB ∉ name e) :
    ∃ e1, ar.find? (fun x => name x == name e) = some e1 ∧ brRead fs full = brWant e1 ∧ ntfRead fs full = ntfWant e1 := by
  obtain ⟨hmem, _, hfull⟩ := (mem_listed tp ar full e).mp hl
  have hsp : splitLast sepB full = some (tp, name e) := by rw [hfull]; exact splitLast_append sepB tp _ hsep
  cases hf : ar.find? (fun x => name x == name e) with
  | none =>
    have := List.find?_eq_none.mp hf e hmem
    simp at this
  | some e1 =>
    refine ⟨e1, rfl, ?_, ?_⟩
    · rw [brRead_eq]; simp only [hsp, hfs, hf]
    · rw [ntfRead_eq]; simp only [hsp, hfs, hf, ntfWant]

/-- exact characterisation: a listed entry reads its own bytes iff the first entry of its name carries the same bytes -/
theorem C05_tar_member_iff (fs : Fs) (tp : Bytes) (ar : Archive) (hfs : fs tp = some ar)
    (full : Bytes) (e : Entry) (hl : (full, e) ∈ listed tp ar) (hsep : sepB ∉ name e) :
    (brRead fs full = brWant e ∧ ntfRead fs full = ntfWant e) ↔
      ∃ e1, ar.find? (fun x => name x == name e) = some e1 ∧ e1.data = e.data := by
  obtain ⟨e1, hf, hb, hn⟩ := C05_tar_member_dup_reads_first fs tp ar hfs full e hl hsep
  constructor
  · rintro ⟨_, h2⟩
    refine ⟨e1, hf, ?_⟩
    rw [hn] at h2
    simpa [ntfWant] using h2
  · rintro ⟨e2, hf2, hd⟩
    have : e2 = e1 := by rw [hf] at hf2; exact (Option.some.inj hf2).symm
    subst this
    rw [hb, hn]
    simp [brWant, ntfWant, hd]

/-- **C05, tar members, distinct names**: in an archive whose entries (all of them, not only the listed ones) have
pairwise distinct lossy names, every listed entry whose name does not hold the separator reads exactly its own
member's bytes, at all three sites. -/
theorem C05_tar_member_distinct (fs : Fs) (tp : Bytes) (ar : Archive) (hfs : fs tp = some ar)
    (hdist : (ar.map name).Nodup)
    (full : Bytes) (e : Entry) (hl : (full, e) ∈ listed tp ar) (hsep : sepB ∉ name e) :
    brRead fs full = brWant e ∧ ntfRead fs full = ntfWant e := by
  obtain ⟨hmem, _, _⟩ := (mem_listed tp ar full e).mp hl
  exact (C05_tar_member_iff fs tp ar hfs full e hl hsep).mpr ⟨e, find_of_nodup name ar e hdist hmem, rfl⟩

/-- the same by position: the `k`-th listed string reads the `k`-th regular entry -/
theorem C05_tar_member_distinct_kth (fs : Fs) (tp : Bytes) (ar : Archive) (hfs : fs tp = some ar)
    (hdist : (ar.map name).Nodup) (k : Nat) (full : Bytes) (e : Entry)
    (hk : (listed tp ar)[k]? = some (full, e)) (hsep : sepB ∉ name e) :
    (ar.filter (·.regular))[k]? = some e ∧ brRead fs full = brWant e ∧ ntfRead fs full = ntfWant e := by
  refine ⟨?_, C05_tar_member_distinct fs tp ar hfs hdist full e (List.mem_of_getElem? hk) hsep⟩
  have : (listed tp ar).map (·.2) = ar.filter (·.regular) := by
    simp [listed, listedWith, show listRegularOnly = true from rfl, List.map_map, Function.comp_def]
  rw [← this, List.getElem?_map, hk]; rfl

/-- no member of that name: the block reader is EMPTY (or fails on an archive without entries), `decompress_to_ntf`
answers `Ok(None)`; neither delivers bytes -/
theorem C05_tar_lookup_none (fs : Fs) (tp : Bytes) (ar : Archive) (hfs : fs tp = some ar)
    (n : Bytes) (hsep : sepB ∉ n) (habs : ∀ e ∈ ar, name e ≠ n) :
    brRead fs (tp ++ sepB :: n) = (if ar = [] then .readErr else .empty) ∧ ntfRead fs (tp ++ sepB :: n) = .none := by
  have hsp := splitLast_append sepB tp n hsep
  have hf : ar.find? (fun x => name x == n) = none := by
    apply List.find?_eq_none.mpr
    intro e he
    simpa using habs e he
  constructor
  · rw [brRead_eq]; simp only [hsp, hfs, hf]
  · rw [ntfRead_eq]; simp only [hsp, hfs, hf]

/-- `ntfNoMatch`, `brNoMatch` as generated: a missing member is never a panic and never an `Err` of the lookup itself -/
theorem C05_tar_nomatch_facts : ntfNoMatch = .okNone ∧ brNoMatch = .zeroSize := by decide

/-! ### witnesses (bytes spelled out: `app.log` = 97 112 112 46 108 111 103) -/

def tp : Bytes := [116, 46, 116, 97, 114]                      -- `t.tar`
def appLog : Bytes := [97, 112, 112, 46, 108, 111, 103]        -- `app.log`
def oldAppLog : Bytes := [111, 108, 100, 47] ++ appLog         -- `old/app.log`
def d1 : Bytes := [102, 105, 114, 115, 116, 10]                -- `first\n`
def d2 : Bytes := [115, 101, 99, 111, 110, 100, 33, 10]        -- `second!\n`

/-- F33: `tar -r` / `tar -u` appended a second `app.log` -/
def dupAr : Archive := [mkEntry appLog true d1, mkEntry appLog true d2]

/-- non-vacuity of `C05_tar_member_distinct`: two different names, both read their own bytes -/
example : let ar := [mkEntry oldAppLog true d1, mkEntry appLog true d2]
    (ar.map name).Nodup ∧ (listed tp ar).length = 2 ∧
    (∀ x ∈ listed tp ar, sepB ∉ name x.2 ∧ brRead (oneTar tp ar) x.1 = brWant x.2 ∧ ntfRead (oneTar tp ar) x.1 = ntfWant x.2) := by
  decide

/-- the unrestricted statement -/
def C05_tar_member_full : Prop :=
  ∀ (fs : Fs) (tp : Bytes) (ar : Archive), fs tp = some ar →
    ∀ (full : Bytes) (e : Entry), (full, e) ∈ listed tp ar → brRead fs full = brWant e ∧ ntfRead fs full = ntfWant e

/-- **F33**: false. `dup.tar` = [`app.log` "first", `app.log` "second!"]: the listing shows `app.log` twice and BOTH
entries read "first"; the second member's bytes are never delivered. -/
theorem C05_tar_member_full_false : ¬ C05_tar_member_full := by
  intro h
  have := h (oneTar tp dupAr) tp dupAr (by decide) (tp ++ sepB :: appLog) (mkEntry appLog true d2) (by decide)
  revert this
  decide

/-- the witness read out: both listed strings are the same and read the first copy -/
example : (listed tp dupAr).map (·.1) = [tp ++ sepB :: appLog, tp ++ sepB :: appLog]
    ∧ (listed tp dupAr).map (fun x => brRead (oneTar tp dupAr) x.1) = [.ok d1, .ok d1]
    ∧ (listed tp dupAr).map (fun x => ntfRead (oneTar tp dupAr) x.1) = [.ok d1, .ok d1] := by decide

/-- "the listed names are pairwise distinct" is NOT enough -/
def C05_tar_member_listed_distinct : Prop :=
  ∀ (fs : Fs) (tp : Bytes) (ar : Archive), fs tp = some ar → ((listed tp ar).map (·.1)).Nodup →
    ∀ (full : Bytes) (e : Entry), (full, e) ∈ listed tp ar → sepB ∉ name e →
      brRead fs full = brWant e ∧ ntfRead fs full = ntfWant e

/-- false: a symbolic link `app.log` (size 0), later replaced by a file and appended with `tar -r`: ONE listed entry,
which reads nothing (the link entry is found first). With a contiguous-file entry (typeflag `7`) in front, the
listed entry reads that entry's bytes. -/
theorem C05_tar_member_listed_distinct_false : ¬ C05_tar_member_listed_distinct := by
  intro h
  have := h (oneTar tp [mkEntry appLog false [], mkEntry appLog true d2]) tp [mkEntry appLog false [], mkEntry appLog true d2] (by decide) (by decide)
    (tp ++ sepB :: appLog) (mkEntry appLog true d2) (by decide) (by decide)
  revert this
  decide

example : let ar := [mkEntry appLog false d1, mkEntry appLog true d2]
    (listed tp ar).map (fun x => brRead (oneTar tp ar) x.1) = [.ok d1] := by decide

/-- two stored names that differ only in a byte that is not UTF-8 (`\xFF.log`, `\xFE.log`) are listed under the same
string and both read the first -/
theorem C05_tar_member_lossy_collision :
    let ar := [mkEntry [0xFF, 46, 108, 111, 103] true d1, mkEntry [0xFE, 46, 108, 111, 103] true d2]
    (ar.map (·.path)).Nodup ∧ ¬ (ar.map name).Nodup ∧
    (listed tp ar).map (fun x => brRead (oneTar tp ar) x.1) = [.ok d1, .ok d1] := by decide

/-- the separator hypothesis is needed too -/
def C05_tar_member_any_name : Prop :=
  ∀ (fs : Fs) (tp : Bytes) (ar : Archive), fs tp = some ar → (ar.map name).Nodup →
    ∀ (full : Bytes) (e : Entry), (full, e) ∈ listed tp ar → brRead fs full = brWant e ∧ ntfRead fs full = ntfWant e

/-- false: the member `a|b.log` is listed as `t.tar|a|b.log`; both readers split at the LAST `|` and try to open the
file `t.tar|a` -/
theorem C05_tar_member_sep_false : ¬ C05_tar_member_any_name := by
  intro h
  have := h (oneTar tp [mkEntry [97, 124, 98, 46, 108, 111, 103] true d1]) tp [mkEntry [97, 124, 98, 46, 108, 111, 103] true d1] (by decide) (by decide)
    (tp ++ sepB :: [97, 124, 98, 46, 108, 111, 103]) (mkEntry [97, 124, 98, 46, 108, 111, 103] true d1) (by decide)
  revert this
  decide

/-- in general: with a separator in the member name the archive part that gets opened is longer than the archive's path -/
theorem C05_tar_member_sep_opens_other (tp a b : Bytes) (h : sepB ∉ b) :
    splitFull brSplitAtLast (tp ++ sepB :: (a ++ sepB :: b)) = some (tp ++ sepB :: a, b) := by
  simp only [splitFull, show brSplitAtLast = true from rfl, if_true]
  exact splitLast_sep_in_name sepB tp a b h

/-- names are not normalised: `./app.log` and `app.log` are two members, each read under its own name; asking for
`app.log` when only `./app.log` is stored finds nothing -/
theorem C05_tar_name_not_normalised :
    let dot : Bytes := [46, 47] ++ appLog
    let ar := [mkEntry dot true d1, mkEntry appLog true d2]
    (listed tp ar).map (fun x => (x.1, brRead (oneTar tp ar) x.1)) = [(tp ++ sepB :: dot, .ok d1), (tp ++ sepB :: appLog, .ok d2)]
    ∧ ntfRead (oneTar tp [mkEntry dot true d1]) (tp ++ sepB :: appLog) = .none := by decide

/-! ### counter-models: the other value of each generated fact -/

/-- `C05_tar_member_distinct` (over a directory holding the one archive) with the site parameters explicit -/
def DistinctStmt (br ntf : LookupSite) (atLast : Bool) (lacc : NameAcc) : Prop :=
  ∀ (tp : Bytes) (ar : Archive), (ar.map name).Nodup →
    ∀ (full : Bytes) (e : Entry), (full, e) ∈ listedWith lacc true tp ar → sepB ∉ name e →
      brReadWith br atLast (oneTar tp ar) full = brWant e ∧ ntfReadWith ntf atLast .okNone (oneTar tp ar) full = ntfWant e

/-- as generated it holds -/
theorem DistinctStmt_source : DistinctStmt brNewSite ntfSite brSplitAtLast listAcc := by
  intro tp ar hd full e hl hsep
  have hl' : (full, e) ∈ listed tp ar := hl
  have := C05_tar_member_distinct (oneTar tp ar) tp ar (by simp [oneTar]) hd full e hl' hsep
  exact this

/-- the archive of the earlier planted bug: all names distinct -/
def oldNewAr : Archive := [mkEntry oldAppLog true d1, mkEntry appLog true d2]

/-- `if !Path::new(&subfpath).ends_with(subpath)` in `BlockReader::new` (seeded change C05-b): `app.log` reads `old/app.log` -/
theorem path_ends_with_reads_wrong : ¬ DistinctStmt ⟨.entryPath, .pathEndsWith, true, false⟩ ntfSite true .entryPath := by
  intro h
  have := h tp oldNewAr (by decide) (tp ++ sepB :: appLog) (mkEntry appLog true d2) (by decide) (by decide)
  revert this
  decide

theorem str_ends_with_reads_wrong : ¬ DistinctStmt brNewSite ⟨.entryPath, .strEndsWith, true, false⟩ true .entryPath := by
  intro h
  have := h tp oldNewAr (by decide) (tp ++ sepB :: appLog) (mkEntry appLog true d2) (by decide) (by decide)
  revert this
  decide

/-- `starts_with` / `contains`: `app.log` reads `app.log.1` stored in front of it -/
theorem starts_with_reads_wrong : ¬ DistinctStmt ⟨.entryPath, .strStartsWith, true, false⟩ ntfSite true .entryPath := by
  intro h
  have := h tp [mkEntry (appLog ++ [46, 49]) true d1, mkEntry appLog true d2] (by decide)
    (tp ++ sepB :: appLog) (mkEntry appLog true d2) (by decide) (by decide)
  revert this
  decide

theorem contains_reads_wrong : ¬ DistinctStmt brNewSite ⟨.entryPath, .strContains, true, false⟩ true .entryPath := by
  intro h
  have := h tp oldNewAr (by decide) (tp ++ sepB :: appLog) (mkEntry appLog true d2) (by decide) (by decide)
  revert this
  decide

/-- a member path of 101 bytes (`a/` × 47, then `app.log`): GNU long-name record or pax `path`; the header keeps 100 bytes -/
def longName : Bytes := (List.replicate 47 [97, 47]).flatten ++ appLog

example : longName.length = 101 ∧ (mkEntry longName true d1).hdrPath.length = 100 := by decide

/-- `entry.header().path()` in `decompress_to_ntf` (seeded change C05-c): a member with a long name is not found -/
theorem header_path_lookup_fails : ¬ DistinctStmt brNewSite ⟨.headerPath, .eq, true, false⟩ true .entryPath := by
  intro h
  have := h tp [mkEntry longName true d1] (by decide) (tp ++ sepB :: longName) (mkEntry longName true d1) (by decide) (by decide)
  revert this
  decide

theorem header_path_lookup_fails_br : ¬ DistinctStmt ⟨.headerPath, .eq, true, false⟩ ntfSite true .entryPath := by
  intro h
  have := h tp [mkEntry longName true d1] (by decide) (tp ++ sepB :: longName) (mkEntry longName true d1) (by decide) (by decide)
  revert this
  decide

/-- listing by `entry.header().path()` while the readers compare `entry.path()`: the listed (truncated) name is not found -/
theorem header_path_listing_fails : ¬ DistinctStmt brNewSite ntfSite true .headerPath := by
  intro h
  have := h tp [mkEntry longName true d1] (by decide) (tp ++ sepB :: longName.take 100) (mkEntry longName true d1) (by decide) (by decide)
  revert this
  decide

/-- no `break` in `BlockReader::new`: `entry_index` runs on to the last entry, so `old/app.log` reads (a prefix of)
the LAST member -/
theorem no_break_reads_last_entry : ¬ DistinctStmt ⟨.entryPath, .eq, false, false⟩ ntfSite true .entryPath := by
  intro h
  have := h tp oldNewAr (by decide) (tp ++ sepB :: oldAppLog) (mkEntry oldAppLog true d1) (by decide) (by decide)
  revert this
  decide

/-- `split_once` (the FIRST separator): an archive below a directory whose name holds `|` is not opened -/
theorem split_first_fails : ¬ DistinctStmt brNewSite ntfSite false .entryPath := by
  intro h
  have := h [100, 124, 120, 47, 116] [mkEntry appLog true d1] (by decide)
    ([100, 124, 120, 47, 116] ++ sepB :: appLog) (mkEntry appLog true d1) (by decide) (by decide)
  revert this
  decide

/-- what the first-match rule decides: with `break` both copies of F33 read the first, without it (in
`decompress_to_ntf`) both would read the last -/
theorem dup_first_vs_last :
    (listed tp dupAr).map (fun x => ntfReadWith ntfSite true .okNone (oneTar tp dupAr) x.1) = [.ok d1, .ok d1] ∧
    (listed tp dupAr).map (fun x => ntfReadWith ⟨.entryPath, .eq, false, false⟩ true .okNone (oneTar tp dupAr) x.1) = [.ok d2, .ok d2] := by
  decide

/-- a type filter in the lookups (`regularOnly`) would repair the shadowing by a non-regular entry, not F33 -/
theorem regular_only_repairs_shadow :
    let ar := [mkEntry appLog false [], mkEntry appLog true d2]
    (listed tp ar).map (fun x => brReadWith ⟨.entryPath, .eq, true, true⟩ true (oneTar tp ar) x.1) = [.ok d2] ∧
    (listed tp dupAr).map (fun x => brReadWith ⟨.entryPath, .eq, true, true⟩ true (oneTar tp dupAr) x.1) = [.ok d1, .ok d1] := by
  decide

end S4V.Props.TarMemberSpec
