/-
C19 — the summary agrees with what was printed: the REGENERATED accounting.

`S4V.Gen.Summary` is the accounting code of src/printer/summary.rs and of the print arms of `processing_loop`
(src/bin/s4.rs) translated to data on every run; `S4V.Model.Summary` interprets it.  Here:

  summary_skeleton_is_model   running the regenerated arm of `match log_message` = the hand model's `account` (all
                              counters, both datetimes, the per-file map) and writes exactly `coordAfter`;
  C19_*_src                   the C19 theorems of `PrintSpec` restated for the interpreter running the source's program;
  *_breaks_*                  one-token edits of the source (= other values of the regenerated data) make a named C19
                              statement false on a concrete two-message run.

Notation: `runAcctG P sep {} evs` = `summaryprinted` / `map_pathid_sumpr` after the print events `evs` when the program
is `P`; `SRC` = the program regenerated from the source.
-/
import S4V.Lemmas.Summary
import S4V.Props.PrintSpec

namespace S4V.Props.SummarySpec
open S4V.Model.Print S4V.Model.Summary S4V.Gen.Summary S4V.Lemmas.Print S4V.Lemmas.Summary S4V.Props.PrintSpec

/-! ## the regenerated arm is the hand model -/

theorem atom_mapUpdate (k : Kind) (cx : Ctx) (st : LState) :
    runAtom SRC cx st (.mapUpdate (kOf k) .printed .flushed) =
      { st with acct := { st.acct with
          perFile := mapUpdate st.acct.perFile cx.pid k cx.nlines st.printed st.flushed cx.dt } } := by
  simp only [runAtom, envOf, evalE]
  rw [runMapUpd_src]

theorem atom_totalUpdate (k : Kind) (cx : Ctx) (st : LState) :
    runAtom SRC cx st (.totalUpdate (kOf k) .printed .flushed) =
      { st with acct := { st.acct with total := st.acct.total.update k cx.nlines st.printed st.flushed cx.dt } } := by
  simp only [runAtom, envOf, evalE, runCall]
  rw [runUpdate_src]

theorem SRC_loop (k : K) : SRC.loop k = LOOP k := rfl
theorem SRC_nlLen : SRC.nlLen = 1 := rfl

/-- what one arm does, for any print result: `printed`/`flushed` are the pair of `Ok((printed, flushed))`, or `0, 0`
after `Err(_)` -/
theorem stepG_src (a : Acct) (sep : Bytes) (summary : Bool) (pid : Nat) (m : Msg) (isLast : Bool) (dt : Int)
    (res : Option (Nat × Nat)) :
    let st := stepG SRC a sep summary pid m isLast dt res
    st.acct = (if summary then account a sep pid m isLast dt (res.getD (0, 0)).1 (res.getD (0, 0)).2 else a) ∧
    st.out = coordAfter sep m isLast ∧
    st.paths = (if summary then [pid] else []) := by
  have m1 := atom_mapUpdate .sysline; have m2 := atom_mapUpdate .fixedstruct
  have m3 := atom_mapUpdate .evtx; have m4 := atom_mapUpdate .journal
  have t1 := atom_totalUpdate .sysline; have t2 := atom_totalUpdate .fixedstruct
  have t3 := atom_totalUpdate .evtx; have t4 := atom_totalUpdate .journal
  simp only [kOf] at m1 m2 m3 m4 t1 t2 t3 t4
  have hsep : sep.isEmpty = decide (sep = []) := by cases sep <;> simp
  cases m <;> cases summary <;> cases res <;> by_cases hs : sep = [] <;>
    simp [stepG, SRC_loop, Msg.kind, kOf, LOOP, LOOP_SYSLINE, LOOP_FIXEDSTRUCT, LOOP_EVTX, LOOP_JOURNALENTRY, runBlock,
      runGAtom, evalCond, evalV, ctxOf, m1, m2, m3, m4, t1, t2, t3, t4, hsep, hs, account, coordAcct, coordAfter, addCoord,
      Msg.nlines, Msg.payload] <;>
    simp [runAtom, envOf, evalE, bump, SRC_nlLen] <;>
    (try (cases isLast <;> simp <;> split <;> simp_all))

/-- **the regenerated skeleton is the model**: with `--summary`, an arm of `match log_message` whose print call returned
`Ok((printed, flushed))` leaves exactly the hand model's `account` in `summaryprinted` / `map_pathid_sumpr`, and the
coordinator's own writes are exactly `coordAfter` (separator; newline after an unterminated last text message) -/
theorem summary_skeleton_is_model (a : Acct) (sep : Bytes) (pid : Nat) (m : Msg) (isLast : Bool) (dt : Int)
    (printed flushed : Nat) :
    (stepG SRC a sep true pid m isLast dt (some (printed, flushed))).acct = account a sep pid m isLast dt printed flushed ∧
    (stepG SRC a sep true pid m isLast dt (some (printed, flushed))).out = coordAfter sep m isLast := by
  have h := stepG_src a sep true pid m isLast dt (some (printed, flushed))
  simp only [] at h
  exact ⟨by simpa using h.1, h.2.1⟩

/-- C19 "stdout unchanged by `--summary`", regenerated: without `-s` the arm writes the same bytes and leaves the
accounting state untouched (every accounting statement sits under `if cli_opt_summary`; no write does) -/
theorem C19_stdout_unchanged_src (a : Acct) (sep : Bytes) (pid : Nat) (m : Msg) (isLast : Bool) (dt : Int)
    (res : Option (Nat × Nat)) :
    (stepG SRC a sep false pid m isLast dt res).out = (stepG SRC a sep true pid m isLast dt res).out ∧
    (stepG SRC a sep false pid m isLast dt res).acct = a := by
  have h0 := stepG_src a sep false pid m isLast dt res
  have h1 := stepG_src a sep true pid m isLast dt res
  simp only [] at h0 h1
  exact ⟨by rw [h0.2.1, h1.2.1], by simpa using h0.1⟩

/-- a failed print call (`Err(_)`) is still counted as a printed message, with 0 bytes and 0 flushes
(the arm goes on to the updates with the initial `printed = 0; flushed = 0`) -/
theorem failed_print_is_counted (a : Acct) (sep : Bytes) (pid : Nat) (m : Msg) (isLast : Bool) (dt : Int) :
    (stepG SRC a sep true pid m isLast dt none).acct = account a sep pid m isLast dt 0 0 := by
  have h := stepG_src a sep true pid m isLast dt none
  simp only [] at h
  simpa using h.1

/-- a whole run under the regenerated program is the hand model's run -/
theorem runAcctG_src (sep : Bytes) (a : Acct) (evs : List Ev) : runAcctG SRC sep a evs = runAcct sep a evs := by
  induction evs generalizing a with
  | nil => rfl
  | cons ev r ih =>
    simp only [runAcctG, runAcct]
    rw [(summary_skeleton_is_model a sep ev.pid ev.m ev.isLast ev.dt _ ev.flushed).1, ih]

/-! ## the C19 statements, for any program -/

/-- "Printed bytes" is the length of stdout with the escapes taken out -/
def TotalBytes (P : Progs) : Prop :=
  ∀ (pal : Nat → Pal) (sep : Bytes) (ls : Lasts) (evs : List Ev),
    (runAcctG P sep {} evs).total.bytes = (plainOf (runOut pal sep ls evs)).length

/-- the per-file byte counts add up to the total less the separators and supplied newlines -/
def PerFile (P : Progs) : Prop :=
  ∀ (sep : Bytes) (evs : List Ev),
    sumBy (·.bytes) (runAcctG P sep {} evs).perFile + (evs.map (fun ev => (sep ++ addedNL ev).length)).sum
      = (runAcctG P sep {} evs).total.bytes

/-- the message counters count the printed messages of each kind; lines = lines of the text messages -/
def Counts (P : Progs) : Prop :=
  ∀ (sep : Bytes) (evs : List Ev),
    let a := runAcctG P sep {} evs
    a.total.syslines = countKind .sysline evs ∧
    a.total.fixedstructentries = countKind .fixedstruct evs ∧
    a.total.evtxentries = countKind .evtx evs ∧
    a.total.journalentries = countKind .journal evs ∧
    a.total.lines = (evs.map (fun ev => ev.m.nlines)).sum ∧
    sumBy (·.lines) a.perFile = a.total.lines ∧
    sumBy msgsOf a.perFile = evs.length

/-- "Datetime printed first / last" bound every printed instant and are printed instants -/
def FirstLast (P : Progs) : Prop :=
  ∀ (sep : Bytes) (evs : List Ev), evs ≠ [] →
    ∃ f l, (runAcctG P sep {} evs).total.dtFirst = some f ∧ (runAcctG P sep {} evs).total.dtLast = some l ∧
      (∀ ev ∈ evs, f ≤ ev.dt ∧ ev.dt ≤ l) ∧ (∃ ev ∈ evs, ev.dt = f) ∧ (∃ ev ∈ evs, ev.dt = l)

theorem C19_total_bytes_src : TotalBytes SRC := by
  intro pal sep ls evs; rw [runAcctG_src]; exact C19_total_bytes pal sep ls evs

theorem C19_per_file_src : PerFile SRC := by
  intro sep evs; rw [runAcctG_src]; exact C19_per_file sep evs

theorem C19_counts_src : Counts SRC := by
  intro sep evs; rw [runAcctG_src]; exact C19_counts sep evs

theorem C19_first_last_src : FirstLast SRC := by
  intro sep evs hne; rw [runAcctG_src]; exact C19_first_last sep evs hne

/-- `--color never`: "Printed bytes" is literally the length of stdout -/
theorem C19_total_bytes_nocolor_src (pal : Nat → Pal) (sep : Bytes) (ls : Lasts) (evs : List Ev)
    (hc : ∀ ev ∈ evs, ev.o.color = false) :
    (runAcctG SRC sep {} evs).total.bytes = (bytesOf (runOut pal sep ls evs)).length := by
  rw [runAcctG_src]; exact C19_total_bytes_nocolor pal sep ls evs hc

/-- non-vacuity (also of the `--color never` hypothesis: `plainO.color = false`): a two-file run, out of order, with a separator and an unterminated last message -/
example : (runAcctG SRC [45] {}
    [⟨0, ⟨false, none, none⟩, .sysline ⟨[[97, 10], [98, 10]], 0, 0⟩, false, 20, 1⟩,
     ⟨1, ⟨false, none, none⟩, .sysline ⟨[[99]], 0, 0⟩, true, 10, 1⟩]).total
    = { bytes := 8, flushed := 5, lines := 3, syslines := 2, dtFirst := some 10, dtLast := some 20 } := by decide

/-! ## direct facts about the regenerated data -/

/-- `_summaryprint_map_update` sends every `LogMessage` variant to the map-update of its own kind with
`(printed, flushed)` in that order -/
theorem map_dispatch_per_kind : ∀ kc ∈ MAP_DISPATCH, kc.2 = ⟨kc.1, .printed, .flushed⟩ := by decide

theorem map_dispatch_total : MAP_DISPATCH.map (·.1) = [.evtx, .fixedstruct, .journalentry, .sysline] := by decide

/-- a fresh per-file entry holds what its own update call puts in it, and is inserted -/
theorem map_update_inserts : ∀ k : K, (MAP_UPDATE k).inserts = true ∧ (MAP_UPDATE k).someCalls = (MAP_UPDATE k).noneCalls ∧
    (MAP_UPDATE k).newType = k := by intro k; cases k <;> decide

/-- every "Printed …" line of the program summary prints the counter it names -/
theorem summary_labels :
    SUMMARY_LABELS = [("Printed bytes", .ctr .bytes), ("Printed flushes", .ctr .flushed), ("Printed lines", .ctr .lines),
      ("Printed syslines", .ctr .syslines), ("Printed evtx events", .ctr .evtxentries),
      ("Printed fixedstruct", .ctr .fixedstructentries), ("Printed journal events", .ctr .journalentries),
      ("Datetime printed first", .dt .first), ("Datetime printed last", .dt .last)] := by decide

/-! ## counter-models: one-token edits of the source -/

/-- replace the `i`-th element -/
def edit {α : Type} (l : List α) (i : Nat) (x : α) : List α := l.set i x

/-- `summaryprint_update_dt`: `dt_last` overwritten (`self.dt_last = Some(*dt)` without the `if dt > &dt_last`) — C19-b -/
def P_overwrite_last : Progs :=
  { SRC with updateDt := edit UPDATE_DT 1 { scrut := .last, someArm := .plain [.last], noneArm := [.last] } }

/-- `summaryprint_update_dt`: `if dt > &dt_first` instead of `<` -/
def P_first_gt : Progs :=
  { SRC with updateDt := edit UPDATE_DT 0 { scrut := .first, someArm := .guarded true .gt [.first], noneArm := [.first] } }

/-- `processing_loop`, text arm: `summaryprinted.bytes += sepb.len() * syslinep.count_lines()` (separator per line) -/
def P_sep_per_line : Progs :=
  { SRC with loop := fun k => if k = .sysline then edit LOOP_SYSLINE 2 ⟨[⟨false, .sepbPrint⟩, ⟨false, .summary⟩], .add .bytes (.mul .sepLen .countLines)⟩ else LOOP k }

/-- `processing_loop`, text arm: the added newline passed on to the per-file entry
(`summaryprint_map_update_sysline(…, printed + NLu8a.len(), flushed)`) -/
def P_nl_per_file : Progs :=
  { SRC with loop := fun k => if k = .sysline then edit LOOP_SYSLINE 8 ⟨[⟨false, .summary⟩], .mapUpdate .sysline (.add .printed .nlLen) .flushed⟩ else LOOP k }

/-- `summaryprint_update_evtx`: `self.journalentries += 1` -/
def P_evtx_bumps_journal : Progs :=
  { SRC with update := fun k => if k = .evtx then edit UPDATE_EVTX 0 (.add .journalentries (.lit 1)) else UPDATE k }

/-- `processing_loop`, text arm: `Ok((printed_, flushed_)) => { printed = flushed_; flushed = printed_ }` -/
def P_swap_result : Progs :=
  { SRC with loop := fun k => if k = .sysline then edit LOOP_SYSLINE 0 ⟨[], .printCall .sysline false⟩ else LOOP k }

/-- `processing_loop`, text arm: the `!` of `!(*syslinep).ends_with_newline()` dropped at the counting site
(the newline is counted when the last message ENDS with one, not when it is added) -/
def P_nl_cond_flipped : Progs :=
  { SRC with loop := fun k => if k = .sysline then edit LOOP_SYSLINE 5 ⟨[⟨false, .isLast⟩, ⟨false, .endsNL⟩, ⟨false, .summary⟩], .add .bytes .nlLen⟩ else LOOP k }

def plainO : Opts := ⟨false, none, none⟩
/-- text message `a\n` at instant 20 from file 0, then text message `b\n` at instant 10 from file 1 -/
def run2 : List Ev :=
  [⟨0, plainO, .sysline ⟨[[97, 10]], 0, 0⟩, false, 20, 1⟩, ⟨1, plainO, .sysline ⟨[[98, 10]], 0, 0⟩, true, 10, 1⟩]
/-- a two-line text message then an unterminated last one, same file -/
def run2L : List Ev :=
  [⟨0, plainO, .sysline ⟨[[97, 10], [98, 10]], 0, 0⟩, false, 10, 1⟩, ⟨0, plainO, .sysline ⟨[[99]], 0, 0⟩, true, 20, 1⟩]
/-- an event-log record then a journal entry -/
def run2E : List Ev :=
  [⟨0, plainO, .evtx ⟨[120, 10], 0, 0⟩, false, 10, 1⟩, ⟨1, plainO, .journal ⟨[121, 10], 0, 0⟩, true, 20, 1⟩]

/-- overwritten `dt_last`: the later message printed first is forgotten -/
theorem overwrite_last_breaks_first_last : ¬ FirstLast P_overwrite_last := by
  intro h
  obtain ⟨f, l, _, hl, hb, _⟩ := h [] run2 (by decide)
  have e : (runAcctG P_overwrite_last [] {} run2).total.dtLast = some 10 := by decide
  rw [e] at hl; cases hl
  have := (hb ⟨0, plainO, .sysline ⟨[[97, 10]], 0, 0⟩, false, 20, 1⟩ (by decide)).2
  revert this; decide

/-- `>` in the `dt_first` test: the first datetime only ever grows -/
theorem first_gt_breaks_first_last : ¬ FirstLast P_first_gt := by
  intro h
  obtain ⟨f, l, hf, _, hb, _⟩ := h [] run2 (by decide)
  have e : (runAcctG P_first_gt [] {} run2).total.dtFirst = some 20 := by decide
  rw [e] at hf; cases hf
  have := (hb ⟨1, plainO, .sysline ⟨[[98, 10]], 0, 0⟩, true, 10, 1⟩ (by decide)).1
  revert this; decide

/-- separator counted per line: a two-line message makes "Printed bytes" exceed stdout -/
theorem sep_per_line_breaks_total_bytes : ¬ TotalBytes P_sep_per_line := by
  intro h
  have := h (fun _ => ⟨[], [], []⟩) [45] (fun _ => none) run2L
  revert this; decide

/-- the added newline in the per-file entry: per-file sum + separators + newlines exceeds the total -/
theorem nl_per_file_breaks_per_file : ¬ PerFile P_nl_per_file := by
  intro h
  have := h [45] run2L
  revert this; decide

/-- the evtx update bumping the journal counter: "Printed evtx events" 0, "Printed journal events" 2 -/
theorem evtx_bumps_journal_breaks_counts : ¬ Counts P_evtx_bumps_journal := by
  intro h
  have := (h [] run2E).2.2.1
  revert this; decide

/-- `(printed, flushed)` of the print result crossed: bytes counts flushes -/
theorem swap_result_breaks_total_bytes : ¬ TotalBytes P_swap_result := by
  intro h
  have := h (fun _ => ⟨[], [], []⟩) [] (fun _ => none) run2
  revert this; decide

/-- the `!` of `!ends_with_newline()` dropped at the counting site only -/
theorem nl_cond_flipped_breaks_total_bytes : ¬ TotalBytes P_nl_cond_flipped := by
  intro h
  have := h (fun _ => ⟨[], [], []⟩) [] (fun _ => none) run2
  revert this; decide

end S4V.Props.SummarySpec
