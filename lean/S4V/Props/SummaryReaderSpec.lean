/-
C19, reader side — what a reader reports as first/last processed/accepted datetime and counts.

`EVTX_ANALYZE` (the `Ok(record)` arm of the record loop of `EvtxReader::analyze`), `FIXED_DT_FIRST_LAST`
(`FixedStructReader::dt_first_last_update`) and `JOURNAL_ACCEPTED_FIRST_LAST` (`JournalReader::em_first_last_update_accepted`)
are regenerated from the source (`S4V.Gen.Summary`); `S4V.Model.Summary.analyze` / `runFL` run them.

  recs            timestamps of the file's records, in file order
  inWin a b ts    `ts_pass_filters(ts, a, b)` is `InRange` (the translated function of `S4V.Gen.Filter`)
  minL / maxL     least / greatest element of a list (`none` for `[]`)
-/
import S4V.Lemmas.Summary

namespace S4V.Props.SummaryReaderSpec
open S4V.Model.Print S4V.Model.Summary S4V.Gen.Summary S4V.Lemmas.Summary

def inWin (after before : Option Int) (ts : Int) : Bool :=
  match S4V.Gen.Filter.tsPassFilters ts after before with
  | .InRange => true
  | _ => false

/-- the window in words: not before `-a`, not after `-b` (both ends inclusive) -/
theorem inWin_iff (after before : Option Int) (ts : Int) :
    inWin after before ts = true ↔ (∀ a, after = some a → a ≤ ts) ∧ (∀ b, before = some b → ts ≤ b) := by
  cases after with
  | none =>
    cases before with
    | none => simp [inWin, S4V.Gen.Filter.tsPassFilters]
    | some b => by_cases h : b < ts <;> simp [inWin, S4V.Gen.Filter.tsPassFilters, h] <;> omega
  | some a =>
    cases before with
    | none => by_cases h : ts < a <;> simp [inWin, S4V.Gen.Filter.tsPassFilters, h] <;> omega
    | some b =>
      by_cases h : ts < a <;> by_cases h2 : b < ts <;> simp [inWin, S4V.Gen.Filter.tsPassFilters, h, h2] <;> omega

def optMin (o : Option Int) (x : Int) : Option Int :=
  some (match o with | some b => min b x | none => x)
def optMax (o : Option Int) (x : Int) : Option Int :=
  some (match o with | some b => max b x | none => x)
def minL (l : List Int) : Option Int := l.foldl optMin none
def maxL (l : List Int) : Option Int := l.foldl optMax none

/-! ### one record -/

/-- readable form of the `Ok(record)` arm -/
def evStep (after before : Option Int) (s : EvSt) (ts : Int) : EvSt :=
  let s1 := { s with processed := s.processed + 1, firstProcessed := optMin s.firstProcessed ts,
                     lastProcessed := optMax s.lastProcessed ts }
  if inWin after before ts then
    { s1 with accepted := s1.accepted + 1, firstAccepted := optMin s1.firstAccepted ts,
              lastAccepted := optMax s1.lastAccepted ts, stored := s1.stored ++ [ts] }
  else s1

theorem opt_firstProcessed (s : EvSt) (ts : Int) :
    runOpt evGet evSet ts s { scrut := .firstProcessed, someArm := .guarded false .gt [.firstProcessed], noneArm := [.firstProcessed] }
      = { s with firstProcessed := optMin s.firstProcessed ts } := by
  obtain ⟨p, a, fp, lp, fa, la, st⟩ := s
  cases fp <;> simp [runOpt, assignAll, evGet, evSet, evalCmp, optMin, Int.min_def] <;> split <;> simp_all <;> omega

theorem opt_lastProcessed (s : EvSt) (ts : Int) :
    runOpt evGet evSet ts s { scrut := .lastProcessed, someArm := .guarded false .lt [.lastProcessed], noneArm := [.lastProcessed] }
      = { s with lastProcessed := optMax s.lastProcessed ts } := by
  obtain ⟨p, a, fp, lp, fa, la, st⟩ := s
  cases lp <;> simp [runOpt, assignAll, evGet, evSet, evalCmp, optMax, Int.max_def] <;> split <;> simp_all <;> omega

theorem opt_firstAccepted (s : EvSt) (ts : Int) :
    runOpt evGet evSet ts s { scrut := .firstAccepted, someArm := .guarded false .gt [.firstAccepted], noneArm := [.firstAccepted] }
      = { s with firstAccepted := optMin s.firstAccepted ts } := by
  obtain ⟨p, a, fp, lp, fa, la, st⟩ := s
  cases fa <;> simp [runOpt, assignAll, evGet, evSet, evalCmp, optMin, Int.min_def] <;> split <;> simp_all <;> omega

theorem opt_lastAccepted (s : EvSt) (ts : Int) :
    runOpt evGet evSet ts s { scrut := .lastAccepted, someArm := .guarded false .lt [.lastAccepted], noneArm := [.lastAccepted] }
      = { s with lastAccepted := optMax s.lastAccepted ts } := by
  obtain ⟨p, a, fp, lp, fa, la, st⟩ := s
  cases la <;> simp [runOpt, assignAll, evGet, evSet, evalCmp, optMax, Int.max_def] <;> split <;> simp_all <;> omega

/-- the regenerated arm is `evStep`: processed statistics always, `continue` for BeforeRange/AfterRange, then the store
and the accepted statistics; first = min (`if first > new`), last = max (`if last < new`) -/
theorem evtx_arm_is_model (after before : Option Int) (ts : Int) (s : EvSt) :
    runR after before ts EVTX_ANALYZE s = evStep after before s ts := by
  have key : ∀ res, S4V.Gen.Filter.tsPassFilters ts after before = res →
      runR after before ts EVTX_ANALYZE s = evStep after before s ts := by
    intro res hres
    simp only [EVTX_ANALYZE, runR, evStep, inWin, hres, opt_firstProcessed, opt_lastProcessed, opt_firstAccepted,
      opt_lastAccepted, evBump]
    cases res <;> simp
  exact key _ rfl

theorem analyze_cons (after before : Option Int) (ts : Int) (r : List Int) (s : EvSt) :
    analyze EVTX_ANALYZE after before (ts :: r) s = analyze EVTX_ANALYZE after before r (evStep after before s ts) := by
  simp [analyze, evtx_arm_is_model]

/-! ### min / max of a list -/

theorem foldl_optMin (l : List Int) (o : Option Int) (h : l ≠ [] ∨ o ≠ none) :
    ∃ m, l.foldl optMin o = some m ∧ (∀ x ∈ l, m ≤ x) ∧ (∀ b, o = some b → m ≤ b) ∧ (m ∈ l ∨ o = some m) := by
  induction l generalizing o with
  | nil =>
    cases o with
    | none => simp at h
    | some b => exact ⟨b, rfl, by simp, by simp, Or.inr rfl⟩
  | cons x r ih =>
    obtain ⟨m, h1, h2, h3, h4⟩ := ih (optMin o x) (Or.inr (by simp [optMin]))
    refine ⟨m, h1, ?_, ?_, ?_⟩
    · intro y hy
      rcases List.mem_cons.mp hy with e | e
      · subst e; have := h3 _ rfl; cases o <;> simp [Int.min_def] at this ⊢ <;> (try split at this) <;> omega
      · exact h2 y e
    · intro b hb; subst hb; have := h3 _ rfl; simp [Int.min_def] at this; split at this <;> omega
    · rcases h4 with e | e
      · exact Or.inl (List.mem_cons_of_mem _ e)
      · cases o with
        | none => simp [optMin] at e; subst e; exact Or.inl (by simp)
        | some b =>
          simp only [optMin, Option.some.injEq, Int.min_def] at e
          split at e
          · exact Or.inr (by rw [e])
          · subst e; exact Or.inl (by simp)

theorem foldl_optMax (l : List Int) (o : Option Int) (h : l ≠ [] ∨ o ≠ none) :
    ∃ m, l.foldl optMax o = some m ∧ (∀ x ∈ l, x ≤ m) ∧ (∀ b, o = some b → b ≤ m) ∧ (m ∈ l ∨ o = some m) := by
  induction l generalizing o with
  | nil =>
    cases o with
    | none => simp at h
    | some b => exact ⟨b, rfl, by simp, by simp, Or.inr rfl⟩
  | cons x r ih =>
    obtain ⟨m, h1, h2, h3, h4⟩ := ih (optMax o x) (Or.inr (by simp [optMax]))
    refine ⟨m, h1, ?_, ?_, ?_⟩
    · intro y hy
      rcases List.mem_cons.mp hy with e | e
      · subst e; have := h3 _ rfl; cases o <;> simp [Int.max_def] at this ⊢ <;> (try split at this) <;> omega
      · exact h2 y e
    · intro b hb; subst hb; have := h3 _ rfl; simp [Int.max_def] at this; split at this <;> omega
    · rcases h4 with e | e
      · exact Or.inl (List.mem_cons_of_mem _ e)
      · cases o with
        | none => simp [optMax] at e; subst e; exact Or.inl (by simp)
        | some b =>
          simp only [optMax, Option.some.injEq, Int.max_def] at e
          split at e
          · subst e; exact Or.inl (by simp)
          · exact Or.inr (by rw [e])

/-- `minL` of a non-empty list is its least element -/
theorem minL_spec (l : List Int) (h : l ≠ []) : ∃ m, minL l = some m ∧ m ∈ l ∧ ∀ x ∈ l, m ≤ x := by
  obtain ⟨m, h1, h2, _, h4⟩ := foldl_optMin l none (Or.inl h)
  exact ⟨m, h1, by simpa using h4, h2⟩

theorem maxL_spec (l : List Int) (h : l ≠ []) : ∃ m, maxL l = some m ∧ m ∈ l ∧ ∀ x ∈ l, x ≤ m := by
  obtain ⟨m, h1, h2, _, h4⟩ := foldl_optMax l none (Or.inl h)
  exact ⟨m, h1, by simpa using h4, h2⟩

/-! ### `EvtxReader::analyze` over a whole file -/

theorem analyze_fields (after before : Option Int) (recs : List Int) (s : EvSt) :
    let t := analyze EVTX_ANALYZE after before recs s
    t.processed = s.processed + recs.length ∧
    t.accepted = s.accepted + (recs.filter (inWin after before)).length ∧
    t.stored = s.stored ++ recs.filter (inWin after before) ∧
    t.firstProcessed = recs.foldl optMin s.firstProcessed ∧
    t.lastProcessed = recs.foldl optMax s.lastProcessed ∧
    t.firstAccepted = (recs.filter (inWin after before)).foldl optMin s.firstAccepted ∧
    t.lastAccepted = (recs.filter (inWin after before)).foldl optMax s.lastAccepted := by
  induction recs generalizing s with
  | nil => simp [analyze]
  | cons ts r ih =>
    have h := ih (evStep after before s ts)
    simp only [analyze_cons] at h ⊢
    obtain ⟨h1, h2, h3, h4, h5, h6, h7⟩ := h
    by_cases hw : inWin after before ts = true
    · simp only [evStep, hw, if_true] at h1 h2 h3 h4 h5 h6 h7 ⊢
      simp only [List.filter_cons, hw, if_true, List.foldl_cons, List.length_cons]
      refine ⟨by omega, by omega, by simp [h3], h4, h5, h6, h7⟩
    · have hw' : inWin after before ts = false := by simpa using hw
      simp only [evStep, hw', Bool.false_eq_true, if_false] at h1 h2 h3 h4 h5 h6 h7 ⊢
      simp only [List.filter_cons, hw', Bool.false_eq_true, if_false, List.foldl_cons, List.length_cons]
      exact ⟨by omega, h2, h3, h4, h5, h6, h7⟩

/-- C19 (evtx reader): "Events processed" = records read; "Events accepted" = records inside the `-a` … `-b` window =
what is stored for printing; the four datetimes are the least/greatest over all records and over the accepted ones -/
theorem evtx_reader_reports (after before : Option Int) (recs : List Int) :
    let t := analyze EVTX_ANALYZE after before recs {}
    let acc := recs.filter (inWin after before)
    t.processed = recs.length ∧ t.accepted = acc.length ∧ t.stored = acc ∧
    t.firstProcessed = minL recs ∧ t.lastProcessed = maxL recs ∧
    t.firstAccepted = minL acc ∧ t.lastAccepted = maxL acc := by
  have h := analyze_fields after before recs {}
  simp only [] at h
  obtain ⟨h1, h2, h3, h4, h5, h6, h7⟩ := h
  exact ⟨by simpa using h1, by simpa using h2, by simpa using h3, h4, h5, h6, h7⟩

/-- C19 (evtx reader): processed ⊇ accepted — when a record is accepted,
`first_processed ≤ first_accepted ≤ last_accepted ≤ last_processed`, all four are timestamps of records, and the
accepted pair lies inside the window -/
theorem evtx_reader_ordering (after before : Option Int) (recs : List Int)
    (hacc : ∃ ts ∈ recs, inWin after before ts = true) :
    let t := analyze EVTX_ANALYZE after before recs {}
    ∃ fp fa la lp, t.firstProcessed = some fp ∧ t.firstAccepted = some fa ∧ t.lastAccepted = some la ∧
      t.lastProcessed = some lp ∧ fp ≤ fa ∧ fa ≤ la ∧ la ≤ lp ∧ fp ∈ recs ∧ lp ∈ recs ∧
      fa ∈ recs ∧ la ∈ recs ∧ inWin after before fa = true ∧ inWin after before la = true := by
  obtain ⟨ts, hts, hw⟩ := hacc
  have hr : recs ≠ [] := by intro e; subst e; simp at hts
  have ha : recs.filter (inWin after before) ≠ [] := by
    intro e; have : ts ∈ recs.filter (inWin after before) := by simp [hts, hw]
    rw [e] at this; simp at this
  obtain ⟨_, _, _, e4, e5, e6, e7⟩ := evtx_reader_reports after before recs
  obtain ⟨fp, p1, p2, p3⟩ := minL_spec recs hr
  obtain ⟨lp, q1, q2, q3⟩ := maxL_spec recs hr
  obtain ⟨fa, r1, r2, r3⟩ := minL_spec _ ha
  obtain ⟨la, s1, s2, s3⟩ := maxL_spec _ ha
  have fa_in := (List.mem_filter.mp r2)
  have la_in := (List.mem_filter.mp s2)
  exact ⟨fp, fa, la, lp, by rw [e4, p1], by rw [e6, r1], by rw [e7, s1], by rw [e5, q1],
    p3 fa fa_in.1, r3 la s2, q3 la la_in.1, p2, q2, fa_in.1, la_in.1, fa_in.2, la_in.2⟩

/-- the hypothesis of `evtx_reader_ordering` is satisfiable -/
example : ∃ ts ∈ [25, 5, 40, 12, 30], inWin (some 10) (some 30) ts = true := by decide

/-- nothing accepted: no accepted datetimes, whatever was processed -/
theorem evtx_reader_none_accepted (after before : Option Int) (recs : List Int)
    (h : ∀ ts ∈ recs, inWin after before ts = false) :
    let t := analyze EVTX_ANALYZE after before recs {}
    t.accepted = 0 ∧ t.firstAccepted = none ∧ t.lastAccepted = none ∧ t.processed = recs.length := by
  obtain ⟨e1, e2, _, _, _, e6, e7⟩ := evtx_reader_reports after before recs
  have hf : recs.filter (inWin after before) = [] := by
    apply List.filter_eq_nil_iff.mpr; intro x hx; simp [h x hx]
  simp only [hf] at e2 e6 e7
  exact ⟨by simpa using e2, e6, e7, e1⟩

/-- the hypothesis of `evtx_reader_none_accepted` is satisfiable -/
example : ∀ ts ∈ [5, 7], inWin (some 10) none ts = false := by decide

/-- non-vacuity: out-of-order records, window [10, 30] -/
example : analyze EVTX_ANALYZE (some 10) (some 30) [25, 5, 40, 12, 30] {} =
    { processed := 5, accepted := 3, firstProcessed := some 5, lastProcessed := some 40, firstAccepted := some 12,
      lastAccepted := some 30, stored := [25, 12, 30] } := by decide

/-! ### first/last pairs: `FixedStructReader::dt_first_last_update`, `JournalReader::em_first_last_update_accepted` -/

theorem fl_step (prog : List (OptMatch DtF)) (h : prog = FIXED_DT_FIRST_LAST) (s : FL) (dt : Int) :
    runOpts flGet flSet prog s dt = ⟨optMin s.first dt, optMax s.last dt⟩ := by
  subst h
  obtain ⟨f, l⟩ := s
  cases f <;> cases l <;>
    simp [FIXED_DT_FIRST_LAST, runOpts, runOpt, assignAll, flGet, flSet, evalCmp, optMin, optMax, Int.min_def, Int.max_def] <;>
    (repeat' split) <;> simp_all <;> omega

theorem runFL_fields (dts : List Int) (s : FL) :
    runFL FIXED_DT_FIRST_LAST dts s = ⟨dts.foldl optMin s.first, dts.foldl optMax s.last⟩ := by
  induction dts generalizing s with
  | nil => rfl
  | cons d r ih => simp only [runFL, List.foldl_cons] at ih ⊢; rw [fl_step _ rfl, ih]

/-- C19 (fixedstruct reader): after `dt_first_last_update` for every processed entry, `dt_first` / `dt_last` are the
least / greatest entry datetime -/
theorem fixed_reader_first_last (dts : List Int) : runFL FIXED_DT_FIRST_LAST dts {} = ⟨minL dts, maxL dts⟩ :=
  runFL_fields dts {}

theorem fixed_reader_bounds (dts : List Int) (h : dts ≠ []) :
    ∃ f l, runFL FIXED_DT_FIRST_LAST dts {} = ⟨some f, some l⟩ ∧ f ∈ dts ∧ l ∈ dts ∧ ∀ x ∈ dts, f ≤ x ∧ x ≤ l := by
  obtain ⟨f, p1, p2, p3⟩ := minL_spec dts h
  obtain ⟨l, q1, q2, q3⟩ := maxL_spec dts h
  exact ⟨f, l, by rw [fixed_reader_first_last, p1, q1], p2, q2, fun x hx => ⟨p3 x hx, q3 x hx⟩⟩

/-- the journal reader's accepted pair is maintained by the same statements (same comparisons, same sides) -/
theorem journal_accepted_same_as_fixed : JOURNAL_ACCEPTED_FIRST_LAST = FIXED_DT_FIRST_LAST := rfl

theorem journal_reader_accepted_first_last (ems : List Int) :
    runFL JOURNAL_ACCEPTED_FIRST_LAST ems {} = ⟨minL ems, maxL ems⟩ := by
  rw [journal_accepted_same_as_fixed]; exact fixed_reader_first_last ems

/-! ### which datetimes the per-file `Printed:` section shows for an evtx / journal file -/

theorem updateDt_fields (s : SumPr) (dt : Int) :
    (runUpdateDt SRC s dt).dtFirst = optMin s.dtFirst dt ∧ (runUpdateDt SRC s dt).dtLast = optMax s.dtLast dt := by
  rw [runUpdateDt_src]
  obtain ⟨b, fl, l, sy, fx, ev, j, df, dl⟩ := s
  cases df <;> cases dl <;> simp [SumPr.updateDt, optMin, optMax, Int.min_def, Int.max_def] <;>
    (repeat' split) <;> simp_all <;> omega

theorem foldl_updateDt (l : List Int) (s : SumPr) :
    (l.foldl (runUpdateDt SRC) s).dtFirst = l.foldl optMin s.dtFirst ∧
    (l.foldl (runUpdateDt SRC) s).dtLast = l.foldl optMax s.dtLast := by
  induction l generalizing s with
  | nil => exact ⟨rfl, rfl⟩
  | cons x r ih =>
    have h := ih (runUpdateDt SRC s x)
    simp only [List.foldl_cons]
    rw [h.1, h.2, (updateDt_fields s x).1, (updateDt_fields s x).2]; exact ⟨rfl, rfl⟩

/-- C19: for an evtx file the per-file `datetime first` / `datetime last` lines print the reader's first/last ACCEPTED
datetime (regenerated flag), and when every stored (= accepted) event is printed these are exactly the `dt_first` /
`dt_last` the printer side (`summaryprint_update_dt` over the printed events, in any print order given by `stored`)
accumulates — the two bookkeepings agree -/
theorem evtx_perfile_dt_is_printed_dt (after before : Option Int) (recs : List Int) :
    let t := analyze EVTX_ANALYZE after before recs {}
    let sp := t.stored.foldl (runUpdateDt SRC) {}
    PERFILE_EVTX_DT_IS_ACCEPTED = (true, true) ∧ PERFILE_JOURNAL_DT_IS_ACCEPTED = (true, true) ∧
    sp.dtFirst = t.firstAccepted ∧ sp.dtLast = t.lastAccepted := by
  obtain ⟨_, _, e3, _, _, e6, e7⟩ := evtx_reader_reports after before recs
  have h := foldl_updateDt (analyze EVTX_ANALYZE after before recs {}).stored {}
  simp only [] at *
  refine ⟨by decide, by decide, ?_, ?_⟩
  · rw [h.1, e3, e6]; rfl
  · rw [h.2, e3, e7]; rfl

/-! ### counter-models -/

/-- `if ts_first_ < &timestamp` in the accepted-first match: the first accepted becomes the greatest -/
def EVTX_first_lt : List RStmt :=
  EVTX_ANALYZE.set 6 (.opt { scrut := .firstAccepted, someArm := .guarded false .lt [.firstAccepted], noneArm := [.firstAccepted] })

theorem first_lt_breaks_first_accepted :
    ¬ (∀ recs : List Int, ∀ fa, (analyze EVTX_first_lt none none recs {}).firstAccepted = some fa → ∀ x ∈ recs, fa ≤ x) := by
  intro h
  have := h [10, 20] 20 (by decide) 10 (by decide)
  revert this; decide

/-- the BeforeRange arm not `continue`-ing: a record before the window is accepted -/
def EVTX_no_continue : List RStmt := EVTX_ANALYZE.set 3 (.filter false false true)

theorem no_continue_breaks_accepted_count :
    ¬ (∀ after before recs, (analyze EVTX_no_continue after before recs {}).accepted = (recs.filter (inWin after before)).length) := by
  intro h
  have := h (some 10) none [5, 15]
  revert this; decide

/-- `dt_first_last_update` with `self.dt_last = Some(*datetime)` unconditionally -/
def FIXED_overwrite_last : List (OptMatch DtF) :=
  FIXED_DT_FIRST_LAST.set 1 { scrut := .last, someArm := .plain [.last], noneArm := [.last] }

theorem fixed_overwrite_breaks_bounds :
    ¬ (∀ dts : List Int, ∀ l, (runFL FIXED_overwrite_last dts {}).last = some l → ∀ x ∈ dts, x ≤ l) := by
  intro h
  have := h [20, 10] 10 (by decide) 20 (by decide)
  revert this; decide

end S4V.Props.SummaryReaderSpec
