/-
WorkerProto — the channel protocol of the per-file worker threads (C06 / C01 / C07).

`S4V.Gen.Worker` holds the control-flow skeletons of the sends of `exec_syslogprocessor`, `exec_fixedstructprocessor`,
`exec_evtxprocessor`, `exec_journalprocessor` and of their dispatcher `exec_fileprocessor_thread`, regenerated from
src/bin/s4.rs on every run. Here: for EVERY trace a skeleton can produce (`Produces`: loops any number of times,
opaque branches both ways, computed flags either value) the trace is a well-formed script of the coordinator model —
`FileInfo` first, then messages, then nothing (sender dropped) or exactly one `FileSummary` — so the hypothesis `WF` of
`C06_no_deadlock` / `C06_never_stops_early` is a regenerated, proved fact instead of an observation.

Method: `checkProto` runs the protocol automaton over the skeleton (`post`, reachable automaton-state × tracked-locals
sets per outcome, loop heads by a checked invariant); `checkProto_sound` (Lemmas) is proved once against the big-step
relation `Exec`; each skeleton is then one `decide`. A source change that regenerates a skeleton which can send a message
before `FileInfo`, return without `FileInfo`, or send after the summary makes the `decide` fail.
-/
import S4V.Lemmas.WorkerProto
import S4V.Props.C06

namespace S4V.Props.WorkerProtoSpec
open S4V.Gen.Worker S4V.Model.WorkerProto S4V.Lemmas.WorkerProto
open S4V.Model.Coord (Datum Msg wfScript BSt bstep)
open S4V.Lemmas.Coord (WF BReach deliverable)

/-! ## 0. the start data a thread can get -/

/-- what `processing_loop` passes to a thread it spawns: never an excluded `FileType`; `LogMessageSpecificData::Journal`
exactly for journals (both regenerated from the spawn site) -/
def SpawnEnv (env : Env) : Prop :=
  env.ft ∉ SPAWN_EXCLUDED ∧ env.lmsdJournal = (SPAWN_LMSD_JOURNAL_IFF_JOURNAL && decide (env.ft = .journal))

instance (env : Env) : Decidable (SpawnEnv env) := by unfold SpawnEnv; infer_instance

def allEnvs : List Env :=
  [⟨.evtx, false⟩, ⟨.evtx, true⟩, ⟨.fixedStruct, false⟩, ⟨.fixedStruct, true⟩, ⟨.journal, false⟩, ⟨.journal, true⟩,
   ⟨.text, false⟩, ⟨.text, true⟩, ⟨.unparsable, false⟩, ⟨.unparsable, true⟩]

theorem mem_allEnvs (env : Env) : env ∈ allEnvs := by
  cases env with
  | mk ft b => cases ft <;> cases b <;> decide

/-- the facts about ownership of the sender the semantics rests on (a worker that returns has closed its channel):
regenerated; the translator refuses any other use of `chan_send_dt` -/
theorem W_sender_owned : SENDER_OWNED_BY_WORKER = true ∧ SPAWN_LMSD_JOURNAL_IFF_JOURNAL = true ∧
    SPAWN_EXCLUDED = [.unparsable] := by decide

example : SpawnEnv ⟨.text, false⟩ ∧ SpawnEnv ⟨.journal, true⟩ ∧ ¬ SpawnEnv ⟨.journal, false⟩ ∧ ¬ SpawnEnv ⟨.unparsable, false⟩ := by
  decide

/-! ## 1. shape of a tidy trace (readable form of the automaton's verdict) -/

theorem tidyTail_shape : ∀ r : Trace, tidyTail r = true →
    ∃ (flags : List Bool) (fin : Trace), r = flags.map Ev.msg ++ fin ∧ (fin = [] ∨ ∃ ok, fin = [.summary ok]) := by
  intro r
  induction r with
  | nil => intro _; exact ⟨[], [], rfl, Or.inl rfl⟩
  | cons e r ih =>
    intro h
    cases e with
    | fileInfo b => simp [tidyTail] at h
    | msg b =>
      simp only [tidyTail] at h
      obtain ⟨fl, fin, hr, hf⟩ := ih h
      exact ⟨b :: fl, fin, by simp [hr], hf⟩
    | summary b =>
      cases r with
      | nil => exact ⟨[], [.summary b], rfl, Or.inr ⟨b, rfl⟩⟩
      | cons e' r' => simp [tidyTail] at h

/-- **(a)(b)(c)** a tidy trace is: one `FileInfo`; then only messages; then nothing, or exactly one `FileSummary` as the
very last datum -/
theorem tidy_shape (t : Trace) (h : tidy t = true) :
    ∃ (ok : Bool) (flags : List Bool) (fin : Trace),
      t = .fileInfo ok :: (flags.map Ev.msg ++ fin) ∧ (fin = [] ∨ ∃ ok', fin = [.summary ok']) := by
  cases t with
  | nil => simp [tidy] at h
  | cons e r =>
    cases e with
    | fileInfo b =>
      simp only [tidy] at h
      obtain ⟨fl, fin, hr, hf⟩ := tidyTail_shape r h
      exact ⟨b, fl, fin, by rw [hr], hf⟩
    | msg b => simp [tidy] at h
    | summary b => simp [tidy] at h

example : tidy [.fileInfo true, .msg false, .msg true, .summary true] = true ∧ tidy [.fileInfo false] = true ∧
    tidy [] = false ∧ tidy [.msg false] = false ∧ tidy [.fileInfo true, .summary true, .msg false] = false ∧
    tidy [.fileInfo true, .fileInfo true] = false := by decide

/-! ## 2. every trace of every worker is tidy -/

theorem tidy_of_check {env : Env} {p : List Stmt} (hc : checkProto false env p = true) {t : Trace}
    (h : Produces env p t) : tidy t = true :=
  tidy_of_run false t ((checkProto_sound hc).1 t h)

/-- a run cut short by a panic (builds that unwind) is a prefix of a tidy trace that never broke the protocol:
empty (the thread died before `FileInfo`), or `FileInfo` first -/
theorem cut_of_check {env : Env} {p : List Stmt} (hc : checkProto false env p = true) {t : Trace}
    (h : ProducesCut env p t) : t = [] ∨ tidy t = true := by
  have hb := (checkProto_sound hc).2 t h
  cases t with
  | nil => exact Or.inl rfl
  | cons e r =>
    right
    cases e with
    | fileInfo b =>
      simp only [tidy]
      exact tidyTail_of_run false r .open (Or.inl rfl) hb
    | msg b => rw [run_cons] at hb; exact absurd (run_bad false r) hb
    | summary b => rw [run_cons] at hb; exact absurd (run_bad false r) hb

/-- **text logs** (`exec_syslogprocessor`), whatever the start data -/
theorem W_text_tidy (env : Env) {t : Trace} (h : Produces env workerText t) : tidy t = true :=
  tidy_of_check (by cases env with | mk ft b => cases ft <;> cases b <;> decide) h

/-- **evtx** (`exec_evtxprocessor`), whatever the start data -/
theorem W_evtx_tidy (env : Env) {t : Trace} (h : Produces env workerEvtx t) : tidy t = true :=
  tidy_of_check (by cases env with | mk ft b => cases ft <;> cases b <;> decide) h

/-- **accounting records** (`exec_fixedstructprocessor`): when called with a `FileType::FixedStruct` -/
theorem W_fixed_tidy_partial (env : Env) (hft : env.ft = .fixedStruct) {t : Trace} (h : Produces env workerFixed t) :
    tidy t = true :=
  tidy_of_check (by cases env with | mk ft b => subst hft; cases b <;> decide) h

/-- **journal** (`exec_journalprocessor`): when called with `LogMessageSpecificData::Journal` -/
theorem W_journal_tidy_partial (env : Env) (hj : env.lmsdJournal = true) {t : Trace} (h : Produces env workerJournal t) :
    tidy t = true :=
  tidy_of_check (by cases env with | mk ft b => subst hj; cases ft <;> decide) h

example : Produces ⟨.fixedStruct, false⟩ workerFixed [.fileInfo false, .summary false] :=
  ⟨.ret, _, Exec.iteNormal (c := true) (t₁ := []) (by decide) (Exec.nil _)
    (Exec.iteAbrupt (c := true) (by decide)
      (Exec.send (e := .fileInfo false) (by decide) (Exec.send (e := .summary false) (by decide) (Exec.ret _ _))) (by decide)),
   Or.inr rfl⟩

/-- without the proviso the statement is false of the code: `exec_fixedstructprocessor` begins with
`match filetype { FileType::FixedStruct{..} => …, _ => { e_err!(…); return; } }` — a return before any send -/
def W_fixed_tidy_full : Prop := ∀ (env : Env) (t : Trace), Produces env workerFixed t → tidy t = true

theorem W_fixed_tidy_full_false : ¬ W_fixed_tidy_full := by
  intro h
  have : Produces ⟨.text, false⟩ workerFixed [] :=
    ⟨.ret, _, Exec.iteAbrupt (c := false) (by decide) (Exec.ret _ _) (by decide), Or.inr rfl⟩
  exact absurd (h _ _ this) (by decide)

/-- likewise `exec_journalprocessor`: `match logmessagespecificdata { Journal(x) => x, _ => { …; return; } }` -/
def W_journal_tidy_full : Prop := ∀ (env : Env) (t : Trace), Produces env workerJournal t → tidy t = true

theorem W_journal_tidy_full_false : ¬ W_journal_tidy_full := by
  intro h
  have : Produces ⟨.journal, false⟩ workerJournal [] :=
    ⟨.ret, _, Exec.iteAbrupt (c := false) (by decide) (Exec.ret _ _) (by decide), Or.inr rfl⟩
  exact absurd (h _ _ this) (by decide)

/-- **the thread as spawned** (`exec_fileprocessor_thread` with the start data `processing_loop` can pass):
every trace is tidy. This is (a) first datum `FileInfo`, (b) no message before it, (c) at most one `FileSummary` and
nothing after it, (d) a run that does not end with a `FileSummary` ends by the function returning, which drops the
sender (`Produces` has no other way to end; `W_sender_owned`) -/
theorem W_thread_tidy (env : Env) (hs : SpawnEnv env) {t : Trace} (h : Produces env workerThread t) : tidy t = true := by
  have hall : allEnvs.all (fun env => !decide (SpawnEnv env) || checkProto false env workerThread) = true := by decide
  have := List.all_eq_true.1 hall env (mem_allEnvs env)
  simp only [hs, decide_true, Bool.not_true, Bool.false_or] at this
  exact tidy_of_check this h

/-- the dispatcher's `_ =>` arm sends nothing: for a `FileType` outside the four handled ones the thread would end
without `FileInfo` (unreachable from the binary: `SPAWN_EXCLUDED`) -/
def W_thread_tidy_full : Prop := ∀ (env : Env) (t : Trace), Produces env workerThread t → tidy t = true

theorem W_thread_tidy_full_false : ¬ W_thread_tidy_full := by
  intro h
  have : Produces ⟨.unparsable, false⟩ workerThread [] :=
    ⟨.normal, _,
      Exec.iteNormal (c := false) (t₁ := []) (t₂ := []) (by decide)
        (Exec.iteNormal (c := false) (t₁ := []) (t₂ := []) (by decide)
          (Exec.iteNormal (c := false) (t₁ := []) (t₂ := []) (by decide)
            (Exec.iteNormal (c := false) (t₁ := []) (t₂ := []) (by decide) (Exec.nil _) (Exec.nil _))
            (Exec.nil _))
          (Exec.nil _))
        (Exec.nil _),
      Or.inl rfl⟩
  exact absurd (h _ _ this) (by decide)

/-- a thread that dies by a panic has sent nothing, or a `FileInfo`-first prefix -/
theorem W_thread_cut (env : Env) (hs : SpawnEnv env) {t : Trace} (h : ProducesCut env workerThread t) :
    t = [] ∨ tidy t = true := by
  have hall : allEnvs.all (fun env => !decide (SpawnEnv env) || checkProto false env workerThread) = true := by decide
  have := List.all_eq_true.1 hall env (mem_allEnvs env)
  simp only [hs, decide_true, Bool.not_true, Bool.false_or] at this
  exact cut_of_check this h

/-! ## 3. (e) `is_last` -/

theorem lastOk_of_check {env : Env} {p : List Stmt} (hc : checkProto true env p = true) {t : Trace}
    (h : Produces env p t) : lastOk t = true :=
  lastOk_of_run t .start (Or.inl rfl) (good_ne_bad ((checkProto_sound hc).1 t h))

/-- text logs: no message follows a message flagged `is_last` — by the control flow alone (`if is_last { … break }`,
`search_more`), whatever `is_sysline_last` computes -/
theorem W_text_lastOk (env : Env) {t : Trace} (h : Produces env workerText t) : lastOk t = true :=
  lastOk_of_check (by cases env with | mk ft b => cases ft <;> cases b <;> decide) h

/-- evtx and journal messages are never flagged (`let is_last = false`) -/
theorem W_evtx_lastOk (env : Env) {t : Trace} (h : Produces env workerEvtx t) : lastOk t = true :=
  lastOk_of_check (by cases env with | mk ft b => cases ft <;> cases b <;> decide) h

theorem W_journal_lastOk (env : Env) (hj : env.lmsdJournal = true) {t : Trace} (h : Produces env workerJournal t) :
    lastOk t = true :=
  lastOk_of_check (by cases env with | mk ft b => subst hj; cases ft <;> decide) h

/-- accounting records: the worker's control flow does NOT stop after a record flagged `is_last`
(`fixedstructreader.is_last(..)` is sent along and the loop goes on): the analysis rejects the strict automaton … -/
theorem W_fixed_lastOk_not_by_control_flow : checkProto true ⟨.fixedStruct, false⟩ workerFixed = false := by decide

/-! ## 4. connection to the coordinator model -/

/-- the script (in the sense of `S4V.Model.Coord`) of a trace; `pay k` is the `k`-th message's payload -/
def scriptOf (pay : Nat → Msg) : Nat → Trace → List Datum
  | _, [] => []
  | i, .fileInfo ok :: r => .fileInfo ok :: scriptOf pay i r
  | i, .msg _ :: r => .msg (pay i) :: scriptOf pay (i + 1) r
  | i, .summary ok :: r => .summary ok :: scriptOf pay i r

theorem deliverable_scriptOf_tail (pay : Nat → Msg) : ∀ (r : Trace) (i : Nat), tidyTail r = true →
    deliverable (scriptOf pay i r) = scriptOf pay i r := by
  intro r
  induction r with
  | nil => intro i _; rfl
  | cons e r ih =>
    intro i h
    cases e with
    | fileInfo b => simp [tidyTail] at h
    | msg b =>
      simp only [tidyTail] at h
      simp only [scriptOf, deliverable, ih (i + 1) h]
    | summary b =>
      cases r with
      | nil => rfl
      | cons e' r' => simp [tidyTail] at h

/-- a tidy trace is a well-formed script, all of which the coordinator receives -/
theorem script_of_tidy (pay : Nat → Msg) (t : Trace) (h : tidy t = true) :
    wfScript (scriptOf pay 0 t) = true ∧ deliverable (scriptOf pay 0 t) = scriptOf pay 0 t := by
  cases t with
  | nil => simp [tidy] at h
  | cons e r =>
    cases e with
    | fileInfo b =>
      simp only [tidy] at h
      exact ⟨rfl, by simp only [scriptOf, deliverable, deliverable_scriptOf_tail pay r 0 h]⟩
    | msg b => simp [tidy] at h
    | summary b => simp [tidy] at h

/-- the scripts of a run: each one is what a spawned thread's skeleton can produce -/
def FromSkeletons (scripts : List (List Datum)) : Prop :=
  ∀ sc ∈ scripts, ∃ (env : Env) (t : Trace) (pay : Nat → Msg),
    SpawnEnv env ∧ Produces env workerThread t ∧ sc = scriptOf pay 0 t

/-- **the hypothesis of `C06_no_deadlock` / `C06_never_stops_early` discharged** -/
theorem WF_of_skeletons {scripts : List (List Datum)} (h : FromSkeletons scripts) : WF scripts := by
  intro sc hsc
  obtain ⟨env, t, pay, hs, hp, rfl⟩ := h sc hsc
  exact (script_of_tidy pay t (W_thread_tidy env hs hp)).1

/-- no deadlock, for every schedule, whatever the files contain -/
theorem C06_no_deadlock_skeletons {scripts : List (List Datum)} (h : FromSkeletons scripts) (hne : scripts ≠ [])
    {b : BSt} (hr : BReach S4V.Gen.Consts.CHANNEL_CAPACITY scripts b) (hf : b.core.fin = false) :
    ∃ ev, (bstep S4V.Gen.Consts.CHANNEL_CAPACITY b ev).isSome = true :=
  S4V.Props.C06.C06_no_deadlock (WF_of_skeletons h) hne hr hf

/-- the coordinator never leaves its loop through the `recv_many_chan → None` path -/
theorem C06_never_stops_early_skeletons {scripts : List (List Datum)} (h : FromSkeletons scripts) (hne : scripts ≠ [])
    {b : BSt} (hr : BReach S4V.Gen.Consts.CHANNEL_CAPACITY scripts b) :
    bstep S4V.Gen.Consts.CHANNEL_CAPACITY b (.coord .brk) = none :=
  S4V.Props.C06.C06_never_stops_early (WF_of_skeletons h) hne hr

/-- … and everything a worker sends is delivered (nothing follows its summary) -/
theorem delivered_of_skeletons {scripts : List (List Datum)} (h : FromSkeletons scripts) :
    ∀ sc ∈ scripts, deliverable sc = sc := by
  intro sc hsc
  obtain ⟨env, t, pay, hs, hp, rfl⟩ := h sc hsc
  exact (script_of_tidy pay t (W_thread_tidy env hs hp)).2

example : FromSkeletons [scriptOf (fun k => ⟨k, k⟩) 0 [.fileInfo false, .summary false]] := by
  intro sc hsc
  rw [List.mem_singleton] at hsc
  refine ⟨⟨.fixedStruct, false⟩, [.fileInfo false, .summary false], _, by decide, ?_, hsc⟩
  exact ⟨.ret, _, Exec.iteAbrupt (c := true) (by decide)
    (Exec.iteNormal (c := true) (t₁ := []) (by decide) (Exec.nil _)
      (Exec.iteAbrupt (c := true) (by decide)
        (Exec.send (e := .fileInfo false) (by decide) (Exec.send (e := .summary false) (by decide) (Exec.ret _ _))) (by decide)))
    (by decide), Or.inr rfl⟩

/-! ## 5. counter-models: what the analysis rejects -/

/-- seeded change C07-a: the too-small arm of `exec_fixedstructprocessor` no longer sends `FileInfo` -/
def skelC07a : List Stmt := [
  .ite .opaque [.send (.fileSummary .err), .ret] [],
  .send (.fileInfo .ok),
  .loop [.ite .opaque [.send (.newMessage .unknown)] [.brk]],
  .send (.fileSummary .unknown)]

theorem c07a_rejected : checkProto false ⟨.fixedStruct, false⟩ skelC07a = false := by decide

/-- … and rightly so: it produces a script that is not well formed (the situation of `CoordSpec.wf_needed`) -/
theorem c07a_produces_untidy : ∃ t, Produces ⟨.fixedStruct, false⟩ skelC07a t ∧ tidy t = false ∧
    wfScript (scriptOf (fun k => ⟨k, k⟩) 0 t) = false :=
  ⟨[.summary false],
   ⟨.ret, _, Exec.iteAbrupt (c := true) (by decide) (Exec.send (e := .summary false) (by decide) (Exec.ret _ _)) (by decide),
    Or.inr rfl⟩, by decide, by decide⟩

/-- a worker that starts streaming before it has announced the file -/
def skelMsgFirst : List Stmt := [
  .loop [.ite .opaque [.send (.newMessage .unknown)] [.brk]],
  .send (.fileInfo .ok),
  .send (.fileSummary .ok)]

theorem msgFirst_rejected : checkProto false ⟨.text, false⟩ skelMsgFirst = false := by decide

/-- a worker that returns early on some path without having sent anything -/
def skelEarlyReturn : List Stmt := [
  .ite .opaque [.ret] [],
  .send (.fileInfo .ok),
  .send (.fileSummary .ok)]

theorem earlyReturn_rejected : checkProto false ⟨.text, false⟩ skelEarlyReturn = false := by decide

/-- a worker that goes on after its summary -/
def skelAfterSummary : List Stmt := [
  .send (.fileInfo .ok),
  .send (.fileSummary .ok),
  .send (.newMessage (.lit false))]

theorem afterSummary_rejected : checkProto false ⟨.text, false⟩ skelAfterSummary = false := by decide

/-- text logs without the `break` after a flagged message: the strict automaton rejects it (and accepts the real one) -/
def skelNoBreakOnLast : List Stmt := [
  .send (.fileInfo .unknown),
  .loop [.ite .opaque [.set 0 none, .send (.newMessage (.var 0))] [.brk]],
  .send (.fileSummary .unknown)]

theorem noBreakOnLast_rejected : checkProto true ⟨.text, false⟩ skelNoBreakOnLast = false ∧
    checkProto false ⟨.text, false⟩ skelNoBreakOnLast = true ∧ checkProto true ⟨.text, false⟩ workerText = true := by decide

end S4V.Props.WorkerProtoSpec
