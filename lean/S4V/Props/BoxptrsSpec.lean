/-
Property theorems for `Line::get_boxptrs(a, b)` (`S4V.Model.Boxptrs`).

`get_boxptrs(a, b)` is meant to return bytes `[a, min(b, len))` of the line as
0, 1, 2 or many slices of the line's parts. Its only caller
(`SyslineReader::parse_datetime_in_line`) concatenates the slices
(`Ptrs.bytes`) and runs the datetime regex on them, with
`a = dtpd.range_regex.start`, `b = min(line.len(), dtpd.range_regex.end)`.

Summary
* for `a` inside the first part — in particular `a = 0`, which is what every
  one of the 173 datetime patterns uses (`all_range_starts_zero`) — the result is
  the specified bytes, for every way of cutting the line into parts
  (`getBoxptrs_spec_first_part`, `getBoxptrs_start_zero`,
  `boxptrs_bs_independent`);
* for arbitrary `a` the statement is FALSE (`getBoxptrs_full_false`): the second
  loop skips the parts before `a` with `a -= len_` but leaves `b` alone, so the
  result is `skipLen` bytes too long (`getBoxptrs_bytes`); this bites exactly
  when `a` is beyond the first part, three or more parts are needed, and `b` is
  before the end of the line (`getBoxptrs_wrong_iff`);
* no call ever slices out of range, every returned slice is a sub-slice of one
  part, `MultiPtr` holds at least two slices (`getBoxptrs_in_bounds`,
  `getBoxptrs_slices_sub`, `getBoxptrs_multi_len`).

All proofs appeal to `S4V.Lemmas.Boxptrs`. Core Lean only.
-/
import S4V.Lemmas.Boxptrs
import S4V.Props.LinesSpec
import S4V.Gen.DtStart

namespace S4V.Props.BoxptrsSpec
open S4V.Model.Boxptrs S4V.Lemmas.Boxptrs

/-- running examples: `abcdefg` as seven one-byte parts (block size 1) and as
three parts (a first line of 1 byte before it, block size 3) -/
def ex7 : List Bytes := [[97], [98], [99], [100], [101], [102], [103]]
def ex3 : List Bytes := [[97, 98], [99, 100, 101], [102, 103]]

example : getBoxptrs ex7 0 5 = .multi [[97], [98], [99], [100], [101], []] := by decide
example : getBoxptrs ex7 2 5 = .multi [[99], [100], [101], [102], [103]] := by decide
example : getBoxptrs ex3 1 4 = .double [98] [99, 100] := by decide
example : getBoxptrs ex3 3 5 = .single [100, 101] := by decide
example : getBoxptrs ex3 6 9 = .single [103] := by decide
example : getBoxptrs ex3 7 9 = .none := by decide
example : spec ex7 2 5 = [99, 100, 101] := by decide

/-! ### 1. `NoPtr` -/

/-- `NoPtr` is returned exactly when `a` is at or beyond the end of the line -/
theorem getBoxptrs_none_iff (parts : List Bytes) (a b : Nat) :
    getBoxptrs parts a b = .none ↔ (flat parts).length ≤ a := by
  constructor
  · intro h
    rcases Nat.lt_or_ge a (flat parts).length with hlt | hge
    · exfalso
      have hn : ¬ lineLen parts ≤ a := by simp [lineLen, flat] at hlt ⊢; omega
      unfold getBoxptrs at h
      rw [if_neg hn] at h
      split at h
      · next q hq => subst h; exact loop1_ne_none parts a b false none hq
      · obtain ⟨ss, hss⟩ := loop2_multi parts a b false false []
        rw [hss] at h
        cases h
    · exact hge
  · exact getBoxptrs_none_of_le parts a b

example : getBoxptrs ex3 7 7 = .none := (getBoxptrs_none_iff ex3 7 7).mpr (by decide)

/-! ### 2. the bytes returned, exactly as coded -/

/-- `get_boxptrs(a, b)` returns bytes `[a, b')` of the line where `b' = b` when at
most two parts are needed and `b' = b + skipLen parts a` when three or more are:
the multi-part loop forgets to move `b` past the parts it skips before `a`. -/
theorem getBoxptrs_bytes (parts : List Bytes) (a b : Nat) (hab : a ≤ b)
    (hlt : a < (flat parts).length) :
    (getBoxptrs parts a b).bytes =
      spec parts a (if spans3 parts a b = true then b + skipLen parts a else b) := by
  rw [getBoxptrs_coded parts a b hab hlt, spec_eq]
  split <;> rfl

example : (getBoxptrs ex7 2 5).bytes = spec ex7 2 7 :=
  getBoxptrs_bytes ex7 2 5 (by decide) (by decide)

/-- which variant: `MultiPtr` when three or more parts are needed, else
`SinglePtr` or `DoublePtr` -/
theorem getBoxptrs_variant (parts : List Bytes) (a b : Nat) (hab : a ≤ b)
    (hlt : a < (flat parts).length) :
    if spans3 parts a b = true then ∃ ss, getBoxptrs parts a b = .multi ss
    else (∃ s, getBoxptrs parts a b = .single s) ∨ (∃ s t, getBoxptrs parts a b = .double s t) :=
  S4V.Lemmas.Boxptrs.getBoxptrs_variant parts a b hab hlt

/-! ### 3. correct when `a` is inside the first part -/

/-- `a` inside the first part: the result is bytes `[a, min(b, len))` of the line,
however the line is cut into parts -/
theorem getBoxptrs_spec_first_part (p : Bytes) (ps : List Bytes) (a b : Nat) (hab : a ≤ b)
    (ha : a < p.length) :
    (getBoxptrs (p :: ps) a b).bytes = spec (p :: ps) a b := by
  have hlt : a < (flat (p :: ps)).length := by rw [flat_cons]; simp; omega
  rw [getBoxptrs_bytes (p :: ps) a b hab hlt, skipLen_first p ps a ha]
  simp

example : (getBoxptrs ex3 1 6).bytes = spec ex3 1 6 :=
  getBoxptrs_spec_first_part _ _ 1 6 (by decide) (by decide)

/-- `a = 0` (every caller): the first `min(b, len)` bytes of the line -/
theorem getBoxptrs_start_zero (parts : List Bytes) (b : Nat) :
    (getBoxptrs parts 0 b).bytes = (flat parts).take b := by
  rcases Nat.eq_zero_or_pos (flat parts).length with h0 | hpos
  · rw [getBoxptrs_none_of_le parts 0 b (by omega)]
    have : flat parts = [] := List.eq_nil_of_length_eq_zero h0
    simp [Ptrs.bytes, this]
  · rw [getBoxptrs_bytes parts 0 b (Nat.zero_le _) hpos, skipLen_zero, spec_eq]
    simp

example : (getBoxptrs ex7 0 5).bytes = [97, 98, 99, 100, 101] := by
  rw [getBoxptrs_start_zero]; decide

/-! ### 4. wrong for general `a` -/

/-- the intended contract for every `a` inside the line -/
def getBoxptrs_full : Prop :=
  ∀ (parts : List Bytes) (a b : Nat), (∀ p ∈ parts, p ≠ []) → a ≤ b → a < (flat parts).length →
    (getBoxptrs parts a b).bytes = spec parts a b

/-- FALSE: line `abcdefg` at block size 1, `get_boxptrs(2, 5)` returns `cdefg`, not `cde` -/
theorem getBoxptrs_full_false : ¬ getBoxptrs_full := fun h =>
  absurd (h ex7 2 5 (by decide) (by decide) (by decide)) (by decide)

/-- at most two parts needed: correct for every `a` -/
theorem getBoxptrs_spec_two_parts (parts : List Bytes) (a b : Nat) (hab : a ≤ b)
    (hlt : a < (flat parts).length) (h2 : spans3 parts a b = false) :
    (getBoxptrs parts a b).bytes = spec parts a b := by
  rw [getBoxptrs_bytes parts a b hab hlt, h2]
  simp

example : (getBoxptrs ex7 2 4).bytes = spec ex7 2 4 :=
  getBoxptrs_spec_two_parts ex7 2 4 (by decide) (by decide) (by decide)

/-- `b` at or beyond the end of the line: correct for every `a` -/
theorem getBoxptrs_spec_to_end (parts : List Bytes) (a b : Nat) (hab : a ≤ b)
    (hlt : a < (flat parts).length) (hb : (flat parts).length ≤ b) :
    (getBoxptrs parts a b).bytes = spec parts a b := by
  rw [getBoxptrs_bytes parts a b hab hlt, spec_eq, spec_eq]
  split
  · rw [List.take_of_length_le hb, List.take_of_length_le (by omega)]
  · rfl

example : (getBoxptrs ex7 2 7).bytes = spec ex7 2 7 :=
  getBoxptrs_spec_to_end ex7 2 7 (by decide) (by decide) (by decide)

/-- exactly when the result is wrong: `a` beyond the (non-empty) first part, three
or more parts needed, and `b` before the end of the line. Then the result is too
long (by `skipLen`, or up to the end of the line). -/
theorem getBoxptrs_wrong_iff (p : Bytes) (ps : List Bytes) (a b : Nat) (hp : p ≠ [])
    (hab : a ≤ b) (hlt : a < (flat (p :: ps)).length) :
    (getBoxptrs (p :: ps) a b).bytes ≠ spec (p :: ps) a b ↔
      p.length ≤ a ∧ spans3 (p :: ps) a b = true ∧ b < (flat (p :: ps)).length := by
  constructor
  · intro hne
    rcases Nat.lt_or_ge a p.length with h1 | h1
    · exact absurd (getBoxptrs_spec_first_part p ps a b hab h1) hne
    · refine ⟨h1, ?_, ?_⟩
      · cases hs : spans3 (p :: ps) a b with
        | true => rfl
        | false => exact absurd (getBoxptrs_spec_two_parts _ a b hab hlt hs) hne
      · rcases Nat.lt_or_ge b (flat (p :: ps)).length with h3 | h3
        · exact h3
        · exact absurd (getBoxptrs_spec_to_end _ a b hab hlt h3) hne
  · rintro ⟨h1, h2, h3⟩ heq
    have hk := skipLen_pos p ps a hp h1
    rw [getBoxptrs_bytes _ a b hab hlt, h2, if_pos rfl, spec_eq, spec_eq] at heq
    have := congrArg List.length heq
    simp only [List.length_drop, List.length_take] at this
    omega

example : (getBoxptrs ex7 2 5).bytes ≠ spec ex7 2 5 :=
  (getBoxptrs_wrong_iff _ _ 2 5 (by decide) (by decide) (by decide)).mpr (by decide)

/-! ### 5. in bounds -/

/-- with `a ≤ b` no call of `get_boxptrs` can panic: every `block_boxptr_a(a)` has
`a ≤ len`, every `block_boxptr_b(b)` has `b ≤ len`, every `block_boxptr_ab(a, b)`
has `a ≤ b ≤ len`, `bptr_a.unwrap()` is on `Some`, and no `usize` subtraction underflows -/
theorem getBoxptrs_in_bounds (parts : List Bytes) (a b : Nat) (hab : a ≤ b) :
    getBoxptrsOk parts a b = true :=
  getBoxptrsOk_of_le parts a b hab

/-- every slice returned is `&part[i..j]` (`i ≤ j ≤ part.len()`) of one of the line's parts -/
theorem getBoxptrs_slices_sub (parts : List Bytes) (a b : Nat) (hab : a ≤ b) :
    ∀ s ∈ (getBoxptrs parts a b).slices, ∃ p ∈ parts, ∃ i j, i ≤ j ∧ j ≤ p.length ∧
      s = (p.take j).drop i :=
  S4V.Lemmas.Boxptrs.getBoxptrs_slices_sub parts a b hab

/-- `debug_assert_gt!(ptrs.len(), 1)`: a `MultiPtr` holds at least two slices -/
theorem getBoxptrs_multi_len (parts : List Bytes) (a b : Nat) (hab : a ≤ b) (ss : List Bytes)
    (h : getBoxptrs parts a b = .multi ss) : 2 ≤ ss.length :=
  S4V.Lemmas.Boxptrs.getBoxptrs_multi_len parts a b hab ss h

example : getBoxptrsOk ex7 2 9 = true := getBoxptrs_in_bounds ex7 2 9 (by decide)

/-! ### 6. what the callers pass -/

set_option maxRecDepth 8192 in
open S4V.Gen.DtStart in
/-- every `DTPD!` row of `DATETIME_PARSE_DATAS` has `range_regex.start = 0`
(generated from src/data/datetime.rs; a row with another start breaks this proof) -/
theorem all_range_starts_zero : ∀ s ∈ rangeStarts, s = 0 := by decide

set_option maxRecDepth 8192 in
open S4V.Gen.DtStart in
theorem range_starts_count : rangeStarts.length = parseDatasLen ∧ rangeEnds.length = parseDatasLen := by
  decide

open S4V.Gen.DtStart in
/-- so for every datetime pattern the regex is handed the first `min(b, len)` bytes of the line -/
theorem getBoxptrs_callers (parts : List Bytes) (b : Nat) :
    ∀ s ∈ rangeStarts, (getBoxptrs parts s b).bytes = (flat parts).take b := by
  intro s hs
  rw [all_range_starts_zero s hs]
  exact getBoxptrs_start_zero parts b

/-! ### 7. on real lines: the block size does not matter (C12) -/

open S4V.Model.Lines in
/-- the byte contents of the parts of the line `find_line(fo)` returns at block size `bs` -/
def lineParts (bs : Nat) (d : List UInt8) (fo : Nat) : List (List UInt8) :=
  match findLine bs d fo with
  | .found _ ps => ps.map (Part.bytes d bs)
  | .done => []

open S4V.Model.Lines in
/-- the bytes of the line holding offset `fo` -/
def lineBytes (d : List UInt8) (fo : Nat) : List UInt8 :=
  (d.drop (lineStart d fo)).take (lineEnd d fo + 1 - lineStart d fo)

open S4V.Model.Lines in
theorem flat_map_bytes (d : List UInt8) (bs : Nat) (ps : List Part) :
    flat (ps.map (Part.bytes d bs)) = partsBytes d bs ps := by
  induction ps with
  | nil => rfl
  | cons p ps ih => rw [List.map_cons, flat_cons, ih]; rfl

open S4V.Model.Lines in
theorem flat_lineParts (bs : Nat) (d : List UInt8) (fo : Nat) (hbs : 1 ≤ bs) (hfo : fo < d.length) :
    flat (lineParts bs d fo) = lineBytes d fo := by
  obtain ⟨parts, h1, h2, _⟩ := S4V.Props.LinesSpec.findLine_spec bs d fo hbs hfo
  simp only [lineParts, h1, flat_map_bytes, h2, lineBytes]

open S4V.Model.Lines in
/-- every part of a real line is non-empty -/
theorem lineParts_nonempty (bs : Nat) (d : List UInt8) (fo : Nat) (hbs : 1 ≤ bs) (hfo : fo < d.length) :
    ∀ p ∈ lineParts bs d fo, p ≠ [] := by
  obtain ⟨parts, h1, _, h3, _⟩ := S4V.Props.LinesSpec.findLine_spec bs d fo hbs hfo
  simp only [lineParts, h1]
  intro p hp
  obtain ⟨q, hq, rfl⟩ := List.mem_map.mp hp
  obtain ⟨h4, h5⟩ := h3 q hq
  intro h
  have := congrArg List.length h
  simp [Part.bytes] at this
  omega

/-- `get_boxptrs(0, b)` on the real line: the first `b` bytes of the line, at every block size -/
theorem boxptrs_line_start_zero (bs : Nat) (d : List UInt8) (fo b : Nat) (hbs : 1 ≤ bs)
    (hfo : fo < d.length) :
    (getBoxptrs (lineParts bs d fo) 0 b).bytes = (lineBytes d fo).take b := by
  rw [getBoxptrs_start_zero, flat_lineParts bs d fo hbs hfo]

/-- the bytes handed to the datetime regex do not depend on the block size -/
theorem boxptrs_bs_independent (bs₁ bs₂ : Nat) (d : List UInt8) (fo b : Nat) (h₁ : 1 ≤ bs₁)
    (h₂ : 1 ≤ bs₂) (hfo : fo < d.length) :
    ∀ s ∈ S4V.Gen.DtStart.rangeStarts,
      (getBoxptrs (lineParts bs₁ d fo) s b).bytes = (getBoxptrs (lineParts bs₂ d fo) s b).bytes := by
  intro s hs
  rw [all_range_starts_zero s hs, boxptrs_line_start_zero bs₁ d fo b h₁ hfo,
    boxptrs_line_start_zero bs₂ d fo b h₂ hfo]

/-- for a general start offset that would be FALSE -/
def boxptrs_bs_independent_full : Prop :=
  ∀ (bs₁ bs₂ : Nat) (d : List UInt8) (fo a b : Nat), 1 ≤ bs₁ → 1 ≤ bs₂ → fo < d.length → a ≤ b →
    (getBoxptrs (lineParts bs₁ d fo) a b).bytes = (getBoxptrs (lineParts bs₂ d fo) a b).bytes

/-- file `abcdefg`, block size 1 vs 7, `get_boxptrs(2, 5)`: `cdefg` vs `cde` -/
theorem boxptrs_bs_independent_full_false : ¬ boxptrs_bs_independent_full := fun h =>
  absurd (h 1 7 [97, 98, 99, 100, 101, 102, 103] 0 2 5 (by decide) (by decide) (by decide) (by decide))
    (by decide)

example : lineParts 1 [97, 98, 99, 100, 101, 102, 103] 0 = ex7 := by decide
example : (getBoxptrs (lineParts 3 [120, 10, 97, 98, 99, 100, 101, 102, 103] 4) 0 5).bytes
    = [97, 98, 99, 100, 101] := by
  rw [boxptrs_line_start_zero 3 _ 4 5 (by decide) (by decide)]; decide

end S4V.Props.BoxptrsSpec
