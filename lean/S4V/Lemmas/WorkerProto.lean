/-
Soundness of the reachable-set computation `post` of `S4V.Model.WorkerProto` with respect to the big-step
relation `Exec`, for an arbitrary monitor; facts about the protocol automaton.
-/
import S4V.Model.WorkerProto

namespace S4V.Lemmas.WorkerProto
open S4V.Gen.Worker S4V.Model.WorkerProto

set_option linter.unusedSectionVars false

section
variable {M : Type} [DecidableEq M]

theorem mem_addNew (l : List (Cfg M)) : ∀ (acc : List (Cfg M)) (x : Cfg M), x ∈ addNew acc l ↔ x ∈ acc ∨ x ∈ l := by
  induction l with
  | nil => intro acc x; simp [addNew]
  | cons y r ih =>
    intro acc x
    have h : addNew acc (y :: r) = addNew (if y ∈ acc then acc else acc ++ [y]) r := by simp [addNew]
    rw [h, ih]
    by_cases hy : y ∈ acc
    · simp only [hy, if_true, List.mem_cons]
      constructor
      · rintro (h | h)
        · exact Or.inl h
        · exact Or.inr (Or.inr h)
      · rintro (h | h | h)
        · exact Or.inl h
        · subst h; exact Or.inl hy
        · exact Or.inr h
    · simp only [hy, if_false, List.mem_append, List.mem_cons, List.mem_nil_iff, or_false]
      constructor
      · rintro ((h | h) | h)
        · exact Or.inl h
        · exact Or.inr (Or.inl h)
        · exact Or.inr (Or.inr h)
      · rintro (h | h | h)
        · exact Or.inl (Or.inl h)
        · exact Or.inl (Or.inr h)
        · exact Or.inr h

theorem mem_dedup (l : List (Cfg M)) (x : Cfg M) : x ∈ dedup l ↔ x ∈ l := by
  simp [dedup, mem_addNew]

theorem subset_iff (a b : List (Cfg M)) : subset a b = true ↔ ∀ x ∈ a, x ∈ b := by
  simp [subset]

theorem run_append (mon : Mon M) (m : M) (t₁ t₂ : Trace) :
    mon.run m (t₁ ++ t₂) = mon.run (mon.run m t₁) t₂ := by
  simp [Mon.run, List.foldl_append]

theorem run_cons (mon : Mon M) (m : M) (e : Ev) (t : Trace) : mon.run m (e :: t) = mon.run (mon.step m e) t := rfl

theorem run_nil (mon : Mon M) (m : M) : mon.run m [] = m := rfl

theorem mem_addCut_of_mem {S : List (Cfg M)} {r : Res5 M} {o : Out} {x : Cfg M} (h : x ∈ r.sel o) :
    x ∈ (r.addCut S).sel o := by
  cases o <;> simp_all [Res5.sel, Res5.addCut]

theorem mem_addCut_cut {S : List (Cfg M)} {r : Res5 M} {x : Cfg M} (h : x ∈ S) : x ∈ (r.addCut S).sel .cut := by
  simp [Res5.sel, Res5.addCut, h]

theorem joinIte_k {S : List (Cfg M)} {ra rb rk : Res5 M} {o : Out} {x : Cfg M} (h : x ∈ rk.sel o) :
    x ∈ (Res5.joinIte S ra rb rk).sel o := by
  cases o <;> simp_all [Res5.sel, Res5.joinIte]

theorem joinIte_a {S : List (Cfg M)} {ra rb rk : Res5 M} {o : Out} {x : Cfg M} (h : x ∈ ra.sel o) (ho : o ≠ .normal) :
    x ∈ (Res5.joinIte S ra rb rk).sel o := by
  cases o <;> simp_all [Res5.sel, Res5.joinIte]

theorem joinIte_b {S : List (Cfg M)} {ra rb rk : Res5 M} {o : Out} {x : Cfg M} (h : x ∈ rb.sel o) (ho : o ≠ .normal) :
    x ∈ (Res5.joinIte S ra rb rk).sel o := by
  cases o <;> simp_all [Res5.sel, Res5.joinIte]

theorem joinIte_cut {S : List (Cfg M)} {ra rb rk : Res5 M} {x : Cfg M} (h : x ∈ S) :
    x ∈ (Res5.joinIte S ra rb rk).sel .cut := by
  simp [Res5.sel, Res5.joinIte, h]

theorem joinLoop_k {S : List (Cfg M)} {rb rk : Res5 M} {o : Out} {x : Cfg M} (h : x ∈ rk.sel o) :
    x ∈ (Res5.joinLoop S rb rk).sel o := by
  cases o <;> simp_all [Res5.sel, Res5.joinLoop]

theorem joinLoop_b {S : List (Cfg M)} {rb rk : Res5 M} {o : Out} {x : Cfg M} (h : x ∈ rb.sel o)
    (ho : o = .ret ∨ o = .cut) : x ∈ (Res5.joinLoop S rb rk).sel o := by
  rcases ho with rfl | rfl <;> simp_all [Res5.sel, Res5.joinLoop]

/-- a loop whose head configurations stay inside `I` -/
theorem loop_sound {mon : Mon M} {env : Env} {body k : List Stmt} {S I : List (Cfg M)} {rb rk : Res5 M}
    (hb : ∀ {st t o st'} (m : M), Exec env body st t o st' → (m, st) ∈ I → (mon.run m t, st') ∈ rb.sel o)
    (hcl : ∀ x, x ∈ rb.normal ++ rb.cont → x ∈ I)
    (hk : ∀ {st t o st'} (m : M), Exec env k st t o st' → (m, st) ∈ rb.brk → (mon.run m t, st') ∈ rk.sel o)
    {p : List Stmt} {st : Store} {t : Trace} {o : Out} {st' : Store} (hex : Exec env p st t o st')
    (hp : p = .loop body :: k) :
    ∀ m : M, (m, st) ∈ I → (mon.run m t, st') ∈ (Res5.joinLoop S rb rk).sel o := by
  induction hex with
  | nil => cases hp
  | cut p st =>
    intro m hm
    have := hb m (Exec.cut body st) hm
    exact joinLoop_b this (Or.inr rfl)
  | send _ _ _ => cases hp
  | set _ _ _ => cases hp
  | ret => cases hp
  | brk => cases hp
  | cont => cases hp
  | iteNormal _ _ _ _ _ => cases hp
  | iteAbrupt _ _ _ _ => cases hp
  | loopIter h1 ho _ _ ih2 =>
    cases hp
    intro m hm
    have h := hb m h1 hm
    have hI := hcl _ (by
      rcases ho with rfl | rfl
      · exact List.mem_append.2 (Or.inl h)
      · exact List.mem_append.2 (Or.inr h))
    have := ih2 rfl _ hI
    rw [run_append]
    exact this
  | loopBrk h1 h2 _ _ =>
    cases hp
    intro m hm
    have h := hb m h1 hm
    have := hk _ h2 h
    rw [run_append]
    exact joinLoop_k this
  | loopAbrupt h1 ho _ =>
    cases hp
    intro m hm
    exact joinLoop_b (hb m h1 hm) ho

/-- **soundness of `post`**: whatever a run of `p` from a configuration of `S` does, the monitor state and
store it ends with are in the set computed for its outcome -/
theorem post_sound (mon : Mon M) (env : Env) : ∀ (f : Nat) (p : List Stmt) (S : List (Cfg M)) (R : Res5 M),
    post mon env f p S = some R →
    ∀ {st : Store} {t : Trace} {o : Out} {st' : Store} (m : M), Exec env p st t o st' → (m, st) ∈ S →
      (mon.run m t, st') ∈ R.sel o := by
  intro f
  induction f with
  | zero => intro p S R h; simp [post] at h
  | succ f ih =>
    intro p S R h st t o st' m hex hm
    match p, h, hex with
    | [], h, hex =>
      simp only [post] at h
      cases h
      cases hex with
      | nil => simpa [Res5.sel, Mon.run] using hm
      | cut => simpa [Res5.sel, Mon.run] using hm
    | .send s :: k, h, hex =>
      simp only [post] at h
      split at h
      · next r hr =>
        cases h
        cases hex with
        | cut => exact mem_addCut_cut hm
        | send ha hk =>
          rename_i e t'
          apply mem_addCut_of_mem
          rw [run_cons]
          apply ih _ _ _ hr _ hk
          rw [mem_dedup, List.mem_flatMap]
          refine ⟨(m, st), hm, ?_⟩
          simp only [sendStep, List.mem_map, List.mem_filter]
          refine ⟨e, ⟨?_, ha⟩, rfl⟩
          cases e with
          | fileInfo b => cases b <;> simp [allEvs]
          | msg b => cases b <;> simp [allEvs]
          | summary b => cases b <;> simp [allEvs]
      · cases h
    | .set i v :: k, h, hex =>
      simp only [post] at h
      split at h
      · next r hr =>
        cases h
        cases hex with
        | cut => exact mem_addCut_cut hm
        | set hb hk =>
          rename_i b
          apply mem_addCut_of_mem
          apply ih _ _ _ hr _ hk
          rw [mem_dedup, List.mem_flatMap]
          refine ⟨(m, st), hm, ?_⟩
          simp only [setStep, List.mem_map]
          exact ⟨b, hb, rfl⟩
      · cases h
    | .ret :: k, h, hex =>
      simp only [post] at h
      cases h
      cases hex with
      | cut => simpa [Res5.sel, Mon.run] using hm
      | ret => simpa [Res5.sel, Mon.run] using hm
    | .brk :: k, h, hex =>
      simp only [post] at h
      cases h
      cases hex with
      | cut => simpa [Res5.sel, Mon.run] using hm
      | brk => simpa [Res5.sel, Mon.run] using hm
    | .cont :: k, h, hex =>
      simp only [post] at h
      cases h
      cases hex with
      | cut => simpa [Res5.sel, Mon.run] using hm
      | cont => simpa [Res5.sel, Mon.run] using hm
    | .ite g a b :: k, h, hex =>
      simp only [post] at h
      split at h
      · next ra rb hra hrb =>
        split at h
        · next rk hrk =>
          cases h
          cases hex with
          | cut => exact joinIte_cut hm
          | iteNormal hg h1 h2 =>
            rename_i c st₁ t₁ t₂
            rw [run_append]
            apply joinIte_k
            apply ih _ _ _ hrk _ h2
            rw [mem_dedup, List.mem_append]
            cases c with
            | true =>
              left
              exact ih _ _ _ hra m h1 (List.mem_filter.2 ⟨hm, hg⟩)
            | false =>
              right
              exact ih _ _ _ hrb m h1 (List.mem_filter.2 ⟨hm, hg⟩)
          | iteAbrupt hg h1 ho =>
            rename_i c
            cases c with
            | true => exact joinIte_a (ih _ _ _ hra m h1 (List.mem_filter.2 ⟨hm, hg⟩)) ho
            | false => exact joinIte_b (ih _ _ _ hrb m h1 (List.mem_filter.2 ⟨hm, hg⟩)) ho
        · cases h
      · cases h
    | .loop body :: k, h, hex =>
      simp only [post] at h
      split at h
      · next I hI =>
        split at h
        · next rb hrb =>
          split at h
          · next hc =>
            split at h
            · next rk hrk =>
              cases h
              rw [Bool.and_eq_true, subset_iff, subset_iff] at hc
              exact loop_sound (S := S) (fun m hx hmm => ih _ _ _ hrb m hx hmm) hc.2
                (fun m hx hmm => ih _ _ _ hrk m hx ((mem_dedup _ _).2 hmm)) hex rfl m (hc.1 _ hm)
            · cases h
          · cases h
        · cases h
      · cases h

end

/-! ### the protocol automaton -/

theorem run_bad (strict : Bool) (t : Trace) : (protoMon strict).run .bad t = .bad := by
  induction t with
  | nil => rfl
  | cons e r ih => rw [run_cons]; exact ih

theorem run_closed (strict : Bool) (t : Trace) (h : (protoMon strict).run .closed t ≠ .bad) : t = [] := by
  cases t with
  | nil => rfl
  | cons e r => rw [run_cons] at h; exact absurd (run_bad strict r) h

theorem tidyTail_of_run (strict : Bool) : ∀ (t : Trace) (ph : Phase), ph = .open ∨ ph = .last →
    (protoMon strict).run ph t ≠ .bad → tidyTail t = true := by
  intro t
  induction t with
  | nil => intro _ _ _; rfl
  | cons e r ih =>
    intro ph hph h
    rw [run_cons] at h
    rcases hph with rfl | rfl
    · cases e with
      | fileInfo b => exact absurd (run_bad strict r) h
      | msg b =>
        cases b with
        | true => simp only [tidyTail]; exact ih .last (Or.inr rfl) h
        | false => simp only [tidyTail]; exact ih .open (Or.inl rfl) h
      | summary b =>
        have := run_closed strict r h
        subst this; rfl
    · cases e with
      | fileInfo b => exact absurd (run_bad strict r) h
      | msg b =>
        simp only [tidyTail]
        cases strict with
        | true => exact absurd (run_bad true r) h
        | false => exact ih .last (Or.inr rfl) h
      | summary b =>
        have := run_closed strict r h
        subst this; rfl

/-- a run that ends in a good state is `FileInfo`, messages, and nothing or one `FileSummary` -/
theorem tidy_of_run (strict : Bool) (t : Trace) (h : ((protoMon strict).run .start t).good = true) : tidy t = true := by
  cases t with
  | nil => simp [Mon.run, Phase.good] at h
  | cons e r =>
    rw [run_cons] at h
    cases e with
    | fileInfo b =>
      simp only [tidy]
      apply tidyTail_of_run strict r .open (Or.inl rfl)
      intro hb; rw [show (protoMon strict).step .start (.fileInfo b) = .open from rfl, hb] at h; simp [Phase.good] at h
    | msg b =>
      rw [show (protoMon strict).step .start (.msg b) = .bad from rfl, run_bad] at h; simp [Phase.good] at h
    | summary b =>
      rw [show (protoMon strict).step .start (.summary b) = .bad from rfl, run_bad] at h; simp [Phase.good] at h

theorem noMsg_of_run_last (t : Trace) (h : (protoMon true).run .last t ≠ .bad) : noMsg t = true := by
  cases t with
  | nil => rfl
  | cons e r =>
    rw [run_cons] at h
    cases e with
    | fileInfo b => exact absurd (run_bad true r) h
    | msg b => exact absurd (run_bad true r) h
    | summary b =>
      have := run_closed true r h
      subst this; rfl

theorem lastOk_of_run : ∀ (t : Trace) (ph : Phase), ph = .start ∨ ph = .open →
    (protoMon true).run ph t ≠ .bad → lastOk t = true := by
  intro t
  induction t with
  | nil => intro _ _ _; rfl
  | cons e r ih =>
    intro ph hph h
    rw [run_cons] at h
    rcases hph with rfl | rfl
    · cases e with
      | fileInfo b => simp only [lastOk]; exact ih .open (Or.inr rfl) h
      | msg b => exact absurd (run_bad true r) h
      | summary b => exact absurd (run_bad true r) h
    · cases e with
      | fileInfo b => exact absurd (run_bad true r) h
      | msg b =>
        cases b with
        | true => simp only [lastOk]; exact noMsg_of_run_last r h
        | false => simp only [lastOk]; exact ih .open (Or.inr rfl) h
      | summary b =>
        have := run_closed true r h
        subst this; rfl

theorem good_ne_bad {ph : Phase} (h : ph.good = true) : ph ≠ .bad := by
  intro hb; subst hb; simp [Phase.good] at h

/-- what a successful `checkProto` means for every run of the skeleton -/
theorem checkProto_sound {strict : Bool} {env : Env} {p : List Stmt} (hc : checkProto strict env p = true) :
    (∀ t, Produces env p t → ((protoMon strict).run .start t).good = true) ∧
    (∀ t, ProducesCut env p t → (protoMon strict).run .start t ≠ .bad) := by
  unfold checkProto at hc
  split at hc
  · next r hr =>
    rw [Bool.and_eq_true, List.all_eq_true, List.all_eq_true] at hc
    constructor
    · rintro t ⟨o, st', hex, ho⟩
      have := post_sound _ _ _ _ _ _ hr Phase.start hex (List.mem_singleton.2 rfl)
      apply hc.1 ((protoMon strict).run .start t, st')
      rcases ho with rfl | rfl
      · exact List.mem_append.2 (Or.inl this)
      · exact List.mem_append.2 (Or.inr this)
    · rintro t ⟨st', hex⟩
      have := post_sound _ _ _ _ _ _ hr Phase.start hex (List.mem_singleton.2 rfl)
      have := hc.2 _ this
      simpa using this
  · cases hc

end S4V.Lemmas.WorkerProto
