/-
Catalogues of field renderings for the rows of `DATETIME_PARSE_DATAS` covered by
`S4V.Props.RegexCapture2`, over the reflective procedure of `S4V.Lemmas.RegexSym`.

* `groupText_capsAt`   what `Captures::get(g)` spans after a `row_step`: the word of the piece that
                       recorded group `g` (proved once for every row)
* field catalogues     `yearDom`, `numDom`, `dayDom`, `minuteDom`, `secondDom`, `fracDom`, … and the
                       selectors (`ySel`, `n2Sel`, …) that pick the catalogue entry of a numeric value
-/
import S4V.Lemmas.RegexSym
import S4V.Lemmas.DtParse

namespace S4V.Lemmas.RegexRows
open S4V.Model.Regex S4V.Lemmas.RegexStep S4V.Lemmas.RegexSym
open S4V.Model.DtParse (dchar)
open S4V.Lemmas.DtParse (dec2 dec4)

abbrev Entry := List Sym × Caps
abbrev Sel := List (Entry × List UInt8)

/-! ### from capture slots back to the chosen words -/

/-- `match_.as_bytes()` of a slot -/
def sliceOf (line : List UInt8) (ab : Nat × Nat) : List UInt8 := (line.drop ab.1).take (ab.2 - ab.1)

/-- `captures.get(g).map(|m| m.as_bytes())` -/
def groupText (line : List UInt8) (caps : Caps) (g : Nat) : Option (List UInt8) :=
  (capGet caps g).map (sliceOf line)

/-- the text group `g` spans according to the chosen catalogue entries (the last piece recording it) -/
def selText (g : Nat) : Sel → Option (List UInt8)
  | [] => none
  | ew :: sel =>
    match selText g sel with
    | some t => some t
    | none => (capGet ew.1.2 g).map (sliceOf ew.2)

/-- every slot of every chosen entry lies inside its word -/
def SlotsIn (sel : Sel) : Prop := ∀ ew ∈ sel, ∀ e ∈ ew.1.2, e.2.1 ≤ e.2.2 ∧ e.2.2 ≤ ew.2.length

theorem capGet_append (a b : Caps) (g : Nat) :
    capGet (a ++ b) g = match capGet a g with | some x => some x | none => capGet b g := by
  unfold capGet
  rw [List.find?_append]
  cases List.find? (fun e => e.1 == g) a <;> simp

theorem capGet_shc (p : Nat) (c : Caps) (g : Nat) :
    capGet (shc p c) g = (capGet c g).map (fun ab => (p + ab.1, p + ab.2)) := by
  induction c with
  | nil => simp [shc, capGet]
  | cons e t ih =>
    simp only [shc, capGet, List.map_cons, List.find?_cons] at ih ⊢
    cases h : (e.1 == g) with
    | true => simp
    | false => simpa using ih

theorem capGet_mem {c : Caps} {g : Nat} {ab : Nat × Nat} (h : capGet c g = some ab) : (g, ab) ∈ c := by
  unfold capGet at h
  cases hf : List.find? (fun e => e.1 == g) c with
  | none => simp [hf] at h
  | some e =>
    simp only [hf, Option.some.injEq] at h
    have hm := List.mem_of_find?_eq_some hf
    have hg := List.find?_some hf
    simp only [beq_iff_eq] at hg
    obtain ⟨e1, e2⟩ := e
    simp only at hg h
    subst hg h
    exact hm

theorem sliceOf_shift (pre w post : List UInt8) {a b : Nat} (hab : a ≤ b) (hb : b ≤ w.length) :
    sliceOf (pre ++ (w ++ post)) (pre.length + a, pre.length + b) = sliceOf w (a, b) := by
  simp only [sliceOf]
  rw [List.drop_append, List.drop_eq_nil_of_le (by omega)]
  simp only [List.nil_append, Nat.add_sub_cancel_left, Nat.add_sub_add_left]
  rw [List.drop_append_of_le_length (by omega), List.take_append_of_le_length (by simp; omega)]

theorem groupText_capsAt (g : Nat) (tail : List UInt8) :
    ∀ (sel : Sel) (pre : List UInt8) (c : Caps), SlotsIn sel →
      groupText (pre ++ (flat sel ++ tail)) (capsAt pre.length c sel) g =
        match selText g sel with
        | some t => some t
        | none => groupText (pre ++ (flat sel ++ tail)) c g := by
  intro sel
  induction sel with
  | nil => intro pre c _; simp [selText, capsAt]
  | cons ew sel ih =>
    intro pre c hs
    have hs' : SlotsIn sel := fun x hx => hs x (by simp [hx])
    have := ih (pre ++ ew.2) (shc pre.length ew.1.2 ++ c) hs'
    simp only [List.length_append, List.append_assoc] at this
    simp only [capsAt, flat, List.append_assoc, selText]
    rw [this]
    cases selText g sel with
    | some t => rfl
    | none =>
      simp only [groupText, capGet_append, capGet_shc]
      cases hc : capGet ew.1.2 g with
      | none => simp
      | some ab =>
        obtain ⟨a, b⟩ := ab
        have hin := hs ew (by simp) (g, a, b) (capGet_mem hc)
        simp only [Option.map_some]
        rw [sliceOf_shift pre ew.2 (flat sel ++ tail) hin.1 hin.2]

/-- groups recorded by a `row_step` from position 0 with no earlier slots -/
theorem groupText_row (g : Nat) (sel : Sel) (tail : List UInt8) (hs : SlotsIn sel) :
    groupText (flat sel ++ tail) (capsAt 0 [] sel) g = selText g sel := by
  have := groupText_capsAt g tail sel [] [] hs
  simp only [List.nil_append, List.length_nil] at this
  rw [this]
  cases selText g sel <;> simp [groupText, capGet]

/-! ### catalogues -/

def D : Sym := [(48, 57)]
def b1 (n : Nat) : Sym := [(n, n)]

/-- catalogue of a capture group over plain words: the group spans the whole word -/
def grp (g : Nat) (ws : List (List Sym)) : List Entry := ws.map (fun w => (w, [(g, 0, w.length)]))
/-- catalogue of an item without groups -/
def plain (ws : List (List Sym)) : List Entry := ws.map (fun w => (w, []))

def y19 : List Sym := [b1 49, b1 57, [(55, 57)], D]
def y20 : List Sym := [b1 50, b1 48, D, D]
/-- years 1970–2099 -/
def yearWords : List (List Sym) := [y19, y20]

def monthWords : List (List UInt8) := (List.range' 1 12).map dec2
def day2Words : List (List UInt8) := (List.range' 1 31).map dec2
def day1Words : List (List UInt8) := (List.range' 1 9).map (fun d => [dchar d])
def daySpWords : List (List UInt8) := (List.range' 1 9).map (fun d => [32, dchar d])
def hourWords : List (List UInt8) := (List.range' 0 25).map dec2
def minuteWord : List Sym := [[(48, 53)], D]
def secondWords : List (List Sym) := [minuteWord, cw [54, 48]]
def fracWords : List (List Sym) := (List.range' 1 9).map (fun n => List.replicate n D)

/-- ASCII bytes that are not digits -/
def nonDigit : Sym := [(0, 47), (58, 127)]
/-- ASCII bytes that are neither digits nor letters -/
def nonAlnum : Sym := [(0, 47), (58, 64), (91, 96), (123, 127)]
/-- ASCII bytes that are not letters -/
def nonAlpha : Sym := [(0, 64), (91, 96), (123, 127)]
def anyByte : Sym := [(0, 255)]

/-! ### selectors: the catalogue entry and concrete word of a value -/

def wSel (g : Option Nat) (w : List UInt8) : Entry × List UInt8 :=
  ((cw w, match g with | some i => [(i, 0, (cw w).length)] | none => []), w)

def symSel (g : Option Nat) (s : List Sym) (w : List UInt8) : Entry × List UInt8 :=
  ((s, match g with | some i => [(i, 0, s.length)] | none => []), w)

def ySel (g : Nat) (Y : Nat) : Entry × List UInt8 := symSel (some g) (if Y < 2000 then y19 else y20) (dec4 Y)

theorem dchar_toNat (n : Nat) : (dchar n).toNat = 48 + n % 10 := by
  unfold dchar
  have : n % 10 < 10 := Nat.mod_lt _ (by decide)
  simp
  omega

theorem symHas_D (n : Nat) : symHas D (dchar n) = true := by
  simp only [symHas, D, inRanges, List.any_cons, List.any_nil, Bool.or_false, Bool.and_eq_true, decide_eq_true_eq,
    dchar_toNat]
  omega

theorem symHas_b1 (n : Nat) (b : UInt8) (h : b.toNat = n) : symHas (b1 n) b = true := by
  simp [symHas, b1, inRanges, h]

theorem conc_year {Y : Nat} (h : 1970 ≤ Y ∧ Y ≤ 2099) : Conc (if Y < 2000 then y19 else y20) (dec4 Y) := by
  split
  · have e1 : Y / 1000 = 1 := by omega
    have e2 : Y / 100 = 19 := by omega
    refine ⟨symHas_b1 _ _ ?_, symHas_b1 _ _ ?_, ?_, symHas_D _, trivial⟩
    · rw [dchar_toNat, e1]
    · rw [dchar_toNat, e2]
    · simp only [symHas, inRanges, List.any_cons, List.any_nil, Bool.or_false, Bool.and_eq_true, decide_eq_true_eq,
        dchar_toNat]
      omega
  · have e1 : Y / 1000 = 2 := by omega
    have e2 : Y / 100 = 20 := by omega
    refine ⟨symHas_b1 _ _ ?_, symHas_b1 _ _ ?_, symHas_D _, symHas_D _, trivial⟩
    · rw [dchar_toNat, e1]
    · rw [dchar_toNat, e2]

theorem conc_minute {N : Nat} (h : N ≤ 59) : Conc minuteWord (dec2 N) := by
  refine ⟨?_, symHas_D _, trivial⟩
  simp only [symHas, inRanges, List.any_cons, List.any_nil, Bool.or_false, Bool.and_eq_true, decide_eq_true_eq,
    dchar_toNat]
  omega

/-- `N ≤ 59` as minute, `S ≤ 60` as second -/
def sSel (g : Nat) (S : Nat) : Entry × List UInt8 :=
  if S = 60 then wSel (some g) [54, 48] else symSel (some g) minuteWord (dec2 S)

def isDb (b : UInt8) : Bool := 48 ≤ b.toNat && b.toNat ≤ 57

theorem conc_digits : ∀ (f : List UInt8), (∀ b ∈ f, isDb b = true) → Conc (List.replicate f.length D) f := by
  intro f
  induction f with
  | nil => intro _; simp [Conc]
  | cons b t ih =>
    intro h
    refine ⟨?_, ih (fun x hx => h x (by simp [hx]))⟩
    have := h b (by simp)
    simpa [symHas, D, inRanges, isDb] using this

/-! ### validity of a selection, piece by piece -/

def cws (ws : List (List UInt8)) : List (List Sym) := ws.map cw

theorem cw_length (w : List UInt8) : (cw w).length = w.length := by simp [cw]

theorem sliceOf_full (w : List UInt8) : sliceOf w (0, w.length) = w := by simp [sliceOf]

def EwOK (dom : List Entry) (ew : Entry × List UInt8) : Prop :=
  ew.1 ∈ dom ∧ Conc ew.1.1 ew.2 ∧ ∀ e ∈ ew.1.2, e.2.1 ≤ e.2.2 ∧ e.2.2 ≤ ew.2.length

def AllOK : List Piece → Sel → Prop
  | [], [] => True
  | q :: qs, ew :: sel => EwOK q.dom ew ∧ AllOK qs sel
  | [], _ :: _ => False
  | _ :: _, [] => False

theorem allOK_valid : ∀ {qs : List Piece} {sel : Sel}, AllOK qs sel → Valid qs sel := by
  intro qs
  induction qs with
  | nil => intro sel h; cases sel <;> simp_all [AllOK, Valid]
  | cons q qs ih =>
    intro sel h
    cases sel with
    | nil => exact absurd h (by simp [AllOK])
    | cons ew sel => exact ⟨h.1.1, h.1.2.1, ih h.2⟩

theorem allOK_slots : ∀ {qs : List Piece} {sel : Sel}, AllOK qs sel → SlotsIn sel := by
  intro qs
  induction qs with
  | nil =>
    intro sel h
    cases sel with
    | nil => intro ew hew; cases hew
    | cons _ _ => exact absurd h (by simp [AllOK])
  | cons q qs ih =>
    intro sel h
    cases sel with
    | nil => exact absurd h (by simp [AllOK])
    | cons ew sel =>
      intro x hx
      rcases List.mem_cons.mp hx with rfl | hx
      · exact h.1.2.2
      · exact ih h.2 x hx

theorem ewOK_w_grp {g : Nat} {ws : List (List UInt8)} {w : List UInt8} (h : w ∈ ws) :
    EwOK (grp g (cws ws)) (wSel (some g) w) := by
  refine ⟨?_, conc_cw w, ?_⟩
  · simp only [grp, cws, wSel, List.mem_map]
    exact ⟨cw w, ⟨w, h, rfl⟩, rfl⟩
  · intro e he
    simp only [wSel, List.mem_singleton] at he
    subst he
    simp [cw_length, wSel]

theorem ewOK_w_plain {ws : List (List UInt8)} {w : List UInt8} (h : w ∈ ws) :
    EwOK (plain (cws ws)) (wSel none w) := by
  refine ⟨?_, conc_cw w, ?_⟩
  · simp only [plain, cws, wSel, List.mem_map]
    exact ⟨cw w, ⟨w, h, rfl⟩, rfl⟩
  · intro e he
    simp [wSel] at he

theorem ewOK_sym_grp {g : Nat} {ss : List (List Sym)} {s : List Sym} {w : List UInt8} (h : s ∈ ss) (hc : Conc s w) :
    EwOK (grp g ss) (symSel (some g) s w) := by
  refine ⟨?_, hc, ?_⟩
  · simp only [grp, symSel, List.mem_map]
    exact ⟨s, h, rfl⟩
  · intro e he
    simp only [symSel, List.mem_singleton] at he
    subst he
    simp [conc_length hc, symSel]

theorem ewOK_sym_plain {ss : List (List Sym)} {s : List Sym} {w : List UInt8} (h : s ∈ ss) (hc : Conc s w) :
    EwOK (plain ss) (symSel none s w) := by
  refine ⟨?_, hc, ?_⟩
  · simp only [plain, symSel, List.mem_map]
    exact ⟨s, h, rfl⟩
  · intro e he
    simp [symSel] at he

theorem ewOK_year {g : Nat} {Y : Nat} (h : 1970 ≤ Y ∧ Y ≤ 2099) : EwOK (grp g yearWords) (ySel g Y) := by
  unfold ySel
  refine ewOK_sym_grp ?_ (conc_year h)
  split <;> simp [yearWords]

theorem ewOK_second {g : Nat} {S : Nat} (h : S ≤ 60) : EwOK (grp g secondWords) (sSel g S) := by
  unfold sSel
  split
  · have : EwOK (grp g (cws [[54, 48]])) (wSel (some g) [54, 48]) := ewOK_w_grp (by simp)
    refine ⟨?_, this.2.1, this.2.2⟩
    have h1 := this.1
    simp only [grp, cws, List.map_cons, List.map_nil, List.mem_singleton] at h1
    simp [grp, secondWords, h1]
  · exact ewOK_sym_grp (by simp [secondWords]) (conc_minute (by omega))

/-! ### the whole row -/

/-- a row `^ item₁ item₂ …`: `search` on any selection of catalogue words (followed by an admissible
tail) matches at 0, spans exactly the words, and records the slots `capsAt` computes -/
theorem search_row_bol {re : Re} {qs : List Piece} {tF : Sym} (hre : re = catL (.bol :: qs.map Piece.item))
    (hne : qs ≠ []) (hok : rowOk qs tF = true) {sel : Sel} (hv : AllOK qs sel) {tail : List UInt8}
    (ht : TailF tF tail) :
    search re (flat sel ++ tail) = some ⟨0, (flat sel).length, capsAt 0 [] sel⟩ := by
  have hs := row_step ht qs sel 0 [] hne hok (allOK_valid hv)
  subst hre
  cases qs with
  | nil => exact absurd rfl hne
  | cons q qs =>
    have : Step (catL (.bol :: (q :: qs).map Piece.item)) 0 (flat sel ++ tail) [] (0 + (flat sel).length) tail
        (capsAt 0 [] sel) := by
      simp only [List.map_cons, catL]
      exact step_cat step_bol (by simpa [catL] using hs)
    simpa using search_of_step this

/-- the same for a row without `^` -/
theorem search_row {re : Re} {qs : List Piece} {tF : Sym} (hre : re = catL (qs.map Piece.item))
    (hne : qs ≠ []) (hok : rowOk qs tF = true) {sel : Sel} (hv : AllOK qs sel) {tail : List UInt8}
    (ht : TailF tF tail) :
    search re (flat sel ++ tail) = some ⟨0, (flat sel).length, capsAt 0 [] sel⟩ := by
  have hs := row_step ht qs sel 0 [] hne hok (allOK_valid hv)
  subst hre
  simpa using search_of_step hs

theorem tailF_any (tail : List UInt8) : TailF anyByte tail := by
  intro x t _
  have := x.toNat_lt
  simp [symHas, anyByte, inRanges]
  omega

theorem tailF_nil : TailF [] [] := by
  intro x t h; cases h

/-! ### appending selections; the last piece -/

theorem flat_append (a b : Sel) : flat (a ++ b) = flat a ++ flat b := by
  induction a with
  | nil => simp [flat]
  | cons e t ih => simp [flat, ih]

theorem allOK_append : ∀ {q1 q2 : List Piece} {s1 s2 : Sel}, AllOK q1 s1 → AllOK q2 s2 → AllOK (q1 ++ q2) (s1 ++ s2) := by
  intro q1
  induction q1 with
  | nil =>
    intro q2 s1 s2 h1 h2
    cases s1 with
    | nil => simpa using h2
    | cons _ _ => exact absurd h1 (by simp [AllOK])
  | cons q qs ih =>
    intro q2 s1 s2 h1 h2
    cases s1 with
    | nil => exact absurd h1 (by simp [AllOK])
    | cons e t => exact ⟨h1.1, ih h1.2 h2⟩

theorem selText_append (g : Nat) (a b : Sel) :
    selText g (a ++ b) = match selText g b with | some t => some t | none => selText g a := by
  induction a with
  | nil => cases h : selText g b <;> simp [h, selText]
  | cons e t ih =>
    simp only [List.cons_append, selText, ih]
    cases selText g b <;> simp

/-- the tail after the stamp is empty or starts with a byte of `s` -/
def TailIn (s : Sym) (tail : List UInt8) : Prop := ∀ x t, tail = x :: t → symHas s x = true

/-- bytes of the tail that the final `(class|$)` group takes -/
def tailLen : List UInt8 → Nat
  | [] => 0
  | _ :: _ => 1

def tailSym (e : Bool) : Sym := if e then anyByte else []

/-- the catalogue of a final `(class|$)` group `g`: one byte of the class (`e = true`: non-empty tail)
or nothing at the end of the slice (`e = false`) -/
def endDom (g : Nat) (s : Sym) (e : Bool) : List Entry := if e then [([s], [(g, 0, 1)])] else [([], [(g, 0, 0)])]

def endEw (g : Nat) (s : Sym) : List UInt8 → Entry × List UInt8
  | [] => (([], [(g, 0, 0)]), [])
  | x :: _ => (([s], [(g, 0, 1)]), [x])

/-- the catalogue of `(?P<gz>…)(?P<ge>class|$)` taken as ONE piece (so that the matcher may backtrack
from the final group into the alternation before it — needed where one alternative is a prefix of a
later one: `PET`/`PETT`, `UT`/`UTC`, `WIT`/`WITA`) -/
def lastDom (gz ge : Nat) (ws : List (List Sym)) (s : Sym) (e : Bool) : List Entry :=
  ws.map (fun w => if e then (w ++ [s], [(ge, w.length, w.length + 1), (gz, 0, w.length)])
    else (w, [(ge, w.length, w.length), (gz, 0, w.length)]))

def lastEw (gz ge : Nat) (syms : List Sym) (w : List UInt8) (s : Sym) : List UInt8 → Entry × List UInt8
  | [] => ((syms, [(ge, syms.length, syms.length), (gz, 0, syms.length)]), w)
  | x :: _ => ((syms ++ [s], [(ge, syms.length, syms.length + 1), (gz, 0, syms.length)]), w ++ [x])

theorem search_row_bol_last {re : Re} {body : List Piece} {lastItem : Re} {dom : List Entry} {tF : Sym}
    (hre : re = catL (.bol :: (body ++ [Piece.mk lastItem dom]).map Piece.item))
    (hok : rowOk (body ++ [Piece.mk lastItem dom]) tF = true) {selB : Sel} (hv : AllOK body selB)
    {last : Entry × List UInt8} (hl : EwOK dom last) {tail : List UInt8} (ht : TailF tF tail) :
    search re (flat selB ++ (last.2 ++ tail)) =
      some ⟨0, (flat selB).length + last.2.length, capsAt 0 [] (selB ++ [last])⟩ := by
  have := search_row_bol hre (by simp) hok (allOK_append hv (show AllOK [Piece.mk lastItem dom] [last] from ⟨hl, trivial⟩)) ht
  simpa [flat_append, flat] using this

theorem search_row_last {re : Re} {body : List Piece} {lastItem : Re} {dom : List Entry} {tF : Sym}
    (hre : re = catL ((body ++ [Piece.mk lastItem dom]).map Piece.item))
    (hok : rowOk (body ++ [Piece.mk lastItem dom]) tF = true) {selB : Sel} (hv : AllOK body selB)
    {last : Entry × List UInt8} (hl : EwOK dom last) {tail : List UInt8} (ht : TailF tF tail) :
    search re (flat selB ++ (last.2 ++ tail)) =
      some ⟨0, (flat selB).length + last.2.length, capsAt 0 [] (selB ++ [last])⟩ := by
  have := search_row hre (by simp) hok (allOK_append hv (show AllOK [Piece.mk lastItem dom] [last] from ⟨hl, trivial⟩)) ht
  simpa [flat_append, flat] using this

/-- rows `^ body (?P<g>class|$)` -/
theorem search_row_end {re : Re} {body : List Piece} {endItem : Re} {g : Nat} {s : Sym}
    (hre : ∀ e, re = catL (.bol :: (body ++ [Piece.mk endItem (endDom g s e)]).map Piece.item))
    (hok : ∀ e, rowOk (body ++ [Piece.mk endItem (endDom g s e)]) (tailSym e) = true)
    {selB : Sel} (hv : AllOK body selB) {tail : List UInt8} (ht : TailIn s tail) :
    search re (flat selB ++ tail) =
      some ⟨0, (flat selB).length + tailLen tail, capsAt 0 [] (selB ++ [endEw g s tail])⟩ := by
  cases tail with
  | nil =>
    have hl : EwOK (endDom g s false) (endEw g s []) := by
      refine ⟨by simp [endDom, endEw], by simp [endEw, Conc], ?_⟩
      intro e he
      simp only [endEw, List.mem_singleton] at he
      subst he
      simp [endEw]
    have := search_row_bol_last (hre false) (hok false) hv hl (tail := []) (by simpa [tailSym] using tailF_nil)
    simpa [endEw, tailLen] using this
  | cons x t =>
    have hx := ht x t rfl
    have hl : EwOK (endDom g s true) (endEw g s (x :: t)) := by
      refine ⟨by simp [endDom, endEw], ⟨hx, trivial⟩, ?_⟩
      intro e he
      simp only [endEw, List.mem_singleton] at he
      subst he
      simp [endEw]
    have := search_row_bol_last (hre true) (hok true) hv hl (tail := t) (by simpa [tailSym] using tailF_any t)
    simpa [endEw, tailLen] using this

/-- rows `^ body (?P<gz>…)(?P<ge>class|$)` -/
theorem search_row_zone {re : Re} {body : List Piece} {lastItem : Re} {gz ge : Nat} {ws : List (List Sym)} {s : Sym}
    (hre : ∀ e, re = catL (.bol :: (body ++ [Piece.mk lastItem (lastDom gz ge ws s e)]).map Piece.item))
    (hok : ∀ e, rowOk (body ++ [Piece.mk lastItem (lastDom gz ge ws s e)]) (tailSym e) = true)
    {selB : Sel} (hv : AllOK body selB) {syms : List Sym} {w : List UInt8} (hz : syms ∈ ws) (hc : Conc syms w)
    {tail : List UInt8} (ht : TailIn s tail) :
    search re (flat selB ++ (w ++ tail)) =
      some ⟨0, (flat selB).length + w.length + tailLen tail, capsAt 0 [] (selB ++ [lastEw gz ge syms w s tail])⟩ := by
  have hlen := conc_length hc
  cases tail with
  | nil =>
    have hl : EwOK (lastDom gz ge ws s false) (lastEw gz ge syms w s []) := by
      refine ⟨?_, hc, ?_⟩
      · simp only [lastDom, lastEw, List.mem_map]
        exact ⟨syms, hz, by simp⟩
      · intro e he
        simp only [lastEw, List.mem_cons, List.not_mem_nil, or_false] at he
        rcases he with rfl | rfl <;> simp [hlen, lastEw]
    have := search_row_bol_last (hre false) (hok false) hv hl (tail := []) (by simpa [tailSym] using tailF_nil)
    simpa [lastEw, tailLen] using this
  | cons x t =>
    have hx := ht x t rfl
    have hl : EwOK (lastDom gz ge ws s true) (lastEw gz ge syms w s (x :: t)) := by
      refine ⟨?_, conc_append hc (show Conc [s] [x] from ⟨hx, trivial⟩), ?_⟩
      · simp only [lastDom, lastEw, List.mem_map]
        exact ⟨syms, hz, by simp⟩
      · intro e he
        simp only [lastEw, List.mem_cons, List.not_mem_nil, or_false] at he
        rcases he with rfl | rfl <;> simp [hlen, lastEw]
    have := search_row_bol_last (hre true) (hok true) hv hl (tail := t) (by simpa [tailSym] using tailF_any t)
    simpa [lastEw, tailLen, Nat.add_assoc] using this

theorem selText_endEw (g g' : Nat) (s : Sym) (tail : List UInt8) (h : g' ≠ g) : selText g' [endEw g s tail] = none := by
  cases tail <;> simp [selText, endEw, capGet, h.symm]

theorem selText_lastEw_zone (gz ge : Nat) {syms : List Sym} {w : List UInt8} (s : Sym) (tail : List UInt8)
    (hc : Conc syms w) (h : gz ≠ ge) : selText gz [lastEw gz ge syms w s tail] = some w := by
  have hlen := conc_length hc
  cases tail <;> simp [selText, lastEw, capGet, h.symm, sliceOf, hlen]

theorem selText_lastEw_other (gz ge g' : Nat) (syms : List Sym) (w : List UInt8) (s : Sym) (tail : List UInt8)
    (h1 : g' ≠ gz) (h2 : g' ≠ ge) : selText g' [lastEw gz ge syms w s tail] = none := by
  cases tail <;> simp [selText, lastEw, capGet, h1.symm, h2.symm]

/-! ### group texts of rows ending in a final group -/

theorem slotsIn_append {a b : Sel} (ha : SlotsIn a) (hb : SlotsIn b) : SlotsIn (a ++ b) := by
  intro ew hew
  rcases List.mem_append.mp hew with h | h
  · exact ha ew h
  · exact hb ew h

theorem slotsIn_endEw (g : Nat) (s : Sym) (tail : List UInt8) : SlotsIn [endEw g s tail] := by
  intro ew hew e he
  simp only [List.mem_singleton] at hew
  subst hew
  cases tail <;> simp_all [endEw]

theorem slotsIn_lastEw (gz ge : Nat) {syms : List Sym} {w : List UInt8} (s : Sym) (tail : List UInt8) (hc : Conc syms w) :
    SlotsIn [lastEw gz ge syms w s tail] := by
  have hlen := conc_length hc
  intro ew hew e he
  simp only [List.mem_singleton] at hew
  subst hew
  cases tail with
  | nil =>
    simp only [lastEw, List.mem_cons, List.not_mem_nil, or_false] at he
    rcases he with rfl | rfl <;> simp [hlen, lastEw]
  | cons x t =>
    simp only [lastEw, List.mem_cons, List.not_mem_nil, or_false] at he
    rcases he with rfl | rfl <;> simp [hlen, lastEw]

theorem endEw_word (g : Nat) (s : Sym) (tail : List UInt8) : (endEw g s tail).2 ++ tail.drop (tailLen tail) = tail := by
  cases tail <;> simp [endEw, tailLen]

theorem lastEw_word (gz ge : Nat) (syms : List Sym) (w : List UInt8) (s : Sym) (tail : List UInt8) :
    (lastEw gz ge syms w s tail).2 ++ tail.drop (tailLen tail) = w ++ tail := by
  cases tail <;> simp [lastEw, tailLen]

theorem groupText_end (g' g : Nat) (s : Sym) (selB : Sel) (tail : List UInt8) (hs : SlotsIn selB) :
    groupText (flat selB ++ tail) (capsAt 0 [] (selB ++ [endEw g s tail])) g' = selText g' (selB ++ [endEw g s tail]) := by
  have := groupText_row g' (selB ++ [endEw g s tail]) (tail.drop (tailLen tail)) (slotsIn_append hs (slotsIn_endEw g s tail))
  rw [flat_append] at this
  simp only [flat, List.append_nil, List.append_assoc, endEw_word] at this
  exact this

theorem groupText_zone (g' gz ge : Nat) {syms : List Sym} {w : List UInt8} (s : Sym) (selB : Sel) (tail : List UInt8)
    (hs : SlotsIn selB) (hc : Conc syms w) :
    groupText (flat selB ++ (w ++ tail)) (capsAt 0 [] (selB ++ [lastEw gz ge syms w s tail])) g' =
      selText g' (selB ++ [lastEw gz ge syms w s tail]) := by
  have := groupText_row g' (selB ++ [lastEw gz ge syms w s tail]) (tail.drop (tailLen tail))
    (slotsIn_append hs (slotsIn_lastEw gz ge s tail hc))
  rw [flat_append] at this
  simp only [flat, List.append_nil, List.append_assoc, lastEw_word] at this
  exact this

/-! ### slots and words of the selectors -/

@[simp] theorem wSel_caps (g : Nat) (w : List UInt8) : (wSel (some g) w).1.2 = [(g, 0, w.length)] := by simp [wSel, cw_length]
@[simp] theorem wSel_caps_none (w : List UInt8) : (wSel none w).1.2 = [] := rfl
@[simp] theorem wSel_word (g : Option Nat) (w : List UInt8) : (wSel g w).2 = w := rfl
@[simp] theorem ySel_caps (g Y : Nat) : (ySel g Y).1.2 = [(g, 0, 4)] := by unfold ySel; split <;> rfl
@[simp] theorem ySel_word (g Y : Nat) : (ySel g Y).2 = dec4 Y := rfl
@[simp] theorem sSel_caps (g S : Nat) : (sSel g S).1.2 = [(g, 0, 2)] := by unfold sSel; split <;> rfl
@[simp] theorem sSel_word (g S : Nat) : (sSel g S).2 = dec2 S := by
  unfold sSel
  split
  · next h => subst h; rfl
  · rfl
@[simp] theorem symSel_caps (g : Nat) (s : List Sym) (w : List UInt8) : (symSel (some g) s w).1.2 = [(g, 0, s.length)] := rfl
@[simp] theorem symSel_caps_none (s : List Sym) (w : List UInt8) : (symSel none s w).1.2 = [] := rfl
@[simp] theorem symSel_word (g : Option Nat) (s : List Sym) (w : List UInt8) : (symSel g s w).2 = w := rfl

/-! ### catalogues derived from the regex itself

`symEntriesOf a` enumerates symbolic words (with the slots `a` records on them) that `a` can consume:
every literal, the ASCII part of every class, every alternative, every repetition count (unbounded
repetitions: the minimum and one more). No correctness proof is needed: `rowOk` re-checks every entry. -/

def asciiPart (rs : List (Nat × Nat)) : Sym :=
  rs.filterMap (fun r => if r.1 < 128 then some (r.1, min r.2 127) else none)

def prodE (xs ys : List Entry) : List Entry :=
  xs.flatMap (fun x => ys.map (fun y => (x.1 ++ y.1, shc x.1.length y.2 ++ x.2)))

def powE (xs : List Entry) : Nat → List Entry
  | 0 => [([], [])]
  | k + 1 => prodE xs (powE xs k)

def symEntriesOf : Re → List Entry
  | .eps => [([], [])]
  | .lit bs => [(cw bs, [])]
  | .cls rs => if (asciiPart rs).isEmpty then [] else [([asciiPart rs], [])]
  | .cat a b => prodE (symEntriesOf a) (symEntriesOf b)
  | .alt a b => symEntriesOf a ++ symEntriesOf b
  | .rep a lo hi =>
    let n := match hi with | some h => h | none => lo + 1
    (List.range' lo (n + 1 - lo)).flatMap (fun k => powE (symEntriesOf a) k)
  | .group i a => (symEntriesOf a).map (fun e => (e.1, (i, 0, e.1.length) :: e.2))
  | .bol => []
  | .eol => []

/-- items of a right-nested concatenation -/
def itemsOf : Re → List Re
  | .cat a b => a :: itemsOf b
  | r => [r]

/-- the last two items taken as one (see `lastDom`) -/
def mergeLast : List Re → List Re
  | [] => []
  | [a] => [a]
  | [a, b] => [.cat a b]
  | a :: b :: c :: t => a :: mergeLast (b :: c :: t)

def mkPieces (items : List Re) (doms : List (List Entry)) : List Piece := List.zipWith Piece.mk items doms

/-- slots lie inside the words, for a whole catalogue (decidable) -/
def domSlotsOk (dom : List Entry) : Bool :=
  dom.all (fun e => e.2.all (fun c => decide (c.2.1 ≤ c.2.2) && decide (c.2.2 ≤ e.1.length)))

/-- the selection of catalogue entry `e` with concrete word `w` -/
theorem ewOK_of_mem {dom : List Entry} {e : Entry} {w : List UInt8} (hs : domSlotsOk dom = true) (hm : e ∈ dom)
    (hc : Conc e.1 w) : EwOK dom (e, w) := by
  refine ⟨hm, hc, ?_⟩
  intro c hcm
  have := List.all_eq_true.mp (List.all_eq_true.mp hs e hm) c hcm
  simp only [Bool.and_eq_true, decide_eq_true_eq] at this
  rw [← conc_length hc]
  exact this

/-! ### automatic pieces; Boolean validity (for instances) -/

/-- pieces of a list of items: the derived catalogue, unless overridden (by item index) -/
def autoPieces (items : List Re) (ov : List (Nat × List Entry)) : List Piece :=
  items.zipIdx.map (fun x => Piece.mk x.1 ((ov.lookup x.2).getD (symEntriesOf x.1)))

/-- the items between `^` and the final group -/
def bodyItems (re : Re) : List Re := ((itemsOf re).drop 1).dropLast
def lastItem (re : Re) : Re := ((itemsOf re).getLast?).getD .eps

def nonNull (d : List Entry) : List Entry := d.filter (fun e => !e.1.isEmpty)

def rowSlotsOk (qs : List Piece) : Bool := qs.all (fun q => domSlotsOk q.dom)

theorem allOK_of_valid : ∀ {qs : List Piece} {sel : Sel}, rowSlotsOk qs = true → Valid qs sel → AllOK qs sel := by
  intro qs
  induction qs with
  | nil =>
    intro sel _ hv
    cases sel with
    | nil => trivial
    | cons _ _ => exact absurd hv (by simp [Valid])
  | cons q qs ih =>
    intro sel hs hv
    cases sel with
    | nil => exact absurd hv (by simp [Valid])
    | cons ew sel =>
      simp only [rowSlotsOk, List.all_cons, Bool.and_eq_true] at hs
      exact ⟨ewOK_of_mem hs.1 hv.1 hv.2.1, ih hs.2 hv.2.2⟩

def concB : List Sym → List UInt8 → Bool
  | [], [] => true
  | s :: ss, b :: w => symHas s b && concB ss w
  | [], _ :: _ => false
  | _ :: _, [] => false

theorem conc_of_concB : ∀ {syms : List Sym} {w : List UInt8}, concB syms w = true → Conc syms w := by
  intro syms
  induction syms with
  | nil => intro w h; cases w <;> simp_all [concB, Conc]
  | cons s ss ih =>
    intro w h
    cases w with
    | nil => simp [concB] at h
    | cons b w =>
      simp only [concB, Bool.and_eq_true] at h
      exact ⟨h.1, ih h.2⟩

def validB : List Piece → Sel → Bool
  | [], [] => true
  | q :: qs, ew :: sel => q.dom.contains ew.1 && concB ew.1.1 ew.2 && validB qs sel
  | [], _ :: _ => false
  | _ :: _, [] => false

theorem valid_of_validB : ∀ {qs : List Piece} {sel : Sel}, validB qs sel = true → Valid qs sel := by
  intro qs
  induction qs with
  | nil => intro sel h; cases sel <;> simp_all [validB, Valid]
  | cons q qs ih =>
    intro sel h
    cases sel with
    | nil => simp [validB] at h
    | cons ew sel =>
      simp only [validB, Bool.and_eq_true, List.contains_iff_mem] at h
      exact ⟨h.1.1, conc_of_concB h.1.2, ih h.2⟩

/-- split a line along the catalogues: for each piece the first entry (longest first is NOT required)
whose symbolic word fits a prefix of the rest and lets the remaining pieces fit too -/
def chooseSel : List Piece → List UInt8 → Option (Sel × List UInt8)
  | [], rest => some ([], rest)
  | q :: qs, rest =>
    q.dom.findSome? (fun e =>
      if concB e.1 (rest.take e.1.length) && e.1.length ≤ rest.length then
        match chooseSel qs (rest.drop e.1.length) with
        | some (sel, r) => some ((e, rest.take e.1.length) :: sel, r)
        | none => none
      else none)

end S4V.Lemmas.RegexRows
