/-
The many-block arm of `BlockReader::read_data` / `read_data_to_buffer` (`manyLoop`, `copyMany`) is exact: for a
faithful reader, every block size `≥ 1` and every request `[beg, end)` — whatever the number of blocks it spans —
`read_data_to_buffer` returns `d[beg, min end |d|)`.

* `manyLoop_exact`   the `while bo1 <= bo2` loop collects exactly the blocks `bo1+1 ..= bo2` (none is `Done`: `bo2` lies
                     in the file because `end` was clamped to the file size);
* `copyMids_exact`   the `skip(1).take(len-2)` loop appends whole blocks, `Err` exactly when the buffer ends inside them;
* `copyMany_exact`   first partial block + middle blocks + last partial block = `d[beg, E)`;
* `read_exact_any`   the three arms together (One and Two as in `read_exact_short`, without its span hypothesis);
* `readsExact_any`   hence `ReadsExact d I span` for EVERY `span`.
-/
import S4V.Lemmas.FixedWalkRead

namespace S4V.Lemmas.FixedWalkMany
open S4V.Gen.Blocks S4V.Gen.Stream S4V.Gen.FixedWalk S4V.Model.Lines S4V.Model.Stream S4V.Model.FixedWalk
  S4V.Lemmas.Blocks S4V.Lemmas.Stream S4V.Lemmas.StreamKeep S4V.Lemmas.FixedWalk S4V.Lemmas.FixedWalkRead

/-- the blocks `k, k+1, …, k+n-1` of `d` -/
def blocksFrom (d : Bytes) (bs : Nat) : Nat → Nat → List Bytes
  | 0, _ => []
  | n + 1, k => blockAt d bs k :: blocksFrom d bs n (k + 1)

theorem blocksFrom_length (d : Bytes) (bs : Nat) : ∀ (n k : Nat), (blocksFrom d bs n k).length = n := by
  intro n
  induction n with
  | zero => intro k; rfl
  | succ n ih => intro k; simp only [blocksFrom, List.length_cons, ih]

theorem blocksFrom_snoc (d : Bytes) (bs : Nat) :
    ∀ (n k : Nat), blocksFrom d bs (n + 1) k = blocksFrom d bs n k ++ [blockAt d bs (k + n)] := by
  intro n
  induction n with
  | zero => intro k; simp [blocksFrom]
  | succ n ih =>
    intro k
    rw [blocksFrom, ih (k + 1)]
    simp only [blocksFrom, List.cons_append]
    rw [show k + 1 + n = k + (n + 1) by omega]

/-! ### the `while bo1 <= bo2` loop -/

/-- `n` rounds from block `k`, all of them at or below a block `K` that starts inside the file: every `read_block` is
`Found`, the blocks are appended in order -/
theorem manyLoop_exact {d : Bytes} {bs : Nat} {I : Rd → Prop} (hF : Faithful d bs I) (K : Nat) (hK : K * bs < d.length) :
    ∀ (n : Nat) (r : Rd) (k : Nat) (acc : List Bytes), I r → k + n ≤ K + 1 →
      ∃ r', I r' ∧ manyLoop n r k acc = (.found (acc ++ blocksFrom d bs n k), r') := by
  intro n
  induction n with
  | zero =>
    intro r k acc hr _
    exact ⟨r, hr, by simp [manyLoop, blocksFrom]⟩
  | succ n ih =>
    intro r k acc hr hk
    have hkb : k * bs < d.length := by
      have : k * bs ≤ K * bs := Nat.mul_le_mul_right _ (by omega)
      omega
    obtain ⟨r1, e1, hr1⟩ := found_block hF r k hr hkb
    obtain ⟨r2, hr2, e2⟩ := ih r1 (k + 1) (acc ++ [blockAt d bs k]) hr1 (by omega)
    refine ⟨r2, hr2, ?_⟩
    simp only [manyLoop, e1, e2, blocksFrom, List.append_assoc, List.cons_append, List.nil_append]

/-! ### the copies -/

theorem full_block_length (d : Bytes) (bs k : Nat) (h : k * bs + bs ≤ d.length) : (blockAt d bs k).length = bs := by
  rw [blockAt_length]; omega

/-- slice `[i, j)` of block `k` -/
theorem slice_block (d : Bytes) (bs k i j : Nat) (hij : i ≤ j) (hj : j ≤ bs) (hL : k * bs + j ≤ d.length) :
    slice? (blockAt d bs k) i j = some (sl d (k * bs + i) (k * bs + j)) := by
  unfold slice?
  rw [if_pos ⟨hij, by rw [blockAt_length]; omega⟩, blockAt_slice d bs k i j hij hj]

/-- one `len_check!; copy_from_slice; at += n` that appends `d[a, c)` to `d[beg, a)` -/
theorem copyStep_exact (d : Bytes) (bs len beg k i j n : Nat) (fromAt : Bool) (hij : i ≤ j) (hj : j ≤ bs)
    (hL : k * bs + j ≤ d.length) (hn : n = j - i) (hb : beg ≤ k * bs + i) (hat : fromAt = true ∨ beg = k * bs + i) :
    copyStep len (sl d beg (k * bs + i)) (blockAt d bs k) n i j fromAt =
      if len < k * bs + j - beg then St.err else St.ok (sl d beg (k * bs + j)) := by
  have hwl : (sl d beg (k * bs + i)).length = k * bs + i - beg := sl_length _ _ _ (by omega)
  have hsl : (sl d (k * bs + i) (k * bs + j)).length = j - i := by rw [sl_length _ _ _ hL]; omega
  unfold copyStep
  rw [lenCheck_iff, hwl, slice_block d bs k i j hij hj hL]
  by_cases hl : len < k * bs + j - beg
  · rw [if_pos hl, decide_eq_true (by omega)]; rfl
  · rw [if_neg hl, decide_eq_false (by omega)]
    simp only [Bool.false_eq_true, if_false]
    rw [if_neg, sl_append d hb (by omega)]
    intro h
    rcases h with h | ⟨h1, h2⟩
    · rw [hsl] at h; exact h hn.symm
    · rcases hat with hat | hat
      · rw [hat] at h1; cases h1
      · omega

/-- the middle loop over `m` whole blocks from block `k`, entered with `d[beg, k·bs)` already in the buffer -/
theorem copyMids_exact (d : Bytes) (bs len beg bi1 bi2 : Nat) :
    ∀ (m k : Nat), beg ≤ k * bs → (k + m) * bs ≤ d.length → k * bs - beg ≤ len →
      copyMids len bi1 bi2 (blocksFrom d bs m k) (sl d beg (k * bs)) =
        if len < (k + m) * bs - beg then St.err else St.ok (sl d beg ((k + m) * bs)) := by
  intro m
  induction m with
  | zero =>
    intro k _ _ hlen
    rw [Nat.add_zero, if_neg (by omega)]
    rfl
  | succ m ih =>
    intro k hb hL hlen
    have e1 : (k + (m + 1)) * bs = k * bs + bs + m * bs := by
      rw [Nat.add_mul, Nat.add_mul, Nat.one_mul]; omega
    have e2 : (k + 1 + m) * bs = k * bs + bs + m * bs := by
      rw [Nat.add_mul, Nat.add_mul, Nat.one_mul]
    have e3 : (k + 1) * bs = k * bs + bs := by rw [Nat.add_mul, Nat.one_mul]
    have hfull : (blockAt d bs k).length = bs := full_block_length d bs k (by omega)
    have hstep := copyStep_exact d bs len beg k 0 bs bs true (Nat.zero_le _) (Nat.le_refl _) (by omega) (by omega)
      (by omega) (Or.inl rfl)
    rw [Nat.add_zero] at hstep
    simp only [blocksFrom, copyMids, manyMidN, manyMidBeg, manyMidEnd, manyMidDstFromAt, hfull, hstep]
    by_cases hl : len < k * bs + bs - beg
    · rw [if_pos hl, if_pos (by omega)]; rfl
    · rw [if_neg hl]
      have := ih (k + 1) (by omega) (by omega) (by omega)
      rw [e3] at this
      simp only [St.bind, this, e1, e2]

/-- the Many arm of `read_data_to_buffer` on the blocks `q1 ..= bo2` (`bo2 = q1 + 1 + M`): `d[beg, E)`, or `Err` when the
buffer is shorter -/
theorem copyMany_exact (d : Bytes) (bs len beg E q1 i1 bo2 bi2 M : Nat) (g1 : beg = q1 * bs + i1) (g2 : i1 < bs)
    (g3 : E = bo2 * bs + bi2) (g5 : bi2 ≤ bs) (hEL : E ≤ d.length) (hM : bo2 = q1 + 1 + M) :
    copyMany len (blockAt d bs q1 :: (blocksFrom d bs M (q1 + 1) ++ [blockAt d bs bo2])) i1 bi2 =
      if len < E - beg then St.err else St.ok (sl d beg E) := by
  have eB : bo2 * bs = q1 * bs + bs + M * bs := by
    rw [hM, Nat.add_mul, Nat.add_mul, Nat.one_mul]
  have eQ : (q1 + 1) * bs = q1 * bs + bs := by rw [Nat.add_mul, Nat.one_mul]
  have eQM : (q1 + 1 + M) * bs = bo2 * bs := by rw [hM]
  have hfull : (blockAt d bs q1).length = bs := full_block_length d bs q1 (by omega)
  have hhead : (blockAt d bs q1 :: (blocksFrom d bs M (q1 + 1) ++ [blockAt d bs bo2])).head? = some (blockAt d bs q1) := rfl
  have hlast : (blockAt d bs q1 :: (blocksFrom d bs M (q1 + 1) ++ [blockAt d bs bo2])).getLast? = some (blockAt d bs bo2) := by
    rw [← List.cons_append, List.getLast?_concat]
  have hmid : ((blockAt d bs q1 :: (blocksFrom d bs M (q1 + 1) ++ [blockAt d bs bo2])).drop MANY_MID_SKIP).take
      ((blockAt d bs q1 :: (blocksFrom d bs M (q1 + 1) ++ [blockAt d bs bo2])).length - MANY_MID_LESS)
        = blocksFrom d bs M (q1 + 1) := by
    simp only [MANY_MID_SKIP, MANY_MID_LESS, List.drop_succ_cons, List.drop_zero, List.length_cons, List.length_append,
      blocksFrom_length, List.length_nil]
    rw [show M + (0 + 1) + 1 - 2 = M by omega]
    exact List.take_left' (blocksFrom_length d bs M (q1 + 1))
  -- first block: `[i1, bs)`
  have hfirst := copyStep_exact d bs len beg q1 i1 bs (bs - i1) false (by omega) (Nat.le_refl _) (by omega) rfl
    (by omega) (Or.inr g1)
  rw [← g1, show sl d beg beg = [] by simp [sl]] at hfirst
  -- last block: `[0, bi2)`
  have hlastStep := copyStep_exact d bs len beg bo2 0 bi2 bi2 true (Nat.zero_le _) g5 (by omega) (by omega)
    (by omega) (Or.inl rfl)
  rw [Nat.add_zero, ← g3] at hlastStep
  unfold copyMany
  rw [hhead, hlast]
  simp only [hmid, manyFirstN, manyFirstBeg, manyFirstEnd, manyFirstDstFromAt, manyLastN, manyLastBeg, manyLastEnd,
    manyLastDstFromAt, hfull]
  rw [show i1 + (bs - i1) = bs by omega, hfirst]
  by_cases hl1 : len < q1 * bs + bs - beg
  · rw [if_pos hl1, if_pos (by omega)]; rfl
  · rw [if_neg hl1]
    have hm := copyMids_exact d bs len beg i1 bi2 M (q1 + 1) (by omega) (by rw [eQM]; omega) (by omega)
    rw [eQ, eQM] at hm
    simp only [St.bind, hm]
    by_cases hl2 : len < bo2 * bs - beg
    · rw [if_pos hl2, if_pos (by omega)]
    · rw [if_neg hl2]
      simp only [hlastStep]

/-! ### the three arms together -/

/-- the request end enters `read_data` only through `min end filesz` -/
theorem readDataToBuffer_clamp (r : Rd) (beg e : Nat) (o : Bool) (len : Nat) :
    readDataToBuffer r beg (min e r.fsz) o len = readDataToBuffer r beg e o len := by
  have h : readData r beg (min e r.fsz) o = readData r beg e o := by
    have hm : rdEnd (min e r.fsz) r.fsz = rdEnd e r.fsz := by simp only [rdEnd, Nat.min_assoc, Nat.min_self]
    unfold readData
    rw [hm]
  unfold readDataToBuffer
  rw [h]

/-- **every** request: one block, two adjacent blocks, or first + middle + last blocks -/
theorem read_exact_any {d : Bytes} {bs : Nat} {I : Rd → Prop} (hF : Faithful d bs I) (r : Rd) (beg e len : Nat)
    (hr : I r) (hlen : 1 ≤ len) :
    ∃ r', I r' ∧ r'.bs = r.bs ∧ readDataToBuffer r beg e false len =
      (if beg ≥ min e d.length then R3.done
       else if len < min e d.length - beg then R3.err
       else R3.found (sl d beg (min e d.length)), r') := by
  obtain ⟨hrbs, hrfsz⟩ := hF.st r hr
  have hbs := hF.hbs
  by_cases hshort : min e d.length ≤ beg + bs
  · -- at most `bs` bytes after clamping: arms One / Two, already proved
    obtain ⟨r', h1, h2, h3⟩ := read_exact_short hF r beg (min e d.length) len hr hlen hshort
    refine ⟨r', h1, h2, ?_⟩
    rw [← readDataToBuffer_clamp, hrfsz, h3, Nat.min_assoc, Nat.min_self]
  · unfold readDataToBuffer
    rw [lenCheck_iff, decide_eq_false (by omega)]
    simp only [Bool.false_eq_true, if_false]
    unfold readData
    simp only [rdEnd, rdEmpty, hrfsz, hrbs]
    have hemp : ¬ beg ≥ min e d.length := by omega
    rw [if_neg hemp]
    simp only [decide_eq_false hemp, Bool.false_eq_true, if_false]
    generalize hE : min e d.length = E at hemp hshort ⊢
    have hEL : E ≤ d.length := by omega
    have hbE : beg < E := by omega
    obtain ⟨g1, g2, g3, g4, g5, g6⟩ := geom bs beg E hbs hbE
    simp only [blockOffsetAtFileOffset_eq, blockIndexAtFileOffset_eq]
    generalize hq1 : beg / bs = q1 at g1 g6 ⊢
    generalize hi1 : beg % bs = i1 at g1 g2 ⊢
    generalize hbo2 : rdBo2 (E % bs) (E / bs) = bo2 at g3 g6 ⊢
    generalize hbi2 : rdBi2 (E % bs) bs = bi2 at g3 g4 g5 ⊢
    obtain ⟨r1, e1, hr1⟩ := found_block hF r q1 hr (by omega)
    rw [e1]
    simp only
    have hlast : r.last = blockOffsetLast d.length bs := by unfold Rd.last; rw [hrfsz, hrbs]
    -- more than `bs` bytes: `bo2 > bo1`
    have hlt : q1 < bo2 := by
      apply Nat.lt_of_not_le
      intro hle
      have : bo2 * bs ≤ q1 * bs := Nat.mul_le_mul_right _ hle
      omega
    have hB1 : (q1 + 1) * bs ≤ bo2 * bs := Nat.mul_le_mul_right _ hlt
    rw [Nat.add_mul, Nat.one_mul] at hB1
    have hnl : q1 ≠ r.last := by
      rw [hlast]
      intro heq
      have := (le_blockOffsetLast_iff d.length bs bo2 hbs (by omega)).2 (by omega)
      omega
    rw [if_neg (by intro h; rcases h with h | h; omega; exact hnl h)]
    by_cases hq : q1 + 1 = bo2
    · -- Two
      rw [if_pos hq]
      have hB : bo2 * bs = q1 * bs + bs := by rw [← hq, Nat.add_mul, Nat.one_mul]
      obtain ⟨r2, e2, hr2⟩ := found_block hF r1 bo2 hr1 (by omega)
      obtain ⟨hr2bs, _⟩ := hF.st r2 hr2
      rw [e2]
      simp only
      have hl1 : (blockAt d bs q1).length = bs := full_block_length d bs q1 (by omega)
      have hb2 : bi2 ≤ (blockAt d bs bo2).length := by rw [blockAt_length]; omega
      have hbi2' : (if bo2 = r.last then min bi2 (blockAt d bs bo2).length else bi2) = bi2 := by
        split
        · exact Nat.min_eq_left hb2
        · rfl
      rw [hbi2']
      have hfirst := copyStep_exact d bs len beg q1 i1 bs (bs - i1) false (by omega) (Nat.le_refl _) (by omega) rfl
        (by omega) (Or.inr g1)
      rw [← g1, show sl d beg beg = [] by simp [sl], ← hB] at hfirst
      have hlastStep := copyStep_exact d bs len beg bo2 0 bi2 bi2 true (Nat.zero_le _) g5 (by omega) (by omega)
        (by omega) (Or.inl rfl)
      rw [Nat.add_zero, ← g3] at hlastStep
      simp only [copyTwo, twoFirstN, twoFirstBeg, twoFirstEnd, twoFirstDstFromAt, twoLastN, twoLastBeg, twoLastEnd,
        twoLastDstFromAt, hl1, hfirst]
      refine ⟨r2, hr2, hr2bs, ?_⟩
      by_cases hl : len < bo2 * bs - beg
      · rw [if_pos hl, if_pos (by omega)]; rfl
      · rw [if_neg hl]
        simp only [St.bind, hlastStep]
        by_cases hl2 : len < E - beg
        · rw [if_pos hl2, if_pos hl2]
        · rw [if_neg hl2, if_neg hl2]
    · -- Many
      rw [if_neg hq]
      obtain ⟨M, hM⟩ : ∃ M, bo2 = q1 + 1 + (M + 1) := ⟨bo2 - q1 - 2, by omega⟩
      simp only [RD_MANY_LOOP_INCLUSIVE, if_true]
      rw [show bo2 - q1 = (M + 1) + 1 by omega]
      obtain ⟨r2, hr2, e2⟩ := manyLoop_exact hF bo2 (by omega) ((M + 1) + 1) r1 (q1 + 1) [blockAt d bs q1] hr1 (by omega)
      obtain ⟨hr2bs, _⟩ := hF.st r2 hr2
      rw [e2, blocksFrom_snoc, show q1 + 1 + (M + 1) = bo2 by omega]
      simp only [List.cons_append, List.nil_append]
      have hll : lastLen (blockAt d bs q1 :: (blocksFrom d bs (M + 1) (q1 + 1) ++ [blockAt d bs bo2]))
          = (blockAt d bs bo2).length := by
        unfold lastLen
        rw [← List.cons_append, List.getLast?_concat]
        rfl
      have hb2 : bi2 ≤ (blockAt d bs bo2).length := by rw [blockAt_length]; omega
      rw [hll, Nat.min_eq_left hb2, copyMany_exact d bs len beg E q1 i1 bo2 bi2 (M + 1) g1 g2 g3 g5 hEL hM]
      refine ⟨r2, hr2, hr2bs, ?_⟩
      by_cases hl2 : len < E - beg
      · rw [if_pos hl2, if_pos hl2]
      · rw [if_neg hl2, if_neg hl2]

/-- `ReadsExact` for requests of ANY length -/
theorem readsExact_any {d : Bytes} {bs : Nat} {I : Rd → Prop} (hF : Faithful d bs I) (span : Nat) : ReadsExact d I span where
  fsz := fun r h => (hF.st r h).2
  read := fun r beg e len hr hlen _ => read_exact_any hF r beg e len hr hlen
  drop := fun r k h => ⟨hF.drop r k h, dropBlock_bs r k⟩

end S4V.Lemmas.FixedWalkMany
