/-
Closed form of the record loop of `EvtxReader::analyze` (`S4V.Model.EvtxReader.step`, with the regenerated choices
`genCfg`): what each field holds after the loop, in terms of the `ok` items alone — the `err` items only advance the
enumeration index and leave their index in `error`.
-/
import S4V.Model.EvtxReader

namespace S4V.Lemmas.EvtxReader
open S4V.Gen.Evtx S4V.Gen.Summary S4V.Gen.Filter S4V.Gen.Keys S4V.Model.Summary S4V.Model.SortDrain S4V.Model.EvtxReader

/-- the `ok` items as `(creation time, enumeration index)`, the enumeration starting at `k` -/
def evsFrom (k : Nat) : List Item → List Ev
  | [] => []
  | .ok ts _ :: r => ⟨ts, k⟩ :: evsFrom (k + 1) r
  | .err :: r => evsFrom (k + 1) r

/-- the creation times of the `ok` items, in file order -/
def okTs : List Item → List Int
  | [] => []
  | .ok ts _ :: r => ts :: okTs r
  | .err :: r => okTs r

/-- how many records are older than the record before them (`oooCounts` regenerated) -/
def descents (last : Option Int) : List Int → Nat
  | [] => 0
  | t :: r => (if oooBump last t then 1 else 0) + descents (some t) r

def lastTs (last : Option Int) : List Int → Option Int
  | [] => last
  | t :: r => lastTs (some t) r

/-- the enumeration index of the last `err` item -/
def lastErr (k : Nat) (e : Option Nat) : List Item → Option Nat
  | [] => e
  | .ok _ _ :: r => lastErr (k + 1) e r
  | .err :: r => lastErr (k + 1) (some k) r

def win (a b : Option Int) (e : Ev) : Bool := tsPassFilters e.ts a b == .InRange

/-- the regenerated `Ok` arm stores the record exactly when the window filter says `InRange` -/
theorem armStores_EVTX (a b : Option Int) (ts : Int) :
    armStores a b ts EVTX_ANALYZE = if tsPassFilters ts a b == .InRange then 1 else 0 := by
  have key : ∀ res, tsPassFilters ts a b = res →
      armStores a b ts EVTX_ANALYZE = if res == .InRange then 1 else 0 := by
    intro res hres
    simp only [EVTX_ANALYZE, armStores, hres]
    cases res <;> decide
  exact key _ rfl

theorem step_ok (a b : Option Int) (l : Loop) (hl : l.live = true) (ts : Int) (id : Nat) :
    step genCfg a b l (.ok ts id) =
      { l with
        rd := { l.rd with
          ev := runR a b ts EVTX_ANALYZE l.rd.ev
          events := if win a b ⟨ts, l.index⟩ then insert l.rd.events (evtxKey ⟨ts, l.index⟩) l.index else l.rd.events
          outOfOrder := l.rd.outOfOrder + (if oooBump l.tsLast ts then 1 else 0) }
        tsLast := some ts
        index := l.index + 1 } := by
  simp only [step, hl, genCfg, OOO_BEFORE_FILTER, armStores_EVTX, win]
  generalize oooBump l.tsLast ts = c
  by_cases hw : (tsPassFilters ts a b == .InRange) = true <;> cases c <;> simp [hw]

theorem step_err (a b : Option Int) (l : Loop) (hl : l.live = true) (hr : l.returned = false) :
    step genCfg a b l .err = { l with rd := { l.rd with error := some l.index }, index := l.index + 1 } := by
  simp [step, hl, hr, genCfg, ERR_ARM_STORES_ERROR, ERR_ARM_EXIT]

/-- the record loop, closed form -/
theorem foldl_step (a b : Option Int) (items : List Item) :
    ∀ (l : Loop), l.live = true → l.returned = false →
    items.foldl (step genCfg a b) l =
      { rd := { ev := S4V.Model.Summary.analyze EVTX_ANALYZE a b (okTs items) l.rd.ev
                events := ((evsFrom l.index items).filter (win a b)).foldl
                  (fun m e => insert m (evtxKey e) e.idx) l.rd.events
                outOfOrder := l.rd.outOfOrder + descents l.tsLast (okTs items)
                error := lastErr l.index l.rd.error items
                analyzed := l.rd.analyzed }
        tsLast := lastTs l.tsLast (okTs items)
        index := l.index + items.length
        live := true
        returned := false } := by
  induction items with
  | nil =>
    intro l hl hr
    obtain ⟨⟨ev, events, ooo, err, an⟩, tl, idx, live, ret⟩ := l
    simp_all [okTs, evsFrom, descents, lastErr, lastTs, S4V.Model.Summary.analyze]
  | cons it r ih =>
    intro l hl hr
    cases it with
    | ok ts id =>
      rw [List.foldl_cons, step_ok a b l hl, ih _ (by simpa using hl) (by simpa using hr)]
      by_cases hw : win a b ⟨ts, l.index⟩ = true
      · simp [okTs, evsFrom, descents, lastErr, lastTs, S4V.Model.Summary.analyze, hw]
        omega
      · simp [okTs, evsFrom, descents, lastErr, lastTs, S4V.Model.Summary.analyze, hw]
        omega
    | err =>
      rw [List.foldl_cons, step_err a b l hl hr, ih _ (by simpa using hl) (by simpa using hr)]
      simp [okTs, evsFrom, lastErr]
      omega

end S4V.Lemmas.EvtxReader
