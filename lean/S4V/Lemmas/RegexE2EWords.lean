/-
C04, regex slice, stage 6 — `C04_words_denote`: well-shaped captured words with calendar values are attributed the
instant they spell, for EVERY generated date-time field set (definitions: `S4V.Lemmas.RegexE2E`).
One lemma per buffer piece (`year_piece` … `tz_piece`: the word's piece is the canonical piece of the value the word
spells), then `S4V.Props.TimeSpec.C04_normalise_parse`.
-/
import S4V.Lemmas.RegexE2E

namespace S4V.Lemmas.RegexE2E
open S4V.Gen.TimeTables S4V.Model.Time S4V.Model.DtParse S4V.Lemmas.DtParse S4V.Props.TimeSpec S4V.Lemmas.RegexZones

theorem lookup_mem {t : List (Bytes × Bytes)} {k v : Bytes} (h : lookup t k = some v) : (k, v) ∈ t := by
  induction t with
  | nil => simp [lookup] at h
  | cons p r ih =>
    obtain ⟨a, b⟩ := p
    simp only [lookup] at h
    by_cases e : a = k
    · rw [if_pos e] at h; cases h; subst e; simp
    · rw [if_neg e] at h; exact List.mem_cons_of_mem _ (ih h)

theorem allDigits_of_all {t : Bytes} (h : t.all isDigit = true) : AllDigits t :=
  fun b hb => List.all_eq_true.mp h b hb

/-! ### one lemma per piece -/

theorem year_piece (yk : DTFS_Year) (c : Captures) (fill : Option Int) (h : yearOK yk c.year fill = true) :
    ∃ yb, yearPiece yk c fill = some yb ∧ YearPieceOK yk yb (yearVal yk c.year fill) := by
  cases hy : c.year with
  | some t =>
    rw [hy] at h
    cases yk with
    | Y =>
      simp only [yearOK] at h
      obtain ⟨e, l⟩ := digs4_dec4 h
      exact ⟨t, by simp [yearPiece, hy], natVal t, l, e, by simp [yearVal, numVal_nonneg_digs4 h]⟩
    | fill =>
      simp only [yearOK] at h
      obtain ⟨e, l⟩ := digs4_dec4 h
      exact ⟨t, by simp [yearPiece, hy], natVal t, l, e, by simp [yearVal, numVal_nonneg_digs4 h]⟩
    | y =>
      simp only [yearOK] at h
      obtain ⟨e, l⟩ := digs2_dec2 h
      refine ⟨t, by simp [yearPiece, hy], natVal t, l, e, ?_⟩
      simp only [yearVal, numVal_nonneg_digs2 h]
      by_cases h70 : natVal t < 70
      · have : ((natVal t : Nat) : Int) < 70 := by omega
        simp [h70, this]
      · have : ¬ ((natVal t : Nat) : Int) < 70 := by omega
        simp [h70, this]
    | none_ => simp [yearOK] at h
  | none =>
    rw [hy] at h
    cases yk with
    | fill =>
      cases fill with
      | some y =>
        simp only [yearOK, decide_eq_true_eq] at h
        have hn : ¬ y < 0 := by omega
        refine ⟨dec4 y.toNat, ?_, y.toNat, by omega, rfl, ?_⟩
        · simp [yearPiece, hy, intDec, hn, natDec_4 y.toNat (by omega) (by omega)]
        · simp only [yearVal]; omega
      | none =>
        refine ⟨YEAR_FALLBACKDUMMY, by simp [yearPiece, hy], 1972, by decide, by decide, ?_⟩
        simp only [yearVal]; decide
    | Y => simp [yearOK] at h
    | y => simp [yearOK] at h
    | none_ => simp [yearOK] at h

theorem month_name {t : Bytes} (h : (lookup monthNamesB t).isSome = true) :
    ∃ m, monthOfName t = some m ∧ lookup monthNamesB t = some (dec2 m) := by
  cases hl : lookup monthNamesB t with
  | none => simp [hl] at h
  | some v =>
    have hm := lookup_mem hl
    have := List.all_eq_true.mp C04_month_table (t, v) hm
    unfold monthEntryOK at this
    cases hmo : monthOfName t with
    | none => simp [hmo] at this
    | some m =>
      simp only [hmo, beq_iff_eq] at this
      exact ⟨m, rfl, by rw [this]⟩

theorem month_piece (mk : DTFS_Month) (c : Captures) (h : monthOK mk c.month = true) :
    monthPiece mk c = some (dec2 (monthVal mk c.month)) := by
  cases hm : c.month with
  | none => rw [hm] at h; cases mk <;> simp [monthOK] at h
  | some t =>
    rw [hm] at h
    cases mk with
    | m =>
      simp only [monthOK] at h
      simp only [monthPiece, hm, monthVal]
      rw [← (digs2_dec2 h).1]
    | ms =>
      simp only [monthOK, Bool.or_eq_true] at h
      simp only [monthPiece, hm, monthVal, Option.map_some]
      rcases h with h | h
      · have hl : t.length = 1 := by obtain ⟨a, rfl, _⟩ := digs_one h; rfl
        rw [if_pos hl, (digs1_dec2 h).1]
      · have hl : ¬ t.length = 1 := by obtain ⟨a, b, rfl, _⟩ := digs_two h; simp
        rw [if_neg hl, ← (digs2_dec2 h).1]
    | b =>
      simp only [monthOK] at h
      obtain ⟨m, h1, h2⟩ := month_name h
      simp [monthPiece, hm, monthVal, h1, h2]
    | B =>
      simp only [monthOK] at h
      obtain ⟨m, h1, h2⟩ := month_name h
      simp [monthPiece, hm, monthVal, h1, h2]
    | none_ => simp [monthOK] at h

theorem natVal_one (a : UInt8) (ha : isDigit a = true) : natVal [a] = dv a := by
  unfold natVal; rw [(one_digit a ha).2.1]; omega

theorem natVal_two (a b : UInt8) (ha : isDigit a = true) (hb : isDigit b = true) : natVal [a, b] = dv a * 10 + dv b := by
  unfold natVal; rw [(two_digits a b ha hb).2.1]; omega

theorem day_piece (c : Captures) (h : dayOK c.day = true) : dayPiece .e_or_d c = some (dec2 (dayVal c.day)) := by
  cases hd : c.day with
  | none => rw [hd] at h; simp [dayOK] at h
  | some t =>
    rw [hd] at h
    match t, h with
    | [x], h =>
      simp only [dayOK] at h
      have e1 : dayVal (some [x]) = dv x := by simp only [dayVal, natVal_one x h]
      rw [e1]; simp only [dayPiece, hd]; rw [(one_digit x h).1]
    | [a, b], h =>
      simp only [dayOK, Bool.and_eq_true, Bool.or_eq_true, beq_iff_eq] at h
      by_cases e : a = 32
      · subst e
        have e1 : dayVal (some [32, b]) = dv b := by simp only [dayVal, if_true, natVal_one b h.2]
        rw [e1]; simp only [dayPiece, hd, if_true]; rw [(one_digit b h.2).1]
      · have ha : isDigit a = true := by rcases h.1 with h1 | h1; exact absurd h1 e; exact h1
        have e1 : dayVal (some [a, b]) = dv a * 10 + dv b := by simp only [dayVal, if_neg e, natVal_two a b ha h.2]
        rw [e1]; simp only [dayPiece, hd, if_neg e]; rw [(two_digits a b ha h.2).1]

theorem hour_piece (hk : DTFS_Hour) (c : Captures) (h : hourOK hk c.hour = true) :
    hourPiece hk c = some (dec2 (numOptVal c.hour)) := by
  cases hh : c.hour with
  | none => rw [hh] at h; cases hk <;> simp [hourOK] at h
  | some t =>
    rw [hh] at h
    cases hk with
    | H =>
      simp only [hourOK] at h
      simp only [hourPiece, hh, numOptVal]
      rw [← (digs2_dec2 h).1]
    | k =>
      simp only [hourOK, Bool.or_eq_true] at h
      simp only [hourPiece, hh, numOptVal, Option.map_some]
      rcases h with h | h
      · have hl : t.length = 1 := by obtain ⟨a, rfl, _⟩ := digs_one h; rfl
        rw [if_pos hl, (digs1_dec2 h).1]
      · have hl : ¬ t.length = 1 := by obtain ⟨a, b, rfl, _⟩ := digs_two h; simp
        rw [if_neg hl, ← (digs2_dec2 h).1]
    | I => simp [hourOK] at h
    | l => simp [hourOK] at h
    | none_ => simp [hourOK] at h

theorem minute_piece (c : Captures) (h : minuteOK c.minute = true) :
    minutePiece .M c = some (dec2 (numOptVal c.minute)) := by
  cases hm : c.minute with
  | none => rw [hm] at h; simp [minuteOK] at h
  | some t =>
    rw [hm] at h
    simp only [minuteOK] at h
    simp only [minutePiece, hm, numOptVal]
    rw [← (digs2_dec2 h).1]

theorem sec_piece (sk : DTFS_Second) (c : Captures) (h : secOK sk c.second = true) (hr : secVal sk c.second ≤ 60) :
    ∃ sb, secondPiece sk c = some sb ∧ SecPieceOK sk sb (secVal sk c.second) := by
  cases sk with
  | S =>
    cases hs : c.second with
    | none => rw [hs] at h; simp [secOK] at h
    | some t =>
      rw [hs] at h hr
      simp only [secOK] at h
      simp only [secVal] at hr
      obtain ⟨e, _⟩ := digs2_dec2 h
      have hv := numVal_nonneg_digs2 h
      exact ⟨t, by simp [secondPiece, hs], natVal t, by omega, e, by simp [secVal, hv]⟩
  | fill =>
    refine ⟨[48, 48], rfl, 0, by omega, by decide, ?_⟩
    cases c.second <;> rfl
  | none_ =>
    refine ⟨[], rfl, rfl, ?_⟩
    cases c.second <;> rfl

theorem frac_piece (fk : DTFS_Fractional) (c : Captures) (h : fracOK fk c.fractional = true) :
    ∃ fb, fracPiece fk c = some fb ∧ FracPieceOK fk fb (fracVal fk c.fractional) := by
  cases fk with
  | f =>
    cases hf : c.fractional with
    | none => rw [hf] at h; simp [fracOK] at h
    | some t =>
      rw [hf] at h
      simp only [fracOK, Bool.and_eq_true, decide_eq_true_eq] at h
      obtain ⟨⟨hd, h1⟩, h12⟩ := h
      by_cases h9 : t.length ≤ 9
      · obtain ⟨p1, p2⟩ := C04_fraction_pad c t (allDigits_of_all hd) h9 hf
        refine ⟨_, p1, ?_⟩
        simp only [fracVal, if_pos h9, ← numVal_pad]
        exact p2
      · obtain ⟨p1, p2⟩ := C04_fraction_truncate c t (allDigits_of_all hd) (by omega) h12 hf
        refine ⟨_, p1, ?_⟩
        simp only [fracVal, if_neg h9]
        exact p2
  | none_ =>
    refine ⟨[], rfl, rfl, ?_⟩
    cases c.fractional <;> rfl

/-! ### zones -/

theorem isSign_cases {s : UInt8} (h : isSign s = true) : s = 43 ∨ s = 45 := by
  simpa [isSign] using h

theorem sign_mem {s : UInt8} (h : isSign s = true) : s ∈ [(43 : UInt8), 45] := by
  rcases isSign_cases h with rfl | rfl <;> simp

theorem tzNumRange3 (s h1 h2 : UInt8) : tzNumRange [s, h1, h2] = (decide (numVal [h1, h2] ≤ 23) && true) := rfl
theorem tzNumRange5 (s h1 h2 m1 m2 : UInt8) :
    tzNumRange [s, h1, h2, m1, m2] = (decide (numVal [h1, h2] ≤ 23) && decide (numVal [m1, m2] ≤ 59)) := rfl
theorem tzNumRange6 (s h1 h2 c m1 m2 : UInt8) :
    tzNumRange [s, h1, h2, c, m1, m2] = (decide (numVal [h1, h2] ≤ 23) && decide (numVal [m1, m2] ≤ 59)) := rfl

theorem tzNum_scan (short : Bool) (t : Bytes) (h : tzNumOK short t = true) (hr : tzNumRange t = true)
    (perm : Bool) (hp : short = true → perm = true) :
    tzScan perm t = some (tzNumVal t, []) ∧ -86400 < tzNumVal t ∧ tzNumVal t < 86400 ∧ AllNotBlank t ∧ t.length ≤ 9 := by
  unfold tzNumOK at h
  split at h
  · next s h1 h2 =>
    simp only [Bool.and_eq_true] at h
    obtain ⟨⟨⟨hs, hsg⟩, d1⟩, d2⟩ := h
    obtain ⟨e1, e2, _⟩ := two_digits h1 h2 d1 d2
    rw [tzNumRange3, e2] at hr
    simp only [Bool.and_true, decide_eq_true_eq] at hr
    have hoh : dv h1 * 10 + dv h2 < 24 := by omega
    have := tzp_scan_all s (sign_mem hsg) _ (List.mem_range.mpr hoh)
    simp only [tzpChk, Bool.and_eq_true, beq_iff_eq] at this
    have ht : [s, h1, h2] = tzpText s (dv h1 * 10 + dv h2) := by simp [tzpText, ← e1]
    have hv : tzNumVal [s, h1, h2] = sgnOff s (numVal [h1, h2] * 3600 + 0 * 60) := rfl
    rw [e2] at hv
    simp only [Int.zero_mul, Int.add_zero] at hv
    have hperm : perm = true := hp hs
    subst hperm
    rw [hv, ht]
    refine ⟨this.1, ?_, ?_, allNotBlank_of_notBlankB this.2, by simp [tzpText, dec2]⟩ <;>
      (unfold sgnOff; split <;> omega)
  · next s h1 h2 m1 m2 =>
    simp only [Bool.and_eq_true] at h
    obtain ⟨⟨⟨⟨hsg, d1⟩, d2⟩, d3⟩, d4⟩ := h
    obtain ⟨e1, e2, _⟩ := two_digits h1 h2 d1 d2
    obtain ⟨f1, f2, _⟩ := two_digits m1 m2 d3 d4
    rw [tzNumRange5, e2, f2] at hr
    simp only [Bool.and_eq_true, decide_eq_true_eq] at hr
    have hoh : dv h1 * 10 + dv h2 < 24 := by omega
    have hom : dv m1 * 10 + dv m2 < 60 := by omega
    have := tz_scan_all s (sign_mem hsg) _ (List.mem_range.mpr hoh) _ (List.mem_range.mpr hom)
    simp only [tzChk, Bool.and_eq_true, beq_iff_eq] at this
    obtain ⟨⟨⟨⟨⟨_, _⟩, z1⟩, z2⟩, _⟩, nb⟩ := this
    have ht : [s, h1, h2, m1, m2] = tzzText s (dv h1 * 10 + dv h2) (dv m1 * 10 + dv m2) := by
      simp only [tzzText, ← e1, ← f1]; rfl
    have hv : tzNumVal [s, h1, h2, m1, m2] = sgnOff s (numVal [h1, h2] * 3600 + numVal [m1, m2] * 60) := rfl
    rw [e2, f2] at hv
    rw [hv, ht]
    refine ⟨by cases perm; exact z1; exact z2, ?_, ?_, allNotBlank_of_notBlankB nb, by simp [tzzText, dec2]⟩ <;>
      (unfold sgnOff; split <;> omega)
  · next s h1 h2 c m1 m2 =>
    simp only [Bool.and_eq_true, beq_iff_eq] at h
    obtain ⟨⟨⟨⟨⟨hsg, d1⟩, d2⟩, hc⟩, d3⟩, d4⟩ := h
    subst hc
    obtain ⟨e1, e2, _⟩ := two_digits h1 h2 d1 d2
    obtain ⟨f1, f2, _⟩ := two_digits m1 m2 d3 d4
    rw [tzNumRange6, e2, f2] at hr
    simp only [Bool.and_eq_true, decide_eq_true_eq] at hr
    have hoh : dv h1 * 10 + dv h2 < 24 := by omega
    have hom : dv m1 * 10 + dv m2 < 60 := by omega
    have := tz_scan_all s (sign_mem hsg) _ (List.mem_range.mpr hoh) _ (List.mem_range.mpr hom)
    simp only [tzChk, Bool.and_eq_true, beq_iff_eq] at this
    obtain ⟨⟨⟨⟨⟨z1, z2⟩, _⟩, _⟩, nb⟩, _⟩ := this
    have ht : [s, h1, h2, 58, m1, m2] = tzcText s (dv h1 * 10 + dv h2) (dv m1 * 10 + dv m2) := by
      simp only [tzcText, ← e1, ← f1]; rfl
    have hv : tzNumVal [s, h1, h2, 58, m1, m2] = sgnOff s (numVal [h1, h2] * 3600 + numVal [m1, m2] * 60) := rfl
    rw [e2, f2] at hv
    rw [hv, ht]
    refine ⟨by cases perm; exact z1; exact z2, ?_, ?_, allNotBlank_of_notBlankB nb, by simp [tzcText, dec2]⟩ <;>
      (unfold sgnOff; split <;> omega)
  · cases h

/-- every non-empty table value denotes an offset strictly within ±24 h and fits the zone slot of the buffer -/
theorem tz_values_bounded : tzTableB.all (fun kv => kv.2.isEmpty ||
    (match tzValueOffset kv.2 with
     | some o => decide (-86400 < o ∧ o < 86400) && decide (kv.2.length ≤ 9)
     | none => false)) = true := by decide +kernel

/-- a table value that is not empty scans to its reference reading -/
theorem tz_named_scan {name v : Bytes} (hl : lookup tzTableB name = some v) (hv : v.isEmpty = false) (perm : Bool) :
    ∃ o, tzValueOffset v = some o ∧ tzScan perm v = some (o, []) ∧ -86400 < o ∧ o < 86400 ∧ AllNotBlank v ∧ v.length ≤ 9 := by
  have hm := lookup_mem hl
  have := List.all_eq_true.mp C04_tz_table (name, v) hm
  simp only [tzEntryOK, Bool.and_eq_true, Bool.or_eq_true, hv, Bool.false_eq_true, false_or] at this
  obtain ⟨⟨h1, _⟩, _⟩ := this
  cases ho : tzValueOffset v with
  | none => simp [ho] at h1
  | some o =>
    simp only [ho, Bool.and_eq_true, beq_iff_eq] at h1
    obtain ⟨⟨s1, s2⟩, nb⟩ := h1
    have hb : -86400 < o ∧ o < 86400 ∧ v.length ≤ 9 := by
      have := List.all_eq_true.mp tz_values_bounded (name, v) hm
      simp only [hv, Bool.false_or, ho, Bool.and_eq_true, decide_eq_true_eq] at this
      exact ⟨this.1.1, this.1.2, this.2⟩
    exact ⟨o, rfl, by cases perm; exact s1; exact s2, hb.1, hb.2.1, allNotBlank_of_notBlankB nb, hb.2.2⟩

theorem tz_piece (zk : DTFS_Tz) (c : Captures) (fbOff : Int) (hfb : FbOK' fbOff) (h : tzOK zk c.tz = true)
    (hr : tzRange zk c.tz = true) :
    ∃ zb, tzPiece zk c (offString fbOff) = some zb ∧ zb.length ≤ 9 ∧
      ∀ perm, (zk = .zp → perm = true) → TzPieceOK zk perm zb fbOff (tzVal zk c.tz fbOff) := by
  have hfbp := fun perm => fb_piece (fbOK_of_fbOK' hfb) perm
  cases zk with
  | fill =>
    refine ⟨offString fbOff, rfl, (hfbp true).1, fun perm _ => ?_⟩
    have := (hfbp perm).2
    cases c.tz <;> exact this
  | none_ =>
    refine ⟨[], rfl, by simp, fun perm _ => ⟨rfl, ?_⟩⟩
    cases c.tz <;> rfl
  | z =>
    cases hz : c.tz with
    | none => rw [hz] at h; simp [tzOK] at h
    | some t =>
      rw [hz] at h hr
      simp only [tzOK] at h; simp only [tzRange] at hr
      refine ⟨stripMinus t, by simp [tzPiece, hz], ?_, fun perm _ => ?_⟩
      · exact (tzNum_scan false _ h hr false (by simp)).2.2.2.2
      · obtain ⟨a, b, c', d, _⟩ := tzNum_scan false _ h hr perm (by simp)
        exact ⟨a, b, c', d⟩
  | zc =>
    cases hz : c.tz with
    | none => rw [hz] at h; simp [tzOK] at h
    | some t =>
      rw [hz] at h hr
      simp only [tzOK] at h; simp only [tzRange] at hr
      refine ⟨stripMinus t, by simp [tzPiece, hz], ?_, fun perm _ => ?_⟩
      · exact (tzNum_scan false _ h hr false (by simp)).2.2.2.2
      · obtain ⟨a, b, c', d, _⟩ := tzNum_scan false _ h hr perm (by simp)
        exact ⟨a, b, c', d⟩
  | zp =>
    cases hz : c.tz with
    | none => rw [hz] at h; simp [tzOK] at h
    | some t =>
      rw [hz] at h hr
      simp only [tzOK] at h; simp only [tzRange] at hr
      refine ⟨stripMinus t, by simp [tzPiece, hz], ?_, fun perm hp => ?_⟩
      · exact (tzNum_scan true _ h hr true (by simp)).2.2.2.2
      · obtain ⟨a, b, c', d, _⟩ := tzNum_scan true _ h hr perm (fun _ => hp rfl)
        exact ⟨a, b, c', d⟩
  | Z =>
    cases hz : c.tz with
    | none => rw [hz] at h; simp [tzOK] at h
    | some name =>
      have fbcase : ∀ perm, TzPieceOK .Z perm (offString fbOff) fbOff fbOff := by
        intro perm
        obtain ⟨s, l1, l2⟩ := fb_scan hfb perm
        exact ⟨s, l1, l2, (hfbp perm).2.2.1⟩
      cases hl : lookup tzTableB name with
      | none =>
        refine ⟨offString fbOff, by simp [tzPiece, hz, hl], (hfbp true).1, fun perm _ => ?_⟩
        simp only [tzVal, hl]; exact fbcase perm
      | some v =>
        cases hv : v.isEmpty with
        | true =>
          have hv' : v = [] := List.isEmpty_iff.mp hv
          refine ⟨offString fbOff, by simp [tzPiece, hz, hl, hv'], (hfbp true).1, fun perm _ => ?_⟩
          simp only [tzVal, hl, hv, if_true]; exact fbcase perm
        | false =>
          have hv' : ¬ v = [] := by intro e; rw [e] at hv; simp at hv
          refine ⟨v, by simp [tzPiece, hz, hl, hv'], (tz_named_scan hl hv true).choose_spec.2.2.2.2.2, fun perm _ => ?_⟩
          obtain ⟨o, ho, s, l1, l2, nb, _⟩ := tz_named_scan hl hv perm
          simp only [tzVal, hl, hv, Bool.false_eq_true, if_false, ho, Option.getD_some]
          exact ⟨s, l1, l2, nb⟩

/-! ### the join -/

/-- **well-shaped words with calendar values are attributed the instant they spell** — every generated date-time set -/
theorem C04_words_denote (name : String) (set : DTFSSet) (hmem : (name, set) ∈ allDTFSS) (hdt : set.epoch = .none_)
    (c : Captures) (fbOff : Int) (hfb : FbOK' fbOff) (fill : Option Int)
    (hs : shapeOK set c fill = true) (hr : rangeOK set c fill = true) :
    capturesToInstant set c fbOff fill = some (fieldsOf set c fbOff fill).instant := by
  have hcons : Consistent set := C04_sets_consistent (name, set) hmem
  obtain ⟨hday, hmin⟩ : set.day = .e_or_d ∧ set.minute = .M := by
    rcases hcons with ⟨_, _, _, hd, _, hm, _⟩ | ⟨he, _⟩
    · exact ⟨hd, hm⟩
    · rw [hdt] at he; cases he
  simp only [shapeOK, Bool.and_eq_true] at hs
  obtain ⟨⟨⟨⟨⟨⟨⟨sy, sm⟩, sd⟩, sh⟩, sn⟩, ss⟩, sf⟩, sz⟩ := hs
  simp only [rangeOK, Bool.and_eq_true, decide_eq_true_eq] at hr
  obtain ⟨⟨⟨⟨⟨⟨rm, rd⟩, rh⟩, rn⟩, rs⟩, rz⟩, rv⟩ := hr
  obtain ⟨yb, hyP, hy⟩ := year_piece set.year c fill sy
  obtain ⟨sb, hsP, hsOK⟩ := sec_piece set.second c ss rs
  obtain ⟨fb, hfP, hfOK⟩ := frac_piece set.fractional c sf
  obtain ⟨zb, hzP, hzl, hz⟩ := tz_piece set.tz c fbOff hfb sz rz
  have := C04_normalise_parse name set hmem hdt c fbOff fill yb sb fb zb
    (yearVal set.year c.year fill) (monthVal set.month c.month) (dayVal c.day) (numOptVal c.hour) (numOptVal c.minute)
    (secVal set.second c.second) (fracVal set.fractional c.fractional) (tzVal set.tz c.tz fbOff)
    hyP hy (month_piece set.month c sm) rm (by rw [hday]; exact day_piece c sd) rd (hour_piece set.hour c sh) rh
    (by rw [hmin]; exact minute_piece c sn) rn hsP hsOK hfP hfOK hzP hzl hz rv
  simpa [fieldsOf, Fields.instant] using this

end S4V.Lemmas.RegexE2E
