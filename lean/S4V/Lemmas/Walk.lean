/-
Lemmas about `S4V.Model.Walk` used by the C15 property theorems (`S4V.Props.WalkSpec`).
-/
import S4V.Model.Walk
import S4V.Lemmas.Path

namespace S4V.Lemmas.Walk
open S4V.Model.Walk S4V.Model.Path S4V.Model.PathTypes S4V.Lemmas.Path

/-! ### byte order -/

theorem bytesLe_refl : ∀ a : Bytes, bytesLe a a = true
  | [] => rfl
  | x :: xs => by simp [bytesLe, bytesLe_refl xs]

theorem bytesLe_total : ∀ a b : Bytes, bytesLe a b = true ∨ bytesLe b a = true
  | [], _ => by simp [bytesLe]
  | _ :: _, [] => by simp [bytesLe]
  | x :: xs, y :: ys => by
    simp only [bytesLe, Bool.or_eq_true, Bool.and_eq_true, decide_eq_true_eq, beq_iff_eq]
    rcases Nat.lt_trichotomy x.toNat y.toNat with h | h | h
    · exact Or.inl (Or.inl (UInt8.lt_iff_toNat_lt.mpr h))
    · have e : x = y := UInt8.toNat_inj.mp h
      subst e
      rcases bytesLe_total xs ys with h | h
      · exact Or.inl (Or.inr ⟨rfl, h⟩)
      · exact Or.inr (Or.inr ⟨rfl, h⟩)
    · exact Or.inr (Or.inl (UInt8.lt_iff_toNat_lt.mpr h))

theorem bytesLe_trans : ∀ a b c : Bytes, bytesLe a b = true → bytesLe b c = true → bytesLe a c = true
  | [], _, _, _, _ => by simp [bytesLe]
  | _ :: _, [], _, h, _ => by simp [bytesLe] at h
  | _ :: _, _ :: _, [], _, h => by simp [bytesLe] at h
  | x :: xs, y :: ys, z :: zs, h1, h2 => by
    simp only [bytesLe, Bool.or_eq_true, Bool.and_eq_true, decide_eq_true_eq, beq_iff_eq] at h1 h2 ⊢
    rcases h1 with h1 | ⟨e1, h1⟩ <;> rcases h2 with h2 | ⟨e2, h2⟩
    · exact Or.inl (UInt8.lt_iff_toNat_lt.mpr (Nat.lt_trans (UInt8.lt_iff_toNat_lt.mp h1) (UInt8.lt_iff_toNat_lt.mp h2)))
    · subst e2; exact Or.inl h1
    · subst e1; exact Or.inl h2
    · subst e1; subst e2; exact Or.inr ⟨rfl, bytesLe_trans xs ys zs h1 h2⟩

theorem bytesLe_antisymm : ∀ a b : Bytes, bytesLe a b = true → bytesLe b a = true → a = b
  | [], [], _, _ => rfl
  | [], _ :: _, _, h => by simp [bytesLe] at h
  | _ :: _, [], h, _ => by simp [bytesLe] at h
  | x :: xs, y :: ys, h1, h2 => by
    simp only [bytesLe, Bool.or_eq_true, Bool.and_eq_true, decide_eq_true_eq, beq_iff_eq] at h1 h2
    rcases h1 with h1 | ⟨e1, h1⟩ <;> rcases h2 with h2 | ⟨e2, h2⟩
    · exact absurd (UInt8.lt_iff_toNat_lt.mp h1) (Nat.lt_asymm (UInt8.lt_iff_toNat_lt.mp h2))
    · subst e2; exact absurd (UInt8.lt_iff_toNat_lt.mp h1) (Nat.lt_irrefl _)
    · subst e1; exact absurd (UInt8.lt_iff_toNat_lt.mp h2) (Nat.lt_irrefl _)
    · subst e1; rw [bytesLe_antisymm xs ys h1 h2]

theorem bytesLt_irrefl (a : Bytes) : bytesLt a a = false := by simp [bytesLt, bytesLe_refl]

theorem bytesLt_of_le_ne (a b : Bytes) (h : bytesLe a b = true) (hne : a ≠ b) : bytesLt a b = true := by
  unfold bytesLt
  cases hb : bytesLe b a
  · rfl
  · exact absurd (bytesLe_antisymm a b h hb) hne

theorem bytesLt_le (a b : Bytes) (h : bytesLt a b = true) : bytesLe a b = true := by
  unfold bytesLt at h
  rcases bytesLe_total a b with h' | h'
  · exact h'
  · simp [h'] at h

theorem bytesLt_trans (a b c : Bytes) (h1 : bytesLt a b = true) (h2 : bytesLt b c = true) :
    bytesLt a c = true := by
  unfold bytesLt
  cases hca : bytesLe c a
  · rfl
  · -- c ≤ a ≤ b contradicts b < c
    have : bytesLe c b = true := bytesLe_trans c a b hca (bytesLt_le a b h1)
    simp [bytesLt, this] at h2

theorem bytesLt_asymm (a b : Bytes) (h1 : bytesLt a b = true) : bytesLt b a = false := by
  simp [bytesLt, bytesLt_le a b h1]

/-! ### path order -/

theorem pathLt_irrefl : ∀ p : List Bytes, pathLt p p = false
  | [] => rfl
  | a :: as => by simp [pathLt, bytesLt_irrefl, pathLt_irrefl as]

theorem pathLt_trans : ∀ p q r : List Bytes, pathLt p q = true → pathLt q r = true → pathLt p r = true
  | [], [], _, h, _ => by simp [pathLt] at h
  | [], _ :: _, [], _, h => by simp [pathLt] at h
  | [], _ :: _, _ :: _, _, _ => by simp [pathLt]
  | _ :: _, [], _, h, _ => by simp [pathLt] at h
  | _ :: _, _ :: _, [], _, h => by simp [pathLt] at h
  | a :: as, b :: bs, c :: cs, h1, h2 => by
    simp only [pathLt, Bool.or_eq_true, Bool.and_eq_true, beq_iff_eq] at h1 h2 ⊢
    rcases h1 with h1 | ⟨e1, h1⟩ <;> rcases h2 with h2 | ⟨e2, h2⟩
    · exact Or.inl (bytesLt_trans a b c h1 h2)
    · subst e2; exact Or.inl h1
    · subst e1; exact Or.inl h2
    · subst e1; subst e2; exact Or.inr ⟨rfl, pathLt_trans as bs cs h1 h2⟩

theorem pathLt_asymm (p q : List Bytes) (h : pathLt p q = true) : pathLt q p = false := by
  cases h' : pathLt q p
  · rfl
  · have := pathLt_trans p q p h h'
    simp [pathLt_irrefl] at this

theorem pathLt_cons (n : Bytes) (p q : List Bytes) : pathLt (n :: p) (n :: q) = pathLt p q := by
  simp [pathLt, bytesLt_irrefl]

theorem pathLt_of_head (a b : Bytes) (p q : List Bytes) (h : bytesLt a b = true) :
    pathLt (a :: p) (b :: q) = true := by
  simp [pathLt, h]

theorem pathLt_append (par p q : List Bytes) : pathLt (par ++ p) (par ++ q) = pathLt p q := by
  induction par with
  | nil => rfl
  | cons a as ih => simp [pathLt_cons, ih]

/-- two strictly sorted arrangements of the same paths are the same list -/
theorem sorted_perm_eq {l₁ l₂ : List (List Bytes)} (h₁ : l₁.Pairwise (fun p q => pathLt p q = true))
    (h₂ : l₂.Pairwise (fun p q => pathLt p q = true)) (hp : l₁.Perm l₂) : l₁ = l₂ :=
  List.Perm.eq_of_pairwise (le := fun p q => pathLt p q = true)
    (fun a b _ _ hab hba => by simp [pathLt_asymm a b hab] at hba) h₁ h₂ hp

/-! ### sorting blocks -/

theorem insertBlock_perm (x : Block) : ∀ l : List Block, (insertBlock x l).Perm (x :: l)
  | [] => List.Perm.refl _
  | y :: ys => by
    unfold insertBlock
    split
    · exact List.Perm.refl _
    · exact ((insertBlock_perm x ys).cons y).trans (List.Perm.swap x y ys)

theorem sortBlocks_perm : ∀ l : List Block, (sortBlocks l).Perm l
  | [] => List.Perm.refl _
  | x :: xs => (insertBlock_perm x (sortBlocks xs)).trans ((sortBlocks_perm xs).cons x)

def keyLe (a b : Block) : Prop := bytesLe a.1 b.1 = true

theorem insertBlock_sorted (x : Block) : ∀ l : List Block, l.Pairwise keyLe → (insertBlock x l).Pairwise keyLe
  | [], _ => by simp [insertBlock]
  | y :: ys, h => by
    unfold insertBlock
    have hy := List.pairwise_cons.mp h
    split
    · rename_i hxy
      refine List.pairwise_cons.mpr ⟨?_, h⟩
      intro z hz
      rcases List.mem_cons.mp hz with rfl | hz
      · exact hxy
      · exact bytesLe_trans _ _ _ hxy (hy.1 z hz)
    · rename_i hxy
      have hyx : bytesLe y.1 x.1 = true := by
        rcases bytesLe_total x.1 y.1 with h' | h'
        · exact absurd h' hxy
        · exact h'
      refine List.pairwise_cons.mpr ⟨?_, insertBlock_sorted x ys hy.2⟩
      intro z hz
      rcases List.mem_cons.mp ((insertBlock_perm x ys).mem_iff.mp hz) with rfl | hz
      · exact hyx
      · exact hy.1 z hz

theorem sortBlocks_sorted : ∀ l : List Block, (sortBlocks l).Pairwise keyLe
  | [] => List.Pairwise.nil
  | x :: xs => insertBlock_sorted x _ (sortBlocks_sorted xs)

/-- distinct keys: the sorted blocks are strictly increasing by key -/
theorem sortBlocks_strict (l : List Block) (hd : (l.map (·.1)).Nodup) :
    (sortBlocks l).Pairwise (fun a b => bytesLt a.1 b.1 = true) := by
  have hne : (sortBlocks l).Pairwise (fun a b => a.1 ≠ b.1) := by
    have : ((sortBlocks l).map (·.1)).Nodup := ((sortBlocks_perm l).map (·.1)).nodup_iff.mpr hd
    exact List.pairwise_map.mp this
  exact ((sortBlocks_sorted l).and hne).imp (fun {a b} h => bytesLt_of_le_ne a.1 b.1 h.1 h.2)

theorem flatten_sortBlocks_perm (l : List Block) : (flatten (sortBlocks l)).Perm (flatten l) :=
  (sortBlocks_perm l).flatMap_right _

/-! ### structure of the walk -/

theorem walkN_head (ih : Bool) : ∀ (c : Node) (p : List Bytes), p ∈ walkN ih c → ∃ q, p = c.name :: q
  | .file n, p, h => by
    simp [walkN] at h
    exact ⟨[], by simp [h, Node.name]⟩
  | .dir n cs, p, h => by
    simp only [walkN, List.mem_map] at h
    obtain ⟨q, _, rfl⟩ := h
    exact ⟨q, rfl⟩

theorem walkL_mem (ih : Bool) : ∀ (cs : List Node) (b : Block), b ∈ walkL ih cs →
    ∃ c, c ∈ cs ∧ b = (c.name, walkN ih c)
  | [], b, h => by simp [walkL] at h
  | c :: cs, b, h => by
    simp only [walkL, List.mem_append] at h
    rcases h with h | h
    · split at h
      · simp at h; exact ⟨c, by simp, h⟩
      · simp at h
    · obtain ⟨c', hc', e⟩ := walkL_mem ih cs b h
      exact ⟨c', List.mem_cons_of_mem _ hc', e⟩

theorem walkL_keys_sublist (ih : Bool) : ∀ cs : List Node,
    ((walkL ih cs).map (·.1)).Sublist (cs.map Node.name)
  | [] => by simp [walkL]
  | c :: cs => by
    simp only [walkL, List.map_append, List.map_cons]
    split
    · simpa using (walkL_keys_sublist ih cs).cons_cons c.name
    · simpa using (walkL_keys_sublist ih cs).cons c.name

theorem namesDistinct_nodup : ∀ ns : List Bytes, namesDistinct ns = true → ns.Nodup
  | [], _ => List.nodup_nil
  | n :: ns, h => by
    simp only [namesDistinct, Bool.and_eq_true, Bool.not_eq_true', List.contains_eq_mem,
      decide_eq_false_iff_not] at h
    exact List.nodup_cons.mpr ⟨h.1, namesDistinct_nodup ns h.2⟩

theorem nodup_namesDistinct : ∀ ns : List Bytes, ns.Nodup → namesDistinct ns = true
  | [], _ => rfl
  | n :: ns, h => by
    have h' := List.nodup_cons.mp h
    simp [namesDistinct, h'.1, nodup_namesDistinct ns h'.2]

abbrev PLt (p q : List Bytes) : Prop := pathLt p q = true

/-- assembling a directory's listing from sorted blocks -/
theorem dir_sorted (n : Bytes) (bs : List Block)
    (hkeys : (bs.map (·.1)).Nodup)
    (hhead : ∀ b ∈ bs, ∀ p ∈ b.2, ∃ q, p = b.1 :: q)
    (hin : ∀ b ∈ bs, b.2.Pairwise PLt) :
    ((flatten (sortBlocks bs)).map (n :: ·)).Pairwise PLt := by
  refine List.Pairwise.map _ (fun a b h => by simpa [PLt, pathLt_cons] using h) ?_
  unfold flatten
  refine List.pairwise_flatMap.mpr ⟨?_, ?_⟩
  · intro b hb
    exact hin b ((sortBlocks_perm bs).mem_iff.mp hb)
  · have hs := sortBlocks_strict bs hkeys
    have hmem : ∀ b ∈ sortBlocks bs, b ∈ bs := fun b hb => (sortBlocks_perm bs).mem_iff.mp hb
    -- strengthen with membership
    have : (sortBlocks bs).Pairwise (fun a b => (a ∈ bs ∧ b ∈ bs) ∧ bytesLt a.1 b.1 = true) := by
      have hm : (sortBlocks bs).Pairwise (fun a b => a ∈ bs ∧ b ∈ bs) :=
        List.pairwise_of_forall_mem_list (fun a ha b hb => ⟨hmem a ha, hmem b hb⟩)
      exact hm.and hs
    refine this.imp ?_
    intro a b ⟨⟨ha, hb⟩, hlt⟩ x hx y hy
    obtain ⟨qx, rfl⟩ := hhead a ha x hx
    obtain ⟨qy, rfl⟩ := hhead b hb y hy
    exact pathLt_of_head _ _ _ _ hlt

mutual
theorem walkN_sorted (ih : Bool) : ∀ t : Node, okN t = true → (walkN ih t).Pairwise PLt
  | .file n, _ => by simp [walkN]
  | .dir n cs, h => by
    simp only [okN, Bool.and_eq_true] at h
    unfold walkN
    refine dir_sorted n (walkL ih cs) ?_ ?_ (walkL_sorted ih cs h.2)
    · exact (walkL_keys_sublist ih cs).nodup (namesDistinct_nodup _ h.1)
    · intro b hb p hp
      obtain ⟨c, _, rfl⟩ := walkL_mem ih cs b hb
      exact walkN_head ih c p hp
theorem walkL_sorted (ih : Bool) : ∀ cs : List Node, okL cs = true → ∀ b ∈ walkL ih cs, b.2.Pairwise PLt
  | [], _ => by simp [walkL]
  | c :: cs, h => by
    simp only [okL, Bool.and_eq_true] at h
    intro b hb
    simp only [walkL, List.mem_append] at hb
    rcases hb with hb | hb
    · split at hb
      · simp at hb; subst hb; exact walkN_sorted ih c h.1
      · simp at hb
    · exact walkL_sorted ih cs h.2 b hb
end

/-! ### completeness -/

mutual
theorem walkN_perm : ∀ t : Node, (walkN true t).Perm (filesN t)
  | .file n => by simp [walkN, filesN]
  | .dir n cs => by
    unfold walkN filesN
    exact ((flatten_sortBlocks_perm _).trans (walkL_perm cs)).map _
theorem walkL_perm : ∀ cs : List Node, (flatten (walkL true cs)).Perm (filesL cs)
  | [] => by simp [walkL, filesL, flatten]
  | c :: cs => by
    simp only [walkL, filesL, flatten, Bool.true_or, if_true, List.flatMap_append, List.flatMap_cons,
      List.flatMap_nil, List.append_nil]
    exact (walkN_perm c).append (walkL_perm cs)
end

mutual
theorem walkN_noHidden (ih : Bool) : ∀ t : Node, noHiddenN t = true → walkN ih t = walkN true t
  | .file n, _ => by simp [walkN]
  | .dir n cs, h => by
    simp only [noHiddenN] at h
    unfold walkN
    rw [walkL_noHidden ih cs h]
theorem walkL_noHidden (ih : Bool) : ∀ cs : List Node, noHiddenL cs = true → walkL ih cs = walkL true cs
  | [], _ => by simp [walkL]
  | c :: cs, h => by
    simp only [noHiddenL, Bool.and_eq_true, Bool.not_eq_true'] at h
    simp only [walkL, h.1.1, Bool.not_false, Bool.or_true, if_true]
    rw [walkN_noHidden ih c h.1.2, walkL_noHidden ih cs h.2]
end

theorem walkN_ne_nil (ih : Bool) (t : Node) : ∀ p ∈ walkN ih t, p ≠ [] := by
  intro p hp
  obtain ⟨q, rfl⟩ := walkN_head ih t p hp
  simp

/-! ### classification of walked vs. named files -/

/-- the walked file is kept (not `Unparsable`) -/
def keep (p : List Bytes) : Bool :=
  match classify (p.getLastD []) false with
  | some r => r.kind != .unparsable
  | none => false

theorem classifyWalked_attempted (p : List Bytes) : (classifyWalked p).out.attempted = keep p := by
  unfold classifyWalked keep
  cases h : classify (p.getLastD []) false with
  | none => rfl
  | some r =>
    obtain ⟨k, a⟩ := r
    cases k <;> simp [Outcome.attempted]

theorem classifyWalked_eq_named (par p : List Bytes) (h : keep p = true) :
    (⟨par ++ p, (classifyWalked p).out⟩ : Entry) = classifyNamed (par ++ p) (p.getLastD []) := by
  unfold keep at h
  cases hc : classify (p.getLastD []) false with
  | none => rw [hc] at h; exact absurd h (by decide)
  | some r =>
    rw [hc] at h
    have hne : r.kind ≠ .unparsable := by simpa using h
    have ht := classify_false_true _ r hc hne
    unfold classifyWalked classifyNamed
    rw [hc, ht]
    obtain ⟨k, a⟩ := r
    cases k <;> simp_all

theorem classifyNamed_attempted (p : List Bytes) (c : Bytes) : (classifyNamed p c).out.attempted = true := by
  unfold classifyNamed
  have hs := classify_isSome c true
  cases h : classify c true with
  | none => simp [h] at hs
  | some r =>
    obtain ⟨k, a⟩ := r
    cases k <;> simp [Outcome.attempted]

/-! ### `-` -/

theorem spliceAux_seen (stdin : List Bytes) : ∀ args, spliceAux stdin true args = args.filter (· ≠ DASH)
  | [] => rfl
  | a :: rest => by
    unfold spliceAux
    by_cases h : a = DASH
    · simp [h, spliceAux_seen stdin rest]
    · simp [h, spliceAux_seen stdin rest]

theorem spliceAux_prefix (stdin : List Bytes) (seen : Bool) : ∀ (pre rest : List Bytes), DASH ∉ pre →
    spliceAux stdin seen (pre ++ rest) = pre ++ spliceAux stdin seen rest
  | [], _, _ => rfl
  | a :: pre, rest, h => by
    have ha : a ≠ DASH := fun e => h (by simp [e])
    have hp : DASH ∉ pre := fun e => h (List.mem_cons_of_mem _ e)
    simp only [List.cons_append]
    rw [spliceAux]
    simp [ha, spliceAux_prefix stdin seen pre rest hp]

theorem filter_ne_of_not_mem (l : List Bytes) (h : DASH ∉ l) : l.filter (· ≠ DASH) = l := by
  apply List.filter_eq_self.mpr
  intro a ha
  simp only [ne_eq, decide_not, Bool.not_eq_eq_eq_not, Bool.not_true, decide_eq_false_iff_not]
  exact fun e => h (e ▸ ha)

end S4V.Lemmas.Walk
