/-
A reflective procedure for predicting what the backtracking matcher `S4V.Model.Regex.m` does on
inputs of a known SHAPE (used by `S4V.Lemmas.RegexRows` / `S4V.Props.RegexCapture2` to cover many
rows of `DATETIME_PARSE_DATAS` cheaply).

* `Sym`            a set of bytes (inclusive ranges of `toNat`); a symbolic word `List Sym` stands for
                   every byte string whose i-th byte lies in the i-th set (`Conc`)
* `am F a …`       the matcher `m` re-run on a symbolic word that is followed by an UNKNOWN rest of
                   which only the first byte is constrained (`TailF F`: the rest is empty or starts with
                   a byte of `F`). Three-valued: `.done` (the first-priority complete path ends where the
                   top continuation accepts), `.fail` (no path can complete, whatever the rest), `.unk`
                   (the outcome depends on bytes the shape does not determine — never trusted)
* `am_sound`       `am` simulates `m` for every concretisation of the word and every admissible rest
* `step_of_am`     hence a `Step` of the calculus of `S4V.Lemmas.RegexStep`, for any start position and
                   any capture slots already present (positions are relative: `shc` shifts them)
* `Piece`/`rowOk`/`row_step`   a row = concatenation of pieces, each with a finite catalogue of
                   symbolic words; ONE decidable check (`rowOk`, run by `decide +kernel` per row) gives the
                   `Step` through the whole concatenation for EVERY choice of words: the follow set of a
                   piece is computed from the first bytes of the pieces after it
-/
import S4V.Model.Regex
import S4V.Lemmas.RegexStep

namespace S4V.Lemmas.RegexSym
open S4V.Model.Regex S4V.Lemmas.RegexStep

abbrev Sym := List (Nat × Nat)

def symHas (s : Sym) (b : UInt8) : Bool := inRanges s b.toNat

inductive R where
  | fail | unk | done
deriving DecidableEq, Repr

abbrev AK := Nat → List Sym → Caps → R

def asciiOnly (s : List (Nat × Nat)) : Bool := s.all (fun r => decide (r.2 < 128))

/-- every byte of `s` is ASCII and a member of the class -/
def subCls (s : Sym) (rs : List (Nat × Nat)) : Bool :=
  asciiOnly s && (List.range 128).all (fun n => !inRanges s n || inRanges rs n)

/-- every byte of `s` is ASCII and none is a member of the class -/
def disjCls (s : Sym) (rs : List (Nat × Nat)) : Bool :=
  asciiOnly s && (List.range 128).all (fun n => !(inRanges s n && inRanges rs n))

/-- no byte of the follow set can begin a member of the class -/
def follFails (F : Sym) (rs : List (Nat × Nat)) : Bool :=
  (List.range 128).all (fun n => !(inRanges F n && inRanges rs n)) && (asciiOnly F || asciiOnly rs)

inductive LitR where
  | ok (rest : List Sym) | fail | unk

def amLit (F : Sym) : List UInt8 → List Sym → LitR
  | [], rest => .ok rest
  | b :: _, [] => if symHas F b then .unk else .fail
  | b :: bs, s :: rest =>
    if s == [(b.toNat, b.toNat)] then amLit F bs rest
    else if symHas s b then .unk else .fail

def amRep (body : Nat → List Sym → Caps → AK → R) (bounded : Bool) :
    Nat → Nat → Nat → List Sym → Caps → AK → R
  | 0, need, pos, rest, caps, k =>
    if bounded then (if need = 0 then k pos rest caps else .fail) else .unk
  | f + 1, need, pos, rest, caps, k =>
    if need = 0 then
      match body pos rest caps (fun p r c => amRep body bounded f 0 p r c k) with
      | .fail => k pos rest caps
      | .unk => .unk
      | .done => .done
    else body pos rest caps (fun p r c => amRep body bounded f (need - 1) p r c k)

def am (F : Sym) : Re → Nat → List Sym → Caps → AK → R
  | .eps, pos, rest, caps, k => k pos rest caps
  | .lit bs, pos, rest, caps, k =>
    match amLit F bs rest with
    | .ok rest' => k (pos + bs.length) rest' caps
    | .fail => .fail
    | .unk => .unk
  | .cls rs, pos, rest, caps, k =>
    match rest with
    | [] => if follFails F rs then .fail else .unk
    | s :: rest' =>
      if subCls s rs then k (pos + 1) rest' caps
      else if disjCls s rs then .fail else .unk
  | .cat a b, pos, rest, caps, k => am F a pos rest caps (fun p r c => am F b p r c k)
  | .alt a b, pos, rest, caps, k =>
    match am F a pos rest caps k with
    | .fail => am F b pos rest caps k
    | .unk => .unk
    | .done => .done
  | .rep r lo hi, pos, rest, caps, k =>
    amRep (fun p r' c k' => am F r p r' c k') hi.isSome
      (match hi with | some h => h | none => lo + rest.length + 1) lo pos rest caps k
  | .group i r, pos, rest, caps, k => am F r pos rest caps (fun p r' c => k p r' ((i, pos, p) :: c))
  | .bol, _, _, _, _ => .unk
  | .eol, pos, rest, caps, k =>
    match rest with
    | [] => if F.isEmpty then k pos rest caps else .unk
    | _ :: _ => .fail

/-! ### soundness -/

/-- shift relative capture positions by `p0` -/
def shc (p0 : Nat) (c : Caps) : Caps := c.map (fun e => (e.1, p0 + e.2.1, p0 + e.2.2))

def Conc : List Sym → List UInt8 → Prop
  | [], [] => True
  | s :: ss, b :: w => symHas s b = true ∧ Conc ss w
  | [], _ :: _ => False
  | _ :: _, [] => False

def TailF (F : Sym) (r : List UInt8) : Prop := ∀ x t, r = x :: t → symHas F x = true

theorem conc_nil {w : List UInt8} (h : Conc [] w) : w = [] := by
  cases w with
  | nil => rfl
  | cons _ _ => exact absurd h (by simp [Conc])

theorem conc_cons {s : Sym} {ss : List Sym} {w : List UInt8} (h : Conc (s :: ss) w) :
    ∃ b w', w = b :: w' ∧ symHas s b = true ∧ Conc ss w' := by
  cases w with
  | nil => exact absurd h (by simp [Conc])
  | cons b w' => exact ⟨b, w', rfl, h.1, h.2⟩

theorem conc_length : ∀ {syms : List Sym} {w : List UInt8}, Conc syms w → syms.length = w.length := by
  intro syms
  induction syms with
  | nil => intro w h; simp [conc_nil h]
  | cons s ss ih =>
    intro w h
    obtain ⟨b, w', rfl, _, h2⟩ := conc_cons h
    simp [ih h2]

def Sim (p0 : Nat) (c0 : Caps) (r : List UInt8) (res : Res) (ka : AK) (k : K) : Prop :=
  ∀ p syms c w, Conc syms w →
    (ka p syms c = .fail → k (p0 + p) (w ++ r) (shc p0 c ++ c0) = none) ∧
    (ka p syms c = .done → k (p0 + p) (w ++ r) (shc p0 c ++ c0) = some res)

theorem inRanges_asciiOnly {s : List (Nat × Nat)} {n : Nat} (ha : asciiOnly s = true) (h : inRanges s n = true) :
    n < 128 := by
  simp only [inRanges, List.any_eq_true, Bool.and_eq_true, decide_eq_true_eq] at h
  obtain ⟨e, he, _, h2⟩ := h
  have := List.all_eq_true.mp ha e he
  simp only [decide_eq_true_eq] at this
  omega

theorem asciiOnly_not_inRanges {s : List (Nat × Nat)} {n : Nat} (ha : asciiOnly s = true) (h : 128 ≤ n) :
    inRanges s n = false := by
  cases hh : inRanges s n with
  | false => rfl
  | true => have := inRanges_asciiOnly ha hh; omega

theorem all_range {f : Nat → Bool} {n k : Nat} (h : (List.range n).all f = true) (hk : k < n) : f k = true :=
  List.all_eq_true.mp h k (List.mem_range.mpr hk)

/-- a non-ASCII lead byte never decodes to an ASCII scalar -/
theorem decode_nonascii {x : UInt8} {t : List UInt8} {c n : Nat} (hx : 128 ≤ x.toNat)
    (h : decode (x :: t) = some (c, n)) : 128 ≤ c := by
  simp only [decode] at h
  split at h
  · omega
  · split at h
    · cases h
    · split at h
      · split at h
        · split at h
          · simp only [Option.some.injEq, Prod.mk.injEq] at h
            omega
          · cases h
        · cases h
      · split at h
        · split at h
          · split at h
            · split at h
              · rename_i hc
                simp only [Option.some.injEq, Prod.mk.injEq] at h
                simp only [Bool.and_eq_true, decide_eq_true_eq] at hc
                omega
              · cases h
            · cases h
          · cases h
        · split at h
          · split at h
            · split at h
              · split at h
                · rename_i hc
                  simp only [Option.some.injEq, Prod.mk.injEq] at h
                  simp only [Bool.and_eq_true, decide_eq_true_eq] at hc
                  omega
                · cases h
              · cases h
            · cases h
          · cases h

theorem cls_follFails {F : Sym} {rs : List (Nat × Nat)} {r : List UInt8} (hr : TailF F r)
    (h : follFails F rs = true) (p : Nat) (c : Caps) (k : K) : m (.cls rs) p r c k = none := by
  simp only [follFails, Bool.and_eq_true, Bool.or_eq_true] at h
  obtain ⟨h1, h2⟩ := h
  cases r with
  | nil => simp [m, decode]
  | cons x t =>
    have hx := hr x t rfl
    unfold symHas at hx
    by_cases hlt : x.toNat < 128
    · have := all_range h1 hlt
      simp only [hx, Bool.true_and, Bool.not_eq_true'] at this
      simp [m, decode_ascii_cons hlt, this]
    · have hge : 128 ≤ x.toNat := by omega
      rcases h2 with h2 | h2
      · have := inRanges_asciiOnly h2 hx; omega
      · simp only [m]
        cases hd : decode (x :: t) with
        | none => rfl
        | some cn =>
          obtain ⟨cc, n⟩ := cn
          have := decode_nonascii hge hd
          simp [asciiOnly_not_inRanges h2 this]

theorem symHas_single {b x : UInt8} (h : symHas [(b.toNat, b.toNat)] x = true) : x = b := by
  simp only [symHas, inRanges, List.any_cons, List.any_nil, Bool.or_false, Bool.and_eq_true,
    decide_eq_true_eq] at h
  exact UInt8.toNat_inj.mp (by omega)

theorem amLit_sound {F : Sym} {r : List UInt8} (hr : TailF F r) :
    ∀ (bs : List UInt8) (syms : List Sym) (w : List UInt8), Conc syms w →
      (∀ rest', amLit F bs syms = .ok rest' → ∃ w', w = bs ++ w' ∧ Conc rest' w') ∧
      (amLit F bs syms = .fail → isPrefix bs (w ++ r) = false) := by
  intro bs
  induction bs with
  | nil =>
    intro syms w hw
    refine ⟨fun rest' h => ?_, fun h => ?_⟩
    · simp only [amLit, LitR.ok.injEq] at h
      subst h
      exact ⟨w, rfl, hw⟩
    · simp [amLit] at h
  | cons b bs ih =>
    intro syms w hw
    cases syms with
    | nil =>
      have := conc_nil hw
      subst this
      refine ⟨fun rest' h => ?_, fun h => ?_⟩
      · simp only [amLit] at h
        split at h <;> cases h
      · simp only [amLit] at h
        split at h
        · cases h
        · rename_i hF
          cases r with
          | nil => simp [isPrefix]
          | cons x t =>
            have hx := hr x t rfl
            have : b ≠ x := by
              intro e; subst e; exact hF hx
            simp [isPrefix, this]
    | cons s ss =>
      obtain ⟨x, w', rfl, hsx, hw'⟩ := conc_cons hw
      simp only [amLit]
      split
      · rename_i hs
        have hs' : s = [(b.toNat, b.toNat)] := by simpa using hs
        subst hs'
        have hxb : x = b := symHas_single hsx
        subst hxb
        obtain ⟨i1, i2⟩ := ih ss w' hw'
        refine ⟨fun rest' h => ?_, fun h => ?_⟩
        · obtain ⟨w'', e, hc⟩ := i1 rest' h
          exact ⟨w'', by simp [e], hc⟩
        · simpa [isPrefix] using i2 h
      · split
        · exact ⟨fun rest' h => (by cases h), fun h => (by cases h)⟩
        · rename_i hsb
          refine ⟨fun rest' h => (by cases h), fun _ => ?_⟩
          have : b ≠ x := by
            intro e; subst e; exact hsb hsx
          simp [isPrefix, this]

theorem isPrefix_append_self (bs t : List UInt8) : isPrefix bs (bs ++ t) = true := isPrefix_self_append bs t

section sound
variable {F : Sym} {r : List UInt8} {p0 : Nat} {c0 : Caps} {res : Res}

/-- what `am_sound` says of one regex (or loop): it turns simulating continuations into simulating runs -/
def Lifts (p0 : Nat) (c0 : Caps) (r : List UInt8) (res : Res)
    (fa : Nat → List Sym → Caps → AK → R) (f : Nat → List UInt8 → Caps → K → Option Res) : Prop :=
  ∀ (ka : AK) (k : K), Sim p0 c0 r res ka k →
    Sim p0 c0 r res (fun p s c => fa p s c ka) (fun p i c => f p i c k)

theorem amRep_sound {ba : Nat → List Sym → Caps → AK → R} {body : Nat → List UInt8 → Caps → K → Option Res}
    (hb : Lifts p0 c0 r res ba body) (bounded : Bool) (ka : AK) (k : K) (hk : Sim p0 c0 r res ka k) :
    ∀ (f f2 need : Nat), (bounded = true → f2 = f) → f ≤ f2 →
      Sim p0 c0 r res (fun p s c => amRep ba bounded f need p s c ka) (fun p i c => repLoop body f2 need p i c k) := by
  intro f
  induction f with
  | zero =>
    intro f2 need hbd _ p syms c w hw
    cases bounded with
    | false => simp [amRep]
    | true =>
      have : f2 = 0 := hbd rfl
      subst this
      simp only [amRep, ↓reduceIte, repLoop]
      split
      · exact hk p syms c w hw
      · simp
  | succ f ih =>
    intro f2 need hbd hle p syms c w hw
    obtain ⟨f2', rfl⟩ : ∃ f2', f2 = f2' + 1 := ⟨f2 - 1, by omega⟩
    have hbd' : bounded = true → f2' = f := fun h => by have := hbd h; omega
    have hle' : f ≤ f2' := by omega
    simp only [amRep, repLoop]
    split
    · -- need = 0
      have inner := hb _ _ (ih f2' 0 hbd' hle') p syms c w hw
      simp only at inner
      cases hres : ba p syms c (fun p r c => amRep ba bounded f 0 p r c ka) with
      | fail =>
        rw [inner.1 hres]
        exact hk p syms c w hw
      | unk => simp
      | done =>
        rw [inner.2 hres]
        simp
    · exact hb _ _ (ih f2' (need - 1) hbd' hle') p syms c w hw

theorem am_sound (hr : TailF F r) (a : Re) : Lifts p0 c0 r res (am F a) (m a) := by
  induction a with
  | eps =>
    intro ka k hk p syms c w hw
    simpa [am, m] using hk p syms c w hw
  | lit bs =>
    intro ka k hk p syms c w hw
    obtain ⟨l1, l2⟩ := amLit_sound hr bs syms w hw
    simp only [am, m]
    cases hl : amLit F bs syms with
    | ok rest' =>
      obtain ⟨w', e, hc⟩ := l1 rest' hl
      subst e
      simp only [List.append_assoc, isPrefix_self_append, ↓reduceIte, List.drop_left']
      have := hk (p + bs.length) rest' c w' hc
      simpa [Nat.add_assoc] using this
    | fail => simp [l2 hl]
    | unk => simp
  | cls rs =>
    intro ka k hk p syms c w hw
    cases syms with
    | nil =>
      have := conc_nil hw
      subst this
      simp only [am]
      split
      · rename_i hf
        simp [cls_follFails hr hf]
      · simp
    | cons s ss =>
      obtain ⟨x, w', rfl, hsx, hw'⟩ := conc_cons hw
      unfold symHas at hsx
      simp only [am]
      split
      · rename_i hsub
        simp only [subCls, Bool.and_eq_true] at hsub
        have hlt := inRanges_asciiOnly hsub.1 hsx
        have hin := all_range hsub.2 hlt
        simp only [hsx, Bool.not_true, Bool.false_or] at hin
        simp only [m, List.cons_append, decode_ascii_cons hlt, hin, ↓reduceIte, List.drop_succ_cons, List.drop_zero]
        have := hk (p + 1) ss c w' hw'
        simpa [Nat.add_assoc] using this
      · split
        · rename_i hdis
          simp only [disjCls, Bool.and_eq_true] at hdis
          have hlt := inRanges_asciiOnly hdis.1 hsx
          have hin := all_range hdis.2 hlt
          simp only [hsx, Bool.true_and, Bool.not_eq_true'] at hin
          simp [m, decode_ascii_cons hlt, hin]
        · simp
  | cat a b iha ihb =>
    intro ka k hk p syms c w hw
    simp only [am, m]
    exact iha _ _ (ihb ka k hk) p syms c w hw
  | alt a b iha ihb =>
    intro ka k hk p syms c w hw
    have ha := iha ka k hk p syms c w hw
    have hb := ihb ka k hk p syms c w hw
    simp only at ha hb
    simp only [am, m]
    cases hres : am F a p syms c ka with
    | fail =>
      rw [ha.1 hres]
      exact hb
    | unk => simp
    | done =>
      rw [ha.2 hres]
      simp
  | rep a lo hi ih =>
    intro ka k hk p syms c w hw
    simp only [am, m]
    have hlen := conc_length hw
    cases hi with
    | none =>
      exact amRep_sound ih false ka k hk _ _ lo (by simp) (by simp [hlen]) p syms c w hw
    | some h =>
      exact amRep_sound ih true ka k hk _ _ lo (by simp) (by simp) p syms c w hw
  | group i a ih =>
    intro ka k hk p syms c w hw
    simp only [am, m]
    refine ih _ _ ?_ p syms c w hw
    intro p' syms' c' w' hw'
    have := hk p' syms' ((i, p, p') :: c') w' hw'
    simpa [shc] using this
  | bol =>
    intro ka k hk p syms c w hw
    simp [am]
  | eol =>
    intro ka k hk p syms c w hw
    cases syms with
    | nil =>
      have := conc_nil hw
      subst this
      simp only [am]
      split
      · rename_i hF
        have hFn : F = [] := by simpa using hF
        have hrn : r = [] := by
          cases r with
          | nil => rfl
          | cons x t =>
            have := hr x t rfl
            rw [hFn] at this
            simp [symHas, inRanges] at this
        subst hrn
        simpa [m] using hk p [] c [] hw
      · simp
    | cons s ss =>
      obtain ⟨x, w', rfl, _, _⟩ := conc_cons hw
      simp [am, m]

end sound

/-- the top continuation: accept exactly "word used up, at relative position `pe`, with relative slots `ce`" -/
def topK (pe : Nat) (ce : Caps) : AK :=
  fun p s c => if s.isEmpty && p == pe && c == ce then .done else .unk

theorem step_of_am {F : Sym} {a : Re} {syms : List Sym} {w r : List UInt8} {p0 pe : Nat} {c0 ce : Caps}
    (h : am F a 0 syms [] (topK pe ce) = .done) (hw : Conc syms w) (hr : TailF F r) :
    Step a p0 (w ++ r) c0 (p0 + pe) r (shc p0 ce ++ c0) := by
  intro k res hk
  have hsim : Sim p0 c0 r res (topK pe ce) k := by
    intro p s c w' hw'
    refine ⟨fun hf => ?_, fun hd => ?_⟩
    · simp only [topK] at hf
      split at hf <;> cases hf
    · simp only [topK] at hd
      split at hd
      · rename_i hc
        simp only [Bool.and_eq_true, List.isEmpty_iff, beq_iff_eq] at hc
        obtain ⟨⟨hs, hp⟩, hce⟩ := hc
        subst hs hp hce
        have := conc_nil hw'
        subst this
        simpa using hk
      · cases hd
  have := (am_sound hr a (topK pe ce) k hsim 0 syms [] w hw).2 h
  simpa [shc] using this

theorem fails_of_am {F : Sym} {a : Re} {syms : List Sym} {w r : List UInt8} {p0 : Nat} {c0 : Caps}
    (h : am F a 0 syms [] (fun _ _ _ => .unk) = .fail) (hw : Conc syms w) (hr : TailF F r) :
    Fails a p0 (w ++ r) c0 := by
  intro k
  have hsim : Sim p0 c0 r ⟨0, 0, []⟩ (fun _ _ _ => .unk) k := by
    intro p s c w' _
    exact ⟨fun hf => (by cases hf), fun hd => (by cases hd)⟩
  have := (am_sound hr a _ k hsim 0 syms [] w hw).1 h
  simpa [shc] using this

/-! ### rows as concatenations of pieces -/

/-- one item of a row's top-level concatenation together with the catalogue of symbolic words it is
meant to consume; each word carries the capture slots (relative to the start of the piece, most
recent first) that the item records while consuming it -/
structure Piece where
  item : Re
  dom : List (List Sym × Caps)

def firsts (dom : List (List Sym × Caps)) : Sym :=
  dom.flatMap (fun e => match e.1 with | [] => [] | s :: _ => s)

def nullable (dom : List (List Sym × Caps)) : Bool := dom.any (fun e => e.1.isEmpty)

/-- bytes that can follow a piece: first bytes of the words of the next piece(s), or of the tail -/
def follow : List Piece → Sym → Sym
  | [], tF => tF
  | q :: qs, tF => firsts q.dom ++ (if nullable q.dom then follow qs tF else [])

def pieceOk (F : Sym) (q : Piece) : Bool :=
  q.dom.all (fun e => am F q.item 0 e.1 [] (topK e.1.length e.2) == .done)

def rowOk : List Piece → Sym → Bool
  | [], _ => true
  | q :: qs, tF => pieceOk (follow qs tF) q && rowOk qs tF

/-- a choice of one catalogue entry and one concrete word of it per piece -/
def Valid : List Piece → List ((List Sym × Caps) × List UInt8) → Prop
  | [], [] => True
  | q :: qs, ew :: sel => ew.1 ∈ q.dom ∧ Conc ew.1.1 ew.2 ∧ Valid qs sel
  | [], _ :: _ => False
  | _ :: _, [] => False

def flat : List ((List Sym × Caps) × List UInt8) → List UInt8
  | [] => []
  | ew :: sel => ew.2 ++ flat sel

/-- the capture slots after the chosen words, starting at position `p` with slots `c` -/
def capsAt (p : Nat) (c : Caps) : List ((List Sym × Caps) × List UInt8) → Caps
  | [] => c
  | ew :: sel => capsAt (p + ew.2.length) (shc p ew.1.2 ++ c) sel

theorem inRanges_append (a b : List (Nat × Nat)) (n : Nat) : inRanges (a ++ b) n = (inRanges a n || inRanges b n) := by
  simp [inRanges, List.any_append]

theorem tailF_follow {tF : Sym} {tail : List UInt8} (ht : TailF tF tail) :
    ∀ (qs : List Piece) (sel : List ((List Sym × Caps) × List UInt8)), Valid qs sel →
      TailF (follow qs tF) (flat sel ++ tail) := by
  intro qs
  induction qs with
  | nil =>
    intro sel hv
    cases sel with
    | nil => simpa [flat, follow] using ht
    | cons _ _ => exact absurd hv (by simp [Valid])
  | cons q qs ih =>
    intro sel hv
    cases sel with
    | nil => exact absurd hv (by simp [Valid])
    | cons ew sel =>
      obtain ⟨hmem, hc, hv'⟩ := hv
      obtain ⟨⟨syms, ce⟩, w⟩ := ew
      simp only at hmem hc
      intro x t hx
      simp only [follow, symHas, inRanges_append, Bool.or_eq_true]
      cases syms with
      | nil =>
        have := conc_nil hc
        subst this
        right
        have hn : nullable q.dom = true := by
          simp only [nullable, List.any_eq_true]
          exact ⟨_, hmem, rfl⟩
        rw [hn]
        exact ih sel hv' x t (by simpa [flat] using hx)
      | cons s ss =>
        obtain ⟨b, w', rfl, hsb, _⟩ := conc_cons hc
        left
        simp only [flat, List.cons_append, List.cons.injEq] at hx
        obtain ⟨rfl, _⟩ := hx
        simp only [firsts, inRanges, List.any_flatMap, List.any_eq_true]
        refine ⟨_, hmem, ?_⟩
        simpa [symHas, inRanges] using hsb

theorem row_step {tF : Sym} {tail : List UInt8} (ht : TailF tF tail) :
    ∀ (qs : List Piece) (sel : List ((List Sym × Caps) × List UInt8)) (p : Nat) (c : Caps),
      qs ≠ [] → rowOk qs tF = true → Valid qs sel →
      Step (catL (qs.map Piece.item)) p (flat sel ++ tail) c (p + (flat sel).length) tail (capsAt p c sel) := by
  intro qs
  induction qs with
  | nil => intro _ _ _ h; exact absurd rfl h
  | cons q qs ih =>
    intro sel p c _ hok hv
    cases sel with
    | nil => exact absurd hv (by simp [Valid])
    | cons ew sel =>
      obtain ⟨hmem, hc, hv'⟩ := hv
      simp only [rowOk, Bool.and_eq_true] at hok
      obtain ⟨hq, hqs⟩ := hok
      have hchk := List.all_eq_true.mp hq ew.1 hmem
      simp only [beq_iff_eq] at hchk
      have hfol := tailF_follow ht qs sel hv'
      have hlen := conc_length hc
      have s1 : Step q.item p (ew.2 ++ (flat sel ++ tail)) c (p + ew.2.length) (flat sel ++ tail)
          (shc p ew.1.2 ++ c) := by
        have := step_of_am (p0 := p) (c0 := c) hchk hc hfol
        rwa [hlen] at this
      cases qs with
      | nil =>
        cases sel with
        | nil =>
          simpa [catL, flat, capsAt] using s1
        | cons _ _ => exact absurd hv' (by simp [Valid])
      | cons q2 qs2 =>
        have s2 := ih sel (p + ew.2.length) (shc p ew.1.2 ++ c) (by simp) hqs hv'
        have : Step (.cat q.item (catL ((q2 :: qs2).map Piece.item))) p (ew.2 ++ (flat sel ++ tail)) c
            (p + ew.2.length + (flat sel).length) tail (capsAt (p + ew.2.length) (shc p ew.1.2 ++ c) sel) :=
          step_cat s1 s2
        simpa [catL, flat, capsAt, Nat.add_assoc] using this

/-! ### building catalogues -/

/-- the symbolic word of a concrete byte string -/
def cw (w : List UInt8) : List Sym := w.map (fun b => [(b.toNat, b.toNat)])

theorem conc_cw (w : List UInt8) : Conc (cw w) w := by
  induction w with
  | nil => simp [cw, Conc]
  | cons b t ih =>
    refine ⟨?_, ih⟩
    simp [symHas, inRanges]

theorem conc_append {s1 s2 : List Sym} {w1 w2 : List UInt8} (h1 : Conc s1 w1) (h2 : Conc s2 w2) :
    Conc (s1 ++ s2) (w1 ++ w2) := by
  induction s1 generalizing w1 with
  | nil => rw [conc_nil h1]; simpa using h2
  | cons s ss ih =>
    obtain ⟨b, w', rfl, hb, hw'⟩ := conc_cons h1
    exact ⟨hb, ih hw'⟩

end S4V.Lemmas.RegexSym
