/-
Zone strings that scan: the fallback-zone string `offString` scans (both `%:z`/`%z` and `%#z`), has no
blank and at most 9 bytes, for EVERY whole-minute offset within ±24 h (by enumeration in the kernel;
`S4V.Props.TimeSpec` had instances only) — what zone-less rows need in `C04_normalise_parse`.
-/
import S4V.Lemmas.DtParse

namespace S4V.Lemmas.RegexZones
open S4V.Gen.TimeTables S4V.Model.DtParse S4V.Lemmas.DtParse

/-! ### the fallback zone string scans (all whole-minute offsets within ±24 h) -/

def notBlankB (l : List UInt8) : Bool := l.all (fun b => b != 32 && b != 9 && b != 10 && b != 13)

theorem allNotBlank_of_notBlankB {l : List UInt8} (h : notBlankB l = true) : AllNotBlank l := by
  intro b hb
  have := List.all_eq_true.mp h b hb
  simp only [Bool.and_eq_true, bne_iff_ne, ne_eq] at this
  exact ⟨this.1.1.1, this.1.1.2, this.1.2, this.2⟩

def scansB (perm : Bool) (zb : List UInt8) : Bool :=
  match tzScan perm zb with
  | some (_, []) => true
  | _ => false

def fbCheck (k : Nat) : Bool :=
  let zb := offString (((k : Int) - 1440) * 60)
  scansB true zb && scansB false zb && notBlankB zb && decide (zb.length ≤ 9)

theorem fbCheck_all : ∀ k ∈ List.range 2881, fbCheck k = true := by decide +kernel

/-- whole-minute fallback offsets within ±24 h (what `--tz-offset` can denote) -/
def FbOK (fbOff : Int) : Prop := ∃ k : Nat, k ≤ 2880 ∧ fbOff = ((k : Int) - 1440) * 60

theorem fb_piece {fbOff : Int} (h : FbOK fbOff) (perm : Bool) :
    (offString fbOff).length ≤ 9 ∧ TzPieceOK .fill perm (offString fbOff) fbOff fbOff := by
  obtain ⟨k, hk, rfl⟩ := h
  have := fbCheck_all k (List.mem_range.mpr (by omega))
  simp only [fbCheck, Bool.and_eq_true, decide_eq_true_eq] at this
  obtain ⟨⟨⟨h1, h2⟩, h3⟩, h4⟩ := this
  refine ⟨h4, ?_, allNotBlank_of_notBlankB h3, rfl⟩
  have hp : scansB perm (offString (((k : Int) - 1440) * 60)) = true := by cases perm <;> assumption
  unfold scansB at hp
  split at hp
  · next o heq => exact ⟨o, heq⟩
  · cases hp


end S4V.Lemmas.RegexZones
