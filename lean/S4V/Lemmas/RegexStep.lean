/-
A small calculus for predicting what the backtracking matcher `S4V.Model.Regex.m` does on inputs of
a known shape (used to connect `search` with the post-capture model, `S4V.Props.RegexCapture`).

* `Step a p r c p' r' c'`  started on `a` in state `(p, r, c)` (position, remaining input, captures),
                           the matcher's first-priority way through `a` ends in `(p', r', c')`: whenever
                           the continuation succeeds there, that success is the matcher's answer
* `Fails a p r c`          `a` cannot match at all in that state (whatever the continuation)
-/
import S4V.Model.Regex

namespace S4V.Lemmas.RegexStep
open S4V.Model.Regex

def Step (a : Re) (p : Nat) (r : List UInt8) (c : Caps) (p' : Nat) (r' : List UInt8) (c' : Caps) : Prop :=
  ∀ (k : K) (res : Res), k p' r' c' = some res → m a p r c k = some res

def Fails (a : Re) (p : Nat) (r : List UInt8) (c : Caps) : Prop :=
  ∀ (k : K), m a p r c k = none

variable {p p1 p2 : Nat} {r r1 r2 : List UInt8} {c c1 c2 : Caps}

theorem step_eps : Step .eps p r c p r c := fun k res h => by simpa [m] using h

theorem step_bol : Step .bol 0 r c 0 r c := fun k res h => by simpa [m] using h

theorem step_eol : Step .eol p [] c p [] c := fun k res h => by simpa [m] using h

theorem fails_eol {x : UInt8} : Fails .eol p (x :: r) c := fun k => by simp [m]

theorem isPrefix_self_append (bs r : List UInt8) : isPrefix bs (bs ++ r) = true := by
  induction bs with
  | nil => simp [isPrefix]
  | cons x t ih => simp [isPrefix, ih]

theorem step_lit (bs : List UInt8) : Step (.lit bs) p (bs ++ r) c (p + bs.length) r c := by
  intro k res h
  simp [m, isPrefix_self_append, h]

theorem fails_lit {bs : List UInt8} (h : isPrefix bs r = false) : Fails (.lit bs) p r c :=
  fun k => by simp [m, h]

theorem decode_ascii_cons {b : UInt8} (hb : b.toNat < 128) : decode (b :: r) = some (b.toNat, 1) := by
  simp [decode, hb]

theorem step_cls {rs : List (Nat × Nat)} {b : UInt8} (hb : b.toNat < 128)
    (hin : inRanges rs b.toNat = true) : Step (.cls rs) p (b :: r) c (p + 1) r c := by
  intro k res h
  simp [m, decode_ascii_cons hb, hin, h]

theorem fails_cls {rs : List (Nat × Nat)} {b : UInt8} (hb : b.toNat < 128)
    (hin : inRanges rs b.toNat = false) : Fails (.cls rs) p (b :: r) c :=
  fun k => by simp [m, decode_ascii_cons hb, hin]

theorem fails_cls_nil {rs : List (Nat × Nat)} : Fails (.cls rs) p [] c :=
  fun k => by simp [m, decode]

theorem step_cat {a b : Re} (ha : Step a p r c p1 r1 c1) (hb : Step b p1 r1 c1 p2 r2 c2) :
    Step (.cat a b) p r c p2 r2 c2 := by
  intro k res h
  simp only [m]
  exact ha _ res (hb k res h)

theorem fails_cat {a b : Re} (ha : Fails a p r c) : Fails (.cat a b) p r c :=
  fun k => by simp only [m]; exact ha _

theorem step_altL {a b : Re} (ha : Step a p r c p1 r1 c1) : Step (.alt a b) p r c p1 r1 c1 := by
  intro k res h
  simp only [m, ha k res h]

theorem step_altR {a b : Re} (ha : Fails a p r c) (hb : Step b p r c p1 r1 c1) :
    Step (.alt a b) p r c p1 r1 c1 := by
  intro k res h
  simp only [m, ha k, hb k res h]

theorem fails_alt {a b : Re} (ha : Fails a p r c) (hb : Fails b p r c) : Fails (.alt a b) p r c :=
  fun k => by simp only [m, ha k, hb k]

theorem step_group {a : Re} (i : Nat) (ha : Step a p r c p1 r1 c1) :
    Step (.group i a) p r c p1 r1 ((i, p, p1) :: c1) := by
  intro k res h
  simp only [m]
  exact ha _ res h

theorem fails_group {a : Re} (i : Nat) (ha : Fails a p r c) : Fails (.group i a) p r c :=
  fun k => by simp only [m]; exact ha _

/-- `x?` taking the optional item (greedy: tried first) -/
theorem step_opt_take {a : Re} (ha : Step a p r c p1 r1 c1) : Step (.rep a 0 (some 1)) p r c p1 r1 c1 := by
  intro k res h
  simp only [m, repLoop, ↓reduceIte]
  rw [ha _ res (by simpa using h)]

/-- `x?` when the optional item cannot match -/
theorem step_opt_skip {a : Re} (ha : Fails a p r c) : Step (.rep a 0 (some 1)) p r c p r c := by
  intro k res h
  simp only [m, repLoop, ↓reduceIte]
  rw [ha _]
  exact h

/-! ### runs of digits -/

def isD (b : UInt8) : Prop := 48 ≤ b.toNat ∧ b.toNat ≤ 57

/-- the input after the digits is empty or starts with an ASCII non-digit -/
def StopsDigits : List UInt8 → Prop
  | [] => True
  | x :: _ => x.toNat < 128 ∧ ¬ isD x

theorem digit_fails {r : List UInt8} (hr : StopsDigits r) : Fails (.cls [(48, 57)]) p r c := by
  cases r with
  | nil => exact fails_cls_nil
  | cons x t =>
    obtain ⟨h1, h2⟩ := hr
    apply fails_cls h1
    simp only [inRanges, List.any_cons, List.any_nil, Bool.or_false, Bool.and_eq_false_iff,
      decide_eq_false_iff_not]
    unfold isD at h2
    omega

theorem digit_step {d : UInt8} (hd : isD d) : Step (.cls [(48, 57)]) p (d :: r) c (p + 1) r c := by
  obtain ⟨h1, h2⟩ := hd
  apply step_cls (by omega)
  simp only [inRanges, List.any_cons, List.any_nil, Bool.or_false, Bool.and_eq_true, decide_eq_true_eq]
  omega

theorem repLoop_digits {r : List UInt8} (hr : StopsDigits r) (k : K) (res : Res) :
    ∀ (ds : List UInt8) (fuel need p : Nat) (c : Caps), (∀ d ∈ ds, isD d) → need ≤ ds.length →
      ds.length ≤ fuel → k (p + ds.length) r c = some res →
      repLoop (fun p r' c k' => m (.cls [(48, 57)]) p r' c k') fuel need p (ds ++ r) c k = some res := by
  intro ds
  induction ds with
  | nil =>
    intro fuel need p c _ hn _ hk
    have hn0 : need = 0 := by simpa using hn
    subst hn0
    cases fuel with
    | zero => simpa [repLoop] using hk
    | succ f =>
      simp only [repLoop, ↓reduceIte, List.nil_append]
      rw [digit_fails hr _]
      simpa using hk
  | cons d ds ih =>
    intro fuel need p c hd hn hf hk
    cases fuel with
    | zero => simp at hf
    | succ f =>
      have hd0 : isD d := hd d (by simp)
      have hds : ∀ x ∈ ds, isD x := fun x hx => hd x (by simp [hx])
      simp only [List.length_cons] at hn hf hk
      have hk' : k (p + 1 + ds.length) r c = some res := by
        rw [← hk]; congr 1; omega
      simp only [repLoop, List.cons_append]
      split
      · rename_i hn0
        have := digit_step (p := p) (r := ds ++ r) (c := c) hd0
          (fun p' r' c' => repLoop (fun p r' c k' => m (.cls [(48, 57)]) p r' c k') f 0 p' r' c' k) res
          (ih f 0 (p + 1) c hds (by omega) (by omega) hk')
        rw [this]
      · exact digit_step (p := p) (r := ds ++ r) (c := c) hd0
          (fun p' r' c' => repLoop (fun p r' c k' => m (.cls [(48, 57)]) p r' c k') f (need - 1) p' r' c' k) res
          (ih f (need - 1) (p + 1) c hds (by omega) (by omega) hk')

/-- `[[:digit:]]{lo,hi}` greedily takes the whole run of `lo ≤ n ≤ hi` digits that precedes a non-digit -/
theorem step_digits {ds r : List UInt8} (lo hi : Nat) (hd : ∀ d ∈ ds, isD d) (hlo : lo ≤ ds.length)
    (hhi : ds.length ≤ hi) (hr : StopsDigits r) :
    Step (.rep (.cls [(48, 57)]) lo (some hi)) p (ds ++ r) c (p + ds.length) r c := by
  intro k res h
  simp only [m]
  exact repLoop_digits hr k res ds hi lo p c hd hlo hhi h

/-- exactly `n` digits, whatever follows (`[[:digit:]]{n}`) -/
theorem repLoop_digits_exact (k : K) (res : Res) {r : List UInt8} :
    ∀ (ds : List UInt8) (p : Nat) (c : Caps), (∀ d ∈ ds, isD d) → k (p + ds.length) r c = some res →
      repLoop (fun p r' c k' => m (.cls [(48, 57)]) p r' c k') ds.length ds.length p (ds ++ r) c k = some res := by
  intro ds
  induction ds with
  | nil => intro p c _ hk; simpa [repLoop] using hk
  | cons d ds ih =>
    intro p c hd hk
    have hd0 : isD d := hd d (by simp)
    have hds : ∀ x ∈ ds, isD x := fun x hx => hd x (by simp [hx])
    simp only [List.length_cons] at hk
    have hk' : k (p + 1 + ds.length) r c = some res := by
      rw [← hk]; congr 1; omega
    simp only [repLoop, List.length_cons, List.cons_append, Nat.add_one_ne_zero, ↓reduceIte,
      Nat.add_sub_cancel]
    exact digit_step (p := p) (r := ds ++ r) (c := c) hd0
      (fun p' r' c' => repLoop (fun p r' c k' => m (.cls [(48, 57)]) p r' c k') ds.length ds.length p' r' c' k) res
      (ih (p + 1) c hds hk')

theorem step_digits_exact {ds r : List UInt8} (hd : ∀ d ∈ ds, isD d) :
    Step (.rep (.cls [(48, 57)]) ds.length (some ds.length)) p (ds ++ r) c (p + ds.length) r c := by
  intro k res h
  simp only [m]
  exact repLoop_digits_exact k res ds p c hd h

/-! ### alternations of literals -/

theorem isPrefix_append_of_le {l w : List UInt8} (r : List UInt8) (h : l.length ≤ w.length) :
    isPrefix l (w ++ r) = isPrefix l w := by
  induction l generalizing w with
  | nil => simp [isPrefix]
  | cons x t ih =>
    cases w with
    | nil => simp at h
    | cons y u =>
      simp only [List.cons_append, isPrefix]
      rw [ih (by simpa using h)]

theorem isPrefix_eq_of_len {l w : List UInt8} (h : isPrefix l w = true) (hl : w.length ≤ l.length) : l = w := by
  induction l generalizing w with
  | nil =>
    cases w with
    | nil => rfl
    | cons _ _ => simp at hl
  | cons x t ih =>
    cases w with
    | nil => simp [isPrefix] at h
    | cons y u =>
      simp only [isPrefix, Bool.and_eq_true, beq_iff_eq] at h
      rw [h.1, ih h.2 (by simpa using hl)]

/-- `(l₁|l₂|…)` on an input that starts with `w`, where `w` is the first alternative (in priority
order) that is a prefix of the input; all alternatives are at most as long as `w` -/
theorem step_lits {ls : List (List UInt8)} {w : List UInt8} (hlen : ∀ l ∈ ls, l.length ≤ w.length)
    (hfind : ls.find? (fun l => isPrefix l w) = some w) :
    Step (altL (ls.map .lit)) p (w ++ r) c (p + w.length) r c := by
  induction ls with
  | nil => simp at hfind
  | cons l rest ih =>
    have hl : l.length ≤ w.length := hlen l (by simp)
    have hrest : ∀ x ∈ rest, x.length ≤ w.length := fun x hx => hlen x (by simp [hx])
    rw [List.find?_cons] at hfind
    cases hp : isPrefix l w with
    | true =>
      rw [hp] at hfind
      simp only [Option.some.injEq] at hfind
      subst hfind
      cases rest with
      | nil => exact step_lit l
      | cons l2 rest2 => exact step_altL (step_lit l)
    | false =>
      rw [hp] at hfind
      cases rest with
      | nil => simp at hfind
      | cons l2 rest2 =>
        refine step_altR (fails_lit ?_) (ih hrest hfind)
        rw [isPrefix_append_of_le r hl]; exact hp

/-- from a `Step` through the whole regex at offset 0 to `search` -/
theorem search_of_step {a : Re} {line r' : List UInt8} {p' : Nat} {c' : Caps}
    (h : Step a 0 line [] p' r' c') : search a line = some ⟨0, p', c'⟩ := by
  unfold search
  cases line with
  | nil => simp only [searchFrom]; exact h _ _ rfl
  | cons b t =>
    simp only [searchFrom]
    rw [h _ _ rfl]

end S4V.Lemmas.RegexStep
