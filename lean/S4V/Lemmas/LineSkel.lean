/-
Lemmas for `S4V.Props.LineSkelSpec`: the interpreter of the regenerated `find_line` (`S4V.Model.LineSkel` on
`S4V.Gen.Lines`) section by section against the hand models (`S4V.Model.Lines`, `S4V.Model.LinesCached`).
Each section lemma unfolds the generated section (`simp only [S4V.Gen.Lines.<section>, …]`), so a source edit
that regenerates a different statement breaks it. Core Lean only.
-/
import S4V.Lemmas.Lines
import S4V.Model.LineSkel

set_option linter.unusedSimpArgs false
namespace S4V.Lemmas.LineSkel
open S4V.Gen.Blocks S4V.Model.Lines S4V.Model.LinesCached S4V.Model.LineSkel S4V.Gen.Lines S4V.Lemmas.Lines
  S4V.Lemmas.Blocks

theorem nlByte_eq : nlByte = NL := rfl

theorem isNL_iff (x : Option UInt8) : (x == some nlByte) = true ↔ x = some NL := by
  rw [nlByte_eq]; exact beq_iff_eq

theorem nlAtOrAfter_step (blk : Bytes) (i : Nat) (h : blk[i]? ≠ some NL) :
    nlAtOrAfter blk i = nlAtOrAfter blk (i + 1) := by
  rcases hn : nlAtOrAfter blk (i + 1) with _ | j
  · rw [nlAtOrAfter_eq_none] at hn ⊢
    intro k hk
    rcases Nat.eq_or_lt_of_le hk with rfl | hlt
    · exact h
    · exact hn k hlt
  · rw [nlAtOrAfter_eq_some] at hn ⊢
    obtain ⟨h1, h2, h3⟩ := hn
    refine ⟨by omega, h2, ?_⟩
    intro k hk1 hk2
    rcases Nat.eq_or_lt_of_le hk1 with rfl | hlt
    · exact h
    · exact h3 k hlt hk2

/-- the forward scan with step 1 and exit test `i >= len` is `scanFwd` -/
theorem scanFwdG_eq (blk : Bytes) : ∀ fuel i, i < blk.length → blk.length - i ≤ fuel →
    scanFwdG blk 1 .ge blk.length fuel i =
      (match scanFwd blk i with
        | some j => (true, j)
        | none => (false, blk.length)) := by
  intro fuel
  induction fuel with
  | zero => intro i h1 h2; omega
  | succ fuel ih =>
    intro i h1 h2
    simp only [scanFwdG, scanFwd]
    by_cases hb : blk[i]? = some NL
    · rw [if_pos ((isNL_iff _).mpr hb)]
      have : nlAtOrAfter blk i = some i :=
        (nlAtOrAfter_eq_some blk i i).mpr ⟨Nat.le_refl _, hb, fun k hk1 hk2 => by omega⟩
      rw [this]
    · rw [if_neg (fun h => hb ((isNL_iff _).mp h))]
      rw [nlAtOrAfter_step blk i hb]
      by_cases hlen : i + 1 ≥ blk.length
      · have hc : Cmp.ge.eval (i + 1) blk.length = true := by simp [Cmp.eval, hlen]
        rw [if_pos hc]
        have : nlAtOrAfter blk (i + 1) = none := by
          rw [nlAtOrAfter_eq_none]
          intro k hk
          rw [List.getElem?_eq_none (by omega)]
          simp
        rw [this]
        have : i + 1 = blk.length := by omega
        rw [this]
      · have hc : Cmp.ge.eval (i + 1) blk.length = false := by simp [Cmp.eval]; omega
        rw [hc]
        simp only [Bool.false_eq_true, ↓reduceIte]
        exact ih (i + 1) (by omega) (by omega)

/-- the backward scan with step 1 and exit test `i == 0` is `scanBwd` -/
theorem scanBwdG_eq (blk : Bytes) : ∀ i fuel, i < fuel →
    scanBwdG blk 1 .eq 0 fuel i =
      (match scanBwd blk i with
        | some j => (true, j)
        | none => (false, 0)) := by
  intro i
  induction i with
  | zero =>
    intro fuel h
    cases fuel with
    | zero => omega
    | succ fuel =>
      simp only [scanBwdG, scanBwd]
      by_cases hb : blk[0]? = some NL
      · rw [if_pos ((isNL_iff _).mpr hb), if_pos hb]
      · rw [if_neg (fun h => hb ((isNL_iff _).mp h)), if_neg hb]
        simp [Cmp.eval]
  | succ i ih =>
    intro fuel h
    cases fuel with
    | zero => omega
    | succ fuel =>
      simp only [scanBwdG, scanBwd]
      by_cases hb : blk[i + 1]? = some NL
      · rw [if_pos ((isNL_iff _).mpr hb), if_pos hb]
      · rw [if_neg (fun h => hb ((isNL_iff _).mp h)), if_neg hb]
        have hc : Cmp.eq.eval (i + 1) 0 = false := by simp [Cmp.eval]
        rw [hc]
        simp only [Bool.false_eq_true, ↓reduceIte, Nat.add_sub_cancel]
        exact ih fuel (by omega)

theorem execL_append (env : Env) (a b : List Stmt) (st : St) :
    execL env (a ++ b) st = (match execL env a st with
      | .norm st' => execL env b st'
      | o => o) := by
  induction a generalizing st with
  | nil => simp [execL]
  | cons s r ih =>
    simp only [List.cons_append, execL]
    cases exec env s st with
    | norm st' => simp only [ih]
    | brk st' => rfl
    | ret r' st' => rfl


theorem exec_partB1 (env : Env) (st : St) (hbs : 1 ≤ env.bs) (hfo : st.fileoffset < env.d.length)
    (h1 : st.charszBi = 1) (hlast : st.boLast = blockOffsetLast env.d.length env.bs)
    (hbo : st.boMiddle = st.fileoffset / env.bs) (hbi : st.biMiddle = st.fileoffset % env.bs)
    (hnb : st.foundNlB = false) :
    ∃ biAt biU nlBEof inMid,
      execL env S4V.Gen.Lines.partB1 st = .norm { st with
        bMiddle := st.boMiddle, reads := st.reads ++ [st.boMiddle],
        biAt := biAt, biStop := (blockAt env.d env.bs st.boMiddle).length, biU := biU, nlBEof := nlBEof,
        foNlBInMiddle := inMid,
        foundNlB := (Model.Lines.partB1 env.d env.bs st.boLast st.fileoffset).1,
        foNlB := if (Model.Lines.partB1 env.d env.bs st.boLast st.fileoffset).1 then (Model.Lines.partB1 env.d env.bs st.boLast st.fileoffset).2.1 else st.foNlB,
        biMiddleEnd := (Model.Lines.partB1 env.d env.bs st.boLast st.fileoffset).2.2 } ∧
      ((Model.Lines.partB1 env.d env.bs st.boLast st.fileoffset).1 = false → inMid = st.foNlBInMiddle) := by
  have hn : 0 < env.d.length := by omega
  have hq := Nat.div_add_mod' st.fileoffset env.bs
  have hr : st.fileoffset % env.bs < env.bs := Nat.mod_lt _ (by omega)
  have hqlast : st.fileoffset / env.bs ≤ blockOffsetLast env.d.length env.bs := by
    rw [le_blockOffsetLast_iff _ _ _ hbs hn]; omega
  have hlen := blockAt_length env.d env.bs (st.fileoffset / env.bs)
  have hi : st.fileoffset % env.bs < (blockAt env.d env.bs (st.fileoffset / env.bs)).length := by
    rw [hlen]; omega
  have hfuel : (blockAt env.d env.bs (st.fileoffset / env.bs)).length - st.fileoffset % env.bs ≤ env.d.length + 1 := by
    rw [hlen]; omega
  have hrd : ¬ (st.fileoffset / env.bs > blockOffsetLast env.d.length env.bs) := by omega
  simp only [S4V.Gen.Lines.partB1, execL, exec, Expr.eval, BExpr.eval, St.get, St.set, St.setFlag, St.getFlag,
    St.setBlk, St.getBlk, blockOf, hbo, hbi, h1, hlast, hrd, ↓reduceIte, Model.Lines.partB1, blockOffsetAtFileOffset_eq,
    blockIndexAtFileOffset_eq]
  rw [scanFwdG_eq _ _ _ hi hfuel]
  unfold scanFwd
  rcases hscan : nlAtOrAfter (blockAt env.d env.bs (st.fileoffset / env.bs)) (st.fileoffset % env.bs) with _ | j
  · simp only [Bool.false_eq_true, ↓reduceIte, execL, exec, Expr.eval, BExpr.eval, St.get, St.set, St.setFlag,
      St.getFlag, hnb, Cmp.eval, Bool.not_false, Bool.true_and, hlast]
    by_cases hl : st.fileoffset / env.bs = blockOffsetLast env.d.length env.bs
    · simp only [hl, beq_self_eq_true, ↓reduceIte, execL, exec, Expr.eval, St.get, St.set, St.setFlag, h1]
      exact ⟨_, _, _, _, rfl, by simp⟩
    · have : (st.fileoffset / env.bs == blockOffsetLast env.d.length env.bs) = false := by simpa using hl
      simp only [this, hl, Bool.false_eq_true, ↓reduceIte, execL, exec, Expr.eval, BExpr.eval, St.get, St.set, St.setFlag,
        St.getFlag, hnb, Bool.not_false, h1]
      exact ⟨_, _, _, _, rfl, by simp⟩
  · simp only [↓reduceIte, execL, exec, Expr.eval, BExpr.eval, St.get, St.set, St.setFlag,
      St.getFlag, Cmp.eval, Bool.not_true, Bool.false_and, Bool.false_eq_true, hbo]
    exact ⟨_, _, _, _, rfl, by simp⟩


theorem walkFwd_fuel (d : Bytes) (bs last : Nat) : ∀ f1 f2 bof, last + 1 - bof ≤ f1 → last + 1 - bof ≤ f2 →
    walkFwd d bs last f1 bof = walkFwd d bs last f2 bof := by
  intro f1
  induction f1 with
  | zero =>
    intro f2 bof h1 h2
    rw [walkFwd_gt d bs last f2 bof (by omega)]; rfl
  | succ f1 ih =>
    intro f2 bof h1 h2
    cases f2 with
    | zero => rw [walkFwd_gt d bs last (f1 + 1) bof (by omega)]; rfl
    | succ f2 =>
      simp only [walkFwd]
      by_cases hgt : bof > last
      · rw [if_pos hgt, if_pos hgt]
      · rw [if_neg hgt, if_neg hgt, ih f2 (bof + 1) (by omega) (by omega)]

theorem St.eta_foundNlB (st : St) (h : st.foundNlB = false) : st = { st with foundNlB := false } := by
  cases st; simp only [] at h; subst h; rfl

theorem while_B2 (env : Env) (hbs : 1 ≤ env.bs) (hn : 0 < env.d.length) (c : St → Bool) (body : St → Out)
    (hcond : ∀ s, c s = partB2LoopCond.eval env s) (hbody : ∀ s, body s = execL env partB2LoopBody s) :
    ∀ f (st : St), st.charszBi = 1 → st.boLast = blockOffsetLast env.d.length env.bs →
      st.foundNlB = false → st.foNlBInMiddle = false → st.boLast + 1 - st.bof ≤ f → f ≤ env.d.length + 1 →
      ∃ bof biBeg biEnd bCur,
        whileG c body (f + 1) st =
          .norm { st with
            line := st.line ++ (walkFwd env.d env.bs st.boLast f st.bof).1.map (ofPart env.bs),
            foundNlB := (walkFwd env.d env.bs st.boLast f st.bof).2.isSome,
            foNlB := (walkFwd env.d env.bs st.boLast f st.bof).2.getD st.foNlB,
            reads := st.reads ++ (walkFwd env.d env.bs st.boLast f st.bof).1.map (·.bo),
            bof := bof, biBeg := biBeg, biEnd := biEnd, bCur := bCur } ∧
        ((walkFwd env.d env.bs st.boLast f st.bof).2 = none →
          (st.bof ≤ st.boLast → bof = st.boLast + 1 ∧ biBeg = (blockAt env.d env.bs st.boLast).length) ∧
          (st.bof > st.boLast → bof = st.bof ∧ biBeg = st.biBeg)) := by
  intro f
  induction f with
  | zero =>
    intro st h1 hlast hnb hmid hf _
    have hgt : st.bof > st.boLast := by omega
    have hc : ¬ (st.bof ≤ st.boLast) := by omega
    refine ⟨st.bof, st.biBeg, st.biEnd, st.bCur, ?_, ?_⟩
    · simp only [whileG, hcond, partB2LoopCond, BExpr.eval, St.getFlag, Expr.eval, St.get, Cmp.eval, hnb, hc,
        Bool.not_false, Bool.true_and, decide_eq_true_eq, ↓reduceIte, walkFwd, List.map_nil, List.append_nil,
        Option.isSome_none, Option.getD_none]
      conv => lhs; rw [St.eta_foundNlB st hnb]
    · intro _; exact ⟨fun h => by omega, fun _ => ⟨rfl, rfl⟩⟩
  | succ f ih =>
    intro st h1 hlast hnb hmid hf hfd
    by_cases hgt : st.bof > st.boLast
    · have hc : ¬ (st.bof ≤ st.boLast) := by omega
      refine ⟨st.bof, st.biBeg, st.biEnd, st.bCur, ?_, ?_⟩
      · rw [walkFwd_gt _ _ _ _ _ hgt, whileG, hcond]
        simp only [partB2LoopCond, BExpr.eval, St.getFlag, Expr.eval, St.get, Cmp.eval, hnb, hc,
          Bool.not_false, Bool.true_and, decide_eq_true_eq, ↓reduceIte, List.map_nil, List.append_nil,
          Option.isSome_none, Option.getD_none]
        conv => lhs; rw [St.eta_foundNlB st hnb]
      · intro _; exact ⟨fun h => by omega, fun _ => ⟨rfl, rfl⟩⟩
    · have hle : st.bof ≤ st.boLast := by omega
      have hlt : st.bof * env.bs < env.d.length := by
        rw [← le_blockOffsetLast_iff _ _ _ hbs hn, ← hlast]; exact hle
      have hlen := blockAt_length env.d env.bs st.bof
      have hpos : 0 < (blockAt env.d env.bs st.bof).length := by rw [hlen]; omega
      have hfuel : (blockAt env.d env.bs st.bof).length - 0 ≤ env.d.length + 1 := by rw [hlen]; omega
      have hrd : ¬ (st.bof > blockOffsetLast env.d.length env.bs) := by rw [← hlast]; omega
      rw [whileG, hcond, hbody]
      simp only [partB2LoopCond, BExpr.eval, St.getFlag, Expr.eval, St.get, Cmp.eval, hnb, hle,
        Bool.not_false, Bool.true_and, decide_eq_true_eq, ↓reduceIte]
      simp only [partB2LoopBody, execL, exec, Expr.eval, BExpr.eval, St.get, St.set, St.setFlag, St.getFlag,
        St.setBlk, St.getBlk, blockOf, h1, hrd, ↓reduceIte]
      rw [scanFwdG_eq _ _ _ hpos hfuel]
      simp only [walkFwd, if_neg hgt]
      unfold scanFwd
      rcases hscan : nlAtOrAfter (blockAt env.d env.bs st.bof) 0 with _ | j
      · -- no newline in this block: next iteration
        simp only [Bool.false_eq_true, ↓reduceIte, execL, exec, Expr.eval, BExpr.eval, St.get, St.set, St.setFlag,
          St.getFlag, hnb]
        obtain ⟨bof', biBeg', biEnd', bCur', ihe, ihn⟩ := ih
          { st with charszBi := 1, foundNlB := false, bCur := st.bof, reads := st.reads ++ [st.bof], biBeg := (blockAt env.d env.bs st.bof).length,
                    biEnd := (blockAt env.d env.bs st.bof).length,
                    line := st.line ++ [⟨st.bof, st.bof, 0, (blockAt env.d env.bs st.bof).length,
                      fileOffsetAtBlockOffsetIndex st.bof env.bs 0⟩],
                    bof := st.bof + 1 } rfl hlast rfl hmid (by simp only; omega) (by omega)
        refine ⟨bof', biBeg', biEnd', bCur', ?_, ?_⟩
        · simp only [] at ihe
          rw [ihe]
          simp only [List.map_cons, List.append_assoc, List.cons_append, List.nil_append, ofPart]
        · intro hw
          have := ihn hw
          simp only [] at this
          refine ⟨fun _ => ?_, fun h => by omega⟩
          by_cases h2 : st.bof + 1 ≤ st.boLast
          · exact this.1 h2
          · have := this.2 (by omega)
            have he : st.bof = st.boLast := by omega
            rw [← he]
            exact this
      · -- newline found: `break`
        simp only [↓reduceIte, execL, exec, Expr.eval, BExpr.eval, St.get, St.set, St.setFlag,
          St.getFlag, hmid, Bool.not_false, St.getBlk]
        refine ⟨st.bof, j, (blockAt env.d env.bs st.bof).length, st.bof, ?_, fun h => by simp at h⟩
        simp only [List.map_cons, List.map_nil, ofPart, Option.isSome_some, Option.getD_some]


theorem exec_partB2_found (env : Env) (st : St) (h : st.foundNlB = true) :
    execL env S4V.Gen.Lines.partB2 st = .norm st := by
  simp only [S4V.Gen.Lines.partB2, execL, exec, BExpr.eval, St.getFlag, h, ↓reduceIte]

theorem exec_partB2_walk (env : Env) (st : St) (hbs : 1 ≤ env.bs) (hn : 0 < env.d.length)
    (h1 : st.charszBi = 1) (hlast : st.boLast = blockOffsetLast env.d.length env.bs)
    (hnb : st.foundNlB = false) (hmid : st.foNlBInMiddle = false) (hbo : st.boMiddle + 1 ≤ st.boLast) :
    ∃ bof biBeg biEnd bCur biU nlBEof,
      execL env S4V.Gen.Lines.partB2 st = .norm { st with
        cBiUninit := 18446744073709551615,
        foundNlB := true,
        foNlB := (Model.Lines.partB2 env.d env.bs st.boLast st.boMiddle false st.foNlB).2,
        line := st.line ++ (Model.Lines.partB2 env.d env.bs st.boLast st.boMiddle false st.foNlB).1.map (ofPart env.bs),
        reads := st.reads ++ (Model.Lines.partB2 env.d env.bs st.boLast st.boMiddle false st.foNlB).1.map (·.bo),
        bof := bof, biBeg := biBeg, biEnd := biEnd, bCur := bCur, biU := biU, nlBEof := nlBEof } := by
  have hlastlt : st.boLast * env.bs < env.d.length := by
    rw [hlast]; exact (blockOffsetLast_bounds env.d.length env.bs hbs hn).1
  have hll : st.boLast < env.d.length := by
    have : st.boLast * 1 ≤ st.boLast * env.bs := Nat.mul_le_mul_left _ hbs
    omega
  obtain ⟨bof, biBeg, biEnd, bCur, hw, hwn⟩ := while_B2 env hbs hn
    (fun s => partB2LoopCond.eval env s) (fun s => execL env partB2LoopBody s) (fun _ => rfl) (fun _ => rfl)
    (env.d.length + 1)
    { st with foundNlB := false, cBiUninit := 18446744073709551615, biBeg := 18446744073709551615, biEnd := 18446744073709551615,
              bof := st.boMiddle + 1 } h1 hlast rfl hmid (by simp only; omega) (Nat.le_refl _)
  simp only [] at hw hwn
  rw [walkFwd_fuel env.d env.bs st.boLast (env.d.length + 1) (st.boLast + 1 - st.boMiddle) (st.boMiddle + 1)
    (by omega) (by omega)] at hw hwn
  simp only [S4V.Gen.Lines.partB2, execL, exec, BExpr.eval, St.getFlag, hnb, Bool.false_eq_true, ↓reduceIte,
    Expr.eval, St.get, St.set, St.setFlag]
  rw [show env.d.length + 2 = env.d.length + 1 + 1 from rfl, hw]
  simp only [Model.Lines.partB2, Bool.false_eq_true, ↓reduceIte]
  rcases hres : (walkFwd env.d env.bs st.boLast (st.boLast + 1 - st.boMiddle) (st.boMiddle + 1)).2 with _ | f
  · obtain ⟨hb1, hb2⟩ := (hwn hres).1 hbo
    subst hb1 hb2
    have hgt : st.boLast + 1 > st.boLast := by omega
    simp only [execL, exec, BExpr.eval, St.getFlag, Expr.eval, St.get, St.set, St.setFlag, Cmp.eval,
      Option.isSome_none, Bool.not_false, Bool.true_and, decide_eq_true_eq, hgt, ↓reduceIte, Option.getD_none, h1]
    exact ⟨_, _, _, _, _, _, rfl⟩
  · simp only [execL, exec, BExpr.eval, St.getFlag, Expr.eval, St.get, St.set, St.setFlag, Cmp.eval,
      Option.isSome_some, Bool.not_true, Bool.false_and, Bool.false_eq_true, ↓reduceIte, Option.getD_some]
    exact ⟨_, _, _, _, _, _, rfl⟩


theorem walkBwd_fuel (d : Bytes) (bs : Nat) : ∀ f1 f2 bof prior line, bof + 1 ≤ f1 → bof + 1 ≤ f2 →
    walkBwd d bs f1 bof prior line = walkBwd d bs f2 bof prior line := by
  intro f1
  induction f1 with
  | zero => intro f2 bof prior line h; omega
  | succ f1 ih =>
    intro f2 bof prior line h1 h2
    cases f2 with
    | zero => omega
    | succ f2 =>
      simp only [walkBwd]
      split
      · rfl
      · cases bof with
        | zero => simp
        | succ b =>
          rw [if_pos (by omega), if_pos (by omega)]
          exact ih f2 _ _ _ (by omega) (by omega)

theorem any_ofPart (bs : Nat) (ps : List Part) (bo : Nat) :
    (ps.map (ofPart bs)).any (·.bo == bo) = storesBo ps bo := by
  simp [storesBo, List.any_map, ofPart, Function.comp_def]

theorem while_A4 (env : Env) (hbs : 1 ≤ env.bs) (c : St → Bool) (body : St → Out)
    (hcond : ∀ s, c s = partA4LoopCond.eval env s) (hbody : ∀ s, body s = execL env partA4LoopBody s) :
    ∀ f (st : St) (e : Nat) (rest : List Part), st.charszBi = 1 → st.charszFo = 1 →
      st.foundNlA = false → st.begof = false →
      st.line = (⟨st.bof + 1, 0, e⟩ :: rest).map (ofPart env.bs) →
      (st.bof + 1) * env.bs ≤ env.d.length → st.bof + 1 ≤ f →
      ∃ st', whileG c body (f + 1) st = .norm st' ∧
        st'.line = (walkBwd env.d env.bs f st.bof st.biStart (⟨st.bof + 1, 0, e⟩ :: rest)).map (ofPart env.bs) ∧
        st'.fileoffset = st.fileoffset ∧ st'.store = st.store := by
  intro f
  induction f with
  | zero => intro st e rest _ _ _ _ _ _ h; omega
  | succ f ih =>
    intro st e rest h1 h1f hna hbeg hline hlt hf
    rw [Nat.add_one_mul] at hlt
    have hn : 0 < env.d.length := by omega
    have hlen : (blockAt env.d env.bs st.bof).length = env.bs := by rw [blockAt_length]; omega
    have hrd : ¬ (st.bof > blockOffsetLast env.d.length env.bs) := by
      have := (le_blockOffsetLast_iff env.d.length env.bs st.bof hbs hn).mpr (by omega)
      omega
    have hfuel : env.bs - 1 < env.d.length + 1 := by omega
    rw [whileG, hcond, hbody]
    simp only [partA4LoopCond, BExpr.eval, St.getFlag, hna, hbeg, Bool.not_false, Bool.and_self, ↓reduceIte]
    simp only [partA4LoopBody, execL, exec, Expr.eval, BExpr.eval, St.get, St.set, St.setFlag, St.getFlag,
      St.setBlk, St.getBlk, blockOf, h1, h1f, hrd, Bool.false_eq_true, ↓reduceIte, hlen]
    rw [scanBwdG_eq _ _ _ hfuel]
    simp only [walkBwd, hlen]
    rcases hscan : scanBwd (blockAt env.d env.bs st.bof) (env.bs - 1) with _ | i
    · -- no newline in this block
      simp only [Bool.false_eq_true, ↓reduceIte, execL, exec, Expr.eval, BExpr.eval, St.get, St.set, St.setFlag,
        St.getFlag, hna, Cmp.eval, St.getBlk]
      cases hb : st.bof with
      | zero =>
        simp only [bne_self_eq_false, Bool.false_eq_true, ↓reduceIte, execL, exec, St.setFlag, ne_eq,
          not_true_eq_false]
        rw [whileG, hcond]
        simp only [partA4LoopCond, BExpr.eval, St.getFlag, Bool.not_true, Bool.and_self, Bool.false_eq_true,
          ↓reduceIte]
        refine ⟨_, rfl, ?_, rfl, rfl⟩
        simp only [hline, hb, List.map_cons, ofPart, Nat.sub_add_cancel hbs]
      | succ b =>
        have hne : (b + 1 != 0) = true := by simp
        simp only [hne, ↓reduceIte, execL, exec, Expr.eval, St.get, St.set, Nat.add_sub_cancel, ne_eq,
          Nat.add_one_ne_zero, not_false_eq_true]
        rw [hb] at hline hlt hf
        obtain ⟨st', ih1, ih2, ih3, ih4⟩ := ih
          { st with charszBi := 1, charszFo := 1, foundNlA := false, bPrior := st.bCur, reads := st.reads ++ [b + 1],
                    bCur := b + 1, blen := env.bs, biStartPrior := st.biStart, biStart := env.bs - 1,
                    biAt := 0, cBiStop := 0,
                    line := ⟨b + 1, b + 1, 0, env.bs - 1 + 1, fileOffsetAtBlockOffsetIndex (b + 1) env.bs 0⟩ :: st.line,
                    bof := b }
          (env.bs - 1 + 1) (⟨b + 1 + 1, 0, e⟩ :: rest) rfl rfl rfl hbeg
          (by simp only [hline, List.map_cons, ofPart]) (by simp only; omega) (by simp only; omega)
        simp only [] at ih1 ih2 ih3 ih4
        exact ⟨st', ih1, ih2, ih3, ih4⟩
    · -- newline found
      obtain ⟨b1, b2, b3⟩ := (scanBwd_eq_some _ _ _).mp hscan
      simp only [↓reduceIte, execL, exec, Expr.eval, BExpr.eval, St.get, St.set, St.setFlag,
        St.getFlag, Cmp.eval, St.getBlk, blockOffsetAtFileOffset_eq, fileOffsetAtBlockOffsetIndex_eq, hline,
        any_ofPart]
      rcases Nat.lt_or_ge (i + 1) env.bs with hi | hi
      · have hdiv : (st.bof * env.bs + i + 1) / env.bs = st.bof := div_eq_of_bounds (by omega) (by omega)
        simp only [hdiv, beq_self_eq_true, ↓reduceIte, execL, exec, Expr.eval, St.get, St.getBlk, BExpr.eval,
          St.getFlag]
        refine ⟨_, rfl, ?_, rfl, rfl⟩
        simp only [List.map_cons, ofPart, fileOffsetAtBlockOffsetIndex_eq, Nat.add_assoc]
      · have hdiv : (st.bof * env.bs + i + 1) / env.bs = st.bof + 1 :=
          div_eq_of_bounds (by rw [Nat.add_one_mul]; omega) (by rw [Nat.add_one_mul]; omega)
        have hst : storesBo (⟨st.bof + 1, 0, e⟩ :: rest) (st.bof + 1) = true := by simp [storesBo]
        have hne : (st.bof + 1 == st.bof) = false := by simp
        have hne' : ¬ (st.bof + 1 = st.bof) := by omega
        simp only [hdiv, hne, hne', hst, Bool.false_eq_true, ↓reduceIte, execL, exec, BExpr.eval, Bool.not_true,
          St.getFlag]
        exact ⟨_, rfl, by simp only [hline], rfl, rfl⟩


/-- the caches after `insert_line(line)` and the LRU put of `Found((n, linep))` under `key` -/
def storeAfter (s : Store) (key n : Nat) (line : List GPart) : Store :=
  { insertLine s (gLineFoBeg line) (gLineFoEnd line) with
    lru := lruPutG (insertLine s (gLineFoBeg line) (gLineFoEnd line)).lru key
      (.found n (gLineFoBeg line) (gLineFoEnd line)) }

def retOf (n : Nat) (line : List GPart) : GRes := .found n (gLineFoBeg line) (gLineFoEnd line) line

theorem exec_partA0_ret (env : Env) (st : St) (hlru : env.lruOn = true) (h : st.foundNlA = true) (h1 : st.charszFo = 1) :
    ∃ st', execL env S4V.Gen.Lines.partA0 st =
        .ret (retOf (st.foNlB + 1)
          (⟨st.bMiddle, st.foNlA / env.bs, st.foNlA % env.bs, st.biMiddleEnd + 1, st.foNlA⟩ :: st.line)) st' ∧
      st'.store = storeAfter st.store st.fileoffset (st.foNlB + 1)
        (⟨st.bMiddle, st.foNlA / env.bs, st.foNlA % env.bs, st.biMiddleEnd + 1, st.foNlA⟩ :: st.line) ∧
      st'.reads = st.reads := by
  by_cases he : st.nlBEof = true
  · simp only [S4V.Gen.Lines.partA0, execL, exec, BExpr.eval, Expr.eval, St.getFlag, St.get, St.set, St.getBlk, h, h1, he,
      hlru, ↓reduceIte, blockOffsetAtFileOffset_eq, blockIndexAtFileOffset_eq, Bool.not_true, Bool.false_eq_true]
    exact ⟨_, rfl, rfl, rfl⟩
  · have he' : st.nlBEof = false := by simpa using he
    simp only [S4V.Gen.Lines.partA0, execL, exec, BExpr.eval, Expr.eval, St.getFlag, St.get, St.set, St.getBlk, h, h1, he',
      hlru, ↓reduceIte, blockOffsetAtFileOffset_eq, blockIndexAtFileOffset_eq, Bool.not_false]
    exact ⟨_, rfl, rfl, rfl⟩

theorem exec_partA0_skip (env : Env) (st : St) (h : st.foundNlA = false) :
    execL env S4V.Gen.Lines.partA0 st = .norm st := by
  simp only [S4V.Gen.Lines.partA0, execL, exec, BExpr.eval, St.getFlag, h, Bool.false_eq_true, ↓reduceIte]

theorem exec_asserts (env : Env) (st : St) (ha : st.foundNlA = false) (hb : st.foundNlB = true) :
    execL env S4V.Gen.Lines.asserts st = .norm st := by
  simp only [S4V.Gen.Lines.asserts, execL, exec, BExpr.eval, St.getFlag, ha, hb, Bool.not_false, ↓reduceIte]

/-- A1a / A1b: a stored line begins at / contains `fileoffset - 1` -/
theorem exec_partA1_quick (env : Env) (st : St) (hlru : env.lruOn = true) (h1 : st.charszFo = 1)
    (h0 : 1 ≤ st.fileoffset)
    (hq : (linesGet st.store.lines (st.fileoffset - 1)).isSome = true ∨
      (getLinep st.store (st.fileoffset - 1)).isSome = true) :
    ∃ st', execL env S4V.Gen.Lines.partA1 st =
        .ret (retOf (st.foNlB + 1)
          (⟨st.bMiddle, st.fileoffset / env.bs, st.fileoffset % env.bs, st.biMiddleEnd + 1, st.fileoffset⟩ :: st.line)) st' ∧
      st'.store = storeAfter st.store st.fileoffset (st.foNlB + 1)
        (⟨st.bMiddle, st.fileoffset / env.bs, st.fileoffset % env.bs, st.biMiddleEnd + 1, st.fileoffset⟩ :: st.line) ∧
      st'.reads = st.reads := by
  have hge : decide (st.fileoffset ≥ 1) = true := by simpa using h0
  by_cases ha : (linesGet st.store.lines (st.fileoffset - 1)).isSome = true
  · simp only [S4V.Gen.Lines.partA1, execL, exec, BExpr.eval, Expr.eval, St.getFlag, St.get, St.set, St.getBlk, h1, ha,
      hlru, hge, Cmp.eval, ↓reduceIte, blockOffsetAtFileOffset_eq, blockIndexAtFileOffset_eq]
    exact ⟨_, rfl, rfl, rfl⟩
  · have ha' : (linesGet st.store.lines (st.fileoffset - 1)).isSome = false := by simpa using ha
    have hb : (getLinep st.store (st.fileoffset - 1)).isSome = true := by
      rcases hq with h | h
      · exact absurd h ha
      · exact h
    simp only [S4V.Gen.Lines.partA1, execL, exec, BExpr.eval, Expr.eval, St.getFlag, St.get, St.set, St.getBlk, h1, ha', hb,
      hlru, hge, Cmp.eval, ↓reduceIte, blockOffsetAtFileOffset_eq, blockIndexAtFileOffset_eq, Bool.false_eq_true]
    exact ⟨_, rfl, rfl, rfl⟩

theorem exec_partA1_skip (env : Env) (st : St) (h1 : st.charszFo = 1) (h0 : 1 ≤ st.fileoffset)
    (ha : (linesGet st.store.lines (st.fileoffset - 1)).isSome = false)
    (hb : (getLinep st.store (st.fileoffset - 1)).isSome = false) :
    execL env S4V.Gen.Lines.partA1 st = .norm { st with foU := st.fileoffset - 1 } := by
  have hge : decide (st.fileoffset ≥ 1) = true := by simpa using h0
  simp only [S4V.Gen.Lines.partA1, execL, exec, BExpr.eval, Expr.eval, St.getFlag, St.get, St.set, h1, ha, hb,
    hge, Cmp.eval, ↓reduceIte, Bool.false_eq_true]

/-- parts C / D: a non-empty line is inserted, cached and returned -/
theorem exec_partCD (env : Env) (st : St) (hlru : env.lruOn = true) (hne : st.line ≠ []) :
    ∃ st', execL env S4V.Gen.Lines.partCD st = .ret (retOf (gLineFoEnd st.line + 1) st.line) st' ∧
      st'.store = storeAfter st.store st.fileoffset (gLineFoEnd st.line + 1) st.line ∧ st'.reads = st.reads := by
  have hlen : (st.line.length == 0) = false := by
    cases hl : st.line with
    | nil => exact absurd hl hne
    | cons _ _ => simp
  simp only [S4V.Gen.Lines.partCD, execL, exec, BExpr.eval, Expr.eval, St.get, St.set, hlru, Cmp.eval, hlen,
    Bool.false_eq_true, ↓reduceIte]
  exact ⟨_, rfl, rfl, rfl⟩


theorem walkBwd_ne_nil (d : Bytes) (bs : Nat) : ∀ fuel bof prior line, line ≠ [] →
    walkBwd d bs fuel bof prior line ≠ [] := by
  intro fuel
  induction fuel with
  | zero => intro _ _ _ h; exact h
  | succ fuel ih =>
    intro bof prior line h
    simp only [walkBwd]
    split
    · split
      · simp
      · split
        · simp
        · exact h
    · split
      · exact ih _ _ _ (by simp)
      · simp

theorem exec_A3_A4_found (env : Env) (st : St) (h : st.foundNlA = true) :
    execL env (S4V.Gen.Lines.partA3 ++ S4V.Gen.Lines.partA4) st = .norm st := by
  simp only [S4V.Gen.Lines.partA3, S4V.Gen.Lines.partA4, List.cons_append, List.nil_append, execL, exec, BExpr.eval,
    St.getFlag, h, Bool.not_true, Bool.false_and, Bool.false_eq_true, ↓reduceIte]

/-- A2a / A2b, A3, A4 / A5, C / D: the backward search for newline A, as `partA` (for `fileoffset ≠ 0`) -/
theorem exec_partA_walk (env : Env) (st : St) (hbs : 1 ≤ env.bs) (hlru : env.lruOn = true)
    (h1f : st.charszFo = 1) (h1b : st.charszBi = 1) (h0 : 1 ≤ st.fileoffset) (hfo : st.fileoffset < env.d.length)
    (hna : st.foundNlA = false) (hbo : st.boMiddle = st.fileoffset / env.bs)
    (hbi : st.biMiddle = st.fileoffset % env.bs) (hbm : st.bMiddle = st.fileoffset / env.bs)
    (tail : List Part) (hline : st.line = tail.map (ofPart env.bs)) (x n : Nat) (parts : List Part)
    (hp : partA env.d env.bs st.fileoffset st.biMiddleEnd tail x = .found n parts) :
    ∃ st', execL env (S4V.Gen.Lines.partA2 ++ S4V.Gen.Lines.partA3 ++ S4V.Gen.Lines.partA4 ++ S4V.Gen.Lines.partCD) st =
        .ret (retOf (gLineFoEnd (parts.map (ofPart env.bs)) + 1) (parts.map (ofPart env.bs))) st' ∧
      st'.store = storeAfter st.store st.fileoffset (gLineFoEnd (parts.map (ofPart env.bs)) + 1)
        (parts.map (ofPart env.bs)) := by
  have hne0 : st.fileoffset ≠ 0 := by omega
  have hmax : max st.fileoffset 1 - 1 = st.fileoffset - 1 := by
    rw [Nat.max_eq_left h0]
  have hq := Nat.div_add_mod' st.fileoffset env.bs
  have hr : st.fileoffset % env.bs < env.bs := Nat.mod_lt _ (by omega)
  simp only [partA, if_neg hne0, blockOffsetAtFileOffset_eq, blockIndexAtFileOffset_eq] at hp
  -- the tail of the program after the line is complete
  have hCD : ∀ (s : St) (ps : List Part), s.line = ps.map (ofPart env.bs) → ps ≠ [] →
      s.fileoffset = st.fileoffset → s.store = st.store →
      ∃ st', execL env S4V.Gen.Lines.partCD s =
          .ret (retOf (gLineFoEnd (ps.map (ofPart env.bs)) + 1) (ps.map (ofPart env.bs))) st' ∧
        st'.store = storeAfter st.store st.fileoffset (gLineFoEnd (ps.map (ofPart env.bs)) + 1)
          (ps.map (ofPart env.bs)) := by
    intro s ps hl hne hf hs
    obtain ⟨st', e1, e2, _⟩ := exec_partCD env s hlru (by rw [hl]; simpa using hne)
    rw [hl, hf, hs] at e2
    rw [hl] at e1
    exact ⟨st', e1, e2⟩
  rw [List.append_assoc, List.append_assoc, execL_append]
  rcases pred_block st.fileoffset env.bs hbs hne0 with ⟨hb, hr'⟩ | ⟨hr0, hb, hr'⟩
  · -- A2a: `fileoffset - 1` is in the middle block
    rw [if_pos hb] at hp
    have hfuel : (st.fileoffset - 1) % env.bs < env.d.length + 1 := by
      have := Nat.mod_le (st.fileoffset - 1) env.bs; omega
    have hbeq : ((st.fileoffset - 1) / env.bs == st.fileoffset / env.bs) = true := by simp [hb]
    simp only [S4V.Gen.Lines.partA2, execL, exec, Expr.eval, BExpr.eval, St.get, St.set, St.setFlag, St.getFlag,
      St.getBlk, blockOf, h1f, h1b, hbo, hbi, hbm, hmax, Cmp.eval, hbeq, Bool.false_eq_true, ↓reduceIte,
      blockOffsetAtFileOffset_eq, blockIndexAtFileOffset_eq]
    rw [scanBwdG_eq _ _ _ hfuel]
    rcases hscan : scanBwd (blockAt env.d env.bs (st.fileoffset / env.bs)) ((st.fileoffset - 1) % env.bs) with _ | i
    · -- newline A is not in the middle block
      rw [hscan] at hp
      simp only [] at hp
      simp only [Bool.false_eq_true, ↓reduceIte, execL, exec, Expr.eval, BExpr.eval, St.get, St.set, St.setFlag,
        St.getFlag, St.getBlk, hna, Cmp.eval, hbm, hb]
      rcases hq0 : st.fileoffset / env.bs with _ | q
      · -- the middle block is block 0: beginning of file
        rw [hb, hq0] at hp
        simp only [ne_eq, not_true_eq_false, ↓reduceIte] at hp
        injection hp with _ hp
        simp only [bne_self_eq_false, Bool.false_eq_true, ↓reduceIte, execL, exec, St.setFlag]
        rw [execL_append]
        simp only [S4V.Gen.Lines.partA3, execL, exec, BExpr.eval, St.getFlag, hna, Bool.not_false, Bool.and_self,
          ↓reduceIte, St.setFlag]
        rw [execL_append]
        simp only [S4V.Gen.Lines.partA4, execL, exec, BExpr.eval, St.getFlag, Bool.not_true, Bool.and_self,
          Bool.false_and, Bool.false_eq_true, ↓reduceIte]
        refine hCD _ parts ?_ (by rw [← hp]; simp) rfl rfl
        simp only [← hp, hline, List.map_cons, ofPart, fileOffsetAtBlockOffsetIndex_eq]
      · -- walk back through the preceding blocks
        rw [hb, hq0] at hp
        simp only [ne_eq, Nat.add_one_ne_zero, not_false_eq_true, ↓reduceIte, Nat.add_sub_cancel] at hp
        injection hp with _ hp
        have hne : (q + 1 != 0) = true := by simp
        simp only [hne, ↓reduceIte, execL, exec, Expr.eval, St.get, St.set, Nat.add_sub_cancel]
        rw [execL_append]
        simp only [S4V.Gen.Lines.partA3, execL, exec, BExpr.eval, St.getFlag, hna, Bool.not_false, Bool.true_and,
          Bool.false_eq_true, ↓reduceIte]
        rw [execL_append]
        simp only [S4V.Gen.Lines.partA4, execL, exec, BExpr.eval, St.getFlag, hna, Bool.not_false, Bool.and_self,
          ↓reduceIte, St.setBlk, St.getBlk, Expr.eval, St.get, St.set]
        rw [show env.d.length + 2 = env.d.length + 1 + 1 from rfl]
        obtain ⟨st2, w1, w2, w3, w4⟩ := while_A4 env hbs
          (fun s => partA4LoopCond.eval env s) (fun s => execL env partA4LoopBody s) (fun _ => rfl) (fun _ => rfl)
          (env.d.length + 1)
          { st with charszFo := 1, charszBi := 1, foundNlA := false, begof := false, boMiddle := q + 1, biMiddle := st.fileoffset % env.bs, bMiddle := q + 1, foStart := st.fileoffset - 1, foNlA1 := 0, biAt := 0, cBiStop := 0,
                    foU := fileOffsetAtBlockOffsetIndex (q + 1) env.bs 0,
                    line := ⟨q + 1, q + 1, 0, st.biMiddleEnd + 1, fileOffsetAtBlockOffsetIndex (q + 1) env.bs 0⟩ :: st.line,
                    bof := q, bCur := q + 1, biStart := st.fileoffset % env.bs }
          (st.biMiddleEnd + 1) tail rfl rfl rfl rfl
          (by simp only [hline, List.map_cons, ofPart])
          (by simp only; rw [hq0] at hq; omega) (by simp only; rw [hq0] at hq; have := Nat.le_mul_of_pos_right (q + 1) hbs; omega)
        simp only [] at w1 w2 w3 w4
        rw [w1]
        simp only [execL]
        rw [walkBwd_fuel env.d env.bs (env.d.length + 1) (q + 1) q _ _
          (by rw [hq0] at hq; have := Nat.le_mul_of_pos_right (q + 1) hbs; omega) (Nat.le_refl _)] at w2
        rw [hp] at w2
        have hpne : parts ≠ [] := by
          rw [← hp]; exact walkBwd_ne_nil _ _ _ _ _ _ (by simp)
        exact hCD st2 parts w2 hpne w3 w4
    · -- newline A is in the middle block
      rw [hscan] at hp
      simp only [] at hp
      injection hp with _ hp
      simp only [↓reduceIte, execL, exec, Expr.eval, BExpr.eval, St.get, St.set, St.setFlag,
        St.getFlag, St.getBlk, Cmp.eval, hbm, hb]
      have hfin : ∀ s : St, s.foundNlA = true →
          s.line = (⟨st.fileoffset / env.bs, i + 1, st.biMiddleEnd + 1⟩ :: tail).map (ofPart env.bs) →
          s.fileoffset = st.fileoffset → s.store = st.store →
          ∃ st', execL env (S4V.Gen.Lines.partA3 ++ (S4V.Gen.Lines.partA4 ++ S4V.Gen.Lines.partCD)) s = Out.ret (retOf (gLineFoEnd (parts.map (ofPart env.bs)) + 1) (parts.map (ofPart env.bs))) st' ∧
            st'.store = storeAfter st.store st.fileoffset (gLineFoEnd (parts.map (ofPart env.bs)) + 1)
              (parts.map (ofPart env.bs)) := by
        intro s hs hl hf hst
        rw [← List.append_assoc, execL_append, exec_A3_A4_found env s hs]
        simp only []
        exact hCD s parts (by rw [hl, hp]) (by rw [← hp]; simp) hf hst
      have hl : (⟨st.fileoffset / env.bs, st.fileoffset / env.bs, i + 1, st.biMiddleEnd + 1,
          fileOffsetAtBlockOffsetIndex (st.fileoffset / env.bs) env.bs i + 1⟩ : GPart) :: st.line =
          (⟨st.fileoffset / env.bs, i + 1, st.biMiddleEnd + 1⟩ :: tail).map (ofPart env.bs) := by
        simp only [hline, List.map_cons, ofPart, fileOffsetAtBlockOffsetIndex_eq, Nat.add_assoc]
      by_cases hz : (st.fileoffset / env.bs != 0) = true
      · simp only [hz, ↓reduceIte]
        exact hfin _ rfl hl rfl rfl
      · simp only [hz, Bool.false_eq_true, ↓reduceIte]
        exact hfin _ rfl hl rfl rfl
  · -- A2b: `fileoffset` is the first byte of its block
    have hnb : ¬ ((st.fileoffset - 1) / env.bs = st.fileoffset / env.bs) := by omega
    rw [if_neg hnb] at hp
    injection hp with _ hp
    have hbeq : ((st.fileoffset - 1) / env.bs == st.fileoffset / env.bs) = false := by simpa using hnb
    simp only [S4V.Gen.Lines.partA2, execL, exec, Expr.eval, BExpr.eval, St.get, St.set, St.setFlag, St.getFlag,
      St.getBlk, blockOf, h1f, h1b, hbo, hbi, hbm, hmax, Cmp.eval, hbeq, Bool.false_eq_true, ↓reduceIte,
      blockOffsetAtFileOffset_eq, blockIndexAtFileOffset_eq]
    rw [execL_append]
    simp only [S4V.Gen.Lines.partA3, execL, exec, BExpr.eval, St.getFlag, hna, Bool.not_false, Bool.true_and,
      Bool.false_eq_true, ↓reduceIte]
    rw [execL_append]
    simp only [S4V.Gen.Lines.partA4, execL, exec, BExpr.eval, St.getFlag, hna, Bool.not_false, Bool.and_self,
      ↓reduceIte, St.setBlk, St.getBlk, Expr.eval, St.get, St.set]
    rw [show env.d.length + 2 = env.d.length + 1 + 1 from rfl]
    generalize hq' : (st.fileoffset - 1) / env.bs = q at *
    have hqlt : (q + 1) * env.bs ≤ env.d.length := by rw [← hb]; omega
    have hqf : q + 1 ≤ env.d.length + 1 := by
      have := Nat.le_mul_of_pos_right (q + 1) hbs; omega
    obtain ⟨st2, w1, w2, w3, w4⟩ := while_A4 env hbs
      (fun s => partA4LoopCond.eval env s) (fun s => execL env partA4LoopBody s) (fun _ => rfl) (fun _ => rfl)
      (env.d.length + 1)
      { st with charszFo := 1, charszBi := 1, foundNlA := false, begof := false, boMiddle := st.fileoffset / env.bs,
                biMiddle := st.fileoffset % env.bs, bMiddle := st.fileoffset / env.bs,
                foStart := st.fileoffset - 1, foNlA1 := 0,
                line := ⟨st.fileoffset / env.bs, st.fileoffset / env.bs, 0, st.biMiddleEnd + 1,
                  fileOffsetAtBlockOffsetIndex (st.fileoffset / env.bs) env.bs 0⟩ :: st.line,
                bof := q, bCur := st.fileoffset / env.bs, biStart := st.fileoffset % env.bs }
      (st.biMiddleEnd + 1) tail rfl rfl rfl rfl
      (by simp only [hline, List.map_cons, ofPart, hb])
      (by simp only; exact hqlt) (by simp only; exact hqf)
    simp only [] at w1 w2 w3 w4
    rw [w1]
    simp only [execL]
    rw [hb] at hp
    rw [walkBwd_fuel env.d env.bs (env.d.length + 1) (q + 1) q _ _ hqf (Nat.le_refl _), hp] at w2
    have hpne : parts ≠ [] := by
      rw [← hp]; exact walkBwd_ne_nil _ _ _ _ _ _ (by simp)
    exact hCD st2 parts w2 hpne w3 w4


theorem lruPutG_eq (l : List (Nat × R)) (fo : Nat) (r : R) : lruPutG l fo r = lruPut l fo r := rfl

theorem exec_init (env : Env) (st : St) :
    execL env S4V.Gen.Lines.init st = .norm { st with
      foundNlA := (st.fileoffset == 0), foundNlB := false, foNlA := st.fileoffset, foNlB := st.fileoffset,
      foNlBInMiddle := false, nlBEof := false, line := [],
      boMiddle := st.fileoffset / env.bs, biMiddle := st.fileoffset % env.bs,
      biMiddleEnd := st.fileoffset % env.bs } := by
  by_cases h : (st.fileoffset == 0) = true
  · simp only [S4V.Gen.Lines.init, execL, exec, Expr.eval, BExpr.eval, St.get, St.set, St.setFlag, Cmp.eval, h,
      ↓reduceIte, blockOffsetAtFileOffset_eq, blockIndexAtFileOffset_eq]
  · have h' : (st.fileoffset == 0) = false := by simpa using h
    simp only [S4V.Gen.Lines.init, execL, exec, Expr.eval, BExpr.eval, St.get, St.set, St.setFlag, Cmp.eval, h',
      Bool.false_eq_true, ↓reduceIte, blockOffsetAtFileOffset_eq, blockIndexAtFileOffset_eq]

/-- the state the prologue leaves when nothing is cached -/
def afterPrologue (env : Env) (st : St) : St :=
  { st with charszFo := 1, charszBi := 1, filesz := env.d.length, boLast := blockOffsetLast env.d.length env.bs }

/-- the prologue is the first four cases of `findLineCached` -/
theorem exec_prologue (env : Env) (st : St) (hlru : env.lruOn = true)
    (hcs : env.checkStore = S4V.Gen.Lines.checkStore) :
    execL env S4V.Gen.Lines.prologue st =
      (match lruGet st.store.lru st.fileoffset with
        | some r => .ret (ofR r) { afterPrologue env st with
            store := { st.store with lru := lruPromote st.store.lru st.fileoffset } }
        | none =>
          if env.d.length = 0 ∨ st.fileoffset ≥ env.d.length then .ret .done (afterPrologue env st)
          else
            match linesGet st.store.lines st.fileoffset with
            | some (b, e) => .ret (.found (e + 1) b e []) { afterPrologue env st with
                store := { st.store with lru := lruPut st.store.lru st.fileoffset (.found (e + 1) b e) } }
            | none =>
              match getLinep st.store st.fileoffset with
              | some (b, e) => .ret (.found (e + 1) b e []) { afterPrologue env st with
                  store := { st.store with lru := lruPut st.store.lru st.fileoffset (.found (e + 1) b e) } }
              | none => .norm (afterPrologue env st)) := by
  simp only [S4V.Gen.Lines.prologue, execL, exec, Expr.eval, BExpr.eval, St.get, St.set, hlru, ↓reduceIte, CHARSZ,
    Cmp.eval, afterPrologue]
  rcases hl : lruGet st.store.lru st.fileoffset with _ | r
  · simp only []
    by_cases h0 : env.d.length = 0
    · simp only [h0, beq_self_eq_true, ↓reduceIte, true_or]
    · have h0' : (env.d.length == 0) = false := by simpa using h0
      simp only [h0', Bool.false_eq_true, ↓reduceIte, h0, false_or, decide_eq_true_eq]
      by_cases hgt : st.fileoffset > env.d.length
      · simp only [hgt, decide_eq_true_eq, ↓reduceIte, if_pos (Nat.le_of_lt hgt)]
      · simp only [hgt, decide_eq_true_eq, ↓reduceIte]
        by_cases heq : st.fileoffset = env.d.length
        · have : (st.fileoffset == env.d.length) = true := by simpa using heq
          simp only [this, ↓reduceIte, if_pos (Nat.le_of_eq heq.symm)]
        · have hb : (st.fileoffset == env.d.length) = false := by simpa using heq
          have hlt : ¬ (st.fileoffset ≥ env.d.length) := by omega
          simp only [hb, Bool.false_eq_true, ↓reduceIte, hlt, hcs, S4V.Gen.Lines.checkStore, storeCheckG, lookupG,
            Expr.eval, St.get, hlru, CHARSZ, ofR, lruPutG_eq]
          rcases hl1 : linesGet st.store.lines st.fileoffset with _ | ⟨b, e⟩
          · simp only []
            rcases hl2 : getLinep st.store st.fileoffset with _ | ⟨b, e⟩
            · simp only []
            · simp only []
          · simp only []
  · simp only []


theorem partB1_false {d : Bytes} {bs last fo : Nat} (h : (Model.Lines.partB1 d bs last fo).1 = false) :
    fo / bs ≠ last ∧ (Model.Lines.partB1 d bs last fo).2.1 = fo := by
  simp only [Model.Lines.partB1, blockOffsetAtFileOffset_eq] at h ⊢
  split at h
  · simp at h
  · rename_i hs
    by_cases hl : fo / bs = last
    · simp [hl] at h
    · simp only [hs, hl, ↓reduceIte, ne_eq, not_false_eq_true, and_self]

/-- parts B1 + B2: the forward search for newline B, as `partB1` / `partB2` -/
theorem exec_partB (env : Env) (st : St) (hbs : 1 ≤ env.bs) (hfo : st.fileoffset < env.d.length)
    (h1 : st.charszBi = 1) (hlast : st.boLast = blockOffsetLast env.d.length env.bs)
    (hbo : st.boMiddle = st.fileoffset / env.bs) (hbi : st.biMiddle = st.fileoffset % env.bs)
    (hnb : st.foundNlB = false) (hmid : st.foNlBInMiddle = false) (hfb : st.foNlB = st.fileoffset) :
    ∃ st', execL env (S4V.Gen.Lines.partB1 ++ S4V.Gen.Lines.partB2) st = .norm st' ∧
      st'.fileoffset = st.fileoffset ∧ st'.charszFo = st.charszFo ∧ st'.charszBi = 1 ∧
      st'.foundNlA = st.foundNlA ∧ st'.foNlA = st.foNlA ∧ st'.foundNlB = true ∧
      st'.boMiddle = st.fileoffset / env.bs ∧ st'.biMiddle = st.fileoffset % env.bs ∧
      st'.bMiddle = st.fileoffset / env.bs ∧ st'.store = st.store ∧
      st'.biMiddleEnd = (Model.Lines.partB1 env.d env.bs st.boLast st.fileoffset).2.2 ∧
      st'.foNlB = (Model.Lines.partB2 env.d env.bs st.boLast (st.fileoffset / env.bs)
        (Model.Lines.partB1 env.d env.bs st.boLast st.fileoffset).1
        (Model.Lines.partB1 env.d env.bs st.boLast st.fileoffset).2.1).2 ∧
      st'.line = st.line ++ (Model.Lines.partB2 env.d env.bs st.boLast (st.fileoffset / env.bs)
        (Model.Lines.partB1 env.d env.bs st.boLast st.fileoffset).1
        (Model.Lines.partB1 env.d env.bs st.boLast st.fileoffset).2.1).1.map (ofPart env.bs) ∧
      st'.reads = st.reads ++ st.fileoffset / env.bs :: (Model.Lines.partB2 env.d env.bs st.boLast (st.fileoffset / env.bs)
        (Model.Lines.partB1 env.d env.bs st.boLast st.fileoffset).1
        (Model.Lines.partB1 env.d env.bs st.boLast st.fileoffset).2.1).1.map (·.bo) := by
  have hn : 0 < env.d.length := by omega
  obtain ⟨a1, a2, a3, a4, hB1, hB1m⟩ := exec_partB1 env st hbs hfo h1 hlast hbo hbi hnb
  rw [execL_append]
  cases hE : execL env S4V.Gen.Lines.partB1 st with
  | brk _ => rw [hE] at hB1; cases hB1
  | ret _ _ => rw [hE] at hB1; cases hB1
  | norm S =>
    rw [hE] at hB1
    injection hB1 with hS
    simp only []
    rcases hf : (Model.Lines.partB1 env.d env.bs st.boLast st.fileoffset).1 with _ | _
    · -- newline B is in a later block
      obtain ⟨hne, h21⟩ := partB1_false hf
      have hqlast : st.fileoffset / env.bs ≤ st.boLast := by
        rw [hlast, le_blockOffsetLast_iff _ _ _ hbs hn]
        have := Nat.div_mul_le_self st.fileoffset env.bs; omega
      have hm := hB1m hf
      obtain ⟨b1, b2, b3, b4, b5, b6, hB2⟩ := exec_partB2_walk env S hbs hn (by rw [hS]; exact h1)
        (by rw [hS]; exact hlast) (by rw [hS]; exact hf) (by rw [hS]; simp only [hm, hmid])
        (by rw [hS]; simp only [hbo]; omega)
      rw [hB2]
      refine ⟨_, rfl, ?_⟩
      simp only [hS, hf, Bool.false_eq_true, ↓reduceIte, hbo, h21, hfb, List.append_assoc, List.cons_append,
        List.nil_append, and_self, true_and]
      exact ⟨h1, hbi, trivial⟩
    · rw [exec_partB2_found env S (by rw [hS]; exact hf)]
      refine ⟨_, rfl, ?_⟩
      simp only [hS, hf, ↓reduceIte, hbo, Model.Lines.partB2, List.map_nil, List.append_nil, and_self, true_and]
      exact ⟨h1, hbi, trivial⟩


/-- bounds of a chain of parts, read the way `Line::fileoffset_begin` / `fileoffset_end` read them -/
theorem Chain.gBounds {bs n : Nat} : ∀ {ps : List Part} {a b : Nat}, Chain bs n a b ps → ps ≠ [] →
    gLineFoBeg (ps.map (ofPart bs)) = a ∧ gLineFoEnd (ps.map (ofPart bs)) + 1 = b
  | [], _, _, _, hne => absurd rfl hne
  | [p], a, b, h, _ => by
    simp only [Chain] at h
    simp only [gLineFoBeg, gLineFoEnd, List.map_cons, List.map_nil, List.head?_cons, List.getLast?_singleton, ofPart,
      fileOffsetAtBlockOffsetIndex_eq]
    omega
  | p :: q :: ps, a, b, h, _ => by
    simp only [Chain] at h
    have ih := Chain.gBounds (ps := q :: ps) (by simpa only [Chain] using h.2.2.2.2) (List.cons_ne_nil _ _)
    simp only [gLineFoBeg, gLineFoEnd, List.map_cons, List.head?_cons, List.getLast?_cons_cons, ofPart,
      fileOffsetAtBlockOffsetIndex_eq] at ih ⊢
    exact ⟨h.1, ih.2⟩

theorem walkFwd_bo_ge (d : Bytes) (bs last : Nat) : ∀ fuel bof, ∀ p ∈ (walkFwd d bs last fuel bof).1, bof ≤ p.bo := by
  intro fuel
  induction fuel with
  | zero => intro bof p hp; simp [walkFwd] at hp
  | succ fuel ih =>
    intro bof p hp
    simp only [walkFwd] at hp
    split at hp
    · simp at hp
    · split at hp
      · simp only [List.mem_singleton] at hp; subst hp; exact Nat.le_refl _
      · simp only [List.mem_cons] at hp
        rcases hp with rfl | hp
        · exact Nat.le_refl _
        · have := ih (bof + 1) p hp; omega

theorem partB2_bo_gt (d : Bytes) (bs last boM : Nat) (fb : Bool) (f : Nat) :
    ∀ p ∈ (Model.Lines.partB2 d bs last boM fb f).1, boM < p.bo := by
  intro p hp
  simp only [Model.Lines.partB2] at hp
  split at hp
  · simp at hp
  · split at hp
    · exact walkFwd_bo_ge d bs last _ _ p hp
    · exact walkFwd_bo_ge d bs last _ _ p hp

/-- what the regenerated `find_line` does when neither cache knows `fo` -/
theorem findLineG_walk (bs : Nat) (d : Bytes) (s : Store) (fo : Nat) (hbs : 1 ≤ bs) (hfo : fo < d.length)
    (hlru : lruGet s.lru fo = none) (hl : linesGet s.lines fo = none) (hg : getLinep s fo = none) :
    ∃ (parts : List Part) (n : Nat) (reads : List Nat),
      findLineG bs d s fo = (retOf n (parts.map (ofPart bs)), storeAfter s fo n (parts.map (ofPart bs)), reads) ∧
      (if fo = 0 ∨ (linesGet s.lines (fo - 1)).isSome = true ∨ (getLinep s (fo - 1)).isSome = true then
        parts = ⟨fo / bs, fo % bs, (Model.Lines.partB1 d bs (blockOffsetLast d.length bs) fo).2.2 + 1⟩ ::
          (Model.Lines.partB2 d bs (blockOffsetLast d.length bs) (fo / bs)
            (Model.Lines.partB1 d bs (blockOffsetLast d.length bs) fo).1
            (Model.Lines.partB1 d bs (blockOffsetLast d.length bs) fo).2.1).1 ∧
        n = (Model.Lines.partB2 d bs (blockOffsetLast d.length bs) (fo / bs)
            (Model.Lines.partB1 d bs (blockOffsetLast d.length bs) fo).1
            (Model.Lines.partB1 d bs (blockOffsetLast d.length bs) fo).2.1).2 + 1 ∧
        reads = parts.map (·.bo)
      else
        n = gLineFoEnd (parts.map (ofPart bs)) + 1 ∧
        ∃ m, findLine bs d fo = .found m parts) := by
  have hq := Nat.div_add_mod' fo bs
  obtain ⟨env, henv⟩ : ∃ env : Env, env = { bs := bs, d := d, checkStore := S4V.Gen.Lines.checkStore } := ⟨_, rfl⟩
  have hebs : env.bs = bs := by rw [henv]
  have hed : env.d = d := by rw [henv]
  have helru : env.lruOn = true := by rw [henv]
  have hecs : env.checkStore = S4V.Gen.Lines.checkStore := by rw [henv]
  have hbs' : 1 ≤ env.bs := by rw [hebs]; exact hbs
  have hpro := exec_prologue env { fileoffset := fo, store := s } helru hecs
  simp only [hlru, hl, hg] at hpro
  rw [if_neg (show ¬ (env.d.length = 0 ∨ fo ≥ env.d.length) by rw [hed]; omega)] at hpro
  have hinit := exec_init env (afterPrologue env { fileoffset := fo, store := s })
  obtain ⟨st4, hB, f1, f2, f3, f4, f5, f6, f7, f8, f9, f10, f11, f12, f13, f14⟩ := exec_partB env
    { afterPrologue env { fileoffset := fo, store := s } with
      foundNlA := (fo == 0), foundNlB := false, foNlA := fo, foNlB := fo,
      foNlBInMiddle := false, nlBEof := false, line := [],
      boMiddle := fo / env.bs, biMiddle := fo % env.bs, biMiddleEnd := fo % env.bs }
    hbs' (by rw [hed]; exact hfo) rfl rfl rfl rfl rfl rfl rfl
  simp only [afterPrologue, List.nil_append, hebs, hed] at f1 f2 f3 f4 f5 f6 f7 f8 f9 f10 f11 f12 f13 f14
  -- run the program up to the end of part B
  have hrun : ∀ rest : List Stmt,
      execL env (S4V.Gen.Lines.prologue ++ (S4V.Gen.Lines.init ++ ((S4V.Gen.Lines.partB1 ++ S4V.Gen.Lines.partB2) ++ rest)))
        { fileoffset := fo, store := s } = execL env rest st4 := by
    intro rest
    rw [execL_append, hpro]
    simp only []
    rw [execL_append, hinit]
    simp only []
    rw [execL_append]
    simp only [afterPrologue] at hB ⊢
    rw [hB]
  have hprog : S4V.Gen.Lines.findLine = S4V.Gen.Lines.prologue ++ (S4V.Gen.Lines.init ++
      ((S4V.Gen.Lines.partB1 ++ S4V.Gen.Lines.partB2) ++ (S4V.Gen.Lines.partA0 ++ (S4V.Gen.Lines.asserts ++
      (S4V.Gen.Lines.partA1 ++ (S4V.Gen.Lines.partA2 ++ S4V.Gen.Lines.partA3 ++ S4V.Gen.Lines.partA4 ++
        S4V.Gen.Lines.partCD)))))) := by
    simp only [S4V.Gen.Lines.findLine, List.append_assoc]
  unfold findLineG runFind
  rw [← henv, hprog, hrun]
  have hhead : ∀ m : Nat, (⟨fo / bs, fo / bs, fo % bs, m, fo⟩ : GPart) = ofPart bs ⟨fo / bs, fo % bs, m⟩ := by
    intro m; simp only [ofPart, fileOffsetAtBlockOffsetIndex_eq, hq]
  have hfl : findLine bs d fo = partA d bs fo (Model.Lines.partB1 d bs (blockOffsetLast d.length bs) fo).2.2
      (Model.Lines.partB2 d bs (blockOffsetLast d.length bs) (fo / bs)
        (Model.Lines.partB1 d bs (blockOffsetLast d.length bs) fo).1
        (Model.Lines.partB1 d bs (blockOffsetLast d.length bs) fo).2.1).1
      (Model.Lines.partB2 d bs (blockOffsetLast d.length bs) (fo / bs)
        (Model.Lines.partB1 d bs (blockOffsetLast d.length bs) fo).1
        (Model.Lines.partB1 d bs (blockOffsetLast d.length bs) fo).2.1).2 := by
    simp only [Model.Lines.findLine, blockOffsetAtFileOffset_eq]
    rw [if_neg (by omega)]
  generalize hM : (Model.Lines.partB1 d bs (blockOffsetLast d.length bs) fo).2.2 = M at *
  generalize hT : (Model.Lines.partB2 d bs (blockOffsetLast d.length bs) (fo / bs)
        (Model.Lines.partB1 d bs (blockOffsetLast d.length bs) fo).1
        (Model.Lines.partB1 d bs (blockOffsetLast d.length bs) fo).2.1) = T at *
  by_cases h0 : fo = 0
  · -- A0
    have hA : st4.foundNlA = true := by rw [f4]; simp [h0]
    obtain ⟨st', e1, e2, e3⟩ := exec_partA0_ret env st4 helru hA f2
    rw [execL_append, e1]
    simp only []
    refine ⟨⟨fo / bs, fo % bs, M + 1⟩ :: T.1, T.2 + 1, (⟨fo / bs, fo % bs, M + 1⟩ :: T.1).map (·.bo), ?_, ?_⟩
    · rw [e2, e3, f5, f9, f11, f12, f13, f1, f10, f14, hebs, hhead]
      simp only [List.map_cons, h0, List.nil_append]
    · rw [if_pos (Or.inl h0)]
      exact ⟨rfl, rfl, by simp⟩
  · have hA : st4.foundNlA = false := by rw [f4]; simpa using h0
    rw [execL_append, exec_partA0_skip env st4 hA]
    simp only []
    rw [execL_append, exec_asserts env st4 hA f6]
    simp only []
    by_cases hquick : (linesGet s.lines (fo - 1)).isSome = true ∨ (getLinep s (fo - 1)).isSome = true
    · -- A1a / A1b
      obtain ⟨st', e1, e2, e3⟩ := exec_partA1_quick env st4 helru f2 (by rw [f1]; omega) (by rw [f1, f10]; exact hquick)
      rw [execL_append, e1]
      simp only []
      refine ⟨⟨fo / bs, fo % bs, M + 1⟩ :: T.1, T.2 + 1, (⟨fo / bs, fo % bs, M + 1⟩ :: T.1).map (·.bo), ?_, ?_⟩
      · rw [e2, e3, f9, f11, f12, f13, f1, f10, f14, hebs, hhead]
        simp only [List.map_cons, List.nil_append]
      · rw [if_pos (Or.inr hquick)]
        exact ⟨rfl, rfl, by simp⟩
    · -- A2 … A5
      have hq1 : (linesGet s.lines (fo - 1)).isSome = false := by
        have := not_or.mp hquick; simpa using this.1
      have hq2 : (getLinep s (fo - 1)).isSome = false := by
        have := not_or.mp hquick; simpa using this.2
      rw [execL_append, exec_partA1_skip env st4 f2 (by rw [f1]; omega) (by rw [f1, f10]; exact hq1)
        (by rw [f1, f10]; exact hq2)]
      simp only []
      obtain ⟨parts, hfind, _⟩ := findLine_chain bs d fo hbs hfo
      obtain ⟨st', e1, e2⟩ := exec_partA_walk env { st4 with foU := st4.fileoffset - 1 } hbs' helru f2 f3
        (by simp only [f1]; omega) (by simp only [f1, hed]; exact hfo) hA (by simp only [f7, f1, hebs])
        (by simp only [f8, f1, hebs]) (by simp only [f9, f1, hebs]) T.1 (by simp only [f13, hebs]) T.2 _ parts
        (by simp only [f1, f11, hebs, hed]; rw [← hfl]; exact hfind)
      rw [e1]
      simp only []
      refine ⟨parts, gLineFoEnd (parts.map (ofPart bs)) + 1, st'.reads, ?_, ?_⟩
      · rw [e2]; simp only [f1, f10, hebs]
      · rw [if_neg (by simp only [not_or]; exact ⟨h0, not_or.mp hquick⟩)]
        exact ⟨rfl, _, hfind⟩


/-- what the regenerated `find_line` does when a cache knows `fo`, or `fo` is past the end: the first four
cases of `findLineCached`, and no block is read -/
theorem findLineG_nowalk (bs : Nat) (d : Bytes) (s : Store) (fo : Nat)
    (h : lruGet s.lru fo ≠ none ∨ d.length = 0 ∨ fo ≥ d.length ∨ linesGet s.lines fo ≠ none ∨ getLinep s fo ≠ none) :
    findLineG bs d s fo = (ofR (findLineCached d s fo).1, (findLineCached d s fo).2, []) := by
  obtain ⟨env, henv⟩ : ∃ env : Env, env = { bs := bs, d := d, checkStore := S4V.Gen.Lines.checkStore } := ⟨_, rfl⟩
  have hed : env.d = d := by rw [henv]
  have helru : env.lruOn = true := by rw [henv]
  have hecs : env.checkStore = S4V.Gen.Lines.checkStore := by rw [henv]
  have hpro := exec_prologue env { fileoffset := fo, store := s } helru hecs
  simp only [hed] at hpro
  have hprog : S4V.Gen.Lines.findLine = S4V.Gen.Lines.prologue ++ (S4V.Gen.Lines.init ++ (S4V.Gen.Lines.partB1 ++
      (S4V.Gen.Lines.partB2 ++ (S4V.Gen.Lines.partA0 ++ (S4V.Gen.Lines.asserts ++ (S4V.Gen.Lines.partA1 ++
      (S4V.Gen.Lines.partA2 ++ (S4V.Gen.Lines.partA3 ++ (S4V.Gen.Lines.partA4 ++ S4V.Gen.Lines.partCD))))))))) := by
    simp only [S4V.Gen.Lines.findLine, List.append_assoc]
  unfold findLineG runFind
  rw [← henv, hprog, execL_append, hpro]
  unfold findLineCached
  rcases hl : lruGet s.lru fo with _ | r
  · simp only []
    by_cases hd : d.length = 0 ∨ fo ≥ d.length
    · rw [if_pos hd, if_pos hd]; rfl
    · rw [if_neg hd, if_neg hd]
      rcases hl1 : linesGet s.lines fo with _ | ⟨b, e⟩
      · simp only []
        rcases hl2 : getLinep s fo with _ | ⟨b, e⟩
        · exfalso
          rcases h with h | h | h | h | h
          · exact h hl
          · exact hd (Or.inl h)
          · exact hd (Or.inr h)
          · exact h hl1
          · exact h hl2
        · rfl
      · rfl
  · rfl


end S4V.Lemmas.LineSkel
