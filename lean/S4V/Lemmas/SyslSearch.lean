/-
`lsearch` and `bsearch` (property C03) over the abstract view
"`findSysline ls = fsM M`, `M` contiguous, ends at `fileSz ls`".
-/
import S4V.Lemmas.SyslPart

namespace S4V.Lemmas.Syslines
open S4V.Model.Syslines S4V.Gen.Filter

/-- what the search layers use of a file: its messages `M` (contiguous from `s0`
up to `fileSz ls`) and `findSysline` as a function of `M` -/
structure Ctx (ls : List LineInfo) (M : List Sysl) (s0 : Nat) : Prop where
  find : ∀ fo, findSysline ls fo = fsM M fo
  contig : MContig s0 M
  sz : mEnd s0 M = fileSz ls
  len : M.length ≤ ls.length

theorem Ctx.of_wf {ls : List LineInfo} (hwf : WFLines ls) :
    Ctx ls (messages ls) (firstHeadBeg ls) :=
  ⟨findSysline_eq hwf, (messages_geom hwf).1, (messages_geom hwf).2, messages_length_le ls⟩

/-- `F` is a legitimate start offset for the suffix after `M1`: the first byte of
that suffix, or any offset before the first message when `M1 = []` -/
def StartAt (s0 : Nat) (M1 : List Sysl) (F : Nat) : Prop :=
  (M1 = [] ∧ F ≤ s0) ∨ F = mEnd s0 M1

/-- first message of `M2` with `dt ≥ a` (any message when `a = none`) -/
def firstGE (a : Option Int) (M2 : List Sysl) : S4V.Model.Syslines.Res :=
  match M2.find? (fun m => decide (geA a m.dt)) with
  | some m => .found (m.fin + 1) m
  | none => .done

@[simp] theorem firstGE_nil (a : Option Int) : firstGE a [] = .done := rfl

theorem firstGE_cons_pos {a : Option Int} {m : Sysl} {r : List Sysl} (h : geA a m.dt) :
    firstGE a (m :: r) = .found (m.fin + 1) m := by
  simp [firstGE, h]

theorem firstGE_cons_neg {a : Option Int} {m : Sysl} {r : List Sysl} (h : ¬ geA a m.dt) :
    firstGE a (m :: r) = firstGE a r := by
  simp [firstGE, h]

theorem firstGE_append_neg {a : Option Int} {L R : List Sysl} (h : ∀ m ∈ L, ¬ geA a m.dt) :
    firstGE a (L ++ R) = firstGE a R := by
  induction L with
  | nil => rfl
  | cons m r ih =>
    rw [List.cons_append, firstGE_cons_neg (h m (by simp))]
    exact ih (fun x hx => h x (by simp [hx]))

/-- the first message of `M2`, as a `findSysline` result -/
def headRes : List Sysl → S4V.Model.Syslines.Res
  | [] => .done
  | m :: _ => .found (m.fin + 1) m

@[simp] theorem headRes_nil : headRes [] = .done := rfl
@[simp] theorem headRes_cons (m : Sysl) (r : List Sysl) : headRes (m :: r) = .found (m.fin + 1) m := rfl

section
variable {ls : List LineInfo} {M : List Sysl} {s0 : Nat}

theorem Ctx.fsM_start (hc : Ctx ls M s0) {M1 M2 : List Sysl} (hM : M = M1 ++ M2) {F : Nat}
    (hF : StartAt s0 M1 F) :
    findSysline ls F = headRes M2 := by
  rw [hc.find]
  have hcg := hc.contig
  rw [hM] at hcg ⊢
  obtain ⟨hc1, hc2⟩ := (MContig_append _ _ _).1 hcg
  have e : fsM (M1 ++ M2) F = fsM M2 F := by
    rcases hF with ⟨rfl, _⟩ | rfl
    · rfl
    · exact fsM_append_ge hc1 (Nat.le_refl _)
  rw [e]
  cases M2 with
  | nil => rfl
  | cons m r =>
    have hb : m.beg = mEnd s0 M1 ∧ m.beg ≤ m.fin := ⟨hc2.1, hc2.2.1⟩
    have : F ≤ m.fin := by
      rcases hF with ⟨rfl, h⟩ | rfl
      · simp at hb; omega
      · omega
    rw [fsM_cons_le this, headRes_cons]

theorem StartAt.next {M1 : List Sysl} {F : Nat} (m : Sysl) (_h : StartAt s0 M1 F) :
    StartAt s0 (M1 ++ [m]) (m.fin + 1) := by
  right; rw [mEnd_append]; rfl

theorem StartAt.zero : StartAt s0 ([] : List Sysl) 0 := Or.inl ⟨rfl, Nat.zero_le _⟩

/-! ### linear search -/

theorem lsearch_suffix (hc : Ctx ls M s0) (a : Option Int) :
    ∀ (M2 M1 : List Sysl) (F fuel : Nat), M = M1 ++ M2 → StartAt s0 M1 F →
      M2.length + 1 ≤ fuel → lsearch ls a fuel F = firstGE a M2 := by
  intro M2
  induction M2 with
  | nil =>
    intro M1 F fuel hM hF hf
    obtain ⟨f, rfl⟩ : ∃ f, fuel = f + 1 := ⟨fuel - 1, by omega⟩
    have := hc.fsM_start hM hF
    simp [lsearch, this]
  | cons m r ih =>
    intro M1 F fuel hM hF hf
    obtain ⟨f, rfl⟩ : ∃ f, fuel = f + 1 := ⟨fuel - 1, by omega⟩
    have := hc.fsM_start hM hF
    simp only [lsearch, this, headRes_cons]
    cases a with
    | none => simp [firstGE_cons_pos]
    | some A =>
      by_cases hlt : m.dt < A
      · rw [dtAfterOrBefore_some_lt hlt, firstGE_cons_neg (by simp; omega)]
        exact ih (M1 ++ [m]) (m.fin + 1) f (by simp [hM]) (hF.next m) (by simp at hf; omega)
      · rw [dtAfterOrBefore_some_ge (by omega), firstGE_cons_pos (by simp; omega)]

end

/-! ### binary search -/

theorem isSyslineLast_iff (ls : List LineInfo) (s : Sysl) :
    isSyslineLast ls s = true ↔ s.fin + 1 = fileSz ls := by
  simp [isSyslineLast]

/-- threshold view of a sorted file for the filter `A`: offsets below `T` lead
to messages `< A` (of at least two bytes), offsets from `T` on to messages `≥ A`
that begin at or after `T`; `ans` is the message beginning at `T` -/
structure Thr (ls : List LineInfo) (A : Int) (T : Nat) (ans : S4V.Model.Syslines.Res) : Prop where
  T_le : T ≤ fileSz ls
  below : ∀ fo, fo < T → ∃ s, findSysline ls fo = .found (s.fin + 1) s ∧ s.dt < A ∧
    fo ≤ s.fin ∧ s.fin < T ∧ s.beg < s.fin
  above : ∀ fo, T ≤ fo → fo < fileSz ls → ∃ s, findSysline ls fo = .found (s.fin + 1) s ∧
    A ≤ s.dt ∧ T ≤ s.beg ∧ s.beg ≤ fo
  ans_last : T = fileSz ls → ans = .done
  ans_next : T < fileSz ls → ans = findSysline ls T

section
variable {ls : List LineInfo} {A : Int} {T : Nat} {ans : S4V.Model.Syslines.Res}

/-- one iteration with the probe below the threshold -/
theorem bs_before (hT : Thr ls A T ans) (F : Nat) {tf fb : Nat} (tfl fa : Nat)
    (last : Option Sysl) (fuel : Nat) (h1 : tf < T) (h2 : T ≤ fb) :
    ∃ s : Sysl, s.fin < T ∧ tf ≤ s.fin ∧
      bsearchLoop ls F (some A) (fuel + 1) ⟨tf, tfl, fa, fb, last⟩ =
        if s.fin + (fb - s.fin) / 2 = tf then ans
        else bsearchLoop ls F (some A) fuel ⟨s.fin + (fb - s.fin) / 2, tf, s.fin, fb, some s⟩ := by
  obtain ⟨s, hfind, hlt, hb1, hb2, hb3⟩ := hT.below tf h1
  refine ⟨s, hb2, hb1, ?_⟩
  have hmin : min s.fin fb = s.fin := Nat.min_eq_left (by omega)
  rw [bsearchLoop]
  simp only [hfind, dtAfterOrBefore_some_lt hlt, hmin]
  by_cases hc : s.fin + (fb - s.fin) / 2 = tf
  · have e1 : tf = s.fin := by omega
    have e2 : T = s.fin + 1 := by omega
    have hbeg : s.beg < tf := by omega
    simp only [hc, ne_eq, not_true_eq_false, if_false, if_true,
      Bool.false_eq_true, hbeg, decide_true, Bool.and_true]
    by_cases hl : T = fileSz ls
    · have : isSyslineLast ls s = true := (isSyslineLast_iff ls s).2 (by omega)
      simp [this, hT.ans_last hl]
    · have hne : ¬ isSyslineLast ls s = true := by
        rw [isSyslineLast_iff]; omega
      have hlt' : T < fileSz ls := by have := hT.T_le; omega
      obtain ⟨sn, hf2, hge, _, _⟩ := hT.above T (Nat.le_refl _) hlt'
      rw [hT.ans_next hlt', ← e2, hf2]
      simp [hne, dtAfterOrBefore_some_ge hge]
  · simp [hc]

/-- one iteration with the probe at or above the threshold -/
theorem bs_after (hT : Thr ls A T ans) {F : Nat} {tf fa fb : Nat} (tfl : Nat)
    (last : Option Sysl) (fuel : Nat) (h1 : T ≤ tf) (h2 : tf < fb) (h3 : fb ≤ fileSz ls)
    (h4 : fa < T) (hF : tf ≠ F) :
    ∃ s : Sysl, T ≤ s.beg ∧ s.beg ≤ tf ∧
      bsearchLoop ls F (some A) (fuel + 1) ⟨tf, tfl, fa, fb, last⟩ =
        bsearchLoop ls F (some A) fuel ⟨fa + (s.beg - fa) / 2, tf, fa, s.beg, some s⟩ := by
  obtain ⟨s, hfind, hge, hb1, hb2⟩ := hT.above tf h1 (by omega)
  refine ⟨s, hb1, hb2, ?_⟩
  have hmin : min s.beg tf = s.beg := Nat.min_eq_left hb2
  have hgt : ¬ fa > s.beg := by omega
  have hne : fa + (s.beg - fa) / 2 ≠ tf := by omega
  rw [bsearchLoop]
  simp only [hfind, dtAfterOrBefore_some_ge hge, hmin, hF, if_false, hgt]
  simp [hne]

theorem bs_loop (hT : Thr ls A T ans) {F : Nat} (hF : F < T) :
    ∀ (fuel tfl fa fb : Nat) (last : Option Sysl), fa < T → T ≤ fb → fb ≤ fileSz ls →
      fb - fa < fuel →
      bsearchLoop ls F (some A) fuel ⟨fa + (fb - fa) / 2, tfl, fa, fb, last⟩ = ans := by
  intro fuel
  induction fuel with
  | zero => intro tfl fa fb last h1 h2 h3 h4; omega
  | succ f ih =>
    intro tfl fa fb last h1 h2 h3 h4
    by_cases hlt : fa + (fb - fa) / 2 < T
    · obtain ⟨s, hs1, hs2, heq⟩ := bs_before hT F tfl fa last f hlt h2
      rw [heq]
      split
      · rfl
      · next hne =>
        exact ih _ s.fin fb (some s) hs1 h2 h3 (by omega)
    · obtain ⟨s, hs1, hs2, heq⟩ := bs_after hT (F := F) tfl last f (Nat.le_of_not_lt hlt)
        (by omega) h3 h1 (by omega)
      rw [heq]
      exact ih _ fa s.beg (some s) h1 hs1 (by omega) (by omega)

/-- binary search below the threshold finds the message beginning at `T` -/
theorem bsearch_thr (hT : Thr ls A T ans) {F : Nat} (hF : F < T) : bsearch ls F (some A) = ans := by
  unfold bsearch
  have e : 2 * fileSz ls + 8 = (2 * fileSz ls + 7) + 1 := by omega
  rw [e]
  obtain ⟨s, hs1, hs2, heq⟩ := bs_before hT F F F none (2 * fileSz ls + 7) hF hT.T_le
  rw [heq]
  split
  · rfl
  · exact bs_loop hT hF _ F s.fin (fileSz ls) (some s) hs1 hT.T_le (Nat.le_refl _) (by omega)

end

/-- first probe at the start offset already satisfies the filter -/
theorem bsearch_first_hit {ls : List LineInfo} {F : Nat} {a : Option Int} {m : Sysl}
    (hfind : findSysline ls F = .found (m.fin + 1) m) (hge : geA a m.dt) :
    bsearch ls F a = .found (m.fin + 1) m := by
  unfold bsearch
  have e : 2 * fileSz ls + 8 = (2 * fileSz ls + 7) + 1 := by omega
  rw [e, bsearchLoop]
  cases a with
  | none => simp [hfind]
  | some A => simp [hfind, dtAfterOrBefore_some_ge ((geA_some A m.dt).1 hge)]

/-- nothing at or after the start offset -/
theorem bsearch_all_done {ls : List LineInfo} {F : Nat} (a : Option Int)
    (h : ∀ x, F ≤ x → findSysline ls x = .done) : bsearch ls F a = .done := by
  unfold bsearch
  have e : 2 * fileSz ls + 8 = (2 * fileSz ls + 6) + 1 + 1 := by omega
  rw [e, bsearchLoop]
  simp only [h F (Nat.le_refl _)]
  by_cases hc : F + (fileSz ls - F) / 2 = F
  · simp [hc]
  · simp only [hc, Bool.true_and, decide_false, Bool.false_eq_true, if_false, ne_eq,
      not_false_eq_true, if_true]
    rw [bsearchLoop]
    simp [h (F + (fileSz ls - F) / 2) (by omega)]

/-! ### from the message list to the threshold view -/

/-- the `dt` of the messages is non-decreasing -/
def SortedM (M : List Sysl) : Prop := M.Pairwise (fun a b => a.dt ≤ b.dt)

/-- every message has at least two bytes -/
def TwoBytesM (M : List Sysl) : Prop := ∀ m ∈ M, m.beg < m.fin

theorem fsM_in_prefix_ge {s : Nat} {L R : List Sysl} (h : MContig s L) {fo : Nat}
    (h1 : s ≤ fo) (hfo : fo < mEnd s L) :
    ∃ m ∈ L, fsM (L ++ R) fo = .found (m.fin + 1) m ∧ fo ≤ m.fin := by
  induction L generalizing s with
  | nil => simp at hfo; omega
  | cons m r ih =>
    obtain ⟨e1, e2, e3⟩ := h
    by_cases hle : fo ≤ m.fin
    · exact ⟨m, by simp, by rw [List.cons_append, fsM_cons_le hle], hle⟩
    · obtain ⟨x, hx, he, hb⟩ := ih e3 (by omega) (by simpa using hfo)
      exact ⟨x, by simp [hx], by rw [List.cons_append, fsM_cons_gt hle]; exact he, hb⟩

theorem fsM_in_prefix {s : Nat} {L R : List Sysl} (h : MContig s L) (hne : L ≠ []) {fo : Nat}
    (hfo : fo < mEnd s L) : ∃ m ∈ L, fsM (L ++ R) fo = .found (m.fin + 1) m ∧ fo ≤ m.fin := by
  cases L with
  | nil => exact absurd rfl hne
  | cons m r =>
    obtain ⟨e1, e2, e3⟩ := h
    by_cases hle : fo ≤ m.fin
    · exact ⟨m, by simp, by rw [List.cons_append, fsM_cons_le hle], hle⟩
    · obtain ⟨x, hx, he, hb⟩ := fsM_in_prefix_ge (R := R) (fo := fo) e3 (by omega) (by simpa using hfo)
      exact ⟨x, by simp [hx], by rw [List.cons_append, fsM_cons_gt hle]; exact he, hb⟩

theorem fsM_inside {s : Nat} {R : List Sysl} (h : MContig s R) {fo : Nat} (h1 : s ≤ fo)
    (hfo : fo < mEnd s R) :
    ∃ m ∈ R, fsM R fo = .found (m.fin + 1) m ∧ m.beg ≤ fo ∧ fo ≤ m.fin := by
  induction R generalizing s with
  | nil => simp at hfo; omega
  | cons m r ih =>
    obtain ⟨e1, e2, e3⟩ := h
    by_cases hle : fo ≤ m.fin
    · exact ⟨m, by simp, fsM_cons_le hle, by omega, hle⟩
    · obtain ⟨x, hx, he, hb⟩ := ih e3 (by omega) (by simpa using hfo)
      exact ⟨x, by simp [hx], by rw [fsM_cons_gt hle]; exact he, hb⟩

theorem Thr.of_split {ls : List LineInfo} {M : List Sysl} {s0 : Nat} (hc : Ctx ls M s0)
    {L R : List Sysl} (hM : M = L ++ R) {A : Int} (hL : ∀ m ∈ L, m.dt < A)
    (hR : ∀ m ∈ R, A ≤ m.dt) (h2 : ∀ m ∈ L, m.beg < m.fin) (hne : L ≠ []) :
    Thr ls A (mEnd s0 L) (headRes R) := by
  have hcg := hc.contig
  have hsz := hc.sz
  rw [hM] at hcg hsz
  obtain ⟨hc1, hc2⟩ := (MContig_append _ _ _).1 hcg
  rw [mEnd_append] at hsz
  have hTle : mEnd s0 L ≤ fileSz ls := by rw [← hsz]; exact hc2.le_mEnd
  have habove : ∀ fo, mEnd s0 L ≤ fo → fo < fileSz ls →
      ∃ s, s ∈ R ∧ findSysline ls fo = .found (s.fin + 1) s ∧ A ≤ s.dt ∧ mEnd s0 L ≤ s.beg ∧
        s.beg ≤ fo := by
    intro fo h1 h3
    rw [hc.find, hM, fsM_append_ge hc1 h1]
    obtain ⟨m, hm, he, hb1, hb2⟩ := fsM_inside hc2 h1 (by omega)
    exact ⟨m, hm, he, hR m hm, (hc2.mem_bounds hm).1, hb1⟩
  refine ⟨hTle, ?_, ?_, ?_, ?_⟩
  · intro fo hfo
    obtain ⟨m, hm, he, hb⟩ := fsM_in_prefix (R := R) hc1 hne hfo
    refine ⟨m, by rw [hc.find, hM]; exact he, hL m hm, hb, (hc1.mem_bounds hm).2.2, h2 m hm⟩
  · intro fo h1 h3
    obtain ⟨s, _, h⟩ := habove fo h1 h3
    exact ⟨s, h⟩
  · intro hT
    cases R with
    | nil => rfl
    | cons r R' =>
      have := hc2.lt_mEnd (by simp)
      omega
  · intro hT
    cases R with
    | nil => simp at hsz; omega
    | cons r R' =>
      rw [hc.find, hM, fsM_append_ge hc1 (Nat.le_refl _)]
      have : mEnd s0 L ≤ r.fin := by have := hc2.1; have := hc2.2.1; omega
      rw [fsM_cons_le this]; rfl

theorem sorted_split {M2 : List Sysl} (hs : SortedM M2) (A : Int) :
    ∃ L R, M2 = L ++ R ∧ (∀ m ∈ L, m.dt < A) ∧ (∀ m ∈ R, A ≤ m.dt) := by
  induction M2 with
  | nil => exact ⟨[], [], rfl, by simp, by simp⟩
  | cons m r ih =>
    obtain ⟨h1, h2⟩ := List.pairwise_cons.1 hs
    by_cases hlt : m.dt < A
    · obtain ⟨L, R, rfl, hL, hR⟩ := ih h2
      refine ⟨m :: L, R, rfl, ?_, hR⟩
      intro x hx
      rcases List.mem_cons.1 hx with rfl | hx
      · exact hlt
      · exact hL x hx
    · refine ⟨[], m :: r, rfl, by simp, ?_⟩
      intro x hx
      rcases List.mem_cons.1 hx with rfl | hx
      · omega
      · have := h1 x hx; omega

/-- **binary search from a message boundary** finds the first message of the
suffix with `dt ≥ a` -/
theorem bsearch_suffix {ls : List LineInfo} {M : List Sysl} {s0 : Nat} (hc : Ctx ls M s0)
    (hs : SortedM M) (h2 : TwoBytesM M) (a : Option Int) {M1 M2 : List Sysl} (hM : M = M1 ++ M2)
    {F : Nat} (hF : StartAt s0 M1 F) : bsearch ls F a = firstGE a M2 := by
  have hfind := hc.fsM_start hM hF
  cases M2 with
  | nil =>
    rw [firstGE_nil]
    apply bsearch_all_done
    intro x hx
    rw [hc.find]
    have hcg := hc.contig
    rcases hF with ⟨rfl, _⟩ | rfl
    · simp at hM; subst hM; rfl
    · apply fsM_beyond hcg
      simp at hM; subst hM; exact hx
  | cons m r =>
    rw [headRes_cons] at hfind
    by_cases hge : geA a m.dt
    · rw [firstGE_cons_pos hge]
      exact bsearch_first_hit hfind hge
    · cases a with
      | none => simp at hge
      | some A =>
        have hlt : m.dt < A := by simp at hge; omega
        have hs2 : SortedM (m :: r) := by
          rw [hM] at hs
          exact (List.pairwise_append.1 hs).2.1
        obtain ⟨L, R, hLR, hL, hR⟩ := sorted_split hs2 A
        have hLne : L ≠ [] := by
          intro hnil
          subst hnil
          simp at hLR
          have := hR m (by rw [← hLR]; simp)
          omega
        have hM' : M = (M1 ++ L) ++ R := by rw [hM, hLR]; simp
        obtain ⟨l0, hl0⟩ : ∃ l0, l0 ∈ L := by
          cases L with
          | nil => exact absurd rfl hLne
          | cons x _ => exact ⟨x, by simp⟩
        have hM1 : ∀ x ∈ M1 ++ L, x.dt < A := by
          intro x hx
          rcases List.mem_append.1 hx with hx | hx
          · rw [hM] at hs
            have := (List.pairwise_append.1 hs).2.2 x hx l0 (by rw [hLR]; simp [hl0])
            have := hL l0 hl0
            omega
          · exact hL x hx
        have hT := Thr.of_split hc hM' hM1 hR (fun x hx => h2 x (by rw [hM']; exact List.mem_append_left _ hx)) (by simp [hLne])
        have hcg := hc.contig
        rw [hM'] at hcg
        obtain ⟨hc1, _⟩ := (MContig_append _ _ _).1 hcg
        obtain ⟨hc11, hc12⟩ := (MContig_append _ _ _).1 hc1
        have hFT : F < mEnd s0 (M1 ++ L) := by
          rw [mEnd_append]
          have := hc12.lt_mEnd hLne
          rcases hF with ⟨rfl, h⟩ | rfl
          · simp at this ⊢; omega
          · exact this
        rw [bsearch_thr hT hFT, hLR, firstGE_append_neg (by intro x hx; simp; have := hL x hx; omega)]
        cases R with
        | nil => rfl
        | cons r0 R' => rw [firstGE_cons_pos (by simp; exact hR r0 (by simp))]; rfl

end S4V.Lemmas.Syslines
