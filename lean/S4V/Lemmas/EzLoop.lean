/-
Transparency of the EZCHECK machinery inside `find_datetime_in_line` (model `S4V.Model.Ezcheck`):
cursor invariant, one step of `ezcheck_slice`, and the loop.
-/
import S4V.Lemmas.Ezcheck

namespace S4V.Lemmas.EzLoop
open S4V.Model.Ezcheck S4V.Lemmas.Ezcheck

/-- what the three cursors stand for: the prefix of the line they have proven clean -/
structure Inv (line : List UInt8) (cur : Cur) : Prop where
  h12 : has12 (line.take cur.c12) = false
  hd2 : hasD2 (line.take (cur.cd2 + 1)) = false
  hb12 : has12 (line.take cur.c12d2) = false
  hbd2 : hasD2 (line.take (cur.c12d2 + 1)) = false
  l12 : cur.c12 < line.length
  ld2 : cur.cd2 < line.length
  lb : cur.c12d2 < line.length

theorem inv_init {line : List UInt8} (h : 0 < line.length) : Inv line ⟨0, 0, 0⟩ := by
  refine ⟨by simp [has12, hasByte], ?_, by simp [has12, hasByte], ?_, h, h, h⟩ <;>
  · cases line with
    | nil => simp [hasD2]
    | cons x t => simp [hasD2]

/-- `has12` of a prefix slice from what the cursor knows and what the tail test saw -/
theorem has12_slice {line : List UInt8} {c e : Nat}
    (hc : has12 (line.take c) = false)
    (ht : has12 (tailFrom c (line.take e)) = false) : has12 (line.take e) = false := by
  unfold tailFrom at ht
  refine hasByte_split is12 _ (min c (line.take e).length) ?_ ht
  rw [List.take_take]
  exact hasByte_take_mono is12 line (by omega) hc

theorem hasD2_slice {line : List UInt8} {c e : Nat}
    (hc : hasD2 (line.take (c + 1)) = false)
    (ht : hasD2 (tailFrom c (line.take e)) = false) : hasD2 (line.take e) = false := by
  unfold tailFrom at ht
  refine hasD2_split _ (min c (line.take e).length) ?_ ht
  rw [List.take_take]
  exact hasD2_take_mono line (by omega) hc

/-- one call of `ezcheck_slice` for a row with `range_regex.start = 0` (so `slice_ = line[0..e)`):
the invariant is kept, and a skip means the slice lacks what the row's flags promise -/
theorem ezcheckSlice_step {line : List UInt8} {d : RowInfo} {cur : Cur} {e : Nat}
    (hs : d.rangeStart = 0) (he0 : 0 < e) (he : e ≤ line.length) (inv : Inv line cur) :
    Inv line (ezcheckSlice d (line.take e) 1 cur).2 ∧
    ((ezcheckSlice d (line.take e) 1 cur).1 = true →
      (d.hasYear4 = true ∧ has12 (line.take e) = false) ∨ (d.hasD2 = true ∧ hasD2 (line.take e) = false)) := by
  have hlen : (line.take e).length = e := by simp [List.length_take]; omega
  cases hy : d.hasYear4 <;> cases hd : d.hasD2
  · simp [ezcheckSlice, hy, hd, inv]
  · -- EZCHECKD2
    simp only [ezcheckSlice, hy, hd, sliceContainsD2_eq, hs, hlen]
    cases ht : hasD2 (tailFrom cur.cd2 (line.take e))
    · have hcl := hasD2_slice inv.hd2 ht
      simp only [Bool.not_false, ne_eq, not_true_eq_false, ↓reduceIte, true_and]
      refine ⟨?_, fun _ => by simp [hcl]⟩
      split
      · refine { inv with hd2 := ?_, ld2 := ?_ }
        · show hasD2 (line.take (e - 1 + 1)) = false
          rw [Nat.sub_add_cancel he0]; exact hcl
        · show e - 1 < line.length
          omega
      · exact inv
    · simp [inv]
  · -- EZCHECK12
    simp only [ezcheckSlice, hy, hd, sliceContainsX2_12, hs, hlen]
    cases ht : has12 (tailFrom cur.c12 (line.take e))
    · have hcl := has12_slice inv.h12 ht
      simp only [Bool.not_false, ne_eq, not_true_eq_false, ↓reduceIte, true_and]
      refine ⟨?_, fun _ => by simp [hcl]⟩
      split
      · refine { inv with h12 := ?_, l12 := ?_ }
        · show has12 (line.take (e - 1)) = false
          exact hasByte_take_mono is12 line (by omega) hcl
        · show e - 1 < line.length
          omega
      · exact inv
    · simp [inv]
  · -- EZCHECK12D2
    simp only [ezcheckSlice, hy, hd, sliceContains12D2_eq, hs, hlen]
    cases ht1 : has12 (tailFrom cur.c12d2 (line.take e)) <;>
      cases ht2 : hasD2 (tailFrom cur.c12d2 (line.take e))
    · have hcl1 := has12_slice inv.hb12 ht1
      have hcl2 := hasD2_slice inv.hbd2 ht2
      simp only [Bool.or_false, Bool.not_false, ne_eq, not_true_eq_false, ↓reduceIte, true_and]
      refine ⟨?_, fun _ => by simp [hcl1]⟩
      split
      · refine { inv with hb12 := ?_, hbd2 := ?_, lb := ?_ }
        · show has12 (line.take (e - 1)) = false
          exact hasByte_take_mono is12 line (by omega) hcl1
        · show hasD2 (line.take (e - 1 + 1)) = false
          rw [Nat.sub_add_cancel he0]; exact hcl2
        · show e - 1 < line.length
          omega
      · exact inv
    · simp [inv]
    · simp [inv]
    · simp [inv]

/-- the abstract matcher respects the flags: a `Some` result needs what EZCHECK looks for -/
def Respects {α : Type} (info : Nat → RowInfo) (mt : Nat → List UInt8 → Option α) : Prop :=
  ∀ i s x, mt i s = some x →
    ((info i).hasYear4 = true → has12 s = true) ∧ ((info i).hasD2 = true → hasD2 s = true)

theorem findLoop_eq_plain {α : Type} (info : Nat → RowInfo) (mt : Nat → List UInt8 → Option α)
    (hR : Respects info mt) (line : List UInt8) (charsz : Nat) (hl : 0 < line.length) :
    ∀ (idxs : List Nat) (cur : Cur), (∀ i ∈ idxs, (info i).rangeStart = 0) → Inv line cur →
      findLoop info mt line charsz idxs cur = findLoopPlain info mt line idxs := by
  intro idxs
  induction idxs with
  | nil => intros; rfl
  | cons i rest ih =>
    intro cur hstart inv
    have hs : (info i).rangeStart = 0 := hstart i (by simp)
    have hrest : ∀ j ∈ rest, (info j).rangeStart = 0 := fun j hj => hstart j (by simp [hj])
    have n0 : ¬ line.length ≤ 0 := by omega
    have n1 : ¬ line.length ≤ cur.c12 := by have := inv.l12; omega
    have n2 : ¬ line.length ≤ cur.cd2 := by have := inv.ld2; omega
    have n3 : ¬ line.length ≤ cur.c12d2 := by have := inv.lb; omega
    simp only [findLoop, findLoopPlain, hs, n0, n1, n2, n3, ↓reduceIte, ge_iff_le, Nat.le_zero_eq]
    by_cases he : min line.length (info i).rangeEnd = 0
    · simp only [he, ↓reduceIte]
      exact ih cur hrest inv
    · simp only [he, ↓reduceIte]
      have hsl : lineSlice line 0 (min line.length (info i).rangeEnd) =
          line.take (min line.length (info i).rangeEnd) := by simp [lineSlice]
      rw [hsl]
      by_cases hc : charsz = 1
      · subst hc
        simp only [↓reduceIte]
        obtain ⟨inv', hskip⟩ := ezcheckSlice_step (line := line) (d := info i) (cur := cur)
          (e := min line.length (info i).rangeEnd) hs (by omega) (Nat.min_le_left _ _) inv
        cases hez : (ezcheckSlice (info i) (line.take (min line.length (info i).rangeEnd)) 1 cur).1
        · simp only [Bool.false_eq_true, ↓reduceIte]
          cases hm : mt i (line.take (min line.length (info i).rangeEnd)) with
          | none => exact ih _ hrest inv'
          | some x => rfl
        · simp only [↓reduceIte]
          have hnone : mt i (line.take (min line.length (info i).rangeEnd)) = none := by
            cases hm : mt i (line.take (min line.length (info i).rangeEnd)) with
            | none => rfl
            | some x =>
              obtain ⟨r1, r2⟩ := hR i _ x hm
              rcases hskip hez with ⟨hy, hf⟩ | ⟨hd, hf⟩
              · rw [r1 hy] at hf; cases hf
              · rw [r2 hd] at hf; cases hf
          rw [hnone]
          exact ih _ hrest inv'
      · simp only [hc, ↓reduceIte, Bool.false_eq_true]
        cases hm : mt i (line.take (min line.length (info i).rangeEnd)) with
        | none => exact ih _ hrest inv
        | some x => rfl

theorem findLoop_nil_line {α : Type} (info : Nat → RowInfo) (mt : Nat → List UInt8 → Option α)
    (charsz : Nat) (idxs : List Nat) (cur : Cur) :
    findLoop info mt [] charsz idxs cur = none := by
  induction idxs with
  | nil => rfl
  | cons i rest ih => simp [findLoop, ih]

theorem findLoopPlain_nil_line {α : Type} (info : Nat → RowInfo) (mt : Nat → List UInt8 → Option α)
    (idxs : List Nat) : findLoopPlain info mt [] idxs = none := by
  induction idxs with
  | nil => rfl
  | cons i rest ih => simp [findLoopPlain, ih]

/-- with every listed row starting its slice at 0, the EZCHECKs never change the answer -/
theorem findDatetimeInLine_eq_plain {α : Type} (strMin : Nat) (info : Nat → RowInfo)
    (mt : Nat → List UInt8 → Option α) (hR : Respects info mt) (line : List UInt8) (charsz : Nat)
    (idxs : List Nat) (hstart : ∀ i ∈ idxs, (info i).rangeStart = 0) :
    findDatetimeInLine strMin info mt line charsz idxs = findDatetimeInLinePlain strMin info mt line idxs := by
  unfold findDatetimeInLine findDatetimeInLinePlain
  split
  · rfl
  · cases line with
    | nil => rw [findLoop_nil_line, findLoopPlain_nil_line]
    | cons x t =>
      exact findLoop_eq_plain info mt hR (x :: t) charsz (by simp) idxs _ hstart (inv_init (by simp))

end S4V.Lemmas.EzLoop
