/-
Message layer (`S4V.Model.Syslines`): the theorems over a well-formed line list.

The supporting development is split over
`SyslBasic` (filters, `WFLines`, `lineAt`, `linesFrom_wf`),
`SyslFind` (`slPartA`/`slPartB`/`findSysline_eq`), `SyslPart` (partition),
`SyslSearch` (`lsearch`, `bsearch`), `SyslStream` (`between`, `streamAll`).
This file states the results directly over `WFLines ls`.
-/
import S4V.Lemmas.SyslStream

namespace S4V.Lemmas.Syslines
open S4V.Model.Lines S4V.Model.Syslines S4V.Gen.Filter

/-! ### `WFLines`, element-wise reading -/

theorem WFFrom_iff (s : Nat) (ls : List LineInfo) :
    WFFrom s ls ↔ (∀ l ∈ ls, l.beg ≤ l.fin) ∧ (∀ l, ls.head? = some l → l.beg = s) ∧
      (∀ k (h : k + 1 < ls.length), ls[k + 1].beg = ls[k].fin + 1) := by
  induction ls generalizing s with
  | nil => simp
  | cons l r ih =>
    rw [WFFrom_cons, ih]
    constructor
    · rintro ⟨h1, h2, h3, h4, h5⟩
      refine ⟨?_, ?_, ?_⟩
      · intro x hx
        rcases List.mem_cons.1 hx with rfl | hx
        · exact h2
        · exact h3 x hx
      · intro x hx; simp at hx; subst hx; exact h1
      · intro k hk
        cases k with
        | zero =>
          cases r with
          | nil => simp at hk
          | cons l' r' => simpa using h4 l' rfl
        | succ k =>
          simp at hk
          simpa using h5 k (by omega)
    · rintro ⟨h1, h2, h3⟩
      refine ⟨h2 l rfl, h1 l (by simp), fun x hx => h1 x (by simp [hx]), ?_, ?_⟩
      · intro x hx
        cases r with
        | nil => simp at hx
        | cons l' r' =>
          simp at hx; subst hx
          simpa using h3 0 (by simp)
      · intro k hk
        have := h3 (k + 1) (by simp; omega)
        simp only [List.getElem_cons_succ] at this
        exact this

/-- `WFLines`: lines are non-empty, the first begins at 0, each next one begins
right after the previous one -/
theorem WFLines_iff (ls : List LineInfo) :
    WFLines ls ↔ (∀ l ∈ ls, l.beg ≤ l.fin) ∧ (∀ l, ls.head? = some l → l.beg = 0) ∧
      (∀ k (h : k + 1 < ls.length), ls[k + 1].beg = ls[k].fin + 1) := WFFrom_iff 0 ls

/-! ### 1. `lineAt` -/

theorem lineAt_spec {ls : List LineInfo} (hwf : WFLines ls) :
    (∀ fo l, lineAt ls fo = some l ↔ l ∈ ls ∧ l.beg ≤ fo ∧ fo ≤ l.fin) ∧
    (∀ fo, lineAt ls fo = none ↔ fileSz ls ≤ fo) :=
  ⟨lineAt_some_iff hwf, lineAt_none_iff hwf⟩

/-! ### 2. the partition into messages -/

theorem mEnd_of_getLast {s : Nat} {M : List Sysl} {m : Sysl} (h : M.getLast? = some m) :
    mEnd s M = m.fin + 1 := by
  obtain ⟨ys, rfl⟩ := List.getLast?_eq_some_iff.1 h
  rw [mEnd_append]; rfl

theorem MContig.beg_inj {s : Nat} {M : List Sysl} (h : MContig s M) {m m' : Sysl}
    (hm : m ∈ M) (hm' : m' ∈ M) (hb : m.beg = m'.beg) : m = m' := by
  induction M generalizing s with
  | nil => cases hm
  | cons x r ih =>
    obtain ⟨h1, h2, h3⟩ := h
    rcases List.mem_cons.1 hm with hm | hm
    · rcases List.mem_cons.1 hm' with hm' | hm'
      · rw [hm, hm']
      · have := h3.mem_bounds hm'; subst hm; omega
    · rcases List.mem_cons.1 hm' with hm' | hm'
      · have := h3.mem_bounds hm; subst hm'; omega
      · exact ih h3 hm hm'

/-- **C02 at the message level**: `messages ls` is an ordered, gap-free cover of
`[first timestamped line, fileSz ls)`; messages and timestamped lines correspond
one to one. -/
theorem messages_partition {ls : List LineInfo} (hwf : WFLines ls) :
    -- consecutive
    (∀ k (h : k + 1 < (messages ls).length),
      (messages ls)[k + 1].beg = (messages ls)[k].fin + 1) ∧
    -- non-empty
    (∀ m ∈ messages ls, m.beg ≤ m.fin) ∧
    -- the first message begins at the first timestamped line
    ((messages ls).head?.map (·.beg) = (ls.find? (fun l => l.dt.isSome)).map (·.beg)) ∧
    -- the last message ends at the last byte of the file
    (∀ m, (messages ls).getLast? = some m → m.fin + 1 = fileSz ls) ∧
    -- every timestamped line begins a message, carrying its instant …
    (∀ l ∈ ls, ∀ t, l.dt = some t → ∃ m ∈ messages ls, m.beg = l.beg ∧ m.dt = t) ∧
    -- … exactly one
    (∀ m ∈ messages ls, ∀ m' ∈ messages ls, m.beg = m'.beg → m = m') ∧
    -- every message begins at a timestamped line with that instant …
    (∀ m ∈ messages ls, ∃ l ∈ ls, l.beg = m.beg ∧ l.dt = some m.dt) ∧
    -- … and contains no other timestamped line
    (∀ m ∈ messages ls, ∀ l ∈ ls, l.dt.isSome → m.beg ≤ l.beg → l.beg ≤ m.fin →
      l.beg = m.beg) ∧
    -- no messages iff no timestamps
    (messages ls = [] ↔ ∀ l ∈ ls, l.dt = none) := by
  obtain ⟨hc, he⟩ := messages_geom hwf
  obtain ⟨g1, g2, g3⟩ := messages_heads hwf
  refine ⟨fun k h => hc.next k h, fun m hm => (hc.mem_bounds hm).2.1, ?_, ?_, g1,
    fun m hm m' hm' hb => hc.beg_inj hm hm' hb, g2, g3, messages_eq_nil_iff ls⟩
  · unfold firstHeadBeg at hc
    cases hf : ls.find? (fun l => l.dt.isSome) with
    | none =>
      have : messages ls = [] := by
        rw [messages_eq_nil_iff]
        intro l hl
        have := List.find?_eq_none.1 hf l hl
        simpa using this
      simp [this]
    | some h =>
      rw [hf] at hc
      cases hM : messages ls with
      | nil =>
        have hm := List.mem_of_find?_eq_some hf
        have hs := List.find?_some hf
        have := (messages_eq_nil_iff ls).1 hM h hm
        simp [this] at hs
      | cons m0 r =>
        rw [hM] at hc
        simp [hc.1]
  · intro m hm
    rw [← he, mEnd_of_getLast hm]

/-! ### 3. `findSysline` -/

/-- `findSysline` never stops early: (a) past the end it is `done`; (b) inside a
message it returns that message; (c) before the first message it returns the
first message (or `done` when there is none). -/
theorem findSysline_spec {ls : List LineInfo} (hwf : WFLines ls) :
    (∀ fo, fileSz ls ≤ fo → findSysline ls fo = .done) ∧
    (∀ m ∈ messages ls, ∀ fo, m.beg ≤ fo → fo ≤ m.fin →
      findSysline ls fo = .found (m.fin + 1) m) ∧
    (∀ fo, (∀ m ∈ messages ls, fo < m.beg) →
      findSysline ls fo = match (messages ls).head? with
        | some m0 => .found (m0.fin + 1) m0
        | none => .done) :=
  ⟨fun _ h => findSysline_beyond hwf h,
   fun _ hm _ h1 h2 => findSysline_inside hwf hm h1 h2,
   fun _ h => findSysline_before hwf h⟩

/-! ### 4. unfiltered streaming -/

/-- **C02**: without filters every message is sent exactly once, in file order -/
theorem streamAll_unfiltered {ls : List LineInfo} (hwf : WFLines ls) (streamed : Bool) :
    streamAll ls streamed none none = messages ls :=
  streamAll_unfiltered_ctx (Ctx.of_wf hwf) streamed

/-! ### 5. searching for a datetime (C03) -/

/-- the `dt` of the messages of `ls` is non-decreasing -/
def Sorted (ls : List LineInfo) : Prop := SortedM (messages ls)
/-- every message of `ls` has at least two bytes -/
def TwoBytes (ls : List LineInfo) : Prop := TwoBytesM (messages ls)

instance (M : List Sysl) : Decidable (SortedM M) := by unfold SortedM; infer_instance
instance (M : List Sysl) : Decidable (TwoBytesM M) := by unfold TwoBytesM; infer_instance
instance (ls : List LineInfo) : Decidable (Sorted ls) := by unfold Sorted; infer_instance
instance (ls : List LineInfo) : Decidable (TwoBytes ls) := by unfold TwoBytes; infer_instance

/-- non-decreasing, adjacent form -/
theorem SortedM_iff_adjacent (M : List Sysl) :
    SortedM M ↔ ∀ k (h : k + 1 < M.length), M[k].dt ≤ M[k + 1].dt := by
  unfold SortedM
  induction M with
  | nil => simp
  | cons m r ih =>
    rw [List.pairwise_cons, ih]
    constructor
    · rintro ⟨h1, h2⟩ k hk
      cases k with
      | zero => simp; exact h1 _ (by simp)
      | succ k => simp at hk; simpa using h2 k (by omega)
    · intro h
      have h2 : ∀ k (hk : k + 1 < r.length), r[k].dt ≤ r[k + 1].dt := by
        intro k hk
        have := h (k + 1) (by simp; omega)
        simp only [List.getElem_cons_succ] at this
        exact this
      refine ⟨?_, h2⟩
      intro x hx
      obtain ⟨i, hi, rfl⟩ := List.getElem_of_mem hx
      induction i with
      | zero => simpa using h 0 (by simp; omega)
      | succ i ihi =>
        have := ihi (by omega) (List.getElem_mem _)
        have := h2 i hi
        omega

/-- first message of `M` with `dt ≥ A`, as a search result -/
def firstAtOrAfter (A : Int) (M : List Sysl) : S4V.Model.Syslines.Res :=
  match M.find? (fun m => decide (A ≤ m.dt)) with
  | some m => .found (m.fin + 1) m
  | none => .done

theorem firstGE_some (A : Int) (M : List Sysl) : firstGE (some A) M = firstAtOrAfter A M := by
  unfold firstGE firstAtOrAfter
  have : (fun m : Sysl => decide (geA (some A) m.dt)) = (fun m => decide (A ≤ m.dt)) := by
    funext m; simp
  rw [this]
  rfl

theorem startAt_of_split {ls : List LineInfo} (hwf : WFLines ls) {M1 M2 : List Sysl} {m : Sysl}
    (hM : messages ls = M1 ++ m :: M2) : StartAt (firstHeadBeg ls) M1 m.beg := by
  have hc := (messages_geom hwf).1
  rw [hM] at hc
  exact Or.inr ((MContig_append _ _ _).1 hc).2.1

/-- linear search from a message boundary: the first message at or after it with
`dt ≥ A` (needs neither `Sorted` nor `TwoBytes`) -/
theorem lsearch_spec_at {ls : List LineInfo} (hwf : WFLines ls) (A : Int) {M1 M2 : List Sysl}
    {m : Sysl} (hM : messages ls = M1 ++ m :: M2) :
    lsearch ls (some A) (ls.length + 2) m.beg = firstAtOrAfter A (m :: M2) := by
  rw [← firstGE_some]
  apply lsearch_suffix (Ctx.of_wf hwf) (some A) (m :: M2) M1 m.beg _ hM (startAt_of_split hwf hM)
  have := messages_length_le ls
  have : (m :: M2).length ≤ (messages ls).length := by rw [hM]; simp
  omega

/-- **C03, linear search** from offset 0 -/
theorem lsearch_spec {ls : List LineInfo} (hwf : WFLines ls) (A : Int) :
    lsearch ls (some A) (ls.length + 2) 0 = firstAtOrAfter A (messages ls) := by
  rw [← firstGE_some]
  apply lsearch_suffix (Ctx.of_wf hwf) (some A) (messages ls) [] 0 _ rfl StartAt.zero
  have := messages_length_le ls
  omega

/-- **C03, binary search** from offset 0 -/
theorem bsearch_spec {ls : List LineInfo} (hwf : WFLines ls) (hs : Sorted ls) (h2 : TwoBytes ls)
    (A : Int) : bsearch ls 0 (some A) = firstAtOrAfter A (messages ls) := by
  rw [← firstGE_some]
  exact bsearch_suffix (Ctx.of_wf hwf) hs h2 (some A) (M1 := []) rfl StartAt.zero

/-- binary search from a message boundary (how the streaming loop calls it) -/
theorem bsearch_spec_at {ls : List LineInfo} (hwf : WFLines ls) (hs : Sorted ls)
    (h2 : TwoBytes ls) (A : Int) {M1 M2 : List Sysl} {m : Sysl}
    (hM : messages ls = M1 ++ m :: M2) :
    bsearch ls m.beg (some A) = firstAtOrAfter A (m :: M2) := by
  rw [← firstGE_some]
  exact bsearch_suffix (Ctx.of_wf hwf) hs h2 (some A) hM (startAt_of_split hwf hM)

/-- binary search from the end of the file -/
theorem bsearch_spec_end {ls : List LineInfo} (hwf : WFLines ls) (a : Option Int) :
    bsearch ls (fileSz ls) a = .done :=
  bsearch_all_done a (fun _ hx => findSysline_beyond hwf hx)

theorem firstAtOrAfter_cases (A : Int) (M : List Sysl) :
    firstAtOrAfter A M = .done ∨ ∃ m ∈ M, A ≤ m.dt ∧ firstAtOrAfter A M = .found (m.fin + 1) m := by
  unfold firstAtOrAfter
  cases h : M.find? (fun m => decide (A ≤ m.dt)) with
  | none => exact Or.inl rfl
  | some m =>
    exact Or.inr ⟨m, List.mem_of_find?_eq_some h, by simpa using List.find?_some h, rfl⟩

/-- the searches never hit the `assert` nor run out of fuel -/
theorem bsearch_no_err {ls : List LineInfo} (hwf : WFLines ls) (hs : Sorted ls) (h2 : TwoBytes ls)
    (A : Int) : bsearch ls 0 (some A) ≠ .err ∧ bsearch ls 0 (some A) ≠ .nofuel := by
  rw [bsearch_spec hwf hs h2]
  rcases firstAtOrAfter_cases A (messages ls) with h | ⟨m, _, _, h⟩ <;> rw [h] <;> simp

theorem lsearch_no_err {ls : List LineInfo} (hwf : WFLines ls) (A : Int) :
    lsearch ls (some A) (ls.length + 2) 0 ≠ .err ∧
      lsearch ls (some A) (ls.length + 2) 0 ≠ .nofuel := by
  rw [lsearch_spec hwf]
  rcases firstAtOrAfter_cases A (messages ls) with h | ⟨m, _, _, h⟩ <;> rw [h] <;> simp

/-- a sorted file with 1-byte messages on which the binary search returns a
message **before** the filter although a later message satisfies it -/
def oneByteFile : List LineInfo := [⟨0, 0, some 0⟩, ⟨1, 1, some 0⟩, ⟨2, 3, some 1⟩]

theorem bsearch_twobytes_needed :
    WFLines oneByteFile ∧ Sorted oneByteFile ∧
      bsearch oneByteFile 0 (some 1) = .found 2 ⟨1, 1, 0⟩ ∧
      firstAtOrAfter 1 (messages oneByteFile) = .found 4 ⟨2, 3, 1⟩ := by
  decide

/-! ### 6. streaming a window (C03) -/

/-- **C03**: exactly the messages with `a ≤ dt ≤ b`, in file order -/
theorem streamAll_window {ls : List LineInfo} (hwf : WFLines ls) (hs : Sorted ls)
    (h2 : TwoBytes ls) (streamed : Bool) (a b : Option Int) :
    streamAll ls streamed a b
      = (messages ls).filter (fun m => dtPassFilters m.dt a b = .InRange) :=
  streamAll_window_ctx (Ctx.of_wf hwf) hs h2 streamed a b

/-- with the linear search (`streamed = true`) the window theorem does not need
`TwoBytes` -/
theorem streamAll_window_streamed {ls : List LineInfo} (hwf : WFLines ls) (hs : Sorted ls)
    (a b : Option Int) :
    streamAll ls true a b
      = (messages ls).filter (fun m => dtPassFilters m.dt a b = .InRange) := by
  apply streamAll_of_ctx (Ctx.of_wf hwf) true a b
  · intro M1 M2 F hM hF
    exact searchStep_streamed (Ctx.of_wf hwf) a M1 M2 F hM hF
  · intro X m Y hM hle y hy hle'
    have hs' : SortedM (messages ls) := hs
    rw [hM] at hs'
    have h1 := (List.pairwise_append.1 hs').2.1
    have h3 := (List.pairwise_cons.1 h1).1 y hy
    cases b with
    | none => exact hle (leB_none _)
    | some B => simp at hle hle'; omega

end S4V.Lemmas.Syslines
