/-
Equivalence of the skeleton interpreters (`S4V.Model.SearchSkel`) run on the skeletons regenerated
from the source (`S4V.Gen.Search`) with the hand models of `S4V.Model.Syslines`.

Every proof goes through the `sk_*` / `lk_*` / `wk_*` facts below, each of which states one field
of a generated skeleton LITERALLY and is proved by `rfl`: an edit of the Rust source that changes
an assignment, an operator, an assertion, the order of two tests or a row of the decision table
regenerates a different field and the corresponding `rfl` fails.
-/
import S4V.Model.SearchSkel
import S4V.Lemmas.Syslines

namespace S4V.Lemmas.SearchSkel
open S4V.Model.Syslines S4V.Gen.Filter S4V.Gen.Search S4V.Model.SearchSkel S4V.Lemmas.Syslines

/-- the generated skeleton of `find_sysline_at_datetime_filter_binary_search` -/
abbrev SK : BSkel := S4V.Gen.Search.bsearch
/-- … of `find_sysline_at_datetime_filter_linear_search` -/
abbrev LK : LSkel := S4V.Gen.Search.lsearch
/-- … of `find_sysline_between_datetime_filters` -/
abbrev WK : WSkel := S4V.Gen.Search.between

/-! ### the generated skeletons, field by field -/

theorem sk_init : SK.init =
    [(.tryFo, .v .fileoffset), (.tryFoLast, .v (.cur .tryFo)), (.foA, .v .fileoffset), (.foB, .v .foEnd)] := rfl
theorem sk_probe : SK.probe = .v (.cur .tryFo) := rfl
theorem sk_pass : SK.pass = [.retFound] := rfl
theorem sk_atOrAfter : SK.atOrAfter =
    [.retFoundIf (.cmp .eq (.v (.cur .tryFo)) (.v .fileoffset)),
     .assign .tryFoLast (.v (.cur .tryFo)),
     .assign .foB (.min (.v .slBeg) (.v (.cur .tryFoLast))),
     .assert (.cmp .le (.v (.cur .foA)) (.v (.cur .foB))),
     .assign .tryFo (.add (.v (.cur .foA)) (.div (.sub (.v (.cur .foB)) (.v (.cur .foA))) (.lit 2)))] := rfl
theorem sk_before : SK.before =
    [.assign .tryFoLast (.v (.cur .tryFo)),
     .assert (.cmp .le (.v (.cur .tryFoLast)) (.v .slEnd)),
     .assign .foA (.min (.v .slEnd) (.v (.cur .foB))),
     .assign .tryFo (.add (.v (.cur .foA)) (.div (.sub (.v (.cur .foB)) (.v (.cur .foA))) (.lit 2)))] := rfl
theorem sk_setsLast : SK.setsLast = true := rfl
theorem sk_doneArm : SK.doneArm =
    [.assign .tryFoLast (.v (.cur .tryFo)),
     .assign .tryFo (.add (.v (.cur .foA)) (.div (.sub (.v (.cur .foB)) (.v (.cur .foA))) (.lit 2)))] := rfl
theorem sk_exits : SK.exits =
    [(.and .done (.cmp .eq (.v (.cur .tryFo)) (.v (.cur .tryFoLast))), .brk),
     (.cmp .ne (.v (.cur .tryFo)) (.v (.cur .tryFoLast)), .cont)] := rfl
theorem sk_convExits : SK.convExits =
    [(.and .isLast (.cmp .lt (.v .slBeg) (.v (.cur .tryFo))), .retDone)] := rfl
theorem sk_refindIf : SK.refindIf = .cmp .lt (.v .slBeg) (.v (.cur .tryFo)) := rfl
theorem sk_refindAt : SK.refindAt = .add (.v .slEnd) (.lit 1) := rfl
theorem sk_finalNext : SK.finalNext = .add (.v .slEnd) (.lit 1) := rfl
theorem sk_choose : SK.choose =
    [(none, some .Pass, .brk), (some .Pass, none, .brk),
     (some .OccursBefore, some .OccursBefore, .next),
     (some .OccursBefore, some .OccursAtOrAfter, .next),
     (some .OccursAtOrAfter, some .OccursAtOrAfter, .cur),
     (none, none, .brk)] := rfl

theorem chooseOf_sk (x y : Result_Filter_DateTime1) :
    chooseOf x y SK.choose =
      match x, y with
      | .OccursBefore, .OccursBefore => .next
      | .OccursBefore, .OccursAtOrAfter => .next
      | .OccursAtOrAfter, .OccursAtOrAfter => .cur
      | _, _ => .brk := by
  rw [sk_choose]; cases x <;> cases y <;> rfl

/-- the hand model's convergence handling, as written inside `bsearchLoop` -/
def convergeHand (ls : List LineInfo) (flt : Option Int) (st' : BS) : Res :=
  match st'.last with
  | none => .err
  | some s =>
    if isSyslineLast ls s && s.beg < st'.tryFo then .done
    else if s.beg < st'.tryFo then
      match findSysline ls (s.fin + 1) with
      | .found _ sn =>
        match dtAfterOrBefore s.dt flt, dtAfterOrBefore sn.dt flt with
        | .OccursBefore, .OccursBefore => .found (sn.fin + 1) sn
        | .OccursBefore, .OccursAtOrAfter => .found (sn.fin + 1) sn
        | .OccursAtOrAfter, .OccursAtOrAfter => .found (s.fin + 1) s
        | _, _ => .done
      | _ => .done
    else .found (s.fin + 1) s

theorem converge_eq (ls : List LineInfo) (fileoffset : Nat) (flt : Option Int) (st : BS) :
    converge SK ls fileoffset flt st = convergeHand ls flt st := by
  unfold converge convergeHand
  cases st.last with
  | none => rfl
  | some s =>
    simp only [sk_convExits, sk_refindIf, sk_refindAt, sk_finalNext, chooseOf_sk, firstJump, BExpr.eval, Cmp.eval,
      Expr.eval, Var.get, getCur]
    by_cases hL : isSyslineLast ls s = true <;> by_cases h2 : s.beg < st.tryFo <;> simp [hL, h2] <;>
    (cases findSysline ls (s.fin + 1) with
     | found fo sn =>
       dsimp only; cases dtAfterOrBefore s.dt flt <;> cases dtAfterOrBefore sn.dt flt <;> rfl
     | _ => rfl)

theorem findSysline_ge {ls : List LineInfo} (hwf : WFLines ls) {fo fo' : Nat} {s : Sysl}
    (h : findSysline ls fo = .found fo' s) : fo ≤ s.fin := by
  rw [findSysline_eq hwf] at h
  unfold fsM at h
  cases hf : (messages ls).find? (fun m => decide (fo ≤ m.fin)) with
  | none => rw [hf] at h; cases h
  | some m =>
    rw [hf] at h
    injection h with h1 h2
    subst h2
    have := List.find?_some hf
    simpa using this

theorem bsearchLoopG_eq {ls : List LineInfo} (hwf : WFLines ls) (fileoffset : Nat) (flt : Option Int) :
    ∀ (fuel : Nat) (st : BS),
      bsearchLoopG SK ls fileoffset flt fuel st = bsearchLoop ls fileoffset flt fuel st := by
  intro fuel
  induction fuel with
  | zero => intro st; rfl
  | succ n ih =>
    intro st
    unfold bsearchLoopG bsearchLoop
    simp only [sk_probe, Expr.eval, Var.get, getCur]
    cases hf : findSysline ls st.tryFo with
    | done =>
      simp only [sk_doneArm, sk_exits, execStmts, firstJump, BExpr.eval, Cmp.eval, Expr.eval, Var.get, getCur, setCur,
        ih, converge_eq, convergeHand]
      by_cases h : st.foA + (st.foB - st.foA) / 2 = st.tryFo <;> simp [h]
    | found fo s =>
      have hge := findSysline_ge hwf hf
      dsimp only
      cases hd : dtAfterOrBefore s.dt flt with
      | Pass => simp [armOf, sk_pass, execStmts]
      | OccursAtOrAfter =>
        simp only [armOf, sk_atOrAfter, sk_exits, sk_setsLast, execStmts, firstJump, BExpr.eval, Cmp.eval, Expr.eval,
          Var.get, getCur, setCur, ih, converge_eq, convergeHand]
        by_cases h0 : st.tryFo = fileoffset
        · simp [h0]
        · by_cases h1 : st.foA ≤ min s.beg st.tryFo
          · have h1' : ¬ st.foA > min s.beg st.tryFo := by omega
            by_cases h : st.foA + (min s.beg st.tryFo - st.foA) / 2 = st.tryFo <;> simp [h0, h1, h1', h] <;> rfl
          · have h1' : st.foA > min s.beg st.tryFo := by omega
            simp [h0, h1, h1']
      | OccursBefore =>
        simp only [armOf, sk_before, sk_exits, sk_setsLast, execStmts, firstJump, BExpr.eval, Cmp.eval, Expr.eval,
          Var.get, getCur, setCur, ih, converge_eq, convergeHand]
        by_cases h : min s.fin st.foB + (st.foB - min s.fin st.foB) / 2 = st.tryFo <;> simp [hge, h] <;> rfl
    | err => rfl
    | nofuel => rfl

theorem bsearchG_eq {ls : List LineInfo} (hwf : WFLines ls) (fileoffset : Nat) (flt : Option Int) :
    bsearchG SK ls fileoffset flt = S4V.Model.Syslines.bsearch ls fileoffset flt := by
  unfold bsearchG S4V.Model.Syslines.bsearch
  rw [bsearchLoopG_eq hwf]
  rfl

/-! ### linear search -/

theorem lk_init : LK.init = .v .fileoffset := rfl
theorem lk_probe : LK.probe = .v .foCursor := rfl
theorem lk_pass : LK.pass = .retFound := rfl
theorem lk_atOrAfter : LK.atOrAfter = .retFound := rfl
theorem lk_before : LK.before = .advance (.v .fo) := rfl

theorem lsearchLoopG_eq (ls : List LineInfo) (fileoffset : Nat) (flt : Option Int) :
    ∀ (fuel cursor : Nat), lsearchLoopG LK ls fileoffset flt fuel cursor = S4V.Model.Syslines.lsearch ls flt fuel cursor := by
  intro fuel
  induction fuel with
  | zero => intro c; rfl
  | succ n ih =>
    intro c
    unfold lsearchLoopG S4V.Model.Syslines.lsearch
    simp only [lk_probe, Expr.eval, Var.get]
    cases findSysline ls c with
    | found fo s =>
      dsimp only
      cases dtAfterOrBefore s.dt flt <;>
        simp only [larmOf, lk_pass, lk_atOrAfter, lk_before, Expr.eval, Var.get, ih]
    | _ => rfl

theorem lsearchG_eq (ls : List LineInfo) (flt : Option Int) (fuel fileoffset : Nat) :
    lsearchG LK ls flt fuel fileoffset = S4V.Model.Syslines.lsearch ls flt fuel fileoffset := by
  unfold lsearchG
  rw [lsearchLoopG_eq]
  rfl

/-! ### `find_sysline_between_datetime_filters` and the streaming loop -/

theorem wk_whenStreamed : WK.whenStreamed = .linear := rfl
theorem wk_whenPlain : WK.whenPlain = .binary := rfl
theorem wk_searchWithAfter : WK.searchWithAfter = true := rfl
theorem wk_passInOrder : WK.passInOrder = true := rfl
theorem wk_inRange : WK.inRange = .retFound := rfl
theorem wk_beforeRange : WK.beforeRange = .retDone := rfl
theorem wk_afterRange : WK.afterRange = .retDone := rfl

theorem betweenG_eq {ls : List LineInfo} (hwf : WFLines ls) (streamed : Bool) (fo : Nat) (a b : Option Int) :
    betweenG SK LK WK ls streamed fo a b = S4V.Model.Syslines.between ls streamed fo a b := by
  unfold betweenG S4V.Model.Syslines.between
  simp only [wk_whenStreamed, wk_whenPlain, wk_searchWithAfter, wk_passInOrder, if_true]
  cases streamed
  · simp only [Bool.false_eq_true, if_false, bsearchG_eq hwf]
    cases S4V.Model.Syslines.bsearch ls fo a with
    | found fo' s =>
      dsimp only
      cases dtPassFilters s.dt a b <;> simp only [wactOf, wk_inRange, wk_beforeRange, wk_afterRange]
    | _ => rfl
  · simp only [if_true, lsearchG_eq]
    cases S4V.Model.Syslines.lsearch ls a (ls.length + 2) fo with
    | found fo' s =>
      dsimp only
      cases dtPassFilters s.dt a b <;> simp only [wactOf, wk_inRange, wk_beforeRange, wk_afterRange]
    | _ => rfl

theorem streamLoopG_eq {ls : List LineInfo} (hwf : WFLines ls) (streamed : Bool) (a b : Option Int) :
    ∀ (fuel fo : Nat), streamLoopG SK LK WK ls streamed a b fuel fo = streamLoop ls streamed a b fuel fo := by
  intro fuel
  induction fuel with
  | zero => intro fo; rfl
  | succ n ih =>
    intro fo
    unfold streamLoopG streamLoop
    rw [betweenG_eq hwf]
    cases S4V.Model.Syslines.between ls streamed fo a b with
    | found fo' s => simp only [ih]
    | _ => rfl

theorem streamAllG_eq {ls : List LineInfo} (hwf : WFLines ls) (streamed : Bool) (a b : Option Int) :
    streamAllG SK LK WK ls streamed a b = streamAll ls streamed a b := by
  unfold streamAllG streamAll
  exact streamLoopG_eq hwf streamed a b _ _

/-! ### `find_sysline_year`: part A and part B (empty store) -/

theorem ak_maxUpdate : findA.maxUpdate = .max (.v .foAMax) (.v .fo2) := rfl
theorem ak_foundNext : findA.foundNext = .add (.v .lineEnd) (.v .charsz) := rfl
theorem ak_chain : findA.chain =
    [(some .zeroTried, [.simple (.setFo1 (.v .foAMax))]),
     (some (.cmp .gt (.v .lineBeg) (.v .charsz)),
        [.simple (.setFo1 (.sub (.v .lineBeg) (.v .charsz))), .ifStored (.v .fo1) [.setZeroTried, .setFo1 (.v .foAMax)]]),
     (none, [.simple (.setFo1 (.lit 0)), .simple .setZeroTried])] := rfl
theorem pk_noDt : findB.noDt = [.push] := rfl
theorem pk_hasDt : findB.hasDt = [.setFoB (.v .fo1), .brk] := rfl
theorem pk_tail : findB.tail = [.setFo1 (.v .fo2), .setFoB (.v .fo1)] := rfl
theorem reader_charsz : READER_CHARSZ = 1 := rfl

theorem slPartAG_eq (ls : List LineInfo) (fileoffset : Nat) :
    ∀ (fuel fo1 : Nat) (z : Bool) (m : Nat),
      slPartAG findA (fun _ => false) ls fileoffset fuel ⟨fo1, z, m⟩
        = (slPartA ls fuel fo1 z m).map (fun l => (l, l.fin + 1)) := by
  intro fuel
  induction fuel with
  | zero => intros; rfl
  | succ n ih =>
    intro fo1 z m
    unfold slPartAG slPartA
    dsimp only
    cases lineAt ls fo1 with
    | none => rfl
    | some l =>
      dsimp only
      cases hdt : l.dt with
      | some t => simp [ak_maxUpdate, ak_foundNext, AExpr.eval, AVar.get, avalsA, reader_charsz]
      | none =>
        simp only [ak_maxUpdate, ak_chain, chainA, execA, execSimples, ACond.eval, Cmp.eval, AExpr.eval, AVar.get,
          avalsA, reader_charsz, Bool.false_eq_true, if_false]
        cases z
        · by_cases h : l.beg > 1 <;> simp [h, ih]
        · simp [ih]

theorem slPartBG_eq (ls : List LineInfo) :
    ∀ (fuel fin : Nat),
      slPartBG findB ls fuel ⟨fin + 1, fin + 1, fin⟩
        = ⟨slPartB ls fuel (fin + 1) fin + 1, slPartB ls fuel (fin + 1) fin + 1, slPartB ls fuel (fin + 1) fin⟩ := by
  intro fuel
  induction fuel with
  | zero => intro fin; rfl
  | succ n ih =>
    intro fin
    unfold slPartBG slPartB
    dsimp only
    cases lineAt ls (fin + 1) with
    | none => rfl
    | some l =>
      dsimp only
      cases hdt : l.dt with
      | some t => simp [pk_hasDt, execP, AExpr.eval, AVar.get, avalsB]
      | none => simp [pk_noDt, pk_tail, execP, AExpr.eval, AVar.get, avalsB, ih]

theorem findSyslineG_eq (ls : List LineInfo) (fo : Nat) :
    findSyslineG findA findB ls fo = findSysline ls fo := by
  unfold findSyslineG findSysline
  dsimp only
  rw [slPartAG_eq]
  cases slPartA ls (2 * ls.length + 2) fo false 0 with
  | none => rfl
  | some h => simp [slPartBG_eq]

end S4V.Lemmas.SearchSkel
