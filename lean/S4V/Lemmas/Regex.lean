/-
Static analyses of the regex AST (`S4V.Model.Regex.Re`) with soundness proofs against the language
semantics `Matches`:

* `needsByte p r`  every match of `r` contains a byte satisfying `p`
                   (`needsDigit = needsByte isDigit`, `needs12 = needsByte is12`)
* `needsD2 r`      every match of `r` contains two consecutive ASCII digits
                   (helpers: `nullOnly`, `startsD`, `endsD`)

All analyses are conservative (`false` = "don't know").
-/
import S4V.Model.Regex
import S4V.Lemmas.Ezcheck

namespace S4V.Lemmas.Regex
open S4V.Model.Regex S4V.Model.Ezcheck S4V.Lemmas.Ezcheck

/-! ### analyses -/

/-- every member of the class is an ASCII byte satisfying `p` -/
def clsAll (p : UInt8 → Bool) (rs : List (Nat × Nat)) : Bool :=
  rs.all (fun r => r.2 < 128 && (List.range' r.1 (r.2 + 1 - r.1)).all (fun c => p (UInt8.ofNat c)))

def needsByte (p : UInt8 → Bool) : Re → Bool
  | .eps => false
  | .bol => false
  | .eol => false
  | .lit bs => hasByte p bs
  | .cls rs => clsAll p rs
  | .cat a b => needsByte p a || needsByte p b
  | .alt a b => needsByte p a && needsByte p b
  | .rep r lo _ => decide (1 ≤ lo) && needsByte p r
  | .group _ r => needsByte p r

/-- every match contains an ASCII digit -/
def needsDigit (r : Re) : Bool := needsByte isDigit r

/-- every match contains `'1'` or `'2'` -/
def needs12 (r : Re) : Bool := needsByte is12 r

/-- only the empty string matches -/
def nullOnly : Re → Bool
  | .eps => true
  | .bol => true
  | .eol => true
  | .lit bs => bs.isEmpty
  | .cls _ => false
  | .cat a b => nullOnly a && nullOnly b
  | .alt a b => nullOnly a && nullOnly b
  | .rep r _ _ => nullOnly r
  | .group _ r => nullOnly r

/-- every match starts with an ASCII digit -/
def startsD : Re → Bool
  | .eps => false
  | .bol => false
  | .eol => false
  | .lit bs => startsDb bs
  | .cls rs => clsAll isDigit rs
  | .cat a b => startsD a || (nullOnly a && startsD b)
  | .alt a b => startsD a && startsD b
  | .rep r lo _ => decide (1 ≤ lo) && startsD r
  | .group _ r => startsD r

/-- every match ends with an ASCII digit -/
def endsD : Re → Bool
  | .eps => false
  | .bol => false
  | .eol => false
  | .lit bs => endsDb bs
  | .cls rs => clsAll isDigit rs
  | .cat a b => endsD b || (nullOnly b && endsD a)
  | .alt a b => endsD a && endsD b
  | .rep r lo _ => decide (1 ≤ lo) && endsD r
  | .group _ r => endsD r

/-- every match is empty or ends with an ASCII digit (only needed for the repetition case) -/
def endsDE : Re → Bool
  | .rep r _ _ => endsD r
  | r => endsD r

/-- every match contains two consecutive ASCII digits -/
def needsD2 : Re → Bool
  | .eps => false
  | .bol => false
  | .eol => false
  | .lit bs => hasD2 bs
  | .cls _ => false
  | .cat a b => needsD2 a || needsD2 b || (endsD a && startsD b)
  | .alt a b => needsD2 a && needsD2 b
  | .rep r lo _ => (decide (1 ≤ lo) && needsD2 r) || (decide (2 ≤ lo) && startsD r && endsD r)
  | .group _ r => needsD2 r

/-! ### UTF-8 decoding of ASCII -/

theorem decode_ascii {s : List UInt8} {c n : Nat} (h : decode s = some (c, n)) (hc : c < 128) :
    ∃ b t, s = b :: t ∧ b.toNat = c ∧ n = 1 := by
  cases s with
  | nil => simp [decode] at h
  | cons b0 rest =>
    refine ⟨b0, rest, rfl, ?_⟩
    simp only [decode] at h
    repeat' split at h
    all_goals (try (simp only [Option.some.injEq, Prod.mk.injEq, reduceCtorEq] at h))
    all_goals (try (rename_i h1 h2; simp only [Bool.and_eq_true, decide_eq_true_eq, Bool.not_eq_true',
      Bool.and_eq_false_iff, decide_eq_false_iff_not] at h2))
    all_goals (try omega)

/-- a class whose members are all ASCII bytes satisfying `p` matches exactly one such byte -/
theorem clsMatch_clsAll {p : UInt8 → Bool} {rs : List (Nat × Nat)} {s : List UInt8}
    (hm : clsMatch rs s = true) (ha : clsAll p rs = true) : ∃ b, s = [b] ∧ p b = true := by
  unfold clsMatch at hm
  split at hm
  · rename_i c n hd
    simp only [Bool.and_eq_true, beq_iff_eq] at hm
    obtain ⟨hn, hin⟩ := hm
    simp only [inRanges, List.any_eq_true, Bool.and_eq_true, decide_eq_true_eq] at hin
    obtain ⟨r, hr, hlo, hhi⟩ := hin
    simp only [clsAll, List.all_eq_true, Bool.and_eq_true, decide_eq_true_eq] at ha
    obtain ⟨h128, hall⟩ := ha r hr
    have hc : c < 128 := by omega
    obtain ⟨b, t, hs, hb, hn1⟩ := decode_ascii hd hc
    subst hs
    have ht : t = [] := by
      subst hn1
      simp only [List.length_cons] at hn
      cases t with
      | nil => rfl
      | cons _ _ => simp at hn
    subst ht
    refine ⟨b, rfl, ?_⟩
    have := hall c (by
      rw [List.mem_range']
      refine ⟨c - r.1, by omega, by omega⟩)
    rw [← hb] at this
    simpa using this
  · cases hm

/-! ### soundness -/

theorem needsByte_sound (p : UInt8 → Bool) {r : Re} {pre s post : List UInt8}
    (h : Matches r pre s post) : needsByte p r = true → hasByte p s = true := by
  induction h with
  | eps => simp [needsByte]
  | lit => simp [needsByte]
  | cls rs pre s post hm =>
    intro ha
    obtain ⟨b, hs, hb⟩ := clsMatch_clsAll hm ha
    subst hs
    simp [hasByte, hb]
  | cat _ _ ih1 ih2 =>
    intro hn
    simp only [needsByte, Bool.or_eq_true] at hn
    rw [hasByte_append]
    rcases hn with hn | hn
    · simp [ih1 hn]
    · simp [ih2 hn]
  | altL _ ih =>
    intro hn
    simp only [needsByte, Bool.and_eq_true] at hn
    exact ih hn.1
  | altR _ ih =>
    intro hn
    simp only [needsByte, Bool.and_eq_true] at hn
    exact ih hn.2
  | repNil => simp [needsByte]
  | repCons _ _ _ ih1 _ =>
    intro hn
    simp only [needsByte, Bool.and_eq_true, decide_eq_true_eq] at hn
    rw [hasByte_append]
    simp [ih1 hn.2]
  | group _ ih =>
    intro hn
    exact ih hn
  | bol => simp [needsByte]
  | eol => simp [needsByte]

theorem needsDigit_sound {r : Re} {pre s post : List UInt8} (h : Matches r pre s post)
    (hn : needsDigit r = true) : hasDigit s = true := needsByte_sound isDigit h hn

theorem needs12_sound {r : Re} {pre s post : List UInt8} (h : Matches r pre s post)
    (hn : needs12 r = true) : has12 s = true := needsByte_sound is12 h hn

theorem endsDE_of_endsD {r : Re} (h : endsD r = true) : endsDE r = true := by
  cases r <;> simp_all [endsDE, endsD]

/-- the five facts proved together by induction on the derivation -/
theorem d2_pack {r : Re} {pre s post : List UInt8} (h : Matches r pre s post) :
    (nullOnly r = true → s = []) ∧
    (startsD r = true → startsDb s = true) ∧
    (endsD r = true → endsDb s = true) ∧
    (endsDE r = true → s = [] ∨ endsDb s = true) ∧
    (needsD2 r = true → hasD2 s = true) := by
  induction h with
  | eps => simp [nullOnly, startsD, endsD, endsDE, needsD2]
  | lit bs =>
    refine ⟨?_, ?_, ?_, ?_, ?_⟩
    · simp [nullOnly]
    · simp [startsD]
    · simp [endsD]
    · intro h; right; simpa [endsDE, endsD] using h
    · simp [needsD2]
  | cls rs pre s post hm =>
    refine ⟨?_, ?_, ?_, ?_, ?_⟩
    · simp [nullOnly]
    · intro ha
      obtain ⟨b, hs, hb⟩ := clsMatch_clsAll hm ha
      subst hs; simpa [startsDb] using hb
    · intro ha
      obtain ⟨b, hs, hb⟩ := clsMatch_clsAll hm ha
      subst hs; simpa [endsDb] using hb
    · intro ha
      obtain ⟨b, hs, hb⟩ := clsMatch_clsAll hm ha
      subst hs; right; simpa [endsDb] using hb
    · simp [needsD2]
  | @cat a b pre s1 s2 post _ _ ih1 ih2 =>
    obtain ⟨n1, st1, en1, _, d1⟩ := ih1
    obtain ⟨n2, st2, en2, _, d2⟩ := ih2
    have hends : endsD (.cat a b) = true → endsDb (s1 ++ s2) = true := by
      intro h
      simp only [endsD, Bool.or_eq_true, Bool.and_eq_true] at h
      rcases h with h | ⟨hn, h⟩
      · exact endsDb_append_right _ (en2 h)
      · rw [n2 hn, List.append_nil]; exact en1 h
    refine ⟨?_, ?_, hends, ?_, ?_⟩
    · intro h
      simp only [nullOnly, Bool.and_eq_true] at h
      rw [n1 h.1, n2 h.2]; rfl
    · intro h
      simp only [startsD, Bool.or_eq_true, Bool.and_eq_true] at h
      rcases h with h | ⟨hn, h⟩
      · exact startsDb_append_left _ (st1 h)
      · rw [n1 hn]; exact st2 h
    · intro h; right; exact hends h
    · intro h
      simp only [needsD2, Bool.or_eq_true, Bool.and_eq_true] at h
      rcases h with (h | h) | ⟨he, hs⟩
      · exact hasD2_append_left _ (d1 h)
      · exact hasD2_append_right _ (d2 h)
      · exact hasD2_boundary (en1 he) (st2 hs)
  | @altL a b pre s post _ ih =>
    obtain ⟨n1, st1, en1, _, d1⟩ := ih
    refine ⟨?_, ?_, ?_, ?_, ?_⟩
    · intro h; simp only [nullOnly, Bool.and_eq_true] at h; exact n1 h.1
    · intro h; simp only [startsD, Bool.and_eq_true] at h; exact st1 h.1
    · intro h; simp only [endsD, Bool.and_eq_true] at h; exact en1 h.1
    · intro h; simp only [endsDE, endsD, Bool.and_eq_true] at h; right; exact en1 h.1
    · intro h; simp only [needsD2, Bool.and_eq_true] at h; exact d1 h.1
  | @altR a b pre s post _ ih =>
    obtain ⟨n1, st1, en1, _, d1⟩ := ih
    refine ⟨?_, ?_, ?_, ?_, ?_⟩
    · intro h; simp only [nullOnly, Bool.and_eq_true] at h; exact n1 h.2
    · intro h; simp only [startsD, Bool.and_eq_true] at h; exact st1 h.2
    · intro h; simp only [endsD, Bool.and_eq_true] at h; exact en1 h.2
    · intro h; simp only [endsDE, endsD, Bool.and_eq_true] at h; right; exact en1 h.2
    · intro h; simp only [needsD2, Bool.and_eq_true] at h; exact d1 h.2
  | repNil => simp [startsD, endsD, needsD2]
  | @repCons r lo hi pre s1 s2 post _ _ _ ih1 ih2 =>
    obtain ⟨n1, st1, en1, _, d1⟩ := ih1
    obtain ⟨n2, st2, _, ende2, _⟩ := ih2
    have hE : endsD r = true → endsDb (s1 ++ s2) = true := by
      intro h
      rcases ende2 (by simpa [endsDE] using h) with h2 | h2
      · rw [h2, List.append_nil]; exact en1 h
      · exact endsDb_append_right _ h2
    refine ⟨?_, ?_, ?_, ?_, ?_⟩
    · intro h
      simp only [nullOnly] at h
      rw [n1 h, n2 (by simpa [nullOnly] using h)]; rfl
    · intro h
      simp only [startsD, Bool.and_eq_true, decide_eq_true_eq] at h
      exact startsDb_append_left _ (st1 h.2)
    · intro h
      simp only [endsD, Bool.and_eq_true, decide_eq_true_eq] at h
      exact hE h.2
    · intro h
      simp only [endsDE] at h
      right; exact hE h
    · intro h
      simp only [needsD2, Bool.or_eq_true, Bool.and_eq_true, decide_eq_true_eq] at h
      rcases h with ⟨_, h⟩ | ⟨⟨hlo, hs⟩, he⟩
      · exact hasD2_append_left _ (d1 h)
      · refine hasD2_boundary (en1 he) (st2 ?_)
        simp only [startsD, Bool.and_eq_true, decide_eq_true_eq]
        exact ⟨by omega, hs⟩
  | @group i r pre s post _ ih =>
    obtain ⟨n1, st1, en1, _, d1⟩ := ih
    refine ⟨n1, st1, en1, ?_, d1⟩
    intro h; right; exact en1 (by simpa [endsDE, endsD] using h)
  | bol => simp [startsD, endsD, endsDE, needsD2]
  | eol => simp [startsD, endsD, endsDE, needsD2]

theorem needsD2_sound {r : Re} {pre s post : List UInt8} (h : Matches r pre s post)
    (hn : needsD2 r = true) : hasD2 s = true := (d2_pack h).2.2.2.2 hn

/-! ### lifting to a match somewhere inside a slice -/

theorem hasByte_of_matchesIn {p : UInt8 → Bool} {r : Re} {slice : List UInt8}
    (hn : needsByte p r = true) (h : MatchesIn r slice) : hasByte p slice = true := by
  obtain ⟨pre, s, post, hs, hm⟩ := h
  subst hs
  rw [hasByte_append, hasByte_append, needsByte_sound p hm hn]
  simp

theorem hasD2_of_matchesIn {r : Re} {slice : List UInt8}
    (hn : needsD2 r = true) (h : MatchesIn r slice) : hasD2 slice = true := by
  obtain ⟨pre, s, post, hs, hm⟩ := h
  subst hs
  exact hasD2_append_left _ (hasD2_append_right _ (needsD2_sound hm hn))

end S4V.Lemmas.Regex
