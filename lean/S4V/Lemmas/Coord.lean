/-
Helper lemmas for the coordinator model (`S4V/Model/Coord.lean`).
Part A: first-minimum selection (`minPending`, `minHead`).
Part B: the k-way merge specification (`merge`).
Part C: the coordinator invariant and its consequences (layer 1).
Part D: layer 2 (bounded buffers).
-/
import S4V.Model.Coord

namespace S4V.Lemmas.Coord
open S4V.Model.Coord

/-! ## Part A: first minimum -/

/-- `(i, m)` is the first minimum (by `dt`) of the `some` entries of `p` -/
def IsMin (p : List (Option Msg)) (i : Nat) (m : Msg) : Prop :=
  p[i]? = some (some m) ∧
  (∀ (j : Nat) (m' : Msg), p[j]? = some (some m') → m.dt ≤ m'.dt) ∧
  (∀ (j : Nat) (m' : Msg), j < i → p[j]? = some (some m') → m.dt < m'.dt)

def IsMinOpt (p : List (Option Msg)) : Option (Nat × Msg) → Prop
  | none => ∀ (j : Nat) (m' : Msg), p[j]? ≠ some (some m')
  | some (i, m) => IsMin p i m

theorem minPendingAux_spec (p : List (Option Msg)) :
    ∀ (pre : List (Option Msg)) (best : Option (Nat × Msg)), IsMinOpt pre best →
      IsMinOpt (pre ++ p) (minPendingAux p pre.length best) := by
  induction p with
  | nil => intro pre best h; simpa [minPendingAux] using h
  | cons x r ih =>
    intro pre best h
    have key : ∀ nb, IsMinOpt (pre ++ [x]) nb →
        IsMinOpt (pre ++ x :: r) (minPendingAux r (pre.length + 1) nb) := by
      intro nb hnb
      have := ih (pre ++ [x]) nb hnb
      simpa using this
    cases x with
    | none =>
      simp only [minPendingAux]
      apply key
      cases best with
      | none =>
        simp only [IsMinOpt] at h ⊢
        intro j m'
        grind
      | some jb =>
        obtain ⟨j, b⟩ := jb
        simp only [IsMinOpt, IsMin] at h ⊢
        grind
    | some m =>
      cases best with
      | none =>
        simp only [minPendingAux]
        apply key
        simp only [IsMinOpt, IsMin] at h ⊢
        grind
      | some jb =>
        obtain ⟨j, b⟩ := jb
        simp only [minPendingAux]
        split
        · apply key
          simp only [IsMinOpt, IsMin] at h ⊢
          grind
        · apply key
          simp only [IsMinOpt, IsMin] at h ⊢
          grind

theorem minPending_isMinOpt (p : List (Option Msg)) : IsMinOpt p (minPending p) := by
  have := minPendingAux_spec p [] none (by simp [IsMinOpt])
  simpa [minPending] using this

theorem isMinOpt_unique {p : List (Option Msg)} {r r' : Option (Nat × Msg)}
    (h : IsMinOpt p r) (h' : IsMinOpt p r') : r = r' := by
  cases r with
  | none =>
    cases r' with
    | none => rfl
    | some jb =>
      obtain ⟨j, b⟩ := jb
      simp only [IsMinOpt, IsMin] at h h'
      grind
  | some ia =>
    obtain ⟨i, a⟩ := ia
    cases r' with
    | none =>
      simp only [IsMinOpt, IsMin] at h h'
      grind
    | some jb =>
      obtain ⟨j, b⟩ := jb
      simp only [IsMinOpt, IsMin] at h h'
      obtain ⟨h1, h2, h3⟩ := h
      obtain ⟨h1', h2', h3'⟩ := h'
      have e1 := h2 _ _ h1'
      have e2 := h2' _ _ h1
      have : i = j := by
        rcases Nat.lt_trichotomy i j with hlt | heq | hgt
        · have := h3' _ _ hlt h1; omega
        · exact heq
        · have := h3 _ _ hgt h1'; omega
      subst this
      simp_all

theorem minPending_eq_iff {p : List (Option Msg)} {r : Option (Nat × Msg)} :
    minPending p = r ↔ IsMinOpt p r :=
  ⟨fun h => h ▸ minPending_isMinOpt p, fun h => isMinOpt_unique (minPending_isMinOpt p) h⟩

theorem minHeadAux_eq (ls : List (List Msg)) : ∀ k best,
    minHeadAux ls k best = minPendingAux (ls.map List.head?) k best := by
  induction ls with
  | nil => intros; rfl
  | cons l r ih =>
    intro k best
    cases l with
    | nil => simp [minHeadAux, minPendingAux, ih]
    | cons m t =>
      cases best with
      | none => simp [minHeadAux, minPendingAux, ih]
      | some jb =>
        obtain ⟨j, b⟩ := jb
        simp [minHeadAux, minPendingAux, ih]

/-- `minHead` is `minPending` of the heads -/
theorem minHead_eq (ls : List (List Msg)) : minHead ls = minPending (ls.map List.head?) := by
  simp [minHead, minPending, minHeadAux_eq]


/-- `(i, m)`: `m` is the head of list `i`, no head is earlier, and every head of a
lower-numbered list is strictly later -/
def HeadMin (ls : List (List Msg)) (i : Nat) (m : Msg) : Prop :=
  (ls.getD i []).head? = some m ∧
  (∀ (j : Nat) (m' : Msg), (ls.getD j []).head? = some m' → m.dt ≤ m'.dt) ∧
  (∀ (j : Nat) (m' : Msg), j < i → (ls.getD j []).head? = some m' → m.dt < m'.dt)

theorem heads_get (ls : List (List Msg)) (j : Nat) (m' : Msg) :
    (ls.map List.head?)[j]? = some (some m') ↔ (ls.getD j []).head? = some m' := by
  simp only [List.getD_eq_getElem?_getD, List.getElem?_map]
  cases ls[j]? <;> simp

theorem minHead_eq_some_iff {ls : List (List Msg)} {i : Nat} {m : Msg} :
    minHead ls = some (i, m) ↔ HeadMin ls i m := by
  rw [minHead_eq, minPending_eq_iff]
  simp only [IsMinOpt, IsMin, HeadMin, heads_get]

theorem minHead_eq_none_iff {ls : List (List Msg)} :
    minHead ls = none ↔ ∀ j : Nat, ls.getD j [] = [] := by
  rw [minHead_eq, minPending_eq_iff]
  simp only [IsMinOpt, ne_eq, heads_get]
  constructor
  · intro h j
    cases hj : ls.getD j [] with
    | nil => rfl
    | cons a t => exact absurd (by rw [hj]; rfl) (h j a)
  · intro h j m'; rw [h j]; simp

/-! ## Part B: merge -/

theorem popAt_getD (ls : List (List Msg)) (i j : Nat) :
    (popAt ls i).getD j [] = if j = i then (ls.getD i []).tail else ls.getD j [] := by
  simp only [popAt, List.getD_eq_getElem?_getD, List.getElem?_set]
  grind

theorem popAt_length (ls : List (List Msg)) (i : Nat) : (popAt ls i).length = ls.length := by
  simp [popAt]

theorem totalLen_cons (l : List Msg) (r : List (List Msg)) :
    totalLen (l :: r) = l.length + totalLen r := by
  simp [totalLen]

theorem popAt_cons_zero (l : List Msg) (r : List (List Msg)) : popAt (l :: r) 0 = l.tail :: r := by
  simp [popAt]

theorem popAt_cons_succ (l : List Msg) (r : List (List Msg)) (i : Nat) :
    popAt (l :: r) (i + 1) = l :: popAt r i := by
  simp [popAt]

theorem totalLen_popAt {ls : List (List Msg)} {i : Nat} {m : Msg}
    (h : (ls.getD i []).head? = some m) : totalLen ls = totalLen (popAt ls i) + 1 := by
  induction ls generalizing i with
  | nil => simp at h
  | cons l r ih =>
    cases i with
    | zero =>
      rw [popAt_cons_zero, totalLen_cons, totalLen_cons]
      cases l with
      | nil => simp at h
      | cons a t => simp; omega
    | succ i =>
      rw [popAt_cons_succ, totalLen_cons, totalLen_cons]
      have := ih (i := i) (by simpa using h)
      omega

theorem totalLen_eq_zero {ls : List (List Msg)} (h : totalLen ls = 0) : ∀ j : Nat, ls.getD j [] = [] := by
  induction ls with
  | nil => intro j; simp
  | cons l r ih =>
    rw [totalLen_cons] at h
    intro j
    cases j with
    | zero => simp; exact List.eq_nil_of_length_eq_zero (by omega)
    | succ j => simpa using ih (by omega) j

/-- unfolding `merge` once -/
theorem merge_step {ls : List (List Msg)} {i : Nat} {m : Msg} (h : minHead ls = some (i, m)) :
    merge ls = (i, m) :: merge (popAt ls i) := by
  have hl := totalLen_popAt (minHead_eq_some_iff.1 h).1
  unfold merge
  rw [hl]
  simp only [mergeAux, h]

theorem merge_none {ls : List (List Msg)} (h : minHead ls = none) : merge ls = [] := by
  unfold merge
  cases totalLen ls <;> simp [mergeAux, h]

theorem merge_all_nil {ls : List (List Msg)} (h : ∀ j : Nat, ls.getD j [] = []) : merge ls = [] :=
  merge_none (minHead_eq_none_iff.2 h)

/-- induction along the recursion of `merge` -/
theorem merge_induction {P : List (List Msg) → Prop}
    (hnone : ∀ ls, minHead ls = none → P ls)
    (hstep : ∀ ls i m, minHead ls = some (i, m) → P (popAt ls i) → P ls) :
    ∀ ls, P ls := by
  intro ls
  generalize hn : totalLen ls = n
  induction n generalizing ls with
  | zero => exact hnone ls (minHead_eq_none_iff.2 (totalLen_eq_zero hn))
  | succ n ih =>
    cases hm : minHead ls with
    | none => exact hnone ls hm
    | some im =>
      obtain ⟨i, m⟩ := im
      have := totalLen_popAt (minHead_eq_some_iff.1 hm).1
      exact hstep ls i m hm (ih _ (by omega))

/-- each source's messages occur exactly once and in order -/
theorem merge_per_source (ls : List (List Msg)) (i : Nat) :
    ((merge ls).filter (fun p => p.1 = i)).map (fun p => p.2) = ls.getD i [] := by
  induction ls using merge_induction with
  | hnone ls h => rw [merge_none h, (minHead_eq_none_iff.1 h) i]; rfl
  | hstep ls j m h ih =>
    rw [merge_step h]
    have hh := (minHead_eq_some_iff.1 h).1
    rw [popAt_getD] at ih
    by_cases hji : j = i
    · subst hji
      simp only [List.filter_cons, decide_true, if_true, List.map_cons, ih]
      cases hl : ls.getD j [] with
      | nil => rw [hl] at hh; simp at hh
      | cons a t => rw [hl] at hh; simp at hh ⊢; exact hh.symm
    · have : i ≠ j := fun e => hji e.symm
      simp only [List.filter_cons, hji, decide_false, this, if_false] at ih ⊢
      exact ih

theorem mem_merge {ls : List (List Msg)} {j : Nat} {m : Msg} (h : (j, m) ∈ merge ls) :
    m ∈ ls.getD j [] := by
  rw [← merge_per_source ls j]
  exact List.mem_map.2 ⟨(j, m), List.mem_filter.2 ⟨h, by simp⟩, rfl⟩

theorem merge_length (ls : List (List Msg)) : (merge ls).length = totalLen ls := by
  induction ls using merge_induction with
  | hnone ls h =>
    rw [merge_none h]
    have := minHead_eq_none_iff.1 h
    clear h
    induction ls with
    | nil => rfl
    | cons l r ih =>
      rw [totalLen_cons, ← ih (fun j => by simpa using this (j + 1))]
      have := this 0
      simp at this
      simp [this]
  | hstep ls j m h ih =>
    rw [merge_step h, totalLen_popAt (minHead_eq_some_iff.1 h).1, List.length_cons, ih]


theorem merge_cons_inv {ls : List (List Msg)} {i : Nat} {m : Msg} {rest : List (Nat × Msg)}
    (h : merge ls = (i, m) :: rest) : minHead ls = some (i, m) ∧ rest = merge (popAt ls i) := by
  cases hm : minHead ls with
  | none => rw [merge_none hm] at h; cases h
  | some jb =>
    obtain ⟨j, b⟩ := jb
    rw [merge_step hm] at h
    injection h with h1 h2
    cases h1
    exact ⟨rfl, h2.symm⟩

/-- a list with the same length and the same entries (read with `getD`) is the same list -/
theorem ext_getD {l₁ l₂ : List (List Msg)} (hl : l₁.length = l₂.length)
    (h : ∀ j : Nat, l₁.getD j [] = l₂.getD j []) : l₁ = l₂ := by
  apply List.ext_getElem? 
  intro j
  have := h j
  simp only [List.getD_eq_getElem?_getD] at this
  by_cases hj : j < l₁.length
  · have hj2 : j < l₂.length := hl ▸ hj
    simp [List.getElem?_eq_getElem hj, List.getElem?_eq_getElem hj2] at this ⊢
    exact this
  · have hj2 : ¬ j < l₂.length := hl ▸ hj
    simp [List.getElem?_eq_none (Nat.le_of_not_lt hj), List.getElem?_eq_none (Nat.le_of_not_lt hj2)]

/-- every suffix of the merge is the merge of what is left of the lists -/
theorem merge_drop (n : Nat) : ∀ ls : List (List Msg), ∃ ls' : List (List Msg),
    (merge ls).drop n = merge ls' ∧ ls'.length = ls.length ∧
      ∀ j : Nat, ls'.getD j [] <:+ ls.getD j [] := by
  induction n with
  | zero => intro ls; exact ⟨ls, rfl, rfl, fun _ => List.suffix_refl _⟩
  | succ n ih =>
    intro ls
    cases hm : minHead ls with
    | none => exact ⟨ls, by rw [merge_none hm]; rfl, rfl, fun _ => List.suffix_refl _⟩
    | some im =>
      obtain ⟨i, m⟩ := im
      obtain ⟨ls', h1, h2, h3⟩ := ih (popAt ls i)
      refine ⟨ls', by rw [merge_step hm]; exact h1, by rw [h2, popAt_length], fun j => ?_⟩
      refine (h3 j).trans ?_
      rw [popAt_getD]
      split
      · next e => subst e; exact List.tail_suffix _
      · exact List.suffix_refl _

/-- lexicographic order on (instant, PathId) -/
def LexLe (a b : Nat × Msg) : Prop := a.2.dt < b.2.dt ∨ (a.2.dt = b.2.dt ∧ a.1 ≤ b.1)

def SortedDt (l : List Msg) : Prop := l.Pairwise (fun a b => a.dt ≤ b.dt)

theorem merge_sorted_lex (ls : List (List Msg)) :
    (∀ j : Nat, SortedDt (ls.getD j [])) → (merge ls).Pairwise LexLe := by
  induction ls using merge_induction with
  | hnone ls h => intro _; rw [merge_none h]; exact List.Pairwise.nil
  | hstep ls i m h ih =>
    intro hs
    rw [merge_step h]
    obtain ⟨h1, h2, h3⟩ := minHead_eq_some_iff.1 h
    have hs' : ∀ j : Nat, SortedDt ((popAt ls i).getD j []) := by
      intro j
      rw [popAt_getD]
      split
      · exact List.Pairwise.sublist (List.tail_sublist _) (hs i)
      · exact hs j
    refine List.Pairwise.cons ?_ (ih hs')
    rintro ⟨j, m'⟩ hmem
    have hm' := mem_merge hmem
    rw [popAt_getD] at hm'
    simp only [LexLe]
    by_cases hji : j = i
    · subst hji
      simp only [if_true] at hm'
      have hsj := hs j
      cases hl : ls.getD j [] with
      | nil => rw [hl] at h1; simp at h1
      | cons a t =>
        rw [hl] at h1 hm' hsj
        simp at h1 hm'
        subst h1
        have := (List.pairwise_cons.1 hsj).1 m' hm'
        omega
    · simp only [hji, if_false] at hm'
      have hsj := hs j
      cases hl : ls.getD j [] with
      | nil => rw [hl] at hm'; simp at hm'
      | cons a t =>
        have ha : (ls.getD j []).head? = some a := by rw [hl]; rfl
        have hle := h2 j a ha
        rw [hl] at hm' hsj
        have hle2 : a.dt ≤ m'.dt := by
          rcases List.mem_cons.1 hm' with e | e
          · subst e; exact Int.le_refl _
          · exact (List.pairwise_cons.1 hsj).1 m' e
        rcases Nat.lt_or_gt_of_ne hji with hlt | hgt
        · have := h3 j a hlt ha
          omega
        · omega

theorem merge_sorted (ls : List (List Msg)) (h : ∀ j : Nat, SortedDt (ls.getD j [])) :
    ((merge ls).map (fun p => p.2.dt)).Pairwise (· ≤ ·) := by
  rw [List.pairwise_map]
  refine List.Pairwise.imp ?_ (merge_sorted_lex ls h)
  intro a b hab
  simp only [LexLe] at hab
  omega

/-- keep only the sources selected by `h` (indices preserved) -/
def mask (h : Nat → Bool) (ls : List (List Msg)) : List (List Msg) :=
  ls.mapIdx (fun i l => if h i then l else [])

theorem mask_getD (h : Nat → Bool) (ls : List (List Msg)) (j : Nat) :
    (mask h ls).getD j [] = if h j then ls.getD j [] else [] := by
  simp only [mask, List.getD_eq_getElem?_getD, List.getElem?_mapIdx]
  cases ls[j]? <;> simp

theorem mask_length (h : Nat → Bool) (ls : List (List Msg)) : (mask h ls).length = ls.length := by
  simp [mask]

/-- restricting the merged output to a set of sources is the merge of those sources -/
theorem filter_merge (h : Nat → Bool) (ls : List (List Msg)) :
    (merge ls).filter (fun p => h p.1) = merge (mask h ls) := by
  induction ls using merge_induction with
  | hnone ls hm =>
    rw [merge_none hm]
    have := minHead_eq_none_iff.1 hm
    rw [merge_all_nil]; · rfl
    intro j; rw [mask_getD, this j]; simp
  | hstep ls i m hm ih =>
    rw [merge_step hm]
    obtain ⟨h1, h2, h3⟩ := minHead_eq_some_iff.1 hm
    cases hi : h i with
    | true =>
      have hm' : minHead (mask h ls) = some (i, m) := by
        apply minHead_eq_some_iff.2
        refine ⟨by rw [mask_getD, hi]; exact h1, ?_, ?_⟩
        · intro j m' hj
          rw [mask_getD] at hj
          split at hj
          · exact h2 j m' hj
          · simp at hj
        · intro j m' hlt hj
          rw [mask_getD] at hj
          split at hj
          · exact h3 j m' hlt hj
          · simp at hj
      rw [merge_step hm']
      simp only [List.filter_cons, hi, if_true, ih]
      congr 2
      apply ext_getD
      · simp [mask_length, popAt_length]
      · intro j
        simp only [mask_getD, popAt_getD]
        by_cases e : j = i
        · subst e; simp [hi]
        · simp [e]
    | false =>
      simp only [List.filter_cons, hi, Bool.false_eq_true, if_false, ih]
      congr 1
      apply ext_getD
      · simp [mask_length, popAt_length]
      · intro j
        simp only [mask_getD, popAt_getD]
        by_cases e : j = i
        · subst e; simp [hi]
        · simp [e]


/-! ## Part C: the coordinator (layer 1) -/

/-! ### list helpers -/

theorem getD_set {α : Type} (l : List α) (i j : Nat) (v d : α) :
    (l.set i v).getD j d = if i = j ∧ j < l.length then v else l.getD j d := by
  simp only [List.getD_eq_getElem?_getD, List.getElem?_set]
  grind

theorem getD_of_le {α : Type} (l : List α) (j : Nat) (d : α) (h : l.length ≤ j) : l.getD j d = d := by
  simp [List.getD_eq_getElem?_getD, List.getElem?_eq_none h]

theorem lt_of_getD_ne {α : Type} {l : List α} {j : Nat} {d : α} (h : l.getD j d ≠ d) : j < l.length := by
  apply Nat.lt_of_not_le
  intro hle
  exact h (getD_of_le l j d hle)

theorem sum_map_set {α : Type} (f : α → Nat) (l : List α) (i : Nat) (v d : α) (hi : i < l.length) :
    ((l.set i v).map f).sum + f (l.getD i d) = (l.map f).sum + f v := by
  induction l generalizing i with
  | nil => simp at hi
  | cons a t ih =>
    cases i with
    | zero => simp; omega
    | succ i =>
      have := ih i (by simpa using hi)
      simp at this ⊢
      omega

theorem sum_range_map_update (n : Nat) (f g : Nat → Nat) (i : Nat) (hi : i < n)
    (h : ∀ j, j ≠ i → f j = g j) :
    ((List.range n).map f).sum + g i = ((List.range n).map g).sum + f i := by
  induction n with
  | zero => omega
  | succ n ih =>
    simp only [List.range_succ, List.map_append, List.sum_append, List.map_cons, List.map_nil,
      List.sum_cons, List.sum_nil]
    by_cases hin : i = n
    · subst hin
      have : (List.range i).map f = (List.range i).map g := by
        apply List.map_congr_left
        intro j hj
        exact h j (by have := List.mem_range.1 hj; omega)
      rw [this]; omega
    · have := ih (by omega)
      have := h n (fun e => hin e.symm)
      omega

theorem sum_range_map_congr (n : Nat) (f g : Nat → Nat) (h : ∀ j, j < n → f j = g j) :
    ((List.range n).map f).sum = ((List.range n).map g).sum := by
  congr 1
  apply List.map_congr_left
  intro j hj
  exact h j (List.mem_range.1 hj)

theorem countTrue_cons (b : Bool) (l : List Bool) :
    countTrue (b :: l) = (if b then 1 else 0) + countTrue l := by
  cases b <;> simp [countTrue] <;> omega

theorem countSome_cons (o : Option Msg) (l : List (Option Msg)) :
    countSome (o :: l) = (if o.isSome then 1 else 0) + countSome l := by
  cases o <;> simp [countSome] <;> omega

theorem countTrue_set_false (l : List Bool) (i : Nat) (h : l.getD i false = true) :
    countTrue (l.set i false) + 1 = countTrue l := by
  induction l generalizing i with
  | nil => simp at h
  | cons a t ih =>
    cases i with
    | zero => simp at h; subst h; simp [countTrue_cons]; omega
    | succ i =>
      have := ih i (by simpa using h)
      simp only [List.set_cons_succ, countTrue_cons]
      omega

theorem countSome_set_some (l : List (Option Msg)) (i : Nat) (m : Msg) (hi : i < l.length)
    (h : l.getD i none = none) : countSome (l.set i (some m)) = countSome l + 1 := by
  induction l generalizing i with
  | nil => simp at hi
  | cons a t ih =>
    cases i with
    | zero => simp at h; subst h; simp [countSome_cons]; omega
    | succ i =>
      have := ih i (by simpa using hi) (by simpa using h)
      simp only [List.set_cons_succ, countSome_cons]
      omega

theorem countSome_set_none (l : List (Option Msg)) (i : Nat) (m : Msg)
    (h : l.getD i none = some m) : countSome (l.set i none) + 1 = countSome l := by
  induction l generalizing i with
  | nil => simp at h
  | cons a t ih =>
    cases i with
    | zero => simp at h; subst h; simp [countSome_cons]; omega
    | succ i =>
      have := ih i (by simpa using h)
      simp only [List.set_cons_succ, countSome_cons]
      omega

theorem countTrue_eq_zero {l : List Bool} : countTrue l = 0 ↔ ∀ j : Nat, l.getD j false = false := by
  induction l with
  | nil => simp [countTrue]
  | cons a t ih =>
    rw [countTrue_cons]
    constructor
    · intro h j
      cases j with
      | zero => cases a <;> simp at h ⊢
      | succ j => simpa using (ih.1 (by omega)) j
    · intro h
      have h0 := h 0
      simp at h0
      subst h0
      have := ih.2 (fun j => by simpa using h (j + 1))
      simp; exact this

theorem countSome_eq_zero {l : List (Option Msg)} : countSome l = 0 ↔ ∀ j : Nat, l.getD j none = none := by
  induction l with
  | nil => simp [countSome]
  | cons a t ih =>
    rw [countSome_cons]
    constructor
    · intro h j
      cases j with
      | zero => cases a <;> simp at h ⊢
      | succ j => simpa using (ih.1 (by omega)) j
    · intro h
      have h0 := h 0
      simp at h0
      subst h0
      have := ih.2 (fun j => by simpa using h (j + 1))
      simp; exact this

/-- pending entries only on live channels: at most as many pending as live -/
theorem countSome_le_countTrue (live : List Bool) (pending : List (Option Msg))
    (hpl : ∀ j : Nat, (pending.getD j none).isSome = true → live.getD j false = true) :
    countSome pending ≤ countTrue live := by
  induction live generalizing pending with
  | nil =>
    have : countSome pending = 0 := countSome_eq_zero.2 (fun j => by
      have := hpl j
      simp at this
      cases h : pending.getD j none with
      | none => rfl
      | some m => simp [List.getD_eq_getElem?_getD] at h; simp [h] at this)
    omega
  | cons a t ih =>
    cases pending with
    | nil => simp [countSome]
    | cons o p =>
      have := ih p (fun j => by simpa using hpl (j + 1))
      have h0 := hpl 0
      simp at h0
      rw [countTrue_cons, countSome_cons]
      cases o <;> simp_all <;> omega

theorem countSome_lt_countTrue (live : List Bool) (pending : List (Option Msg))
    (hpl : ∀ j : Nat, (pending.getD j none).isSome = true → live.getD j false = true)
    (i : Nat) (hi : live.getD i false = true) (hn : pending.getD i none = none) :
    countSome pending < countTrue live := by
  induction live generalizing pending i with
  | nil => simp at hi
  | cons a t ih =>
    cases pending with
    | nil =>
      have : 0 < countTrue (a :: t) := by
        apply Nat.pos_of_ne_zero
        intro h
        have := countTrue_eq_zero.1 h i
        simp_all
      simpa [countSome] using this
    | cons o p =>
      have hle := countSome_le_countTrue t p (fun j => by simpa using hpl (j + 1))
      have h0 := hpl 0
      simp at h0
      rw [countTrue_cons, countSome_cons]
      cases i with
      | zero => simp at hi hn; subst hi hn; simp; omega
      | succ i =>
        have := ih p (fun j => by simpa using hpl (j + 1)) i (by simpa using hi) (by simpa using hn)
        cases o <;> simp_all <;> omega

theorem exists_eligible_of_lt (live : List Bool) (pending : List (Option Msg))
    (h : countSome pending < countTrue live) :
    ∃ i : Nat, live.getD i false = true ∧ pending.getD i none = none := by
  induction live generalizing pending with
  | nil => simp [countTrue] at h
  | cons a t ih =>
    cases pending with
    | nil =>
      have : countTrue (a :: t) ≠ 0 := by simp [countSome] at h; omega
      rw [Ne, countTrue_eq_zero] at this
      have ⟨j, hj⟩ := Classical.not_forall.1 this
      exact ⟨j, by simpa using hj, by simp⟩
    | cons o p =>
      rw [countTrue_cons, countSome_cons] at h
      by_cases h0 : a = true ∧ o = none
      · exact ⟨0, by simp [h0.1], by simp [h0.2]⟩
      · have : countSome p < countTrue t := by
          cases a <;> cases o <;> simp_all <;> omega
        obtain ⟨i, hi1, hi2⟩ := ih p this
        exact ⟨i + 1, by simpa using hi1, by simpa using hi2⟩


/-! ### definitions for the statements -/

/-- what the coordinator can ever receive from a script: the prefix up to and
including the first `summary` (the channel is removed there) -/
def deliverable : List Datum → List Datum
  | [] => []
  | .fileInfo ok :: r => .fileInfo ok :: deliverable r
  | .msg m :: r => .msg m :: deliverable r
  | .summary ok :: _ => [.summary ok]

/-- errors a script contributes: not-ok `fileInfo`/`summary` up to the first
summary, plus one (disconnect) when there is no summary -/
def errsOf : List Datum → Nat
  | [] => 1
  | .fileInfo ok :: r => (if ok then 0 else 1) + errsOf r
  | .msg _ :: r => errsOf r
  | .summary ok :: _ => if ok then 0 else 1

/-- messages of source `i` not yet printed -/
def rem (s : St) (i : Nat) : List Msg :=
  (s.pending.getD i none).toList ++
    (if s.live.getD i false then msgsOf (deliverable (s.streams.getD i [])) else [])

def rems (s : St) : List (List Msg) := (List.range s.streams.length).map (rem s)

/-- errors still to be counted for source `i` -/
def errsRem (s : St) (i : Nat) : Nat :=
  if s.live.getD i false then errsOf (s.streams.getD i []) else 0

def specMsgs (scripts : List (List Datum)) : List (List Msg) :=
  scripts.map (fun sc => msgsOf (deliverable sc))

def WF (scripts : List (List Datum)) : Prop := ∀ sc ∈ scripts, wfScript sc = true

instance (scripts : List (List Datum)) : Decidable (WF scripts) := by unfold WF; infer_instance

theorem deliverable_prefix (sc : List Datum) : deliverable sc <+: sc := by
  induction sc with
  | nil => exact List.prefix_refl _
  | cons d r ih =>
    cases d with
    | fileInfo ok => simpa [deliverable] using ih
    | msg m => simpa [deliverable] using ih
    | summary ok => simp [deliverable]

/-- nothing follows the first summary ⇒ everything is deliverable -/
theorem deliverable_eq_self (sc : List Datum)
    (h : ∀ pre ok post, sc = pre ++ Datum.summary ok :: post → post = []) : deliverable sc = sc := by
  induction sc with
  | nil => rfl
  | cons d r ih =>
    have hr : ∀ pre ok post, r = pre ++ Datum.summary ok :: post → post = [] := by
      intro pre ok post e
      exact h (d :: pre) ok post (by rw [e]; rfl)
    cases d with
    | fileInfo ok => simp [deliverable, ih hr]
    | msg m => simp [deliverable, ih hr]
    | summary ok => simp [deliverable]; exact (h [] ok r rfl)

/-! ### decomposition of `step` -/

theorem eligible_iff {s : St} {i : Nat} :
    eligible s i = true ↔ s.live.getD i false = true ∧ s.pending.getD i none = none := by
  simp only [eligible, Bool.and_eq_true, Option.isNone_iff_eq_none]

theorem anyEligible_iff {s : St} : anyEligible s = true ↔ ∃ i : Nat, eligible s i = true := by
  simp only [anyEligible, List.any_eq_true, List.mem_range]
  constructor
  · rintro ⟨i, _, h⟩; exact ⟨i, h⟩
  · rintro ⟨i, h⟩
    refine ⟨i, ?_, h⟩
    have := (eligible_iff.1 h).1
    exact lt_of_getD_ne (by rw [this]; simp)

inductive RecvCore (s : St) (i : Nat) : St → Prop
  | disc : s.streams.getD i [] = [] →
      RecvCore s i { s with live := s.live.set i false, errs := s.errs + 1 }
  | finfo (ok : Bool) (r : List Datum) : s.streams.getD i [] = .fileInfo ok :: r →
      RecvCore s i { s with streams := s.streams.set i r, fi := s.fi.map (fun f => f.set i true),
                            errs := if ok then s.errs else s.errs + 1 }
  | msg (m : Msg) (r : List Datum) : s.streams.getD i [] = .msg m :: r →
      RecvCore s i { s with streams := s.streams.set i r, pending := s.pending.set i (some m) }
  | summ (ok : Bool) (r : List Datum) : s.streams.getD i [] = .summary ok :: r →
      RecvCore s i { s with streams := s.streams.set i r, live := s.live.set i false,
                            errs := if ok then s.errs else s.errs + 1 }

theorem step_recv {s s' : St} {i : Nat} (h : step s (.recv i) = some s') :
    s.fin = false ∧ s.broke = false ∧ waitCond s = true ∧ eligible s i = true ∧
    ∃ s1, RecvCore s i s1 ∧ s' = closeIfEmpty (clearFiIfAll s1) := by
  simp only [step] at h
  split at h
  · cases h
  · next hc =>
    simp only [Bool.or_eq_true, Bool.not_eq_true', not_or, Bool.not_eq_true] at hc
    obtain ⟨⟨⟨h1, h2⟩, h3⟩, h4⟩ := hc
    simp only [Bool.not_eq_false] at h3 h4
    refine ⟨h1, h2, h3, h4, ?_⟩
    split at h
    · next e => exact ⟨_, RecvCore.disc e, (Option.some.inj h).symm⟩
    · next ok r e => exact ⟨_, RecvCore.finfo ok r e, (Option.some.inj h).symm⟩
    · next m r e => exact ⟨_, RecvCore.msg m r e, (Option.some.inj h).symm⟩
    · next ok r e => exact ⟨_, RecvCore.summ ok r e, (Option.some.inj h).symm⟩

theorem step_recv_enabled {s : St} {i : Nat} (h1 : s.fin = false) (h2 : s.broke = false)
    (h3 : waitCond s = true) (h4 : eligible s i = true) : (step s (.recv i)).isSome = true := by
  simp only [step]
  rw [if_neg (by simp [h1, h2, h3, h4])]
  split <;> rfl

theorem step_print {s s' : St} (h : step s .print = some s') :
    s.fin = false ∧ s.broke = false ∧ waitCond s = false ∧
    ((∃ i m, minPending s.pending = some (i, m) ∧
        s' = closeIfEmpty { s with printed := s.printed ++ [(i, m)], pending := s.pending.set i none }) ∨
     (minPending s.pending = none ∧ s' = closeIfEmpty s)) := by
  simp only [step] at h
  split at h
  · cases h
  · next hc =>
    simp only [Bool.or_eq_true, not_or, Bool.not_eq_true] at hc
    obtain ⟨⟨h1, h2⟩, h3⟩ := hc
    refine ⟨h1, h2, h3, ?_⟩
    split at h
    · next i m e => exact Or.inl ⟨i, m, e, (Option.some.inj h).symm⟩
    · next e => exact Or.inr ⟨e, (Option.some.inj h).symm⟩

theorem step_print_enabled {s : St} (h1 : s.fin = false) (h2 : s.broke = false)
    (h3 : waitCond s = false) : (step s .print).isSome = true := by
  simp only [step]
  rw [if_neg (by simp [h1, h2, h3])]
  split <;> rfl

theorem step_brk {s s' : St} (h : step s .brk = some s') :
    s.fin = false ∧ s.broke = false ∧ waitCond s = true ∧ anyEligible s = false ∧
      s' = { s with broke := true } := by
  simp only [step] at h
  split at h
  · cases h
  · next hc =>
    simp only [Bool.or_eq_true, Bool.not_eq_true', not_or, Bool.not_eq_true] at hc
    obtain ⟨⟨⟨h1, h2⟩, h3⟩, h4⟩ := hc
    simp only [Bool.not_eq_false] at h3
    exact ⟨h1, h2, h3, h4, (Option.some.inj h).symm⟩

theorem step_fin {s s' : St} (h : step s .fin = some s') : s.fin = true ∧ s' = s := by
  simp only [step] at h
  split at h
  · next hf => exact ⟨hf, (Option.some.inj h).symm⟩
  · cases h

theorem waitCond_false {s : St} (h : waitCond s = false) :
    countTrue s.live = countSome s.pending ∧ s.fi = none := by
  simp only [waitCond, Bool.or_eq_false_iff, bne_eq_false_iff_eq, Option.isSome_eq_false_iff,
    Option.isNone_iff_eq_none] at h
  exact h


/-! ### the invariant, part 1: `Base` (no well-formedness needed) -/

structure Base (scripts : List (List Datum)) (s : St) : Prop where
  len_streams : s.streams.length = scripts.length
  len_live : s.live.length = scripts.length
  len_pending : s.pending.length = scripts.length
  /-- a pending message belongs to a live channel -/
  pend_live : ∀ j : Nat, (s.pending.getD j none).isSome = true → s.live.getD j false = true
  /-- what is still to be received is a suffix of the script -/
  suffix : ∀ j : Nat, s.streams.getD j [] <:+ scripts.getD j []
  /-- conservation: printed so far, then the merge of what remains, is the merge of everything -/
  cons : s.printed ++ merge (rems s) = merge (specMsgs scripts)
  /-- conservation of errors -/
  errs : s.errs + ((List.range scripts.length).map (errsRem s)).sum = (scripts.map errsOf).sum

theorem Base.of_eq {scripts : List (List Datum)} {s s' : St} (hb : Base scripts s)
    (h1 : s'.streams = s.streams) (h2 : s'.live = s.live) (h3 : s'.pending = s.pending)
    (h4 : s'.printed = s.printed) (h5 : s'.errs = s.errs) : Base scripts s' := by
  have hr0 : rem s' = rem s := by funext j; simp only [rem, h1, h2, h3]
  have hr : rems s' = rems s := by simp only [rems, hr0, h1]
  have he : errsRem s' = errsRem s := by funext j; simp only [errsRem, h1, h2]
  constructor
  · rw [h1]; exact hb.len_streams
  · rw [h2]; exact hb.len_live
  · rw [h3]; exact hb.len_pending
  · rw [h2, h3]; exact hb.pend_live
  · rw [h1]; exact hb.suffix
  · rw [h4, hr]; exact hb.cons
  · rw [h5, he]; exact hb.errs

theorem closeIfEmpty_fields (s : St) :
    (closeIfEmpty s).streams = s.streams ∧ (closeIfEmpty s).live = s.live ∧
    (closeIfEmpty s).pending = s.pending ∧ (closeIfEmpty s).printed = s.printed ∧
    (closeIfEmpty s).errs = s.errs ∧ (closeIfEmpty s).fi = s.fi ∧ (closeIfEmpty s).broke = s.broke := by
  unfold closeIfEmpty; split <;> simp

theorem clearFiIfAll_fields (s : St) :
    (clearFiIfAll s).streams = s.streams ∧ (clearFiIfAll s).live = s.live ∧
    (clearFiIfAll s).pending = s.pending ∧ (clearFiIfAll s).printed = s.printed ∧
    (clearFiIfAll s).errs = s.errs ∧ (clearFiIfAll s).fin = s.fin ∧ (clearFiIfAll s).broke = s.broke := by
  unfold clearFiIfAll; split
  · split <;> simp
  · simp

theorem Base.closeIfEmpty {scripts : List (List Datum)} {s : St} (hb : Base scripts s) :
    Base scripts (closeIfEmpty s) := by
  obtain ⟨h1, h2, h3, h4, h5, _⟩ := closeIfEmpty_fields s
  exact hb.of_eq h1 h2 h3 h4 h5

theorem Base.clearFiIfAll {scripts : List (List Datum)} {s : St} (hb : Base scripts s) :
    Base scripts (clearFiIfAll s) := by
  obtain ⟨h1, h2, h3, h4, h5, _⟩ := clearFiIfAll_fields s
  exact hb.of_eq h1 h2 h3 h4 h5

theorem rems_length (s : St) : (rems s).length = s.streams.length := by simp [rems]

theorem rems_getD {scripts : List (List Datum)} {s : St} (hb : Base scripts s) (j : Nat) :
    (rems s).getD j [] = rem s j := by
  by_cases hj : j < s.streams.length
  · simp [rems, hj]
  · have h1 : s.pending.getD j none = none :=
      getD_of_le _ _ _ (by have := hb.len_pending; have := hb.len_streams; omega)
    have h2 : s.live.getD j false = false :=
      getD_of_le _ _ _ (by have := hb.len_live; have := hb.len_streams; omega)
    rw [getD_of_le _ _ _ (by rw [rems_length]; omega)]
    simp only [rem, h1, h2]; rfl

theorem base_init (scripts : List (List Datum)) : Base scripts (init scripts) := by
  constructor
  · rfl
  · simp [init]
  · simp [init]
  · intro j; simp [init, List.getD_eq_getElem?_getD, List.getElem?_map]
    cases scripts[j]? <;> simp
  · intro j; exact List.suffix_refl _
  · have : rems (init scripts) = specMsgs scripts := by
      apply List.ext_getElem?
      intro j
      simp only [rems, specMsgs, init, List.getElem?_map]
      by_cases hj : j < scripts.length
      · simp [hj, rem]
      · simp [hj]
    rw [this]; rfl
  · have : (List.range scripts.length).map (errsRem (init scripts)) = scripts.map errsOf := by
      apply List.ext_getElem?
      intro j
      simp only [init, List.getElem?_map]
      by_cases hj : j < scripts.length
      · simp [hj, errsRem]
      · simp [hj]
    rw [this]; simp [init]

theorem rems_congr {s s1 : St} (hl : s1.streams.length = s.streams.length)
    (h : ∀ j, rem s1 j = rem s j) : rems s1 = rems s := by
  simp only [rems, hl]
  apply List.map_congr_left
  intro j _; exact h j

theorem errs_update {n : Nat} {s s1 : St} {i : Nat} (hi : i < n)
    (h : ∀ j, j ≠ i → errsRem s1 j = errsRem s j)
    (hi' : s1.errs + errsRem s1 i = s.errs + errsRem s i) :
    s1.errs + ((List.range n).map (errsRem s1)).sum = s.errs + ((List.range n).map (errsRem s)).sum := by
  have := sum_range_map_update n (errsRem s1) (errsRem s) i hi h
  omega

theorem Base.recvCore {scripts : List (List Datum)} {s s1 : St} {i : Nat} (hb : Base scripts s)
    (hel : eligible s i = true) (hc : RecvCore s i s1) : Base scripts s1 := by
  obtain ⟨hlive, hpend⟩ := eligible_iff.1 hel
  have hi : i < scripts.length := by
    rw [← hb.len_live]; exact lt_of_getD_ne (by rw [hlive]; simp)
  have hil : i < s.live.length := by rw [hb.len_live]; exact hi
  have his : i < s.streams.length := by rw [hb.len_streams]; exact hi
  have hip : i < s.pending.length := by rw [hb.len_pending]; exact hi
  have hsuf := hb.suffix
  have hpl := hb.pend_live
  cases hc with
  | disc e =>
    constructor
    · exact hb.len_streams
    · simp only [List.length_set]; exact hb.len_live
    · exact hb.len_pending
    · intro j hj
      simp only [getD_set]
      split
      · next h => rw [← h.1, hpend] at hj; simp at hj
      · exact hpl j hj
    · exact hb.suffix
    · rw [← hb.cons]
      congr 2
      apply rems_congr (by simp)
      intro j
      simp only [rem, getD_set]
      by_cases e' : i = j
      · subst e'; simp [hpend, hlive, e, deliverable, msgsOf, -List.getD_eq_getElem?_getD]
      · simp [e', -List.getD_eq_getElem?_getD]
    · rw [← hb.errs]
      apply errs_update hi
      · intro j hj
        simp only [errsRem, getD_set]
        have : ¬ i = j := fun h => hj h.symm
        simp [this, -List.getD_eq_getElem?_getD]
      · simp only [errsRem, getD_set, hlive, e, errsOf]
        simp [hil, -List.getD_eq_getElem?_getD]
  | finfo ok r e =>
    constructor
    · simp only [List.length_set]; exact hb.len_streams
    · exact hb.len_live
    · exact hb.len_pending
    · exact hb.pend_live
    · intro j
      simp only [getD_set]
      split
      · next h =>
        rw [← h.1]
        refine List.IsSuffix.trans ?_ (hsuf i)
        rw [e]; exact List.suffix_cons _ _
      · exact hsuf j
    · rw [← hb.cons]
      congr 2
      apply rems_congr (by simp)
      intro j
      simp only [rem, getD_set]
      by_cases e' : i = j
      · subst e'; simp [his, e, deliverable, msgsOf, -List.getD_eq_getElem?_getD]
      · simp [e', -List.getD_eq_getElem?_getD]
    · rw [← hb.errs]
      apply errs_update hi
      · intro j hj
        simp only [errsRem, getD_set]
        have : ¬ i = j := fun h => hj h.symm
        simp [this, -List.getD_eq_getElem?_getD]
      · simp only [errsRem, getD_set, hlive, e, errsOf]
        cases ok <;> simp [his, -List.getD_eq_getElem?_getD] <;> omega
  | msg m r e =>
    constructor
    · simp only [List.length_set]; exact hb.len_streams
    · exact hb.len_live
    · simp only [List.length_set]; exact hb.len_pending
    · intro j hj
      simp only [getD_set] at hj
      split at hj
      · next h => rw [← h.1]; exact hlive
      · exact hpl j hj
    · intro j
      simp only [getD_set]
      split
      · next h =>
        rw [← h.1]
        refine List.IsSuffix.trans ?_ (hsuf i)
        rw [e]; exact List.suffix_cons _ _
      · exact hsuf j
    · rw [← hb.cons]
      congr 2
      apply rems_congr (by simp)
      intro j
      simp only [rem, getD_set]
      by_cases e' : i = j
      · subst e'; simp [his, hip, hpend, hlive, e, deliverable, msgsOf, -List.getD_eq_getElem?_getD]
      · simp [e', -List.getD_eq_getElem?_getD]
    · rw [← hb.errs]
      apply errs_update hi
      · intro j hj
        simp only [errsRem, getD_set]
        have : ¬ i = j := fun h => hj h.symm
        simp [this, -List.getD_eq_getElem?_getD]
      · simp only [errsRem, getD_set, hlive, e, errsOf]
        simp [his, -List.getD_eq_getElem?_getD]
  | summ ok r e =>
    constructor
    · simp only [List.length_set]; exact hb.len_streams
    · simp only [List.length_set]; exact hb.len_live
    · exact hb.len_pending
    · intro j hj
      simp only [getD_set]
      split
      · next h => rw [← h.1, hpend] at hj; simp at hj
      · exact hpl j hj
    · intro j
      simp only [getD_set]
      split
      · next h =>
        rw [← h.1]
        refine List.IsSuffix.trans ?_ (hsuf i)
        rw [e]; exact List.suffix_cons _ _
      · exact hsuf j
    · rw [← hb.cons]
      congr 2
      apply rems_congr (by simp)
      intro j
      simp only [rem, getD_set]
      by_cases e' : i = j
      · subst e'; simp [hil, hpend, hlive, e, deliverable, msgsOf, -List.getD_eq_getElem?_getD]
      · simp [e', -List.getD_eq_getElem?_getD]
    · rw [← hb.errs]
      apply errs_update hi
      · intro j hj
        simp only [errsRem, getD_set]
        have : ¬ i = j := fun h => hj h.symm
        simp [this, -List.getD_eq_getElem?_getD]
      · simp only [errsRem, getD_set, hlive, e, errsOf]
        cases ok <;> simp [hil, -List.getD_eq_getElem?_getD]

theorem rems_getD' {s : St} (hl : s.live.length = s.streams.length)
    (hp : s.pending.length = s.streams.length) (j : Nat) : (rems s).getD j [] = rem s j := by
  by_cases hj : j < s.streams.length
  · simp [rems, hj]
  · have h1 : s.pending.getD j none = none := getD_of_le _ _ _ (by omega)
    have h2 : s.live.getD j false = false := getD_of_le _ _ _ (by omega)
    rw [getD_of_le _ _ _ (by rw [rems_length]; omega)]
    simp only [rem, h1, h2]; rfl

/-- when the wait condition is off, the pending map is exactly the heads of what remains -/
theorem heads_eq {scripts : List (List Datum)} {s : St} (hb : Base scripts s)
    (hc : countTrue s.live = countSome s.pending) : (rems s).map List.head? = s.pending := by
  apply List.ext_getElem?
  intro j
  by_cases hj : j < s.streams.length
  · have hjp : j < s.pending.length := by rw [hb.len_pending, ← hb.len_streams]; exact hj
    simp only [rems, List.map_map, List.getElem?_map, List.getElem?_range hj, Option.map_some,
      Function.comp, List.getElem?_eq_getElem hjp]
    congr 1
    have hg : s.pending.getD j none = s.pending[j] := by
      simp [List.getD_eq_getElem?_getD, List.getElem?_eq_getElem hjp]
    rw [← hg]
    cases hp : s.pending.getD j none with
    | some m => simp [rem, hp, -List.getD_eq_getElem?_getD]
    | none =>
      have hl : s.live.getD j false = false := by
        cases hl : s.live.getD j false with
        | false => rfl
        | true =>
          have := countSome_lt_countTrue s.live s.pending hb.pend_live j hl hp
          omega
      simp [rem, hp, hl, -List.getD_eq_getElem?_getD]
  · have hjp : s.pending.length ≤ j := by rw [hb.len_pending, ← hb.len_streams]; omega
    rw [List.getElem?_eq_none hjp, List.getElem?_eq_none (by simp [rems_length]; omega)]

theorem isMin_getD {p : List (Option Msg)} {i : Nat} {m : Msg} (h : minPending p = some (i, m)) :
    p.getD i none = some m ∧ i < p.length := by
  have := (minPending_eq_iff.1 h)
  simp only [IsMinOpt, IsMin] at this
  have h1 := this.1
  have hi : i < p.length := by
    apply Nat.lt_of_not_le; intro hle; rw [List.getElem?_eq_none hle] at h1; cases h1
  exact ⟨by simp [List.getD_eq_getElem?_getD, h1], hi⟩

theorem minPending_none {p : List (Option Msg)} (h : minPending p = none) :
    ∀ j : Nat, p.getD j none = none := by
  have := (minPending_eq_iff.1 h)
  simp only [IsMinOpt] at this
  intro j
  cases hj : p.getD j none with
  | none => rfl
  | some m =>
    exfalso
    apply this j m
    simp only [List.getD_eq_getElem?_getD] at hj
    cases h' : p[j]? with
    | none => rw [h'] at hj; cases hj
    | some o => rw [h'] at hj; simp at hj; rw [hj]

theorem Base.print {scripts : List (List Datum)} {s : St} {i : Nat} {m : Msg} (hb : Base scripts s)
    (hw : waitCond s = false) (hm : minPending s.pending = some (i, m)) :
    Base scripts { s with printed := s.printed ++ [(i, m)], pending := s.pending.set i none } := by
  obtain ⟨hc, _⟩ := waitCond_false hw
  obtain ⟨hpi, hip⟩ := isMin_getD hm
  have hpl := hb.pend_live
  constructor
  · exact hb.len_streams
  · exact hb.len_live
  · simp only [List.length_set]; exact hb.len_pending
  · intro j hj
    simp only [getD_set] at hj
    split at hj
    · simp at hj
    · exact hpl j hj
  · exact hb.suffix
  · rw [← hb.cons]
    have hmh : minHead (rems s) = some (i, m) := by rw [minHead_eq, heads_eq hb hc]; exact hm
    rw [merge_step hmh, List.append_assoc]
    congr 1
    show (i, m) :: merge _ = _
    congr 2
    apply ext_getD
    · simp [rems_length, popAt_length]
    · intro j
      rw [popAt_getD, rems_getD' (by simp; rw [hb.len_live, hb.len_streams])
        (by simp; rw [hb.len_pending, hb.len_streams])]
      simp only [rems_getD hb, rem, getD_set]
      by_cases e : i = j
      · subst e; simp [hip, hpi, -List.getD_eq_getElem?_getD]
      · have : ¬ j = i := fun h => e h.symm
        simp [e, this, -List.getD_eq_getElem?_getD]
  · rw [← hb.errs]; rfl

/-! ### the invariant, part 2: how the loop ends -/

structure FinInv (s : St) : Prop where
  fin_dead : s.fin = true → countTrue s.live = 0
  nofin_live : s.fin = false → countTrue s.live ≠ 0 ∨ s.fi.isSome = true

theorem FinInv.closeIfEmpty {s : St} (h : s.fin = false) : FinInv (closeIfEmpty s) := by
  unfold S4V.Model.Coord.closeIfEmpty
  split
  · next hz => exact ⟨fun _ => hz, fun hf => by simp at hf⟩
  · next hz => exact ⟨fun hf => (by rw [h] at hf; cases hf), fun _ => Or.inl hz⟩

/-- invariant that holds for arbitrary scripts -/
def Inv0 (scripts : List (List Datum)) (s : St) : Prop := Base scripts s ∧ FinInv s

theorem inv0_init (scripts : List (List Datum)) : Inv0 scripts (init scripts) :=
  ⟨base_init scripts, ⟨fun h => by simp [init] at h, fun _ => Or.inr (by simp [init])⟩⟩

theorem inv0_step {scripts : List (List Datum)} {s s' : St} {e : Ev} (hi : Inv0 scripts s)
    (hs : step s e = some s') : Inv0 scripts s' := by
  obtain ⟨hb, hf⟩ := hi
  cases e with
  | recv i =>
    obtain ⟨h1, _, _, h4, s1, hc, rfl⟩ := step_recv hs
    have hb1 := hb.recvCore h4 hc
    refine ⟨hb1.clearFiIfAll.closeIfEmpty, FinInv.closeIfEmpty ?_⟩
    rw [(clearFiIfAll_fields s1).2.2.2.2.2.1]
    cases hc <;> exact h1
  | print =>
    obtain ⟨h1, _, h3, h | h⟩ := step_print hs
    · obtain ⟨i, m, hm, rfl⟩ := h
      exact ⟨(hb.print h3 hm).closeIfEmpty, FinInv.closeIfEmpty h1⟩
    · obtain ⟨_, rfl⟩ := h
      exact ⟨hb.closeIfEmpty, FinInv.closeIfEmpty h1⟩
  | brk =>
    obtain ⟨_, _, _, _, rfl⟩ := step_brk hs
    exact ⟨hb.of_eq rfl rfl rfl rfl rfl, ⟨hf.fin_dead, hf.nofin_live⟩⟩
  | fin =>
    obtain ⟨_, rfl⟩ := step_fin hs
    exact ⟨hb, hf⟩

theorem inv0_run {scripts : List (List Datum)} {evs : List Ev} : ∀ {s s' : St}, Inv0 scripts s →
    run s evs = some s' → Inv0 scripts s' := by
  induction evs with
  | nil => intro s s' hi hr; simp only [run] at hr; cases hr; exact hi
  | cons e es ih =>
    intro s s' hi hr
    simp only [run] at hr
    split at hr
    · next s1 h1 => exact ih (inv0_step hi h1) hr
    · cases hr

/-! ### consequences at the end of the loop -/

theorem rem_nil_of_dead {scripts : List (List Datum)} {s : St} (hb : Base scripts s) {j : Nat}
    (hl : s.live.getD j false = false) : rem s j = [] := by
  have hp : s.pending.getD j none = none := by
    cases hp : s.pending.getD j none with
    | none => rfl
    | some m => have := hb.pend_live j (by rw [hp]; rfl); rw [hl] at this; cases this
  simp only [rem, hp, hl]; rfl

theorem fin_printed {scripts : List (List Datum)} {s : St} (hi : Inv0 scripts s) (hf : s.fin = true) :
    s.printed = merge (specMsgs scripts) := by
  obtain ⟨hb, hfi⟩ := hi
  have hd := countTrue_eq_zero.1 (hfi.fin_dead hf)
  have : merge (rems s) = [] := merge_all_nil (fun j => by rw [rems_getD hb, rem_nil_of_dead hb (hd j)])
  have hc := hb.cons
  rw [this, List.append_nil] at hc
  exact hc

theorem fin_errs {scripts : List (List Datum)} {s : St} (hi : Inv0 scripts s) (hf : s.fin = true) :
    s.errs = (scripts.map errsOf).sum := by
  obtain ⟨hb, hfi⟩ := hi
  have hd := countTrue_eq_zero.1 (hfi.fin_dead hf)
  have h0 : ((List.range scripts.length).map (errsRem s)).sum = 0 := by
    rw [sum_range_map_congr _ _ (fun _ => 0) (fun j _ => by simp only [errsRem, hd j]; rfl)]
    generalize List.range scripts.length = l
    induction l with
    | nil => rfl
    | cons a t ih => simpa using ih
  have := hb.errs
  omega

def okDatum : Datum → Bool
  | .fileInfo ok => ok
  | .msg _ => true
  | .summary ok => ok

def isSummary : Datum → Bool
  | .summary _ => true
  | _ => false

theorem errsOf_eq (sc : List Datum) :
    errsOf sc = ((deliverable sc).filter (fun d => !okDatum d)).length +
      (if (deliverable sc).any isSummary then 0 else 1) := by
  induction sc with
  | nil => rfl
  | cons d r ih =>
    cases d with
    | fileInfo ok => cases ok <;> simp [errsOf, deliverable, okDatum, isSummary, ih] <;> omega
    | msg m => simp [errsOf, deliverable, okDatum, isSummary, ih]
    | summary ok => cases ok <;> simp [errsOf, deliverable, okDatum, isSummary]

theorem errsOf_eq_zero_iff (sc : List Datum) :
    errsOf sc = 0 ↔ (∀ d ∈ deliverable sc, okDatum d = true) ∧ (deliverable sc).any isSummary = true := by
  rw [errsOf_eq]
  constructor
  · intro h
    have h1 : ((deliverable sc).filter (fun d => !okDatum d)).length = 0 := by omega
    have h2 : (deliverable sc).any isSummary = true := by
      cases hh : (deliverable sc).any isSummary with
      | true => rfl
      | false => rw [hh] at h; simp at h
    refine ⟨?_, h2⟩
    intro d hd
    have := List.eq_nil_of_length_eq_zero h1
    rw [List.filter_eq_nil_iff] at this
    simpa using this d hd
  · rintro ⟨h1, h2⟩
    have : (deliverable sc).filter (fun d => !okDatum d) = [] := by
      rw [List.filter_eq_nil_iff]; intro d hd; simp [h1 d hd]
    rw [this, h2]; rfl

theorem sum_eq_zero_iff (l : List Nat) : l.sum = 0 ↔ ∀ x ∈ l, x = 0 := by
  induction l with
  | nil => simp
  | cons a t ih => simp [ih]

theorem sum_errsOf_eq_zero_iff (scripts : List (List Datum)) :
    (scripts.map errsOf).sum = 0 ↔
      ∀ sc ∈ scripts, (∀ d ∈ deliverable sc, okDatum d = true) ∧ (deliverable sc).any isSummary = true := by
  rw [sum_eq_zero_iff]
  simp only [List.mem_map, forall_exists_index, and_imp, forall_apply_eq_imp_iff₂, errsOf_eq_zero_iff]

/-! ### the invariant, part 3: the FileInfo handshake (needs well-formed scripts) -/

structure FiPre (scripts : List (List Datum)) (s : St) : Prop where
  fi_len : ∀ flags, s.fi = some flags → flags.length = scripts.length
  /-- flag `false` ⇔ nothing of that source has been received yet -/
  fi_some : ∀ flags, s.fi = some flags → ∀ j, j < scripts.length →
    (flags.getD j true = false →
      s.streams.getD j [] = scripts.getD j [] ∧ s.live.getD j false = true ∧ s.pending.getD j none = none) ∧
    (flags.getD j true = true → (s.streams.getD j []).length < (scripts.getD j []).length)
  /-- flags cleared ⇒ every source's FileInfo has been received -/
  fi_none : s.fi = none → ∀ j, j < scripts.length →
    (s.streams.getD j []).length < (scripts.getD j []).length

structure FiInv (scripts : List (List Datum)) (s : St) : Prop extends FiPre scripts s where
  /-- the flags are cleared as soon as all are set -/
  fi_notall : ∀ flags, s.fi = some flags → scripts ≠ [] → flags.all id = false

theorem wf_getD {scripts : List (List Datum)} (hwf : WF scripts) {i : Nat} (hi : i < scripts.length) :
    ∃ ok r, scripts.getD i [] = Datum.fileInfo ok :: r := by
  have hm : scripts.getD i [] ∈ scripts := by
    simp [List.getD_eq_getElem?_getD, List.getElem?_eq_getElem hi]
  have := hwf _ hm
  cases h : scripts.getD i [] with
  | nil => rw [h] at this; simp [wfScript] at this
  | cons d r =>
    rw [h] at this
    cases d with
    | fileInfo ok => exact ⟨ok, r, rfl⟩
    | msg m => simp [wfScript] at this
    | summary ok => simp [wfScript] at this

theorem FiPre.of_eq {scripts : List (List Datum)} {s s' : St} (h : FiPre scripts s)
    (h1 : s'.streams = s.streams) (h2 : s'.live = s.live) (h3 : s'.pending = s.pending)
    (h4 : s'.fi = s.fi) : FiPre scripts s' := by
  constructor
  · rw [h4]; exact h.fi_len
  · rw [h1, h2, h3, h4]; exact h.fi_some
  · rw [h1, h4]; exact h.fi_none

theorem FiInv.of_eq {scripts : List (List Datum)} {s s' : St} (h : FiInv scripts s)
    (h1 : s'.streams = s.streams) (h2 : s'.live = s.live) (h3 : s'.pending = s.pending)
    (h4 : s'.fi = s.fi) : FiInv scripts s' :=
  { toFiPre := h.toFiPre.of_eq h1 h2 h3 h4, fi_notall := by rw [h4]; exact h.fi_notall }

theorem FiInv.closeIfEmpty {scripts : List (List Datum)} {s : St} (h : FiInv scripts s) :
    FiInv scripts (closeIfEmpty s) := by
  obtain ⟨h1, h2, h3, _, _, h6, _⟩ := closeIfEmpty_fields s
  exact h.of_eq h1 h2 h3 h6

theorem all_id_getD {flags : List Bool} (h : flags.all id = true) (j : Nat) : flags.getD j true = true := by
  simp only [List.all_eq_true, id] at h
  simp only [List.getD_eq_getElem?_getD]
  cases hj : flags[j]? with
  | none => rfl
  | some b => exact h b (List.mem_of_getElem? hj)

theorem FiPre.clearFiIfAll {scripts : List (List Datum)} {s : St} (h : FiPre scripts s) :
    FiInv scripts (clearFiIfAll s) := by
  unfold S4V.Model.Coord.clearFiIfAll
  split
  · next flags hfl =>
    split
    · next hall =>
      refine { fi_len := ?_, fi_some := ?_, fi_none := ?_, fi_notall := ?_ }
      · intro f hf; cases hf
      · intro f hf; cases hf
      · intro _ j hj
        exact ((h.fi_some flags hfl j hj).2 (all_id_getD hall j))
      · intro f hf; cases hf
    · next hall =>
      exact { toFiPre := h, fi_notall := fun f hf _ => by
                rw [hfl] at hf; cases hf; simpa using hall }
  · next hfl =>
    exact { toFiPre := h, fi_notall := fun f hf _ => by rw [hfl] at hf; cases hf }

theorem FiPre.recvCore {scripts : List (List Datum)} {s s1 : St} {i : Nat} (hwf : WF scripts)
    (hb : Base scripts s) (hel : eligible s i = true) (h : FiPre scripts s) (hc : RecvCore s i s1) :
    FiPre scripts s1 := by
  obtain ⟨hlive, hpend⟩ := eligible_iff.1 hel
  have hi : i < scripts.length := by
    rw [← hb.len_live]; exact lt_of_getD_ne (by rw [hlive]; simp)
  have his : i < s.streams.length := by rw [hb.len_streams]; exact hi
  obtain ⟨ok0, r0, hw⟩ := wf_getD hwf hi
  have hlen : ∀ d r, s.streams.getD i [] = d :: r → r.length < (scripts.getD i []).length := by
    intro d r e
    have := (hb.suffix i).length_le
    rw [e] at this
    simp only [List.length_cons] at this; omega
  cases hc with
  | disc e =>
    refine ⟨h.fi_len, ?_, h.fi_none⟩
    intro flags hfl j hj
    obtain ⟨ha, hb'⟩ := h.fi_some flags hfl j hj
    refine ⟨fun hf => ?_, hb'⟩
    obtain ⟨a1, a2, a3⟩ := ha hf
    refine ⟨a1, ?_, a3⟩
    simp only [getD_set]
    split
    · next hh => rw [← hh.1, e, hw] at a1; cases a1
    · exact a2
  | finfo ok r e =>
    refine ⟨?_, ?_, ?_⟩
    · intro flags hfl
      cases hs : s.fi with
      | none => simp [hs] at hfl
      | some f => simp [hs] at hfl; subst hfl; simp [h.fi_len f hs]
    · intro flags hfl j hj
      cases hs : s.fi with
      | none => simp [hs] at hfl
      | some f =>
        simp [hs] at hfl; subst hfl
        have hfl' := h.fi_len f hs
        obtain ⟨ha, hb'⟩ := h.fi_some f hs j hj
        simp only [getD_set]
        by_cases hij : i = j
        · subst hij
          simp [his, hfl', hi, -List.getD_eq_getElem?_getD]
          exact hlen _ _ e
        · simp only [hij, false_and, if_false]
          exact ⟨ha, hb'⟩
    · intro hfl j hj
      have hs : s.fi = none := by cases hs : s.fi with
        | none => rfl
        | some f => simp [hs] at hfl
      have := h.fi_none hs j hj
      simp only [getD_set]
      split
      · next hh => rw [← hh.1]; exact hlen _ _ e
      · exact this
  | msg m r e =>
    refine ⟨h.fi_len, ?_, ?_⟩
    · intro flags hfl j hj
      obtain ⟨ha, hb'⟩ := h.fi_some flags hfl j hj
      simp only [getD_set]
      by_cases hij : i = j
      · subst hij
        refine ⟨fun hf => ?_, fun _ => ?_⟩
        · have := (ha hf).1; rw [e, hw] at this; cases this
        · simp [his, -List.getD_eq_getElem?_getD]; exact hlen _ _ e
      · simp only [hij, false_and, if_false]
        exact ⟨ha, hb'⟩
    · intro hfl j hj
      have := h.fi_none hfl j hj
      simp only [getD_set]
      split
      · next hh => rw [← hh.1]; exact hlen _ _ e
      · exact this
  | summ ok r e =>
    refine ⟨h.fi_len, ?_, ?_⟩
    · intro flags hfl j hj
      obtain ⟨ha, hb'⟩ := h.fi_some flags hfl j hj
      simp only [getD_set]
      by_cases hij : i = j
      · subst hij
        refine ⟨fun hf => ?_, fun _ => ?_⟩
        · have := (ha hf).1; rw [e, hw] at this; cases this
        · simp [his, -List.getD_eq_getElem?_getD]; exact hlen _ _ e
      · simp only [hij, false_and, if_false]
        exact ⟨ha, hb'⟩
    · intro hfl j hj
      have := h.fi_none hfl j hj
      simp only [getD_set]
      split
      · next hh => rw [← hh.1]; exact hlen _ _ e
      · exact this

theorem fiInv_init (scripts : List (List Datum)) : FiInv scripts (init scripts) := by
  refine { fi_len := ?_, fi_some := ?_, fi_none := ?_, fi_notall := ?_ }
  · intro flags hfl; simp [init] at hfl; subst hfl; simp
  · intro flags hfl j hj
    simp [init] at hfl; subst hfl
    simp [init, hj]
  · intro hfl; simp [init] at hfl
  · intro flags hfl hne
    simp [init] at hfl; subst hfl
    cases scripts with
    | nil => exact absurd rfl hne
    | cons a t => simp

/-- the full invariant -/
def Inv (scripts : List (List Datum)) (s : St) : Prop := Base scripts s ∧ FinInv s ∧ FiInv scripts s

theorem Inv.inv0 {scripts : List (List Datum)} {s : St} (h : Inv scripts s) : Inv0 scripts s := ⟨h.1, h.2.1⟩

theorem inv_init (scripts : List (List Datum)) : Inv scripts (init scripts) :=
  ⟨(inv0_init scripts).1, (inv0_init scripts).2, fiInv_init scripts⟩

theorem inv_step {scripts : List (List Datum)} (hwf : WF scripts) {s s' : St} {e : Ev}
    (hi : Inv scripts s) (hs : step s e = some s') : Inv scripts s' := by
  have h0 := inv0_step hi.inv0 hs
  refine ⟨h0.1, h0.2, ?_⟩
  obtain ⟨hb, _, hfi⟩ := hi
  cases e with
  | recv i =>
    obtain ⟨_, _, _, h4, s1, hc, rfl⟩ := step_recv hs
    exact (hfi.toFiPre.recvCore hwf hb h4 hc).clearFiIfAll.closeIfEmpty
  | print =>
    obtain ⟨_, _, _, h | h⟩ := step_print hs
    · obtain ⟨i, m, hm, rfl⟩ := h
      have hpre : FiPre scripts { s with printed := s.printed ++ [(i, m)], pending := s.pending.set i none } := by
        refine ⟨hfi.fi_len, ?_, hfi.fi_none⟩
        intro flags hfl
        have := (waitCond_false ‹_›).2
        rw [this] at hfl; cases hfl
      have : FiInv scripts { s with printed := s.printed ++ [(i, m)], pending := s.pending.set i none } :=
        { toFiPre := hpre, fi_notall := hfi.fi_notall }
      exact this.closeIfEmpty
    · obtain ⟨_, rfl⟩ := h
      exact hfi.closeIfEmpty
  | brk =>
    obtain ⟨_, _, _, _, rfl⟩ := step_brk hs
    exact hfi.of_eq rfl rfl rfl rfl
  | fin =>
    obtain ⟨_, rfl⟩ := step_fin hs
    exact hfi

theorem inv_run {scripts : List (List Datum)} (hwf : WF scripts) {evs : List Ev} :
    ∀ {s s' : St}, Inv scripts s → run s evs = some s' → Inv scripts s' := by
  induction evs with
  | nil => intro s s' hi hr; simp only [run] at hr; cases hr; exact hi
  | cons e es ih =>
    intro s s' hi hr
    simp only [run] at hr
    split at hr
    · next s1 h1 => exact ih (inv_step hwf hi h1) hr
    · cases hr

/-- under the invariant, whenever the loop waits some channel is polled -/
theorem inv_anyEligible {scripts : List (List Datum)} (hne : scripts ≠ []) {s : St}
    (hi : Inv scripts s) (h3 : waitCond s = true) : anyEligible s = true := by
  obtain ⟨hb, _, hfi⟩ := hi
  rw [anyEligible_iff]
  cases hf : s.fi with
  | some flags =>
    have hna := hfi.fi_notall flags hf hne
    have : ∃ j, j < flags.length ∧ flags.getD j true = false := by
      rw [List.all_eq_false] at hna
      obtain ⟨b, hb1, hb2⟩ := hna
      obtain ⟨j, hj, rfl⟩ := List.getElem_of_mem hb1
      refine ⟨j, hj, ?_⟩
      simp [List.getD_eq_getElem?_getD, List.getElem?_eq_getElem hj]
      simpa using hb2
    obtain ⟨j, hj, hjf⟩ := this
    rw [hfi.fi_len flags hf] at hj
    obtain ⟨_, a2, a3⟩ := (hfi.fi_some flags hf j hj).1 hjf
    exact ⟨j, eligible_iff.2 ⟨a2, a3⟩⟩
  | none =>
    have hne' : countTrue s.live ≠ countSome s.pending := by
      simp only [waitCond, hf, Option.isSome_none, Bool.or_false, bne_iff_ne] at h3
      exact h3
    have hle := countSome_le_countTrue s.live s.pending hb.pend_live
    obtain ⟨j, a2, a3⟩ := exists_eligible_of_lt s.live s.pending (by omega)
    exact ⟨j, eligible_iff.2 ⟨a2, a3⟩⟩

/-- C06: with well-formed scripts (and at least one source) the loop never stops early -/
theorem inv_no_break {scripts : List (List Datum)} (hne : scripts ≠ []) {s : St}
    (hi : Inv scripts s) : step s .brk = none := by
  cases hs : step s .brk with
  | none => rfl
  | some s' =>
    exfalso
    obtain ⟨_, _, h3, h4, _⟩ := step_brk hs
    rw [inv_anyEligible hne hi h3] at h4; cases h4

/-! ### termination -/

/-- termination measure: twice the data still to be received, plus live channels,
plus pending messages, plus one for each of "not finished", "not broken" -/
def μ (s : St) : Nat :=
  2 * (s.streams.map List.length).sum + countTrue s.live + countSome s.pending +
    (if s.fin then 0 else 1) + (if s.broke then 0 else 1)

theorem μ_closeIfEmpty_le (s : St) : μ (closeIfEmpty s) ≤ μ s := by
  unfold closeIfEmpty
  split
  · simp only [μ]; cases s.fin <;> simp
  · exact Nat.le_refl _

theorem μ_closeIfEmpty_lt (s : St) (hf : s.fin = false) (hz : countTrue s.live = 0) :
    μ (closeIfEmpty s) < μ s := by
  unfold closeIfEmpty
  simp only [hz, if_true, μ, hf]
  simp

theorem μ_clearFiIfAll (s : St) : μ (clearFiIfAll s) = μ s := by
  obtain ⟨h1, h2, h3, _, _, h6, h7⟩ := clearFiIfAll_fields s
  simp only [μ, h1, h2, h3, h6, h7]

theorem countSome_set_some_le (l : List (Option Msg)) (i : Nat) (m : Msg) :
    countSome (l.set i (some m)) ≤ countSome l + 1 := by
  induction l generalizing i with
  | nil => simp
  | cons a t ih =>
    cases i with
    | zero => simp only [List.set_cons_zero, countSome_cons]; cases a <;> simp <;> omega
    | succ i =>
      have := ih i
      simp only [List.set_cons_succ, countSome_cons]
      omega

theorem μ_recvCore {s s1 : St} {i : Nat} (hel : eligible s i = true) (hc : RecvCore s i s1) :
    μ s1 < μ s := by
  obtain ⟨hlive, _⟩ := eligible_iff.1 hel
  have hct := countTrue_set_false s.live i hlive
  have hsum : ∀ d r, s.streams.getD i [] = d :: r →
      ((s.streams.set i r).map List.length).sum + 1 = (s.streams.map List.length).sum := by
    intro d r e
    have his : i < s.streams.length := lt_of_getD_ne (by rw [e]; simp)
    have := sum_map_set List.length s.streams i r [] his
    rw [e] at this
    simp only [List.length_cons] at this
    omega
  cases hc with
  | disc e => simp only [μ]; omega
  | finfo ok r e => have := hsum _ _ e; simp only [μ]; omega
  | msg m r e =>
    have := hsum _ _ e
    have := countSome_set_some_le s.pending i m
    simp only [μ]; omega
  | summ ok r e => have := hsum _ _ e; simp only [μ]; omega

/-- every enabled event other than the final stutter strictly decreases `μ` -/
theorem step_decreases {s s' : St} {e : Ev} (hs : step s e = some s') (he : e ≠ .fin) : μ s' < μ s := by
  cases e with
  | recv i =>
    obtain ⟨_, _, _, h4, s1, hc, rfl⟩ := step_recv hs
    have := μ_recvCore h4 hc
    have := μ_clearFiIfAll s1
    have := μ_closeIfEmpty_le (clearFiIfAll s1)
    omega
  | print =>
    obtain ⟨h1, _, h3, h | h⟩ := step_print hs
    · obtain ⟨i, m, hm, rfl⟩ := h
      have := countSome_set_none s.pending i m (isMin_getD hm).1
      have := μ_closeIfEmpty_le { s with printed := s.printed ++ [(i, m)], pending := s.pending.set i none }
      have : μ { s with printed := s.printed ++ [(i, m)], pending := s.pending.set i none } < μ s := by
        simp only [μ]; omega
      omega
    · obtain ⟨hm, rfl⟩ := h
      have hz : countSome s.pending = 0 := countSome_eq_zero.2 (minPending_none hm)
      exact μ_closeIfEmpty_lt s h1 (by rw [(waitCond_false h3).1, hz])
  | brk =>
    obtain ⟨_, h2, _, _, rfl⟩ := step_brk hs
    simp only [μ, h2]; simp
  | fin => exact absurd rfl he

theorem μ_init (scripts : List (List Datum)) :
    μ (init scripts) = 2 * (scripts.map List.length).sum + scripts.length + 2 := by
  have h1 : countTrue (scripts.map (fun _ => true)) = scripts.length := by
    induction scripts with
    | nil => rfl
    | cons a t ih => rw [List.map_cons, countTrue_cons, ih]; simp; omega
  have h2 : countSome (scripts.map (fun _ => (none : Option Msg))) = 0 := by
    clear h1
    induction scripts with
    | nil => rfl
    | cons a t ih => rw [List.map_cons, countSome_cons, ih]; simp
  simp only [μ, init, h1, h2]
  simp

/-- number of loop iterations (everything except the final stutter `Ev.fin`) -/
def iterations (evs : List Ev) : Nat := (evs.filter (fun e => e != Ev.fin)).length

theorem run_iterations {evs : List Ev} : ∀ {s s' : St}, run s evs = some s' →
    iterations evs + μ s' ≤ μ s := by
  induction evs with
  | nil => intro s s' hr; simp only [run] at hr; cases hr; simp [iterations]
  | cons e es ih =>
    intro s s' hr
    simp only [run] at hr
    split at hr
    · next s1 h1 =>
      have := ih hr
      by_cases he : e = .fin
      · subst he
        obtain ⟨_, rfl⟩ := step_fin h1
        simpa [iterations] using this
      · have := step_decreases h1 he
        have hi : iterations (e :: es) = iterations es + 1 := by
          simp [iterations, he]
        omega
    · cases hr

/-- once finished only the stutter event is enabled -/
theorem step_of_fin {s s' : St} {e : Ev} (hf : s.fin = true) (hs : step s e = some s') : s' = s := by
  cases e with
  | recv i => have := (step_recv hs).1; rw [hf] at this; cases this
  | print => have := (step_print hs).1; rw [hf] at this; cases this
  | brk => have := (step_brk hs).1; rw [hf] at this; cases this
  | fin => exact (step_fin hs).2

theorem inv_progress {scripts : List (List Datum)} (hne : scripts ≠ []) {s : St}
    (hi : Inv scripts s) (hf : s.fin = false) (hbk : s.broke = false) :
    (step s .print).isSome = true ∨ ∃ i, (step s (.recv i)).isSome = true := by
  cases hw : waitCond s with
  | false => exact Or.inl (step_print_enabled hf hbk hw)
  | true =>
    obtain ⟨i, hel⟩ := anyEligible_iff.1 (inv_anyEligible hne hi hw)
    exact Or.inr ⟨i, step_recv_enabled hf hbk hw hel⟩

theorem inv_broke {scripts : List (List Datum)} (hwf : WF scripts) (hne : scripts ≠ [])
    {evs : List Ev} : ∀ {s s' : St}, Inv scripts s → s.broke = false → run s evs = some s' →
      s'.broke = false := by
  induction evs with
  | nil => intro s s' _ hb hr; simp only [run] at hr; cases hr; exact hb
  | cons e es ih =>
    intro s s' hi hb hr
    simp only [run] at hr
    split at hr
    · next s1 h1 =>
      refine ih (inv_step hwf hi h1) ?_ hr
      cases e with
      | recv i =>
        obtain ⟨_, _, _, _, s0, hc, rfl⟩ := step_recv h1
        rw [(closeIfEmpty_fields _).2.2.2.2.2.2, (clearFiIfAll_fields _).2.2.2.2.2.2]
        cases hc <;> exact hb
      | print =>
        obtain ⟨_, _, _, h | h⟩ := step_print h1
        · obtain ⟨i, m, _, rfl⟩ := h
          rw [(closeIfEmpty_fields _).2.2.2.2.2.2]; exact hb
        · obtain ⟨_, rfl⟩ := h
          rw [(closeIfEmpty_fields _).2.2.2.2.2.2]; exact hb
      | brk => rw [inv_no_break hne hi] at h1; cases h1
      | fin => obtain ⟨_, rfl⟩ := step_fin h1; exact hb
    · cases hr

/-! ## Part D: layer 2 (bounded buffers) -/

def brun (cap : Nat) (b : BSt) : List BEv → Option BSt
  | [] => some b
  | e :: es => match bstep cap b e with
    | some b' => brun cap b' es
    | none => none

/-- well-formedness of layer-2 states (shape only) -/
structure BWf (scripts : List (List Datum)) (b : BSt) : Prop where
  len_toSend : b.toSend.length = scripts.length
  len_buf : b.buf.length = scripts.length
  len_closed : b.closed.length = scripts.length
  len_core : b.core.streams.length = scripts.length
  /-- a worker drops its sender only after sending everything -/
  closed_done : ∀ i : Nat, b.closed.getD i false = true → b.toSend.getD i [] = []

theorem bwf_init (scripts : List (List Datum)) : BWf scripts (binit scripts) := by
  constructor <;> simp [binit, init]
  intro i h
  cases h' : scripts[i]? <;> simp [h'] at h

theorem closeIfEmpty_streams (s : St) (Z : List (List Datum)) :
    { closeIfEmpty s with streams := Z } = closeIfEmpty { s with streams := Z } := by
  unfold closeIfEmpty; split <;> rfl

theorem clearFiIfAll_streams (s : St) (Z : List (List Datum)) :
    { clearFiIfAll s with streams := Z } = clearFiIfAll { s with streams := Z } := by
  cases s with
  | mk streams live pending fi printed errs fin broke =>
    cases fi with
    | none => rfl
    | some flags =>
      simp only [clearFiIfAll]
      split <;> rfl

/-- `step (.recv i)` looks only at the head of stream `i` -/
theorem step_recv_frame (s : St) (X Y : List (List Datum)) (i : Nat) (d : Datum) (t : List Datum)
    (hX : X.getD i [] = [d]) (hY : Y.getD i [] = d :: t) :
    step { s with streams := Y } (.recv i) =
      (step { s with streams := X } (.recv i)).map (fun c => { c with streams := Y.set i t }) := by
  simp only [step, waitCond, eligible, hX, hY]
  split
  · rfl
  · cases d <;> simp only [Option.map_some, closeIfEmpty_streams, clearFiIfAll_streams]

theorem step_recv_frame_nil (s : St) (X Y : List (List Datum)) (i : Nat)
    (hX : X.getD i [] = []) (hY : Y.getD i [] = []) :
    step { s with streams := Y } (.recv i) =
      (step { s with streams := X } (.recv i)).map (fun c => { c with streams := Y }) := by
  simp only [step, waitCond, eligible, hX, hY]
  split
  · rfl
  · simp only [Option.map_some, closeIfEmpty_streams, clearFiIfAll_streams]

theorem step_other_frame (s : St) (Y : List (List Datum)) (e : Ev) (he : ∀ i, e ≠ .recv i) :
    step { s with streams := Y } e = (step s e).map (fun c => { c with streams := Y }) := by
  cases e with
  | recv i => exact absurd rfl (he i)
  | print =>
    simp only [step, waitCond]
    by_cases hc : (s.fin || s.broke || (countTrue s.live != countSome s.pending || s.fi.isSome)) = true
    · simp only [hc, ↓reduceIte, Option.map_none]
    · simp only [hc, Bool.false_eq_true, ↓reduceIte]
      cases hm : minPending s.pending with
      | none => simp only [Option.map_some, closeIfEmpty_streams]
      | some im => obtain ⟨i, m⟩ := im; simp only [Option.map_some, closeIfEmpty_streams]
  | brk =>
    have hel : eligible { s with streams := Y } = eligible s := rfl
    simp only [step, waitCond, anyEligible, hel]
    by_cases hc : (s.fin || s.broke || !(countTrue s.live != countSome s.pending || s.fi.isSome) ||
      (List.range s.live.length).any (eligible s)) = true
    · simp only [hc, ↓reduceIte, Option.map_none]
    · simp only [hc, Bool.false_eq_true, ↓reduceIte, Option.map_some]
  | fin =>
    simp only [step]
    by_cases hc : s.fin = true
    · simp only [hc, ↓reduceIte, Option.map_some]
    · simp only [hc, Bool.false_eq_true, ↓reduceIte, Option.map_none]

def absStreams (b : BSt) : List (List Datum) :=
  (List.range b.toSend.length).map (fun i => b.buf.getD i [] ++ b.toSend.getD i [])

theorem abs_eq (b : BSt) : abs b = { b.core with streams := absStreams b } := rfl

theorem absStreams_getD (b : BSt) (j : Nat) (h : b.buf.length = b.toSend.length) :
    (absStreams b).getD j [] = b.buf.getD j [] ++ b.toSend.getD j [] := by
  by_cases hj : j < b.toSend.length
  · simp [absStreams, hj]
  · rw [getD_of_le _ _ _ (by simp [absStreams]; omega), getD_of_le _ _ _ (by omega),
      getD_of_le _ _ _ (by omega)]
    rfl

theorem range_map_set (n : Nat) (f : Nat → List Datum) (i : Nat) (v : List Datum) :
    ((List.range n).map f).set i v = (List.range n).map (fun j => if j = i then v else f j) := by
  apply List.ext_getElem?
  intro j
  simp only [List.getElem?_set, List.getElem?_map, List.length_map, List.length_range]
  by_cases hj : j < n
  · simp only [List.getElem?_range hj, Option.map_some]
    by_cases e : i = j
    · subst e; simp [hj]
    · have : ¬ j = i := fun h => e h.symm
      simp [e, this]
  · rw [List.getElem?_eq_none (by simp; omega)]
    simp only [Option.map_none]
    split <;> simp_all

/-- every layer-2 step is a stutter (worker) or a layer-1 step (coordinator) -/
theorem bstep_refines {scripts : List (List Datum)} {cap : Nat} {b b' : BSt} {ev : BEv}
    (hw : BWf scripts b) (h : bstep cap b ev = some b') :
    match ev with
    | .coord e => step (abs b) e = some (abs b')
    | _ => abs b' = abs b := by
  have hbl : b.buf.length = b.toSend.length := by rw [hw.len_buf, hw.len_toSend]
  cases ev with
  | send i =>
    simp only [bstep] at h
    split at h
    · next d r e =>
      split at h
      · next hc =>
        cases h
        have hi : i < b.toSend.length := lt_of_getD_ne (by rw [e]; simp)
        simp only [abs]
        congr 1
        simp only [List.length_set]
        apply List.map_congr_left
        intro j _
        simp only [getD_set]
        by_cases hij : i = j
        · subst hij; simp [hi, hbl, e, -List.getD_eq_getElem?_getD]
        · simp [hij]
      · cases h
    · cases h
  | close i =>
    simp only [bstep] at h
    split at h
    · cases h; rfl
    · cases h
  | coord e =>
    cases e with
    | recv i =>
      simp only [bstep] at h
      split at h
      · next d r e =>
        have hi : i < b.buf.length := lt_of_getD_ne (by rw [e]; simp)
        have hX : (b.core.streams.set i [d]).getD i [] = [d] := by
          rw [getD_set]; simp [hw.len_core, ← hw.len_buf, hi]
        have hY : (absStreams b).getD i [] = d :: (r ++ b.toSend.getD i []) := by
          rw [absStreams_getD b i hbl, e]; rfl
        have hfr := step_recv_frame b.core _ (absStreams b) i d _ hX hY
        split at h
        · next c hc =>
          cases h
          show step (abs b) (.recv i) = _
          rw [abs_eq, hfr, hc]
          simp only [Option.map_some, abs]
          congr 2
          simp only [absStreams, range_map_set]
          apply List.map_congr_left
          intro j _
          simp only [getD_set]
          by_cases hij : i = j
          · subst hij; simp [hi, -List.getD_eq_getElem?_getD]
          · have : ¬ j = i := fun h => hij h.symm
            simp [hij, this]
        · cases h
      · next e =>
        split at h
        · next hcl =>
          have hX : (b.core.streams.set i []).getD i [] = [] := by
            rw [getD_set]; split
            · rfl
            · have := hw.len_core
              cases hh : b.core.streams.getD i [] with
              | nil => rfl
              | cons a t =>
                have hi : i < b.core.streams.length := lt_of_getD_ne (by rw [hh]; simp)
                simp_all
          have hY : (absStreams b).getD i [] = [] := by
            rw [absStreams_getD b i hbl, e, hw.closed_done i hcl]; rfl
          have hfr := step_recv_frame_nil b.core _ (absStreams b) i hX hY
          split at h
          · next c hc =>
            cases h
            show step (abs b) (.recv i) = _
            rw [abs_eq, hfr, hc]
            rfl
          · cases h
        · cases h
    | print =>
      simp only [bstep] at h
      split at h
      · next c hc =>
        cases h
        show step (abs b) .print = _
        rw [abs_eq, step_other_frame _ _ _ (by intro i; simp), hc]; rfl
      · cases h
    | brk =>
      simp only [bstep] at h
      split at h
      · next c hc =>
        cases h
        show step (abs b) .brk = _
        rw [abs_eq, step_other_frame _ _ _ (by intro i; simp), hc]; rfl
      · cases h
    | fin =>
      simp only [bstep] at h
      split at h
      · next c hc =>
        cases h
        show step (abs b) .fin = _
        rw [abs_eq, step_other_frame _ _ _ (by intro i; simp), hc]; rfl
      · cases h

theorem step_streams_other {s c : St} {e : Ev} (h : step s e = some c) (he : ∀ i, e ≠ .recv i) :
    c.streams = s.streams := by
  cases e with
  | recv i => exact absurd rfl (he i)
  | print =>
    obtain ⟨_, _, _, h | h⟩ := step_print h
    · obtain ⟨i, m, _, rfl⟩ := h; exact (closeIfEmpty_fields _).1
    · obtain ⟨_, rfl⟩ := h; exact (closeIfEmpty_fields _).1
  | brk => obtain ⟨_, _, _, _, rfl⟩ := step_brk h; rfl
  | fin => obtain ⟨_, rfl⟩ := step_fin h; rfl

theorem getD_default_irrel {α : Type} (l : List α) (i : Nat) (d₁ d₂ : α) (h : i < l.length) :
    l.getD i d₁ = l.getD i d₂ := by
  simp [List.getD_eq_getElem?_getD, List.getElem?_eq_getElem h]

theorem bwf_step {scripts : List (List Datum)} {cap : Nat} {b b' : BSt} {ev : BEv}
    (hw : BWf scripts b) (h : bstep cap b ev = some b') : BWf scripts b' := by
  obtain ⟨h1, h2, h3, h4, h5⟩ := hw
  cases ev with
  | send i =>
    simp only [bstep] at h
    split at h
    · next d r e =>
      split at h
      · next hc =>
        cases h
        refine ⟨by simpa using h1, by simpa using h2, h3, h4, ?_⟩
        intro j hj
        simp only [getD_set]
        split
        · next hh =>
          exfalso
          obtain ⟨rfl, hlt⟩ := hh
          have := getD_default_irrel b.closed i true false (by omega)
          rw [this, hj] at hc
          exact absurd hc.2 (by simp)
        · exact h5 j hj
      · cases h
    · cases h
  | close i =>
    simp only [bstep] at h
    split at h
    · next hc =>
      cases h
      refine ⟨h1, h2, by simpa using h3, h4, ?_⟩
      intro j hj
      simp only [getD_set] at hj
      split at hj
      · next hh => rw [← hh.1]; exact hc.1
      · exact h5 j hj
    · cases h
  | coord e =>
    cases e with
    | recv i =>
      simp only [bstep] at h
      split at h
      · split at h
        · cases h; exact ⟨h1, by simpa using h2, h3, h4, h5⟩
        · cases h
      · split at h
        · split at h
          · cases h; exact ⟨h1, h2, h3, h4, h5⟩
          · cases h
        · cases h
    | print =>
      simp only [bstep] at h
      split at h
      · next c hc => cases h; exact ⟨h1, h2, h3, by rw [← h4]; exact congrArg _ (step_streams_other hc (by simp)), h5⟩
      · cases h
    | brk =>
      simp only [bstep] at h
      split at h
      · next c hc => cases h; exact ⟨h1, h2, h3, by rw [← h4]; exact congrArg _ (step_streams_other hc (by simp)), h5⟩
      · cases h
    | fin =>
      simp only [bstep] at h
      split at h
      · next c hc => cases h; exact ⟨h1, h2, h3, by rw [← h4]; exact congrArg _ (step_streams_other hc (by simp)), h5⟩
      · cases h

theorem abs_binit (scripts : List (List Datum)) : abs (binit scripts) = init scripts := by
  have : absStreams (binit scripts) = scripts := by
    apply List.ext_getElem?
    intro j
    simp only [absStreams, binit, List.getElem?_map]
    by_cases hj : j < scripts.length
    · simp [hj]
    · simp [hj]
  rw [abs_eq, this]
  simp [binit, init]

/-- every layer-2 execution projects to a layer-1 execution -/
theorem brun_projects {scripts : List (List Datum)} {cap : Nat} {bevs : List BEv} :
    ∀ {b b' : BSt}, BWf scripts b → brun cap b bevs = some b' →
      BWf scripts b' ∧ ∃ evs, run (abs b) evs = some (abs b') := by
  induction bevs with
  | nil => intro b b' hw hr; simp only [brun] at hr; cases hr; exact ⟨hw, [], rfl⟩
  | cons ev es ih =>
    intro b b' hw hr
    simp only [brun] at hr
    split at hr
    · next b1 h1 =>
      obtain ⟨hw', evs, hrun⟩ := ih (bwf_step hw h1) hr
      refine ⟨hw', ?_⟩
      have href := bstep_refines hw h1
      cases ev with
      | send i => simp only at href; rw [← href]; exact ⟨evs, hrun⟩
      | close i => simp only at href; rw [← href]; exact ⟨evs, hrun⟩
      | coord e =>
        simp only at href
        exact ⟨e :: evs, by simp only [run, href]; exact hrun⟩
    · cases hr

/-- a layer-2 state reachable from `binit scripts` -/
def BReach (cap : Nat) (scripts : List (List Datum)) (b : BSt) : Prop :=
  ∃ bevs, brun cap (binit scripts) bevs = some b

theorem breach_abs {cap : Nat} {scripts : List (List Datum)} {b : BSt} (h : BReach cap scripts b) :
    BWf scripts b ∧ ∃ evs, run (init scripts) evs = some (abs b) := by
  obtain ⟨bevs, hb⟩ := h
  have := brun_projects (bwf_init scripts) hb
  rw [abs_binit] at this
  exact this

/-- no deadlock at layer 2 -/
theorem bprogress {cap : Nat} (hcap : 1 ≤ cap) {scripts : List (List Datum)} (hwf : WF scripts)
    (hne : scripts ≠ []) {b : BSt} (hr : BReach cap scripts b) (hf : b.core.fin = false) :
    ∃ ev, (bstep cap b ev).isSome = true := by
  obtain ⟨hw, evs, hrun⟩ := breach_abs hr
  have hinv : Inv scripts (abs b) := inv_run hwf (inv_init scripts) hrun
  have hbk : (abs b).broke = false := inv_broke hwf hne (inv_init scripts) rfl hrun
  have hbk : b.core.broke = false := hbk
  cases hwc : waitCond b.core with
  | false =>
    refine ⟨.coord .print, ?_⟩
    have := step_print_enabled hf hbk hwc
    simp only [bstep]
    cases h : step b.core .print with
    | none => rw [h] at this; cases this
    | some c => rfl
  | true =>
    obtain ⟨i, hel⟩ := anyEligible_iff.1 (inv_anyEligible hne hinv (s := abs b) hwc)
    have hel' : eligible b.core i = true := hel
    have hi : i < scripts.length := by
      have := (eligible_iff.1 hel).1
      rw [← hinv.1.len_live]
      exact lt_of_getD_ne (by rw [this]; simp)
    cases hb : b.buf.getD i [] with
    | cons d r =>
      refine ⟨.coord (.recv i), ?_⟩
      have := step_recv_enabled (s := { b.core with streams := b.core.streams.set i [d] }) (i := i)
        hf hbk hwc hel'
      simp only [bstep, hb]
      cases h : step { b.core with streams := b.core.streams.set i [d] } (.recv i) with
      | none => rw [h] at this; cases this
      | some c => rfl
    | nil =>
      cases hcl : b.closed.getD i false with
      | true =>
        refine ⟨.coord (.recv i), ?_⟩
        have := step_recv_enabled (s := { b.core with streams := b.core.streams.set i [] }) (i := i)
          hf hbk hwc hel'
        simp only [bstep, hb, hcl]
        cases h : step { b.core with streams := b.core.streams.set i [] } (.recv i) with
        | none => rw [h] at this; cases this
        | some c => rfl
      | false =>
        have hcl' : b.closed.getD i true = false := by
          rw [getD_default_irrel b.closed i true false (by rw [hw.len_closed]; exact hi)]; exact hcl
        cases hts : b.toSend.getD i [] with
        | cons d r =>
          refine ⟨.send i, ?_⟩
          simp only [bstep, hts, hb, hcl']
          simp; omega
        | nil =>
          refine ⟨.close i, ?_⟩
          simp only [bstep, hts, hcl']
          simp

/-- every element of the merge was, when emitted, the first minimum of the heads of
what was left of the lists -/
theorem merge_next_is_earliest {ls : List (List Msg)} {pre post : List (Nat × Msg)} {i : Nat} {m : Msg}
    (h : merge ls = pre ++ (i, m) :: post) :
    ∃ ls' : List (List Msg), ls'.length = ls.length ∧ (∀ j : Nat, ls'.getD j [] <:+ ls.getD j []) ∧
      merge ls' = (i, m) :: post ∧ HeadMin ls' i m := by
  obtain ⟨ls', h1, h2, h3⟩ := merge_drop pre.length ls
  rw [h, List.drop_left] at h1
  exact ⟨ls', h2, h3, h1.symm, minHead_eq_some_iff.1 (merge_cons_inv h1.symm).1⟩

/-- with sorted inputs, equal instants are emitted in PathId order -/
theorem merge_ties {ls : List (List Msg)} (hs : ∀ j : Nat, SortedDt (ls.getD j []))
    {pre mid post : List (Nat × Msg)} {i j : Nat} {m m' : Msg}
    (h : merge ls = pre ++ (i, m) :: (mid ++ (j, m') :: post)) (hdt : m.dt = m'.dt) : i ≤ j := by
  have hp := merge_sorted_lex ls hs
  rw [h] at hp
  have := (List.pairwise_cons.1 (List.pairwise_append.1 hp).2.1).1 (j, m') (by simp)
  simp only [LexLe] at this
  omega

end S4V.Lemmas.Coord
