/-
Lemmas about the relative-offset matcher of `S4V.Model.Cli` (the regex built
from the generated `CGP_DUR_OFFSET_*` pieces).
-/
import S4V.Model.Cli

namespace S4V.Lemmas.Cli
open S4V.Model.Cli S4V.Gen.CliTables

/-- one `N u` token of the relative grammar: a non-empty ASCII digit string and a unit letter -/
structure Tok where
  ds : List Char
  u : Char
  deriving DecidableEq, Repr

def Tok.WF (t : Tok) : Prop := t.ds ≠ [] ∧ (∀ c ∈ t.ds, isDig c = true) ∧ t.u ∈ ['s', 'm', 'h', 'd', 'w']

def renderToks : List Tok → List Char
  | [] => []
  | t :: ts => t.ds ++ t.u :: renderToks ts

theorem isNd_of_isDig {c : Char} (h : isDig c = true) : isNd c = true := by
  simp [isDig] at h
  simp [isNd, ndRanges, h]

theorem isNd_unit {u : Char} (h : u ∈ ['s', 'm', 'h', 'd', 'w']) : isNd u = false := by
  simp at h
  rcases h with h | h | h | h | h <;> subst h <;> decide

theorem isDig_unit {u : Char} (h : u ∈ ['s', 'm', 'h', 'd', 'w']) : isDig u = false := by
  simp at h
  rcases h with h | h | h | h | h <;> subst h <;> decide

theorem takeWhile_digits (ds : List Char) (u : Char) (r : List Char)
    (hd : ∀ c ∈ ds, isDig c = true) (hu : isNd u = false) :
    (ds ++ u :: r).takeWhile isNd = ds ∧ (ds ++ u :: r).dropWhile isNd = u :: r := by
  induction ds with
  | nil => simp [hu]
  | cons c cs ih =>
    have hc : isNd c = true := isNd_of_isDig (hd c (by simp))
    have := ih (fun x hx => hd x (by simp [hx]))
    simp [hc, this]

theorem unitAt_render (t : Tok) (r : List Char) (h : t.WF) :
    unitAt (t.ds ++ t.u :: r) = some (t.ds, t.u, r) := by
  obtain ⟨hne, hd, hu⟩ := h
  have ⟨h1, h2⟩ := takeWhile_digits t.ds t.u r hd (isNd_unit hu)
  have hc : durRegexAlternatives.contains t.u = true := by
    simp at hu
    rcases hu with h | h | h | h | h <;> rw [h] <;> decide
  unfold unitAt
  rw [h1, h2]
  cases hds : t.ds with
  | nil => exact absurd hds hne
  | cons a as =>
    have hc' : t.u ∈ durRegexAlternatives := by simpa using hc
    simp [← hds, hne, hc']

theorem unitAt_nil : unitAt [] = none := by simp [unitAt]

theorem unitsLoop_render (toks : List Tok) (wf : ∀ t ∈ toks, t.WF) :
    ∀ (fuel : Nat) (c : Caps), toks.length ≤ fuel →
      unitsLoop fuel (renderToks toks) c = (toks.foldl (fun c t => c.set t.u t.ds) c, []) := by
  induction toks with
  | nil =>
    intro fuel c _
    cases fuel with
    | zero => simp [unitsLoop, renderToks]
    | succ n => simp [unitsLoop, renderToks, unitAt_nil]
  | cons t ts ih =>
    intro fuel c hf
    cases fuel with
    | zero => simp at hf
    | succ n =>
      have hwt : t.WF := wf t (by simp)
      simp only [renderToks, unitsLoop, unitAt_render t _ hwt, List.foldl_cons]
      exact ih (fun x hx => wf x (by simp [hx])) n _ (by simpa using hf)

theorem length_renderToks (toks : List Tok) : toks.length ≤ (renderToks toks).length := by
  induction toks with
  | nil => simp [renderToks]
  | cons t ts ih => simp [renderToks]; omega

/-- the opening `[@]?[+-]` -/
def relPrefix (other neg : Bool) : List Char :=
  (if other then ['@'] else []) ++ [if neg then '-' else '+']

theorem matchAt_render (other neg : Bool) (t : Tok) (ts : List Tok) (wf : ∀ x ∈ t :: ts, x.WF) :
    matchAt (relPrefix other neg ++ renderToks (t :: ts)) =
      some (ts.foldl (fun c t => c.set t.u t.ds) (Caps.set { other := other, neg := neg } t.u t.ds), []) := by
  have hwt : t.WF := wf t (by simp)
  have hl := unitsLoop_render ts (fun x hx => wf x (by simp [hx])) (renderToks ts).length
    (Caps.set { other := other, neg := neg } t.u t.ds) (length_renderToks ts)
  cases other <;> cases neg <;>
    simp [matchAt, relPrefix, renderToks, unitAt_render t _ hwt, hl]

theorem search_render (other neg : Bool) (t : Tok) (ts : List Tok) (wf : ∀ x ∈ t :: ts, x.WF) :
    search (relPrefix other neg ++ renderToks (t :: ts)) =
      some (ts.foldl (fun c t => c.set t.u t.ds) (Caps.set { other := other, neg := neg } t.u t.ds)) := by
  have hm := matchAt_render other neg t ts wf
  cases other <;> cases neg <;>
    simp only [relPrefix, List.cons_append, List.nil_append, Bool.false_eq_true, if_false, if_true] at hm ⊢ <;>
    simp [search, searchWith, hm, durRegexAnchoredEnd]

/-! ### what the capture groups hold: the last repetition of each unit -/

/-- the digit string the group of unit `u` holds after the repetitions `toks` -/
def lastOf (u : Char) (acc : Option (List Char)) (toks : List Tok) : Option (List Char) :=
  toks.foldl (fun acc t => if t.u = u then some t.ds else acc) acc

theorem set_fields (c : Caps) (t : Tok) (h : t.u ∈ ['s', 'm', 'h', 'd', 'w']) :
    (c.set t.u t.ds).s = (if t.u = 's' then some t.ds else c.s) ∧
    (c.set t.u t.ds).m = (if t.u = 'm' then some t.ds else c.m) ∧
    (c.set t.u t.ds).h = (if t.u = 'h' then some t.ds else c.h) ∧
    (c.set t.u t.ds).d = (if t.u = 'd' then some t.ds else c.d) ∧
    (c.set t.u t.ds).w = (if t.u = 'w' then some t.ds else c.w) ∧
    (c.set t.u t.ds).other = c.other ∧ (c.set t.u t.ds).neg = c.neg := by
  simp at h
  rcases h with h | h | h | h | h <;> rw [h] <;> simp [Caps.set]

theorem fold_fields (toks : List Tok) (wf : ∀ t ∈ toks, t.WF) : ∀ c : Caps,
    (toks.foldl (fun c t => c.set t.u t.ds) c).s = lastOf 's' c.s toks ∧
    (toks.foldl (fun c t => c.set t.u t.ds) c).m = lastOf 'm' c.m toks ∧
    (toks.foldl (fun c t => c.set t.u t.ds) c).h = lastOf 'h' c.h toks ∧
    (toks.foldl (fun c t => c.set t.u t.ds) c).d = lastOf 'd' c.d toks ∧
    (toks.foldl (fun c t => c.set t.u t.ds) c).w = lastOf 'w' c.w toks ∧
    (toks.foldl (fun c t => c.set t.u t.ds) c).other = c.other ∧
    (toks.foldl (fun c t => c.set t.u t.ds) c).neg = c.neg := by
  induction toks with
  | nil => intro c; simp [lastOf]
  | cons t ts ih =>
    intro c
    have hs := set_fields c t (wf t (by simp)).2.2
    have := ih (fun x hx => wf x (by simp [hx])) (c.set t.u t.ds)
    simp only [List.foldl_cons, lastOf] at this ⊢
    obtain ⟨a1, a2, a3, a4, a5, a6, a7⟩ := hs
    obtain ⟨b1, b2, b3, b4, b5, b6, b7⟩ := this
    rw [b1, b2, b3, b4, b5, b6, b7, a1, a2, a3, a4, a5, a6, a7]
    simp

/-- value of a capture group: 0 when absent -/
def valOf (g : Option (List Char)) : Nat :=
  match g with
  | none => 0
  | some ds => numVal ds

/-- sum of the counts given for unit `u` -/
def sumOf (u : Char) (toks : List Tok) : Nat :=
  ((toks.filter fun t => t.u = u).map fun t => numVal t.ds).sum

theorem lastOf_absent (u : Char) (toks : List Tok) (h : u ∉ toks.map (·.u)) (acc : Option (List Char)) :
    lastOf u acc toks = acc := by
  induction toks generalizing acc with
  | nil => simp [lastOf]
  | cons t ts ih =>
    simp at h
    have h1 : ¬ t.u = u := fun e => h.1 e.symm
    simp only [lastOf, List.foldl_cons, h1, if_false]
    exact ih (by simpa using h.2) acc

theorem sumOf_absent (u : Char) (toks : List Tok) (h : u ∉ toks.map (·.u)) : sumOf u toks = 0 := by
  induction toks with
  | nil => simp [sumOf]
  | cons t ts ih =>
    simp at h
    have h1 : ¬ t.u = u := fun e => h.1 e.symm
    have := ih (by simpa using h.2)
    simp [sumOf, h1] at this ⊢
    exact this

/-- with distinct units the last repetition is the only one -/
theorem valOf_lastOf_nodup (u : Char) (toks : List Tok) (nd : (toks.map (·.u)).Nodup) :
    valOf (lastOf u none toks) = sumOf u toks := by
  induction toks with
  | nil => simp [lastOf, valOf, sumOf]
  | cons t ts ih =>
    simp only [List.map_cons, List.nodup_cons] at nd
    by_cases h : t.u = u
    · have hab : u ∉ ts.map (·.u) := by rw [← h]; exact nd.1
      have h0 := sumOf_absent u ts hab
      have h1 : lastOf u none (t :: ts) = lastOf u (some t.ds) ts := by simp [lastOf, h]
      rw [h1, lastOf_absent u ts hab]
      simp [sumOf, h] at h0 ⊢
      simp [valOf, h0]
    · have h1 : lastOf u none (t :: ts) = lastOf u none ts := by simp [lastOf, h]
      rw [h1, ih nd.2]
      simp [sumOf, h]

theorem lastOf_some_wf (u : Char) (toks : List Tok) (wf : ∀ t ∈ toks, t.WF) (acc : Option (List Char))
    (hacc : ∀ ds, acc = some ds → (∀ c ∈ ds, isDig c = true)) :
    ∀ ds, lastOf u acc toks = some ds → (∀ c ∈ ds, isDig c = true) := by
  induction toks generalizing acc with
  | nil => simpa [lastOf] using hacc
  | cons t ts ih =>
    simp only [lastOf, List.foldl_cons]
    apply ih (fun x hx => wf x (by simp [hx]))
    intro ds hds
    by_cases h : t.u = u
    · simp [h] at hds; subst hds; exact (wf t (by simp)).2.1
    · simp [h] at hds; exact hacc ds hds

theorem groupCount_of (g : Option (List Char)) (hd : ∀ ds, g = some ds → (∀ c ∈ ds, isDig c = true))
    (hb : valOf g ≤ i64Max) : groupCount g = some (valOf g) := by
  cases g with
  | none => simp [groupCount, valOf]
  | some ds =>
    have h1 : ds.all isDig = true := by simpa using hd ds rfl
    simp only [valOf] at hb
    simp [groupCount, parseI64, valOf, h1, hb]

theorem lastOf_some_P (P : List Char → Prop) (u : Char) (toks : List Tok) (hp : ∀ t ∈ toks, P t.ds)
    (acc : Option (List Char)) (hacc : ∀ ds, acc = some ds → P ds) :
    ∀ ds, lastOf u acc toks = some ds → P ds := by
  induction toks generalizing acc with
  | nil => simpa [lastOf] using hacc
  | cons t ts ih =>
    simp only [lastOf, List.foldl_cons]
    apply ih (fun x hx => hp x (by simp [hx]))
    intro ds hds
    by_cases h : t.u = u
    · simp [h] at hds; subst hds; exact hp t (by simp)
    · simp [h] at hds; exact hacc ds hds

theorem valOf_le (g : Option (List Char)) (n : Nat) (h : ∀ ds, g = some ds → numVal ds ≤ n) : valOf g ≤ n := by
  cases g with
  | none => simp [valOf]
  | some ds => simpa [valOf] using h ds rfl

/-- the arithmetic tail on small counts -/
theorem durArith_small (neg other : Bool) (s m h d w : Nat)
    (hs : s ≤ 1000000000) (hm : m ≤ 1000000000) (hh : h ≤ 1000000000) (hd : d ≤ 1000000000) (hw : w ≤ 1000000000) :
    durArith neg other s m h d w =
      .ok ((if neg then -1 else 1) * ((s : Int) + m * 60 + h * 3600 + d * 86400 + w * 604800)) other := by
  cases neg <;> simp only [durArith, durBound, Bool.false_eq_true, if_false, if_true]
  · have e : ((1:Int) * ↑s + 1 * ↑m * 60 + 1 * ↑h * 3600 + 1 * ↑d * 86400 + 1 * ↑w * 604800) =
        1 * ((s : Int) + m * 60 + h * 3600 + d * 86400 + w * 604800) := by omega
    have c1 : decide (-9223372036854775 ≤ (1:Int) * ↑s ∧ (1:Int) * ↑s ≤ 9223372036854775) = true := by
      apply decide_eq_true; omega
    have c2 : decide (-9223372036854775 ≤ (1:Int) * ↑m * 60 ∧ (1:Int) * ↑m * 60 ≤ 9223372036854775) = true := by
      apply decide_eq_true; omega
    have c3 : decide (-9223372036854775 ≤ (1:Int) * ↑h * 3600 ∧ (1:Int) * ↑h * 3600 ≤ 9223372036854775) = true := by
      apply decide_eq_true; omega
    have c4 : decide (-9223372036854775 ≤ (1:Int) * ↑d * 86400 ∧ (1:Int) * ↑d * 86400 ≤ 9223372036854775) = true := by
      apply decide_eq_true; omega
    have c5 : decide (-9223372036854775 ≤ (1:Int) * ↑w * 604800 ∧ (1:Int) * ↑w * 604800 ≤ 9223372036854775) = true := by
      apply decide_eq_true; omega
    have c6 : decide (-9223372036854775 ≤ ((1:Int) * ↑s + 1 * ↑m * 60 + 1 * ↑h * 3600 + 1 * ↑d * 86400 + 1 * ↑w * 604800) ∧
        ((1:Int) * ↑s + 1 * ↑m * 60 + 1 * ↑h * 3600 + 1 * ↑d * 86400 + 1 * ↑w * 604800) ≤ 9223372036854775) = true := by
      apply decide_eq_true; omega
    rw [c1, c2, c3, c4, c5, c6, e]; rfl
  · have e : ((-1:Int) * ↑s + -1 * ↑m * 60 + -1 * ↑h * 3600 + -1 * ↑d * 86400 + -1 * ↑w * 604800) =
        -1 * ((s : Int) + m * 60 + h * 3600 + d * 86400 + w * 604800) := by omega
    have c1 : decide (-9223372036854775 ≤ (-1:Int) * ↑s ∧ (-1:Int) * ↑s ≤ 9223372036854775) = true := by
      apply decide_eq_true; omega
    have c2 : decide (-9223372036854775 ≤ (-1:Int) * ↑m * 60 ∧ (-1:Int) * ↑m * 60 ≤ 9223372036854775) = true := by
      apply decide_eq_true; omega
    have c3 : decide (-9223372036854775 ≤ (-1:Int) * ↑h * 3600 ∧ (-1:Int) * ↑h * 3600 ≤ 9223372036854775) = true := by
      apply decide_eq_true; omega
    have c4 : decide (-9223372036854775 ≤ (-1:Int) * ↑d * 86400 ∧ (-1:Int) * ↑d * 86400 ≤ 9223372036854775) = true := by
      apply decide_eq_true; omega
    have c5 : decide (-9223372036854775 ≤ (-1:Int) * ↑w * 604800 ∧ (-1:Int) * ↑w * 604800 ≤ 9223372036854775) = true := by
      apply decide_eq_true; omega
    have c6 : decide (-9223372036854775 ≤ ((-1:Int) * ↑s + -1 * ↑m * 60 + -1 * ↑h * 3600 + -1 * ↑d * 86400 + -1 * ↑w * 604800) ∧
        ((-1:Int) * ↑s + -1 * ↑m * 60 + -1 * ↑h * 3600 + -1 * ↑d * 86400 + -1 * ↑w * 604800) ≤ 9223372036854775) = true := by
      apply decide_eq_true; omega
    rw [c1, c2, c3, c4, c5, c6, e]; rfl

/-- `string_wdhms_to_duration` on a string of the relative grammar: every group holds the LAST
count given for its unit -/
theorem durOf_render (other neg : Bool) (t : Tok) (ts : List Tok) (wf : ∀ x ∈ t :: ts, x.WF)
    (small : ∀ x ∈ t :: ts, numVal x.ds ≤ 1000000000) :
    durOf (relPrefix other neg ++ renderToks (t :: ts)) =
      .ok ((if neg then -1 else 1) *
        ((valOf (lastOf 's' none (t :: ts)) : Int) + valOf (lastOf 'm' none (t :: ts)) * 60 +
          valOf (lastOf 'h' none (t :: ts)) * 3600 + valOf (lastOf 'd' none (t :: ts)) * 86400 +
          valOf (lastOf 'w' none (t :: ts)) * 604800)) other := by
  have hs := search_render other neg t ts wf
  have hne : (relPrefix other neg ++ renderToks (t :: ts)).isEmpty = false := by
    cases other <;> cases neg <;> simp [relPrefix]
  have hwt : t.WF := wf t (by simp)
  have hts : ∀ x ∈ ts, x.WF := fun x hx => wf x (by simp [hx])
  obtain ⟨f1, f2, f3, f4, f5, f6, f7⟩ := fold_fields ts hts (Caps.set { other := other, neg := neg } t.u t.ds)
  obtain ⟨g1, g2, g3, g4, g5, g6, g7⟩ := set_fields { other := other, neg := neg } t hwt.2.2
  have key : ∀ u : Char, lastOf u (if t.u = u then some t.ds else none) ts = lastOf u none (t :: ts) := by
    intro u; simp [lastOf]
  have hdig : ∀ u ds, lastOf u none (t :: ts) = some ds → ∀ c ∈ ds, isDig c = true :=
    fun u => lastOf_some_P (fun ds => ∀ c ∈ ds, isDig c = true) u (t :: ts) (fun x hx => (wf x hx).2.1) none (by simp)
  have hval : ∀ u, valOf (lastOf u none (t :: ts)) ≤ 1000000000 := fun u =>
    valOf_le _ _ (lastOf_some_P (fun ds => numVal ds ≤ 1000000000) u (t :: ts) small none (by simp))
  have hgc : ∀ u, groupCount (lastOf u none (t :: ts)) = some (valOf (lastOf u none (t :: ts))) := fun u =>
    groupCount_of _ (hdig u) (Nat.le_trans (hval u) (by decide))
  unfold durOf
  rw [hne, hs]
  simp only [Bool.false_eq_true, if_false, durOfCaps]
  rw [f1, f2, f3, f4, f5, f6, f7, g1, g2, g3, g4, g5, g6, g7]
  simp only [Caps.s, Caps.m, Caps.h, Caps.d, Caps.w]
  rw [key 's', key 'm', key 'h', key 'd', key 'w', hgc 's', hgc 'm', hgc 'h', hgc 'd', hgc 'w']
  exact durArith_small neg other _ _ _ _ _ (hval 's') (hval 'm') (hval 'h') (hval 'd') (hval 'w')

/-! ### inversion: what a whole-string match looks like -/

/-- a token as the regex sees it: `\d` is Unicode Nd -/
def Tok.WFNd (t : Tok) : Prop := t.ds ≠ [] ∧ (∀ c ∈ t.ds, isNd c = true) ∧ t.u ∈ durRegexAlternatives

theorem mem_takeWhile_sat (p : Char → Bool) (l : List Char) (c : Char) (h : c ∈ l.takeWhile p) : p c = true := by
  induction l with
  | nil => simp at h
  | cons a as ih =>
    by_cases ha : p a = true
    · simp [List.takeWhile, ha] at h
      rcases h with h | h
      · subst h; exact ha
      · exact ih h
    · simp [List.takeWhile, ha] at h

theorem unitAt_inv (s ds r : List Char) (u : Char) (h : unitAt s = some (ds, u, r)) :
    s = ds ++ u :: r ∧ Tok.WFNd ⟨ds, u⟩ := by
  unfold unitAt at h
  split at h
  · cases h
  · rename_i hne
    split at h
    · rename_i u' r' hdw
      split at h
      · rename_i hc
        simp only [Option.some.injEq, Prod.mk.injEq] at h
        obtain ⟨h1, h2, h3⟩ := h
        subst h1; subst h2; subst h3
        refine ⟨?_, ?_, ?_, ?_⟩
        · rw [← hdw]; exact (List.takeWhile_append_dropWhile).symm
        · intro e; apply hne; simp only at e; simp [e]
        · intro c hc'; exact mem_takeWhile_sat isNd s c hc'
        · simpa using hc
      · cases h
    · cases h

theorem unitsLoop_inv : ∀ (fuel : Nat) (s : List Char) (c c' : Caps), unitsLoop fuel s c = (c', []) →
    ∃ toks : List Tok, (∀ x ∈ toks, x.WFNd) ∧ s = renderToks toks := by
  intro fuel
  induction fuel with
  | zero =>
    intro s c c' h
    simp [unitsLoop] at h
    exact ⟨[], by simp, by simp [renderToks, h.2]⟩
  | succ n ih =>
    intro s c c' h
    unfold unitsLoop at h
    split at h
    · rename_i ds u r hu
      obtain ⟨e, wf⟩ := unitAt_inv s ds r u hu
      obtain ⟨toks, hw, hr⟩ := ih r _ c' h
      refine ⟨⟨ds, u⟩ :: toks, ?_, ?_⟩
      · intro x hx
        simp at hx
        rcases hx with hx | hx
        · subst hx; exact wf
        · exact hw x hx
      · simp [renderToks, e, hr]
    · simp at h
      exact ⟨[], by simp, by simp [renderToks, h.2]⟩

theorem matchAt_inv (s : List Char) (caps : Caps) (h : matchAt s = some (caps, [])) :
    ∃ other neg t ts, (∀ x ∈ t :: ts, Tok.WFNd x) ∧ s = relPrefix other neg ++ renderToks (t :: ts) := by
  unfold matchAt at h
  dsimp only at h
  split at h
  · rename_i c r hs1
    split at h
    · rename_i hsign
      split at h
      · rename_i ds u r' hu
        obtain ⟨e, wf⟩ := unitAt_inv r ds r' u hu
        simp only [Option.some.injEq] at h
        obtain ⟨toks, hw, hr⟩ := unitsLoop_inv _ _ _ _ h
        refine ⟨s.head? == some '@', c == '-', ⟨ds, u⟩, toks, ?_, ?_⟩
        · intro x hx
          simp at hx
          rcases hx with hx | hx
          · subst hx; exact wf
          · exact hw x hx
        · have hc : c = (if (c == '-') = true then '-' else '+') := by
            by_cases hm : c = '-'
            · simp [hm]
            · simp at hsign
              rcases hsign with h1 | h1
              · simp [h1]
              · exact absurd h1 hm
          cases hh : (s.head? == some '@') with
          | true =>
            simp only [hh, if_true] at hs1
            cases s with
            | nil => simp at hh
            | cons a as =>
              simp at hh
              subst hh
              simp at hs1
              subst hs1
              simp only [relPrefix, if_true, renderToks, e, hr]
              rw [← hc]; simp
          | false =>
            simp only [hh, Bool.false_eq_true, if_false] at hs1
            subst hs1
            simp only [relPrefix, Bool.false_eq_true, if_false, renderToks, e, hr]
            rw [← hc]; simp
      · cases h
    · cases h
  · cases h

end S4V.Lemmas.Cli
