/-
The partition of a well-formed file into messages (`messages_partition`) and the
specification of `findSysline` derived from `findSysline_eq`.
-/
import S4V.Lemmas.SyslFind

namespace S4V.Lemmas.Syslines
open S4V.Model.Syslines S4V.Gen.Filter

/-! ### facts that need no well-formedness -/

theorem messagesAux_some_ne_nil (ls : List LineInfo) (s : Sysl) : messagesAux ls (some s) ≠ [] := by
  induction ls generalizing s with
  | nil => simp [messagesAux]
  | cons l r ih =>
    cases hdt : l.dt with
    | none => simp only [messagesAux, hdt]; exact ih _
    | some t => simp [messagesAux, hdt]

theorem messages_eq_nil_iff (ls : List LineInfo) : messages ls = [] ↔ ∀ l ∈ ls, l.dt = none := by
  unfold messages
  induction ls with
  | nil => simp [messagesAux]
  | cons l r ih =>
    cases hdt : l.dt with
    | none => simp only [messagesAux, hdt, ih]; simp [hdt]
    | some t =>
      simp only [messagesAux, hdt]
      constructor
      · intro h; exact absurd h (messagesAux_some_ne_nil _ _)
      · intro h; have := h l (by simp); rw [hdt] at this; cases this

theorem messagesAux_length_le (ls : List LineInfo) (cur : Option Sysl) :
    (messagesAux ls cur).length ≤ ls.length + (if cur.isSome then 1 else 0) := by
  induction ls generalizing cur with
  | nil => cases cur <;> simp [messagesAux]
  | cons l r ih =>
    cases hdt : l.dt <;> cases cur <;> simp only [messagesAux, hdt]
    · have := ih none; simp at this ⊢; omega
    · have := ih (some { (‹Sysl›) with fin := l.fin }); simp at this ⊢; omega
    · have := ih (some ⟨l.beg, l.fin, ‹Int›⟩); simp at this ⊢; omega
    · have := ih (some ⟨l.beg, l.fin, ‹Int›⟩); simp at this ⊢; omega

theorem messages_length_le (ls : List LineInfo) : (messages ls).length ≤ ls.length := by
  have := messagesAux_length_le ls none
  simpa [messages] using this

/-! ### contiguous message lists -/

theorem mEnd_append (s : Nat) (a b : List Sysl) : mEnd s (a ++ b) = mEnd (mEnd s a) b := by
  induction a generalizing s with
  | nil => rfl
  | cons m r ih => simp [ih]

theorem MContig_append (s : Nat) (a b : List Sysl) :
    MContig s (a ++ b) ↔ MContig s a ∧ MContig (mEnd s a) b := by
  induction a generalizing s with
  | nil => simp
  | cons m r ih => simp [ih, and_assoc]

theorem MContig.le_mEnd {s : Nat} {M : List Sysl} (h : MContig s M) : s ≤ mEnd s M := by
  induction M generalizing s with
  | nil => simp
  | cons m r ih =>
    obtain ⟨h1, h2, h3⟩ := h
    have := ih h3
    simp; omega

theorem MContig.mem_bounds {s : Nat} {M : List Sysl} (h : MContig s M) {m : Sysl} (hm : m ∈ M) :
    s ≤ m.beg ∧ m.beg ≤ m.fin ∧ m.fin < mEnd s M := by
  induction M generalizing s with
  | nil => cases hm
  | cons x r ih =>
    obtain ⟨h1, h2, h3⟩ := h
    rcases List.mem_cons.1 hm with rfl | hm
    · have := h3.le_mEnd
      simp; omega
    · have := ih h3 hm
      simp; omega

theorem MContig.lt_mEnd {s : Nat} {M : List Sysl} (h : MContig s M) (hne : M ≠ []) :
    s < mEnd s M := by
  cases M with
  | nil => exact absurd rfl hne
  | cons m r => have := h.mem_bounds (m := m) (by simp); omega

/-- consecutive messages, index form -/
theorem MContig.next {s : Nat} {M : List Sysl} (h : MContig s M) (k : Nat) (hk : k + 1 < M.length) :
    M[k + 1].beg = M[k].fin + 1 := by
  induction M generalizing s k with
  | nil => simp at hk
  | cons m r ih =>
    obtain ⟨h1, h2, h3⟩ := h
    cases k with
    | zero =>
      cases r with
      | nil => simp at hk
      | cons m' r' => simp; exact h3.1
    | succ k =>
      simp at hk
      simpa using ih h3 k (by omega)

theorem MContig.begs_increasing {s : Nat} {M : List Sysl} (h : MContig s M) :
    M.Pairwise (fun a b => a.fin < b.beg) := by
  induction M generalizing s with
  | nil => exact List.Pairwise.nil
  | cons m r ih =>
    obtain ⟨h1, h2, h3⟩ := h
    refine List.Pairwise.cons ?_ (ih h3)
    intro b hb
    have := h3.mem_bounds hb
    omega

theorem fsM_append_ge {s : Nat} {M1 M2 : List Sysl} (h : MContig s M1) {fo : Nat}
    (hfo : mEnd s M1 ≤ fo) : fsM (M1 ++ M2) fo = fsM M2 fo := by
  induction M1 generalizing s with
  | nil => rfl
  | cons m r ih =>
    obtain ⟨h1, h2, h3⟩ := h
    have hb := h3.le_mEnd
    simp at hfo
    rw [List.cons_append, fsM_cons_gt (by omega)]
    exact ih h3 hfo

theorem fsM_beyond {s : Nat} {M : List Sysl} (h : MContig s M) {fo : Nat}
    (hfo : mEnd s M ≤ fo) : fsM M fo = .done := by
  have := fsM_append_ge (M2 := []) h hfo
  simpa using this

/-! ### geometry of `messages ls` -/

/-- first byte of the first timestamped line (`fileSz ls` if there is none) -/
def firstHeadBeg (ls : List LineInfo) : Nat :=
  match ls.find? (fun l => l.dt.isSome) with
  | some h => h.beg
  | none => fileSz ls

theorem messages_geom {ls : List LineInfo} (hwf : WFLines ls) :
    MContig (firstHeadBeg ls) (messages ls) ∧ mEnd (firstHeadBeg ls) (messages ls) = fileSz ls := by
  obtain ⟨A, S, hls, hA, hB⟩ := decomp hwf
  have hM : messages ls = messagesAux S none := by rw [hls]; exact messages_eq_of_decomp hA
  have hs : firstHeadBeg ls = endOf 0 A := by
    unfold firstHeadBeg
    rw [hls, find_head_headless_append hA]
    generalize messagesAux S none = Ms at hB
    cases hB with
    | nil => simp [fileSz_eq_endOf]
    | @cons _ h t c R Ms' ht hc hw hB' =>
      simp [ht]; exact hw.1
  rw [hs, hM]
  refine ⟨hB.contig, ?_⟩
  rw [hB.endOf_eq, fileSz_eq_endOf, hls, endOf_append]

/-- timestamped lines and messages correspond one to one -/
theorem Blocks.heads {s : Nat} {S : List LineInfo} {Ms : List Sysl} (hB : Blocks s S Ms) :
    (∀ l ∈ S, ∀ t, l.dt = some t → ∃ m ∈ Ms, m.beg = l.beg ∧ m.dt = t) ∧
    (∀ m ∈ Ms, ∃ l ∈ S, l.beg = m.beg ∧ l.dt = some m.dt) ∧
    (∀ m ∈ Ms, ∀ l ∈ S, l.dt.isSome → m.beg ≤ l.beg → l.beg ≤ m.fin → l.beg = m.beg) := by
  induction hB with
  | nil => simp
  | @cons s h t c R Ms ht hc hw hB ih =>
    obtain ⟨ih1, ih2, ih3⟩ := ih
    have hlt := lt_endOf_of_ne_nil hw (by simp)
    refine ⟨?_, ?_, ?_⟩
    · intro l hl t' hl'
      simp only [List.mem_cons, List.mem_append] at hl
      rcases hl with rfl | hl | hl
      · rw [ht] at hl'; cases hl'
        exact ⟨_, List.mem_cons_self, rfl, rfl⟩
      · rw [hc l hl] at hl'; cases hl'
      · obtain ⟨m, hm, h1⟩ := ih1 l hl t' hl'
        exact ⟨m, by simp [hm], h1⟩
    · intro m hm
      rcases List.mem_cons.1 hm with rfl | hm
      · exact ⟨h, by simp, rfl, ht⟩
      · obtain ⟨l, hl, h1⟩ := ih2 m hm
        exact ⟨l, by simp [hl], h1⟩
    · intro m hm l hl hsome hb1 hb2
      simp only [List.mem_cons, List.mem_append] at hl
      rcases List.mem_cons.1 hm with rfl | hm
      · rcases hl with rfl | hl | hl
        · rfl
        · rw [hc l hl] at hsome; cases hsome
        · have := S4V.Lemmas.Syslines.mem_bounds hB.wf hl
          simp only at hb2
          omega
      · have hmb := hB.mem_bounds hm
        rcases hl with rfl | hl | hl
        · have := S4V.Lemmas.Syslines.mem_bounds hw (x := l) (by simp)
          omega
        · have := S4V.Lemmas.Syslines.mem_bounds hw (x := l) (by simp [hl])
          omega
        · exact ih3 m hm l hl hsome hb1 hb2

theorem messages_heads {ls : List LineInfo} (hwf : WFLines ls) :
    (∀ l ∈ ls, ∀ t, l.dt = some t → ∃ m ∈ messages ls, m.beg = l.beg ∧ m.dt = t) ∧
    (∀ m ∈ messages ls, ∃ l ∈ ls, l.beg = m.beg ∧ l.dt = some m.dt) ∧
    (∀ m ∈ messages ls, ∀ l ∈ ls, l.dt.isSome → m.beg ≤ l.beg → l.beg ≤ m.fin →
      l.beg = m.beg) := by
  obtain ⟨A, S, hls, hA, hB⟩ := decomp hwf
  have hM : messages ls = messagesAux S none := by rw [hls]; exact messages_eq_of_decomp hA
  obtain ⟨h1, h2, h3⟩ := hB.heads
  rw [hM]
  refine ⟨?_, ?_, ?_⟩
  · intro l hl t hl'
    rw [hls] at hl
    rcases List.mem_append.1 hl with hl | hl
    · rw [hA l hl] at hl'; cases hl'
    · exact h1 l hl t hl'
  · intro m hm
    obtain ⟨l, hl, hh⟩ := h2 m hm
    exact ⟨l, by rw [hls]; simp [hl], hh⟩
  · intro m hm l hl hsome hb1 hb2
    rw [hls] at hl
    rcases List.mem_append.1 hl with hl | hl
    · rw [hA l hl] at hsome; cases hsome
    · exact h3 m hm l hl hsome hb1 hb2

/-! ### specification of `findSysline` -/

theorem findSysline_done_of_beyond {ls : List LineInfo} (hwf : WFLines ls) {fo : Nat}
    (h : fileSz ls ≤ fo) : findSysline ls fo = .done := findSysline_beyond hwf h

theorem findSysline_inside {ls : List LineInfo} (hwf : WFLines ls) {m : Sysl}
    (hm : m ∈ messages ls) {fo : Nat} (h1 : m.beg ≤ fo) (h2 : fo ≤ m.fin) :
    findSysline ls fo = .found (m.fin + 1) m := by
  rw [findSysline_eq hwf]
  obtain ⟨hc, _⟩ := messages_geom hwf
  obtain ⟨M1, M2, hM⟩ := List.mem_iff_append.1 hm
  rw [hM] at hc ⊢
  obtain ⟨hc1, hc2⟩ := (MContig_append _ _ _).1 hc
  rw [fsM_append_ge hc1 (by have := hc2.1; omega), fsM_cons_le h2]

theorem findSysline_before {ls : List LineInfo} (hwf : WFLines ls) {fo : Nat}
    (h : ∀ m ∈ messages ls, fo < m.beg) :
    findSysline ls fo = match (messages ls).head? with
      | some m0 => .found (m0.fin + 1) m0
      | none => .done := by
  rw [findSysline_eq hwf]
  obtain ⟨hc, _⟩ := messages_geom hwf
  cases hM : messages ls with
  | nil => rfl
  | cons m0 r =>
    rw [hM] at hc h
    have := h m0 (by simp)
    have := hc.2.1
    rw [fsM_cons_le (by omega)]
    rfl

end S4V.Lemmas.Syslines
