/-
Lemmas about the printing model (`S4V.Model.Print`): what each of the 8+8+4+4 print variants
hands to `buffer_write_or_return!`, independence of the colour state, the `\n` splitting loop,
removal of escape sequences from the byte stream.
-/
import S4V.Model.Print

namespace S4V.Lemmas.Print
open S4V.Model.Print

/-! ### calls → chunks -/

theorem wrOf_append (a b : List Op) : wrOf (a ++ b) = wrOf a ++ wrOf b := by
  induction a with
  | nil => rfl
  | cons x r ih => cases x <;> simp [wrOf, ih]

theorem wrOf_flatMap {α} (f : α → List Op) (xs : List α) :
    wrOf (xs.flatMap f) = xs.flatMap (fun x => wrOf (f x)) := by
  induction xs with
  | nil => rfl
  | cons x r ih => simp [List.flatMap_cons, wrOf_append, ih]

/-- the printer's `printed` bytes do not depend on the colour state or the palette -/
theorem exec_data (p : Pal) (last : Last) (os : List Op) : dataOf (exec p last os).1 = wrOf os := by
  induction os generalizing last with
  | nil => rfl
  | cons x r ih =>
    cases x with
    | wr b => simp [exec, dataOf, wrOf, ih]
    | setc s =>
      simp only [exec, wrOf]
      split
      · exact ih _
      · simp [dataOf, ih]

/-- … and a printer writes nothing but its counted bytes and escapes -/
theorem exec_plain (p : Pal) (last : Last) (os : List Op) : plainOf (exec p last os).1 = wrOf os := by
  induction os generalizing last with
  | nil => rfl
  | cons x r ih =>
    cases x with
    | wr b => simp [exec, plainOf, Chunk.bytes, wrOf, ih]
    | setc s =>
      simp only [exec, wrOf]
      split
      · exact ih _
      · simp [plainOf, ih]

def noSetc : List Op → Bool
  | [] => true
  | .setc _ :: _ => false
  | .wr _ :: r => noSetc r

theorem noSetc_append (a b : List Op) : noSetc (a ++ b) = (noSetc a && noSetc b) := by
  induction a with
  | nil => rfl
  | cons x r ih => cases x <;> simp [noSetc, ih]

theorem noSetc_flatMap {α} (f : α → List Op) (xs : List α) (h : ∀ x, noSetc (f x) = true) :
    noSetc (xs.flatMap f) = true := by
  induction xs with
  | nil => rfl
  | cons x r ih => simp [List.flatMap_cons, noSetc_append, h, ih]

/-- without `setcolor_or_return!` calls stdout is exactly the written slices -/
theorem exec_bytes_noSetc (p : Pal) (last : Last) (os : List Op) (h : noSetc os = true) :
    bytesOf (exec p last os).1 = wrOf os := by
  induction os generalizing last with
  | nil => rfl
  | cons x r ih =>
    cases x with
    | wr b =>
      simp only [noSetc] at h
      simp [exec, bytesOf, Chunk.bytes, wrOf] at *
      exact ih _ h
    | setc s => simp [noSetc] at h

theorem plainOf_append (a b : List Chunk) : plainOf (a ++ b) = plainOf a ++ plainOf b := by
  induction a with
  | nil => rfl
  | cons x r ih => cases x <;> simp [plainOf, ih]

theorem dataOf_append (a b : List Chunk) : dataOf (a ++ b) = dataOf a ++ dataOf b := by
  induction a with
  | nil => rfl
  | cons x r ih => cases x <;> simp [dataOf, ih]

theorem bytesOf_append (a b : List Chunk) : bytesOf (a ++ b) = bytesOf a ++ bytesOf b := by
  simp [bytesOf]

/-! ### slices -/

theorem take_mid_drop (l : Bytes) {b e : Nat} (h : b ≤ e) :
    l.take b ++ ((l.drop b).take (e - b) ++ l.drop e) = l := by
  have h1 : l.drop e = (l.drop b).drop (e - b) := by
    rw [List.drop_drop]; congr 1; omega
  rw [h1, List.take_append_drop, List.take_append_drop]

theorem wrOf_wrNE (s : Spec) (b : Bytes) : wrOf (wrNE s b) = b := by
  unfold wrNE; split <;> simp_all [wrOf]

theorem wrOf_lineOps (l : Bytes) : wrOf (lineOps l) = l := by
  unfold lineOps; split <;> simp_all [wrOf]

theorem wrOf_hlLine (l : Bytes) {b e : Nat} (h : b ≤ e) : wrOf (hlLine l b e) = l := by
  unfold hlLine
  split
  · simp_all [wrOf]
  · split
    · simp only [wrOf_append, wrOf_wrNE, List.append_assoc]; exact take_mid_drop l h
    · split
      · simp [wrOf_append, wrOf_wrNE]
      · simp [wrOf]

theorem wrOf_hlBuf (d : Bytes) {b e : Nat} (h : b ≤ e) : wrOf (hlBuf d b e) = d := by
  simp only [hlBuf, wrOf, List.append_nil]; exact take_mid_drop d h

theorem wrOf_hlAt (l : Bytes) (at_ : Nat) {b e : Nat} (h : b ≤ e) : wrOf (hlAt l at_ b e) = l := by
  unfold hlAt
  split
  · rename_i hc
    simp only [wrOf, List.append_nil]
    have : e - b = (e - at_) - (b - at_) := by omega
    rw [this]
    exact take_mid_drop l (by omega)
  · simp [wrOf]

/-- the line loop of the colour text-log variants writes `pre`'s bytes, then the line, per line -/
theorem wrOf_colorLines (pre : List Op) {b e : Nat} (h : b ≤ e) (first : Bool) (ls : List Bytes) :
    wrOf (colorLines pre b e first ls) = ls.flatMap (fun l => wrOf pre ++ l) := by
  induction ls generalizing first with
  | nil => rfl
  | cons l r ih =>
    simp only [colorLines, wrOf_append, List.flatMap_cons, ih]
    cases first <;> simp [wrOf_lineOps, wrOf_hlLine l h]

theorem wrOf_prependColorLoop (pre : List Op) {b e : Nat} (h : b ≤ e) (at_ : Nat) (ls : List Bytes) :
    wrOf (prependColorLoop pre b e at_ ls) = ls.flatMap (fun l => wrOf pre ++ l) := by
  induction ls generalizing at_ with
  | nil => rfl
  | cons l r ih => simp [prependColorLoop, wrOf_append, List.flatMap_cons, ih, wrOf_hlAt l at_ h]

/-! ### the fields -/

def optBytes : Option Bytes → Bytes
  | none => []
  | some b => b

theorem wrOf_optB (x : Option Bytes) : wrOf (optB x) = optBytes x := by
  cases x <;> simp [optB, optBytes, wrOf]

/-- every printed line of a message: file field, then datetime field, then the line -/
def decorated (o : Opts) (ls : List Bytes) : Bytes :=
  ls.flatMap fun l => optBytes o.file ++ (optBytes o.date ++ l)

/-- text logs: all 8 variants write, per line, file field ++ datetime field ++ line -/
theorem wrOf_print_sysline (o : Opts) (m : SysMsg) (h : m.dtBeg ≤ m.dtEnd) :
    wrOf (print_sysline o m) = decorated o m.lines := by
  obtain ⟨c, f, d⟩ := o
  cases c <;> cases f <;> cases d <;>
    simp [print_sysline, print_sysline_, print_sysline_prependdate, print_sysline_prependfile,
      print_sysline_prependfile_prependdate, print_sysline_color, print_sysline_prependdate_color,
      print_sysline_prependfile_color, print_sysline_prependfile_prependdate_color,
      wrOf_flatMap, wrOf, wrOf_lineOps, wrOf_append, wrOf_colorLines _ h, decorated, optBytes]

/-- text logs without colour: no hypothesis on the datetime span -/
theorem wrOf_print_sysline_nocolor (o : Opts) (m : SysMsg) (hc : o.color = false) :
    wrOf (print_sysline o m) = decorated o m.lines := by
  obtain ⟨c, f, d⟩ := o
  subst hc
  cases f <;> cases d <;>
    simp [print_sysline, print_sysline_, print_sysline_prependdate, print_sysline_prependfile,
      print_sysline_prependfile_prependdate, wrOf_flatMap, wrOf, wrOf_lineOps, decorated, optBytes]

/-- accounting records: all 8 variants write the file field, the datetime field, then the record -/
theorem wrOf_print_fixedstruct (o : Opts) (m : BufMsg) (h : m.beg ≤ m.fin) :
    wrOf (print_fixedstruct o m) = optBytes o.file ++ optBytes o.date ++ m.data := by
  obtain ⟨c, f, d⟩ := o
  cases c <;> cases f <;> cases d <;>
    simp [print_fixedstruct, print_fixedstruct_, print_fixedstruct_prependdate, print_fixedstruct_prependfile,
      print_fixedstruct_prependfile_prependdate, print_fixedstruct_color, print_fixedstruct_prependdate_color,
      print_fixedstruct_prependfile_color, print_fixedstruct_prependfile_prependdate_color,
      wrOf, wrOf_append, wrOf_hlBuf _ h, optBytes]

def plainOpts (o : Opts) : Bool := o.file.isNone && o.date.isNone

theorem wrOf_print_buf_prepend (f d : Option Bytes) (m : BufMsg) :
    wrOf (print_buf_prepend f d m) = decorated ⟨false, f, d⟩ (nlLines m.data) := by
  simp [print_buf_prepend, wrOf_flatMap, wrOf_append, wrOf_optB, wrOf, decorated]

theorem wrOf_journalPre (f d : Option Bytes) : wrOf (journalPre f d) = optBytes f ++ optBytes d := by
  cases f <;> cases d <;> simp [journalPre, wrOf, optBytes]

/-- event-log records: without prefix the payload; with a prefix, per `\n`-terminated piece -/
theorem wrOf_print_evtx (o : Opts) (m : BufMsg) (h : m.beg ≤ m.fin) :
    wrOf (print_evtx o m) = if plainOpts o then m.data else decorated o (nlLines m.data) := by
  obtain ⟨c, f, d⟩ := o
  cases c <;> cases f <;> cases d <;>
    simp [print_evtx, print_buf_, print_buf_color, print_evtx_prepend_color, wrOf_print_buf_prepend, wrOf,
      wrOf_append, wrOf_hlBuf _ h, wrOf_prependColorLoop _ h, wrOf_optB, plainOpts, decorated, optBytes]

theorem wrOf_print_journalentry (o : Opts) (m : BufMsg) (h : m.beg ≤ m.fin) :
    wrOf (print_journalentry o m) = if plainOpts o then m.data else decorated o (nlLines m.data) := by
  obtain ⟨c, f, d⟩ := o
  cases c <;> cases f <;> cases d <;>
    simp [print_journalentry, print_buf_, print_buf_color, print_journalentry_prepend_color, wrOf_print_buf_prepend,
      wrOf, wrOf_append, wrOf_hlBuf _ h, wrOf_prependColorLoop _ h, wrOf_journalPre, plainOpts, decorated, optBytes]

/-! ### the `\n` splitting loop -/

theorem nl_split_aux (d acc : Bytes) :
    (nlLinesAux d acc).flatten ++ nlTailAux d acc = acc.reverse ++ d := by
  induction d generalizing acc with
  | nil => simp [nlLinesAux, nlTailAux]
  | cons c r ih =>
    simp only [nlLinesAux, nlTailAux]
    split
    · rename_i hc
      simp [ih, hc]
    · rw [ih]; simp

/-- the loop writes everything up to the last `\n` and leaves the rest -/
theorem nl_split (d : Bytes) : (nlLines d).flatten ++ nlTail d = d := by
  simpa [nlLines, nlTail] using nl_split_aux d []

theorem nlTailAux_endsNL (d acc : Bytes) : nlTailAux (d ++ [NL]) acc = [] := by
  induction d generalizing acc with
  | nil => simp [nlTailAux]
  | cons c r ih =>
    simp only [List.cons_append, nlTailAux]
    split <;> exact ih _

/-- payload empty or ending in `\n`: nothing is dropped -/
theorem nlLines_flatten_of_endsNL (d : Bytes) (h : d = [] ∨ endsNL d = true) : (nlLines d).flatten = d := by
  have hs := nl_split d
  rcases h with h | h
  · subst h; rfl
  · have : nlTail d = [] := by
      unfold endsNL at h
      obtain ⟨ys, hd⟩ := List.getLast?_eq_some_iff.mp (of_decide_eq_true h)
      rw [hd]; exact nlTailAux_endsNL _ _
    rw [this, List.append_nil] at hs; exact hs

/-- a `\n`-terminated piece without inner `\n` -/
def IsLine (l : Bytes) : Prop := ∃ body, l = body ++ [NL] ∧ NL ∉ body

theorem nlLinesAux_isLine (d acc : Bytes) (hacc : NL ∉ acc) : ∀ l ∈ nlLinesAux d acc, IsLine l := by
  induction d generalizing acc with
  | nil => simp [nlLinesAux]
  | cons c r ih =>
    simp only [nlLinesAux]
    split
    · intro l hl
      rcases List.mem_cons.mp hl with h | h
      · exact ⟨acc.reverse, h, by simpa using hacc⟩
      · exact ih [] (by simp) l h
    · rename_i hc
      exact ih (c :: acc) (by simp [hacc]; exact fun h => hc h.symm)

theorem nlLines_isLine (d : Bytes) : ∀ l ∈ nlLines d, IsLine l := nlLinesAux_isLine d [] (by simp)

/-- splitting a stream that starts with a complete line -/
theorem nlLinesAux_line (body rest acc : Bytes) (hb : NL ∉ body) :
    nlLinesAux (body ++ NL :: rest) acc = (acc.reverse ++ body ++ [NL]) :: nlLinesAux rest [] := by
  induction body generalizing acc with
  | nil => simp [nlLinesAux]
  | cons c r ih =>
    have hc : c ≠ NL := fun h => hb (by simp [h])
    have hr : NL ∉ r := fun h => hb (by simp [h])
    simp [nlLinesAux, hc, ih _ hr]

theorem nlTailAux_line (body rest acc : Bytes) (hb : NL ∉ body) :
    nlTailAux (body ++ NL :: rest) acc = nlTailAux rest [] := by
  induction body generalizing acc with
  | nil => simp [nlTailAux]
  | cons c r ih =>
    have hc : c ≠ NL := fun h => hb (by simp [h])
    have hr : NL ∉ r := fun h => hb (by simp [h])
    simp [nlTailAux, hc, ih _ hr]

theorem nlLinesAux_noNL (body acc : Bytes) (hb : NL ∉ body) : nlLinesAux body acc = [] := by
  induction body generalizing acc with
  | nil => rfl
  | cons c r ih =>
    have hc : c ≠ NL := fun h => hb (by simp [h])
    have hr : NL ∉ r := fun h => hb (by simp [h])
    simp [nlLinesAux, hc, ih _ hr]

theorem nlTailAux_noNL (body acc : Bytes) (hb : NL ∉ body) : nlTailAux body acc = acc.reverse ++ body := by
  induction body generalizing acc with
  | nil => simp [nlTailAux]
  | cons c r ih =>
    have hc : c ≠ NL := fun h => hb (by simp [h])
    have hr : NL ∉ r := fun h => hb (by simp [h])
    simp [nlTailAux, hc, ih _ hr]

/-! ### removing the fields from every printed line -/

/-- the printed lines of a byte stream: the `\n`-terminated pieces and the unterminated rest -/
def pieces (d : Bytes) : List Bytes := nlLines d ++ (if nlTail d = [] then [] else [nlTail d])

def unprefix (fd l : Bytes) : Bytes := if fd.isPrefixOf l then l.drop fd.length else l

/-- delete the leading field bytes `fd` from every printed line -/
def stripFields (fd out : Bytes) : Bytes := ((pieces out).map (unprefix fd)).flatten

/-- the lines of a message: each ends in its only `\n`; the last may be unterminated -/
def WFLines : List Bytes → Prop
  | [] => True
  | [l] => IsLine l ∨ (l ≠ [] ∧ NL ∉ l)
  | l :: r => IsLine l ∧ WFLines r

theorem pieces_line (body rest : Bytes) (hb : NL ∉ body) :
    pieces (body ++ NL :: rest) = (body ++ [NL]) :: pieces rest := by
  unfold pieces nlLines nlTail
  rw [nlLinesAux_line body rest [] hb, nlTailAux_line body rest [] hb]
  simp

theorem pieces_noNL (body : Bytes) (hb : NL ∉ body) (hne : body ≠ []) : pieces body = [body] := by
  simp [pieces, nlLines, nlTail, nlLinesAux_noNL body [] hb, nlTailAux_noNL body [] hb, hne]

theorem pieces_nil : pieces [] = [] := by simp [pieces, nlLines, nlTail, nlLinesAux, nlTailAux]

theorem pieces_flatten (d : Bytes) : (pieces d).flatten = d := by
  have h := nl_split d
  unfold pieces
  split
  · rename_i ht; rw [ht] at h; simpa using h
  · simpa using h

theorem pieces_decorated (fd : Bytes) (hfd : NL ∉ fd) (ls : List Bytes) (h : WFLines ls) :
    pieces (ls.flatMap (fun l => fd ++ l)) = ls.map (fun l => fd ++ l) := by
  induction ls with
  | nil => simp [pieces_nil]
  | cons l r ih =>
    cases r with
    | nil =>
      simp only [WFLines] at h
      rcases h with ⟨body, hl, hb⟩ | ⟨hne, hb⟩
      · subst hl
        have : NL ∉ fd ++ body := by simp [hfd, hb]
        simpa [List.flatMap_cons, pieces_nil] using pieces_line (fd ++ body) [] this
      · have : NL ∉ fd ++ l := by simp [hfd, hb]
        simpa [List.flatMap_cons] using pieces_noNL (fd ++ l) this (by simp [hne])
    | cons l2 r2 =>
      simp only [WFLines] at h
      obtain ⟨⟨body, hl, hb⟩, hr⟩ := h
      subst hl
      have hn : NL ∉ fd ++ body := by simp [hfd, hb]
      have := pieces_line (fd ++ body) ((l2 :: r2).flatMap (fun l => fd ++ l)) hn
      simp only [List.flatMap_cons, List.map_cons] at *
      rw [show fd ++ (body ++ [NL]) ++ (fd ++ l2 ++ List.flatMap (fun l => fd ++ l) r2) =
            (fd ++ body) ++ NL :: (fd ++ l2 ++ List.flatMap (fun l => fd ++ l) r2) by simp]
      rw [this, ih hr]; simp

theorem unprefix_append (fd l : Bytes) : unprefix fd (fd ++ l) = l := by
  have : fd.isPrefixOf (fd ++ l) = true := by
    rw [List.isPrefixOf_iff_prefix]; exact List.prefix_append fd l
  simp [unprefix, this]

/-- deleting the fields from every line of a decorated message gives back the message -/
theorem stripFields_decorated (fd : Bytes) (hfd : NL ∉ fd) (ls : List Bytes) (h : WFLines ls) :
    stripFields fd (ls.flatMap (fun l => fd ++ l)) = ls.flatten := by
  unfold stripFields
  rw [pieces_decorated fd hfd ls h, List.map_map]
  simp [Function.comp_def, unprefix_append]

theorem wfLines_of_isLine (ls : List Bytes) (h : ∀ l ∈ ls, IsLine l) : WFLines ls := by
  induction ls with
  | nil => trivial
  | cons l r ih =>
    cases r with
    | nil => exact Or.inl (h l (by simp))
    | cons l2 r2 => exact ⟨h l (by simp), ih (fun x hx => h x (by simp [hx]))⟩

/-! ### removing escape sequences from the byte stream -/

/-- one `ESC [ params m` -/
def SGR (p : Bytes) : Prop := ∃ ps, p = ESC :: LBR :: (ps ++ [LM]) ∧ LM ∉ ps

/-- what termcolor writes for a `ColorSpec`: a run of SGR sequences -/
def WFEsc (e : Bytes) : Prop := ∃ parts : List Bytes, e = parts.flatten ∧ ∀ p ∈ parts, SGR p

structure WFPal (p : Pal) : Prop where
  dflt : WFEsc p.dflt
  txt : WFEsc p.txt
  dt : WFEsc p.dt

theorem WFPal.esc {p : Pal} (h : WFPal p) (s : Spec) : WFEsc (p.esc s) := by
  cases s <;> simp [Pal.esc, h.dflt, h.txt, h.dt]

theorem strip_noESC (b rest : Bytes) (h : ESC ∉ b) :
    stripEscAux .n (b ++ rest) = b ++ stripEscAux .n rest := by
  induction b with
  | nil => rfl
  | cons c r ih =>
    have hc : c ≠ ESC := fun e => h (by simp [e])
    have hr : ESC ∉ r := fun e => h (by simp [e])
    simp [stripEscAux, hc, ih hr]

theorem strip_inEsc (ps rest : Bytes) (h : LM ∉ ps) :
    stripEscAux .i (ps ++ LM :: rest) = stripEscAux .n rest := by
  induction ps with
  | nil => simp [stripEscAux]
  | cons c r ih =>
    have hc : c ≠ LM := fun e => h (by simp [e])
    have hr : LM ∉ r := fun e => h (by simp [e])
    simp [stripEscAux, hc, ih hr]

theorem strip_SGR (p rest : Bytes) (h : SGR p) : stripEscAux .n (p ++ rest) = stripEscAux .n rest := by
  obtain ⟨ps, hp, hm⟩ := h
  subst hp
  have := strip_inEsc ps rest hm
  simpa [stripEscAux] using this

theorem strip_WFEsc (e rest : Bytes) (h : WFEsc e) : stripEscAux .n (e ++ rest) = stripEscAux .n rest := by
  obtain ⟨parts, he, hp⟩ := h
  subst he
  induction parts with
  | nil => rfl
  | cons p r ih =>
    simp only [List.flatten_cons, List.append_assoc]
    rw [strip_SGR _ _ (hp p (by simp))]
    exact ih (fun q hq => hp q (by simp [hq]))

theorem stripEsc_noESC (b : Bytes) (h : ESC ∉ b) : stripEsc b = b := by
  have := strip_noESC b [] h
  simpa [stripEsc, stripEscAux] using this

/-- the escapes a printer emits are removable from its byte stream whatever follows -/
theorem strip_exec (p : Pal) (hp : WFPal p) (last : Last) (os : List Op) (h : ESC ∉ wrOf os) (rest : Bytes) :
    stripEscAux .n (bytesOf (exec p last os).1 ++ rest) = wrOf os ++ stripEscAux .n rest := by
  induction os generalizing last with
  | nil => rfl
  | cons x r ih =>
    cases x with
    | wr b =>
      have hb : ESC ∉ b := fun e => h (by simp [wrOf, e])
      have hr : ESC ∉ wrOf r := fun e => h (by simp [wrOf, e])
      have := ih last hr
      simp only [exec, bytesOf, List.map_cons, List.flatten_cons, Chunk.bytes, wrOf, List.append_assoc] at *
      rw [strip_noESC _ _ hb, this]
    | setc s =>
      have hr : ESC ∉ wrOf r := by simpa [wrOf] using h
      simp only [exec, wrOf]
      split
      · exact ih _ hr
      · have := ih (some (p.esc s)) hr
        simp only [bytesOf, List.map_cons, List.flatten_cons, Chunk.bytes, List.append_assoc] at *
        rw [strip_WFEsc _ _ (hp.esc s), this]

/-! ### accounting -/

theorem update_bytes (s : SumPr) (k : Kind) (n pr fl : Nat) (dt : Int) :
    (s.update k n pr fl dt).bytes = s.bytes + pr := by
  cases k <;> simp [SumPr.update, SumPr.updateDt]

theorem update_lines (s : SumPr) (k : Kind) (n pr fl : Nat) (dt : Int) :
    (s.update k n pr fl dt).lines = s.lines + (if k = .sysline then n else 0) := by
  cases k <;> simp [SumPr.update, SumPr.updateDt]

theorem update_syslines (s : SumPr) (k : Kind) (n pr fl : Nat) (dt : Int) :
    (s.update k n pr fl dt).syslines = s.syslines + (if k = .sysline then 1 else 0) := by
  cases k <;> simp [SumPr.update, SumPr.updateDt]

theorem update_fixed (s : SumPr) (k : Kind) (n pr fl : Nat) (dt : Int) :
    (s.update k n pr fl dt).fixedstructentries = s.fixedstructentries + (if k = .fixedstruct then 1 else 0) := by
  cases k <;> simp [SumPr.update, SumPr.updateDt]

theorem update_evtx (s : SumPr) (k : Kind) (n pr fl : Nat) (dt : Int) :
    (s.update k n pr fl dt).evtxentries = s.evtxentries + (if k = .evtx then 1 else 0) := by
  cases k <;> simp [SumPr.update, SumPr.updateDt]

theorem update_journal (s : SumPr) (k : Kind) (n pr fl : Nat) (dt : Int) :
    (s.update k n pr fl dt).journalentries = s.journalentries + (if k = .journal then 1 else 0) := by
  cases k <;> simp [SumPr.update, SumPr.updateDt]

/-- bytes the coordinator itself writes after a message -/
def coordLen (sep : Bytes) (m : Msg) (isLast : Bool) : Nat := (plainOf (coordAfter sep m isLast)).length

theorem bytesOf_coordAfter (sep : Bytes) (m : Msg) (isLast : Bool) :
    bytesOf (coordAfter sep m isLast) = plainOf (coordAfter sep m isLast) := by
  unfold coordAfter
  cases m <;> by_cases hs : sep = [] <;> simp [hs, bytesOf, plainOf, Chunk.bytes]
  all_goals (split <;> simp [plainOf, Chunk.bytes])

theorem dataOf_coordAfter (sep : Bytes) (m : Msg) (isLast : Bool) : dataOf (coordAfter sep m isLast) = [] := by
  unfold coordAfter
  cases m <;> by_cases hs : sep = [] <;> simp [hs, dataOf]
  all_goals (split <;> simp [dataOf])

theorem coordAcct_bytes (t : SumPr) (sep : Bytes) (m : Msg) (isLast : Bool) :
    (coordAcct t sep m isLast).bytes = t.bytes + coordLen sep m isLast := by
  unfold coordAcct coordLen coordAfter addCoord
  cases m <;> by_cases hs : sep = [] <;> simp [hs, plainOf, Chunk.bytes]
  all_goals (split <;> simp [plainOf, Chunk.bytes] <;> omega)

/-- the coordinator's own writes change nothing but `bytes` and `flushed` -/
theorem coordAcct_rest (t : SumPr) (sep : Bytes) (m : Msg) (isLast : Bool) :
    let c := coordAcct t sep m isLast
    c.lines = t.lines ∧ c.syslines = t.syslines ∧ c.fixedstructentries = t.fixedstructentries ∧
    c.evtxentries = t.evtxentries ∧ c.journalentries = t.journalentries ∧ c.dtFirst = t.dtFirst ∧ c.dtLast = t.dtLast := by
  unfold coordAcct addCoord
  cases m <;> by_cases hs : sep = [] <;> simp [hs]
  all_goals (split <;> simp)

theorem account_total_bytes (a : Acct) (sep : Bytes) (pid : Nat) (m : Msg) (isLast : Bool) (dt : Int) (pr fl : Nat) :
    (account a sep pid m isLast dt pr fl).total.bytes = a.total.bytes + coordLen sep m isLast + pr := by
  simp [account, update_bytes, coordAcct_bytes]

def sumBy (f : SumPr → Nat) (mp : List (Nat × SumPr)) : Nat := (mp.map (fun x => f x.2)).sum

theorem sumBy_mapUpdate_bytes (mp : List (Nat × SumPr)) (pid : Nat) (k : Kind) (n pr fl : Nat) (dt : Int) :
    sumBy (·.bytes) (mapUpdate mp pid k n pr fl dt) = sumBy (·.bytes) mp + pr := by
  induction mp with
  | nil => simp [mapUpdate, sumBy, update_bytes]
  | cons x r ih =>
    obtain ⟨q, s⟩ := x
    simp only [mapUpdate]
    split
    · simp [sumBy, update_bytes]; omega
    · simp only [sumBy, List.map_cons, List.sum_cons] at *; rw [ih]; omega

theorem sumBy_mapUpdate_lines (mp : List (Nat × SumPr)) (pid : Nat) (k : Kind) (n pr fl : Nat) (dt : Int) :
    sumBy (·.lines) (mapUpdate mp pid k n pr fl dt) = sumBy (·.lines) mp + (if k = .sysline then n else 0) := by
  induction mp with
  | nil => simp [mapUpdate, sumBy, update_lines]
  | cons x r ih =>
    obtain ⟨q, s⟩ := x
    simp only [mapUpdate]
    split
    · simp [sumBy, update_lines]; omega
    · simp only [sumBy, List.map_cons, List.sum_cons] at *; rw [ih]; omega

/-- messages of any kind counted in one `SummaryPrinted` -/
def msgsOf (s : SumPr) : Nat := s.syslines + s.fixedstructentries + s.evtxentries + s.journalentries

theorem update_msgs (s : SumPr) (k : Kind) (n pr fl : Nat) (dt : Int) :
    msgsOf (s.update k n pr fl dt) = msgsOf s + 1 := by
  cases k <;> simp [SumPr.update, SumPr.updateDt, msgsOf] <;> omega

theorem sumBy_mapUpdate_msgs (mp : List (Nat × SumPr)) (pid : Nat) (k : Kind) (n pr fl : Nat) (dt : Int) :
    sumBy msgsOf (mapUpdate mp pid k n pr fl dt) = sumBy msgsOf mp + 1 := by
  induction mp with
  | nil => simp [mapUpdate, sumBy, update_msgs]; rfl
  | cons x r ih =>
    obtain ⟨q, s⟩ := x
    simp only [mapUpdate]
    split
    · simp [sumBy, update_msgs]; omega
    · simp only [sumBy, List.map_cons, List.sum_cons] at *; rw [ih]; omega

end S4V.Lemmas.Print
