/-
Lemmas for C11 (`S4V.Model.Year`): adjacency predicates and their behaviour under
`reverse`, year-shift facts from the calendar closed form, and the two inductions over
the backward walk (`walk_revOK`, `walk_true_years`).

The model's loop `walk` is a function of the skeleton regenerated from the source
(`S4V.Gen.Year`). `walkNF` is its normal form for the CURRENT skeleton (jump test, then
start-of-file exit, then `OccursBefore => break`; `>` twice; `year - 1`); `walk_eq_nf` proves the
two equal by unfolding the generated constants, so a regenerated skeleton that differs breaks
`walk_eq_nf` and with it every theorem of `S4V.Props.YearSpec`.
-/
import S4V.Model.Year
import S4V.Lemmas.Time

namespace S4V.Lemmas.Year
open S4V.Model.Time S4V.Model.Year S4V.Lemmas.Time
open S4V.Gen.Year (Decision)

/-! ### adjacent pairs of a list -/

/-- `R` holds between every two neighbours of the list -/
def Adj {α : Type} (R : α → α → Prop) : List α → Prop
  | a :: b :: r => R a b ∧ Adj R (b :: r)
  | _ => True

theorem adj_cons_cons {α : Type} (R : α → α → Prop) (a b : α) (r : List α) :
    Adj R (a :: b :: r) ↔ R a b ∧ Adj R (b :: r) := Iff.rfl

instance adjDecidable {α : Type} (R : α → α → Prop) [DecidableRel R] : (l : List α) → Decidable (Adj R l)
  | [] => isTrue trivial
  | [_] => isTrue trivial
  | a :: b :: r =>
    have := adjDecidable R (b :: r)
    decidable_of_iff (R a b ∧ Adj R (b :: r)) (adj_cons_cons R a b r).symm

theorem adj_append_singleton {α : Type} (R : α → α → Prop) (l : List α) (x : α) :
    Adj R (l ++ [x]) ↔ Adj R l ∧ ∀ a, l.getLast? = some a → R a x := by
  induction l with
  | nil => simp [Adj]
  | cons a t ih =>
    cases t with
    | nil => simp [Adj]
    | cons b r =>
      have : (a :: b :: r) ++ [x] = a :: b :: (r ++ [x]) := rfl
      rw [this, adj_cons_cons, adj_cons_cons]
      have ih' : Adj R (b :: (r ++ [x])) ↔ Adj R (b :: r) ∧ ∀ a, (b :: r).getLast? = some a → R a x := ih
      rw [ih']
      have hl : (a :: b :: r).getLast? = (b :: r).getLast? := by simp [List.getLast?_cons_cons]
      rw [hl]
      constructor
      · rintro ⟨h1, h2, h3⟩; exact ⟨⟨h1, h2⟩, h3⟩
      · rintro ⟨⟨h1, h2⟩, h3⟩; exact ⟨h1, h2, h3⟩

theorem adj_reverse {α : Type} (R : α → α → Prop) (l : List α) :
    Adj R l.reverse ↔ Adj (fun a b => R b a) l := by
  induction l with
  | nil => simp [Adj]
  | cons b t ih =>
    rw [List.reverse_cons, adj_append_singleton, ih]
    cases t with
    | nil => simp [Adj]
    | cons a r =>
      rw [adj_cons_cons]
      have : (a :: r).reverse.getLast? = some a := by simp
      rw [this]
      constructor
      · rintro ⟨h1, h2⟩; exact ⟨h2 a rfl, h1⟩
      · rintro ⟨h1, h2⟩; refine ⟨h2, ?_⟩; intro x hx; cases hx; exact h1

/-! ### small list facts -/

theorem filterMap_map_none {α β : Type} (l : List α) :
    (l.map fun _ => (none : Option β)).filterMap id = [] := by
  induction l with
  | nil => rfl
  | cons _ _ ih => simp

theorem filterMap_replicate_none {β : Type} (k : Nat) :
    (List.replicate k (none : Option β)).filterMap id = [] := by
  induction k with
  | zero => rfl
  | succ k ih => simp [List.replicate_succ]

/-! ### normal form of the loop for the current skeleton -/

/-- `dt_cur > dt_prev && dt_cur - dt_prev > J` -/
def jumpedNF (J : Int) (prev : Option Int) (dt : Int) : Bool :=
  match prev with
  | some p => decide (dt > p) && decide (dt - p > J)
  | none => false

/-- `dt_after_or_before(dt, filter_dt_after) == OccursBefore` -/
def beforeWindow (after : Option Int) (dt : Int) : Bool :=
  match after with
  | some a => decide (dt < a)
  | none => false

/-- the loop with the current skeleton written out: jump test first; a message at the start of the
file or before `--dt-after` ends the walk (at the start of the file there is nothing left, so the
exit is not visible in the output) -/
def walkNF (J off : Int) (after : Option Int) :
    Nat → List Msg → Int → Option Int → Later → List (Option Int)
  | 0, ms, _, _, later => (ms.map fun _ => none) ++ later.map Prod.snd
  | fuel + 1, ms, y, prev, later =>
    match findParse off y ms with
    | none =>
      match refind off y later with
      | none => (ms.map fun _ => none) ++ later.map Prod.snd
      | some (pre, m, dt, post) =>
        if jumpedNF J prev dt then walkNF J off after fuel ms (y - 1) prev (pre ++ (m, none) :: post)
        else (ms.map fun _ => none) ++ (pre.map Prod.snd ++ (some dt :: (blank off y post).map Prod.snd))
    | some (sk, m, dt, rest) =>
      if jumpedNF J prev dt then
        walkNF J off after fuel ms (y - 1) prev later
      else if beforeWindow after dt then
        (rest.map fun _ => none) ++ (some dt :: ((sk.map fun _ => none) ++ (blank off y later).map Prod.snd))
      else
        walkNF J off after fuel rest y (some dt)
          ((m, some dt) :: ((sk.reverse.map fun s => (s, none)) ++ blank off y later))

theorem jumped_eq_nf (J : Int) (prev : Option Int) (dt : Int) :
    jumpedG skel.laterStrict skel.diffStrict J prev dt = jumpedNF J prev dt := by
  cases prev <;> simp [jumpedG, jumpedNF, skel, S4V.Gen.Year.JUMP_LATER_STRICT, S4V.Gen.Year.JUMP_DIFF_STRICT]

theorem breaksAfter_eq_nf (after : Option Int) (dt : Int) :
    breaksAfterG skel.breaksOn after dt = beforeWindow after dt := by
  cases after with
  | none =>
    simp [breaksAfterG, afterVariant, beforeWindow, skel, S4V.Gen.Year.AFTER_FILTER_BREAKS_ON,
      S4V.Gen.Filter.dtAfterOrBefore]
  | some a =>
    by_cases h : dt < a <;>
      simp [breaksAfterG, afterVariant, beforeWindow, skel, S4V.Gen.Year.AFTER_FILTER_BREAKS_ON,
        S4V.Gen.Filter.dtAfterOrBefore, S4V.Gen.Filter.unwrapD, h]

/-- the verdict of the current skeleton: jump test, then start-of-file exit, then `--dt-after` -/
theorem verdict_nf (J : Int) (after prev : Option Int) (dt : Int) (atStart : Bool) :
    verdict skel J after prev dt atStart =
      if jumpedNF J prev dt then Verdict.retry
      else if atStart then Verdict.brk
      else if beforeWindow after dt then Verdict.brk else Verdict.next := by
  have hd : skel.decisions = [Decision.jump, Decision.startExit, Decision.afterFilter] := by
    simp [skel, S4V.Gen.Year.DECISIONS]
  unfold verdict
  rw [hd]
  simp only [verdictL, decision, jumped_eq_nf, breaksAfter_eq_nf]
  cases jumpedNF J prev dt <;> cases atStart <;> cases beforeWindow after dt <;> rfl

theorem map_none_eq {α β : Type} (l : List α) (f : α → β) :
    ((l.map f).map fun _ => (none : Option Int)) = l.map fun _ => none := by
  simp

theorem map_none_reverse {α : Type} (l : List α) :
    (l.reverse.map fun _ => (none : Option Int)) = l.map fun _ => none := by
  induction l with
  | nil => rfl
  | cons a t ih =>
    simp only [List.reverse_cons, List.map_append, List.map_cons, List.map_nil, ih]
    clear ih
    induction t with
    | nil => rfl
    | cons b r ih => simp only [List.map_cons, List.cons_append, ih]

theorem map_none_reverse' {α : Type} (l : List α) :
    (l.map fun _ => (none : Option Int)).reverse = l.map fun _ => none := by
  rw [← List.map_reverse]; exact map_none_reverse l

/-- what `findParse` found parses with `y`; what it skipped does not -/
theorem findParse_spec (off y : Int) :
    ∀ (ms sk : List Msg) (m : Msg) (dt : Int) (rest : List Msg),
      findParse off y ms = some (sk, m, dt, rest) →
        dateWith off y m = some dt ∧ (∀ s ∈ sk, dateWith off y s = none) ∧ ms = sk ++ m :: rest := by
  intro ms
  induction ms with
  | nil => intro sk m dt rest h; simp [findParse] at h
  | cons a t ih =>
    intro sk m dt rest h
    unfold findParse at h
    cases hd : dateWith off y a with
    | some d =>
      simp only [hd] at h
      cases h
      exact ⟨hd, by simp, rfl⟩
    | none =>
      simp only [hd] at h
      cases hf : findParse off y t with
      | none => simp [hf] at h
      | some r =>
        obtain ⟨sk', m', dt', rest'⟩ := r
        simp only [hf, Option.map_some] at h
        cases h
        obtain ⟨h1, h2, h3⟩ := ih sk' m dt rest hf
        refine ⟨h1, ?_, by simp [h3]⟩
        intro s hs
        simp at hs
        rcases hs with rfl | hs
        · exact hd
        · exact h2 s hs

theorem blank_of_head (off y : Int) (m : Msg) (e : Option Int) (r : Later) (dt : Int)
    (h : dateWith off y m = some dt) : blank off y ((m, e) :: r) = (m, e) :: r := by
  simp [blank, h]

theorem blank_idem (off y : Int) : ∀ l : Later, blank off y (blank off y l) = blank off y l := by
  intro l
  induction l with
  | nil => rfl
  | cons x r ih =>
    obtain ⟨m, e⟩ := x
    cases hd : dateWith off y m with
    | some d => simp [blank, hd]
    | none => simp [blank, hd, ih]

/-- lines that do not parse with `y` and have no sysline of their own are passed over unchanged -/
theorem blank_skipped (off y : Int) (l : Later) :
    ∀ sk : List Msg, (∀ s ∈ sk, dateWith off y s = none) →
      blank off y ((sk.map fun s => (s, (none : Option Int))) ++ l) = (sk.map fun s => (s, none)) ++ blank off y l := by
  intro sk
  induction sk with
  | nil => intro _; rfl
  | cons a t ih =>
    intro h
    have ha : dateWith off y a = none := h a (by simp)
    simp only [List.map_cons, List.cons_append, blank, ha, Option.isSome_none, Bool.false_eq_true, if_false]
    rw [ih (fun s hs => h s (by simp [hs]))]

theorem walk_eq_nf (lead : Bool) (J off : Int) (after : Option Int) :
    ∀ (fuel : Nat) (ms : List Msg) (y : Int) (prev : Option Int) (later : Later),
      walk lead J off after fuel ms y prev later = walkNF J off after fuel ms y prev later := by
  intro fuel
  induction fuel with
  | zero => intro ms y prev later; simp [walk, walkG, walkNF]
  | succ fuel ih =>
    intro ms y prev later
    unfold walk at ih ⊢
    unfold walkG walkNF
    have hstep : y + skel.yearStep = y - 1 := by
      simp [skel, S4V.Gen.Year.JUMP_YEAR_STEP]; omega
    cases hf : findParse off y ms with
    | none =>
      simp only []
      cases hr : refind off y later with
      | none => rfl
      | some r =>
        obtain ⟨pre, m, dt, post⟩ := r
        simp only [verdict_nf, Bool.false_eq_true, if_false]
        by_cases hj : jumpedNF J prev dt = true
        · simp only [hj, if_true, hstep]
          exact ih ms (y - 1) prev _
        · have hj' : jumpedNF J prev dt = false := by simpa using hj
          simp only [hj', Bool.false_eq_true, if_false]
          cases beforeWindow after dt <;> rfl
    | some r =>
      obtain ⟨sk, m, dt, rest⟩ := r
      obtain ⟨hm, hsk, _⟩ := findParse_spec off y ms sk m dt rest hf
      simp only [verdict_nf]
      by_cases hj : jumpedNF J prev dt = true
      · simp only [hj, if_true, hstep]
        exact ih ms (y - 1) prev later
      · have hj' : jumpedNF J prev dt = false := by simpa using hj
        simp only [hj', Bool.false_eq_true, if_false]
        by_cases hs : (rest.isEmpty && !lead) = true
        · have hr : rest = [] := by
            simp at hs; exact hs.1
          subst hr
          simp only [hs, if_true]
          by_cases hb : beforeWindow after dt = true
          · simp only [hb, if_true]
          · have hb' : beforeWindow after dt = false := by simpa using hb
            simp only [hb', Bool.false_eq_true, if_false]
            -- the walk goes on with nothing left: the message is found again, unchanged
            have hsk' : ∀ s ∈ sk.reverse, dateWith off y s = none := fun s hs => hsk s (by simpa using hs)
            cases fuel with
            | zero =>
              simp [walkNF, Function.comp_def]
              exact (map_none_reverse' sk).symm
            | succ f =>
              unfold walkNF
              have hjj : jumpedNF J (some dt) dt = false := by simp [jumpedNF]
              simp only [findParse, refind, hm, hjj, Bool.false_eq_true, if_false]
              rw [blank_skipped off y _ sk.reverse hsk', blank_idem]
              simp [Function.comp_def]
              exact (map_none_reverse' sk).symm
        · have hs' : (rest.isEmpty && !lead) = false := by simpa using hs
          simp only [hs', Bool.false_eq_true, if_false]
          by_cases hb : beforeWindow after dt = true
          · simp only [hb, if_true]
          · have hb' : beforeWindow after dt = false := by simpa using hb
            simp only [hb', Bool.false_eq_true, if_false]
            exact ih rest y (some dt) _

/-! ### the simple form: every line parses with every fill year -/

/-- the loop when nothing is ever swallowed or found again (no 29 February, no malformed date):
entries in visiting order (last message first) -/
def walkS (J off : Int) (after : Option Int) : Nat → List Msg → Int → Option Int → List (Option Int)
  | 0, ms, _, _ => ms.map fun _ => none
  | fuel + 1, ms, y, prev =>
    match findParse off y ms with
    | none => ms.map fun _ => none
    | some (sk, _, dt, rest) =>
      if jumpedNF J prev dt then
        walkS J off after fuel ms (y - 1) prev
      else
        List.replicate sk.length none ++
          (some dt ::
            (if beforeWindow after dt then rest.map fun _ => none
             else walkS J off after fuel rest y (some dt)))

/-- the line of `m` parses with every fill year (a real month/day other than 29 February) -/
def AlwaysParse (off : Int) (m : Msg) : Prop := ∀ y, ∃ dt, dateWith off y m = some dt

theorem blank_alwaysParse (off y : Int) (l : Later) (h : ∀ x ∈ l, AlwaysParse off x.1) : blank off y l = l := by
  cases l with
  | nil => rfl
  | cons x r =>
    obtain ⟨m, e⟩ := x
    obtain ⟨dt, hd⟩ := h (m, e) (by simp) y
    exact blank_of_head off y m e r dt hd

/-- when every line parses with every year the loop is the simple form (followed by what was
already visited) -/
theorem walkNF_eq_walkS (J off : Int) (after : Option Int) :
    ∀ (fuel : Nat) (ms : List Msg) (y : Int) (prev : Option Int) (later : Later),
      (∀ m ∈ ms, AlwaysParse off m) → (∀ x ∈ later, AlwaysParse off x.1) →
      (ms = [] → ∀ m e r, later = (m, e) :: r → prev = e ∧ e = dateWith off y m) →
      walkNF J off after fuel ms y prev later
        = (walkS J off after fuel ms y prev).reverse ++ later.map Prod.snd := by
  intro fuel
  induction fuel with
  | zero => intro ms y prev later _ _ _; simp [walkNF, walkS, map_none_reverse']
  | succ fuel ih =>
    intro ms y prev later hms hl hH
    cases ms with
    | nil =>
      unfold walkNF walkS
      simp only [findParse, List.map_nil, List.reverse_nil, List.nil_append]
      cases later with
      | nil => simp [refind]
      | cons x r =>
        obtain ⟨m, e⟩ := x
        obtain ⟨hp, he⟩ := hH rfl m e r rfl
        obtain ⟨dt, hd⟩ := hl (m, e) (by simp) y
        have hjj : jumpedNF J prev dt = false := by
          rw [hp, he, hd]; simp [jumpedNF]
        simp only [refind, hd, hjj, Bool.false_eq_true, if_false, List.map_nil, List.nil_append]
        rw [blank_alwaysParse off y r (fun x hx => hl x (by simp [hx]))]
        simp [he, hd]
    | cons m rest =>
      obtain ⟨dt, hd⟩ := hms m (by simp) y
      have hrest : ∀ m' ∈ rest, AlwaysParse off m' := fun m' h => hms m' (by simp [h])
      unfold walkNF walkS
      simp only [findParse, hd]
      rw [blank_alwaysParse off y later hl]
      by_cases hj : jumpedNF J prev dt = true
      · simp only [hj, if_true]
        exact ih (m :: rest) (y - 1) prev later hms hl (by intro h; cases h)
      · have hj' : jumpedNF J prev dt = false := by simpa using hj
        simp only [hj', Bool.false_eq_true, if_false, List.length_nil, List.replicate, List.nil_append,
          List.reverse_nil, List.map_nil]
        by_cases hb : beforeWindow after dt = true
        · simp only [hb, if_true, List.reverse_cons, map_none_reverse']
          simp
        · have hb' : beforeWindow after dt = false := by simpa using hb
          simp only [hb', Bool.false_eq_true, if_false]
          rw [ih rest y (some dt) ((m, some dt) :: later) hrest
            (by intro x hx; simp at hx; rcases hx with rfl | hx; exact hms m (by simp); exact hl x hx)
            (by intro _ m' e' r' h; cases h; exact ⟨rfl, hd.symm⟩)]
          simp

/-! ### the walk never produces a backward step larger than `J` -/

/-- later-first list: each entry is at most `J` after the entry before it (its successor in the file) -/
def RevOK (J : Int) : List Int → Prop := Adj (fun b a => a ≤ b + J)

theorem not_jumped {J : Int} (hJ : 0 ≤ J) {p dt : Int} (h : jumpedNF J (some p) dt = false) : dt ≤ p + J := by
  simp [jumpedNF] at h
  omega

theorem walk_revOK (J off : Int) (after : Option Int) (hJ : 0 ≤ J) :
    ∀ (fuel : Nat) (ms : List Msg) (y : Int) (prev : Option Int),
      RevOK J ((walkS J off after fuel ms y prev).filterMap id) ∧
        ∀ p, prev = some p → ∀ a, ((walkS J off after fuel ms y prev).filterMap id).head? = some a → a ≤ p + J := by
  intro fuel
  induction fuel with
  | zero =>
    intro ms y prev
    unfold walkS
    rw [filterMap_map_none]
    simp [RevOK, Adj]
  | succ fuel ih =>
    intro ms y prev
    unfold walkS
    cases hf : findParse off y ms with
    | none =>
      simp only []
      rw [filterMap_map_none]
      simp [RevOK, Adj]
    | some r =>
      obtain ⟨sk, m0, dt, rest⟩ := r
      simp only []
      by_cases hj : jumpedNF J prev dt = true
      · simp only [hj, if_true]
        exact ih ms (y - 1) prev
      · have hj' : jumpedNF J prev dt = false := by simpa using hj
        simp only [hj', Bool.false_eq_true, if_false]
        rw [List.filterMap_append, filterMap_replicate_none, List.nil_append]
        have hhead : ∀ p, prev = some p → dt ≤ p + J := by
          intro p hp; subst hp; exact not_jumped hJ hj'
        by_cases hb : beforeWindow after dt = true
        · simp only [hb, if_true, List.filterMap_cons, id]
          rw [filterMap_map_none]
          refine ⟨by simp [RevOK, Adj], ?_⟩
          intro p hp a ha
          simp at ha
          subst ha
          exact hhead p hp
        · have hb' : beforeWindow after dt = false := by simpa using hb
          simp only [hb', Bool.false_eq_true, if_false]
          obtain ⟨ih1, ih2⟩ := ih rest y (some dt)
          simp only [List.filterMap_cons, id]
          refine ⟨?_, ?_⟩
          · cases ht : (walkS J off after fuel rest y (some dt)).filterMap id with
            | nil => simp [RevOK, Adj]
            | cons a r' =>
              rw [ht] at ih1 ih2
              exact ⟨ih2 dt rfl a rfl, ih1⟩
          · intro p hp a ha
            simp at ha
            subst ha
            exact hhead p hp

/-! ### year shift of a date that is not 29 February -/

theorem valid_shift (y y' m d : Int) (h29 : ¬ (m = 2 ∧ d = 29)) (h : validDate y m d = true) :
    validDate y' m d = true := by
  rw [validDate_iff] at h ⊢
  obtain ⟨h1, h2, h3, h4⟩ := h
  refine ⟨h1, h2, h3, ?_⟩
  by_cases hm : m = 2
  · subst hm
    simp only [if_true] at h4 ⊢
    have : d ≤ 28 := by split at h4 <;> omega
    split <;> omega
  · simp only [hm, if_false] at h4 ⊢
    exact h4

/-- the same month/day one year later is 365 or 366 days later -/
theorem days_shift (y m d : Int) (hm0 : 1 ≤ m) (hm1 : m ≤ 12) :
    daysFromCivil (y + 1) m d - daysFromCivil y m d = 365 ∨
      daysFromCivil (y + 1) m d - daysFromCivil y m d = 366 := by
  rw [daysFromCivil_closed _ _ _ hm0 hm1, daysFromCivil_closed _ _ _ hm0 hm1, jan1_succ]
  unfold daysBeforeMonth
  by_cases hL : Leap y <;> by_cases hL' : Leap (y + 1) <;> by_cases h3 : 3 ≤ m <;>
    simp only [hL, hL', h3, and_true, and_false, if_true, if_false] <;>
    first
      | omega
      | (exfalso; unfold Leap at hL hL'; omega)

/-- a valid date lies inside its year -/
theorem days_in_year (y m d : Int) (h : validDate y m d = true) :
    jan1 y ≤ daysFromCivil y m d ∧ daysFromCivil y m d < jan1 (y + 1) := by
  have v := (validDate_iff _ _ _).mp h
  have o := ordinal_bounds y m d h
  rw [daysFromCivil_closed _ _ _ v.1 v.2.1, jan1_succ]
  omega

/-! ### messages with their true year -/

/-- a message together with the year it was really written in -/
structure TMsg where
  y : Int
  mo : Int
  day : Int
  sod : Int
deriving Repr, DecidableEq

def TMsg.msg (t : TMsg) : Msg := ⟨t.mo, t.day, t.sod⟩

/-- local seconds of the true date-time -/
def TMsg.loc (t : TMsg) : Int := daysFromCivil t.y t.mo t.day * 86400 + t.sod

/-- the true instant (zone `off` seconds east of UTC) -/
def TMsg.instant (off : Int) (t : TMsg) : Int := t.loc - off

/-- a real date that is not 29 February, with a time of day -/
def TMsg.Ok (t : TMsg) : Prop :=
  validDate t.y t.mo t.day = true ∧ ¬ (t.mo = 2 ∧ t.day = 29) ∧ 0 ≤ t.sod ∧ t.sod < 86400

instance (t : TMsg) : Decidable t.Ok := by unfold TMsg.Ok; exact inferInstance

/-- `a` is followed in the file by `b`: the year does not decrease, time runs backwards by at
most `J`, and the gap is less than 365 days minus `J` -/
def Step (J : Int) (a b : TMsg) : Prop :=
  a.y ≤ b.y ∧ a.loc ≤ b.loc + J ∧ b.loc - a.loc < 365 * 86400 - J

instance (J : Int) (a b : TMsg) : Decidable (Step J a b) := by unfold Step; exact inferInstance

theorem dateWith_true (off : Int) (t : TMsg) (h : t.Ok) : dateWith off t.y t.msg = some (t.instant off) := by
  unfold dateWith TMsg.msg TMsg.instant TMsg.loc
  simp [h.1]

theorem dateWith_next (off : Int) (t : TMsg) (h : t.Ok) :
    ∃ k : Int, (k = 365 ∨ k = 366) ∧ dateWith off (t.y + 1) t.msg = some (t.instant off + k * 86400) := by
  have v := (validDate_iff _ _ _).mp h.1
  have hv : validDate (t.y + 1) t.mo t.day = true := valid_shift _ _ _ _ h.2.1 h.1
  rcases days_shift t.y t.mo t.day v.1 v.2.1 with hk | hk
  · refine ⟨365, Or.inl rfl, ?_⟩
    unfold dateWith TMsg.msg TMsg.instant TMsg.loc
    simp [hv]; omega
  · refine ⟨366, Or.inr rfl, ?_⟩
    unfold dateWith TMsg.msg TMsg.instant TMsg.loc
    simp [hv]; omega

/-- two ok messages with `a.y + 2 ≤ b.y` are more than 365 days apart -/
theorem far_years (a b : TMsg) (ha : a.Ok) (hb : b.Ok) (h : a.y + 2 ≤ b.y) :
    b.loc - a.loc ≥ 365 * 86400 := by
  have ia := days_in_year _ _ _ ha.1
  have ib := days_in_year _ _ _ hb.1
  have m1 := jan1_mono (show a.y + 1 + 1 ≤ b.y by omega)
  have s1 := jan1_succ (a.y + 1)
  unfold TMsg.loc
  have := ha.2.2
  have := hb.2.2
  split at s1 <;> omega

/-- what the walk yields for true instants `ts` (later first) under a `--dt-after` bound: every
message down to and including the first one before the bound is dated, the ones before it are not -/
def stopSpec (after : Option Int) : List Int → List (Option Int)
  | [] => []
  | t :: r => some t :: (if beforeWindow after t then r.map (fun _ => none) else stopSpec after r)

theorem stopSpec_none (l : List Int) : stopSpec none l = l.map some := by
  induction l with
  | nil => rfl
  | cons t r ih => simp [stopSpec, beforeWindow, ih]

/-- The backward walk over messages (later first) whose true years satisfy `Step` dates every
message with its true year. `y`/`prev` describe the state on entry: either nothing visited
yet and `y` is the first (= last in file) message's year, or `prev` is the true instant of the
message visited before (`s`), `y` its true year, and `Step r s` holds. -/
theorem walk_true_years (J off : Int) (after : Option Int) (hJ : 0 ≤ J) :
    ∀ (rs : List TMsg) (fuel : Nat) (y : Int) (prev : Option Int),
      2 * rs.length ≤ fuel →
      (∀ t ∈ rs, t.Ok) →
      Adj (fun b a => Step J a b) rs →
      (∀ r, rs.head? = some r →
        (prev = none ∧ y = r.y) ∨ (∃ s : TMsg, s.Ok ∧ prev = some (s.instant off) ∧ y = s.y ∧ Step J r s)) →
      walkS J off after fuel (rs.map TMsg.msg) y prev = stopSpec after (rs.map (TMsg.instant off)) := by
  intro rs
  induction rs with
  | nil =>
    intro fuel y prev _ _ _ _
    cases fuel <;> simp [walkS, findParse, stopSpec]
  | cons r rest ih =>
    intro fuel y prev hfuel hok hadj hst
    have hrok : r.Ok := hok r (by simp)
    have hrest_ok : ∀ t ∈ rest, t.Ok := fun t ht => hok t (by simp [ht])
    have hadj_rest : Adj (fun b a => Step J a b) rest := by
      cases rest with
      | nil => simp [Adj]
      | cons a r' => exact hadj.2
    -- the state handed to the rest of the walk once `r` is stored with its true year
    have hnext : ∀ r', rest.head? = some r' →
        ((some (r.instant off) : Option Int) = none ∧ r.y = r'.y) ∨
          (∃ s : TMsg, s.Ok ∧ some (r.instant off) = some (s.instant off) ∧ r.y = s.y ∧ Step J r' s) := by
      intro r' hr'
      cases rest with
      | nil => simp at hr'
      | cons a t =>
        simp at hr'; subst hr'
        exact Or.inr ⟨r, hrok, rfl, rfl, hadj.1⟩
    -- accepting `r` at year `r.y` when the state year equals `r.y`
    have accept : ∀ (f : Nat) (prev : Option Int), 2 * rest.length ≤ f →
        (∀ p, prev = some p → r.instant off ≤ p + J) →
        walkS J off after (f + 1) ((r :: rest).map TMsg.msg) r.y prev
          = stopSpec after ((r :: rest).map (TMsg.instant off)) := by
      intro f prev hf hp
      unfold walkS
      have hfp : findParse off r.y ((r :: rest).map TMsg.msg) = some ([], r.msg, r.instant off, rest.map TMsg.msg) := by
        simp [findParse, dateWith_true off r hrok]
      rw [hfp]
      simp only []
      have hj : jumpedNF J prev (r.instant off) = false := by
        cases prev with
        | none => rfl
        | some p =>
          have := hp p rfl
          simp [jumpedNF]; omega
      simp only [hj, Bool.false_eq_true, if_false]
      rw [ih f r.y (some (r.instant off)) hf hrest_ok hadj_rest hnext]
      simp [stopSpec]
      rfl
    rcases hst r rfl with ⟨hp, hy⟩ | ⟨s, hsok, hp, hy, hstep⟩
    · -- nothing visited yet
      subst hp; subst hy
      obtain ⟨f, rfl⟩ : ∃ f, fuel = f + 1 := by
        cases fuel with
        | zero => simp at hfuel
        | succ f => exact ⟨f, rfl⟩
      exact accept f none (by simp at hfuel; omega) (by intro p hp; cases hp)
    · subst hp; subst hy
      obtain ⟨f, rfl⟩ : ∃ f, fuel = f + 2 := by
        cases fuel with
        | zero => simp at hfuel
        | succ f =>
          cases f with
          | zero => simp only [List.length_cons] at hfuel; omega
          | succ f => exact ⟨f, rfl⟩
      have hf : 2 * rest.length ≤ f := by simp at hfuel; omega
      obtain ⟨hy1, hback, hgap⟩ := hstep
      have hle : ∀ p, some (s.instant off) = some p → r.instant off ≤ p + J := by
        intro p hp; cases hp; unfold TMsg.instant; omega
      by_cases hsame : r.y = s.y
      · rw [← hsame]
        exact accept (f + 1) (some (s.instant off)) (by omega) hle
      · -- the true year is one less: first attempt jumps, second is accepted
        have hy2 : r.y + 1 = s.y := by
          by_cases h2 : r.y + 2 ≤ s.y
          · have := far_years r s hrok hsok h2; omega
          · omega
        obtain ⟨k, hk, hdw⟩ := dateWith_next off r hrok
        rw [hy2] at hdw
        have step1 : walkS J off after (f + 1 + 1) ((r :: rest).map TMsg.msg) s.y (some (s.instant off))
            = walkS J off after (f + 1) ((r :: rest).map TMsg.msg) (s.y - 1) (some (s.instant off)) := by
          conv => lhs; unfold walkS
          have hfp : findParse off s.y ((r :: rest).map TMsg.msg)
              = some ([], r.msg, r.instant off + k * 86400, rest.map TMsg.msg) := by
            simp [findParse, hdw]
          rw [hfp]
          simp only []
          have hj : jumpedNF J (some (s.instant off)) (r.instant off + k * 86400) = true := by
            simp [jumpedNF]; unfold TMsg.instant; omega
          simp only [hj, if_true]
        rw [step1]
        have : s.y - 1 = r.y := by omega
        rw [this]
        exact accept f (some (s.instant off)) hf hle

end S4V.Lemmas.Year
