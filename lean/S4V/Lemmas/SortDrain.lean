/-
Generic facts about the `BTreeMap` model (`insert`, `build`) and the
specification sort (`insSorted`, `stableSort`) of `S4V.Model.SortDrain`.
Nothing here depends on the generated constants.
-/
import S4V.Model.SortDrain

namespace S4V.Lemmas.SortDrain
open S4V.Model.SortDrain

/-! ### `klt` is a strict total order on keys -/

theorem klt_iff (a b : Key) :
    klt a b = true ↔
      a.1 < b.1 ∨ (a.1 = b.1 ∧ (a.2.1 < b.2.1 ∨ (a.2.1 = b.2.1 ∧ a.2.2 < b.2.2))) := by
  simp [klt]

theorem klt_false_iff (a b : Key) :
    klt a b = false ↔
      ¬ (a.1 < b.1 ∨ (a.1 = b.1 ∧ (a.2.1 < b.2.1 ∨ (a.2.1 = b.2.1 ∧ a.2.2 < b.2.2)))) := by
  rw [← klt_iff]; simp

theorem klt_irrefl (a : Key) : klt a a = false := by
  rw [klt_false_iff]; omega

theorem klt_trans {a b c : Key} (h1 : klt a b = true) (h2 : klt b c = true) : klt a c = true := by
  rw [klt_iff] at *; omega

theorem klt_asymm {a b : Key} (h : klt a b = true) : klt b a = false := by
  rw [klt_false_iff]; rw [klt_iff] at h; omega

/-- trichotomy -/
theorem klt_total {a b : Key} (h1 : klt a b = false) (h2 : a ≠ b) : klt b a = true := by
  obtain ⟨a1, a2, a3⟩ := a
  obtain ⟨b1, b2, b3⟩ := b
  rw [klt_false_iff] at h1
  rw [klt_iff]
  simp only [ne_eq, Prod.mk.injEq, not_and] at h2
  simp only at h1 ⊢
  omega

theorem klt_ne {a b : Key} (h : klt a b = true) : a ≠ b := by
  intro e; subst e; rw [klt_irrefl] at h; cases h

/-- `a < b ≤ c → a < c` -/
theorem klt_of_klt_of_not_klt {a b c : Key} (h1 : klt a b = true) (h2 : klt c b = false) :
    klt a c = true := by
  rw [klt_false_iff] at h2; rw [klt_iff] at *; omega

/-- `a ≤ b < c → a < c` -/
theorem klt_of_not_klt_of_klt {a b c : Key} (h1 : klt b a = false) (h2 : klt b c = true) :
    klt a c = true := by
  rw [klt_false_iff] at h1; rw [klt_iff] at *; omega

/-- `a ≤ b ≤ c → a ≤ c` -/
theorem not_klt_trans {a b c : Key} (h1 : klt b a = false) (h2 : klt c b = false) :
    klt c a = false := by
  rw [klt_false_iff] at *; omega

/-! ### the map model -/

/-- strictly increasing keys -/
def KSorted (m : List (Key × Nat)) : Prop := m.Pairwise (fun x y => klt x.1 y.1 = true)

instance (m : List (Key × Nat)) : Decidable (KSorted m) := by unfold KSorted; infer_instance

theorem mem_insert {m : List (Key × Nat)} {k : Key} {v : Nat} {y : Key × Nat}
    (h : y ∈ Model.SortDrain.insert m k v) : y = (k, v) ∨ y ∈ m := by
  induction m with
  | nil => simp [Model.SortDrain.insert] at h; exact Or.inl h
  | cons x r ih =>
    obtain ⟨k', v'⟩ := x
    simp only [Model.SortDrain.insert] at h
    split at h
    · simpa using h
    · split at h
      · rcases List.mem_cons.1 h with h | h
        · exact Or.inl h
        · exact Or.inr (List.mem_cons_of_mem _ h)
      · rcases List.mem_cons.1 h with h | h
        · exact Or.inr (h ▸ List.mem_cons_self)
        · rcases ih h with h | h
          · exact Or.inl h
          · exact Or.inr (List.mem_cons_of_mem _ h)

theorem insert_sorted {m : List (Key × Nat)} (k : Key) (v : Nat) (hm : KSorted m) :
    KSorted (Model.SortDrain.insert m k v) := by
  induction m with
  | nil => simp [Model.SortDrain.insert, KSorted]
  | cons x r ih =>
    obtain ⟨k', v'⟩ := x
    unfold KSorted at hm ih ⊢
    rw [List.pairwise_cons] at hm
    simp only [Model.SortDrain.insert]
    split
    · rename_i hlt
      refine List.pairwise_cons.2 ⟨?_, List.pairwise_cons.2 hm⟩
      intro y hy
      rcases List.mem_cons.1 hy with hy | hy
      · subst hy; exact hlt
      · exact klt_trans hlt (hm.1 y hy)
    · split
      · rename_i _ heq
        subst heq
        exact List.pairwise_cons.2 hm
      · rename_i hnlt hne
        refine List.pairwise_cons.2 ⟨?_, ih hm.2⟩
        intro y hy
        rcases mem_insert hy with hy | hy
        · subst hy
          exact klt_total (by simpa using hnlt) hne
        · exact hm.1 y hy

theorem foldl_insert_sorted (xs : List (Key × Nat)) (acc : List (Key × Nat)) (h : KSorted acc) :
    KSorted (xs.foldl (fun m x => Model.SortDrain.insert m x.1 x.2) acc) := by
  induction xs generalizing acc with
  | nil => exact h
  | cons x xs ih => exact ih _ (insert_sorted _ _ h)

/-- the map is always strictly key-sorted -/
theorem build_ksorted (xs : List (Key × Nat)) : KSorted (build xs) :=
  foldl_insert_sorted xs [] List.Pairwise.nil

/-! ### the specification sort -/

section spec
variable {α : Type _} {β : Type _}

theorem mem_insSorted {key : α → Key} {x y : α} {l : List α} :
    y ∈ insSorted key x l ↔ y = x ∨ y ∈ l := by
  induction l with
  | nil => simp [insSorted]
  | cons z r ih =>
    simp only [insSorted]
    split
    · simp
    · simp only [List.mem_cons, ih]
      constructor
      · rintro (h | h | h)
        · exact Or.inr (Or.inl h)
        · exact Or.inl h
        · exact Or.inr (Or.inr h)
      · rintro (h | h | h)
        · exact Or.inr (Or.inl h)
        · exact Or.inl h
        · exact Or.inr (Or.inr h)

theorem insSorted_perm (key : α → Key) (x : α) (l : List α) :
    (insSorted key x l).Perm (x :: l) := by
  induction l with
  | nil => simp [insSorted]
  | cons z r ih =>
    simp only [insSorted]
    split
    · exact List.Perm.refl _
    · exact ((List.Perm.cons z ih).trans (List.Perm.swap x z r))

theorem foldl_insSorted_perm (key : α → Key) (xs acc : List α) :
    (xs.foldl (fun acc x => insSorted key x acc) acc).Perm (acc ++ xs) := by
  induction xs generalizing acc with
  | nil => simp
  | cons x xs ih =>
    simp only [List.foldl_cons]
    refine (ih _).trans ?_
    refine ((insSorted_perm key x acc).append_right xs).trans ?_
    exact (List.perm_middle (a := x) (l₁ := acc) (l₂ := xs)).symm

/-- the specification sort outputs every element exactly once -/
theorem stableSort_perm (key : α → Key) (xs : List α) : (stableSort key xs).Perm xs := by
  simpa [stableSort] using foldl_insSorted_perm key xs []

theorem mem_stableSort {key : α → Key} {xs : List α} {x : α} :
    x ∈ stableSort key xs ↔ x ∈ xs := (stableSort_perm key xs).mem_iff

/-- non-strictly increasing keys -/
def KLe (key : α → Key) (l : List α) : Prop :=
  l.Pairwise (fun x y => klt (key y) (key x) = false)

theorem insSorted_kle {key : α → Key} (x : α) {l : List α} (h : KLe key l) :
    KLe key (insSorted key x l) := by
  induction l with
  | nil => simp [insSorted, KLe]
  | cons z r ih =>
    unfold KLe at h ih ⊢
    rw [List.pairwise_cons] at h
    simp only [insSorted]
    split
    · rename_i hlt
      refine List.pairwise_cons.2 ⟨?_, List.pairwise_cons.2 h⟩
      intro y hy
      rcases List.mem_cons.1 hy with hy | hy
      · subst hy; exact klt_asymm hlt
      · exact klt_asymm (klt_of_klt_of_not_klt hlt (h.1 y hy))
    · rename_i hnlt
      refine List.pairwise_cons.2 ⟨?_, ih h.2⟩
      intro y hy
      rcases mem_insSorted.1 hy with hy | hy
      · subst hy; simpa using hnlt
      · exact h.1 y hy

/-- the specification sort is sorted (non-strictly) by its key -/
theorem stableSort_kle (key : α → Key) (xs : List α) : KLe key (stableSort key xs) := by
  unfold stableSort
  suffices h : ∀ acc, KLe key acc → KLe key (xs.foldl (fun acc x => insSorted key x acc) acc) from
    h [] List.Pairwise.nil
  induction xs with
  | nil => intro acc h; exact h
  | cons x xs ih => intro acc h; exact ih _ (insSorted_kle x h)

/-- stability invariant: elements with equal keys keep the relation `R` they had in the input
(`R` = "comes earlier in the input"). `x` is inserted after every element whose key is equal. -/
theorem insSorted_stable {key : α → Key} {R : α → α → Prop} (x : α) {l : List α}
    (hs : KLe key l)
    (h : l.Pairwise (fun a b => key a = key b → R a b)) (hx : ∀ y ∈ l, R y x) :
    (insSorted key x l).Pairwise (fun a b => key a = key b → R a b) := by
  induction l with
  | nil => simp [insSorted]
  | cons z r ih =>
    unfold KLe at hs ih
    rw [List.pairwise_cons] at h hs
    simp only [insSorted]
    split
    · rename_i hlt
      refine List.pairwise_cons.2 ⟨?_, List.pairwise_cons.2 h⟩
      intro y hy heq
      exfalso
      rcases List.mem_cons.1 hy with hy | hy
      · subst hy; rw [heq, klt_irrefl] at hlt; cases hlt
      · have := klt_of_klt_of_not_klt hlt (hs.1 y hy)
        rw [heq, klt_irrefl] at this; cases this
    · refine List.pairwise_cons.2 ⟨?_, ih hs.2 h.2 (fun y hy => hx y (List.mem_cons_of_mem _ hy))⟩
      intro y hy heq
      rcases mem_insSorted.1 hy with hy | hy
      · subst hy; exact hx z List.mem_cons_self
      · exact h.1 y hy heq

/-- the specification sort is stable: if `R` holds between earlier and later input elements, it
holds between earlier and later output elements of equal key -/
theorem stableSort_stable (key : α → Key) {R : α → α → Prop} {xs : List α}
    (h : xs.Pairwise R) :
    (stableSort key xs).Pairwise (fun a b => key a = key b → R a b) := by
  unfold stableSort
  suffices hh : ∀ acc : List α, KLe key acc → acc.Pairwise (fun a b => key a = key b → R a b) →
      (∀ y ∈ acc, ∀ x ∈ xs, R y x) →
      (xs.foldl (fun acc x => insSorted key x acc) acc).Pairwise
        (fun a b => key a = key b → R a b) from
    hh [] List.Pairwise.nil List.Pairwise.nil (by simp)
  induction xs with
  | nil => intro acc _ h2 _; exact h2
  | cons x xs ih =>
    intro acc h1 h2 h3
    rw [List.pairwise_cons] at h
    refine ih h.2 _ (insSorted_kle x h1)
      (insSorted_stable x h1 h2 (fun y hy => h3 y hy x List.mem_cons_self)) ?_
    intro y hy x' hx'
    rcases mem_insSorted.1 hy with hy | hy
    · subst hy; exact h.1 x' hx'
    · exact h3 y hy x' (List.mem_cons_of_mem _ hx')

theorem insSorted_map (key : β → Key) (g : α → β) (x : α) (l : List α) :
    insSorted key (g x) (l.map g) = (insSorted (fun a => key (g a)) x l).map g := by
  induction l with
  | nil => simp [insSorted]
  | cons z r ih =>
    simp only [List.map_cons, insSorted]
    split
    · simp
    · simp [ih]

/-- sorting commutes with relabelling -/
theorem stableSort_map (key : β → Key) (g : α → β) (xs : List α) :
    stableSort key (xs.map g) = (stableSort (fun a => key (g a)) xs).map g := by
  unfold stableSort
  suffices h : ∀ acc : List α,
      (xs.map g).foldl (fun acc x => insSorted key x acc) (acc.map g)
        = (xs.foldl (fun acc x => insSorted (fun a => key (g a)) x acc) acc).map g from by
    simpa using h []
  induction xs with
  | nil => intro acc; rfl
  | cons x xs ih =>
    intro acc
    simp only [List.map_cons, List.foldl_cons, insSorted_map]
    exact ih _

theorem insSorted_congr {k1 k2 : α → Key} {x : α} {l : List α}
    (h : ∀ y ∈ l, klt (k1 x) (k1 y) = klt (k2 x) (k2 y)) :
    insSorted k1 x l = insSorted k2 x l := by
  induction l with
  | nil => rfl
  | cons z r ih =>
    simp only [insSorted]
    rw [h z List.mem_cons_self, ih (fun y hy => h y (List.mem_cons_of_mem _ hy))]

/-- two key functions that compare every later element against every earlier element in the same
way give the same sort -/
theorem stableSort_congr {k1 k2 : α → Key} {R : α → α → Prop} {xs : List α}
    (hR : ∀ y x, R y x → klt (k1 x) (k1 y) = klt (k2 x) (k2 y))
    (h : xs.Pairwise R) : stableSort k1 xs = stableSort k2 xs := by
  unfold stableSort
  suffices hh : ∀ acc : List α, (∀ y ∈ acc, ∀ x ∈ xs, R y x) →
      xs.foldl (fun acc x => insSorted k1 x acc) acc
        = xs.foldl (fun acc x => insSorted k2 x acc) acc from hh [] (by simp)
  induction xs with
  | nil => intro acc _; rfl
  | cons x xs ih =>
    intro acc hacc
    rw [List.pairwise_cons] at h
    simp only [List.foldl_cons]
    rw [insSorted_congr (k1 := k1) (k2 := k2)
      (fun y hy => hR y x (hacc y hy x List.mem_cons_self))]
    apply ih h.2
    intro y hy x' hx'
    rcases mem_insSorted.1 hy with hy | hy
    · subst hy; exact h.1 x' hx'
    · exact hacc y hy x' (List.mem_cons_of_mem _ hx')

end spec

/-! ### the map equals the specification sort when keys are distinct -/

theorem insert_eq_insSorted {m : List (Key × Nat)} {k : Key} {v : Nat}
    (h : k ∉ m.map (·.1)) :
    Model.SortDrain.insert m k v = insSorted (·.1) (k, v) m := by
  induction m with
  | nil => rfl
  | cons x r ih =>
    obtain ⟨k', v'⟩ := x
    simp only [List.map_cons, List.mem_cons, not_or] at h
    simp only [Model.SortDrain.insert, insSorted]
    split
    · rfl
    · rw [if_neg h.1, ih h.2]

theorem foldl_insert_eq (xs acc : List (Key × Nat)) (h : ((acc ++ xs).map (·.1)).Nodup) :
    xs.foldl (fun m x => Model.SortDrain.insert m x.1 x.2) acc
      = xs.foldl (fun acc x => insSorted (·.1) x acc) acc := by
  induction xs generalizing acc with
  | nil => rfl
  | cons x xs ih =>
    simp only [List.foldl_cons]
    have hx : x.1 ∉ acc.map (·.1) := by
      rw [List.map_append, List.nodup_append] at h
      intro hmem
      exact h.2.2 _ hmem x.1 (by simp) rfl
    rw [insert_eq_insSorted hx]
    apply ih
    have hp : (insSorted (·.1) x acc ++ xs).Perm (acc ++ x :: xs) :=
      ((insSorted_perm (·.1) x acc).append_right xs).trans
        (List.perm_middle (a := x) (l₁ := acc) (l₂ := xs)).symm
    exact ((hp.map (·.1)).nodup_iff).2 h

/-- with pairwise distinct keys nothing is replaced: the map content in key order is the
specification sort of the input -/
theorem build_eq_stableSort {xs : List (Key × Nat)} (h : (xs.map (·.1)).Nodup) :
    build xs = stableSort (·.1) xs := by
  unfold build stableSort
  exact foldl_insert_eq xs [] (by simpa using h)

/-! ### concrete instances -/

-- `insert_sorted`: inserting below, between, at an existing key (replace) and above
example :
    let m : List (Key × Nat) := [((1, 0, 0), 10), ((1, 5, 0), 11), ((2, 0, 3), 12)]
    KSorted m
    ∧ Model.SortDrain.insert m (0, 9, 9) 7 = ((0, 9, 9), 7) :: m
    ∧ Model.SortDrain.insert m (1, 5, 0) 7 = [((1, 0, 0), 10), ((1, 5, 0), 7), ((2, 0, 3), 12)]
    ∧ Model.SortDrain.insert m (2, 0, 2) 7
        = [((1, 0, 0), 10), ((1, 5, 0), 11), ((2, 0, 2), 7), ((2, 0, 3), 12)]
    ∧ KSorted (Model.SortDrain.insert m (2, 0, 2) 7)
    ∧ KSorted (Model.SortDrain.insert m (1, 5, 0) 7) := by decide

-- `insert_eq_insSorted` / `build_eq_stableSort`: a fresh key is placed the same way by both;
-- a present key is not (the hypothesis is needed)
example :
    let m : List (Key × Nat) := [((1, 0, 0), 10), ((1, 5, 0), 11), ((2, 0, 3), 12)]
    (2, 0, 2) ∉ m.map (·.1)
    ∧ Model.SortDrain.insert m (2, 0, 2) 7 = insSorted (·.1) ((2, 0, 2), 7) m
    ∧ (1, 5, 0) ∈ m.map (·.1)
    ∧ Model.SortDrain.insert m (1, 5, 0) 7 ≠ insSorted (·.1) ((1, 5, 0), 7) m := by decide

-- `stableSort_kle` / `stableSort_stable` / `stableSort_perm`: sorting by the first component
-- only, `R` = "smaller second component" (= earlier in the input here)
example :
    let key : Int × Nat → Key := fun p => (p.1, 0, 0)
    let xs : List (Int × Nat) := [(5, 0), (3, 1), (5, 2), (-1, 3), (3, 4), (5, 5)]
    xs.Pairwise (fun a b => a.2 < b.2)
    ∧ stableSort key xs = [(-1, 3), (3, 1), (3, 4), (5, 0), (5, 2), (5, 5)]
    ∧ (stableSort key xs).Pairwise (fun a b => key a = key b → a.2 < b.2) := by decide

-- `stableSort_congr`: adding the (increasing) position as a tie-breaker to the key changes nothing
example :
    let k1 : Int × Nat → Key := fun p => (p.1, Int.ofNat p.2, 0)
    let k2 : Int × Nat → Key := fun p => (p.1, 0, 0)
    let xs : List (Int × Nat) := [(5, 0), (3, 1), (5, 2), (-1, 3), (3, 4), (5, 5)]
    xs.Pairwise (fun a b => a.2 < b.2) ∧ stableSort k1 xs = stableSort k2 xs := by decide

-- `stableSort_map`
example :
    let g : Nat → Key × Nat := fun n => ((Int.ofNat (n % 3), 0, 0), n)
    stableSort (·.1) ([4, 2, 0, 3, 1].map g) = (stableSort (fun n => (g n).1) [4, 2, 0, 3, 1]).map g
    ∧ stableSort (fun n => (g n).1) [4, 2, 0, 3, 1] = [0, 3, 4, 1, 2] := by decide

end S4V.Lemmas.SortDrain
