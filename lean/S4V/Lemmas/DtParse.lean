/-
Lemmas for C04 over `S4V.Model.DtParse`: decimal digits, the numeric scanners on
fixed-width digit groups, and one step lemma per buffer piece / pattern item.
-/
import S4V.Model.DtParse

namespace S4V.Lemmas.DtParse
open S4V.Gen.TimeTables S4V.Model.Time S4V.Model.DtParse

/-! ### decimal digits -/

theorem digit_cases (k : Nat) (h : k < 10) :
    k = 0 ∨ k = 1 ∨ k = 2 ∨ k = 3 ∨ k = 4 ∨ k = 5 ∨ k = 6 ∨ k = 7 ∨ k = 8 ∨ k = 9 := by omega

theorem dchar_props (n : Nat) :
    isDigit (dchar n) = true ∧ isWs (dchar n) = false ∧ (dchar n).toNat - 48 = n % 10 ∧
      dchar n ≠ 32 ∧ dchar n ≠ 9 ∧ dchar n ≠ 10 ∧ dchar n ≠ 13 := by
  unfold dchar
  have h : n % 10 < 10 := Nat.mod_lt _ (by decide)
  generalize n % 10 = k at h
  rcases digit_cases k h with rfl | rfl | rfl | rfl | rfl | rfl | rfl | rfl | rfl | rfl <;> decide

theorem isDigit_dchar (n : Nat) : isDigit (dchar n) = true := (dchar_props n).1
theorem isWs_dchar (n : Nat) : isWs (dchar n) = false := (dchar_props n).2.1
theorem val_dchar (n : Nat) : (dchar n).toNat - 48 = n % 10 := (dchar_props n).2.2.1

/-- a byte that is not blank for `datetime_from_str_workaround_Issue660` -/
def NotBlank (b : UInt8) : Prop := b ≠ 32 ∧ b ≠ 9 ∧ b ≠ 10 ∧ b ≠ 13

theorem notBlank_dchar (n : Nat) : NotBlank (dchar n) := (dchar_props n).2.2.2

def dec2 (n : Nat) : Bytes := [dchar (n / 10), dchar n]
def dec4 (n : Nat) : Bytes := [dchar (n / 1000), dchar (n / 100), dchar (n / 10), dchar n]

def AllDigits (l : Bytes) : Prop := ∀ b ∈ l, isDigit b = true

theorem allDigits_dec2 (n : Nat) : AllDigits (dec2 n) := by
  intro b hb; simp [dec2] at hb; rcases hb with rfl | rfl <;> exact isDigit_dchar _

theorem allDigits_dec4 (n : Nat) : AllDigits (dec4 n) := by
  intro b hb; simp [dec4] at hb; rcases hb with rfl | rfl | rfl | rfl <;> exact isDigit_dchar _

theorem numVal_dec2 (n : Nat) (h : n < 100) : numVal (dec2 n) = n := by
  simp only [numVal, dec2, List.foldl]
  rw [val_dchar (n / 10), val_dchar n]
  simp only [Int.ofNat_eq_natCast]
  omega

theorem numVal_dec4 (n : Nat) (h : n < 10000) : numVal (dec4 n) = n := by
  simp only [numVal, dec4, List.foldl]
  rw [val_dchar (n / 1000), val_dchar (n / 100), val_dchar (n / 10), val_dchar n]
  simp only [Int.ofNat_eq_natCast]
  omega

theorem natDec_lt10 (n : Nat) (h : n < 10) : natDec n = [dchar n] := by simp [natDec, h]

theorem natDec_2 (n : Nat) (h1 : 10 ≤ n) (h2 : n < 100) : natDec n = dec2 n := by
  have : ¬ n < 10 := by omega
  simp [natDec, this, h2, dec2]

theorem natDec_4 (n : Nat) (h1 : 1000 ≤ n) (h2 : n < 10000) : natDec n = dec4 n := by
  have a : ¬ n < 10 := by omega
  have b : ¬ n < 100 := by omega
  have c : ¬ n < 1000 := by omega
  simp [natDec, a, b, c, h2, dec4]

theorem dec2_small (n : Nat) (h : n < 10) : dec2 n = [48, dchar n] := by
  have : n / 10 = 0 := by omega
  simp [dec2, this]; decide

/-! ### scanners on digit groups -/

theorem skipWs_digit (b : UInt8) (r : Bytes) (h : isWs b = false) : skipWs (b :: r) = b :: r := by
  simp [skipWs, h]

theorem spanDigits_exact (l rest : Bytes) (h : AllDigits l) : spanDigits l.length (l ++ rest) = (l, rest) := by
  induction l with
  | nil => simp [spanDigits]
  | cons b t ih =>
    have hb : isDigit b = true := h b (by simp)
    have ht : AllDigits t := fun x hx => h x (by simp [hx])
    simp [spanDigits, hb, ih ht]

theorem spanDigits_stop (w : Nat) (l : Bytes) (x : UInt8) (rest : Bytes) (h : AllDigits l) (hw : l.length ≤ w)
    (hx : isDigit x = false) : spanDigits w (l ++ x :: rest) = (l, x :: rest) := by
  induction l generalizing w with
  | nil =>
    cases w with
    | zero => simp [spanDigits]
    | succ w => simp [spanDigits, hx]
  | cons b t ih =>
    have hb : isDigit b = true := h b (by simp)
    have ht : AllDigits t := fun y hy => h y (by simp [hy])
    cases w with
    | zero => simp at hw
    | succ w =>
      have : t.length ≤ w := by simpa using hw
      simp [spanDigits, hb, ih w ht this]

theorem spanDigits_all (w : Nat) (l : Bytes) (h : AllDigits l) (hw : l.length ≤ w) : spanDigits w l = (l, []) := by
  induction l generalizing w with
  | nil => cases w <;> simp [spanDigits]
  | cons b t ih =>
    have hb : isDigit b = true := h b (by simp)
    have ht : AllDigits t := fun y hy => h y (by simp [hy])
    cases w with
    | zero => simp at hw
    | succ w =>
      have : t.length ≤ w := by simpa using hw
      simp [spanDigits, hb, ih w ht this]

theorem isWs_of_isDigit (b : UInt8) (h : isDigit b = true) : isWs b = false := by
  unfold isDigit at h
  simp only [Bool.and_eq_true, decide_eq_true_eq] at h
  have e32 : b ≠ 32 := by intro e; subst e; revert h; decide
  have h1 : (48 : UInt8).toNat ≤ b.toNat := UInt8.le_iff_toNat_le.mp h.1
  have h13 : ¬ b ≤ 13 := by
    intro h13
    have := UInt8.le_iff_toNat_le.mp h13
    have e1 : (48 : UInt8).toNat = 48 := rfl
    have e2 : (13 : UInt8).toNat = 13 := rfl
    omega
  simp [isWs, e32, h13]

theorem yearItem_digit (d : UInt8) (r : Bytes) (hws : isWs d = false) (h45 : d ≠ 45) (h43 : d ≠ 43) :
    yearItem (d :: r) = number 4 (d :: r) := by
  unfold yearItem
  rw [skipWs_digit d r hws]
  split <;> simp_all

/-- a numeric item of width `w` on exactly `w` digits -/
theorem numItem_exact (l rest : Bytes) (h : AllDigits l) (hne : l ≠ []) :
    numItem l.length (l ++ rest) = some (numVal l, rest) := by
  cases l with
  | nil => exact absurd rfl hne
  | cons b t =>
    have hb : isDigit b = true := h b (by simp)
    have hws : isWs b = false := isWs_of_isDigit b hb
    unfold numItem number
    rw [List.cons_append, skipWs_digit b _ hws, ← List.cons_append, spanDigits_exact (b :: t) rest h]
    simp

/-! ### running items -/

theorem runItems_append (a b : List Item) (s : Bytes) (p : Parsed) :
    runItems (a ++ b) s p =
      match runItems a s p with
      | some (p', s') => runItems b s' p'
      | none => none := by
  induction a generalizing s p with
  | nil => simp [runItems]
  | cons it its ih =>
    simp only [List.cons_append, runItems]
    cases runItem it s p with
    | none => rfl
    | some r => obtain ⟨p', s'⟩ := r; exact ih s' p'

theorem run_lit (b : UInt8) (rest : Bytes) (p : Parsed) : runItem (.lit b) (b :: rest) p = some (p, rest) := by
  simp [runItem]

theorem run_month (M : Nat) (h1 : 1 ≤ M) (h2 : M ≤ 12) (rest : Bytes) (p : Parsed) :
    runItem .month (dec2 M ++ rest) p = some ({ p with month := some (M : Int) }, rest) := by
  have := numItem_exact (dec2 M) rest (allDigits_dec2 M) (by simp [dec2])
  have hl : (dec2 M).length = 2 := rfl
  rw [hl] at this
  simp only [runItem, this, numVal_dec2 M (by omega), Option.bind_some]
  have : (1 : Int) ≤ (M : Int) ∧ (M : Int) ≤ 12 := by omega
  simp [this]

theorem run_day (D : Nat) (h1 : 1 ≤ D) (h2 : D ≤ 31) (rest : Bytes) (p : Parsed) :
    runItem .day (dec2 D ++ rest) p = some ({ p with day := some (D : Int) }, rest) := by
  have := numItem_exact (dec2 D) rest (allDigits_dec2 D) (by simp [dec2])
  have hl : (dec2 D).length = 2 := rfl
  rw [hl] at this
  simp only [runItem, this, numVal_dec2 D (by omega), Option.bind_some]
  have : (1 : Int) ≤ (D : Int) ∧ (D : Int) ≤ 31 := by omega
  simp [this]

theorem run_hour (H : Nat) (h2 : H ≤ 23) (rest : Bytes) (p : Parsed) :
    runItem .hour (dec2 H ++ rest) p = some ({ p with hour := some (H : Int) }, rest) := by
  have := numItem_exact (dec2 H) rest (allDigits_dec2 H) (by simp [dec2])
  have hl : (dec2 H).length = 2 := rfl
  rw [hl] at this
  simp only [runItem, this, numVal_dec2 H (by omega), Option.bind_some]
  have : (H : Int) ≤ 23 := by omega
  simp [this]

theorem run_minute (N : Nat) (h2 : N ≤ 59) (rest : Bytes) (p : Parsed) :
    runItem .minute (dec2 N ++ rest) p = some ({ p with minute := some (N : Int) }, rest) := by
  have := numItem_exact (dec2 N) rest (allDigits_dec2 N) (by simp [dec2])
  have hl : (dec2 N).length = 2 := rfl
  rw [hl] at this
  simp only [runItem, this, numVal_dec2 N (by omega), Option.bind_some]
  have : (N : Int) ≤ 59 := by omega
  simp [this]

theorem run_second (S : Nat) (h2 : S ≤ 60) (rest : Bytes) (p : Parsed) :
    runItem .second (dec2 S ++ rest) p = some ({ p with second := some (S : Int) }, rest) := by
  have := numItem_exact (dec2 S) rest (allDigits_dec2 S) (by simp [dec2])
  have hl : (dec2 S).length = 2 := rfl
  rw [hl] at this
  simp only [runItem, this, numVal_dec2 S (by omega), Option.bind_some]
  have : (S : Int) ≤ 60 := by omega
  simp [this]

theorem run_year4 (Y : Nat) (h : Y < 10000) (rest : Bytes) (p : Parsed) :
    runItem .year (dec4 Y ++ rest) p = some ({ p with year := some (Y : Int) }, rest) := by
  have hn := numItem_exact (dec4 Y) rest (allDigits_dec4 Y) (by simp [dec4])
  have hl : (dec4 Y).length = 4 := rfl
  rw [hl] at hn
  have hd : dec4 Y ++ rest = dchar (Y / 1000) :: ([dchar (Y / 100), dchar (Y / 10), dchar Y] ++ rest) := rfl
  have hdig := isDigit_dchar (Y / 1000)
  have h45 : dchar (Y / 1000) ≠ 45 := by intro e; rw [e] at hdig; revert hdig; decide
  have h43 : dchar (Y / 1000) ≠ 43 := by intro e; rw [e] at hdig; revert hdig; decide
  have hy := yearItem_digit (dchar (Y / 1000)) ([dchar (Y / 100), dchar (Y / 10), dchar Y] ++ rest) (isWs_dchar _) h45 h43
  unfold numItem at hn
  rw [hd, skipWs_digit _ _ (isWs_dchar _)] at hn
  simp only [runItem]
  rw [hd, hy, hn, numVal_dec4 Y h]
  rfl

theorem run_year2 (Y : Nat) (h : Y < 100) (rest : Bytes) (p : Parsed) :
    runItem .year2 (dec2 Y ++ rest) p = some ({ p with yearMod := some (Y : Int) }, rest) := by
  have := numItem_exact (dec2 Y) rest (allDigits_dec2 Y) (by simp [dec2])
  have hl : (dec2 Y).length = 2 := rfl
  rw [hl] at this
  simp only [runItem, this, numVal_dec2 Y (by omega), Option.bind_some]
  have : (0 : Int) ≤ (Y : Int) ∧ (Y : Int) ≤ 99 := by omega
  simp [this]

theorem run_nano (f rest : Bytes) (hf : AllDigits f) (hl : f.length = 9) (p : Parsed) :
    runItem .nano (f ++ rest) p = some ({ p with nano := some (numVal f) }, rest) := by
  have hne : f ≠ [] := by intro e; subst e; simp at hl
  have := numItem_exact f rest hf hne
  rw [hl] at this
  simp [runItem, this]

/-! ### the item groups a `DTFSSet` stands for -/

def yearItems : DTFS_Year → List Item
  | .Y | .fill => [.year]
  | .y => [.year2]
  | .none_ => []

def secondItems : DTFS_Second → List Item
  | .S | .fill => [.second]
  | .none_ => []

def fracItems : DTFS_Fractional → List Item
  | .f => [.lit 46, .nano]
  | .none_ => []

def tzItems (perm : Bool) : DTFS_Tz → List Item
  | .none_ => []
  | _ => [.tz perm]

/-- items of a date-time set: `[year] month day 'T' hour minute [second] ['.' nano] [zone]` -/
def dtItems (set : DTFSSet) (perm : Bool) : List Item :=
  yearItems set.year ++ ([.month, .day, .lit 84, .hour, .minute] ++
    (secondItems set.second ++ (fracItems set.fractional ++ tzItems perm set.tz)))

/-- items of an epoch set: `timestamp 'T' ['.' nano]` -/
def epochItems (set : DTFSSet) : List Item := [.timestamp, .lit 84] ++ fracItems set.fractional

/-- the enum fields and the strftime pattern of a set agree (decidable; proved for every
generated set in `S4V.Props.TimeSpec.C04_sets_consistent`) -/
def Consistent (set : DTFSSet) : Prop :=
  (set.epoch = .none_ ∧ set.year ≠ .none_ ∧ set.month ≠ .none_ ∧ set.day = .e_or_d ∧
      (set.hour = .H ∨ set.hour = .k) ∧ set.minute = .M ∧
      (parsePattern set.pattern = some (dtItems set true) ∨
        (set.tz ≠ .zp ∧ parsePattern set.pattern = some (dtItems set false))))
  ∨ (set.epoch = .s ∧ set.year = .none_ ∧ set.month = .none_ ∧ set.day = .none_ ∧ set.hour = .none_ ∧
      set.minute = .none_ ∧ set.second = .none_ ∧ set.tz = .none_ ∧
      parsePattern set.pattern = some (epochItems set))

instance (set : DTFSSet) : Decidable (Consistent set) := by unfold Consistent; exact inferInstance

/-! ### canonical pieces -/

def AllNotBlank (l : Bytes) : Prop := ∀ b ∈ l, NotBlank b

theorem allNotBlank_dec2 (n : Nat) : AllNotBlank (dec2 n) := by
  intro b hb; simp [dec2] at hb; rcases hb with rfl | rfl <;> exact notBlank_dchar _

theorem allNotBlank_dec4 (n : Nat) : AllNotBlank (dec4 n) := by
  intro b hb; simp [dec4] at hb; rcases hb with rfl | rfl | rfl | rfl <;> exact notBlank_dchar _

theorem notBlank_of_isDigit (b : UInt8) (h : isDigit b = true) : NotBlank b := by
  have hw := isWs_of_isDigit b h
  unfold isWs at hw
  refine ⟨?_, ?_, ?_, ?_⟩ <;> (intro e; subst e; revert hw; decide)

theorem allNotBlank_of_allDigits (l : Bytes) (h : AllDigits l) : AllNotBlank l :=
  fun b hb => notBlank_of_isDigit b (h b hb)

theorem mem_of_getLast? {α : Type} (l : List α) (e : α) (h : l.getLast? = some e) : e ∈ l := by
  induction l with
  | nil => simp at h
  | cons a t ih =>
    cases t with
    | nil => simp at h; simp [h]
    | cons b r =>
      rw [List.getLast?_cons_cons] at h
      exact List.mem_cons_of_mem _ (ih h)

theorem issue660_of_allNotBlank (buf : Bytes) (h : AllNotBlank buf) : issue660 buf = true := by
  unfold issue660
  cases buf with
  | nil => rfl
  | cons b t =>
    cases hl : (b :: t).getLast? with
    | none => rfl
    | some e =>
      have hb := h b (by simp)
      have he := h e (mem_of_getLast? _ _ hl)
      unfold NotBlank at hb he
      simp [hb.1, hb.2.1, hb.2.2.1, hb.2.2.2, he.1, he.2.1, he.2.2.1, he.2.2.2]

/-- year piece: 4 digits (captured, or the fill year), or 2 digits read with chrono's pivot -/
def YearPieceOK (yk : DTFS_Year) (yb : Bytes) (Y : Int) : Prop :=
  match yk with
  | .Y | .fill => ∃ n : Nat, n < 10000 ∧ yb = dec4 n ∧ Y = n
  | .y => ∃ n : Nat, n < 100 ∧ yb = dec2 n ∧ Y = n + (if n < 70 then 2000 else 1900)
  | .none_ => False

def SecPieceOK (sk : DTFS_Second) (sb : Bytes) (S : Int) : Prop :=
  match sk with
  | .S | .fill => ∃ n : Nat, n ≤ 60 ∧ sb = dec2 n ∧ S = n
  | .none_ => sb = [] ∧ S = 0

def FracPieceOK (fk : DTFS_Fractional) (fb : Bytes) (NS : Int) : Prop :=
  match fk with
  | .f => ∃ f9 : Bytes, AllDigits f9 ∧ f9.length = 9 ∧ fb = 46 :: f9 ∧ NS = numVal f9
  | .none_ => fb = [] ∧ NS = 0

/-- zone piece: for a set with a zone the piece scans to the denoted offset; for `_fill` the piece
(the fallback string) only has to scan — its value is not used, the naive date-time is placed in
the fallback zone; `_none`: no piece -/
def TzPieceOK (zk : DTFS_Tz) (perm : Bool) (zb : Bytes) (fbOff OFF : Int) : Prop :=
  match zk with
  | .none_ => zb = [] ∧ OFF = fbOff
  | .fill => (∃ o, tzScan perm zb = some (o, [])) ∧ AllNotBlank zb ∧ OFF = fbOff
  | _ => tzScan perm zb = some (OFF, []) ∧ -86400 < OFF ∧ OFF < 86400 ∧ AllNotBlank zb

/-! ### running the item groups over canonical pieces -/

theorem run_year_group (yk : DTFS_Year) (yb : Bytes) (Y : Int) (rest : Bytes) (h : YearPieceOK yk yb Y) :
    ∃ p1 : Parsed, runItems (yearItems yk) (yb ++ rest) {} = some (p1, rest) ∧ AllNotBlank yb ∧ yb ≠ [] ∧
      (p1 = { year := some Y } ∨
        ∃ n : Int, p1 = { yearMod := some n } ∧ Y = n + (if n < 70 then 2000 else 1900)) := by
  cases yk with
  | Y =>
    obtain ⟨n, hn, rfl, rfl⟩ := h
    exact ⟨_, by simp [yearItems, runItems, run_year4 n hn], allNotBlank_dec4 n, by simp [dec4], Or.inl rfl⟩
  | fill =>
    obtain ⟨n, hn, rfl, rfl⟩ := h
    exact ⟨_, by simp [yearItems, runItems, run_year4 n hn], allNotBlank_dec4 n, by simp [dec4], Or.inl rfl⟩
  | y =>
    obtain ⟨n, hn, rfl, rfl⟩ := h
    refine ⟨_, by simp [yearItems, runItems, run_year2 n hn], allNotBlank_dec2 n, by simp [dec2], Or.inr ⟨n, rfl, ?_⟩⟩
    by_cases h70 : n < 70
    · have : (n : Int) < 70 := by omega
      simp [h70, this]
    · have : ¬ (n : Int) < 70 := by omega
      simp [h70, this]
  | none_ => exact absurd h (by simp [YearPieceOK])

theorem run_core_group (M D H N : Nat) (hM : 1 ≤ M ∧ M ≤ 12) (hD : 1 ≤ D ∧ D ≤ 31) (hH : H ≤ 23) (hN : N ≤ 59)
    (rest : Bytes) (p : Parsed) :
    runItems [.month, .day, .lit 84, .hour, .minute] (dec2 M ++ (dec2 D ++ (84 :: (dec2 H ++ (dec2 N ++ rest))))) p =
      some ({ p with month := some (M : Int), day := some (D : Int), hour := some (H : Int), minute := some (N : Int) }, rest) := by
  simp only [runItems, run_month M hM.1 hM.2, run_day D hD.1 hD.2, run_lit, run_hour H hH, run_minute N hN]

theorem run_sec_group (sk : DTFS_Second) (sb : Bytes) (S : Int) (rest : Bytes) (p : Parsed) (h : SecPieceOK sk sb S) :
    AllNotBlank sb ∧
    ((runItems (secondItems sk) (sb ++ rest) p = some ({ p with second := some S }, rest) ∧ 0 ≤ S) ∨
      (runItems (secondItems sk) (sb ++ rest) p = some (p, rest) ∧ S = 0)) := by
  cases sk with
  | S =>
    obtain ⟨n, hn, rfl, rfl⟩ := h
    exact ⟨allNotBlank_dec2 n, Or.inl ⟨by simp [secondItems, runItems, run_second n hn], by omega⟩⟩
  | fill =>
    obtain ⟨n, hn, rfl, rfl⟩ := h
    exact ⟨allNotBlank_dec2 n, Or.inl ⟨by simp [secondItems, runItems, run_second n hn], by omega⟩⟩
  | none_ =>
    obtain ⟨rfl, rfl⟩ := h
    exact ⟨by intro b hb; simp at hb, Or.inr ⟨by simp [secondItems, runItems], rfl⟩⟩

theorem run_frac_group (fk : DTFS_Fractional) (fb : Bytes) (NS : Int) (rest : Bytes) (p : Parsed) (h : FracPieceOK fk fb NS) :
    AllNotBlank fb ∧
    (runItems (fracItems fk) (fb ++ rest) p = some ({ p with nano := some NS }, rest) ∨
      (runItems (fracItems fk) (fb ++ rest) p = some (p, rest) ∧ NS = 0)) := by
  cases fk with
  | f =>
    obtain ⟨f9, hd, hl, rfl, rfl⟩ := h
    refine ⟨?_, Or.inl ?_⟩
    · intro b hb
      simp at hb
      rcases hb with rfl | hb
      · unfold NotBlank; decide
      · exact notBlank_of_isDigit b (hd b hb)
    · simp [fracItems, runItems, run_lit, run_nano f9 rest hd hl]
  | none_ =>
    obtain ⟨rfl, rfl⟩ := h
    exact ⟨by intro b hb; simp at hb, Or.inr ⟨by simp [fracItems, runItems], rfl⟩⟩

theorem allNotBlank_append {a b : Bytes} (ha : AllNotBlank a) (hb : AllNotBlank b) : AllNotBlank (a ++ b) := by
  intro x hx
  rcases List.mem_append.mp hx with h | h
  · exact ha x h
  · exact hb x h

theorem allNotBlank_cons {a : UInt8} {b : Bytes} (ha : NotBlank a) (hb : AllNotBlank b) : AllNotBlank (a :: b) := by
  intro x hx
  rcases List.mem_cons.mp hx with h | h
  · subst h; exact ha
  · exact hb x h

/-- the fields no tail step (second, fraction, zone) touches -/
def Keeps (p p' : Parsed) : Prop :=
  p'.year = p.year ∧ p'.yearMod = p.yearMod ∧ p'.month = p.month ∧ p'.day = p.day ∧ p'.hour = p.hour ∧
    p'.minute = p.minute ∧ p'.ts = p.ts

theorem sec_step (sk : DTFS_Second) (sb : Bytes) (S : Int) (rest : Bytes) (p : Parsed) (h : SecPieceOK sk sb S) :
    ∃ p', runItems (secondItems sk) (sb ++ rest) p = some (p', rest) ∧ AllNotBlank sb ∧ Keeps p p' ∧
      p'.nano = p.nano ∧ p'.off = p.off ∧ (p.second = none → p'.second.getD 0 = S) := by
  cases sk with
  | S =>
    obtain ⟨n, hn, rfl, rfl⟩ := h
    exact ⟨{ p with second := some (n : Int) }, by simp [secondItems, runItems, run_second n hn], allNotBlank_dec2 n,
      ⟨rfl, rfl, rfl, rfl, rfl, rfl, rfl⟩, rfl, rfl, fun _ => rfl⟩
  | fill =>
    obtain ⟨n, hn, rfl, rfl⟩ := h
    exact ⟨{ p with second := some (n : Int) }, by simp [secondItems, runItems, run_second n hn], allNotBlank_dec2 n,
      ⟨rfl, rfl, rfl, rfl, rfl, rfl, rfl⟩, rfl, rfl, fun _ => rfl⟩
  | none_ =>
    obtain ⟨rfl, rfl⟩ := h
    exact ⟨p, by simp [secondItems, runItems], by intro b hb; simp at hb,
      ⟨rfl, rfl, rfl, rfl, rfl, rfl, rfl⟩, rfl, rfl, fun h0 => by simp [h0]⟩

theorem frac_step (fk : DTFS_Fractional) (fb : Bytes) (NS : Int) (rest : Bytes) (p : Parsed) (h : FracPieceOK fk fb NS) :
    ∃ p', runItems (fracItems fk) (fb ++ rest) p = some (p', rest) ∧ AllNotBlank fb ∧ Keeps p p' ∧
      p'.second = p.second ∧ p'.off = p.off ∧ (p.nano = none → p'.nano.getD 0 = NS) := by
  cases fk with
  | f =>
    obtain ⟨f9, hd, hl, rfl, rfl⟩ := h
    refine ⟨{ p with nano := some (numVal f9) }, by simp [fracItems, runItems, run_lit, run_nano f9 rest hd hl], ?_,
      ⟨rfl, rfl, rfl, rfl, rfl, rfl, rfl⟩, rfl, rfl, fun _ => rfl⟩
    intro b hb
    simp at hb
    rcases hb with rfl | hb
    · unfold NotBlank; decide
    · exact notBlank_of_isDigit b (hd b hb)
  | none_ =>
    obtain ⟨rfl, rfl⟩ := h
    exact ⟨p, by simp [fracItems, runItems], by intro b hb; simp at hb,
      ⟨rfl, rfl, rfl, rfl, rfl, rfl, rfl⟩, rfl, rfl, fun h0 => by simp [h0]⟩

theorem tz_step (set : DTFSSet) (perm : Bool) (zb : Bytes) (fbOff OFF : Int) (p : Parsed)
    (h : TzPieceOK set.tz perm zb fbOff OFF) :
    ∃ p', runItems (tzItems perm set.tz) zb p = some (p', []) ∧ AllNotBlank zb ∧ Keeps p p' ∧
      p'.second = p.second ∧ p'.nano = p.nano ∧
      ((hasTz set = true → p'.off = some OFF ∧ -86400 < OFF ∧ OFF < 86400) ∧ (hasTz set = false → OFF = fbOff)) := by
  unfold hasTz
  cases hz : set.tz <;> rw [hz] at h
  case none_ =>
    obtain ⟨rfl, rfl⟩ := h
    exact ⟨p, by simp [tzItems, runItems], by intro b hb; simp at hb,
      ⟨rfl, rfl, rfl, rfl, rfl, rfl, rfl⟩, rfl, rfl, by simp, by simp⟩
  case fill =>
    obtain ⟨⟨o, ho⟩, hnb, rfl⟩ := h
    exact ⟨{ p with off := some o }, by simp [tzItems, runItems, runItem, ho], hnb,
      ⟨rfl, rfl, rfl, rfl, rfl, rfl, rfl⟩, rfl, rfl, by simp, by simp⟩
  all_goals
    obtain ⟨ho, h1, h2, hnb⟩ := h
    exact ⟨{ p with off := some OFF }, by simp [tzItems, runItems, runItem, ho], hnb,
      ⟨rfl, rfl, rfl, rfl, rfl, rfl, rfl⟩, rfl, rfl, by simp [h1, h2], by simp⟩

/-- **the normalised buffer parses to the denoted instant** (date-time sets) -/
theorem parse_dt_buffer (set : DTFSSet) (perm : Bool)
    (hpat : parsePattern set.pattern = some (dtItems set perm))
    (yb sb fb zb : Bytes) (Y : Int) (M D H N : Nat) (S NS OFF fbOff : Int)
    (hy : YearPieceOK set.year yb Y) (hM : 1 ≤ M ∧ M ≤ 12) (hD : 1 ≤ D ∧ D ≤ 31) (hH : H ≤ 23) (hN : N ≤ 59)
    (hs : SecPieceOK set.second sb S) (hf : FracPieceOK set.fractional fb NS)
    (hz : TzPieceOK set.tz perm zb fbOff OFF) (hvalid : validDate Y M D = true) :
    parseBuf set.pattern (hasTz set) fbOff
        (yb ++ (dec2 M ++ (dec2 D ++ (84 :: (dec2 H ++ (dec2 N ++ (sb ++ (fb ++ zb)))))))) =
      some (instantNs Y M D H N S NS OFF) := by
  obtain ⟨p1, hr1, hnb1, hne1, hp1⟩ := run_year_group set.year yb Y
    (dec2 M ++ (dec2 D ++ (84 :: (dec2 H ++ (dec2 N ++ (sb ++ (fb ++ zb))))))) hy
  have hr2 := run_core_group M D H N hM hD hH hN (sb ++ (fb ++ zb)) p1
  have hnb3 : AllNotBlank sb := (run_sec_group set.second sb S [] {} hs).1
  -- the buffer has no blank byte
  have hnbT : NotBlank 84 := by unfold NotBlank; decide
  -- zone step, by kind
  have key : ∀ (p4 : Parsed) (hnb4 : AllNotBlank fb),
      runItems (secondItems set.second ++ (fracItems set.fractional ++ tzItems perm set.tz)) (sb ++ (fb ++ zb))
        { p1 with month := some (M : Int), day := some (D : Int), hour := some (H : Int), minute := some (N : Int) } = some (p4, []) →
      AllNotBlank zb → resolve (hasTz set) fbOff p4 = some (instantNs Y M D H N S NS OFF) →
      parseBuf set.pattern (hasTz set) fbOff
        (yb ++ (dec2 M ++ (dec2 D ++ (84 :: (dec2 H ++ (dec2 N ++ (sb ++ (fb ++ zb)))))))) =
      some (instantNs Y M D H N S NS OFF) := by
    intro p4 hnb4 hrun hnbz hres
    unfold parseBuf
    rw [hpat]
    simp only [dtItems]
    rw [runItems_append, hr1]
    simp only []
    rw [runItems_append, hr2]
    simp only []
    rw [hrun]
    simp only []
    have hall : AllNotBlank (yb ++ (dec2 M ++ (dec2 D ++ (84 :: (dec2 H ++ (dec2 N ++ (sb ++ (fb ++ zb)))))))) :=
      allNotBlank_append hnb1 (allNotBlank_append (allNotBlank_dec2 M) (allNotBlank_append (allNotBlank_dec2 D)
        (allNotBlank_cons hnbT (allNotBlank_append (allNotBlank_dec2 H) (allNotBlank_append (allNotBlank_dec2 N)
          (allNotBlank_append hnb3 (allNotBlank_append hnb4 hnbz)))))))
    rw [issue660_of_allNotBlank _ hall]
    simpa using hres
  obtain ⟨p3, hr3, hnb3', hk3, hn3, ho3, hs3⟩ := sec_step set.second sb S (fb ++ zb)
    { p1 with month := some (M : Int), day := some (D : Int), hour := some (H : Int), minute := some (N : Int) } hs
  obtain ⟨p4, hr4, hnb4, hk4, hs4, ho4, hn4⟩ := frac_step set.fractional fb NS zb p3 hf
  obtain ⟨p5, hr5, hnb5, hk5, hs5, hn5, ho5⟩ := tz_step set perm zb fbOff OFF p4 hz
  have hrun : runItems (secondItems set.second ++ (fracItems set.fractional ++ tzItems perm set.tz)) (sb ++ (fb ++ zb))
      { p1 with month := some (M : Int), day := some (D : Int), hour := some (H : Int), minute := some (N : Int) } = some (p5, []) := by
    rw [runItems_append, hr3]
    simp only []
    rw [runItems_append, hr4]
    simp only []
    exact hr5
  refine key p5 hnb4 hrun hnb5 ?_
  -- projections of the final record
  obtain ⟨a1, a2, a3, a4, a5, a6, a7⟩ := hk3
  obtain ⟨b1, b2, b3, b4, b5, b6, b7⟩ := hk4
  obtain ⟨c1, c2, c3, c4, c5, c6, c7⟩ := hk5
  have p1s : p1.second = none ∧ p1.nano = none ∧ p1.off = none ∧ p1.month = none := by
    rcases hp1 with rfl | ⟨n, rfl, _⟩ <;> exact ⟨rfl, rfl, rfl, rfl⟩
  have e_month : p5.month = some (M : Int) := by rw [c3, b3, a3]
  have e_day : p5.day = some (D : Int) := by rw [c4, b4, a4]
  have e_hour : p5.hour = some (H : Int) := by rw [c5, b5, a5]
  have e_min : p5.minute = some (N : Int) := by rw [c6, b6, a6]
  have e_year : p5.year = p1.year := by rw [c1, b1, a1]
  have e_ymod : p5.yearMod = p1.yearMod := by rw [c2, b2, a2]
  have e_sec : p5.second.getD 0 = S := by rw [hs5, hs4]; exact hs3 p1s.1
  have e_nano : p5.nano.getD 0 = NS := by rw [hn5]; exact hn4 (by rw [hn3]; exact p1s.2.1)
  unfold resolve resolveDate resolveTime
  rw [e_month, e_day, e_hour, e_min, e_year, e_ymod, e_sec, e_nano]
  rcases hp1 with rfl | ⟨n, rfl, hY⟩
  · simp only [hvalid, if_true]
    by_cases htz : hasTz set = true
    · obtain ⟨o1, o2, o3⟩ := ho5.1 htz
      simp only [htz, if_true, o1, o2, o3, and_self, instantNs, epochSeconds]
      congr 1; omega
    · have htz' : hasTz set = false := by simpa using htz
      have := ho5.2 htz'
      subst this
      simp only [htz', Bool.false_eq_true, if_false, instantNs, epochSeconds]
      congr 1; omega
  · subst hY
    simp only [hvalid, if_true]
    by_cases htz : hasTz set = true
    · obtain ⟨o1, o2, o3⟩ := ho5.1 htz
      simp only [htz, if_true, o1, o2, o3, and_self, instantNs, epochSeconds]
      congr 1; omega
    · have htz' : hasTz set = false := by simpa using htz
      have := ho5.2 htz'
      subst this
      simp only [htz', Bool.false_eq_true, if_false, instantNs, epochSeconds]
      congr 1; omega

end S4V.Lemmas.DtParse
