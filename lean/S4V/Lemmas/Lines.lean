/-
Lemmas about the Lines model (`S4V.Model.Lines`): characterisation of the
specification functions, of the block scans, and of the block walks.
Core Lean only.
-/
import S4V.Lemmas.Blocks

namespace S4V.Lemmas.Lines
open S4V.Gen.Blocks S4V.Model.Lines S4V.Lemmas.Blocks

/-! ### `nlAtOrAfter` -/

theorem nlAtOrAfter_eq_none (d : Bytes) (i : Nat) :
    nlAtOrAfter d i = none ↔ ∀ k, i ≤ k → d[k]? ≠ some NL := by
  fun_induction nlAtOrAfter d i with
  | case1 => simp
  | case2 rest =>
    simp only [reduceCtorEq, false_iff]
    intro h
    exact h 0 (Nat.le_refl _) (by simp)
  | case3 b rest hb ih =>
    rw [Option.map_eq_none_iff, ih]
    constructor
    · intro h k _
      cases k with
      | zero => simpa using hb
      | succ k => simpa using h k (Nat.zero_le _)
    · intro h k _
      simpa using h (k + 1) (Nat.zero_le _)
  | case4 b rest i ih =>
    rw [Option.map_eq_none_iff, ih]
    constructor
    · intro h k hk
      cases k with
      | zero => omega
      | succ k => simpa using h k (by omega)
    · intro h k hk
      simpa using h (k + 1) (by omega)

theorem nlAtOrAfter_eq_some (d : Bytes) (i j : Nat) :
    nlAtOrAfter d i = some j ↔
      i ≤ j ∧ d[j]? = some NL ∧ ∀ k, i ≤ k → k < j → d[k]? ≠ some NL := by
  fun_induction nlAtOrAfter d i generalizing j with
  | case1 => simp
  | case2 rest =>
    constructor
    · intro h
      have : j = 0 := by simpa using h.symm
      subst this
      simp
    · rintro ⟨_, h2, h3⟩
      cases j with
      | zero => rfl
      | succ j => exact absurd (by simp) (h3 0 (Nat.le_refl _) (Nat.succ_pos _))
  | case3 b rest hb ih =>
    rw [Option.map_eq_some_iff]
    constructor
    · rintro ⟨j', h, rfl⟩
      obtain ⟨_, h2, h3⟩ := (ih j').mp h
      refine ⟨Nat.zero_le _, by simpa using h2, ?_⟩
      intro k _ hk
      cases k with
      | zero => simpa using hb
      | succ k => simpa using h3 k (Nat.zero_le _) (by omega)
    · rintro ⟨_, h2, h3⟩
      cases j with
      | zero => exact absurd (by simpa using h2) hb
      | succ j =>
        refine ⟨j, (ih j).mpr ⟨Nat.zero_le _, by simpa using h2, ?_⟩, rfl⟩
        intro k _ hk
        simpa using h3 (k + 1) (Nat.zero_le _) (by omega)
  | case4 b rest i ih =>
    rw [Option.map_eq_some_iff]
    constructor
    · rintro ⟨j', h, rfl⟩
      obtain ⟨h1, h2, h3⟩ := (ih j').mp h
      refine ⟨by omega, by simpa using h2, ?_⟩
      intro k hk1 hk2
      cases k with
      | zero => omega
      | succ k => simpa using h3 k (by omega) (by omega)
    · rintro ⟨h1, h2, h3⟩
      cases j with
      | zero => omega
      | succ j =>
        refine ⟨j, (ih j).mpr ⟨by omega, by simpa using h2, ?_⟩, rfl⟩
        intro k hk1 hk2
        simpa using h3 (k + 1) (by omega) (by omega)

/-! ### `lineEnd` -/

/-- `E` is the offset of the last byte of the line containing offset `x` -/
def IsLineEnd (d : Bytes) (x E : Nat) : Prop :=
  x ≤ E ∧ E < d.length ∧ (d[E]? = some NL ∨ E = d.length - 1) ∧
    ∀ k, x ≤ k → k < E → d[k]? ≠ some NL

theorem isLineEnd_lineEnd (d : Bytes) (x : Nat) (hx : x < d.length) :
    IsLineEnd d x (lineEnd d x) := by
  unfold lineEnd
  split
  · rename_i i h
    obtain ⟨h1, h2, h3⟩ := (nlAtOrAfter_eq_some d x i).mp h
    have : i < d.length := by
      rcases Nat.lt_or_ge i d.length with h | h
      · exact h
      · rw [List.getElem?_eq_none h] at h2; cases h2
    exact ⟨h1, this, Or.inl h2, h3⟩
  · rename_i h
    have h' := (nlAtOrAfter_eq_none d x).mp h
    exact ⟨by omega, by omega, Or.inr rfl, fun k hk _ => h' k hk⟩

theorem IsLineEnd.unique {d : Bytes} {x E E' : Nat} (h : IsLineEnd d x E) (h' : IsLineEnd d x E') :
    E = E' := by
  obtain ⟨a1, a2, a3, a4⟩ := h
  obtain ⟨b1, b2, b3, b4⟩ := h'
  rcases Nat.lt_trichotomy E E' with hlt | heq | hgt
  · rcases a3 with a3 | a3
    · exact absurd a3 (b4 E a1 hlt)
    · omega
  · exact heq
  · rcases b3 with b3 | b3
    · exact absurd b3 (a4 E' b1 hgt)
    · omega

theorem IsLineEnd.eq {d : Bytes} {x E : Nat} (h : IsLineEnd d x E) : lineEnd d x = E :=
  (isLineEnd_lineEnd d x (by have := h.1; have := h.2.1; omega)).unique h

/-! ### `nlBefore`, `lineStart` -/

theorem rev_take_getElem? (d : Bytes) (i k : Nat) :
    ((d.take i).reverse)[k]? =
      if k < min i d.length then d[min i d.length - 1 - k]? else none := by
  split
  · rename_i h
    rw [List.getElem?_reverse (by simpa using h)]
    simp only [List.length_take, List.getElem?_take]
    rw [if_pos (by omega)]
  · rename_i h
    exact List.getElem?_eq_none (by simpa using Nat.le_of_not_lt h)

theorem nlBefore_eq_none (d : Bytes) (i : Nat) :
    nlBefore d i = none ↔ ∀ k, k < i → d[k]? ≠ some NL := by
  unfold nlBefore
  split
  · rename_i j h
    simp only [reduceCtorEq, false_iff]
    obtain ⟨_, h2, _⟩ := (nlAtOrAfter_eq_some _ _ _).mp h
    rw [rev_take_getElem?] at h2
    split at h2
    · intro hk
      exact hk _ (by omega) h2
    · cases h2
  · rename_i h
    simp only [true_iff]
    have h' := (nlAtOrAfter_eq_none _ _).mp h
    intro k hk
    rcases Nat.lt_or_ge k d.length with hkl | hkl
    · have := h' (min i d.length - 1 - k) (Nat.zero_le _)
      rw [rev_take_getElem?, if_pos (by omega)] at this
      have e : min i d.length - 1 - (min i d.length - 1 - k) = k := by omega
      rwa [e] at this
    · rw [List.getElem?_eq_none hkl]; simp

theorem nlBefore_eq_some (d : Bytes) (i j : Nat) :
    nlBefore d i = some j ↔
      j < i ∧ d[j]? = some NL ∧ ∀ k, j < k → k < i → d[k]? ≠ some NL := by
  unfold nlBefore
  split
  · rename_i j' h
    obtain ⟨_, h2, h3⟩ := (nlAtOrAfter_eq_some _ _ _).mp h
    rw [rev_take_getElem?] at h2
    split at h2
    case isFalse => cases h2
    rename_i hj'
    have key : ∀ k, min i d.length - 1 - j' < k → k < i → d[k]? ≠ some NL := by
      intro k hk1 hk2
      rcases Nat.lt_or_ge k d.length with hkl | hkl
      · have := h3 (min i d.length - 1 - k) (Nat.zero_le _) (by omega)
        rw [rev_take_getElem?, if_pos (by omega)] at this
        have e : min i d.length - 1 - (min i d.length - 1 - k) = k := by omega
        rwa [e] at this
      · rw [List.getElem?_eq_none hkl]; simp
    constructor
    · intro hj
      have hj : min i d.length - 1 - j' = j := by simpa using hj
      subst hj
      exact ⟨by omega, h2, key⟩
    · rintro ⟨g1, g2, g3⟩
      congr 1
      rcases Nat.lt_trichotomy (min i d.length - 1 - j') j with hlt | heq | hgt
      · exact absurd g2 (key j hlt g1)
      · exact heq
      · exact absurd h2 (g3 _ hgt (by omega))
  · rename_i h
    simp only [reduceCtorEq, false_iff]
    rintro ⟨g1, g2, _⟩
    have h' := (nlAtOrAfter_eq_none _ _).mp h
    have hjl : j < d.length := by
      rcases Nat.lt_or_ge j d.length with h | h
      · exact h
      · rw [List.getElem?_eq_none h] at g2; cases g2
    have := h' (min i d.length - 1 - j) (Nat.zero_le _)
    rw [rev_take_getElem?, if_pos (by omega)] at this
    have e : min i d.length - 1 - (min i d.length - 1 - j) = j := by omega
    rw [e] at this
    exact this g2

/-- `S` is the offset of the first byte of the line containing offset `x` -/
def IsLineStart (d : Bytes) (x S : Nat) : Prop :=
  S ≤ x ∧ (S = 0 ∨ d[S - 1]? = some NL) ∧ ∀ k, S ≤ k → k < x → d[k]? ≠ some NL

theorem isLineStart_lineStart (d : Bytes) (x : Nat) : IsLineStart d x (lineStart d x) := by
  unfold lineStart
  split
  · rename_i i h
    obtain ⟨h1, h2, h3⟩ := (nlBefore_eq_some d x i).mp h
    exact ⟨by omega, Or.inr (by simpa using h2), fun k hk1 hk2 => h3 k (by omega) hk2⟩
  · rename_i h
    have h' := (nlBefore_eq_none d x).mp h
    exact ⟨Nat.zero_le _, Or.inl rfl, fun k _ hk => h' k hk⟩

theorem IsLineStart.unique {d : Bytes} {x S S' : Nat} (h : IsLineStart d x S)
    (h' : IsLineStart d x S') : S = S' := by
  obtain ⟨a1, a2, a3⟩ := h
  obtain ⟨b1, b2, b3⟩ := h'
  rcases Nat.lt_trichotomy S S' with hlt | heq | hgt
  · rcases b2 with b2 | b2
    · omega
    · exact absurd b2 (a3 (S' - 1) (by omega) (by omega))
  · exact heq
  · rcases a2 with a2 | a2
    · omega
    · exact absurd a2 (b3 (S - 1) (by omega) (by omega))

theorem IsLineStart.eq {d : Bytes} {x S : Nat} (h : IsLineStart d x S) : lineStart d x = S :=
  (isLineStart_lineStart d x).unique h

/-- the start of the line is unchanged when moving `x` back over non-newline bytes -/
theorem IsLineStart.shrink {d : Bytes} {x y S : Nat} (h : IsLineStart d x S) (hy : y ≤ x)
    (hno : ∀ k, y ≤ k → k < x → d[k]? ≠ some NL) : IsLineStart d y S := by
  obtain ⟨a1, a2, a3⟩ := h
  have hS : S ≤ y := by
    rcases Nat.lt_or_ge y S with hlt | hge
    · rcases a2 with a2 | a2
      · omega
      · exact absurd a2 (hno (S - 1) (by omega) (by omega))
    · exact hge
  exact ⟨hS, a2, fun k hk1 hk2 => a3 k hk1 (by omega)⟩

/-- every offset of a line has the same line start and line end -/
theorem same_line (d : Bytes) (fo fo' : Nat) (hfo : fo < d.length)
    (h1 : lineStart d fo ≤ fo') (h2 : fo' ≤ lineEnd d fo) :
    lineStart d fo' = lineStart d fo ∧ lineEnd d fo' = lineEnd d fo := by
  obtain ⟨a1, a2, a3⟩ := isLineStart_lineStart d fo
  obtain ⟨b1, b2, b3, b4⟩ := isLineEnd_lineEnd d fo hfo
  have hno : ∀ k, lineStart d fo ≤ k → k < lineEnd d fo → d[k]? ≠ some NL := by
    intro k hk1 hk2
    rcases Nat.lt_or_ge k fo with h | h
    · exact a3 k hk1 h
    · exact b4 k h hk2
  constructor
  · exact IsLineStart.eq ⟨h1, a2, fun k hk1 hk2 => hno k hk1 (by omega)⟩
  · exact IsLineEnd.eq ⟨h2, b2, b3, fun k hk1 hk2 => hno k (by omega) hk2⟩

/-! ### block scans -/

theorem scanBwd_eq_none (blk : Bytes) (i : Nat) :
    scanBwd blk i = none ↔ ∀ k, k ≤ i → blk[k]? ≠ some NL := by
  induction i with
  | zero =>
    simp only [scanBwd]
    split
    · rename_i h
      simp only [reduceCtorEq, false_iff]
      intro hk; exact hk 0 (Nat.le_refl _) h
    · rename_i h
      simp only [true_iff]
      intro k hk
      have : k = 0 := by omega
      subst this; exact h
  | succ i ih =>
    simp only [scanBwd]
    split
    · rename_i h
      simp only [reduceCtorEq, false_iff]
      intro hk; exact hk _ (Nat.le_refl _) h
    · rename_i h
      rw [ih]
      constructor
      · intro g k hk
        rcases Nat.lt_or_ge k (i + 1) with hlt | hge
        · exact g k (by omega)
        · have : k = i + 1 := by omega
          subst this; exact h
      · intro g k hk
        exact g k (by omega)

theorem scanBwd_eq_some (blk : Bytes) (i j : Nat) :
    scanBwd blk i = some j ↔
      j ≤ i ∧ blk[j]? = some NL ∧ ∀ k, j < k → k ≤ i → blk[k]? ≠ some NL := by
  induction i with
  | zero =>
    simp only [scanBwd]
    split
    · rename_i h
      constructor
      · intro hj
        have : j = 0 := by simpa using hj.symm
        subst this
        exact ⟨Nat.le_refl _, h, fun k hk1 hk2 => by omega⟩
      · rintro ⟨g1, _, _⟩
        have : j = 0 := by omega
        subst this; rfl
    · rename_i h
      simp only [reduceCtorEq, false_iff]
      rintro ⟨g1, g2, _⟩
      have : j = 0 := by omega
      subst this; exact h g2
  | succ i ih =>
    simp only [scanBwd]
    split
    · rename_i h
      constructor
      · intro hj
        have : j = i + 1 := by simpa using hj.symm
        subst this
        exact ⟨Nat.le_refl _, h, fun k hk1 hk2 => by omega⟩
      · rintro ⟨g1, g2, g3⟩
        rcases Nat.lt_or_ge j (i + 1) with hlt | hge
        · exact absurd h (g3 (i + 1) hlt (Nat.le_refl _))
        · have : j = i + 1 := by omega
          subst this; rfl
    · rename_i h
      rw [ih]
      constructor
      · rintro ⟨g1, g2, g3⟩
        refine ⟨by omega, g2, ?_⟩
        intro k hk1 hk2
        rcases Nat.lt_or_ge k (i + 1) with hlt | hge
        · exact g3 k hk1 (by omega)
        · have : k = i + 1 := by omega
          subst this; exact h
      · rintro ⟨g1, g2, g3⟩
        have : j ≠ i + 1 := by
          intro e; subst e; exact h g2
        exact ⟨by omega, g2, fun k hk1 hk2 => g3 k hk1 (by omega)⟩

/-! ### chains of parts -/

/-- `Chain bs n a b ps`: the parts `ps` are non-empty in-bounds slices of blocks
of a file of `n` bytes that tile the file offsets `[a, b)` in order. -/
def Chain (bs n : Nat) : Nat → Nat → List Part → Prop
  | a, b, [] => a = b
  | a, b, p :: ps =>
    p.bo * bs + p.biBeg = a ∧ p.biBeg < p.biEnd ∧ p.biEnd ≤ bs ∧ p.bo * bs + p.biEnd ≤ n ∧
      Chain bs n (p.bo * bs + p.biEnd) b ps

theorem Chain.cons' {bs n a b m bo bb be : Nat} {ps : List Part} (h1 : bo * bs + bb = a)
    (h2 : bb < be) (h3 : be ≤ bs) (h4 : bo * bs + be ≤ n) (hm : bo * bs + be = m)
    (h5 : Chain bs n m b ps) : Chain bs n a b (⟨bo, bb, be⟩ :: ps) := by
  subst hm
  exact ⟨h1, h2, h3, h4, h5⟩

theorem Chain.le {bs n : Nat} : ∀ {ps : List Part} {a b : Nat}, Chain bs n a b ps → a ≤ b
  | [], a, b, h => by simp only [Chain] at h; omega
  | p :: ps, a, b, h => by
    simp only [Chain] at h
    have := Chain.le h.2.2.2.2
    omega

theorem Chain.ne_nil {bs n a b : Nat} {ps : List Part} (h : Chain bs n a b ps) (hab : a < b) :
    ps ≠ [] := by
  rintro rfl
  simp only [Chain] at h
  omega

theorem part_bytes (d : Bytes) (bs : Nat) (p : Part) (h : p.biEnd ≤ bs) :
    p.bytes d bs = (d.drop (p.bo * bs + p.biBeg)).take (p.biEnd - p.biBeg) := by
  simp only [Part.bytes, blockAt]
  apply List.ext_getElem?
  intro i
  simp only [List.getElem?_take, List.getElem?_drop]
  split
  · rw [if_pos (by omega)]
    congr 1
    omega
  · rfl

theorem take_drop_glue (d : Bytes) (a m b : Nat) (h1 : a ≤ m) (h2 : m ≤ b) :
    (d.drop a).take (m - a) ++ (d.drop m).take (b - m) = (d.drop a).take (b - a) := by
  have e : b - a = (m - a) + (b - m) := by omega
  rw [e, List.take_add, List.drop_drop]
  congr 3
  omega

theorem Chain.bytes (d : Bytes) (bs : Nat) :
    ∀ {ps : List Part} {a b : Nat}, Chain bs d.length a b ps →
      partsBytes d bs ps = (d.drop a).take (b - a)
  | [], a, b, h => by
    simp only [Chain] at h
    subst h
    simp [partsBytes]
  | p :: ps, a, b, h => by
    simp only [Chain] at h
    obtain ⟨h1, h2, h3, h4, h5⟩ := h
    have ih := Chain.bytes d bs h5
    have hle := Chain.le h5
    simp only [partsBytes, List.foldr_cons] at ih ⊢
    rw [ih, part_bytes d bs p h3, h1]
    have e : p.biEnd - p.biBeg = (p.bo * bs + p.biEnd) - a := by omega
    rw [e]
    exact take_drop_glue d a _ b (by omega) hle

theorem Chain.inBounds (d : Bytes) (bs : Nat) :
    ∀ {ps : List Part} {a b : Nat}, Chain bs d.length a b ps →
      ∀ p ∈ ps, p.biBeg < p.biEnd ∧ p.biEnd ≤ (blockAt d bs p.bo).length
  | [], _, _, _ => by simp
  | q :: ps, a, b, h => by
    simp only [Chain] at h
    obtain ⟨h1, h2, h3, h4, h5⟩ := h
    intro p hp
    rcases List.mem_cons.mp hp with rfl | hp
    · refine ⟨h2, ?_⟩
      rw [blockAt_length]
      omega
    · exact Chain.inBounds d bs h5 p hp

theorem Chain.lineFoEnd {bs n : Nat} :
    ∀ {ps : List Part} {a b : Nat}, Chain bs n a b ps → ps ≠ [] → lineFoEnd bs ps + 1 = b
  | [], _, _, _, hne => absurd rfl hne
  | [p], a, b, h, _ => by
    simp only [Chain] at h
    simp only [S4V.Model.Lines.lineFoEnd, List.getLast?_singleton, fileOffsetAtBlockOffsetIndex,
      fileOffsetAtBlockOffset]
    omega
  | p :: q :: ps, a, b, h, _ => by
    simp only [Chain] at h
    have ih := Chain.lineFoEnd (ps := q :: ps) (by simpa only [Chain] using h.2.2.2.2)
      (List.cons_ne_nil _ _)
    simp only [S4V.Model.Lines.lineFoEnd, List.getLast?_cons_cons] at ih ⊢
    exact ih

/-! ### the forward walk (part B2) -/

theorem walkFwd_gt (d : Bytes) (bs last fuel bof : Nat) (h : last < bof) :
    walkFwd d bs last fuel bof = ([], none) := by
  cases fuel with
  | zero => rfl
  | succ fuel => simp only [walkFwd]; rw [if_pos h]

/-- specification of `walkFwd` started at a block `bof ≤ last` with enough fuel -/
theorem walkFwd_spec (d : Bytes) (bs : Nat) (hbs : 1 ≤ bs) (hn : 0 < d.length) :
    ∀ fuel bof, bof ≤ blockOffsetLast d.length bs →
      blockOffsetLast d.length bs + 1 - bof ≤ fuel →
      (∀ f, (walkFwd d bs (blockOffsetLast d.length bs) fuel bof).2 = some f →
        bof * bs ≤ f ∧ d[f]? = some NL ∧ (∀ k, bof * bs ≤ k → k < f → d[k]? ≠ some NL) ∧
          Chain bs d.length (bof * bs) (f + 1)
            (walkFwd d bs (blockOffsetLast d.length bs) fuel bof).1) ∧
      ((walkFwd d bs (blockOffsetLast d.length bs) fuel bof).2 = none →
        (∀ k, bof * bs ≤ k → d[k]? ≠ some NL) ∧
          Chain bs d.length (bof * bs) d.length
            (walkFwd d bs (blockOffsetLast d.length bs) fuel bof).1) := by
  have hb := blockOffsetLast_bounds d.length bs hbs hn
  rw [Nat.add_one_mul] at hb
  generalize blockOffsetLast d.length bs = last at hb ⊢
  intro fuel
  induction fuel with
  | zero => intro bof h1 h2; omega
  | succ fuel ih =>
    intro bof h1 h2
    have hbof : bof * bs ≤ last * bs := Nat.mul_le_mul_right _ h1
    simp only [walkFwd]
    rw [if_neg (by omega)]
    have hget : ∀ k, (blockAt d bs bof)[k]? = if k < bs then d[bof * bs + k]? else none :=
      blockAt_getElem? d bs bof
    split
    · -- newline found in this block
      rename_i i hscan
      obtain ⟨_, s2, s3⟩ := (nlAtOrAfter_eq_some _ _ _).mp hscan
      rw [hget] at s2
      split at s2
      case isFalse => cases s2
      rename_i hi
      have hlen : bof * bs + i < d.length := by
        rcases Nat.lt_or_ge (bof * bs + i) d.length with h | h
        · exact h
        · rw [List.getElem?_eq_none h] at s2; cases s2
      constructor
      · intro f hf
        have hf : bof * bs + i = f := by
          simpa [fileOffsetAtBlockOffsetIndex, fileOffsetAtBlockOffset] using hf
        subst hf
        refine ⟨by omega, s2, ?_, ?_⟩
        · intro k hk1 hk2
          have := s3 (k - bof * bs) (Nat.zero_le _) (by omega)
          rw [hget, if_pos (by omega)] at this
          have e : bof * bs + (k - bof * bs) = k := by omega
          rwa [e] at this
        · simp only [Chain]
          omega
      · intro hf; cases hf
    · -- no newline in this block
      rename_i hscan
      have s := (nlAtOrAfter_eq_none _ _).mp hscan
      have hblk : ∀ k, bof * bs ≤ k → k < bof * bs + bs → d[k]? ≠ some NL := by
        intro k hk1 hk2
        have := s (k - bof * bs) (Nat.zero_le _)
        rw [hget, if_pos (by omega)] at this
        have e : bof * bs + (k - bof * bs) = k := by omega
        rwa [e] at this
      rcases Nat.lt_or_ge bof last with hlt | hge
      · -- not the last block
        have hbof1 : (bof + 1) * bs ≤ last * bs := Nat.mul_le_mul_right _ hlt
        rw [Nat.add_one_mul] at hbof1
        have hlen : (blockAt d bs bof).length = bs := by rw [blockAt_length]; omega
        obtain ⟨ih1, ih2⟩ := ih (bof + 1) (by omega) (by omega)
        rw [Nat.add_one_mul] at ih1 ih2
        constructor
        · intro f hf
          obtain ⟨g1, g2, g3, g4⟩ := ih1 f hf
          refine ⟨by omega, g2, ?_, ?_⟩
          · intro k hk1 hk2
            rcases Nat.lt_or_ge k (bof * bs + bs) with h | h
            · exact hblk k hk1 h
            · exact g3 k h hk2
          · simp only [Chain, hlen]
            exact ⟨by omega, by omega, by omega, by omega, g4⟩
        · intro hf
          obtain ⟨g1, g2⟩ := ih2 hf
          refine ⟨?_, ?_⟩
          · intro k hk1
            rcases Nat.lt_or_ge k (bof * bs + bs) with h | h
            · exact hblk k hk1 h
            · exact g1 k h
          · simp only [Chain, hlen]
            exact ⟨by omega, by omega, by omega, by omega, g2⟩
      · -- the last block
        have hbl : bof = last := by omega
        subst hbl
        have hlen : (blockAt d bs bof).length = d.length - bof * bs := by
          rw [blockAt_length]; omega
        rw [walkFwd_gt d bs bof fuel (bof + 1) (by omega)]
        constructor
        · intro f hf; cases hf
        · intro _
          refine ⟨?_, ?_⟩
          · intro k hk1
            rcases Nat.lt_or_ge k (bof * bs + bs) with h | h
            · exact hblk k hk1 h
            · rw [List.getElem?_eq_none (by omega)]; simp
          · simp only [Chain, hlen]
            omega

/-! ### the backward walk (parts A4/A5) -/

/-- specification of `walkBwd` started at block `bof`, when the line so far
starts with a part at index 0 of block `bof + 1` -/
theorem walkBwd_spec (d : Bytes) (bs : Nat) (hbs : 1 ≤ bs) (S E1 : Nat) :
    ∀ fuel bof prior e rest, bof + 1 ≤ fuel →
      IsLineStart d ((bof + 1) * bs) S →
      Chain bs d.length ((bof + 1) * bs) E1 (⟨bof + 1, 0, e⟩ :: rest) →
      Chain bs d.length S E1 (walkBwd d bs fuel bof prior (⟨bof + 1, 0, e⟩ :: rest)) := by
  intro fuel
  induction fuel with
  | zero => intro bof prior e rest h; omega
  | succ fuel ih =>
    intro bof prior e rest hfuel hS hC
    have hC' := hC
    simp only [Chain] at hC'
    obtain ⟨_, c2, c3, c4, c5⟩ := hC'
    rw [Nat.add_one_mul] at c4 hS
    obtain ⟨s1, s2, s3⟩ := hS
    have hlen : (blockAt d bs bof).length = bs := by rw [blockAt_length]; omega
    have hget : ∀ k, (blockAt d bs bof)[k]? = if k < bs then d[bof * bs + k]? else none :=
      blockAt_getElem? d bs bof
    simp only [walkBwd, hlen]
    split
    · -- newline A found in this block
      rename_i i hscan
      obtain ⟨b1, b2, b3⟩ := (scanBwd_eq_some _ _ _).mp hscan
      rw [hget, if_pos (by omega)] at b2
      have hno : ∀ k, bof * bs + i < k → k < bof * bs + bs → d[k]? ≠ some NL := by
        intro k hk1 hk2
        have := b3 (k - bof * bs) (by omega) (by omega)
        rw [hget, if_pos (by omega)] at this
        have e : bof * bs + (k - bof * bs) = k := by omega
        rwa [e] at this
      have hSeq : S = bof * bs + i + 1 := by
        rcases Nat.lt_trichotomy S (bof * bs + i + 1) with hlt | heq | hgt
        · exact absurd b2 (s3 _ (by omega) (by omega))
        · exact heq
        · rcases s2 with s2 | s2
          · omega
          · exact absurd s2 (hno (S - 1) (by omega) (by omega))
      simp only [fileOffsetAtBlockOffsetIndex, fileOffsetAtBlockOffset, blockOffsetAtFileOffset]
      rcases Nat.lt_or_ge (i + 1) bs with hi | hi
      · have hdiv : (bof * bs + i + 1) / bs = bof := div_eq_of_bounds (by omega) (by omega)
        simp only [hdiv, ↓reduceIte]
        exact Chain.cons' (by omega) (by omega) (by omega) (by omega)
          (by rw [Nat.add_one_mul]; omega) hC
      · have hdiv : (bof * bs + i + 1) / bs = bof + 1 :=
          div_eq_of_bounds (by rw [Nat.add_one_mul]; omega) (by rw [Nat.add_one_mul]; omega)
        have hst : storesBo (⟨bof + 1, 0, e⟩ :: rest) (bof + 1) = true := by simp [storesBo]
        have hne : ¬ (bof + 1 = bof) := by omega
        simp only [hdiv, hne, hst, ↓reduceIte, Bool.not_true, Bool.false_eq_true]
        have : S = (bof + 1) * bs := by rw [Nat.add_one_mul]; omega
        rw [this]; exact hC
    · -- no newline in this block
      rename_i hscan
      have s := (scanBwd_eq_none _ _).mp hscan
      have hblk : ∀ k, bof * bs ≤ k → k < bof * bs + bs → d[k]? ≠ some NL := by
        intro k hk1 hk2
        have := s (k - bof * bs) (by omega)
        rw [hget, if_pos (by omega)] at this
        have e : bof * bs + (k - bof * bs) = k := by omega
        rwa [e] at this
      have hS' : IsLineStart d (bof * bs) S :=
        IsLineStart.shrink ⟨s1, s2, s3⟩ (by omega) hblk
      have hC2 : Chain bs d.length (bof * bs) E1 (⟨bof, 0, bs - 1 + 1⟩ :: ⟨bof + 1, 0, e⟩ :: rest) := by
        exact Chain.cons' (by omega) (by omega) (by omega) (by omega)
          (by rw [Nat.add_one_mul]; omega) hC
      cases bof with
      | zero =>
        simp only [ne_eq, not_true_eq_false, if_false]
        have : S = 0 := by have := hS'.1; omega
        rw [this]
        simpa using hC2
      | succ bof' =>
        rw [if_pos (by omega)]
        simp only [Nat.add_sub_cancel]
        exact ih bof' (bs - 1) (bs - 1 + 1) _ (by omega) hS' hC2

/-! ### part B1 -/

theorem partB1_some {d : Bytes} {bs last fo i : Nat}
    (h : scanFwd (blockAt d bs (fo / bs)) (fo % bs) = some i) :
    partB1 d bs last fo = (true, fo / bs * bs + i, i) := by
  simp only [partB1, blockOffsetAtFileOffset_eq, blockIndexAtFileOffset_eq, h,
    fileOffsetAtBlockOffsetIndex_eq]

theorem partB1_none_last {d : Bytes} {bs last fo : Nat}
    (h : scanFwd (blockAt d bs (fo / bs)) (fo % bs) = none) (hl : fo / bs = last) :
    partB1 d bs last fo = (true, fo / bs * bs + ((blockAt d bs (fo / bs)).length - 1),
      (blockAt d bs (fo / bs)).length - 1) := by
  subst hl
  simp only [partB1, blockOffsetAtFileOffset_eq, blockIndexAtFileOffset_eq, h,
    fileOffsetAtBlockOffsetIndex_eq, ↓reduceIte]

theorem partB1_none_notlast {d : Bytes} {bs last fo : Nat}
    (h : scanFwd (blockAt d bs (fo / bs)) (fo % bs) = none) (hl : fo / bs ≠ last) :
    partB1 d bs last fo = (false, fo, (blockAt d bs (fo / bs)).length - 1) := by
  simp only [partB1, blockOffsetAtFileOffset_eq, blockIndexAtFileOffset_eq, h, hl, ↓reduceIte]

theorem partB1IB_some {d : Bytes} {bs last fo i : Nat}
    (h : scanFwd (blockAt d bs (fo / bs)) (fo % bs) = some i) :
    partB1IB d bs last fo = (true, fo / bs * bs + i, i) := by
  simp only [partB1IB, blockOffsetAtFileOffset_eq, blockIndexAtFileOffset_eq, h,
    fileOffsetAtBlockOffsetIndex_eq]

theorem partB1IB_none_last {d : Bytes} {bs last fo : Nat}
    (h : scanFwd (blockAt d bs (fo / bs)) (fo % bs) = none) (hl : fo / bs = last) :
    partB1IB d bs last fo = (true, fo / bs * bs + ((blockAt d bs (fo / bs)).length - 1),
      (blockAt d bs (fo / bs)).length - 1) := by
  subst hl
  simp only [partB1IB, blockOffsetAtFileOffset_eq, blockIndexAtFileOffset_eq, h,
    fileOffsetAtBlockOffsetIndex_eq, ↓reduceIte]

theorem partB1IB_none_notlast {d : Bytes} {bs last fo : Nat}
    (h : scanFwd (blockAt d bs (fo / bs)) (fo % bs) = none) (hl : fo / bs ≠ last) :
    partB1IB d bs last fo = (false, fo, fo % bs) := by
  simp only [partB1IB, blockOffsetAtFileOffset_eq, blockIndexAtFileOffset_eq, h, hl, ↓reduceIte]

/-- B1 found a newline in the block of `fo`: it is newline B -/
theorem scanM_some {d : Bytes} {bs fo i : Nat} (hbs : 1 ≤ bs)
    (h : scanFwd (blockAt d bs (fo / bs)) (fo % bs) = some i) :
    fo % bs ≤ i ∧ i < bs ∧ fo / bs * bs + i < d.length ∧ IsLineEnd d fo (fo / bs * bs + i) := by
  have hq := Nat.div_add_mod' fo bs
  have hr : fo % bs < bs := Nat.mod_lt _ (by omega)
  generalize fo / bs = q at *
  generalize fo % bs = r at *
  obtain ⟨s1, s2, s3⟩ := (nlAtOrAfter_eq_some _ _ _).mp h
  rw [blockAt_getElem?] at s2
  split at s2
  case isFalse => cases s2
  rename_i hi
  have hlen : q * bs + i < d.length := by
    rcases Nat.lt_or_ge (q * bs + i) d.length with h | h
    · exact h
    · rw [List.getElem?_eq_none h] at s2; cases s2
  refine ⟨s1, hi, hlen, by omega, hlen, Or.inl s2, ?_⟩
  intro k hk1 hk2
  have := s3 (k - q * bs) (by omega) (by omega)
  rw [blockAt_getElem?, if_pos (by omega)] at this
  have e : q * bs + (k - q * bs) = k := by omega
  rwa [e] at this

/-- B1 found no newline in the block of `fo`, from `fo` on -/
theorem scanM_none {d : Bytes} {bs fo : Nat} (hbs : 1 ≤ bs)
    (h : scanFwd (blockAt d bs (fo / bs)) (fo % bs) = none) :
    ∀ k, fo ≤ k → k < fo / bs * bs + bs → d[k]? ≠ some NL := by
  have hq := Nat.div_add_mod' fo bs
  have hr : fo % bs < bs := Nat.mod_lt _ (by omega)
  generalize fo / bs = q at *
  generalize fo % bs = r at *
  have s := (nlAtOrAfter_eq_none _ _).mp h
  intro k hk1 hk2
  have := s (k - q * bs) (by omega)
  rw [blockAt_getElem?, if_pos (by omega)] at this
  have e : q * bs + (k - q * bs) = k := by omega
  rwa [e] at this

/-! ### parts B1 + B2 -/

theorem partB_spec (d : Bytes) (bs fo : Nat) (hbs : 1 ≤ bs) (hfo : fo < d.length) :
    (partB2 d bs (blockOffsetLast d.length bs) (fo / bs)
        (partB1 d bs (blockOffsetLast d.length bs) fo).1
        (partB1 d bs (blockOffsetLast d.length bs) fo).2.1).2 = lineEnd d fo ∧
    fo % bs ≤ (partB1 d bs (blockOffsetLast d.length bs) fo).2.2 ∧
    (partB1 d bs (blockOffsetLast d.length bs) fo).2.2 + 1 ≤ bs ∧
    fo / bs * bs + (partB1 d bs (blockOffsetLast d.length bs) fo).2.2 + 1 ≤ d.length ∧
    Chain bs d.length (fo / bs * bs + (partB1 d bs (blockOffsetLast d.length bs) fo).2.2 + 1)
      (lineEnd d fo + 1)
      (partB2 d bs (blockOffsetLast d.length bs) (fo / bs)
        (partB1 d bs (blockOffsetLast d.length bs) fo).1
        (partB1 d bs (blockOffsetLast d.length bs) fo).2.1).1 := by
  have hn : 0 < d.length := by omega
  have hb := blockOffsetLast_bounds d.length bs hbs hn
  rw [Nat.add_one_mul] at hb
  have hq := Nat.div_add_mod' fo bs
  have hr : fo % bs < bs := Nat.mod_lt _ (by omega)
  have hqlast : fo / bs ≤ blockOffsetLast d.length bs := by
    rw [le_blockOffsetLast_iff _ _ _ hbs hn]; omega
  rcases hscan : scanFwd (blockAt d bs (fo / bs)) (fo % bs) with _ | i
  · have hno := scanM_none hbs hscan
    by_cases hl : fo / bs = blockOffsetLast d.length bs
    · -- end of file is newline B
      rw [partB1_none_last hscan hl]
      simp only [partB2, ↓reduceIte]
      rw [← hl] at hb
      have hlen : (blockAt d bs (fo / bs)).length = d.length - fo / bs * bs := by
        rw [blockAt_length]; omega
      rw [hlen]
      have hE : lineEnd d fo = d.length - 1 :=
        IsLineEnd.eq ⟨by omega, by omega, Or.inr rfl, fun k hk1 hk2 => hno k hk1 (by omega)⟩
      rw [hE]
      refine ⟨by omega, by omega, by omega, by omega, ?_⟩
      simp only [Chain]; omega
    · -- newline B is in a later block
      rw [partB1_none_notlast hscan hl]
      have hlt : fo / bs + 1 ≤ blockOffsetLast d.length bs := by omega
      have hmul : (fo / bs + 1) * bs ≤ blockOffsetLast d.length bs * bs :=
        Nat.mul_le_mul_right _ hlt
      rw [Nat.add_one_mul] at hmul
      have hlen : (blockAt d bs (fo / bs)).length = bs := by rw [blockAt_length]; omega
      rw [hlen]
      obtain ⟨w1, w2⟩ := walkFwd_spec d bs hbs hn
        (blockOffsetLast d.length bs + 1 - fo / bs) (fo / bs + 1) hlt (by omega)
      rw [Nat.add_one_mul] at w1 w2
      have e1 : fo / bs * bs + (bs - 1) + 1 = fo / bs * bs + bs := by omega
      rcases hw : (walkFwd d bs (blockOffsetLast d.length bs)
          (blockOffsetLast d.length bs + 1 - fo / bs) (fo / bs + 1)).2 with _ | f
      · obtain ⟨g1, g2⟩ := w2 hw
        simp only [partB2, Bool.false_eq_true, ↓reduceIte, hw, fileOffsetAtBlockOffsetIndex_eq]
        have hlenL : (blockAt d bs (blockOffsetLast d.length bs)).length
            = d.length - blockOffsetLast d.length bs * bs := by
          rw [blockAt_length]; omega
        rw [hlenL, e1]
        have hE : lineEnd d fo = d.length - 1 := by
          refine IsLineEnd.eq ⟨by omega, by omega, Or.inr rfl, ?_⟩
          intro k hk1 hk2
          rcases Nat.lt_or_ge k (fo / bs * bs + bs) with h | h
          · exact hno k hk1 h
          · exact g1 k h
        rw [hE]
        refine ⟨by omega, by omega, by omega, by omega, ?_⟩
        have e2 : d.length - 1 + 1 = d.length := by omega
        rw [e2]; exact g2
      · obtain ⟨g1, g2, g3, g4⟩ := w1 f hw
        simp only [partB2, Bool.false_eq_true, ↓reduceIte, hw]
        rw [e1]
        have hfl : f < d.length := by
          rcases Nat.lt_or_ge f d.length with h | h
          · exact h
          · rw [List.getElem?_eq_none h] at g2; cases g2
        have hE : lineEnd d fo = f := by
          refine IsLineEnd.eq ⟨by omega, hfl, Or.inl g2, ?_⟩
          intro k hk1 hk2
          rcases Nat.lt_or_ge k (fo / bs * bs + bs) with h | h
          · exact hno k hk1 h
          · exact g3 k h hk2
        rw [hE]
        exact ⟨rfl, by omega, by omega, by omega, g4⟩
  · -- newline B is in this block
    obtain ⟨s1, s2, s3, s4⟩ := scanM_some hbs hscan
    rw [partB1_some hscan]
    simp only [partB2, ↓reduceIte]
    rw [s4.eq]
    refine ⟨rfl, s1, by omega, by omega, ?_⟩
    simp only [Chain]

/-! ### part A -/

/-- the block of `fo - 1` is the block of `fo`, or `fo` is the first byte of its block -/
theorem pred_block (fo bs : Nat) (hbs : 1 ≤ bs) (h0 : fo ≠ 0) :
    ((fo - 1) / bs = fo / bs ∧ (fo - 1) % bs + 1 = fo % bs) ∨
      (fo % bs = 0 ∧ fo / bs = (fo - 1) / bs + 1 ∧ (fo - 1) % bs = bs - 1) := by
  have hq := Nat.div_add_mod' fo bs
  have hr : fo % bs < bs := Nat.mod_lt _ (by omega)
  have hq' := Nat.div_add_mod' (fo - 1) bs
  by_cases h : fo % bs = 0
  · right
    rcases hq0 : fo / bs with _ | q0
    · rw [hq0] at hq; omega
    · rw [hq0, Nat.add_one_mul] at hq
      have hd : (fo - 1) / bs = q0 := div_eq_of_bounds (by omega) (by omega)
      rw [hd] at hq' ⊢
      exact ⟨h, rfl, by omega⟩
  · left
    have hd : (fo - 1) / bs = fo / bs := div_eq_of_bounds (by omega) (by omega)
    rw [hd] at hq'
    exact ⟨hd, by omega⟩

theorem partA_spec (d : Bytes) (bs fo biMEnd : Nat) (tail : List Part) (hbs : 1 ≤ bs)
    (hfo : fo < d.length) (h1 : fo % bs ≤ biMEnd) (h2 : biMEnd + 1 ≤ bs)
    (h3 : fo / bs * bs + biMEnd + 1 ≤ d.length)
    (h4 : Chain bs d.length (fo / bs * bs + biMEnd + 1) (lineEnd d fo + 1) tail) :
    ∃ parts, partA d bs fo biMEnd tail (lineEnd d fo) = .found (lineEnd d fo + 1) parts ∧
      Chain bs d.length (lineStart d fo) (lineEnd d fo + 1) parts := by
  have hS := isLineStart_lineStart d fo
  have hE := isLineEnd_lineEnd d fo hfo
  have hSE : lineStart d fo < lineEnd d fo + 1 := by have := hS.1; have := hE.1; omega
  generalize lineStart d fo = S at *
  generalize lineEnd d fo = E at *
  have hq := Nat.div_add_mod' fo bs
  have hr : fo % bs < bs := Nat.mod_lt _ (by omega)
  have hhead : ∀ b, b ≤ fo % bs →
      Chain bs d.length (fo / bs * bs + b) (E + 1) (⟨fo / bs, b, biMEnd + 1⟩ :: tail) :=
    fun b hb => Chain.cons' rfl (by omega) h2 (by omega) (by omega) h4
  have hfin : ∀ line', Chain bs d.length S (E + 1) line' →
      ∃ parts, Res.found (lineFoEnd bs line' + 1) line' = .found (E + 1) parts ∧
        Chain bs d.length S (E + 1) parts := by
    intro line' hc
    exact ⟨line', by rw [Chain.lineFoEnd hc (hc.ne_nil hSE)], hc⟩
  simp only [partA, blockOffsetAtFileOffset_eq, blockIndexAtFileOffset_eq]
  by_cases h0 : fo = 0
  · subst h0
    have : S = 0 := by have := hS.1; omega
    subst this
    simp only [↓reduceIte, Nat.zero_div, Nat.zero_mod] at hhead ⊢
    exact ⟨_, rfl, by simpa using hhead 0 (Nat.le_refl _)⟩
  · rw [if_neg h0]
    have hget : ∀ k, (blockAt d bs (fo / bs))[k]? = if k < bs then d[fo / bs * bs + k]? else none :=
      blockAt_getElem? d bs (fo / bs)
    rcases pred_block fo bs hbs h0 with ⟨hb, hr'⟩ | ⟨hr0, hb, hr'⟩
    · -- A2a: `fo - 1` is in the same block
      rw [if_pos hb]
      generalize (fo - 1) % bs = r' at *
      rw [hb]
      generalize fo / bs = q at *
      generalize fo % bs = r at *
      rcases hsc : scanBwd (blockAt d bs q) r' with _ | i
      · -- newline A not in this block
        simp only []
        have s := (scanBwd_eq_none _ _).mp hsc
        have hno : ∀ k, q * bs ≤ k → k < fo → d[k]? ≠ some NL := by
          intro k hk1 hk2
          have := s (k - q * bs) (by omega)
          rw [hget, if_pos (by omega)] at this
          have e : q * bs + (k - q * bs) = k := by omega
          rwa [e] at this
        have hS' : IsLineStart d (q * bs) S := hS.shrink (by omega) hno
        have hC := hhead 0 (Nat.zero_le _)
        cases q with
        | zero =>
          simp only [ne_eq, not_true_eq_false, ↓reduceIte]
          have : S = 0 := by have := hS'.1; omega
          subst this
          exact hfin _ (by simpa using hC)
        | succ q0 =>
          rw [if_pos (by omega)]
          simp only [Nat.add_sub_cancel]
          exact hfin _ (walkBwd_spec d bs hbs S (E + 1) (q0 + 1) q0 r _ _ (Nat.le_refl _) hS'
            (by simpa using hC))
      · -- newline A in this block
        simp only []
        obtain ⟨b1, b2, b3⟩ := (scanBwd_eq_some _ _ _).mp hsc
        rw [hget, if_pos (by omega)] at b2
        have hSeq : S = q * bs + (i + 1) := by
          refine IsLineStart.unique hS ⟨by omega, Or.inr (by simpa using b2), ?_⟩
          intro k hk1 hk2
          have := b3 (k - q * bs) (by omega) (by omega)
          rw [hget, if_pos (by omega)] at this
          have e : q * bs + (k - q * bs) = k := by omega
          rwa [e] at this
        have hC := hhead (i + 1) (by omega)
        rw [← hSeq] at hC
        exact hfin _ hC
    · -- A2b: `fo` is the first byte of its block
      rw [if_neg (by omega)]
      generalize (fo - 1) / bs = q' at *
      rw [hb, hr0] at hhead hq ⊢
      have hC := hhead 0 (Nat.zero_le _)
      have hfoq : (q' + 1) * bs = fo := by omega
      exact hfin _ (walkBwd_spec d bs hbs S (E + 1) (q' + 1) q' 0 _ _ (Nat.le_refl _)
        (by rw [hfoq]; exact hS) (by simpa using hC))

/-! ### `findLine` -/

/-- `Chain` form of the main theorem -/
theorem findLine_chain (bs : Nat) (d : Bytes) (fo : Nat) (hbs : 1 ≤ bs) (hfo : fo < d.length) :
    ∃ parts, findLine bs d fo = .found (lineEnd d fo + 1) parts ∧
      Chain bs d.length (lineStart d fo) (lineEnd d fo + 1) parts := by
  obtain ⟨b1, b2, b3, b4, b5⟩ := partB_spec d bs fo hbs hfo
  simp only [findLine]
  rw [if_neg (by omega)]
  simp only [blockOffsetAtFileOffset_eq]
  rw [b1]
  exact partA_spec d bs fo _ _ hbs hfo b2 b3 b4 b5

theorem findLine_done (bs : Nat) (d : Bytes) (fo : Nat) (h : d.length ≤ fo) :
    findLine bs d fo = .done := by
  simp only [findLine]
  rw [if_pos (Or.inr h)]

/-- a `findLine` started at the first byte of a line returns the bytes up to and
including the line end -/
theorem findLine_at_start (bs : Nat) (d : Bytes) (fo : Nat) (hbs : 1 ≤ bs) (hfo : fo < d.length)
    (hst : fo = 0 ∨ d[fo - 1]? = some NL) :
    ∃ parts, findLine bs d fo = .found (lineEnd d fo + 1) parts ∧
      partsBytes d bs parts = (d.drop fo).take (lineEnd d fo + 1 - fo) := by
  obtain ⟨parts, h1, h2⟩ := findLine_chain bs d fo hbs hfo
  have hS : lineStart d fo = fo :=
    IsLineStart.eq ⟨Nat.le_refl _, hst, fun k hk1 hk2 => by omega⟩
  refine ⟨parts, h1, ?_⟩
  rw [h2.bytes, hS]

/-! ### `findLineInBlock` -/

/-- A2a, newline A found in the block of `fo` -/
theorem scanA_some {d : Bytes} {bs fo i : Nat} (hbs : 1 ≤ bs) (h0 : fo ≠ 0)
    (hb : (fo - 1) / bs = fo / bs)
    (hsc : scanBwd (blockAt d bs (fo / bs)) ((fo - 1) % bs) = some i) :
    i + 1 ≤ fo % bs ∧ lineStart d fo = fo / bs * bs + (i + 1) := by
  have hq := Nat.div_add_mod' fo bs
  have hr : fo % bs < bs := Nat.mod_lt _ (by omega)
  have hr' : (fo - 1) % bs + 1 = fo % bs := by
    rcases pred_block fo bs hbs h0 with ⟨_, h⟩ | ⟨_, h, _⟩
    · exact h
    · omega
  obtain ⟨b1, b2, b3⟩ := (scanBwd_eq_some _ _ _).mp hsc
  rw [blockAt_getElem?, if_pos (by omega)] at b2
  refine ⟨by omega, IsLineStart.eq ⟨by omega, Or.inr (by simpa using b2), ?_⟩⟩
  intro k hk1 hk2
  have := b3 (k - fo / bs * bs) (by omega) (by omega)
  rw [blockAt_getElem?, if_pos (by omega)] at this
  have e : fo / bs * bs + (k - fo / bs * bs) = k := by omega
  rwa [e] at this

/-- A2a, no newline A in the block of `fo` -/
theorem scanA_none {d : Bytes} {bs fo : Nat} (hbs : 1 ≤ bs) (h0 : fo ≠ 0)
    (hb : (fo - 1) / bs = fo / bs)
    (hsc : scanBwd (blockAt d bs (fo / bs)) ((fo - 1) % bs) = none) :
    ∀ k, fo / bs * bs ≤ k → k < fo → d[k]? ≠ some NL := by
  have hq := Nat.div_add_mod' fo bs
  have hr : fo % bs < bs := Nat.mod_lt _ (by omega)
  have hr' : (fo - 1) % bs + 1 = fo % bs := by
    rcases pred_block fo bs hbs h0 with ⟨_, h⟩ | ⟨_, h, _⟩
    · exact h
    · omega
  have s := (scanBwd_eq_none _ _).mp hsc
  intro k hk1 hk2
  have := s (k - fo / bs * bs) (by omega)
  rw [blockAt_getElem?, if_pos (by omega)] at this
  have e : fo / bs * bs + (k - fo / bs * bs) = k := by omega
  rwa [e] at this

theorem partB1IB_spec (d : Bytes) (bs fo : Nat) (hbs : 1 ≤ bs) (hfo : fo < d.length) :
    fo % bs ≤ (partB1IB d bs (blockOffsetLast d.length bs) fo).2.2 ∧
    ((partB1IB d bs (blockOffsetLast d.length bs) fo).1 = true →
      (partB1IB d bs (blockOffsetLast d.length bs) fo).2.1 = lineEnd d fo ∧
      (partB1IB d bs (blockOffsetLast d.length bs) fo).2.2 + 1 ≤ bs ∧
      fo / bs * bs + (partB1IB d bs (blockOffsetLast d.length bs) fo).2.2 = lineEnd d fo) ∧
    ((partB1IB d bs (blockOffsetLast d.length bs) fo).1 = false →
      (fo / bs + 1) * bs ≤ lineEnd d fo) := by
  have hn : 0 < d.length := by omega
  have hb := blockOffsetLast_bounds d.length bs hbs hn
  rw [Nat.add_one_mul] at hb
  have hq := Nat.div_add_mod' fo bs
  have hr : fo % bs < bs := Nat.mod_lt _ (by omega)
  have hqlast : fo / bs ≤ blockOffsetLast d.length bs := by
    rw [le_blockOffsetLast_iff _ _ _ hbs hn]; omega
  rcases hscan : scanFwd (blockAt d bs (fo / bs)) (fo % bs) with _ | i
  · have hno := scanM_none hbs hscan
    by_cases hl : fo / bs = blockOffsetLast d.length bs
    · rw [partB1IB_none_last hscan hl]
      rw [← hl] at hb
      have hlen : (blockAt d bs (fo / bs)).length = d.length - fo / bs * bs := by
        rw [blockAt_length]; omega
      rw [hlen]
      have hE : lineEnd d fo = d.length - 1 :=
        IsLineEnd.eq ⟨by omega, by omega, Or.inr rfl, fun k hk1 hk2 => hno k hk1 (by omega)⟩
      rw [hE]
      dsimp only
      exact ⟨by omega, ⟨fun _ => ⟨by omega, by omega, by omega⟩, fun h => Bool.noConfusion h⟩⟩
    · rw [partB1IB_none_notlast hscan hl]
      have hlt : fo / bs + 1 ≤ blockOffsetLast d.length bs := by omega
      have hmul : (fo / bs + 1) * bs ≤ blockOffsetLast d.length bs * bs :=
        Nat.mul_le_mul_right _ hlt
      dsimp only
      refine ⟨Nat.le_refl _, ⟨fun h => Bool.noConfusion h, fun _ => ?_⟩⟩
      rw [Nat.add_one_mul] at hmul ⊢
      obtain ⟨e1, e2, e3, e4⟩ := isLineEnd_lineEnd d fo hfo
      rcases Nat.lt_or_ge (lineEnd d fo) (fo / bs * bs + bs) with hlt' | hge
      · rcases e3 with e3 | e3
        · exact absurd e3 (hno _ e1 hlt')
        · omega
      · exact hge
  · obtain ⟨s1, s2, s3, s4⟩ := scanM_some hbs hscan
    rw [partB1IB_some hscan, s4.eq]
    dsimp only
    exact ⟨s1, ⟨fun _ => ⟨rfl, by omega, rfl⟩, fun h => Bool.noConfusion h⟩⟩

theorem partAIB_part {d : Bytes} {bs fo foNlB biMEnd : Nat} {foundB : Bool} {parts : List Part}
    (h : partAIB d bs fo foundB foNlB biMEnd = .part parts) : foundB = false := by
  cases foundB with
  | false => rfl
  | true =>
    exfalso
    simp only [partAIB, Bool.not_true, Bool.false_eq_true, ↓reduceIte] at h
    repeat' split at h
    all_goals cases h

theorem partAIB_found {d : Bytes} {bs fo foNlB biMEnd n : Nat} {foundB : Bool}
    {parts : List Part} (hbs : 1 ≤ bs)
    (h : partAIB d bs fo foundB foNlB biMEnd = .found n parts) :
    foundB = true ∧ n = foNlB + 1 ∧
      ∃ b, parts = [⟨fo / bs, b, biMEnd + 1⟩] ∧ b ≤ fo % bs ∧ fo / bs * bs + b = lineStart d fo := by
  cases foundB with
  | false =>
    exfalso
    simp only [partAIB, Bool.not_false, ↓reduceIte] at h
    repeat' split at h
    all_goals cases h
  | true =>
    refine ⟨rfl, ?_⟩
    simp only [partAIB, Bool.not_true, Bool.false_eq_true, ↓reduceIte,
      blockOffsetAtFileOffset_eq, blockIndexAtFileOffset_eq] at h
    by_cases h0 : fo = 0
    · subst h0
      rw [if_pos rfl] at h
      injection h with hn hp
      refine ⟨hn.symm, 0, hp.symm, Nat.zero_le _, ?_⟩
      have : lineStart d 0 = 0 := by have := (isLineStart_lineStart d 0).1; omega
      simp [this]
    · rw [if_neg h0] at h
      by_cases hb : (fo - 1) / bs = fo / bs
      · rw [if_neg (by simpa using hb)] at h
        rcases hsc : scanBwd (blockAt d bs (fo / bs)) ((fo - 1) % bs) with _ | i
        · rw [hsc] at h
          simp only [] at h
          by_cases hq0 : (fo - 1) / bs = 0
          · rw [if_pos hq0] at h
            injection h with hn hp
            refine ⟨hn.symm, 0, hp.symm, Nat.zero_le _, ?_⟩
            have hno := scanA_none hbs h0 hb hsc
            rw [← hb, hq0] at hno ⊢
            have : lineStart d fo = 0 :=
              IsLineStart.eq ⟨Nat.zero_le _, Or.inl rfl, fun k _ hk => hno k (by omega) hk⟩
            omega
          · rw [if_neg hq0] at h
            cases h
        · rw [hsc] at h
          simp only [] at h
          injection h with hn hp
          obtain ⟨g1, g2⟩ := scanA_some hbs h0 hb hsc
          exact ⟨hn.symm, i + 1, hp.symm, g1, g2.symm⟩
      · rw [if_pos (by simpa using hb)] at h
        cases h

/-- `findLineInBlock` is sound: `.found` is the true line, held in one part of
block `fo / bs`; `.part` means newline B is beyond this block -/
theorem findLineInBlock_found (bs : Nat) (d : Bytes) (fo n : Nat) (parts : List Part) (hbs : 1 ≤ bs)
    (h : findLineInBlock bs d fo = .found n parts) :
    n = lineEnd d fo + 1 ∧
      ∃ p, parts = [p] ∧ p.bo = fo / bs ∧ p.biBeg < p.biEnd ∧ p.biEnd ≤ bs ∧
        p.bo * bs + p.biBeg = lineStart d fo ∧ p.bo * bs + p.biEnd = lineEnd d fo + 1 ∧
        Chain bs d.length (lineStart d fo) (lineEnd d fo + 1) parts := by
  simp only [findLineInBlock] at h
  by_cases hfo : d.length = 0 ∨ fo ≥ d.length
  · rw [if_pos hfo] at h; cases h
  · rw [if_neg hfo] at h
    have hfo : fo < d.length := by omega
    obtain ⟨c1, c2, _⟩ := partB1IB_spec d bs fo hbs hfo
    obtain ⟨f1, f2, b, f3, f4, f5⟩ := partAIB_found (d := d) hbs h
    obtain ⟨c3, c4, c5⟩ := c2 f1
    have hE := (isLineEnd_lineEnd d fo hfo).2.1
    generalize (partB1IB d bs (blockOffsetLast d.length bs) fo).2.2 = biMEnd at *
    generalize (partB1IB d bs (blockOffsetLast d.length bs) fo).2.1 = foNlB at *
    subst f3
    refine ⟨by omega, _, rfl, rfl, ?_, ?_, ?_, ?_, ?_⟩
    · dsimp only; omega
    · dsimp only; omega
    · exact f5
    · dsimp only; omega
    · exact Chain.cons' (m := lineEnd d fo + 1) f5 (by omega) (by omega) (by omega) (by omega)
        (by simp only [Chain])

theorem findLineInBlock_part (bs : Nat) (d : Bytes) (fo : Nat) (parts : List Part) (hbs : 1 ≤ bs)
    (h : findLineInBlock bs d fo = .part parts) : (fo / bs + 1) * bs ≤ lineEnd d fo := by
  simp only [findLineInBlock] at h
  by_cases hfo : d.length = 0 ∨ fo ≥ d.length
  · rw [if_pos hfo] at h; cases h
  · rw [if_neg hfo] at h
    have hfo : fo < d.length := by omega
    exact (partB1IB_spec d bs fo hbs hfo).2.2 (partAIB_part h)

end S4V.Lemmas.Lines
