/-
Lemmas about the block arithmetic generated into `S4V.Gen.Blocks`
(translated from blockreader.rs) and about `blockAt` of the Lines model.
Core Lean only.
-/
import S4V.Gen.Blocks
import S4V.Model.Lines

namespace S4V.Lemmas.Blocks
open S4V.Gen.Blocks S4V.Model.Lines

/-! ### arithmetic -/

theorem blockOffsetAtFileOffset_eq (fo bs : Nat) : blockOffsetAtFileOffset fo bs = fo / bs := rfl

theorem fileOffsetAtBlockOffset_eq (bo bs : Nat) : fileOffsetAtBlockOffset bo bs = bo * bs := rfl

theorem fileOffsetAtBlockOffsetIndex_eq (bo bs bi : Nat) :
    fileOffsetAtBlockOffsetIndex bo bs bi = bo * bs + bi := rfl

theorem blockIndexAtFileOffset_eq (fo bs : Nat) : blockIndexAtFileOffset fo bs = fo % bs := by
  simp only [blockIndexAtFileOffset, fileOffsetAtBlockOffset, blockOffsetAtFileOffset]
  have := Nat.div_add_mod' fo bs
  omega

theorem fileOffsetAtBlockOffsetIndex_div_mod (fo bs : Nat) :
    fileOffsetAtBlockOffsetIndex (fo / bs) bs (fo % bs) = fo := by
  simp only [fileOffsetAtBlockOffsetIndex, fileOffsetAtBlockOffset]
  exact Nat.div_add_mod' fo bs

theorem countBlocks_eq (n bs : Nat) (hbs : 1 ≤ bs) : countBlocks n bs = (n + bs - 1) / bs := by
  simp only [countBlocks]
  have h1 := Nat.div_add_mod' n bs
  have h2 : n % bs < bs := Nat.mod_lt _ (by omega)
  symm
  split
  · rename_i h
    have h : n % bs > 0 := by simpa using h
    rw [Nat.div_eq_iff (by omega)]
    rw [Nat.add_mul]
    omega
  · rename_i h
    have h : n % bs = 0 := by simpa using h
    rw [Nat.div_eq_iff (by omega)]
    rw [Nat.add_mul]
    omega

theorem div_eq_of_bounds {x bs q : Nat} (lo : q * bs ≤ x) (hi : x < q * bs + bs) : x / bs = q :=
  Nat.div_eq_of_lt_le lo (by rw [Nat.add_mul]; omega)

theorem mod_eq_of_bounds {x bs q : Nat} (lo : q * bs ≤ x) (hi : x < q * bs + bs) :
    x % bs = x - q * bs := by
  have h := Nat.div_add_mod' x bs
  rw [div_eq_of_bounds lo hi] at h
  omega

theorem blockOffsetLast_eq (n bs : Nat) (hbs : 1 ≤ bs) (hn : 0 < n) :
    blockOffsetLast n bs = (n - 1) / bs := by
  simp only [blockOffsetLast]
  rw [if_neg (by omega), countBlocks_eq n bs hbs]
  have h1 := Nat.div_add_mod' (n - 1) bs
  have h2 : (n - 1) % bs < bs := Nat.mod_lt _ (by omega)
  rw [div_eq_of_bounds (q := (n - 1) / bs + 1) (by rw [Nat.add_mul]; omega)
    (by rw [Nat.add_mul]; omega)]
  exact Nat.add_sub_cancel _ _

/-- the blocks `0 .. last` start inside the file, block `last + 1` does not -/
theorem blockOffsetLast_bounds (n bs : Nat) (hbs : 1 ≤ bs) (hn : 0 < n) :
    blockOffsetLast n bs * bs < n ∧ n ≤ (blockOffsetLast n bs + 1) * bs := by
  rw [blockOffsetLast_eq n bs hbs hn]
  have h1 := Nat.div_add_mod' (n - 1) bs
  have h2 : (n - 1) % bs < bs := Nat.mod_lt _ (by omega)
  rw [Nat.add_mul]
  omega

theorem le_blockOffsetLast_iff (n bs k : Nat) (hbs : 1 ≤ bs) (hn : 0 < n) :
    k ≤ blockOffsetLast n bs ↔ k * bs < n := by
  rw [blockOffsetLast_eq n bs hbs hn, Nat.le_div_iff_mul_le (by omega)]
  omega

/-! ### `blockAt` -/

theorem blockAt_length (d : Bytes) (bs k : Nat) :
    (blockAt d bs k).length = min bs (d.length - k * bs) := by
  simp [blockAt]

theorem blockAt_getElem? (d : Bytes) (bs k j : Nat) :
    (blockAt d bs k)[j]? = if j < bs then d[k * bs + j]? else none := by
  simp only [blockAt, List.getElem?_take, List.getElem?_drop]

theorem blockAt_div_mod_getElem? (d : Bytes) (bs fo : Nat) (hbs : 1 ≤ bs) :
    (blockAt d bs (fo / bs))[fo % bs]? = d[fo]? := by
  rw [blockAt_getElem?, if_pos (Nat.mod_lt _ (by omega)), Nat.div_add_mod']

theorem blockAt_length_eq_blockSz (d : Bytes) (bs k : Nat) (hbs : 1 ≤ bs) (hd : d ≠ [])
    (hk : k ≤ blockOffsetLast d.length bs) :
    (blockAt d bs k).length
      = blockSzAtBlockOffset k (blockOffsetLast d.length bs) bs d.length := by
  have hn : 0 < d.length := List.length_pos_iff.mpr hd
  rw [blockAt_length]
  simp only [blockSzAtBlockOffset]
  rw [if_neg (by simpa using (by omega : d.length ≠ 0))]
  have hb := blockOffsetLast_bounds d.length bs hbs hn
  rw [Nat.add_mul] at hb
  by_cases hkl : k = blockOffsetLast d.length bs
  · subst hkl
    rw [if_pos (by simp)]
    simp only [ne_eq, decide_not, Bool.not_eq_eq_eq_not, Bool.not_true, decide_eq_false_iff_not,
      ite_not]
    by_cases hfull : d.length = blockOffsetLast d.length bs * bs + bs
    · have hr : d.length % bs = 0 := by
        have : d.length = (blockOffsetLast d.length bs + 1) * bs := by rw [Nat.add_mul]; omega
        rw [this]; exact Nat.mul_mod_left _ _
      rw [if_pos hr]
      omega
    · have hr := mod_eq_of_bounds (x := d.length) (bs := bs)
        (q := blockOffsetLast d.length bs) (by omega) (by omega)
      rw [if_neg (by omega), hr]
      omega
  · rw [if_neg (by simpa using hkl)]
    have hlt : k + 1 ≤ blockOffsetLast d.length bs := by omega
    have : (k + 1) * bs ≤ blockOffsetLast d.length bs * bs := Nat.mul_le_mul_right _ hlt
    rw [Nat.add_mul] at this
    omega

theorem flatMap_blockAt_take (d : Bytes) (bs m : Nat) :
    (List.range m).flatMap (blockAt d bs) = d.take (m * bs) := by
  induction m with
  | zero => simp
  | succ m ih =>
    rw [List.range_succ, List.flatMap_append, ih]
    simp only [List.flatMap_cons, List.flatMap_nil, List.append_nil, blockAt]
    rw [Nat.add_mul, Nat.one_mul, List.take_add]

/-- concatenating all blocks gives back the data -/
theorem flatMap_blockAt (d : Bytes) (bs : Nat) (hbs : 1 ≤ bs) :
    (List.range (countBlocks d.length bs)).flatMap (blockAt d bs) = d := by
  rw [flatMap_blockAt_take]
  apply List.take_of_length_le
  rcases Nat.eq_zero_or_pos d.length with h | h
  · omega
  · have hb := blockOffsetLast_bounds d.length bs hbs h
    simp only [blockOffsetLast] at hb
    rw [if_neg (by omega)] at hb
    have : 0 < countBlocks d.length bs := by
      rw [countBlocks_eq _ _ hbs]
      exact Nat.div_pos (by omega) (by omega)
    have e : countBlocks d.length bs - 1 + 1 = countBlocks d.length bs := by omega
    rw [e] at hb
    exact hb.2

/-- the last block is non-empty iff the data is -/
theorem blockAt_last_ne_nil_iff (d : Bytes) (bs : Nat) (hbs : 1 ≤ bs) :
    blockAt d bs (blockOffsetLast d.length bs) ≠ [] ↔ d ≠ [] := by
  constructor
  · intro h hd
    subst hd
    simp [blockAt] at h
  · intro hd
    have hn : 0 < d.length := List.length_pos_iff.mpr hd
    have hb := blockOffsetLast_bounds d.length bs hbs hn
    rw [← List.length_pos_iff, blockAt_length]
    omega

example : blockOffsetLast 5 2 = (5 - 1) / 2 := by decide
example : countBlocks 5 2 = (5 + 2 - 1) / 2 := by decide
example : (blockAt ([97, 98, 10, 99, 100] : Bytes) 2 (3 / 2))[3 % 2]?
    = ([97, 98, 10, 99, 100] : Bytes)[3]? := by decide
example : (List.range (countBlocks 5 2)).flatMap (blockAt ([97, 98, 10, 99, 100] : Bytes) 2)
    = [97, 98, 10, 99, 100] := by decide

/-- running example: `"ab\ncd"`, block size 2, file offset 3 -/
def ex : Bytes := [97, 98, 10, 99, 100]

example : blockIndexAtFileOffset 3 2 = 3 % 2 := blockIndexAtFileOffset_eq 3 2
example : countBlocks ex.length 2 = 3 := by decide
example : countBlocks ex.length 2 = (ex.length + 2 - 1) / 2 := countBlocks_eq ex.length 2 (by decide)
example : blockOffsetLast ex.length 2 = (ex.length - 1) / 2 :=
  blockOffsetLast_eq ex.length 2 (by decide) (by decide)
example : (blockAt ex 2 (3 / 2))[3 % 2]? = ex[3]? := blockAt_div_mod_getElem? ex 2 3 (by decide)
example : (blockAt ex 2 2).length = blockSzAtBlockOffset 2 (blockOffsetLast ex.length 2) 2 ex.length :=
  blockAt_length_eq_blockSz ex 2 2 (by decide) (by decide) (by decide)
example : (blockAt ex 2 2).length = 1 ∧ (blockAt ex 2 1).length = 2 := by decide
example : (List.range (countBlocks ex.length 2)).flatMap (blockAt ex 2) = ex :=
  flatMap_blockAt ex 2 (by decide)
example : blockAt ex 2 (blockOffsetLast ex.length 2) ≠ [] :=
  (blockAt_last_ne_nil_iff ex 2 (by decide)).mpr (by decide)

end S4V.Lemmas.Blocks
