/-
Lemmas about the member lookup loops of `S4V.Model.TarMember`: with `firstWins` both loops compute
`List.find?` of the hit predicate; the split of `archive SEP member` at the last separator.
-/
import S4V.Model.TarMember

namespace S4V.Lemmas.TarMember
open S4V.Model.Path (Bytes)
open S4V.Model.TarMember S4V.Gen.TarMember

/-! ### splitting -/

theorem splitFirst_append (sep : UInt8) (a b : Bytes) (h : sep ∉ a) :
    splitFirst sep (a ++ sep :: b) = some (a, b) := by
  induction a with
  | nil => simp [splitFirst]
  | cons x xs ih =>
    have hx : x ≠ sep := fun e => h (by simp [e])
    have hxs : sep ∉ xs := fun m => h (by simp [m])
    simp [splitFirst, hx, ih hxs]

theorem splitFirst_none (sep : UInt8) (a : Bytes) (h : sep ∉ a) : splitFirst sep a = none := by
  induction a with
  | nil => simp [splitFirst]
  | cons x xs ih =>
    have hx : x ≠ sep := fun e => h (by simp [e])
    have hxs : sep ∉ xs := fun m => h (by simp [m])
    simp [splitFirst, hx, ih hxs]

/-- `rsplit_once`: a member name without the separator comes back, whatever the archive path holds -/
theorem splitLast_append (sep : UInt8) (a b : Bytes) (h : sep ∉ b) :
    splitLast sep (a ++ sep :: b) = some (a, b) := by
  have hr : (a ++ sep :: b).reverse = b.reverse ++ sep :: a.reverse := by simp
  have h' : sep ∉ b.reverse := by simpa using h
  simp [splitLast, hr, splitFirst_append sep _ _ h']

/-- `rsplit_once` when the member name holds a separator: the archive part comes back LONGER -/
theorem splitLast_sep_in_name (sep : UInt8) (a b c : Bytes) (h : sep ∉ c) :
    splitLast sep (a ++ sep :: (b ++ sep :: c)) = some (a ++ sep :: b, c) := by
  have := splitLast_append sep (a ++ sep :: b) c h
  simpa using this

theorem sepB_eq : subpathSep = [sepB] := by decide

/-! ### the loops -/

theorem ntfLoop_first (st : LookupSite) (hfw : st.firstWins = true) (sub : Bytes) (es : Archive) :
    ntfLoop st sub es none = es.find? (hit st sub) := by
  induction es with
  | nil => simp [ntfLoop]
  | cons e es ih =>
    by_cases h : hit st sub e = true
    · simp [ntfLoop, h, hfw]
    · simp [ntfLoop, h, ih]

theorem brLoop_hit (st : LookupSite) (hfw : st.firstWins = true) (sub : Bytes) :
    ∀ (es : Archive) (i : Nat) (s : Nat × Nat) (e : Entry), es.find? (hit st sub) = some e →
      ∃ k, brLoop st sub es i s = (i + k, e.data.length) ∧ es[k]? = some e := by
  intro es
  induction es with
  | nil => intro i s e h; simp at h
  | cons a as ih =>
    intro i s e h
    by_cases ha : hit st sub a = true
    · have : a = e := by simpa [List.find?, ha] using h
      subst this
      exact ⟨0, by simp [brLoop, ha, hfw], by simp⟩
    · have h' : as.find? (hit st sub) = some e := by simpa [List.find?, ha] using h
      obtain ⟨k, hk, hg⟩ := ih (i + 1) (i, s.2) e h'
      refine ⟨k + 1, ?_, by simpa using hg⟩
      simp [brLoop, ha, hk]; omega

theorem brLoop_none (st : LookupSite) (sub : Bytes) :
    ∀ (es : Archive) (i : Nat) (s : Nat × Nat), es.find? (hit st sub) = none →
      brLoop st sub es i s = (if es = [] then s.1 else i + es.length - 1, s.2) := by
  intro es
  induction es with
  | nil => intro i s _; simp [brLoop]
  | cons a as ih =>
    intro i s h
    have ha : ¬ hit st sub a = true := by
      intro ha; simp [List.find?, ha] at h
    have h' : as.find? (hit st sub) = none := by simpa [List.find?, ha] using h
    rw [brLoop]; simp only [ha]
    rw [ih (i + 1) (i, s.2) h']
    cases as with
    | nil => simp
    | cons b bs => simp; omega

/-- `BlockReader::new` + `read_block_FileTar` with `break`: the data of the FIRST entry that hits; no hit: an empty reader
(an `Err` from `nth` only when the archive has no entry at all) -/
theorem brReadAll_brNew (st : LookupSite) (hfw : st.firstWins = true) (sub : Bytes) (ar : Archive) :
    brReadAll ar (brNew st sub ar) =
      match ar.find? (hit st sub) with
      | some e => brWant e
      | none => if ar = [] then .readErr else .empty := by
  cases h : ar.find? (hit st sub) with
  | some e =>
    obtain ⟨k, hk, hg⟩ := brLoop_hit st hfw sub ar 0 (0, 0) e h
    simp only [brNew, hk, brReadAll, Nat.zero_add, hg, brWant]
    by_cases hd : e.data = []
    · simp [hd]
    · have : e.data.length ≠ 0 := by simpa using hd
      simp [hd, this]
  | none =>
    have := brLoop_none st sub ar 0 (0, 0) h
    simp only [brNew, this, brReadAll]
    cases ar with
    | nil => simp
    | cons a as =>
      simp

/-- pairwise distinct names: `find?` by the name of a member finds that member -/
theorem find_of_nodup {α β : Type} [BEq β] [LawfulBEq β] (f : α → β) :
    ∀ (l : List α) (e : α), (l.map f).Nodup → e ∈ l → l.find? (fun x => f x == f e) = some e := by
  intro l
  induction l with
  | nil => intro e _ h; simp at h
  | cons a as ih =>
    intro e hn hm
    have hn' : f a ∉ as.map f ∧ (as.map f).Nodup := by simpa using hn
    by_cases hae : f a = f e
    · rcases List.mem_cons.mp hm with rfl | hm'
      · simp
      · exact absurd (hae ▸ List.mem_map_of_mem hm') hn'.1
    · have hne : e ≠ a := fun h => hae (h ▸ rfl)
      have hm' : e ∈ as := by
        rcases List.mem_cons.mp hm with h | h
        · exact absurd h hne
        · exact h
      have hb : (f a == f e) = false := by simpa using hae
      simp [List.find?, hb, ih e hn'.2 hm']

end S4V.Lemmas.TarMember
