/-
Lemmas for `S4V.Model.PatSel` (which datetime pattern a file is read with).
Everything that depends on a generated flag/constant unfolds it (`S4V.Gen.PatSel`, `S4V.Gen.Consts`).
-/
import S4V.Model.PatSel

namespace S4V.Lemmas.PatSel
open S4V.Model.PatSel
open S4V.Gen.PatSel
open S4V.Gen.Consts (DATETIME_STR_MIN)

/-- counts are kept in ascending index order without repetition (a `BTreeMap`) -/
def KeysAsc (cs : Counts) : Prop := cs.Pairwise (fun a b => a.1 < b.1)

/-- specification of the try order: higher count first, equal counts in ascending index -/
def Before (a b : Nat × Nat) : Prop := b.2 < a.2 ∨ (a.2 = b.2 ∧ a.1 < b.1)

theorem strictlyBefore_iff (y x : Nat × Nat) : strictlyBefore y x = true ↔ x.2 < y.2 := by
  simp [strictlyBefore, TRY_ORDER_DESC]

/-! ### the stable sort -/

theorem ins_perm (x : Nat × Nat) (l : Counts) : (ins x l).Perm (x :: l) := by
  induction l with
  | nil => simp [ins]
  | cons y ys ih =>
    unfold ins
    split
    · exact (List.Perm.cons y ih).trans (List.Perm.swap x y ys)
    · exact List.Perm.refl _

theorem sortCounts_perm (cs : Counts) : (sortCounts cs).Perm cs := by
  induction cs with
  | nil => simp [sortCounts]
  | cons x xs ih =>
    show (ins x (sortCounts xs)).Perm (x :: xs)
    exact (ins_perm x _).trans (List.Perm.cons x ih)

theorem mem_ins {x a : Nat × Nat} {l : Counts} : a ∈ ins x l ↔ a = x ∨ a ∈ l := by
  rw [(ins_perm x l).mem_iff]; simp

theorem mem_sortCounts {a : Nat × Nat} {cs : Counts} : a ∈ sortCounts cs ↔ a ∈ cs :=
  (sortCounts_perm cs).mem_iff

/-- inserting an element whose index is below every index of an already sorted list keeps it sorted -/
theorem ins_sorted (x : Nat × Nat) (l : Counts) (hl : l.Pairwise Before) (hx : ∀ a ∈ l, x.1 < a.1) :
    (ins x l).Pairwise Before := by
  induction l with
  | nil => simp [ins]
  | cons y ys ih =>
    unfold ins
    have hy := List.pairwise_cons.mp hl
    by_cases h : strictlyBefore y x = true
    · simp only [h, if_true]
      refine List.pairwise_cons.mpr ⟨?_, ih hy.2 (fun a ha => hx a (List.mem_cons_of_mem _ ha))⟩
      intro a ha
      rcases mem_ins.mp ha with rfl | ha
      · exact Or.inl ((strictlyBefore_iff _ _).mp h)
      · exact hy.1 a ha
    · simp only [h]
      have hxy : y.2 ≤ x.2 := by
        have : ¬ x.2 < y.2 := fun hh => h ((strictlyBefore_iff y x).mpr hh)
        omega
      refine List.pairwise_cons.mpr ⟨?_, hl⟩
      intro a ha
      have hlt : x.1 < a.1 := hx a ha
      rcases List.mem_cons.mp ha with rfl | ha'
      · rcases Nat.lt_or_eq_of_le hxy with h1 | h1
        · exact Or.inl h1
        · exact Or.inr ⟨h1.symm, hlt⟩
      · -- a after y in a sorted list: a ≤ y in count
        have hya : Before y a := hy.1 a ha'
        have : a.2 ≤ y.2 := by rcases hya with h1 | h1 <;> omega
        rcases Nat.lt_or_eq_of_le (Nat.le_trans this hxy) with h1 | h1
        · exact Or.inl h1
        · exact Or.inr ⟨h1.symm, hlt⟩

theorem sortCounts_sorted (cs : Counts) (h : KeysAsc cs) : (sortCounts cs).Pairwise Before := by
  induction cs with
  | nil => simp [sortCounts]
  | cons x xs ih =>
    have hx := List.pairwise_cons.mp h
    show (ins x (sortCounts xs)).Pairwise Before
    exact ins_sorted x _ (ih hx.2) (fun a ha => hx.1 a (mem_sortCounts.mp ha))

theorem before_antisymm (a b : Nat × Nat) (h1 : Before a b) (h2 : Before b a) : a = b := by
  rcases h1 with h1 | ⟨h1, h1'⟩ <;> rcases h2 with h2 | ⟨h2, h2'⟩ <;> omega

/-- the sorted list is THE list with these two properties -/
theorem sortCounts_unique (cs l : Counts) (h : KeysAsc cs) (hp : l.Perm cs) (hs : l.Pairwise Before) :
    l = sortCounts cs :=
  List.Perm.eq_of_pairwise (fun a b _ _ => before_antisymm a b) hs (sortCounts_sorted cs h)
    (hp.trans (sortCounts_perm cs).symm)

/-- a list whose counts never increase is left alone (stability) -/
theorem sortCounts_id (cs : Counts) (h : cs.Pairwise (fun a b => b.2 ≤ a.2)) : sortCounts cs = cs := by
  induction cs with
  | nil => rfl
  | cons x xs ih =>
    have hx := List.pairwise_cons.mp h
    show ins x (sortCounts xs) = x :: xs
    rw [ih hx.2]
    cases xs with
    | nil => rfl
    | cons y ys =>
      have : ¬ strictlyBefore y x = true := by
        rw [strictlyBefore_iff]; have := hx.1 y List.mem_cons_self; omega
      simp [ins, this]

/-! ### keys, `bump`, the new reader -/

def keys (cs : Counts) : List Nat := cs.map Prod.fst

theorem keysAsc_iff (cs : Counts) : KeysAsc cs ↔ (keys cs).Pairwise (· < ·) := by
  simp [KeysAsc, keys, List.pairwise_map]

theorem keys_bump (r : Nat) (cs : Counts) : keys (bump r cs) = keys cs := by
  induction cs with
  | nil => rfl
  | cons x xs ih =>
    obtain ⟨i, c⟩ := x
    unfold bump
    split
    · simp [keys]
    · simp only [keys, List.map_cons] at ih ⊢; rw [ih]

theorem keysAsc_bump (r : Nat) (cs : Counts) (h : KeysAsc cs) : KeysAsc (bump r cs) := by
  rw [keysAsc_iff] at h ⊢; rw [keys_bump]; exact h

theorem keys_fresh (n : Nat) : keys (fresh n).counts = List.range n := by
  simp [keys, fresh, List.map_map, Function.comp_def]

theorem keysAsc_fresh (n : Nat) : KeysAsc (fresh n).counts := by
  rw [keysAsc_iff, keys_fresh]; exact List.pairwise_lt_range

theorem tryOrder_perm (st : St) : (tryOrder st).Perm (keys st.counts) :=
  (sortCounts_perm st.counts).map Prod.fst

theorem mem_tryOrder {st : St} {r : Nat} : r ∈ tryOrder st ↔ r ∈ keys st.counts :=
  (tryOrder_perm st).mem_iff

theorem tryOrder_fresh (n : Nat) : tryOrder (fresh n) = List.range n := by
  unfold tryOrder
  rw [sortCounts_id]
  · exact keys_fresh n
  · simp only [fresh, List.pairwise_map]
    exact List.pairwise_lt_range.imp (fun _ => Nat.le_refl 0)

/-! ### first match -/

theorem firstMatch_none_iff (M : Matrix) (ℓ : Bytes) (rs : List Nat) :
    firstMatch M ℓ rs = none ↔ ∀ r ∈ rs, M r ℓ = none := by
  induction rs with
  | nil => simp [firstMatch]
  | cons x xs ih =>
    unfold firstMatch
    cases h : M x ℓ with
    | none => simp [ih, h]
    | some t => simp [h]

/-- over an ascending list of rows: the LOWEST row that matches wins -/
theorem firstMatch_asc (M : Matrix) (ℓ : Bytes) (rs : List Nat) (hs : rs.Pairwise (· < ·)) (r : Nat) (t : Int) :
    firstMatch M ℓ rs = some (r, t) ↔ r ∈ rs ∧ M r ℓ = some t ∧ ∀ r' ∈ rs, r' < r → M r' ℓ = none := by
  induction rs with
  | nil => simp [firstMatch]
  | cons x xs ih =>
    have hx := List.pairwise_cons.mp hs
    unfold firstMatch
    cases h : M x ℓ with
    | none =>
      simp only
      rw [ih hx.2]
      constructor
      · rintro ⟨h1, h2, h3⟩
        refine ⟨List.mem_cons_of_mem _ h1, h2, ?_⟩
        intro r' hr' hlt
        rcases List.mem_cons.mp hr' with rfl | hr'
        · exact h
        · exact h3 r' hr' hlt
      · rintro ⟨h1, h2, h3⟩
        rcases List.mem_cons.mp h1 with rfl | h1
        · rw [h] at h2; cases h2
        · exact ⟨h1, h2, fun r' hr' => h3 r' (List.mem_cons_of_mem _ hr')⟩
    | some t' =>
      simp only [Option.some.injEq, Prod.mk.injEq]
      constructor
      · rintro ⟨rfl, rfl⟩
        refine ⟨List.mem_cons_self, h, ?_⟩
        intro r' hr' hlt
        rcases List.mem_cons.mp hr' with rfl | hr'
        · omega
        · have := hx.1 r' hr'; omega
      · rintro ⟨h1, h2, h3⟩
        rcases List.mem_cons.mp h1 with rfl | h1
        · rw [h] at h2; cases h2; exact ⟨rfl, rfl⟩
        · have hlt := hx.1 r h1
          have := h3 x List.mem_cons_self hlt
          rw [h] at this; cases this

theorem firstMatch_range (M : Matrix) (ℓ : Bytes) (n r : Nat) (t : Int) :
    firstMatch M ℓ (List.range n) = some (r, t) ↔ r < n ∧ M r ℓ = some t ∧ ∀ r' < r, M r' ℓ = none := by
  rw [firstMatch_asc M ℓ _ List.pairwise_lt_range]
  simp only [List.mem_range]
  constructor
  · rintro ⟨h1, h2, h3⟩; exact ⟨h1, h2, fun r' hr' => h3 r' (by omega) hr'⟩
  · rintro ⟨h1, h2, h3⟩; exact ⟨h1, h2, fun r' _ hr' => h3 r' hr'⟩

/-- whatever the order, the winner is one of the rows tried and it does match -/
theorem firstMatch_sound (M : Matrix) (ℓ : Bytes) (rs : List Nat) (r : Nat) (t : Int)
    (h : firstMatch M ℓ rs = some (r, t)) : r ∈ rs ∧ M r ℓ = some t := by
  induction rs with
  | nil => simp [firstMatch] at h
  | cons x xs ih =>
    unfold firstMatch at h
    cases hx : M x ℓ with
    | none => rw [hx] at h; have := ih h; exact ⟨List.mem_cons_of_mem _ this.1, this.2⟩
    | some t' =>
      rw [hx] at h; simp only [Option.some.injEq, Prod.mk.injEq] at h
      obtain ⟨rfl, rfl⟩ := h; exact ⟨List.mem_cons_self, hx⟩

theorem tooShort_iff (ℓ : Bytes) : tooShort ℓ = true ↔ ℓ.length < 8 := by
  unfold tooShort
  simp only [SHORT_TEST_STRICT, DATETIME_STR_MIN, if_true]
  exact decide_eq_true_iff

/-- the first line a new reader parses -/
theorem parseLine_fresh (M : Matrix) (n : Nat) (ℓ : Bytes) :
    (parseLine M (fresh n) ℓ).1 = if tooShort ℓ then none else firstMatch M ℓ (List.range n) := by
  unfold parseLine findDt
  rw [tryOrder_fresh]
  by_cases h : tooShort ℓ = true
  · simp [h]
  · simp only [h]
    cases h2 : firstMatch M ℓ (List.range n) with
    | none => simp
    | some v => obtain ⟨r, t⟩ := v; simp

/-! ### analysis -/

theorem foldl_max_ge (cs : Counts) (a : Nat) :
    a ≤ cs.foldl (fun a b => max a b.2) a ∧ ∀ p ∈ cs, p.2 ≤ cs.foldl (fun a b => max a b.2) a := by
  induction cs generalizing a with
  | nil => simp
  | cons x xs ih =>
    simp only [List.foldl_cons]
    have := ih (max a x.2)
    refine ⟨by omega, ?_⟩
    intro p hp
    rcases List.mem_cons.mp hp with rfl | hp
    · omega
    · exact this.2 p hp

theorem foldl_max_attained (cs : Counts) (a : Nat) :
    cs.foldl (fun a b => max a b.2) a = a ∨ ∃ p ∈ cs, p.2 = cs.foldl (fun a b => max a b.2) a := by
  induction cs generalizing a with
  | nil => simp
  | cons x xs ih =>
    simp only [List.foldl_cons]
    rcases ih (max a x.2) with h | ⟨p, hp, h⟩
    · rw [h]
      by_cases hm : x.2 ≤ a
      · left; omega
      · right; exact ⟨x, List.mem_cons_self, by omega⟩
    · right; exact ⟨p, List.mem_cons_of_mem _ hp, h⟩

theorem le_maxCount (cs : Counts) (p : Nat × Nat) (hp : p ∈ cs) : p.2 ≤ maxCount cs :=
  (foldl_max_ge cs 0).2 p hp

theorem maxCount_attained (cs : Counts) (h : 0 < maxCount cs) : ∃ p ∈ cs, p.2 = maxCount cs := by
  rcases foldl_max_attained cs 0 with h0 | h0
  · unfold maxCount at h; omega
  · exact h0

theorem popDown_eq (cs : Counts) : popDown cs = cs.take 1 := by
  simp [popDown, TIE_KEEPS_LOWEST, DT_PATTERN_MAX]

theorem analysis_false_iff (st : St) : (analysis st).1 = false ↔ ∀ p ∈ st.counts, p.2 = 0 := by
  unfold analysis
  by_cases h : maxCount st.counts = 0
  · simp only [h, if_true, true_iff]
    intro p hp; have := le_maxCount _ p hp; omega
  · simp only [h, if_false, Bool.true_eq_false, false_iff]
    intro hall
    obtain ⟨p, hp, he⟩ := maxCount_attained st.counts (by omega)
    have := hall p hp; omega

/-- what `dt_patterns_analysis` leaves when it returns true -/
theorem analysis_true (st : St) (hk : KeysAsc st.counts) (ht : (analysis st).1 = true) :
    ∃ p m, (analysis st).2 = ⟨[(p, m)], true⟩ ∧ 0 < m ∧ (p, m) ∈ st.counts ∧
      ∀ q ∈ st.counts, q.2 ≤ m ∧ (q.2 = m → p ≤ q.1) := by
  unfold analysis at ht ⊢
  by_cases h : maxCount st.counts = 0
  · simp [h] at ht
  · simp only [h, if_false]
    obtain ⟨q0, hq0, he0⟩ := maxCount_attained st.counts (by omega)
    have hmem : q0 ∈ st.counts.filter (fun p => p.2 ≥ maxCount st.counts) := by
      simp [List.mem_filter, hq0, he0]
    have hsub : (st.counts.filter (fun p => p.2 ≥ maxCount st.counts)).Sublist st.counts := List.filter_sublist
    have hasc : KeysAsc (st.counts.filter (fun p => p.2 ≥ maxCount st.counts)) := List.Pairwise.sublist hsub hk
    cases hF : st.counts.filter (fun p => p.2 ≥ maxCount st.counts) with
    | nil => rw [hF] at hmem; cases hmem
    | cons f fs =>
      have hf : f ∈ st.counts.filter (fun p => p.2 ≥ maxCount st.counts) := by rw [hF]; exact List.mem_cons_self
      have hf' := List.mem_filter.mp hf
      have hfle := le_maxCount _ f hf'.1
      have hfeq : f.2 = maxCount st.counts := by
        have := hf'.2; simp only [ge_iff_le, decide_eq_true_eq] at this; omega
      refine ⟨f.1, maxCount st.counts, ?_, by omega, ?_, ?_⟩
      · rw [popDown_eq]; simp [← hfeq]
      · rw [← hfeq]; exact hf'.1
      · intro q hq
        refine ⟨le_maxCount _ q hq, ?_⟩
        intro hqe
        have hqF : q ∈ f :: fs := by rw [← hF]; simp [List.mem_filter, hq, hqe]
        rw [hF] at hasc
        rcases List.mem_cons.mp hqF with rfl | hqF
        · exact Nat.le_refl _
        · exact Nat.le_of_lt ((List.pairwise_cons.mp hasc).1 q hqF)

/-! ### one row left: what every later parse does -/

/-- how row `p` alone dates a line -/
def dateP (M : Matrix) (p : Nat) (ℓ : Bytes) : Option (Nat × Int) :=
  if tooShort ℓ then none else (M p ℓ).map (fun t => (p, t))

theorem tryOrder_single (p c : Nat) (a : Bool) : tryOrder ⟨[(p, c)], a⟩ = [p] := by
  simp [tryOrder, sortCounts, ins]

theorem parseLine_single (M : Matrix) (p c : Nat) (a : Bool) (ℓ : Bytes) :
    parseLine M ⟨[(p, c)], a⟩ ℓ =
      (dateP M p ℓ, ⟨[(p, if (dateP M p ℓ).isSome then c + 1 else c)], a⟩) := by
  unfold parseLine findDt dateP
  rw [tryOrder_single]
  by_cases h : tooShort ℓ = true
  · simp [h]
  · simp only [h, firstMatch]
    cases h2 : M p ℓ with
    | none => simp
    | some t => simp [bump]

theorem parseAll_single (M : Matrix) (p : Nat) (a : Bool) (ls : List Bytes) (c : Nat) :
    ∃ c', c ≤ c' ∧ parseAll M ⟨[(p, c)], a⟩ ls = (ls.map (dateP M p), ⟨[(p, c')], a⟩) := by
  induction ls generalizing c with
  | nil => exact ⟨c, Nat.le_refl _, rfl⟩
  | cons ℓ ls ih =>
    obtain ⟨c', hc', h⟩ := ih (if (dateP M p ℓ).isSome then c + 1 else c)
    refine ⟨c', ?_, ?_⟩
    · split at hc' <;> omega
    · simp only [parseAll, parseLine_single, h, List.map_cons]

theorem parseAll_append (M : Matrix) (st : St) (xs ys : List Bytes) :
    parseAll M st (xs ++ ys) =
      ((parseAll M st xs).1 ++ (parseAll M (parseAll M st xs).2 ys).1, (parseAll M (parseAll M st xs).2 ys).2) := by
  induction xs generalizing st with
  | nil => simp [parseAll]
  | cons x xs ih => simp only [List.cons_append, parseAll, ih]

/-! ### one row in use before analysis -/

/-- counts where only row `p` has been used (`c` times) -/
def solo (n p c : Nat) : Counts := (List.range n).map (fun i => (i, if i = p then c else 0))

theorem bump_soloL (is : List Nat) (hn : is.Nodup) (p c : Nat) :
    bump p (is.map (fun i => (i, if i = p then c else 0))) = is.map (fun i => (i, if i = p then c + 1 else 0)) := by
  induction is with
  | nil => rfl
  | cons i rest ih =>
    have hi := List.nodup_cons.mp hn
    simp only [List.map_cons]
    unfold bump
    by_cases h : i = p
    · subst h
      simp only [if_true]
      congr 1
      apply List.map_congr_left
      intro j hj
      have : j ≠ i := fun e => hi.1 (e ▸ hj)
      simp [this]
    · simp only [h, if_false]
      rw [ih hi.2]

theorem solo_zero (n p : Nat) : solo n p 0 = (fresh n).counts := by
  simp [solo, fresh]

theorem bump_solo (n p c : Nat) : bump p (solo n p c) = solo n p (c + 1) :=
  bump_soloL _ List.nodup_range p c

theorem keys_solo (n p c : Nat) : keys (solo n p c) = List.range n := by
  simp [keys, solo, List.map_map, Function.comp_def]

theorem keysAsc_solo (n p c : Nat) : KeysAsc (solo n p c) := by
  rw [keysAsc_iff, keys_solo]; exact List.pairwise_lt_range

theorem mem_solo {n p c : Nat} {q : Nat × Nat} : q ∈ solo n p c ↔ q.1 < n ∧ q.2 = if q.1 = p then c else 0 := by
  simp only [solo, List.mem_map, List.mem_range]
  constructor
  · rintro ⟨i, hi, rfl⟩; exact ⟨hi, rfl⟩
  · rintro ⟨h1, h2⟩; exact ⟨q.1, h1, by rw [← h2]⟩

/-- the used row is tried first, whatever its index -/
theorem tryOrder_solo (n p c : Nat) (a : Bool) (hp : p < n) (hc : 0 < c) :
    ∃ tl, tryOrder ⟨solo n p c, a⟩ = p :: tl ∧ ∀ r ∈ tl, r < n := by
  have hperm := sortCounts_perm (solo n p c)
  have hsort := sortCounts_sorted (solo n p c) (keysAsc_solo n p c)
  have hmem : (p, c) ∈ sortCounts (solo n p c) := by
    rw [mem_sortCounts, mem_solo]; simp [hp]
  cases hl : sortCounts (solo n p c) with
  | nil => rw [hl] at hmem; cases hmem
  | cons h t =>
    rw [hl] at hmem hsort
    have hh : h = (p, c) := by
      rcases List.mem_cons.mp hmem with e | e
      · exact e.symm
      · have hb : Before h (p, c) := (List.pairwise_cons.mp hsort).1 _ e
        have hin : h ∈ solo n p c := by rw [← mem_sortCounts, hl]; exact List.mem_cons_self
        have hs := mem_solo.mp hin
        by_cases hip : h.1 = p
        · rw [if_pos hip] at hs
          exact Prod.ext hip hs.2
        · rw [if_neg hip] at hs
          rcases hb with hb | hb <;> simp only at hb <;> omega
    refine ⟨t.map Prod.fst, ?_, ?_⟩
    · simp [tryOrder, hl, hh]
    · intro r hr
      have : r ∈ tryOrder ⟨solo n p c, a⟩ := by
        simp only [tryOrder, hl, List.map_cons]; exact List.mem_cons_of_mem _ hr
      rw [mem_tryOrder, keys_solo] at this
      exact List.mem_range.mp this

/-- no row of the table parses the line (or it is too short to be looked at) -/
def NoMatch (M : Matrix) (n : Nat) (ℓ : Bytes) : Prop := tooShort ℓ = true ∨ ∀ r < n, M r ℓ = none

theorem dateP_noMatch (M : Matrix) (n p : Nat) (ℓ : Bytes) (hp : p < n) (h : NoMatch M n ℓ) : dateP M p ℓ = none := by
  unfold dateP
  rcases h with h | h
  · simp [h]
  · simp [h p hp]

theorem parseLine_noMatch (M : Matrix) (n : Nat) (st : St) (ℓ : Bytes) (hk : keys st.counts = List.range n)
    (h : NoMatch M n ℓ) : parseLine M st ℓ = (none, st) := by
  unfold parseLine findDt
  rcases h with h | h
  · simp [h]
  · have : firstMatch M ℓ (tryOrder st) = none := by
      rw [firstMatch_none_iff]
      intro r hr
      rw [mem_tryOrder, hk] at hr
      exact h r (List.mem_range.mp hr)
    simp [this]

theorem parseLine_solo (M : Matrix) (n p c : Nat) (a : Bool) (ℓ : Bytes) (hp : p < n) (hc : 0 < c)
    (hb : NoMatch M n ℓ ∨ (M p ℓ).isSome) :
    parseLine M ⟨solo n p c, a⟩ ℓ =
      (dateP M p ℓ, ⟨solo n p (if (dateP M p ℓ).isSome then c + 1 else c), a⟩) := by
  by_cases hs : tooShort ℓ = true
  · rw [parseLine_noMatch M n _ ℓ (keys_solo n p c) (Or.inl hs)]
    simp [dateP, hs]
  · cases hm : M p ℓ with
    | none =>
      have hno : NoMatch M n ℓ := by
        rcases hb with hb | hb
        · exact hb
        · rw [hm] at hb; cases hb
      rw [parseLine_noMatch M n _ ℓ (keys_solo n p c) hno]
      simp [dateP, hm]
    | some t =>
      obtain ⟨tl, htl, _⟩ := tryOrder_solo n p c a hp hc
      unfold parseLine findDt
      simp only [hs, htl, firstMatch, hm, dateP, Option.map_some]
      simp [bump_solo]

theorem parseAll_solo (M : Matrix) (n p : Nat) (a : Bool) (hp : p < n) (ls : List Bytes)
    (hb : ∀ ℓ ∈ ls, NoMatch M n ℓ ∨ (M p ℓ).isSome) (c : Nat) (hc : 0 < c) :
    ∃ c', c ≤ c' ∧ parseAll M ⟨solo n p c, a⟩ ls = (ls.map (dateP M p), ⟨solo n p c', a⟩) := by
  induction ls generalizing c with
  | nil => exact ⟨c, Nat.le_refl _, rfl⟩
  | cons ℓ ls ih =>
    have h1 := parseLine_solo M n p c a ℓ hp hc (hb ℓ List.mem_cons_self)
    obtain ⟨c', hc', h⟩ := ih (fun x hx => hb x (List.mem_cons_of_mem _ hx))
      (if (dateP M p ℓ).isSome then c + 1 else c) (by split <;> omega)
    refine ⟨c', ?_, ?_⟩
    · split at hc' <;> omega
    · simp only [parseAll, h1, h, List.map_cons]

theorem parseAll_noMatch (M : Matrix) (n : Nat) (st : St) (hk : keys st.counts = List.range n) (ls : List Bytes)
    (h : ∀ ℓ ∈ ls, NoMatch M n ℓ) : parseAll M st ls = (ls.map (fun _ => none), st) := by
  induction ls with
  | nil => rfl
  | cons ℓ ls ih =>
    simp only [parseAll, parseLine_noMatch M n st ℓ hk (h ℓ List.mem_cons_self),
      ih (fun x hx => h x (List.mem_cons_of_mem _ hx)), List.map_cons]

theorem analysis_solo (n p c : Nat) (a : Bool) (hp : p < n) (hc : 0 < c) :
    analysis ⟨solo n p c, a⟩ = (true, ⟨[(p, c)], true⟩) := by
  have hne : (analysis ⟨solo n p c, a⟩).1 = true := by
    cases h : (analysis ⟨solo n p c, a⟩).1 with
    | true => rfl
    | false =>
      have := (analysis_false_iff _).mp h (p, c) (by rw [mem_solo]; simp [hp])
      simp only at this; omega
  obtain ⟨q, m, h1, h2, h3, _⟩ := analysis_true ⟨solo n p c, a⟩ (keysAsc_solo n p c) hne
  have h3' := mem_solo.mp h3
  simp only at h3'
  have hq : q = p := by
    by_cases e : q = p
    · exact e
    · rw [if_neg e] at h3'; omega
  subst hq
  rw [if_pos rfl] at h3'
  apply Prod.ext
  · exact hne
  · rw [h1, h3'.2]

/-! ### a file in one notation -/

theorem parseLine_fresh_first (M : Matrix) (n p : Nat) (t0 : Int) (ℓ0 : Bytes) (hs : tooShort ℓ0 = false)
    (hf : firstMatch M ℓ0 (List.range n) = some (p, t0)) :
    parseLine M (fresh n) ℓ0 = (some (p, t0), ⟨solo n p 1, false⟩) := by
  unfold parseLine findDt
  rw [tryOrder_fresh]
  simp only [hs, hf]
  have h0 : (fresh n).counts = solo n p 0 := (solo_zero n p).symm
  have h1 : fresh n = ⟨(fresh n).counts, false⟩ := rfl
  rw [h1]
  simp only [h0]
  simp [bump_solo]

theorem take_split {α} (pre : List α) (x : α) (post : List α) (k : Nat) (hk : pre.length < k) :
    (pre ++ x :: post).take k = pre ++ x :: post.take (k - (pre.length + 1)) := by
  rw [List.take_append]
  rw [List.take_of_length_le (Nat.le_of_lt hk)]
  have : k - pre.length = (k - (pre.length + 1)) + 1 := by omega
  rw [this, List.take_succ_cons]

/-- the whole run of a file whose first recognised line is read by row `p` and whose later lines, when any
row recognises them, are recognised by `p` -/
theorem runK_single (M : Matrix) (n p : Nat) (t0 : Int) (pre : List Bytes) (ℓ0 : Bytes) (post : List Bytes) (k : Nat)
    (ha1 : ∀ ℓ ∈ pre, NoMatch M n ℓ)
    (ha2 : tooShort ℓ0 = false) (ha3 : firstMatch M ℓ0 (List.range n) = some (p, t0))
    (hb : ∀ ℓ ∈ post, NoMatch M n ℓ ∨ (M p ℓ).isSome)
    (hk : pre.length < k) :
    runK M n k (pre ++ ℓ0 :: post) =
      ⟨true, ((pre ++ ℓ0 :: post).take k).map (dateP M p), some p, (pre ++ ℓ0 :: post).map (dateP M p)⟩ := by
  have hpn : p < n := ((firstMatch_range M ℓ0 n p t0).mp ha3).1
  have hMp : M p ℓ0 = some t0 := ((firstMatch_range M ℓ0 n p t0).mp ha3).2.1
  have hd0 : dateP M p ℓ0 = some (p, t0) := by simp [dateP, ha2, hMp]
  have hpre : pre.map (dateP M p) = pre.map (fun _ => none) :=
    List.map_congr_left (fun ℓ hℓ => dateP_noMatch M n p ℓ hpn (ha1 ℓ hℓ))
  obtain ⟨c', hc', hpost⟩ := parseAll_solo M n p false hpn (post.take (k - (pre.length + 1)))
    (fun ℓ hℓ => hb ℓ (List.mem_of_mem_take hℓ)) 1 (by omega)
  have hbefore : parseAll M (fresh n) ((pre ++ ℓ0 :: post).take k) =
      (((pre ++ ℓ0 :: post).take k).map (dateP M p), ⟨solo n p c', false⟩) := by
    rw [take_split pre ℓ0 post k hk, parseAll_append, parseAll_noMatch M n (fresh n) (keys_fresh n) pre ha1]
    simp only [parseAll, parseLine_fresh_first M n p t0 ℓ0 ha2 ha3, hpost, List.map_append, List.map_cons, hpre, hd0]
  obtain ⟨c'', _, hafter⟩ := parseAll_single M p true (pre ++ ℓ0 :: post) c'
  unfold runK
  simp only [hbefore, analysis_solo n p c' false hpn (by omega), hafter, chosen, if_true, List.head?_cons, Option.map_some]

/-! ### `dt_patterns_analysis` fails exactly when nothing was recognised -/

def total (cs : Counts) : Nat := (cs.map Prod.snd).sum

theorem total_bump (r : Nat) (cs : Counts) (h : r ∈ keys cs) : total (bump r cs) = total cs + 1 := by
  induction cs with
  | nil => cases h
  | cons x xs ih =>
    obtain ⟨i, c⟩ := x
    unfold bump
    by_cases e : i = r
    · simp [e, total]; omega
    · have hr : r ∈ keys xs := by
        simp only [keys, List.map_cons, List.mem_cons] at h
        rcases h with h | h
        · exact absurd h.symm e
        · exact h
      have := ih hr
      simp only [total, List.map_cons, List.sum_cons] at this ⊢
      simp only [e, if_false, List.map_cons, List.sum_cons]; omega

theorem total_zero_iff (cs : Counts) : total cs = 0 ↔ ∀ p ∈ cs, p.2 = 0 := by
  induction cs with
  | nil => simp [total]
  | cons x xs ih =>
    simp only [total, List.map_cons, List.sum_cons, List.mem_cons, forall_eq_or_imp] at ih ⊢
    rw [← ih]; omega

theorem total_fresh (n : Nat) : total (fresh n).counts = 0 := by
  rw [total_zero_iff]; intro p hp; simp only [fresh, List.mem_map] at hp
  obtain ⟨i, _, rfl⟩ := hp; rfl

theorem parseLine_total (M : Matrix) (st : St) (ℓ : Bytes) :
    total (parseLine M st ℓ).2.counts = total st.counts + (if (parseLine M st ℓ).1.isSome then 1 else 0) ∧
    keys (parseLine M st ℓ).2.counts = keys st.counts := by
  unfold parseLine
  cases h : findDt M st ℓ with
  | none => simp
  | some v =>
    obtain ⟨r, t⟩ := v
    have hr : r ∈ keys st.counts := by
      unfold findDt at h
      split at h
      · cases h
      · exact mem_tryOrder.mp (firstMatch_sound M ℓ _ r t h).1
    simp [total_bump r st.counts hr, keys_bump]

theorem parseAll_total (M : Matrix) (st : St) (ls : List Bytes) :
    (total (parseAll M st ls).2.counts = total st.counts ↔ ∀ r ∈ (parseAll M st ls).1, r = none) ∧
    total st.counts ≤ total (parseAll M st ls).2.counts := by
  induction ls generalizing st with
  | nil => simp [parseAll]
  | cons ℓ ls ih =>
    have h1 := (parseLine_total M st ℓ).1
    have h2 := ih (parseLine M st ℓ).2
    simp only [parseAll, List.mem_cons, forall_eq_or_imp]
    cases hr : (parseLine M st ℓ).1 with
    | none =>
      rw [hr] at h1; simp only [Option.isSome_none, Bool.false_eq_true, if_false, Nat.add_zero] at h1
      rw [h1] at h2
      exact ⟨by simpa using h2.1, h2.2⟩
    | some v =>
      rw [hr] at h1; simp only [Option.isSome_some, if_true] at h1
      refine ⟨?_, by omega⟩
      constructor
      · intro h; omega
      · intro h; cases h.1

theorem runK_eq (M : Matrix) (n k : Nat) (lines : List Bytes) :
    runK M n k lines =
      if (analysis (parseAll M (fresh n) (lines.take k)).2).1 = true then
        ⟨true, (parseAll M (fresh n) (lines.take k)).1, chosen (analysis (parseAll M (fresh n) (lines.take k)).2).2,
          (parseAll M (analysis (parseAll M (fresh n) (lines.take k)).2).2 lines).1⟩
      else ⟨false, (parseAll M (fresh n) (lines.take k)).1, none, []⟩ := by
  unfold runK
  rcases parseAll M (fresh n) (lines.take k) with ⟨b, st1⟩
  dsimp only

theorem runK_ok_iff (M : Matrix) (n k : Nat) (lines : List Bytes) :
    (runK M n k lines).ok = false ↔ ∀ r ∈ (runK M n k lines).before, r = none := by
  have ht := (parseAll_total M (fresh n) (lines.take k)).1
  rw [total_fresh, total_zero_iff, ← analysis_false_iff] at ht
  rw [runK_eq]
  cases ha : (analysis (parseAll M (fresh n) (lines.take k)).2).1 with
  | true => rw [ha] at ht; simpa using ht
  | false => rw [ha] at ht; simpa using ht

/-! ### the parse LRU cache after analysis -/

/-- after analysis: one row `p` is left and every cache entry is what `p` gives for the line that begins at
that key (`L` = the file: begin offset ↦ line) -/
def CacheOK (M : Matrix) (L : Nat → Bytes) (p : Nat) (rs : RSt) : Prop :=
  (∃ c, rs.st.counts = [(p, c)]) ∧ ∀ e ∈ rs.cache, dateP M p (L e.1) = some e.2

theorem lookup_mem (c : Cache) (k : Nat) (v : Nat × Int) (h : c.lookup k = some v) : (k, v) ∈ c := by
  induction c with
  | nil => simp [List.lookup] at h
  | cons e es ih =>
    obtain ⟨k', v'⟩ := e
    simp only [List.lookup] at h
    by_cases hk : k = k'
    · subst hk; simp at h; subst h; exact List.mem_cons_self
    · have : (k == k') = false := by simp [hk]
      rw [this] at h
      exact List.mem_cons_of_mem _ (ih h)

theorem mem_lruPut {k : Nat} {v : Nat × Int} {c : Cache} {e : Nat × (Nat × Int)} (h : e ∈ lruPut k v c) :
    e = (k, v) ∨ e ∈ c := by
  unfold lruPut at h
  rcases List.mem_cons.mp (List.mem_of_mem_take h) with h | h
  · exact Or.inl h
  · exact Or.inr (List.mem_filter.mp h).1

/-- with one row left the cache never changes an answer, and stays consistent -/
theorem parseLineCached_transparent (M : Matrix) (L : Nat → Bytes) (p : Nat) (rs : RSt) (k : Nat)
    (h : CacheOK M L p rs) :
    (parseLineCached M rs k (L k)).1 = (parseLine M rs.st (L k)).1 ∧
    (parseLineCached M rs k (L k)).1 = dateP M p (L k) ∧
    CacheOK M L p (parseLineCached M rs k (L k)).2 := by
  obtain ⟨⟨c, hc⟩, hcache⟩ := h
  have hst : rs.st = ⟨[(p, c)], rs.st.analyzed⟩ := by
    cases hs : rs.st with
    | mk cs a => rw [hs] at hc; simp only at hc; subst hc; rfl
  have hpl := parseLine_single M p c rs.st.analyzed (L k)
  rw [← hst] at hpl
  unfold parseLineCached
  simp only [PARSE_CACHE_ENABLED, if_true]
  unfold lruGet
  cases hl : rs.cache.lookup k with
  | some v =>
    have hv := hcache (k, v) (lookup_mem _ _ _ hl)
    simp only at hv
    refine ⟨by rw [hpl]; exact hv.symm, hv.symm, ⟨c, hc⟩, ?_⟩
    intro e he
    rcases List.mem_cons.mp he with rfl | he
    · exact hv
    · exact hcache e (List.mem_filter.mp he).1
  | none =>
    simp only [hpl]
    cases hd : dateP M p (L k) with
    | none =>
      simp only
      exact ⟨trivial, trivial, ⟨_, rfl⟩, hcache⟩
    | some v =>
      simp only
      refine ⟨trivial, trivial, ⟨_, rfl⟩, ?_⟩
      intro e he
      rcases mem_lruPut he with rfl | he
      · exact hd
      · exact hcache e he

/-- a whole file through the cached parser, one row left: every line is dated by that row alone -/
theorem parseAllCached_single (M : Matrix) (L : Nat → Bytes) (p : Nat) (ks : List Nat) (rs : RSt)
    (h : CacheOK M L p rs) :
    (parseAllCached M rs (ks.map (fun k => (k, L k)))).1 = ks.map (fun k => dateP M p (L k)) ∧
    CacheOK M L p (parseAllCached M rs (ks.map (fun k => (k, L k)))).2 := by
  induction ks generalizing rs with
  | nil => exact ⟨rfl, h⟩
  | cons k ks ih =>
    obtain ⟨_, h2, h3⟩ := parseLineCached_transparent M L p rs k h
    have := ih _ h3
    simp only [List.map_cons, parseAllCached]
    exact ⟨by rw [this.1, h2], this.2⟩

end S4V.Lemmas.PatSel
