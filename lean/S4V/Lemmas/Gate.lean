/-
Lemmas about the acceptance gate model (`S4V.Model.Gate`): completeness of
`findLineInBlock` inside block zero, behaviour of the sysline search when a
`P`-accepted line lies inside block zero / when `P` accepts nothing, and fuel
sufficiency of the loops. Core Lean only.
-/
import S4V.Lemmas.Lines
import S4V.Model.Gate

namespace S4V.Lemmas.Gate
open S4V.Gen.Blocks S4V.Model.Lines S4V.Model.Gate S4V.Lemmas.Blocks S4V.Lemmas.Lines

/-- the bytes of the line that starts at offset `s` (newline included) -/
def lineFrom (d : Bytes) (s : Nat) : Bytes := (d.drop s).take (lineEnd d s + 1 - s)

/-- `s` is the first byte of a line of `d` -/
def IsStart (d : Bytes) (s : Nat) : Prop := s = 0 ∨ d[s - 1]? = some NL

/-! ### `findLineInBlock`: more facts -/

theorem findLineInBlock_ge (bs : Nat) (d : Bytes) (fo : Nat) (h : d.length ≤ fo) :
    findLineInBlock bs d fo = .done := by
  simp only [findLineInBlock]
  rw [if_pos (by omega)]

theorem partAIB_done {d : Bytes} {bs fo foNlB biMEnd : Nat} {foundB : Bool}
    (h : partAIB d bs fo foundB foNlB biMEnd = .done) :
    fo ≠ 0 ∧ ((fo - 1) / bs ≠ fo / bs ∨ (fo - 1) / bs ≠ 0) := by
  unfold partAIB at h
  dsimp only at h
  split at h
  · split at h <;> cases h
  · rename_i h0
    refine ⟨h0, ?_⟩
    split at h
    · rename_i hb; exact Or.inl hb
    · split at h
      · split at h <;> cases h
      · split at h
        · split at h <;> cases h
        · rename_i hq; exact Or.inr hq

/-- `.found` results move forward and stay inside the file -/
theorem findLineInBlock_found_lt (bs : Nat) (d : Bytes) (fo n : Nat) (parts : List Part)
    (hbs : 1 ≤ bs) (h : findLineInBlock bs d fo = .found n parts) :
    fo < d.length ∧ fo < n ∧ n ≤ d.length ∧ n = lineEnd d fo + 1 := by
  rcases Nat.lt_or_ge fo d.length with hfo | hfo
  · obtain ⟨h1, _⟩ := findLineInBlock_found bs d fo n parts hbs h
    obtain ⟨e1, e2, _⟩ := isLineEnd_lineEnd d fo hfo
    exact ⟨hfo, by omega, by omega, h1⟩
  · rw [findLineInBlock_ge bs d fo hfo] at h; cases h

/-- completeness inside block zero: a line that ends inside block zero is found,
whole, from any of its offsets -/
theorem findLineInBlock_block0 (bs : Nat) (d : Bytes) (fo : Nat) (hbs : 1 ≤ bs)
    (hfo : fo < d.length) (hE : lineEnd d fo < bs) :
    ∃ parts, findLineInBlock bs d fo = .found (lineEnd d fo + 1) parts ∧
      partsBytes d bs parts
        = (d.drop (lineStart d fo)).take (lineEnd d fo + 1 - lineStart d fo) := by
  have hle := (isLineEnd_lineEnd d fo hfo).1
  have hq : fo / bs = 0 := Nat.div_eq_of_lt (by omega)
  rcases h : findLineInBlock bs d fo with _ | ⟨n, parts⟩ | parts
  · exfalso
    simp only [findLineInBlock] at h
    rw [if_neg (by omega)] at h
    obtain ⟨h0, h1⟩ := partAIB_done h
    have : (fo - 1) / bs = 0 := Nat.div_eq_of_lt (by omega)
    omega
  · obtain ⟨h1, p, h2, _, _, _, _, _, h8⟩ := findLineInBlock_found bs d fo n parts hbs h
    subst h1
    exact ⟨parts, rfl, h8.bytes⟩
  · exfalso
    have := S4V.Lemmas.Lines.findLineInBlock_part bs d fo parts hbs h
    rw [hq] at this
    omega

/-- at offset 0 of a non-empty file `findLineInBlock` always returns something -/
theorem findLineInBlock_zero_ne_done (bs : Nat) (d : Bytes) (hd : 0 < d.length) :
    findLineInBlock bs d 0 ≠ .done := by
  intro h
  simp only [findLineInBlock] at h
  rw [if_neg (by omega)] at h
  exact (partAIB_done h).1 rfl

/-! ### line starts -/

theorem lineStart_of_isStart {d : Bytes} {s : Nat} (hs : IsStart d s) : lineStart d s = s :=
  IsLineStart.eq ⟨Nat.le_refl _, hs, fun k h1 h2 => by omega⟩

/-- a line that starts before line start `s` ends before `s` -/
theorem lineEnd_lt_of_isStart {d : Bytes} {fo s : Nat} (hfo : fo < s) (hs : IsStart d s)
    (hsl : s < d.length) : lineEnd d fo < s := by
  obtain ⟨e1, e2, e3, e4⟩ := isLineEnd_lineEnd d fo (by omega)
  rcases Nat.lt_or_ge (lineEnd d fo) s with h | h
  · exact h
  · exfalso
    rcases hs with hs | hs
    · omega
    · rcases Nat.lt_or_ge (s - 1) (lineEnd d fo) with h' | h'
      · exact e4 (s - 1) (by omega) h' hs
      · omega

/-- the offset after a line that is not the last one is a line start -/
theorem isStart_next {d : Bytes} {fo : Nat} (hfo : fo < d.length)
    (hnl : lineEnd d fo + 1 < d.length) : IsStart d (lineEnd d fo + 1) := by
  obtain ⟨_, _, e3, _⟩ := isLineEnd_lineEnd d fo hfo
  rcases e3 with e3 | e3
  · exact Or.inr (by simpa using e3)
  · omega

/-! ### the sysline search -/

/-- with enough fuel part B never gives up -/
theorem sibPartB_ne_done (P : Bytes → Option Int) (bs : Nat) (d : Bytes) (fin0 : Nat)
    (hbs : 1 ≤ bs) :
    ∀ fuel fo1 fin, 1 ≤ fuel → d.length + 1 ≤ fuel + fo1 →
      sibPartB P bs d fin0 fuel fo1 fin ≠ .done := by
  intro fuel
  induction fuel with
  | zero => intro _ _ h; omega
  | succ fuel ih =>
    intro fo1 fin _ hf
    simp only [sibPartB]
    rcases h : findLineInBlock bs d fo1 with _ | ⟨fo2, ps⟩ | ps
    · dsimp only; split <;> simp
    · dsimp only
      obtain ⟨h1, h2, h3, _⟩ := findLineInBlock_found_lt bs d fo1 fo2 ps hbs h
      split
      · simp
      · exact ih fo2 (fo2 - 1) (by omega) (by omega)
    · dsimp only; split <;> simp

/-- if a line that starts at `s`, ends inside block zero and is accepted by `P`
exists, the search from any earlier line start finds a sysline (possibly an
earlier one) -/
theorem findSyslineInBlock_ne_done (P : Bytes → Option Int) (bs : Nat) (d : Bytes) (s : Nat)
    (hbs : 1 ≤ bs) (hs : s < d.length) (hst : IsStart d s) (hE : lineEnd d s < bs)
    (hP : P (lineFrom d s) ≠ none) :
    ∀ fuel fo, fo ≤ s → IsStart d fo → s + 1 ≤ fuel + fo →
      findSyslineInBlock P bs d fuel fo ≠ .done := by
  intro fuel
  induction fuel with
  | zero => intro fo h1 _ h2; omega
  | succ fuel ih =>
    intro fo hle hfo hf
    have hfol : fo < d.length := by omega
    have hEfo : lineEnd d fo < bs := by
      rcases Nat.lt_or_ge fo s with h | h
      · have := lineEnd_lt_of_isStart h hst hs
        have := (isLineEnd_lineEnd d s hs).1
        omega
      · have : fo = s := by omega
        subst this; exact hE
    obtain ⟨parts, hfound, hbytes⟩ := findLineInBlock_block0 bs d fo hbs hfol hEfo
    rw [lineStart_of_isStart hfo] at hbytes
    simp only [findSyslineInBlock, hfound, lineBytes, hbytes]
    rcases hp : P ((d.drop fo).take (lineEnd d fo + 1 - fo)) with _ | v
    · dsimp only
      have hne : fo ≠ s := by
        intro e; subst e; exact hP hp
      have hlt : fo < s := by omega
      have h1 := lineEnd_lt_of_isStart hlt hst hs
      have h2 := (isLineEnd_lineEnd d fo hfol).1
      exact ih (lineEnd d fo + 1) (by omega) (isStart_next hfol (by omega)) (by omega)
    · dsimp only
      split
      · simp
      · exact sibPartB_ne_done P bs d _ hbs _ _ _ (by omega) (by omega)

/-- a parser that accepts nothing finds nothing -/
theorem findSyslineInBlock_none (P : Bytes → Option Int) (bs : Nat) (d : Bytes)
    (hP : ∀ l, P l = none) : ∀ fuel fo, findSyslineInBlock P bs d fuel fo = .done := by
  intro fuel
  induction fuel with
  | zero => intro fo; rfl
  | succ fuel ih =>
    intro fo
    simp only [findSyslineInBlock, hP]
    split
    · exact ih _
    · rfl
    · rfl

/-! ### the loops -/

theorem gateSyslinesLoop_none (P : Bytes → Option Int) (bs : Nat) (d : Bytes) (m : Nat)
    (hP : ∀ l, P l = none) : ∀ fuel fo found, gateSyslinesLoop P bs d m fuel fo found = found := by
  intro fuel fo found
  cases fuel with
  | zero => rfl
  | succ fuel =>
    simp only [gateSyslinesLoop, findSyslineInBlock_none P bs d hP]
    split <;> rfl

theorem gateLinesLoop_ge (bs : Nat) (d : Bytes) (m : Nat) :
    ∀ fuel fo found, found ≤ gateLinesLoop bs d m fuel fo found := by
  intro fuel
  induction fuel with
  | zero => intro fo found; exact Nat.le_refl _
  | succ fuel ih =>
    intro fo found
    simp only [gateLinesLoop]
    split
    · exact Nat.le_refl _
    · split
      · split
        · omega
        · have := ih ‹_› (found + 1); omega
      · omega
      · exact Nat.le_refl _

/-- one line is always found in a non-empty file -/
theorem gateLinesLoop_pos (bs : Nat) (d : Bytes) (m : Nat) (hd : 0 < d.length) (hm : 1 ≤ m) :
    1 ≤ gateLinesLoop bs d m (d.length + 1) 0 0 := by
  simp only [gateLinesLoop]
  rw [if_neg (by omega)]
  have hne := findLineInBlock_zero_ne_done bs d hd
  split
  · split
    · omega
    · exact gateLinesLoop_ge bs d m _ _ _
  · omega
  · rename_i h; exact absurd h hne

/-- with a threshold of one, any success of the first search makes the count one -/
theorem gateSyslinesLoop_one (P : Bytes → Option Int) (bs : Nat) (d : Bytes)
    (hd : 0 < d.length)
    (h : findSyslineInBlock P bs d (d.length + 1) 0 ≠ .done) :
    gateSyslinesLoop P bs d 1 (d.length + 1) 0 0 = 1 := by
  obtain ⟨n, hn⟩ : ∃ n, d.length = n + 1 := ⟨d.length - 1, by omega⟩
  have h0 : blockOffsetAtFileOffset 0 bs = 0 := by simp [blockOffsetAtFileOffset_eq]
  simp only [gateSyslinesLoop, h0]
  rw [if_neg (by simp)]
  rcases hr : findSyslineInBlock P bs d (d.length + 1) 0 with fn | _ | _
  · dsimp only
    rw [hn]
    simp only [gateSyslinesLoop]
    rw [if_pos (Or.inl (by omega))]
  · rfl
  · exact absurd hr h

/-! ### the verdict -/

/-- a `P`-accepted line inside block zero, with thresholds of one: accepted -/
theorem gateWith_ok (th : Thresholds) (P : Bytes → Option Int) (bs : Nat) (d : Bytes) (s : Nat)
    (hbs : 1 ≤ bs)
    (h1 : min th.bytesMin bs ≤ min bs d.length)
    (h2 : (d.take (min th.nullMax bs)).all (· == 0) = false)
    (hl : th.lineMin (min bs d.length) ≤ 1) (hsl : th.syslineMin (min bs d.length) = 1)
    (hs : s < d.length) (hst : IsStart d s) (hE : lineEnd d s < bs)
    (hP : P (lineFrom d s) ≠ none) :
    gateWith th P bs d = .ok := by
  have hd : 0 < d.length := by omega
  have hb0 : blockAt d bs 0 = d.take bs := by simp [blockAt]
  have hsearch : findSyslineInBlock P bs d (d.length + 1) 0 ≠ .done :=
    findSyslineInBlock_ne_done P bs d s hbs hs hst hE hP _ 0 (Nat.zero_le _) (Or.inl rfl)
      (by omega)
  have hsys := gateSyslinesLoop_one P bs d hd hsearch
  unfold gateWith
  simp only [hb0, List.length_take, List.take_take, hsl, hsys]
  rw [if_neg (by omega), if_neg (by omega), h2]
  simp only [Bool.false_eq_true, ↓reduceIte]
  rw [if_neg]
  · simp
  · rcases Nat.eq_zero_or_pos (th.lineMin (min bs d.length)) with h0 | h0
    · omega
    · have := gateLinesLoop_pos bs d _ hd h0
      omega

/-- a parser that accepts nothing: never accepted -/
theorem gateWith_none (th : Thresholds) (P : Bytes → Option Int) (bs : Nat) (d : Bytes)
    (hP : ∀ l, P l = none) : gateWith th P bs d ≠ .ok := by
  unfold gateWith
  simp only [gateSyslinesLoop_none P bs d _ hP]
  repeat' split
  all_goals simp at *

/-! ### fuel -/

theorem findSyslineInBlock_ge (P : Bytes → Option Int) (bs : Nat) (d : Bytes) (fuel fo : Nat)
    (h : d.length ≤ fo) : findSyslineInBlock P bs d fuel fo = .done := by
  cases fuel with
  | zero => rfl
  | succ fuel => simp only [findSyslineInBlock, findLineInBlock_ge bs d fo h]

theorem sibPartB_fuel (P : Bytes → Option Int) (bs : Nat) (d : Bytes) (fin0 : Nat)
    (hbs : 1 ≤ bs) (k : Nat) :
    ∀ fuel fo1 fin, 1 ≤ fuel → d.length + 1 ≤ fuel + fo1 →
      sibPartB P bs d fin0 (fuel + k) fo1 fin = sibPartB P bs d fin0 fuel fo1 fin := by
  intro fuel
  induction fuel with
  | zero => intro _ _ h; omega
  | succ fuel ih =>
    intro fo1 fin _ hf
    rw [Nat.add_right_comm]
    simp only [sibPartB]
    rcases h : findLineInBlock bs d fo1 with _ | ⟨fo2, ps⟩ | ps
    · rfl
    · dsimp only
      obtain ⟨h1, h2, h3, _⟩ := findLineInBlock_found_lt bs d fo1 fo2 ps hbs h
      split
      · rfl
      · exact ih fo2 (fo2 - 1) (by omega) (by omega)
    · rfl

theorem findSyslineInBlock_fuel (P : Bytes → Option Int) (bs : Nat) (d : Bytes)
    (hbs : 1 ≤ bs) (k : Nat) :
    ∀ fuel fo, d.length + 1 ≤ fuel + fo →
      findSyslineInBlock P bs d (fuel + k) fo = findSyslineInBlock P bs d fuel fo := by
  intro fuel
  induction fuel with
  | zero =>
    intro fo hf
    rw [findSyslineInBlock_ge P bs d _ fo (by omega), findSyslineInBlock_ge P bs d _ fo (by omega)]
  | succ fuel ih =>
    intro fo hf
    rw [Nat.add_right_comm]
    simp only [findSyslineInBlock]
    rcases h : findLineInBlock bs d fo with _ | ⟨fo2, ps⟩ | ps
    · rfl
    · dsimp only
      obtain ⟨h1, h2, h3, _⟩ := findLineInBlock_found_lt bs d fo fo2 ps hbs h
      split
      · rfl
      · exact ih fo2 (by omega)
    · rfl

theorem sibPartB_found_ge (P : Bytes → Option Int) (bs : Nat) (d : Bytes) (fin0 lo : Nat)
    (hbs : 1 ≤ bs) :
    ∀ fuel fo1 fin n, lo ≤ fo1 → lo ≤ fin + 1 →
      sibPartB P bs d fin0 fuel fo1 fin = .found n → lo ≤ n := by
  intro fuel
  induction fuel with
  | zero => intro _ _ _ _ _ h; cases h
  | succ fuel ih =>
    intro fo1 fin n h1 h2 h
    simp only [sibPartB] at h
    rcases hf : findLineInBlock bs d fo1 with _ | ⟨fo2, ps⟩ | ps
    · rw [hf] at h; dsimp only at h
      split at h
      · cases h
      · injection h with h; omega
    · rw [hf] at h; dsimp only at h
      obtain ⟨g1, g2, g3, _⟩ := findLineInBlock_found_lt bs d fo1 fo2 ps hbs hf
      split at h
      · injection h with h; omega
      · exact ih fo2 (fo2 - 1) n (by omega) (by omega) h
    · rw [hf] at h; dsimp only at h
      split at h
      · cases h
      · injection h with h; omega

/-- a found sysline ends after the offset searched from -/
theorem findSyslineInBlock_found_gt (P : Bytes → Option Int) (bs : Nat) (d : Bytes)
    (hbs : 1 ≤ bs) :
    ∀ fuel fo n, findSyslineInBlock P bs d fuel fo = .found n → fo < n := by
  intro fuel
  induction fuel with
  | zero => intro _ _ h; cases h
  | succ fuel ih =>
    intro fo n h
    simp only [findSyslineInBlock] at h
    rcases hf : findLineInBlock bs d fo with _ | ⟨fo2, ps⟩ | ps
    · rw [hf] at h; cases h
    · rw [hf] at h; dsimp only at h
      obtain ⟨g1, g2, g3, _⟩ := findLineInBlock_found_lt bs d fo fo2 ps hbs hf
      split at h
      · split at h
        · injection h with h; omega
        · have := sibPartB_found_ge P bs d _ fo2 hbs _ _ _ _ (Nat.le_refl _) (by omega) h
          omega
      · have := ih fo2 n h; omega
    · rw [hf] at h; dsimp only at h
      split at h <;> cases h

theorem gateSyslinesLoop_fuel (P : Bytes → Option Int) (bs : Nat) (d : Bytes) (m : Nat)
    (hbs : 1 ≤ bs) (k : Nat) :
    ∀ fuel fo found, d.length + 1 ≤ fuel + fo →
      gateSyslinesLoop P bs d m (fuel + k) fo found = gateSyslinesLoop P bs d m fuel fo found := by
  intro fuel
  induction fuel with
  | zero =>
    intro fo found hf
    cases k with
    | zero => rfl
    | succ k =>
      rw [Nat.zero_add]
      simp only [gateSyslinesLoop, findSyslineInBlock_ge P bs d _ fo (by omega)]
      split <;> rfl
  | succ fuel ih =>
    intro fo found hf
    rw [Nat.add_right_comm]
    simp only [gateSyslinesLoop]
    split
    · rfl
    · rcases h : findSyslineInBlock P bs d (d.length + 1) fo with n | _ | _
      · dsimp only
        have := findSyslineInBlock_found_gt P bs d hbs _ _ _ h
        exact ih n (found + 1) (by omega)
      · rfl
      · rfl

theorem gateLinesLoop_fuel (bs : Nat) (d : Bytes) (m : Nat) (hbs : 1 ≤ bs) (k : Nat) :
    ∀ fuel fo found, d.length + 1 ≤ fuel + fo →
      gateLinesLoop bs d m (fuel + k) fo found = gateLinesLoop bs d m fuel fo found := by
  intro fuel
  induction fuel with
  | zero =>
    intro fo found hf
    cases k with
    | zero => rfl
    | succ k =>
      rw [Nat.zero_add]
      simp only [gateLinesLoop, findLineInBlock_ge bs d fo (by omega)]
      split <;> rfl
  | succ fuel ih =>
    intro fo found hf
    rw [Nat.add_right_comm]
    simp only [gateLinesLoop]
    split
    · rfl
    · rcases h : findLineInBlock bs d fo with _ | ⟨fo2, ps⟩ | ps
      · rfl
      · dsimp only
        obtain ⟨g1, g2, g3, _⟩ := findLineInBlock_found_lt bs d fo fo2 ps hbs h
        split
        · rfl
        · exact ih fo2 (found + 1) (by omega)
      · rfl

/-! ### the gate with extra fuel

Copies of the searches and of the verdict in which every loop gets `k` more
units of fuel than in the model; they compute the same thing. -/

def findSyslineInBlockF (k : Nat) (P : Bytes → Option Int) (bs : Nat) (d : Bytes) :
    Nat → Nat → SIB
  | 0, _ => .done
  | fuel + 1, fo1 =>
    match findLineInBlock bs d fo1 with
    | .found fo2 ps =>
      match P (lineBytes d bs ps) with
      | some _ =>
        let fin := fo2 - 1
        if fin + 1 = d.length then .found fo2
        else sibPartB P bs d fin (d.length + 1 + k) fo2 fin
      | none => findSyslineInBlockF k P bs d fuel fo2
    | .part ps =>
      match P (lineBytes d bs ps) with
      | some _ => .donePartial
      | none => .done
    | .done => .done

def gateSyslinesLoopF (k : Nat) (P : Bytes → Option Int) (bs : Nat) (d : Bytes) (foundMin : Nat) :
    Nat → Nat → Nat → Nat
  | 0, _, found => found
  | fuel + 1, fo, found =>
    if found ≥ foundMin ∨ blockOffsetAtFileOffset fo bs ≠ 0 then found
    else
      match findSyslineInBlockF k P bs d (d.length + 1 + k) fo with
      | .found foNext => gateSyslinesLoopF k P bs d foundMin fuel foNext (found + 1)
      | .donePartial => found + 1
      | .done => found

def gateWithF (k : Nat) (th : Thresholds) (P : Bytes → Option Int) (bs : Nat) (d : Bytes) :
    Verdict :=
  if d.length = 0 then .empty
  else
    let b0 := blockAt d bs 0
    let sz0 := b0.length
    if sz0 < min th.bytesMin bs then .tooSmall
    else if (b0.take th.nullMax).all (· == 0) then .nullBytes
    else
      let lmin := th.lineMin sz0
      if gateLinesLoop bs d lmin (d.length + 1 + k) 0 0 < lmin then .noLines
      else
        let smin := th.syslineMin sz0
        let found := gateSyslinesLoopF k P bs d smin (d.length + 1 + k) 0 0
        if found = 0 ∨ found < smin then .noSyslines else .ok

theorem findSyslineInBlockF_eq (k : Nat) (P : Bytes → Option Int) (bs : Nat) (d : Bytes)
    (hbs : 1 ≤ bs) :
    ∀ fuel fo, findSyslineInBlockF k P bs d fuel fo = findSyslineInBlock P bs d fuel fo := by
  intro fuel
  induction fuel with
  | zero => intro fo; rfl
  | succ fuel ih =>
    intro fo
    simp only [findSyslineInBlockF, findSyslineInBlock]
    rcases h : findLineInBlock bs d fo with _ | ⟨fo2, ps⟩ | ps
    · rfl
    · dsimp only
      obtain ⟨h1, h2, h3, _⟩ := findLineInBlock_found_lt bs d fo fo2 ps hbs h
      rcases P (lineBytes d bs ps) with _ | v
      · exact ih fo2
      · dsimp only
        rw [sibPartB_fuel P bs d _ hbs k (d.length + 1) fo2 _ (by omega) (by omega)]
    · rfl

theorem gateSyslinesLoopF_eq (k : Nat) (P : Bytes → Option Int) (bs : Nat) (d : Bytes) (m : Nat)
    (hbs : 1 ≤ bs) :
    ∀ fuel fo found,
      gateSyslinesLoopF k P bs d m fuel fo found = gateSyslinesLoop P bs d m fuel fo found := by
  intro fuel
  induction fuel with
  | zero => intro fo found; rfl
  | succ fuel ih =>
    intro fo found
    simp only [gateSyslinesLoopF, gateSyslinesLoop]
    rw [findSyslineInBlockF_eq k P bs d hbs,
      findSyslineInBlock_fuel P bs d hbs k (d.length + 1) fo (by omega)]
    split
    · rfl
    · rcases findSyslineInBlock P bs d (d.length + 1) fo with n | _ | _
      · exact ih _ _
      · rfl
      · rfl

/-- the fuel of the model suffices: more fuel in every loop, same verdict -/
theorem gateWithF_eq (k : Nat) (th : Thresholds) (P : Bytes → Option Int) (bs : Nat) (d : Bytes)
    (hbs : 1 ≤ bs) : gateWithF k th P bs d = gateWith th P bs d := by
  unfold gateWithF gateWith
  simp only [gateSyslinesLoopF_eq k P bs d _ hbs,
    gateSyslinesLoop_fuel P bs d _ hbs k (d.length + 1) 0 0 (by omega),
    gateLinesLoop_fuel bs d _ hbs k (d.length + 1) 0 0 (by omega)]

/-! ### counting lines and accepted lines inside block zero (specification) -/

/-- number of `P`-accepted lines lying entirely inside the first `bs` bytes,
among the lines starting at line start `fo` or later -/
def accCount (P : Bytes → Option Int) (bs : Nat) (d : Bytes) : Nat → Nat → Nat
  | 0, _ => 0
  | fuel + 1, fo =>
    if fo < d.length ∧ lineEnd d fo < bs then
      (if (P (lineFrom d fo)).isSome then 1 else 0) + accCount P bs d fuel (lineEnd d fo + 1)
    else 0

/-- number of lines that start inside the first `bs` bytes, from line start `fo` on -/
def lineCount (bs : Nat) (d : Bytes) : Nat → Nat → Nat
  | 0, _ => 0
  | fuel + 1, fo =>
    if fo < d.length ∧ fo < bs then 1 + lineCount bs d fuel (lineEnd d fo + 1) else 0

theorem accCount_fuel (P : Bytes → Option Int) (bs : Nat) (d : Bytes) (k : Nat) :
    ∀ fuel fo, d.length ≤ fuel + fo →
      accCount P bs d (fuel + k) fo = accCount P bs d fuel fo := by
  intro fuel
  induction fuel with
  | zero =>
    intro fo hf
    cases k with
    | zero => rfl
    | succ k =>
      rw [Nat.zero_add]
      simp only [accCount]
      rw [if_neg (by omega)]
  | succ fuel ih =>
    intro fo hf
    rw [Nat.add_right_comm]
    simp only [accCount]
    split
    · rename_i h
      have := (isLineEnd_lineEnd d fo h.1).1
      rw [ih _ (by omega)]
    · rfl

theorem lineCount_fuel (bs : Nat) (d : Bytes) (k : Nat) :
    ∀ fuel fo, d.length ≤ fuel + fo →
      lineCount bs d (fuel + k) fo = lineCount bs d fuel fo := by
  intro fuel
  induction fuel with
  | zero =>
    intro fo hf
    cases k with
    | zero => rfl
    | succ k =>
      rw [Nat.zero_add]
      simp only [lineCount]
      rw [if_neg (by omega)]
  | succ fuel ih =>
    intro fo hf
    rw [Nat.add_right_comm]
    simp only [lineCount]
    split
    · rename_i h
      have := (isLineEnd_lineEnd d fo h.1).1
      rw [ih _ (by omega)]
    · rfl

/-- `accCount` with the fuel of the model -/
def acc (P : Bytes → Option Int) (bs : Nat) (d : Bytes) (fo : Nat) : Nat :=
  accCount P bs d (d.length + 1) fo

/-- `lineCount` with the fuel of the model -/
def lc (bs : Nat) (d : Bytes) (fo : Nat) : Nat := lineCount bs d (d.length + 1) fo

theorem acc_eq (P : Bytes → Option Int) (bs : Nat) (d : Bytes) (fo : Nat) :
    acc P bs d fo =
      if fo < d.length ∧ lineEnd d fo < bs then
        (if (P (lineFrom d fo)).isSome then 1 else 0) + acc P bs d (lineEnd d fo + 1)
      else 0 := by
  unfold acc
  rw [accCount]
  split
  · rw [accCount_fuel P bs d 1 d.length (lineEnd d fo + 1) (by omega)]
  · rfl

theorem lc_eq (bs : Nat) (d : Bytes) (fo : Nat) :
    lc bs d fo = if fo < d.length ∧ fo < bs then 1 + lc bs d (lineEnd d fo + 1) else 0 := by
  unfold lc
  rw [lineCount]
  split
  · rw [lineCount_fuel bs d 1 d.length (lineEnd d fo + 1) (by omega)]
  · rfl

theorem acc_zero_of_not (P : Bytes → Option Int) (bs : Nat) (d : Bytes) (fo : Nat)
    (h : ¬ (fo < d.length ∧ lineEnd d fo < bs)) : acc P bs d fo = 0 := by
  rw [acc_eq, if_neg h]

theorem lc_zero_of_not (bs : Nat) (d : Bytes) (fo : Nat) (h : ¬ (fo < d.length ∧ fo < bs)) :
    lc bs d fo = 0 := by
  rw [lc_eq, if_neg h]

theorem acc_zero_of_ge (P : Bytes → Option Int) (bs : Nat) (d : Bytes) (fo : Nat) (h : bs ≤ fo) :
    acc P bs d fo = 0 := by
  apply acc_zero_of_not
  rintro ⟨h1, h2⟩
  have := (isLineEnd_lineEnd d fo h1).1
  omega

/-- offset `fo` is a line start or the end of the file -/
def Boundary (d : Bytes) (fo : Nat) : Prop := fo ≤ d.length ∧ (fo = d.length ∨ IsStart d fo)

theorem boundary_next {d : Bytes} {fo : Nat} (hfo : fo < d.length) :
    Boundary d (lineEnd d fo + 1) := by
  have := (isLineEnd_lineEnd d fo hfo).2.1
  refine ⟨by omega, ?_⟩
  rcases Nat.lt_or_ge (lineEnd d fo + 1) d.length with h | h
  · exact Or.inr (isStart_next hfo h)
  · exact Or.inl (by omega)

/-- a line not found whole by `findLineInBlock` does not lie inside block zero -/
theorem acc_zero_of_not_found (P : Bytes → Option Int) (bs : Nat) (d : Bytes) (fo : Nat)
    (hbs : 1 ≤ bs) (h : ∀ n ps, findLineInBlock bs d fo ≠ .found n ps) : acc P bs d fo = 0 := by
  apply acc_zero_of_not
  rintro ⟨h1, h2⟩
  obtain ⟨ps, hf, _⟩ := findLineInBlock_block0 bs d fo hbs h1 h2
  exact h _ _ hf

/-- what a `.found` at a line start tells: the line bytes, and the step of `acc` -/
theorem found_at_start (P : Bytes → Option Int) (bs : Nat) (d : Bytes) (fo fo2 : Nat)
    (ps : List Part) (hbs : 1 ≤ bs) (hst : Boundary d fo)
    (h : findLineInBlock bs d fo = .found fo2 ps) :
    fo < d.length ∧ fo < fo2 ∧ fo2 = lineEnd d fo + 1 ∧ Boundary d fo2 ∧
      lineBytes d bs ps = lineFrom d fo ∧
      acc P bs d fo ≤ (if (P (lineFrom d fo)).isSome then 1 else 0) + acc P bs d fo2 := by
  obtain ⟨g1, g2, g3, g4⟩ := findLineInBlock_found_lt bs d fo fo2 ps hbs h
  have hs : IsStart d fo := by
    rcases hst.2 with e | e
    · omega
    · exact e
  obtain ⟨_, p, _, _, _, _, _, _, hc⟩ :=
    S4V.Lemmas.Lines.findLineInBlock_found bs d fo fo2 ps hbs h
  have hbytes : lineBytes d bs ps = lineFrom d fo := by
    have := hc.bytes
    rw [lineStart_of_isStart hs] at this
    exact this
  refine ⟨g1, g2, g4, ?_, hbytes, ?_⟩
  · rw [g4]; exact boundary_next g1
  · rw [acc_eq P bs d fo]
    split
    · rw [g4]; exact Nat.le_refl _
    · exact Nat.zero_le _

/-! ### the searches against the counts -/

theorem sibPartB_acc (P : Bytes → Option Int) (bs : Nat) (d : Bytes) (fin0 : Nat) (hbs : 1 ≤ bs) :
    ∀ fuel fo1 fin, 1 ≤ fuel → d.length + 1 ≤ fuel + fo1 → Boundary d fo1 → fin + 1 = fo1 →
      match sibPartB P bs d fin0 fuel fo1 fin with
      | .done => False
      | .donePartial => acc P bs d fo1 = 0
      | .found n => fo1 ≤ n ∧ Boundary d n ∧ acc P bs d fo1 ≤ acc P bs d n := by
  intro fuel
  induction fuel with
  | zero => intro _ _ h; omega
  | succ fuel ih =>
    intro fo1 fin _ hf hb hfin
    simp only [sibPartB]
    rcases h : findLineInBlock bs d fo1 with _ | ⟨fo2, ps⟩ | ps
    · have h0 := acc_zero_of_not_found P bs d fo1 hbs (by rw [h]; intro _ _ e; cases e)
      dsimp only
      by_cases hlt : fo1 < d.length - 1
      · rw [if_pos hlt]; exact h0
      · rw [if_neg hlt]
        exact ⟨by omega, by rw [hfin]; exact hb, by rw [hfin]; exact Nat.le_refl _⟩
    · obtain ⟨g1, g2, g3, g4, g5, g6⟩ := found_at_start P bs d fo1 fo2 ps hbs hb h
      dsimp only
      rw [g5]
      rcases hp : P (lineFrom d fo1) with _ | v
      · dsimp only
        rw [hp] at g6
        have := ih fo2 (fo2 - 1) (by omega) (by omega) g4 (by omega)
        revert this
        rcases sibPartB P bs d fin0 fuel fo2 (fo2 - 1) with n | _ | _
        · dsimp only
          rintro ⟨a1, a2, a3⟩
          exact ⟨by omega, a2, by simp at g6; omega⟩
        · dsimp only
          intro a
          simp at g6; omega
        · exact id
      · exact ⟨Nat.le_refl _, hb, Nat.le_refl _⟩
    · have h0 := acc_zero_of_not_found P bs d fo1 hbs (by rw [h]; intro _ _ e; cases e)
      dsimp only
      by_cases hlt : fo1 < d.length - 1
      · rw [if_pos hlt]; exact h0
      · rw [if_neg hlt]
        exact ⟨by omega, by rw [hfin]; exact hb, by rw [hfin]; exact Nat.le_refl _⟩

theorem findSyslineInBlock_acc (P : Bytes → Option Int) (bs : Nat) (d : Bytes) (hbs : 1 ≤ bs) :
    ∀ fuel fo, d.length + 1 ≤ fuel + fo → Boundary d fo →
      match findSyslineInBlock P bs d fuel fo with
      | .done => acc P bs d fo = 0
      | .donePartial => acc P bs d fo ≤ 1
      | .found n => fo < n ∧ Boundary d n ∧ acc P bs d fo ≤ acc P bs d n + 1 := by
  intro fuel
  induction fuel with
  | zero => intro fo hf hb; have := hb.1; omega
  | succ fuel ih =>
    intro fo hf hb
    simp only [findSyslineInBlock]
    rcases h : findLineInBlock bs d fo with _ | ⟨fo2, ps⟩ | ps
    · exact acc_zero_of_not_found P bs d fo hbs (by rw [h]; intro _ _ e; cases e)
    · obtain ⟨g1, g2, g3, g4, g5, g6⟩ := found_at_start P bs d fo fo2 ps hbs hb h
      dsimp only
      rw [g5]
      rcases hp : P (lineFrom d fo) with _ | v
      · dsimp only
        rw [hp] at g6
        have := ih fo2 (by omega) g4
        revert this
        rcases findSyslineInBlock P bs d fuel fo2 with n | _ | _
        · dsimp only
          rintro ⟨a1, a2, a3⟩
          exact ⟨by omega, a2, by simp at g6; omega⟩
        · dsimp only
          intro a
          simp at g6; omega
        · dsimp only
          intro a
          simp at g6; omega
      · dsimp only
        rw [hp] at g6
        simp only [Option.isSome_some, ↓reduceIte] at g6
        by_cases hlast : fo2 - 1 + 1 = d.length
        · rw [if_pos hlast]; exact ⟨g2, g4, by omega⟩
        · rw [if_neg hlast]
          have := sibPartB_acc P bs d (fo2 - 1) hbs (d.length + 1) fo2 (fo2 - 1) (by omega)
            (by omega) g4 (by omega)
          revert this
          rcases sibPartB P bs d (fo2 - 1) (d.length + 1) fo2 (fo2 - 1) with n | _ | _
          · dsimp only
            rintro ⟨a1, a2, a3⟩
            exact ⟨by omega, a2, by omega⟩
          · dsimp only
            intro a; omega
          · exact False.elim
    · have h0 := acc_zero_of_not_found P bs d fo hbs (by rw [h]; intro _ _ e; cases e)
      dsimp only
      rcases P (lineBytes d bs ps) with _ | v
      · exact h0
      · dsimp only; omega

theorem gateSyslinesLoop_ge_acc (P : Bytes → Option Int) (bs : Nat) (d : Bytes) (m : Nat)
    (hbs : 1 ≤ bs) :
    ∀ fuel fo found, d.length + 1 ≤ fuel + fo → Boundary d fo →
      min m (found + acc P bs d fo) ≤ gateSyslinesLoop P bs d m fuel fo found := by
  intro fuel
  induction fuel with
  | zero => intro fo _ hf hb; have := hb.1; omega
  | succ fuel ih =>
    intro fo found hf hb
    simp only [gateSyslinesLoop]
    split
    · rename_i hc
      rcases hc with hc | hc
      · omega
      · have : bs ≤ fo := by
          rcases Nat.lt_or_ge fo bs with h | h
          · exact absurd (Nat.div_eq_of_lt h) hc
          · exact h
        rw [acc_zero_of_ge P bs d fo this]
        omega
    · have := findSyslineInBlock_acc P bs d hbs (d.length + 1) fo (by omega) hb
      revert this
      rcases findSyslineInBlock P bs d (d.length + 1) fo with n | _ | _
      · dsimp only
        rintro ⟨a1, a2, a3⟩
        have := ih n (found + 1) (by omega) a2
        omega
      · dsimp only
        intro a; omega
      · dsimp only
        intro a; omega

theorem gateLinesLoop_ge_lc (bs : Nat) (d : Bytes) (m : Nat) (hbs : 1 ≤ bs) :
    ∀ fuel fo found, d.length + 1 ≤ fuel + fo → Boundary d fo →
      min m (found + lc bs d fo) ≤ gateLinesLoop bs d m fuel fo found := by
  intro fuel
  induction fuel with
  | zero => intro fo _ hf hb; have := hb.1; omega
  | succ fuel ih =>
    intro fo found hf hb
    simp only [gateLinesLoop]
    split
    · omega
    · rcases h : findLineInBlock bs d fo with _ | ⟨fo2, ps⟩ | ps
      · dsimp only
        have : lc bs d fo = 0 := by
          apply lc_zero_of_not
          rintro ⟨c1, c2⟩
          simp only [findLineInBlock] at h
          rw [if_neg (by omega)] at h
          obtain ⟨h0, h1⟩ := partAIB_done h
          have e1 : (fo - 1) / bs = 0 := Nat.div_eq_of_lt (by omega)
          have e2 : fo / bs = 0 := Nat.div_eq_of_lt c2
          omega
        omega
      · dsimp only
        obtain ⟨g1, g2, g3, g4⟩ := findLineInBlock_found_lt bs d fo fo2 ps hbs h
        have hlc : lc bs d fo ≤ 1 + lc bs d fo2 := by
          rw [lc_eq bs d fo]
          split
          · rw [g4]; exact Nat.le_refl _
          · exact Nat.zero_le _
        split
        · rename_i hc
          have : bs ≤ fo2 := by
            rcases Nat.lt_or_ge fo2 bs with h | h
            · exact absurd (Nat.div_eq_of_lt h) hc
            · exact h
          have : lc bs d fo2 = 0 := lc_zero_of_not bs d fo2 (by omega)
          omega
        · have := ih fo2 (found + 1) (by omega) (by rw [g4]; exact boundary_next g1)
          omega
      · dsimp only
        have hp := S4V.Lemmas.Lines.findLineInBlock_part bs d fo ps hbs h
        have : lc bs d fo ≤ 1 := by
          rw [lc_eq bs d fo]
          split
          · have hq : bs ≤ (fo / bs + 1) * bs := by
              rw [Nat.add_one_mul]; omega
            rw [lc_zero_of_not bs d _ (by omega)]
            exact Nat.le_refl _
          · exact Nat.zero_le _
        omega

/-- enough lines and enough accepted lines inside block zero: accepted -/
theorem gateWith_ok_counts (th : Thresholds) (P : Bytes → Option Int) (bs : Nat) (d : Bytes)
    (hbs : 1 ≤ bs)
    (h1 : min th.bytesMin bs ≤ min bs d.length)
    (h2 : (d.take (min th.nullMax bs)).all (· == 0) = false)
    (hl : th.lineMin (min bs d.length) ≤ lc bs d 0)
    (hs1 : 1 ≤ th.syslineMin (min bs d.length))
    (hs : th.syslineMin (min bs d.length) ≤ acc P bs d 0) :
    gateWith th P bs d = .ok := by
  have hb0 : blockAt d bs 0 = d.take bs := by simp [blockAt]
  have hB : Boundary d 0 := ⟨Nat.zero_le _, Or.inr (Or.inl rfl)⟩
  have hlines := gateLinesLoop_ge_lc bs d (th.lineMin (min bs d.length)) hbs (d.length + 1) 0 0
    (by omega) hB
  have hsys := gateSyslinesLoop_ge_acc P bs d (th.syslineMin (min bs d.length)) hbs
    (d.length + 1) 0 0 (by omega) hB
  unfold gateWith
  simp only [hb0, List.length_take, List.take_take]
  have hd : d.length ≠ 0 := by
    intro e
    have : acc P bs d 0 = 0 := acc_zero_of_not P bs d 0 (by omega)
    omega
  rw [if_neg hd, if_neg (by omega), h2]
  simp only [Bool.false_eq_true, ↓reduceIte]
  rw [if_neg (by omega), if_neg (by omega)]

/-! ### exactness: upper bounds, for parsers that reject the one-byte cut -/

/-- the parser accepts no input of one byte or less (in particular not the
partial line, cut at the start offset, of a line that leaves block zero) -/
def RejectsShort (P : Bytes → Option Int) : Prop := ∀ l : Bytes, l.length ≤ 1 → P l = none

/-- at the first byte of a later block `findLineInBlock` gives up (newline A is
in the previous block) -/
theorem findLineInBlock_blockstart (bs : Nat) (d : Bytes) (fo : Nat) (hbs : 1 ≤ bs) (h0 : fo ≠ 0)
    (hm : fo % bs = 0) : findLineInBlock bs d fo = .done := by
  simp only [findLineInBlock]
  split
  · rfl
  · unfold partAIB
    dsimp only
    rw [if_neg h0, if_pos]
    show (fo - 1) / bs ≠ fo / bs
    rcases pred_block fo bs hbs h0 with ⟨_, h⟩ | ⟨_, h, _⟩ <;> omega

theorem partAIB_part_shape {d : Bytes} {bs fo foNlB biMEnd : Nat} {parts : List Part}
    (hbs : 1 ≤ bs) (h : partAIB d bs fo false foNlB biMEnd = .part parts) :
    ∃ b, parts = [⟨fo / bs, b, biMEnd + 1⟩] ∧ b ≤ fo % bs ∧ fo / bs * bs + b = lineStart d fo := by
  simp only [partAIB, Bool.not_false, ↓reduceIte,
    blockOffsetAtFileOffset_eq, blockIndexAtFileOffset_eq] at h
  by_cases h0 : fo = 0
  · subst h0
    rw [if_pos rfl] at h
    injection h with hp
    refine ⟨0, hp.symm, Nat.zero_le _, ?_⟩
    have : lineStart d 0 = 0 := by have := (isLineStart_lineStart d 0).1; omega
    simp [this]
  · rw [if_neg h0] at h
    by_cases hb : (fo - 1) / bs = fo / bs
    · rw [if_neg (by simpa using hb)] at h
      rcases hsc : scanBwd (blockAt d bs (fo / bs)) ((fo - 1) % bs) with _ | i
      · rw [hsc] at h
        simp only [] at h
        by_cases hq0 : (fo - 1) / bs = 0
        · rw [if_pos hq0] at h
          injection h with hp
          refine ⟨0, hp.symm, Nat.zero_le _, ?_⟩
          have hno := scanA_none hbs h0 hb hsc
          rw [← hb, hq0] at hno ⊢
          have : lineStart d fo = 0 :=
            IsLineStart.eq ⟨Nat.zero_le _, Or.inl rfl, fun k _ hk => hno k (by omega) hk⟩
          omega
        · rw [if_neg hq0] at h
          cases h
      · rw [hsc] at h
        simp only [] at h
        injection h with hp
        obtain ⟨g1, g2⟩ := scanA_some hbs h0 hb hsc
        exact ⟨i + 1, hp.symm, g1, g2.symm⟩
    · rw [if_pos (by simpa using hb)] at h
      cases h

theorem partB1IB_false {d : Bytes} {bs last fo : Nat}
    (h : (partB1IB d bs last fo).1 = false) : (partB1IB d bs last fo).2.2 = fo % bs := by
  rcases hscan : scanFwd (blockAt d bs (fo / bs)) (fo % bs) with _ | i
  · by_cases hl : fo / bs = last
    · rw [partB1IB_none_last hscan hl] at h; cases h
    · rw [partB1IB_none_notlast hscan hl]
  · rw [partB1IB_some hscan] at h; cases h

/-- the partial line returned at a line start is the defect: at most one byte -/
theorem findLineInBlock_part_len (bs : Nat) (d : Bytes) (fo : Nat) (ps : List Part)
    (hbs : 1 ≤ bs) (hst : IsStart d fo) (h : findLineInBlock bs d fo = .part ps) :
    (lineBytes d bs ps).length ≤ 1 := by
  simp only [findLineInBlock] at h
  by_cases hfo : d.length = 0 ∨ fo ≥ d.length
  · rw [if_pos hfo] at h; cases h
  · rw [if_neg hfo] at h
    have hF := partAIB_part h
    have hE := partB1IB_false hF
    rw [hF, hE] at h
    obtain ⟨b, hp, hb1, hb2⟩ := partAIB_part_shape hbs h
    rw [lineStart_of_isStart hst] at hb2
    have hq := Nat.div_add_mod' fo bs
    have : b = fo % bs := by omega
    subst this
    subst hp
    simp only [lineBytes, partsBytes, List.foldr_cons, List.foldr_nil, List.append_nil, Part.bytes,
      List.length_take]
    omega

theorem acc_next_le (P : Bytes → Option Int) (bs : Nat) (d : Bytes) (fo : Nat)
    (hfo : fo < d.length) : acc P bs d (lineEnd d fo + 1) ≤ acc P bs d fo := by
  rw [acc_eq P bs d fo]
  split
  · omega
  · rw [acc_zero_of_ge P bs d _ (by omega)]
    exact Nat.le_refl _

theorem isStart_of_boundary {d : Bytes} {fo : Nat} (hb : Boundary d fo) (hfo : fo < d.length) :
    IsStart d fo := by
  rcases hb.2 with e | e
  · omega
  · exact e

theorem sibPartB_acc_le (P : Bytes → Option Int) (bs : Nat) (d : Bytes) (fin0 : Nat)
    (hbs : 1 ≤ bs) :
    ∀ fuel fo1 fin, Boundary d fo1 → fin + 1 = fo1 →
      match sibPartB P bs d fin0 fuel fo1 fin with
      | .found n => Boundary d n ∧ acc P bs d n ≤ acc P bs d fo1
      | _ => True := by
  intro fuel
  induction fuel with
  | zero => intro _ _ _ _; simp only [sibPartB]
  | succ fuel ih =>
    intro fo1 fin hb hfin
    simp only [sibPartB]
    rcases h : findLineInBlock bs d fo1 with _ | ⟨fo2, ps⟩ | ps
    · dsimp only
      by_cases hlt : fo1 < d.length - 1
      · rw [if_pos hlt]; trivial
      · rw [if_neg hlt, hfin]; exact ⟨hb, Nat.le_refl _⟩
    · obtain ⟨g1, g2, g3, g4, g5, g6⟩ := found_at_start P bs d fo1 fo2 ps hbs hb h
      dsimp only
      rw [g5]
      rcases hp : P (lineFrom d fo1) with _ | v
      · dsimp only
        have := ih fo2 (fo2 - 1) g4 (by omega)
        revert this
        rcases sibPartB P bs d fin0 fuel fo2 (fo2 - 1) with n | _ | _
        · dsimp only
          rintro ⟨a1, a2⟩
          have := acc_next_le P bs d fo1 g1
          rw [← g3] at this
          exact ⟨a1, by omega⟩
        · exact id
        · exact id
      · exact ⟨hb, Nat.le_refl _⟩
    · dsimp only
      by_cases hlt : fo1 < d.length - 1
      · rw [if_pos hlt]; trivial
      · rw [if_neg hlt, hfin]; exact ⟨hb, Nat.le_refl _⟩

theorem findSyslineInBlock_acc_le (P : Bytes → Option Int) (bs : Nat) (d : Bytes) (hbs : 1 ≤ bs)
    (hP : RejectsShort P) :
    ∀ fuel fo, Boundary d fo → fo ≤ bs →
      match findSyslineInBlock P bs d fuel fo with
      | .done => True
      | .donePartial => 1 ≤ acc P bs d fo
      | .found n => Boundary d n ∧ acc P bs d n + 1 ≤ acc P bs d fo := by
  intro fuel
  induction fuel with
  | zero => intro _ _ _; simp only [findSyslineInBlock]
  | succ fuel ih =>
    intro fo hb hle
    simp only [findSyslineInBlock]
    rcases h : findLineInBlock bs d fo with _ | ⟨fo2, ps⟩ | ps
    · trivial
    · obtain ⟨g1, g2, g3, g4, g5, g6⟩ := found_at_start P bs d fo fo2 ps hbs hb h
      have hlt : fo < bs := by
        rcases Nat.lt_or_ge fo bs with c | c
        · exact c
        · have e : fo = bs := by omega
          rw [findLineInBlock_blockstart bs d fo hbs (by omega) (by rw [e]; exact Nat.mod_self _)] at h
          cases h
      obtain ⟨_, p, _, q2, _, q4, _, q6, _⟩ :=
        S4V.Lemmas.Lines.findLineInBlock_found bs d fo fo2 ps hbs h
      have hq : fo / bs = 0 := Nat.div_eq_of_lt hlt
      rw [q2, hq] at q6
      have hE : lineEnd d fo < bs := by omega
      have hacc := acc_eq P bs d fo
      rw [if_pos ⟨g1, hE⟩, ← g3] at hacc
      dsimp only
      rw [g5]
      rcases hp : P (lineFrom d fo) with _ | v
      · dsimp only
        rw [hp] at hacc
        simp only [Option.isSome_none, Bool.false_eq_true, ↓reduceIte, Nat.zero_add] at hacc
        have := ih fo2 g4 (by omega)
        rw [hacc]
        exact this
      · dsimp only
        rw [hp] at hacc
        simp only [Option.isSome_some, ↓reduceIte] at hacc
        by_cases hlast : fo2 - 1 + 1 = d.length
        · rw [if_pos hlast]; exact ⟨g4, by omega⟩
        · rw [if_neg hlast]
          have := sibPartB_acc_le P bs d (fo2 - 1) hbs (d.length + 1) fo2 (fo2 - 1) g4 (by omega)
          revert this
          rcases sibPartB P bs d (fo2 - 1) (d.length + 1) fo2 (fo2 - 1) with n | _ | _
          · dsimp only
            rintro ⟨a1, a2⟩
            exact ⟨a1, by omega⟩
          · dsimp only
            intro _; omega
          · exact id
    · have hfo : fo < d.length := by
        rcases Nat.lt_or_ge fo d.length with c | c
        · exact c
        · rw [findLineInBlock_ge bs d fo c] at h; cases h
      dsimp only
      rw [hP _ (findLineInBlock_part_len bs d fo ps hbs (isStart_of_boundary hb hfo) h)]
      trivial

theorem gateSyslinesLoop_le_acc (P : Bytes → Option Int) (bs : Nat) (d : Bytes) (m : Nat)
    (hbs : 1 ≤ bs) (hP : RejectsShort P) :
    ∀ fuel fo found, Boundary d fo →
      gateSyslinesLoop P bs d m fuel fo found ≤ found + acc P bs d fo := by
  intro fuel
  induction fuel with
  | zero => intro fo found _; simp only [gateSyslinesLoop]; omega
  | succ fuel ih =>
    intro fo found hb
    simp only [gateSyslinesLoop]
    split
    · omega
    · rename_i hc
      have hlt : fo < bs := by
        rcases Nat.lt_or_ge fo bs with c | c
        · exact c
        · exfalso
          apply hc
          refine Or.inr ?_
          have : 1 ≤ fo / bs := (Nat.le_div_iff_mul_le (by omega)).mpr (by omega)
          simp only [blockOffsetAtFileOffset_eq]
          omega
      have := findSyslineInBlock_acc_le P bs d hbs hP (d.length + 1) fo hb (by omega)
      revert this
      rcases findSyslineInBlock P bs d (d.length + 1) fo with n | _ | _
      · dsimp only
        rintro ⟨a1, a2⟩
        have := ih n (found + 1) a1
        omega
      · dsimp only
        intro _; omega
      · dsimp only
        intro _; omega

theorem gateLinesLoop_le_lc (bs : Nat) (d : Bytes) (m : Nat) (hbs : 1 ≤ bs) :
    ∀ fuel fo found, fo < bs → gateLinesLoop bs d m fuel fo found ≤ found + lc bs d fo := by
  intro fuel
  induction fuel with
  | zero => intro fo found _; simp only [gateLinesLoop]; omega
  | succ fuel ih =>
    intro fo found hlt
    simp only [gateLinesLoop]
    split
    · omega
    · rcases h : findLineInBlock bs d fo with _ | ⟨fo2, ps⟩ | ps
      · dsimp only; omega
      · dsimp only
        obtain ⟨g1, g2, g3, g4⟩ := findLineInBlock_found_lt bs d fo fo2 ps hbs h
        have hlc := lc_eq bs d fo
        rw [if_pos ⟨g1, hlt⟩, ← g4] at hlc
        split
        · omega
        · rename_i hc
          have hlt2 : fo2 < bs := by
            rcases Nat.lt_or_ge fo2 bs with c | c
            · exact c
            · exfalso
              apply hc
              have : 1 ≤ fo2 / bs := (Nat.le_div_iff_mul_le (by omega)).mpr (by omega)
              simp only [blockOffsetAtFileOffset_eq]
              omega
          have := ih fo2 (found + 1) hlt2
          omega
      · dsimp only
        have hfo : fo < d.length := by
          rcases Nat.lt_or_ge fo d.length with c | c
          · exact c
          · rw [findLineInBlock_ge bs d fo c] at h; cases h
        have hlc := lc_eq bs d fo
        rw [if_pos ⟨hfo, hlt⟩] at hlc
        omega

/-- the gate, computed from the two counts: no block walk, no fuel -/
def gateSpec (th : Thresholds) (P : Bytes → Option Int) (bs : Nat) (d : Bytes) : Verdict :=
  if d.length = 0 then .empty
  else if min bs d.length < min th.bytesMin bs then .tooSmall
  else if (d.take (min th.nullMax bs)).all (· == 0) then .nullBytes
  else if lc bs d 0 < th.lineMin (min bs d.length) then .noLines
  else if acc P bs d 0 < th.syslineMin (min bs d.length) then .noSyslines
  else .ok

/-- for a parser that rejects inputs of at most one byte (and a message
threshold of at least one) the gate IS `gateSpec` -/
theorem gateWith_eq_spec (th : Thresholds) (P : Bytes → Option Int) (bs : Nat) (d : Bytes)
    (hbs : 1 ≤ bs) (hP : RejectsShort P) (hs1 : 1 ≤ th.syslineMin (min bs d.length)) :
    gateWith th P bs d = gateSpec th P bs d := by
  have hb0 : blockAt d bs 0 = d.take bs := by simp [blockAt]
  have hB : Boundary d 0 := ⟨Nat.zero_le _, Or.inr (Or.inl rfl)⟩
  have hl1 := gateLinesLoop_ge_lc bs d (th.lineMin (min bs d.length)) hbs (d.length + 1) 0 0
    (by omega) hB
  have hl2 := gateLinesLoop_le_lc bs d (th.lineMin (min bs d.length)) hbs (d.length + 1) 0 0
    (by omega)
  have hy1 := gateSyslinesLoop_ge_acc P bs d (th.syslineMin (min bs d.length)) hbs
    (d.length + 1) 0 0 (by omega) hB
  have hy2 := gateSyslinesLoop_le_acc P bs d (th.syslineMin (min bs d.length)) hbs hP
    (d.length + 1) 0 0 hB
  unfold gateWith gateSpec
  simp only [hb0, List.length_take, List.take_take]
  by_cases hd : d.length = 0
  · rw [if_pos hd, if_pos hd]
  · rw [if_neg hd, if_neg hd]
    by_cases h1 : min bs d.length < min th.bytesMin bs
    · rw [if_pos h1, if_pos h1]
    · rw [if_neg h1, if_neg h1]
      by_cases h2 : (d.take (min th.nullMax bs)).all (· == 0) = true
      · rw [if_pos h2, if_pos h2]
      · rw [if_neg h2, if_neg h2]
        by_cases h3 : lc bs d 0 < th.lineMin (min bs d.length)
        · rw [if_pos (by omega), if_pos h3]
        · rw [if_neg (by omega), if_neg h3]
          by_cases h4 : acc P bs d 0 < th.syslineMin (min bs d.length)
          · rw [if_pos (Or.inr (by omega)), if_pos h4]
          · rw [if_neg (by omega), if_neg h4]

/-! ### block sizes that hold the whole file -/

theorem accCount_whole (P : Bytes → Option Int) (bs : Nat) (d : Bytes) (hbs : d.length ≤ bs) :
    ∀ fuel fo, accCount P bs d fuel fo = accCount P d.length d fuel fo := by
  intro fuel
  induction fuel with
  | zero => intro fo; rfl
  | succ fuel ih =>
    intro fo
    rw [accCount, accCount, ih]
    by_cases hfo : fo < d.length
    · have := (isLineEnd_lineEnd d fo hfo).2.1
      have c1 : fo < d.length ∧ lineEnd d fo < bs := ⟨hfo, by omega⟩
      have c2 : fo < d.length ∧ lineEnd d fo < d.length := ⟨hfo, this⟩
      rw [if_pos c1, if_pos c2]
    · have c1 : ¬ (fo < d.length ∧ lineEnd d fo < bs) := fun h => hfo h.1
      have c2 : ¬ (fo < d.length ∧ lineEnd d fo < d.length) := fun h => hfo h.1
      rw [if_neg c1, if_neg c2]

theorem lineCount_whole (bs : Nat) (d : Bytes) (hbs : d.length ≤ bs) :
    ∀ fuel fo, lineCount bs d fuel fo = lineCount d.length d fuel fo := by
  intro fuel
  induction fuel with
  | zero => intro fo; rfl
  | succ fuel ih =>
    intro fo
    rw [lineCount, lineCount, ih]
    by_cases hfo : fo < d.length
    · have c1 : fo < d.length ∧ fo < bs := ⟨hfo, by omega⟩
      have c2 : fo < d.length ∧ fo < d.length := ⟨hfo, hfo⟩
      rw [if_pos c1, if_pos c2]
    · have c1 : ¬ (fo < d.length ∧ fo < bs) := fun h => hfo h.1
      have c2 : ¬ (fo < d.length ∧ fo < d.length) := fun h => hfo h.1
      rw [if_neg c1, if_neg c2]

/-- every block size that holds the whole file (of at least `bytesMin` bytes)
gives the verdict of `bs = |d|` -/
theorem gateSpec_whole (th : Thresholds) (P : Bytes → Option Int) (bs : Nat) (d : Bytes)
    (hlen : th.bytesMin ≤ d.length) (hbs : d.length ≤ bs) :
    gateSpec th P bs d = gateSpec th P d.length d := by
  unfold gateSpec
  have e1 : min bs d.length = d.length := by omega
  have e2 : d.take (min th.nullMax bs) = d.take (min th.nullMax d.length) := by
    rw [List.take_eq_take_min, List.take_eq_take_min (i := min th.nullMax d.length)]
    congr 1; omega
  have e3 : lc bs d 0 = lc d.length d 0 := lineCount_whole bs d hbs _ _
  have e4 : acc P bs d 0 = acc P d.length d 0 := accCount_whole P bs d hbs _ _
  have c1 : ¬ d.length < min th.bytesMin bs := by omega
  have c2 : ¬ d.length < th.bytesMin := by omega
  simp only [e1, e2, e3, e4, Nat.min_self, c1, c2, ↓reduceIte, Nat.lt_min, Nat.lt_irrefl, and_false]

end S4V.Lemmas.Gate
