/-
General lemmas about the render-program interpreter `S4V.Model.FixedRender` (no generated table is
unfolded here; the per-layout facts are decided in `S4V.Props.FixedRenderSpec`).
-/
import S4V.Model.FixedRender

namespace S4V.Lemmas.FixedRender
open S4V.Gen.Fixed (Prim)
open S4V.Gen.FixedRender
open S4V.Model.Fixed (Bytes leNat ofStored slice)
open S4V.Model.FixedRender

/-! ### which bytes an op reads -/

/-- byte ranges `(offset, size)` of the record an op reads -/
def opReads : Op → List (Nat × Nat)
  | .utType f _ => [(f.off, f.prim.bytes)]
  | .num f _ => [(f.off, f.prim.bytes)]
  | .f32 _ _ off => [(off, 4)]
  | .bin4 f => [(f.off, 1)]
  | .flagNames f _ _ _ => [(f.off, 1)]
  | .cstrn _ _ off len _ => [(off, len)]
  | .addr _ _ off _ _ _ => [(off, 16)]
  | _ => []

/-- index of the top-level struct field an op reads -/
def opTops : Op → List Nat
  | .utType f _ => [f.top]
  | .num f _ => [f.top]
  | .f32 _ top _ => [top]
  | .bin4 f => [f.top]
  | .flagNames f _ _ _ => [f.top]
  | .cstrn _ top _ _ _ => [top]
  | .addr _ top _ _ _ _ => [top]
  | _ => []

/-- two records hold the same bytes in every listed range -/
def AgreeOn (ranges : List (Nat × Nat)) (r r' : Bytes) : Prop :=
  ∀ p ∈ ranges, ∀ i, p.1 ≤ i → i < p.1 + p.2 → r[i]? = r'[i]?

theorem getElem?_slice (r : Bytes) (off n i : Nat) :
    (slice r off n)[i]? = if i < n then r[off + i]? else none := by
  unfold slice
  rw [List.getElem?_take]
  split
  · rw [List.getElem?_drop]
  · rfl

theorem slice_congr {r r' : Bytes} {off n : Nat}
    (h : ∀ i, off ≤ i → i < off + n → r[i]? = r'[i]?) : slice r off n = slice r' off n := by
  apply List.ext_getElem?
  intro i
  rw [getElem?_slice, getElem?_slice]
  split
  · exact h (off + i) (by omega) (by omega)
  · rfl

theorem agreeOn_sub {r r' : Bytes} {a n b m : Nat}
    (h : ∀ i, a ≤ i → i < a + n → r[i]? = r'[i]?) (h1 : a ≤ b) (h2 : b + m ≤ a + n) :
    slice r b m = slice r' b m :=
  slice_congr fun i hi hj => h i (by omega) (by omega)

theorem storedAt_congr {r r' : Bytes} {off n : Nat} (h : slice r off n = slice r' off n) :
    storedAt r off n = storedAt r' off n := by
  unfold storedAt; rw [h]

/-- an op's text depends only on the bytes in `opReads` -/
theorem emit_congr {r r' : Bytes} (op : Op) (h : AgreeOn (opReads op) r r') : emit r op = emit r' op := by
  cases op with
  | str s => rfl
  | byte b => rfl
  | dtBeg => rfl
  | dtEnd => rfl
  | utType f p =>
    have := slice_congr (h (f.off, f.prim.bytes) (by simp [opReads]))
    simp only [emit, fieldInt, storedAt, this]
  | num f c =>
    have := slice_congr (h (f.off, f.prim.bytes) (by simp [opReads]))
    simp only [emit, fieldInt, storedAt, this]
  | f32 p t off =>
    have := slice_congr (h (off, 4) (by simp [opReads]))
    simp only [emit, storedAt, this]
  | bin4 f =>
    have := slice_congr (h (f.off, 1) (by simp [opReads]))
    simp only [emit, storedAt, this]
  | cstrn p t off len sg =>
    have := slice_congr (h (off, len) (by simp [opReads]))
    simp only [emit, cstrText, this]
  | flagNames f o n c =>
    have := slice_congr (h (f.off, 1) (by simp [opReads]))
    simp only [emit, storedAt, this]
  | addr p t off w l4 l6 =>
    have h16 := h (off, 16) (by simp [opReads])
    have e0 : slice r off 1 = slice r' off 1 := agreeOn_sub h16 (by omega) (by omega)
    have e1 : slice r (off + 1) 1 = slice r' (off + 1) 1 := agreeOn_sub h16 (by omega) (by omega)
    have e2 : slice r (off + 2) 1 = slice r' (off + 2) 1 := agreeOn_sub h16 (by omega) (by omega)
    have e3 : slice r (off + 3) 1 = slice r' (off + 3) 1 := agreeOn_sub h16 (by omega) (by omega)
    have w0 : slice r off 4 = slice r' off 4 := agreeOn_sub h16 (by omega) (by omega)
    have w1 : slice r (off + 4) 4 = slice r' (off + 4) 4 := agreeOn_sub h16 (by omega) (by omega)
    have w2 : slice r (off + 8) 4 = slice r' (off + 8) 4 := agreeOn_sub h16 (by omega) (by omega)
    have w3 : slice r (off + 12) 4 = slice r' (off + 12) 4 := agreeOn_sub h16 (by omega) (by omega)
    have hv : addrIsV4 r off = addrIsV4 r' off := by simp only [addrIsV4, storedAt, w1, w2, w3]
    have h4 : ipv4Text r off = ipv4Text r' off := by simp only [ipv4Text, storedAt, e0, e1, e2, e3]
    have h6 : ipv6Text r off = ipv6Text r' off := by simp only [ipv6Text, storedAt, w0, w1, w2, w3]
    simp only [emit, hv, h4, h6]

theorem agreeOn_append {a b : List (Nat × Nat)} {r r' : Bytes} (h : AgreeOn (a ++ b) r r') :
    AgreeOn a r r' ∧ AgreeOn b r r' :=
  ⟨fun p hp => h p (List.mem_append_left _ hp), fun p hp => h p (List.mem_append_right _ hp)⟩

/-- a program's text depends only on the bytes its ops read -/
theorem progText_congr {r r' : Bytes} (ops : List Op) (h : AgreeOn (ops.flatMap opReads) r r') :
    progText r ops = progText r' ops := by
  induction ops with
  | nil => rfl
  | cons op rest ih =>
    simp only [List.flatMap_cons] at h
    have ⟨h1, h2⟩ := agreeOn_append h
    simp only [progText, List.flatMap_cons]
    rw [emit_congr op h1]
    have := ih h2
    simp only [progText] at this
    rw [this]

theorem render_congr {r r' : Bytes} (l : LayoutR) (h : AgreeOn (l.prog.flatMap opReads) r r') :
    render l r = render l r' := by
  unfold render; rw [progText_congr l.prog h]

/-- every range of `small` lies inside some range of `big` -/
def covers (big small : List (Nat × Nat)) : Bool :=
  small.all fun s => big.any fun b => decide (b.1 ≤ s.1) && decide (s.1 + s.2 ≤ b.1 + b.2)

theorem agreeOn_of_covers {big small : List (Nat × Nat)} {r r' : Bytes}
    (hc : covers big small = true) (h : AgreeOn big r r') : AgreeOn small r r' := by
  intro p hp i h1 h2
  have := List.all_eq_true.mp hc p hp
  obtain ⟨b, hb, hbb⟩ := List.any_eq_true.mp this
  simp only [Bool.and_eq_true, decide_eq_true_eq] at hbb
  exact h b hb i (by omega) (by omega)

/-! ### shape: literals and values -/

inductive Kind
  /-- a fixed string of the program -/
  | lit
  /-- the text of a field's value -/
  | val
  /-- continuation of the preceding value (the flag names after the `0b…` bits of the same byte) -/
  | cont
  deriving DecidableEq, Repr

/-- the pieces an op contributes, statically -/
def kinds : Op → List Kind
  | .str _ => [.lit]
  | .byte _ => [.lit]
  | .dtBeg => []
  | .dtEnd => []
  | .flagNames _ _ _ _ => [.cont]
  | .addr _ _ _ _ _ _ => [.lit, .val]
  | _ => [.val]

/-- the pieces an op contributes for a record -/
def pieces (r : Bytes) : Op → List (Kind × Bytes)
  | .str s => [(.lit, s)]
  | .byte b => [(.lit, [b])]
  | .dtBeg => []
  | .dtEnd => []
  | .flagNames f o n c => [(.cont, emit r (.flagNames f o n c))]
  | .addr _ _ off _ l4 l6 =>
    if addrIsV4 r off then [(.lit, l4), (.val, ipv4Text r off)] else [(.lit, l6), (.val, ipv6Text r off)]
  | op => [(.val, emit r op)]

theorem pieces_text (r : Bytes) (op : Op) : (pieces r op).flatMap (·.2) = emit r op := by
  cases op <;> simp [pieces, emit]
  case addr p t off w l4 l6 => split <;> simp

theorem pieces_kinds (r : Bytes) (op : Op) : (pieces r op).map (·.1) = kinds op := by
  cases op <;> simp [pieces, kinds]
  case addr p t off w l4 l6 => split <;> simp

def progPieces (r : Bytes) (ops : List Op) : List (Kind × Bytes) := ops.flatMap (pieces r)

theorem progPieces_text (r : Bytes) (ops : List Op) : (progPieces r ops).flatMap (·.2) = progText r ops := by
  induction ops with
  | nil => rfl
  | cons op rest ih =>
    simp only [progPieces, progText, List.flatMap_cons, List.flatMap_append] at ih ⊢
    rw [pieces_text, ih]

theorem progPieces_kinds (r : Bytes) (ops : List Op) : (progPieces r ops).map (·.1) = ops.flatMap kinds := by
  induction ops with
  | nil => rfl
  | cons op rest ih =>
    simp only [progPieces, List.flatMap_cons, List.map_append] at ih ⊢
    rw [pieces_kinds, ih]

/-- every value piece directly follows a literal, every continuation directly follows a value -/
def wellLabelled : Option Kind → List Kind → Bool
  | _, [] => true
  | _, .lit :: ks => wellLabelled (some .lit) ks
  | prev, .val :: ks => (prev == some .lit) && wellLabelled (some .val) ks
  | prev, .cont :: ks => (prev == some .val) && wellLabelled (some .cont) ks

/-- the labels of a program: maximal runs of literal ops merged, plus both labels of an address block -/
def labelsAux : Bytes → List Op → List Bytes
  | cur, [] => if cur = [] then [] else [cur]
  | cur, .str s :: r => labelsAux (cur ++ s) r
  | cur, .byte b :: r => labelsAux (cur ++ [b]) r
  | cur, .dtBeg :: r => labelsAux cur r
  | cur, .dtEnd :: r => labelsAux cur r
  | cur, .addr _ _ _ _ l4 l6 :: r => (if cur = [] then [] else [cur]) ++ [l4, l6] ++ labelsAux [] r
  | cur, _ :: r => (if cur = [] then [] else [cur]) ++ labelsAux [] r

def labels (ops : List Op) : List Bytes := labelsAux [] ops

/-- literal ops carry non-empty strings -/
def litsNonEmpty (ops : List Op) : Bool :=
  ops.all fun
    | .str s => !s.isEmpty
    | .addr _ _ _ _ l4 l6 => !l4.isEmpty && !l6.isEmpty
    | _ => true

/-! ### decimal text is injective -/

theorem digitChar_toNat : ∀ d, d < 10 → (digitChar d).toNat = 48 + d := by decide

def valOf (bs : Bytes) : Nat := bs.foldl (fun a b => 10 * a + (b.toNat - 48)) 0

theorem valOf_append_single (xs : Bytes) (b : UInt8) : valOf (xs ++ [b]) = 10 * valOf xs + (b.toNat - 48) := by
  simp [valOf, List.foldl_append]

theorem valOf_decFuel : ∀ (fuel n : Nat), n < fuel → valOf (decFuel fuel n) = n := by
  intro fuel
  induction fuel with
  | zero => intro n h; omega
  | succ f ih =>
    intro n h
    unfold decFuel
    split
    · next h10 => simp [valOf, digitChar_toNat n h10]
    · next h10 =>
      rw [valOf_append_single, ih (n / 10) (by omega), digitChar_toNat _ (Nat.mod_lt _ (by omega))]
      omega

theorem valOf_decNat (n : Nat) : valOf (decNat n) = n := valOf_decFuel (n + 1) n (by omega)

theorem decNat_injective {a b : Nat} (h : decNat a = decNat b) : a = b := by
  have := congrArg valOf h
  rwa [valOf_decNat, valOf_decNat] at this

theorem decFuel_digits : ∀ (fuel n : Nat), ∀ c ∈ decFuel fuel n, 48 ≤ c.toNat ∧ c.toNat ≤ 57 := by
  intro fuel
  induction fuel with
  | zero => intro n c h; simp [decFuel] at h
  | succ f ih =>
    intro n c h
    unfold decFuel at h
    split at h
    · next h10 =>
      simp only [List.mem_singleton] at h
      subst h; rw [digitChar_toNat n h10]; omega
    · next h10 =>
      rcases List.mem_append.mp h with h | h
      · exact ih _ c h
      · simp only [List.mem_singleton] at h
        subst h; rw [digitChar_toNat _ (Nat.mod_lt _ (by omega))]
        have := Nat.mod_lt n (show 10 > 0 by omega); omega

theorem decNat_ne_nil (n : Nat) : decNat n ≠ [] := by
  unfold decNat decFuel
  split
  · simp
  · simp

theorem decNat_head_ne_minus (n : Nat) : ∀ t, decNat n ≠ 45 :: t := by
  intro t h
  have := decFuel_digits (n + 1) n 45 (by unfold decNat at h; rw [h]; simp)
  simp at this

/-- `numtoa` text determines the number -/
theorem decInt_injective {a b : Int} (h : decInt a = decInt b) : a = b := by
  unfold decInt at h
  split at h <;> split at h
  · have := decNat_injective (List.cons.inj h).2; omega
  · exact absurd h.symm (decNat_head_ne_minus _ _)
  · exact absurd h (decNat_head_ne_minus _ _)
  · have := decNat_injective h; omega

/-! ### decoding is injective in the stored bytes -/

theorem leNat_lt : ∀ (bs : Bytes), leNat bs < 256 ^ bs.length := by
  intro bs
  induction bs with
  | nil => simp [leNat]
  | cons b r ih =>
    simp only [leNat, List.length_cons, Nat.pow_succ]
    have := b.toNat_lt
    omega

theorem leNat_injective : ∀ (a b : Bytes), a.length = b.length → leNat a = leNat b → a = b := by
  intro a
  induction a with
  | nil => intro b hl _; cases b with
    | nil => rfl
    | cons _ _ => simp at hl
  | cons x xs ih =>
    intro b hl h
    cases b with
    | nil => simp at hl
    | cons y ys =>
      simp only [leNat] at h
      have hx := x.toNat_lt
      have hy := y.toNat_lt
      have h1 : x.toNat = y.toNat := by omega
      have h2 : leNat xs = leNat ys := by omega
      have := ih ys (by simpa using hl) h2
      rw [this, UInt8.toNat_inj.mp h1]

/-! ### a value op in the middle of a program -/

theorem progText_append (r : Bytes) (a b : List Op) : progText r (a ++ b) = progText r a ++ progText r b := by
  simp [progText, List.flatMap_append]

/-- if two records give the same text before and after one op but different text for that op, the
whole lines differ -/
theorem render_ne_of_mid {l : LayoutR} {pre post : List Op} {op : Op} {r r' : Bytes}
    (hp : l.prog = pre ++ op :: post)
    (hpre : AgreeOn (pre.flatMap opReads) r r') (hpost : AgreeOn (post.flatMap opReads) r r')
    (hne : emit r op ≠ emit r' op) : render l r ≠ render l r' := by
  intro h
  unfold render at h
  rw [hp, progText_append, progText_append] at h
  have h := List.append_cancel_right h
  rw [progText_congr pre hpre] at h
  have h := List.append_cancel_left h
  have e : ∀ x, progText x (op :: post) = emit x op ++ progText x post := by
    intro x; simp [progText, List.flatMap_cons]
  rw [e, e, progText_congr post hpost] at h
  exact hne (List.append_cancel_right h)

end S4V.Lemmas.FixedRender
