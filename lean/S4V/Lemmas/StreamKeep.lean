/-
A streamed reader (gz, bz2, lz4) after `disable_drop_data`: the look-back drop of
`read_block_File{Gz,Bz2,Lz4}` goes through `drop_block`, which returns at once, so every decoded
block stays in `blocks` and any later request — in ANY order — is answered from there.
-/
import S4V.Lemmas.Stream

namespace S4V.Lemmas.StreamKeep
open S4V.Gen.Blocks S4V.Gen.Stream S4V.Model.Lines S4V.Model.Stream S4V.Lemmas.Blocks
  S4V.Lemmas.Stream

/-- invariant of a streamed reader with `drop_data` off after `n` blocks were decoded: all of them
are still in `blocks` -/
structure KInv (d : Bytes) (r : Rd) (n : Nat) : Prop where
  hbs : 1 ≤ r.bs
  hfsz : r.fsz = d.length
  hk : DecOk r.kind r.bs r.dec.cs
  good : Good d r.bs r.blocks
  goodL : Good d r.bs r.lru
  hread : ∀ j, j ∈ r.blocksRead ↔ j < n
  hpos : r.dec.rest = d.drop (n * r.bs)
  /-- nothing was dropped -/
  hall : ∀ j, j < n → mget r.blocks j = some (blockAt d r.bs j)
  hn : 0 < n → n - 1 ≤ blockOffsetLast d.length r.bs
  hdd : r.dropData = false

/-- with `drop_data` off the look-back drop is a no-op -/
theorem afterDecode_keep (r : Rd) (n old : Nat) (b : Bytes) (dec' : Dec) (h : r.dropData = false) :
    afterDecode r n old b dec' = storeLru (storeBlock { r with dec := dec' } n b) n b := by
  unfold afterDecode
  split
  · exact dropBlock_off _ _ h
  · rfl

theorem KInv.step {d : Bytes} {r : Rd} {n : Nat} (h : KInv d r n) (hd : d ≠ [])
    (hk : n ≤ blockOffsetLast d.length r.bs) (old : Nat) (dec' : Dec)
    (hrest : dec'.rest = d.drop ((n + 1) * r.bs)) (hok : DecOk r.kind r.bs dec'.cs) :
    KInv d (afterDecode r n old (blockAt d r.bs n) dec') (n + 1)
      ∧ (afterDecode r n old (blockAt d r.bs n) dec').bs = r.bs
      ∧ (afterDecode r n old (blockAt d r.bs n) dec').kind = r.kind := by
  have hne := blockAt_ne_nil d r.bs n h.hbs hd hk
  have hnot : n ∉ r.blocksRead := fun hm => by have := (h.hread n).mp hm; omega
  rw [afterDecode_keep r n old _ dec' h.hdd]
  refine ⟨⟨h.hbs, h.hfsz, hok, h.good.mins n _ rfl hne, h.goodL.lruPut n _ rfl hne, ?_, hrest, ?_, ?_, h.hdd⟩, rfl, rfl⟩
  · intro j
    simp only [storeLru, storeBlock, hnot, if_false, List.mem_cons]
    rw [h.hread j]
    omega
  · intro j hj
    simp only [storeLru, storeBlock]
    by_cases hjn : j = n
    · subst hjn; exact mget_mins_self _ _ _
    · rw [mget_mins_ne _ _ _ _ hjn]
      exact h.hall j (by omega)
  · intro _
    show n + 1 - 1 ≤ blockOffsetLast d.length r.bs
    omega

/-- the decode phase of the loop with nothing dropped: from `n` blocks decoded, asking for `k ≥ n`
decodes `n..k`, returns block `k`, and leaves `k + 1` decoded and held -/
theorem streamLoop_decode_keep (d : Bytes) (hd : d ≠ []) :
    ∀ (fuel : Nat) (r : Rd) (n k old : Nat), KInv d r n → n ≤ k → k ≤ blockOffsetLast d.length r.bs →
      k + 1 - n ≤ fuel →
      ∃ r', streamLoop fuel r k n old = (.found (blockAt d r.bs k), r') ∧ KInv d r' (k + 1)
        ∧ r'.bs = r.bs ∧ r'.kind = r.kind := by
  intro fuel
  induction fuel with
  | zero => intro r n k _ _ h1 _ h3; omega
  | succ fuel ih =>
    intro r n k old h h1 h2 h3
    have hlen : 0 < d.length := List.length_pos_iff.mpr hd
    have hnl : n ≤ blockOffsetLast d.length r.bs := by omega
    have hnot : n ∉ r.blocksRead := fun hm => by have := (h.hread n).mp hm; omega
    have hsz := szAt_eq d r n h.hbs h.hfsz hd hnl
    have hlt := (le_blockOffsetLast_iff d.length r.bs n h.hbs hlen).mp hnl
    have hbl := blockAt_length d r.bs n
    obtain ⟨s', e1, e2, e3⟩ := decodeBlock_spec r.kind r.bs r.dec (r.szAt n) h.hk
      (by rw [hsz, hbl]; omega) (by rw [hsz, hbl, h.hpos, List.length_drop]; omega)
    have eb : r.dec.rest.take (r.szAt n) = blockAt d r.bs n := by
      rw [hsz, hbl, h.hpos]
      unfold blockAt
      rw [← List.length_drop, take_min_length]
    rw [eb] at e1
    have erest : s'.rest = d.drop ((n + 1) * r.bs) := by
      rw [e2, h.hpos, List.drop_drop, hsz, hbl]
      have hmul : (n + 1) * r.bs = n * r.bs + r.bs := by rw [Nat.add_mul]; omega
      have : r.bs ≤ d.length - n * r.bs ∨ d.length - n * r.bs < r.bs := by omega
      rcases this with hh | hh
      · rw [Nat.min_eq_left hh, hmul]
      · rw [List.drop_of_length_le (by rw [Nat.min_eq_right (by omega)]; omega),
          List.drop_of_length_le (by omega)]
    obtain ⟨hstep, hbs', hkind⟩ := h.step hd hnl old s' erest e3
    have hne := blockAt_ne_nil d r.bs n h.hbs hd hnl
    have hemp : (blockAt d r.bs n).isEmpty = false := by
      cases hb : blockAt d r.bs n with
      | nil => exact absurd hb hne
      | cons _ _ => rfl
    rw [streamLoop, if_pos h1, if_neg hnot, e1]
    simp only [hemp, Bool.false_eq_true, if_false]
    by_cases hnk : n = k
    · subst hnk
      rw [if_pos rfl]
      exact ⟨_, rfl, hstep, hbs', hkind⟩
    · rw [if_neg hnk]
      obtain ⟨r', f1, f2, f3, f4⟩ := ih (afterDecode r n old (blockAt d r.bs n) s') (n + 1) k n hstep
        (by omega) (by rw [hbs']; exact h2) (by omega)
      rw [hbs'] at f1
      exact ⟨r', f1, f2, by rw [f3, hbs'], by rw [f4, hkind]⟩

/-- `read_block(k)` on a streamed reader with `drop_data` off, whatever was asked before -/
theorem readBlock_keep (d : Bytes) (r : Rd) (n k : Nat) (h : KInv d r n) :
    ∃ r' n', readBlock r k = (specRes d r.bs k, r') ∧ KInv d r' n' ∧ r'.bs = r.bs := by
  have hlast := last_eq d r h.hfsz
  unfold readBlock specRes
  rw [hlast]
  by_cases hk : k > blockOffsetLast d.length r.bs
  · rw [if_pos hk, if_pos hk]
    exact ⟨r, n, rfl, h, rfl⟩
  · rw [if_neg hk, if_neg hk]
    by_cases hd : d = []
    · subst hd
      have hn0 : n = 0 := by
        rcases Nat.eq_zero_or_pos n with h0 | h0
        · exact h0
        · have := h.hall (n - 1) (by omega)
          rw [h.good.empty_of_nil] at this
          cases this
      subst hn0
      rw [h.goodL.empty_of_nil k]
      have hnot : k ∉ r.blocksRead := fun hm => by have := (h.hread k).mp hm; omega
      simp only [hnot, if_false, List.isEmpty_nil, if_true]
      rw [dispatch_stream r k r.bs _ h.hk]
      unfold readStream
      rw [if_pos (by rw [h.hfsz]; rfl)]
      exact ⟨r, 0, rfl, h, rfl⟩
    · have hemp : d.isEmpty = false := by
        cases d with
        | nil => exact absurd rfl hd
        | cons _ _ => rfl
      simp only [hemp, Bool.false_eq_true, if_false]
      cases hl : mget r.lru k with
      | some b =>
        obtain ⟨e1, e2⟩ := h.goodL.get hl
        simp only
        subst e1
        exact ⟨{ r with lru := mins r.lru k (blockAt d r.bs k) }, n, rfl,
          ⟨h.hbs, h.hfsz, h.hk, h.good, h.goodL.mins k _ rfl e2, h.hread, h.hpos, h.hall, h.hn, h.hdd⟩, rfl⟩
      | none =>
        simp only
        by_cases hm : k ∈ r.blocksRead
        · have hkn : k < n := (h.hread k).mp hm
          rw [if_pos hm, h.hall k hkn]
          simp only
          exact ⟨storeLru r k (blockAt d r.bs k), n, rfl,
            ⟨h.hbs, h.hfsz, h.hk, h.good, h.goodL.lruPut _ _ rfl (blockAt_ne_nil d r.bs _ h.hbs hd (by omega)),
              h.hread, h.hpos, h.hall, h.hn, h.hdd⟩, rfl⟩
        · have hkn : n ≤ k := by
            rcases Nat.lt_or_ge k n with hh | hh
            · exact absurd ((h.hread k).mpr hh) hm
            · exact hh
          rw [if_neg hm, dispatch_stream r k r.bs _ h.hk]
          unfold readStream
          have hlen : 0 < d.length := List.length_pos_iff.mpr hd
          rw [if_neg (by rw [h.hfsz]; omega), maxRead_eq r n h.hread]
          by_cases h0 : n = 0
          · subst h0
            obtain ⟨r', f1, f2, f3, _⟩ := streamLoop_decode_keep d hd (k + 2) r 0 k (0 - 1) h (by omega) (by omega) (by omega)
            exact ⟨r', k + 1, f1, f2, f3⟩
          · have hin : n - 1 ∈ r.blocksRead := (h.hread _).mpr (by omega)
            obtain ⟨r', f1, f2, f3, _⟩ := streamLoop_decode_keep d hd (k + 1) r n k (n - 1) h hkn (by omega) (by omega)
            refine ⟨r', k + 1, ?_, f2, f3⟩
            rw [streamLoop, if_pos (by omega), if_pos hin, if_neg (by omega)]
            have : n - 1 + 1 = n := by omega
            rw [this]
            exact f1

/-- any request sequence, in any order: every answer is the plain reader's -/
theorem readSeq_keep (d : Bytes) :
    ∀ (ks : List Nat) (r : Rd) (n : Nat), KInv d r n → (readSeq r ks).1 = ks.map (specRes d r.bs) := by
  intro ks
  induction ks with
  | nil => intro r n _; rfl
  | cons k ks ih =>
    intro r n h
    obtain ⟨r', n', e1, e2, e3⟩ := readBlock_keep d r n k h
    have := ih r' n' e2
    simp only [readSeq, List.map_cons, e1]
    rw [this, e3]

/-- the reader right after `new` + `disable_drop_data` -/
theorem KInv.new (kind : Kind) (bs : Nat) (d : Bytes) (cs csPre : List Nat) (hbs : 1 ≤ bs)
    (hk : DecOk kind bs cs) :
    KInv d (Rd.new kind bs d cs csPre).disableDropData 0 ∧ (Rd.new kind bs d cs csPre).disableDropData.bs = bs := by
  obtain ⟨h, e⟩ := SInv.new kind bs d cs csPre hbs hk
  exact ⟨⟨h.hbs, h.hfsz, h.hk, h.good, h.goodL, h.hread, h.hpos, by intro j hj; omega, by intro h0; omega, rfl⟩, e⟩

end S4V.Lemmas.StreamKeep
