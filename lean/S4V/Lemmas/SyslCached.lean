/-
Lemmas for the cached `SyslineReader` model (`S4V.Model.SyslCached`): the
invariant of the stored state, its preservation by every operation, and the
answers of `check_store` / `find_sysline` / `find_sysline_in_block`.

Readable statements are in `S4V.Props.SyslCacheSpec`. Core Lean only.
-/
import S4V.Lemmas.Syslines
import S4V.Lemmas.LinesCached
import S4V.Model.SyslCached

namespace S4V.Lemmas.SyslCached
open S4V.Model.Syslines S4V.Model.SyslCached S4V.Lemmas.Syslines S4V.Gen.SyslCache
open S4V.Lemmas.LinesCached (KeysDistinct)

/-! ### geometry: lines without a timestamp, relative to the messages -/

theorem Blocks.headless_in {s : Nat} {S : List LineInfo} {Ms : List Sysl} (hB : Blocks s S Ms)
    {l : LineInfo} (hl : l ∈ S) (hdt : l.dt = none) : ∃ m ∈ Ms, m.beg < l.beg ∧ l.fin ≤ m.fin := by
  induction hB with
  | nil => cases hl
  | @cons s h t c R Ms ht hc hw hB ih =>
    rcases List.mem_cons.1 hl with rfl | hl
    · rw [ht] at hdt; cases hdt
    · rcases List.mem_append.1 hl with hl | hl
      · refine ⟨_, List.mem_cons_self .., ?_, ?_⟩
        · have := mem_bounds hw.2.2 hl
          have := hw.2.1
          show h.beg < l.beg
          omega
        · have := mem_bounds hw.2.2 hl
          show l.fin ≤ endOf s (h :: c) - 1
          simp only [endOf_cons]
          omega
      · obtain ⟨m, hm, h1⟩ := ih hl
        exact ⟨m, List.mem_cons_of_mem _ hm, h1⟩

/-- a line without a timestamp lies before every message (head-less prefix) or inside a
message, after its first line -/
theorem headless_line_cases {ls : List LineInfo} (hwf : WFLines ls) {l : LineInfo} (hl : l ∈ ls)
    (hdt : l.dt = none) :
    (∀ m ∈ messages ls, l.fin < m.beg) ∨ ∃ m ∈ messages ls, m.beg < l.beg ∧ l.fin ≤ m.fin := by
  obtain ⟨A, S, hls, hA, hB⟩ := decomp hwf
  have hM : messages ls = messagesAux S none := by rw [hls]; exact messages_eq_of_decomp hA
  rw [hM]
  rw [hls] at hl
  rcases List.mem_append.1 hl with hl | hl
  · left
    intro m hm
    have hwA : WFFrom 0 A := by
      have : WFFrom 0 (A ++ S) := by rw [← hls]; exact hwf
      exact ((WFFrom_append 0 A S).1 this).1
    have := mem_bounds hwA hl
    have := hB.mem_bounds hm
    omega
  · right
    exact Blocks.headless_in hB hl hdt

/-- two messages sharing an offset are the same message -/
theorem msg_unique {ls : List LineInfo} (hwf : WFLines ls) {m m' : Sysl} (hm : m ∈ messages ls)
    (hm' : m' ∈ messages ls) {x : Nat} (h1 : m.beg ≤ x) (h2 : x ≤ m.fin) (h3 : m'.beg ≤ x)
    (h4 : x ≤ m'.fin) : m = m' := by
  have a := findSysline_inside hwf hm h1 h2
  have b := findSysline_inside hwf hm' h3 h4
  rw [a] at b
  injection b

/-! ### part A with the store in view = part A -/

/-- `known` marks whole true messages -/
def KnownTrue (ls : List LineInfo) (known : Nat → Bool) : Prop :=
  ∀ x, known x = true → ∃ m ∈ messages ls, m.beg ≤ x ∧ x ≤ m.fin ∧
    ∀ y, m.beg ≤ y → y ≤ m.fin → known y = true

theorem slPartAC_eq {ls : List LineInfo} (hwf : WFLines ls) {known : Nat → Bool}
    (hk : KnownTrue ls known) :
    ∀ (fuel fo1 : Nat) (z : Bool) (M : Nat), (z = false → known fo1 = false) →
      slPartAC ls known fuel fo1 z M = slPartA ls fuel fo1 z M := by
  intro fuel
  induction fuel with
  | zero => intro fo1 z M _; rfl
  | succ f ih =>
    intro fo1 z M hz
    unfold slPartAC slPartA
    cases hl : lineAt ls fo1 with
    | none => rfl
    | some l =>
      simp only
      cases hdt : l.dt with
      | some t => rfl
      | none =>
        simp only
        cases z with
        | true => simp only [if_true]; exact ih _ _ _ (by intro h; cases h)
        | false =>
          simp only [Bool.false_eq_true, if_false]
          by_cases hb : l.beg > 1
          · simp only [hb, if_true]
            have hfo := hz rfl
            obtain ⟨hlm, hl1, hl2⟩ := (lineAt_some_iff hwf fo1 l).1 hl
            have hkn : known (l.beg - 1) = false := by
              cases hkv : known (l.beg - 1) with
              | false => rfl
              | true =>
                exfalso
                obtain ⟨m, hm, hm1, hm2, hm3⟩ := hk _ hkv
                rcases headless_line_cases hwf hlm hdt with hc | ⟨m0, hm0, hc1, hc2⟩
                · have := hc m hm; omega
                · have : m = m0 := msg_unique hwf hm hm0 hm1 hm2 (by omega) (by omega)
                  subst this
                  have := hm3 fo1 (by omega) (by omega)
                  rw [hfo] at this; cases this
            simp only [hkn, Bool.false_eq_true, if_false]
            exact ih _ _ _ (fun _ => hkn)
          · simp only [hb, if_false]
            exact ih _ _ _ (by intro h; cases h)

/-! ### answers -/

/-- the cache-free answer -/
def Ans (ls : List LineInfo) (fo : Nat) : CRes := ofRes (findSysline ls fo)

theorem msg_nonempty {ls : List LineInfo} (hwf : WFLines ls) {m : Sysl} (hm : m ∈ messages ls) :
    m.beg ≤ m.fin :=
  ((messages_geom hwf).1.mem_bounds hm).2.1

theorem ans_inside {ls : List LineInfo} (hwf : WFLines ls) {m : Sysl} (hm : m ∈ messages ls)
    {fo : Nat} (h1 : m.beg ≤ fo) (h2 : fo ≤ m.fin) : Ans ls fo = .found (m.fin + 1) m := by
  unfold Ans
  rw [findSysline_inside hwf hm h1 h2]
  rfl

theorem found_mem {ls : List LineInfo} (hwf : WFLines ls) {fo n : Nat} {s : Sysl}
    (h : findSysline ls fo = .found n s) : s ∈ messages ls ∧ n = s.fin + 1 := by
  rw [findSysline_eq hwf] at h
  unfold fsM at h
  cases hf : (messages ls).find? (fun m => decide (fo ≤ m.fin)) with
  | none => rw [hf] at h; cases h
  | some m =>
    rw [hf] at h
    injection h with h1 h2
    subst h2
    exact ⟨List.mem_of_find?_eq_some hf, h1.symm⟩

/-! ### containers -/

theorem slGet_some {m : List Sysl} {k : Nat} {s : Sysl} (h : slGet m k = some s) :
    s ∈ m ∧ s.beg = k := by
  unfold slGet at h
  have h1 := List.find?_some h
  simp only [beq_iff_eq] at h1
  exact ⟨List.mem_of_find?_eq_some h, h1⟩

theorem find_filter_ne (m : List Sysl) {b k : Nat} (h : k ≠ b) :
    (m.filter (·.beg != b)).find? (·.beg == k) = m.find? (·.beg == k) := by
  induction m with
  | nil => rfl
  | cons a r ih =>
    rw [List.filter_cons]
    by_cases ha : a.beg = b
    · have h1 : (a.beg != b) = false := by simp [ha]
      have h2 : (a.beg == k) = false := by
        simp only [beq_eq_false_iff_ne, ne_eq]; omega
      rw [h1]
      simp only [Bool.false_eq_true, if_false, List.find?_cons, h2]
      exact ih
    · have h1 : (a.beg != b) = true := by simp [ha]
      rw [h1]
      simp only [if_true, List.find?_cons]
      rw [ih]

theorem find_filter_eq (m : List Sysl) (b : Nat) :
    (m.filter (·.beg != b)).find? (·.beg == b) = none := by
  rw [List.find?_eq_none]
  intro x hx
  have := (List.mem_filter.1 hx).2
  simpa using this

theorem slGet_slInsert (m : List Sysl) (s : Sysl) (k : Nat) :
    slGet (slInsert m s) k = if s.beg = k then some s else slGet m k := by
  unfold slInsert slGet
  by_cases hk : s.beg = k
  · subst hk
    simp
  · have : (s.beg == k) = false := by simp [hk]
    simp only [List.find?_cons, this, hk, if_false]
    exact find_filter_ne m (fun h => hk h.symm)

theorem slGet_slRemove (m : List Sysl) (b k : Nat) :
    slGet (slRemove m b) k = if k = b then none else slGet m k := by
  unfold slRemove slGet
  by_cases hk : k = b
  · subst hk
    simp only [if_true]
    exact find_filter_eq m k
  · simp only [hk, if_false]
    exact find_filter_ne m hk

theorem rmGet_some {m : List (Nat × Nat × Nat)} {fo v : Nat} (h : rmGet m fo = some v) :
    ∃ e ∈ m, e.1 ≤ fo ∧ fo < e.2.1 ∧ e.2.2 = v := by
  unfold rmGet at h
  cases hf : m.find? (fun e => e.1 ≤ fo && fo < e.2.1) with
  | none => rw [hf] at h; cases h
  | some e =>
    rw [hf] at h
    simp only [Option.map_some, Option.some.injEq] at h
    have h1 := List.find?_some hf
    simp only [Bool.and_eq_true, decide_eq_true_eq] at h1
    exact ⟨e, List.mem_of_find?_eq_some hf, h1.1, h1.2, h⟩

theorem rmGet_isSome_of_mem {m : List (Nat × Nat × Nat)} {fo : Nat} {e : Nat × Nat × Nat}
    (he : e ∈ m) (h1 : e.1 ≤ fo) (h2 : fo < e.2.1) : (rmGet m fo).isSome = true := by
  unfold rmGet
  rw [Option.isSome_map, List.find?_isSome]
  exact ⟨e, he, by simp [h1, h2]⟩

theorem mem_lruPut {l : List (Nat × CRes)} {fo : Nat} {r : CRes} {p : Nat × CRes}
    (h : p ∈ lruPut l fo r) : p = (fo, r) ∨ p ∈ l := by
  unfold lruPut at h
  have := List.mem_of_mem_take h
  rcases List.mem_cons.mp this with h | h
  · exact Or.inl h
  · exact Or.inr (List.mem_filter.mp h).1

theorem lruGet_some {l : List (Nat × CRes)} {fo : Nat} {r : CRes} (h : lruGet l fo = some r) :
    (fo, r) ∈ l := by
  unfold lruGet at h
  cases hf : l.find? (·.1 == fo) with
  | none => rw [hf] at h; cases h
  | some e =>
    rw [hf] at h
    simp only [Option.map_some, Option.some.injEq] at h
    have h1 := List.find?_some hf
    have h2 := List.mem_of_find?_eq_some hf
    simp only [beq_iff_eq] at h1
    obtain ⟨e1, e2⟩ := e
    simp only at h h1
    subst h h1
    exact h2

/-! ### the invariant -/

structure Inv (ls : List LineInfo) (st : Store) : Prop where
  /-- every stored message is a true message of the file (bounds and instant) -/
  sl_true : ∀ s ∈ st.syslines, s ∈ messages ls
  /-- every range is `[beg, end+1) ↦ beg` of a true message (it may have been dropped from
  `syslines` since: `drop_sysline` leaves the range behind) -/
  rng_true : ∀ e ∈ st.byRange, ∃ m ∈ messages ls, e = (m.beg, m.fin + 1, m.beg)
  /-- every LRU entry is the cache-free answer for its key -/
  lru_true : ∀ p ∈ st.lru, p.2 = Ans ls p.1
  lru_len : st.lru.length ≤ lruCap
  lru_keys : KeysDistinct st.lru

/-- every range whose message is gone from `syslines` ends at or before `k` -/
def StaleBelow (st : Store) (k : Nat) : Prop :=
  ∀ e ∈ st.byRange, (slGet st.syslines e.2.2).isSome = true ∨ e.2.1 ≤ k

instance (st : Store) (k : Nat) : Decidable (StaleBelow st k) := by
  unfold StaleBelow; exact inferInstance

theorem inv_empty (ls : List LineInfo) (b : Bool) : Inv ls ⟨[], [], [], b⟩ where
  sl_true := fun _ h => by cases h
  rng_true := fun _ h => by cases h
  lru_true := fun _ h => by cases h
  lru_len := Nat.zero_le _
  lru_keys := List.Pairwise.nil

theorem staleBelow_empty (b : Bool) (k : Nat) : StaleBelow ⟨[], [], [], b⟩ k :=
  fun _ h => by cases h

theorem Inv.lruPut {ls : List LineInfo} {st : Store} (h : Inv ls st) (fo : Nat) (r : CRes)
    (hr : r = Ans ls fo) : Inv ls { st with lru := lruPut st.lru fo r } where
  sl_true := h.sl_true
  rng_true := h.rng_true
  lru_true := by
    intro p hp
    rcases mem_lruPut hp with rfl | hp
    · exact hr
    · exact h.lru_true p hp
  lru_len := by unfold S4V.Model.SyslCached.lruPut; exact List.length_take_le _ _
  lru_keys := by unfold S4V.Model.SyslCached.lruPut; exact (h.lru_keys.cons_filter fo r).take _

theorem Inv.lruPromote {ls : List LineInfo} {st : Store} (h : Inv ls st) (fo : Nat) :
    Inv ls { st with lru := lruPromote st.lru fo } := by
  unfold S4V.Model.SyslCached.lruPromote
  cases hf : st.lru.find? (·.1 == fo) with
  | none => exact h
  | some e =>
    have h1 := List.find?_some hf
    have h2 := List.mem_of_find?_eq_some hf
    simp only [beq_iff_eq] at h1
    obtain ⟨e1, e2⟩ := e
    simp only at h1
    subst h1
    exact {
      sl_true := h.sl_true
      rng_true := h.rng_true
      lru_true := by
        intro p hp
        rcases List.mem_cons.mp hp with rfl | hp
        · exact h.lru_true _ h2
        · exact h.lru_true p (List.mem_filter.mp hp).1
      lru_len := by
        have hlt : (st.lru.filter (·.1 != e1)).length < st.lru.length :=
          List.length_filter_lt_length_iff_exists.mpr ⟨(e1, e2), h2, by simp⟩
        have := h.lru_len
        simp only [List.length_cons]
        omega
      lru_keys := h.lru_keys.cons_filter e1 e2 }

/-- cutting a true message's range out of a map of true-message ranges removes whole
entries only: what is left are entries of the map that do not meet the range -/
theorem mem_rmRemove_true {ls : List LineInfo} (hwf : WFLines ls) {m : List (Nat × Nat × Nat)}
    (hm : ∀ e ∈ m, ∃ m' ∈ messages ls, e = (m'.beg, m'.fin + 1, m'.beg)) {s : Sysl}
    (hs : s ∈ messages ls) {x : Nat × Nat × Nat} (hx : x ∈ rmRemove m s.beg (s.fin + 1)) :
    x ∈ m ∧ (x.2.1 ≤ s.beg ∨ s.fin + 1 ≤ x.1) := by
  unfold rmRemove at hx
  obtain ⟨e, he, hx⟩ := List.mem_flatMap.1 hx
  by_cases hd : e.2.1 ≤ s.beg ∨ s.fin + 1 ≤ e.1
  · rw [if_pos hd] at hx
    have := List.mem_singleton.1 hx
    subst this
    exact ⟨he, hd⟩
  · rw [if_neg hd] at hx
    exfalso
    obtain ⟨m', hm', rfl⟩ := hm e he
    simp only at hd hx
    have h1 := msg_nonempty hwf hm'
    have h2 := msg_nonempty hwf hs
    have : m' = s := msg_unique hwf hm' hs (x := max m'.beg s.beg) (by omega) (by omega) (by omega) (by omega)
    subst this
    simp at hx

theorem Inv.insert {ls : List LineInfo} (hwf : WFLines ls) {st : Store} (h : Inv ls st) {s : Sysl}
    (hs : s ∈ messages ls) : Inv ls (insertSysline st s) where
  sl_true := by
    intro x hx
    unfold insertSysline slInsert at hx
    rcases List.mem_cons.1 hx with rfl | hx
    · exact hs
    · exact h.sl_true x (List.mem_filter.1 hx).1
  rng_true := by
    intro e he
    unfold insertSysline rmInsert at he
    rcases List.mem_cons.1 he with rfl | he
    · exact ⟨s, hs, rfl⟩
    · exact h.rng_true e (mem_rmRemove_true hwf h.rng_true hs he).1
  lru_true := h.lru_true
  lru_len := h.lru_len
  lru_keys := h.lru_keys

theorem StaleBelow.insert {ls : List LineInfo} (hwf : WFLines ls) {st : Store} (h : Inv ls st)
    {s : Sysl} (hs : s ∈ messages ls) {k : Nat} (hk : StaleBelow st k) :
    StaleBelow (insertSysline st s) k := by
  intro e he
  unfold insertSysline rmInsert at he
  simp only [insertSysline]
  rw [slGet_slInsert]
  rcases List.mem_cons.1 he with rfl | he
  · left; simp
  · have := (mem_rmRemove_true hwf h.rng_true hs he).1
    rcases hk e this with h1 | h1
    · left
      by_cases hb : s.beg = e.2.2
      · simp [hb]
      · simpa [hb] using h1
    · exact Or.inr h1

/-- `rmContains` of a store satisfying the invariant marks whole true messages -/
theorem knownTrue_of_inv {ls : List LineInfo} {st : Store} (h : Inv ls st) :
    KnownTrue ls (rmContains st.byRange) := by
  intro x hx
  unfold rmContains at hx
  cases hg : rmGet st.byRange x with
  | none => rw [hg] at hx; cases hx
  | some v =>
    obtain ⟨e, he, h1, h2, _⟩ := rmGet_some hg
    obtain ⟨m, hm, rfl⟩ := h.rng_true e he
    simp only at h1 h2
    refine ⟨m, hm, h1, by omega, ?_⟩
    intro y hy1 hy2
    unfold rmContains
    exact rmGet_isSome_of_mem he hy1 (by simp only; omega)

/-! ### `check_store` -/

/-- what one lookup guarantees -/
structure Good (ls : List LineInfo) (st : Store) (fo : Nat) (r : CRes) (st' : Store) : Prop where
  inv : Inv ls st'
  /-- never a wrong answer -/
  sound : r = Ans ls fo ∨ r = .panic
  /-- no panic at or after the stale ranges; no new stale range -/
  stale : ∀ k, StaleBelow st k → StaleBelow st' k ∧ (k ≤ fo → r = Ans ls fo)
  flag : st'.lruEnabled = st.lruEnabled

theorem stored_eq_of_beg {ls : List LineInfo} (hwf : WFLines ls) {m s : Sysl}
    (hm : m ∈ messages ls) (hs : s ∈ messages ls) (hb : s.beg = m.beg) : s = m := by
  have h1 := msg_nonempty hwf hm
  have h2 := msg_nonempty hwf hs
  exact msg_unique hwf hs hm (x := s.beg) (Nat.le_refl _) h2 (by omega) (by omega)

theorem checkStore_spec {ls : List LineInfo} (hwf : WFLines ls) {st st' : Store} {fo : Nat}
    {r : CRes} (hI : Inv ls st) (h : checkStore ls st fo = some (r, st')) : Good ls st fo r st' := by
  unfold checkStore at h
  cases hL : (if st.lruEnabled then lruGet st.lru fo else none) with
  | some r0 =>
    simp only [hL, Option.some.injEq, Prod.mk.injEq] at h
    obtain ⟨rfl, rfl⟩ := h
    have hmem : (fo, r0) ∈ st.lru := by
      cases he : st.lruEnabled with
      | false => rw [he] at hL; simp at hL
      | true => rw [he] at hL; simp only [if_true] at hL; exact lruGet_some hL
    have hr : r0 = Ans ls fo := hI.lru_true _ hmem
    exact ⟨hI.lruPromote fo, Or.inl hr, fun k hk => ⟨hk, fun _ => hr⟩, rfl⟩
  | none =>
    simp only [hL] at h
    cases hR : rmGet st.byRange fo with
    | some v =>
      simp only [hR] at h
      obtain ⟨e, he, he1, he2, hev⟩ := rmGet_some hR
      obtain ⟨m, hm, rfl⟩ := hI.rng_true e he
      simp only at he1 he2 hev
      cases hS : slGet st.syslines v with
      | none =>
        simp only [hS, Option.some.injEq, Prod.mk.injEq] at h
        obtain ⟨rfl, rfl⟩ := h
        refine ⟨hI, Or.inr rfl, fun k hk => ⟨hk, fun hle => ?_⟩, rfl⟩
        exfalso
        rcases hk _ he with h1 | h1
        · simp only [hev, hS] at h1; cases h1
        · simp only at h1; omega
      | some s =>
        simp only [hS, Option.some.injEq, Prod.mk.injEq] at h
        obtain ⟨rfl, rfl⟩ := h
        obtain ⟨hs1, hs2⟩ := slGet_some hS
        have hsm := hI.sl_true s hs1
        have : s = m := stored_eq_of_beg hwf hm hsm (by omega)
        subst this
        have hr : CRes.found (s.fin + 1) s = Ans ls fo := (ans_inside hwf hsm he1 (by omega)).symm
        exact ⟨hI.lruPut fo _ hr, Or.inl hr, fun k hk => ⟨hk, fun _ => hr⟩, rfl⟩
    | none =>
      simp only [hR] at h
      cases hS : slGet st.syslines fo with
      | none => simp only [hS] at h; cases h
      | some s =>
        simp only [hS] at h
        obtain ⟨hs1, hs2⟩ := slGet_some hS
        have hsm := hI.sl_true s hs1
        have hr : CRes.found (s.fin + 1) s = Ans ls fo :=
          (ans_inside hwf hsm (by omega) (by have := msg_nonempty hwf hsm; omega)).symm
        by_cases hc : (isSyslineLast ls s || st.lruEnabled) = true
        · rw [if_pos hc] at h
          simp only [Option.some.injEq, Prod.mk.injEq] at h
          obtain ⟨rfl, rfl⟩ := h
          exact ⟨hI.lruPut fo _ hr, Or.inl hr, fun k hk => ⟨hk, fun _ => hr⟩, rfl⟩
        · rw [if_neg hc] at h
          simp only [Option.some.injEq, Prod.mk.injEq] at h
          obtain ⟨rfl, rfl⟩ := h
          exact ⟨hI, Or.inl hr, fun k hk => ⟨hk, fun _ => hr⟩, rfl⟩

theorem checkStore_none {ls : List LineInfo} {st : Store} {fo : Nat}
    (h : checkStore ls st fo = none) : rmContains st.byRange fo = false := by
  unfold checkStore at h
  cases hL : (if st.lruEnabled then lruGet st.lru fo else none) with
  | some r0 => simp only [hL] at h; cases h
  | none =>
    simp only [hL] at h
    cases hR : rmGet st.byRange fo with
    | some v =>
      simp only [hR] at h
      cases hS : slGet st.syslines v with
      | none => simp only [hS] at h; cases h
      | some s => simp only [hS] at h; cases h
    | none => unfold rmContains; rw [hR]; rfl

/-! ### the walk after a miss -/

/-- storing a found message and (when enabled) caching the answer -/
def storeFound (st : Store) (fo : Nat) (s : Sysl) : Store :=
  if st.lruEnabled then
    { insertSysline st s with lru := lruPut (insertSysline st s).lru fo (.found (s.fin + 1) s) }
  else insertSysline st s

theorem storeFound_good {ls : List LineInfo} (hwf : WFLines ls) {st : Store} (hI : Inv ls st)
    {fo : Nat} {s : Sysl} (hs : s ∈ messages ls) (hr : CRes.found (s.fin + 1) s = Ans ls fo) :
    Good ls st fo (.found (s.fin + 1) s) (storeFound st fo s) := by
  have hI1 := hI.insert hwf hs
  unfold storeFound
  by_cases he : st.lruEnabled = true
  · rw [if_pos he]
    exact ⟨hI1.lruPut fo _ hr, Or.inl hr,
      fun k hk => ⟨StaleBelow.insert hwf hI hs hk, fun _ => hr⟩, rfl⟩
  · rw [if_neg he]
    exact ⟨hI1, Or.inl hr, fun k hk => ⟨StaleBelow.insert hwf hI hs hk, fun _ => hr⟩, rfl⟩

theorem findSysline_of_partA {ls : List LineInfo} {fo : Nat} :
    findSysline ls fo = match slPartA ls (2 * ls.length + 2) fo false 0 with
      | none => .done
      | some h => .found ((msgFrom ls h).fin + 1) (msgFrom ls h) := by
  simp only [findSysline, msgFrom]
  cases slPartA ls (2 * ls.length + 2) fo false 0 <;> rfl

theorem findSyslineCached_spec {ls : List LineInfo} (hwf : WFLines ls) {st : Store} (hI : Inv ls st)
    (fo : Nat) : Good ls st fo (findSyslineCached ls st fo).1 (findSyslineCached ls st fo).2 := by
  unfold findSyslineCached
  cases hc : checkStore ls st fo with
  | some x =>
    obtain ⟨r, st'⟩ := x
    exact checkStore_spec hwf hI hc
  | none =>
    simp only
    have hk := checkStore_none hc
    rw [slPartAC_eq hwf (knownTrue_of_inv hI) _ _ _ _ (fun _ => hk)]
    have hf := findSysline_of_partA (ls := ls) (fo := fo)
    cases hA : slPartA ls (2 * ls.length + 2) fo false 0 with
    | none =>
      rw [hA] at hf
      have hr : CRes.done = Ans ls fo := by unfold Ans; rw [hf]; rfl
      simp only
      by_cases he : st.lruEnabled = true
      · rw [if_pos he]
        exact ⟨hI.lruPut fo _ hr, Or.inl hr, fun k hk' => ⟨hk', fun _ => hr⟩, rfl⟩
      · rw [if_neg he]
        exact ⟨hI, Or.inl hr, fun k hk' => ⟨hk', fun _ => hr⟩, rfl⟩
    | some h =>
      rw [hA] at hf
      simp only at hf
      obtain ⟨hs, _⟩ := found_mem hwf hf
      have hr : CRes.found ((msgFrom ls h).fin + 1) (msgFrom ls h) = Ans ls fo := by
        unfold Ans; rw [hf]; rfl
      exact storeFound_good hwf hI hs hr

theorem ans_ne_panic (ls : List LineInfo) (fo : Nat) : Ans ls fo ≠ .panic := by
  unfold Ans
  rw [findSysline_of_partA]
  cases slPartA ls (2 * ls.length + 2) fo false 0 <;> simp [ofRes]

/-- an in-block request is *safe* when the forward-only walk and the full walk start the
message at the same line -/
def IbSafe (ls : List LineInfo) (fo : Nat) : Prop :=
  ibTarget ls fo = slPartA ls (2 * ls.length + 2) fo false 0

instance (ls : List LineInfo) (fo : Nat) : Decidable (IbSafe ls fo) := by
  unfold IbSafe; exact inferInstance

theorem ibSafe_of_head {ls : List LineInfo} (hwf : WFLines ls) {fo : Nat} {l : LineInfo} {t : Int}
    (hl : lineAt ls fo = some l) (ht : l.dt = some t) : IbSafe ls fo := by
  obtain ⟨hm, h1, h2⟩ := (lineAt_some_iff hwf fo l).1 hl
  unfold IbSafe ibTarget
  have e : 2 * ls.length + 2 = (2 * ls.length + 1) + 1 := by omega
  rw [e, partA_head hwf hm ht h1 h2, partA_head hwf hm ht h1 h2]

theorem ibSafe_of_beyond {ls : List LineInfo} (hwf : WFLines ls) {fo : Nat}
    (h : fileSz ls ≤ fo) : IbSafe ls fo := by
  have hl : lineAt ls fo = none := lineAt_none hwf h
  unfold IbSafe ibTarget
  have e : 2 * ls.length + 2 = (2 * ls.length + 1) + 1 := by omega
  rw [e]
  simp [slPartA, hl]

theorem findSyslineIBCached_spec {ls : List LineInfo} (hwf : WFLines ls) {st : Store}
    (hI : Inv ls st) (fo : Nat) (w : Bool) (hsafe : IbSafe ls fo) :
    Inv ls (findSyslineIBCached ls st fo w).2 ∧
    ((findSyslineIBCached ls st fo w).1 = Ans ls fo ∨ (findSyslineIBCached ls st fo w).1 = .panic ∨
      (findSyslineIBCached ls st fo w).1 = .done) ∧
    (∀ k, StaleBelow st k → StaleBelow (findSyslineIBCached ls st fo w).2 k ∧
      (k ≤ fo → (findSyslineIBCached ls st fo w).1 ≠ .panic)) := by
  unfold findSyslineIBCached
  cases hc : checkStore ls st fo with
  | some x =>
    obtain ⟨r, st'⟩ := x
    have g := checkStore_spec hwf hI hc
    refine ⟨g.inv, ?_, fun k hk => ⟨(g.stale k hk).1, fun hle => ?_⟩⟩
    · rcases g.sound with h | h
      · exact Or.inl h
      · exact Or.inr (Or.inl h)
    · have h := (g.stale k hk).2 hle
      show r ≠ .panic
      rw [h]
      exact ans_ne_panic ls fo
  | none =>
    simp only
    cases w with
    | false =>
      rw [if_neg Bool.false_ne_true]
      exact ⟨hI, Or.inr (Or.inr rfl), fun k hk => ⟨hk, fun _ h => by cases h⟩⟩
    | true =>
      rw [if_pos rfl, hsafe]
      have hf := findSysline_of_partA (ls := ls) (fo := fo)
      cases hA : slPartA ls (2 * ls.length + 2) fo false 0 with
      | none => exact ⟨hI, Or.inr (Or.inr rfl), fun k hk => ⟨hk, fun _ h => by cases h⟩⟩
      | some h =>
        rw [hA] at hf
        simp only at hf
        obtain ⟨hs, _⟩ := found_mem hwf hf
        have hr : CRes.found ((msgFrom ls h).fin + 1) (msgFrom ls h) = Ans ls fo := by
          unfold Ans; rw [hf]; rfl
        have g := storeFound_good hwf hI hs hr
        exact ⟨g.inv, Or.inl hr, fun k hk => ⟨(g.stale k hk).1, fun _ h => by cases h⟩⟩

/-! ### drops, clear, remove -/

theorem StaleBelow.mono {st : Store} {k k' : Nat} (h : StaleBelow st k) (hle : k ≤ k') :
    StaleBelow st k' := by
  intro e he
  rcases h e he with h1 | h1
  · exact Or.inl h1
  · exact Or.inr (by omega)

theorem dropSysline_spec {ls : List LineInfo} (hwf : WFLines ls) {st : Store} (hI : Inv ls st)
    {s : Sysl} (hs : s ∈ messages ls) {k : Nat} (hk : StaleBelow st k) (hle : s.fin + 1 ≤ k) :
    Inv ls (dropSysline st s) ∧ StaleBelow (dropSysline st s) k := by
  have hb : (dropSysline st s).byRange = st.byRange := by
    simp [dropSysline, DROP_REMOVES_BY_RANGE]
  constructor
  · exact {
      sl_true := fun x hx => hI.sl_true x (List.mem_filter.1 hx).1
      rng_true := by rw [hb]; exact hI.rng_true
      lru_true := fun p hp => hI.lru_true p (List.mem_filter.1 hp).1
      lru_len := Nat.le_trans (List.length_filter_le _ _) hI.lru_len
      lru_keys := hI.lru_keys.filter _ }
  · intro e he
    rw [hb] at he
    show (slGet (slRemove st.syslines s.beg) e.2.2).isSome = true ∨ _
    rw [slGet_slRemove]
    rcases hk e he with h1 | h1
    · by_cases hv : e.2.2 = s.beg
      · right
        obtain ⟨m, hm, rfl⟩ := hI.rng_true e he
        simp only at hv ⊢
        have : s = m := stored_eq_of_beg hwf hm hs hv.symm
        subst this
        exact hle
      · left; simpa [hv] using h1
    · exact Or.inr h1

theorem foldl_dropSysline {ls : List LineInfo} (hwf : WFLines ls) {K : Nat} :
    ∀ (l : List Sysl) (st : Store), (∀ s ∈ l, s ∈ messages ls ∧ s.fin + 1 ≤ K) → Inv ls st →
      StaleBelow st K → Inv ls (l.foldl dropSysline st) ∧ StaleBelow (l.foldl dropSysline st) K := by
  intro l
  induction l with
  | nil => intro st _ hI hk; exact ⟨hI, hk⟩
  | cons a r ih =>
    intro st hl hI hk
    obtain ⟨h1, h2⟩ := hl a (by simp)
    obtain ⟨hI', hk'⟩ := dropSysline_spec hwf hI h1 hk h2
    exact ih _ (fun s hs => hl s (List.mem_cons_of_mem _ hs)) hI' hk'

theorem dropData_spec {ls : List LineInfo} (hwf : WFLines ls) {bs : Nat} (hbs : 1 ≤ bs)
    {st : Store} (hI : Inv ls st) (bo : Nat) {k : Nat} (hk : StaleBelow st k) :
    Inv ls (dropData bs st bo) ∧ StaleBelow (dropData bs st bo) (max k ((bo + 1) * bs)) := by
  unfold dropData
  apply foldl_dropSysline hwf _ _ _ hI (hk.mono (by omega))
  intro s hs
  obtain ⟨h1, h2⟩ := List.mem_filter.1 hs
  simp only [decide_eq_true_eq] at h2
  refine ⟨hI.sl_true s h1, ?_⟩
  have : s.fin / bs < bo + 1 := by omega
  have := (Nat.div_lt_iff_lt_mul (by omega)).1 this
  omega

theorem clearSyslines_spec {ls : List LineInfo} {st : Store} (_hI : Inv ls st) (k : Nat) :
    Inv ls (clearSyslines st) ∧ StaleBelow (clearSyslines st) k :=
  ⟨{ sl_true := fun _ h => by cases h
     rng_true := fun _ h => by cases h
     lru_true := fun _ h => by cases h
     lru_len := Nat.zero_le _
     lru_keys := List.Pairwise.nil }, fun _ h => by cases h⟩

theorem removeSysline_spec {ls : List LineInfo} (hwf : WFLines ls) {st : Store} (hI : Inv ls st)
    (fo : Nat) {k : Nat} (hk : StaleBelow st k) :
    Inv ls (removeSysline st fo).2 ∧ StaleBelow (removeSysline st fo).2 k := by
  unfold removeSysline
  cases hS : slGet st.syslines fo with
  | none =>
    exact ⟨{ sl_true := hI.sl_true, rng_true := hI.rng_true, lru_true := fun _ h => by cases h
             lru_len := Nat.zero_le _, lru_keys := List.Pairwise.nil }, hk⟩
  | some s =>
    obtain ⟨hs1, hs2⟩ := slGet_some hS
    have hsm := hI.sl_true s hs1
    constructor
    · exact {
        sl_true := fun x hx => hI.sl_true x (List.mem_filter.1 hx).1
        rng_true := fun e he => hI.rng_true e (mem_rmRemove_true hwf hI.rng_true hsm he).1
        lru_true := fun _ h => by cases h
        lru_len := Nat.zero_le _
        lru_keys := List.Pairwise.nil }
    · intro e he
      obtain ⟨he1, he2⟩ := mem_rmRemove_true hwf hI.rng_true hsm he
      show (slGet (slRemove st.syslines fo) e.2.2).isSome = true ∨ _
      rw [slGet_slRemove]
      rcases hk e he1 with h1 | h1
      · by_cases hv : e.2.2 = fo
        · exfalso
          obtain ⟨m, hm, rfl⟩ := hI.rng_true e he1
          simp only at hv he2
          have : s = m := stored_eq_of_beg hwf hm hsm (by omega)
          subst this
          have := msg_nonempty hwf hsm
          omega
        · left; simpa [hv] using h1
      · exact Or.inr h1

/-! ### histories -/

/-- the stale bound after an op: a drop of block `bo` may leave ranges ending at or before
`(bo + 1) * bs` behind -/
def opBound (bs k : Nat) : Op → Nat
  | .drop bo => max k ((bo + 1) * bs)
  | _ => k

/-- what is guaranteed about the answer of one op, when every stale range ends at or before `k` -/
def OutOk (ls : List LineInfo) (k : Nat) : Op → Out → Prop
  | .find fo, o => (o = .res (Ans ls fo) ∨ o = .res .panic) ∧ (k ≤ fo → o = .res (Ans ls fo))
  | .findib fo _, o =>
    (o = .res (Ans ls fo) ∨ o = .res .done ∨ o = .res .panic) ∧ (k ≤ fo → o ≠ .res .panic)
  | _, _ => True

def Trace (ls : List LineInfo) (bs : Nat) : Nat → List Op → List Out → Prop
  | _, [], [] => True
  | k, op :: ops, o :: os => OutOk ls k op o ∧ Trace ls bs (opBound bs k op) ops os
  | _, _, _ => False

/-- every in-block request of the history is safe -/
def IbSafeAll (ls : List LineInfo) : List Op → Prop
  | [] => True
  | .findib fo _ :: ops => IbSafe ls fo ∧ IbSafeAll ls ops
  | _ :: ops => IbSafeAll ls ops

instance decIbSafeAll (ls : List LineInfo) : (ops : List Op) → Decidable (IbSafeAll ls ops)
  | [] => isTrue trivial
  | .findib fo _ :: ops =>
    have := decIbSafeAll ls ops
    inferInstanceAs (Decidable (IbSafe ls fo ∧ IbSafeAll ls ops))
  | .find _ :: ops => decIbSafeAll ls ops
  | .drop _ :: ops => decIbSafeAll ls ops
  | .clear :: ops => decIbSafeAll ls ops
  | .remove _ :: ops => decIbSafeAll ls ops

def isDrop : Op → Bool
  | .drop _ => true
  | _ => false

/-- the history contains no `drop_data` -/
def NoDrop (ops : List Op) : Prop := ∀ op ∈ ops, isDrop op = false

instance (ops : List Op) : Decidable (NoDrop ops) := by unfold NoDrop; exact inferInstance

theorem applyOp_spec {ls : List LineInfo} (hwf : WFLines ls) {bs : Nat} (hbs : 1 ≤ bs) {st : Store}
    (hI : Inv ls st) {k : Nat} (hk : StaleBelow st k) (op : Op)
    (hsafe : ∀ fo w, op = .findib fo w → IbSafe ls fo) :
    OutOk ls k op (applyOp ls bs st op).1 ∧ Inv ls (applyOp ls bs st op).2 ∧
      StaleBelow (applyOp ls bs st op).2 (opBound bs k op) := by
  cases op with
  | find fo =>
    have g := findSyslineCached_spec hwf hI fo
    refine ⟨⟨?_, fun hle => ?_⟩, g.inv, (g.stale k hk).1⟩
    · show Out.res (findSyslineCached ls st fo).1 = _ ∨ Out.res (findSyslineCached ls st fo).1 = _
      rcases g.sound with h | h
      · exact Or.inl (by rw [h])
      · exact Or.inr (by rw [h])
    · show Out.res (findSyslineCached ls st fo).1 = _
      rw [(g.stale k hk).2 hle]
  | findib fo w =>
    obtain ⟨g1, g2, g3⟩ := findSyslineIBCached_spec hwf hI fo w (hsafe fo w rfl)
    refine ⟨⟨?_, fun hle => ?_⟩, g1, (g3 k hk).1⟩
    · show Out.res (findSyslineIBCached ls st fo w).1 = _ ∨ Out.res (findSyslineIBCached ls st fo w).1 = _ ∨
        Out.res (findSyslineIBCached ls st fo w).1 = _
      rcases g2 with h | h | h
      · exact Or.inl (by rw [h])
      · exact Or.inr (Or.inr (by rw [h]))
      · exact Or.inr (Or.inl (by rw [h]))
    · show Out.res (findSyslineIBCached ls st fo w).1 ≠ _
      intro h
      injection h with h
      exact (g3 k hk).2 hle h
  | drop bo =>
    obtain ⟨h1, h2⟩ := dropData_spec hwf hbs hI bo hk
    exact ⟨trivial, h1, h2⟩
  | clear =>
    obtain ⟨h1, h2⟩ := clearSyslines_spec hI k
    exact ⟨trivial, h1, h2⟩
  | remove fo =>
    obtain ⟨h1, h2⟩ := removeSysline_spec hwf hI fo hk
    exact ⟨trivial, h1, h2⟩

theorem runOps_spec {ls : List LineInfo} (hwf : WFLines ls) {bs : Nat} (hbs : 1 ≤ bs) :
    ∀ (ops : List Op) {st : Store} {k : Nat}, Inv ls st → StaleBelow st k → IbSafeAll ls ops →
      Trace ls bs k ops (runOps ls bs st ops).1 ∧ Inv ls (runOps ls bs st ops).2 := by
  intro ops
  induction ops with
  | nil => intro st k hI _ _; exact ⟨trivial, hI⟩
  | cons op ops ih =>
    intro st k hI hk hs
    have hs' : (∀ fo w, op = .findib fo w → IbSafe ls fo) ∧ IbSafeAll ls ops := by
      cases op with
      | findib fo0 w0 =>
        obtain ⟨h1, h2⟩ := hs
        exact ⟨fun _ _ h => by injection h with h3 _; rw [← h3]; exact h1, h2⟩
      | find _ => exact ⟨fun _ _ h => Op.noConfusion h, hs⟩
      | drop _ => exact ⟨fun _ _ h => Op.noConfusion h, hs⟩
      | clear => exact ⟨fun _ _ h => Op.noConfusion h, hs⟩
      | remove _ => exact ⟨fun _ _ h => Op.noConfusion h, hs⟩
    obtain ⟨a1, a2, a3⟩ := applyOp_spec hwf hbs hI hk op hs'.1
    obtain ⟨b1, b2⟩ := ih a2 a3 hs'.2
    exact ⟨⟨a1, b1⟩, b2⟩

/-! ### reading a trace by position -/

/-- the stale bound before op number `i` of a history started with bound `k` -/
def boundAt (bs : Nat) (k : Nat) (ops : List Op) (i : Nat) : Nat := (ops.take i).foldl (opBound bs) k

theorem Trace.find_at {ls : List LineInfo} {bs : Nat} :
    ∀ (ops : List Op) (outs : List Out) (k : Nat), Trace ls bs k ops outs → ∀ (i fo : Nat),
      ops[i]? = some (.find fo) →
      (outs[i]? = some (.res (Ans ls fo)) ∨ outs[i]? = some (.res .panic)) ∧
      (boundAt bs k ops i ≤ fo → outs[i]? = some (.res (Ans ls fo))) := by
  intro ops
  induction ops with
  | nil => intro outs k _ i fo h; simp at h
  | cons op ops ih =>
    intro outs k ht i fo h
    cases outs with
    | nil => exact absurd ht (by simp [Trace])
    | cons o os =>
      obtain ⟨h1, h2⟩ := ht
      cases i with
      | zero =>
        simp only [List.getElem?_cons_zero, Option.some.injEq] at h
        subst h
        obtain ⟨a, b⟩ := h1
        simp only [List.getElem?_cons_zero, boundAt, List.take_zero, List.foldl_nil]
        refine ⟨?_, fun hle => by rw [b hle]⟩
        rcases a with a | a
        · exact Or.inl (by rw [a])
        · exact Or.inr (by rw [a])
      | succ j =>
        simp only [List.getElem?_cons_succ] at h ⊢
        have := ih os _ h2 j fo h
        simpa [boundAt] using this

theorem boundAt_noDrop (bs k : Nat) (ops : List Op) (h : NoDrop ops) (i : Nat) :
    boundAt bs k ops i = k := by
  unfold boundAt
  induction ops generalizing k i with
  | nil => simp
  | cons op ops ih =>
    cases i with
    | zero => simp
    | succ j =>
      simp only [List.take_succ_cons, List.foldl_cons]
      have : opBound bs k op = k := by
        cases op with
        | drop bo => exact absurd (h (.drop bo) (List.mem_cons_self ..)) (by simp [isDrop])
        | _ => rfl
      rw [this]
      exact ih k (fun op' h' => h op' (List.mem_cons_of_mem _ h')) j

end S4V.Lemmas.SyslCached
