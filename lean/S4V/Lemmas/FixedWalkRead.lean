/-
`read_data_to_buffer` returns the bytes of the file, whatever the block size: `ReadsExact` (see `S4V.Lemmas.FixedWalk`)
holds for every reader whose `read_block` is faithful (`Faithful`): the plain-file reader (any request order, blocks
may be dropped and are read again) and the streamed reader after `disable_drop_data` (every block kept).
-/
import S4V.Lemmas.FixedWalk
import S4V.Lemmas.StreamKeep

namespace S4V.Lemmas.FixedWalkRead
open S4V.Gen.Blocks S4V.Gen.Stream S4V.Gen.FixedWalk S4V.Model.Lines S4V.Model.Stream S4V.Model.FixedWalk
  S4V.Lemmas.Blocks S4V.Lemmas.Stream S4V.Lemmas.StreamKeep S4V.Lemmas.FixedWalk

/-- every `read_block(k)` is answered as a plain reader of `d` would, from every state satisfying `I`;
`drop_block` keeps `I` -/
structure Faithful (d : Bytes) (bs : Nat) (I : Rd → Prop) : Prop where
  hbs : 1 ≤ bs
  st : ∀ r, I r → r.bs = bs ∧ r.fsz = d.length
  step : ∀ r k, I r → ∃ r', readBlock r k = (specRes d bs k, r') ∧ I r'
  drop : ∀ r k, I r → I (dropBlock r k)

/-- the plain-file reader -/
theorem faithful_plain (d : Bytes) (bs : Nat) (hbs : 1 ≤ bs) : Faithful d bs (fun r => PInv d r ∧ r.bs = bs) where
  hbs := hbs
  st := fun r h => ⟨h.2, h.1.hfsz⟩
  step := fun r k h => by
    obtain ⟨r', e1, e2, e3⟩ := readBlock_plain d r k h.1
    rw [h.2] at e1
    exact ⟨r', e1, e2, by rw [e3, h.2]⟩
  drop := fun r k h => by
    have hb : (dropBlock r k).bs = r.bs := dropBlock_bs r k
    refine ⟨?_, by rw [hb, h.2]⟩
    unfold dropBlock
    split
    · exact h.1
    · exact ⟨h.1.hbs, h.1.hfsz, h.1.hsrc, h.1.hkind, h.1.good.mdel k, h.1.goodL.mdel k⟩

/-- the streamed reader (gz, bz2, lz4) after `disable_drop_data` -/
theorem faithful_keep (d : Bytes) (bs : Nat) (hbs : 1 ≤ bs) :
    Faithful d bs (fun r => (∃ n, KInv d r n) ∧ r.bs = bs) where
  hbs := hbs
  st := fun r h => by obtain ⟨⟨n, hn⟩, hb⟩ := h; exact ⟨hb, hn.hfsz⟩
  step := fun r k h => by
    obtain ⟨⟨n, hn⟩, hb⟩ := h
    obtain ⟨r', n', e1, e2, e3⟩ := readBlock_keep d r n k hn
    rw [hb] at e1
    exact ⟨r', e1, ⟨n', e2⟩, by rw [e3, hb]⟩
  drop := fun r k h => by
    obtain ⟨⟨n, hn⟩, hb⟩ := h
    rw [dropBlock_off r k hn.hdd]
    exact ⟨⟨n, hn⟩, hb⟩

/-! ### geometry of a request -/

theorem geom (bs beg E : Nat) (hbs : 1 ≤ bs) (h : beg < E) :
    beg = beg / bs * bs + beg % bs ∧ beg % bs < bs
    ∧ E = rdBo2 (E % bs) (E / bs) * bs + rdBi2 (E % bs) bs
    ∧ 1 ≤ rdBi2 (E % bs) bs ∧ rdBi2 (E % bs) bs ≤ bs
    ∧ beg / bs ≤ rdBo2 (E % bs) (E / bs) := by
  have h1 := Nat.div_add_mod' beg bs
  have h2 : beg % bs < bs := Nat.mod_lt _ (by omega)
  have h3 := Nat.div_add_mod' E bs
  have h4 : E % bs < bs := Nat.mod_lt _ (by omega)
  have key : E = rdBo2 (E % bs) (E / bs) * bs + rdBi2 (E % bs) bs ∧ 1 ≤ rdBi2 (E % bs) bs ∧ rdBi2 (E % bs) bs ≤ bs := by
    unfold rdBo2 rdBi2
    by_cases hz : E % bs = 0
    · rw [if_pos hz, if_pos hz]
      have hq : 1 ≤ E / bs := by
        rcases Nat.eq_zero_or_pos (E / bs) with h0 | h0
        · rw [h0, hz] at h3; omega
        · exact h0
      have : E / bs * bs = (E / bs - 1) * bs + bs := by
        conv => lhs; rw [show E / bs = (E / bs - 1) + 1 by omega]
        rw [Nat.add_mul, Nat.one_mul]
      omega
    · rw [if_neg hz, if_neg hz]; omega
  refine ⟨h1.symm, h2, key.1, key.2.1, key.2.2, ?_⟩
  apply Nat.le_of_not_lt
  intro hlt
  have : (rdBo2 (E % bs) (E / bs) + 1) * bs ≤ beg / bs * bs := Nat.mul_le_mul_right _ hlt
  rw [Nat.add_mul] at this
  omega

theorem blockAt_slice (d : Bytes) (bs k i j : Nat) (hij : i ≤ j) (hj : j ≤ bs) :
    ((blockAt d bs k).drop i).take (j - i) = sl d (k * bs + i) (k * bs + j) := by
  unfold blockAt sl
  rw [List.drop_take, List.take_take, List.drop_drop]
  congr 1
  omega

theorem found_block {d : Bytes} {bs : Nat} {I : Rd → Prop} (hF : Faithful d bs I) (r : Rd) (k : Nat) (hr : I r)
    (hk : k * bs < d.length) :
    ∃ r', readBlock r k = (.found (blockAt d bs k), r') ∧ I r' := by
  obtain ⟨r', e, h⟩ := hF.step r k hr
  have hd : d ≠ [] := by intro h0; rw [h0] at hk; simp at hk
  rw [specRes_found d bs k ((le_blockOffsetLast_iff d.length bs k hF.hbs (by omega)).2 hk) hd] at e
  exact ⟨r', e, h⟩

theorem lenCheck_iff (len need : Nat) : lenCheckFails len need = decide (len < need) := by
  simp [lenCheckFails, LEN_CHECK_STRICT]

/-- a request of at most `bs` bytes (it lies in one block or in two adjacent ones) -/
theorem read_exact_short {d : Bytes} {bs : Nat} {I : Rd → Prop} (hF : Faithful d bs I) (r : Rd) (beg e len : Nat)
    (hr : I r) (hlen : 1 ≤ len) (hspan : e ≤ beg + bs) :
    ∃ r', I r' ∧ r'.bs = r.bs ∧ readDataToBuffer r beg e false len =
      (if beg ≥ min e d.length then R3.done
       else if len < min e d.length - beg then R3.err
       else R3.found (sl d beg (min e d.length)), r') := by
  obtain ⟨hrbs, hrfsz⟩ := hF.st r hr
  have hbs := hF.hbs
  unfold readDataToBuffer
  rw [lenCheck_iff, decide_eq_false (by omega)]
  simp only [Bool.false_eq_true, if_false]
  unfold readData
  simp only [rdEnd, rdEmpty, hrfsz, hrbs]
  by_cases hemp : beg ≥ min e d.length
  · rw [if_pos hemp]
    simp only [decide_eq_true hemp, if_true]
    exact ⟨r, hr, hrbs, rfl⟩
  · rw [if_neg hemp]
    simp only [decide_eq_false hemp, Bool.false_eq_true, if_false]
    generalize hE : min e d.length = E at hemp ⊢
    have hEL : E ≤ d.length := by omega
    have hbE : beg < E := by omega
    obtain ⟨g1, g2, g3, g4, g5, g6⟩ := geom bs beg E hbs hbE
    simp only [blockOffsetAtFileOffset_eq, blockIndexAtFileOffset_eq]
    generalize hq1 : beg / bs = q1 at g1 g6 ⊢
    generalize hi1 : beg % bs = i1 at g1 g2 ⊢
    generalize hbo2 : rdBo2 (E % bs) (E / bs) = bo2 at g3 g6 ⊢
    generalize hbi2 : rdBi2 (E % bs) bs = bi2 at g3 g4 g5 ⊢
    obtain ⟨r1, e1, hr1⟩ := found_block hF r q1 hr (by omega)
    obtain ⟨hr1bs, _⟩ := hF.st r1 hr1
    rw [e1]
    simp only
    have hlast : r.last = blockOffsetLast d.length bs := by unfold Rd.last; rw [hrfsz, hrbs]
    by_cases h12 : q1 = bo2
    · -- One
      rw [if_pos (Or.inl h12)]
      simp only
      subst h12
      have hb1 : bi2 ≤ (blockAt d bs q1).length := by rw [blockAt_length]; omega
      rw [Nat.min_eq_left hb1]
      simp only [copyOne, oneN, oneBeg, oneEnd, oneDstFromAt, copyStep, lenCheck_iff, List.length_nil, Nat.zero_add]
      have hn : bi2 - i1 = E - beg := by omega
      by_cases hl : len < E - beg
      · rw [if_pos hl]; simp only [hn, decide_eq_true hl, if_true]
        exact ⟨r1, hr1, hr1bs, rfl⟩
      · rw [if_neg hl]; simp only [hn, decide_eq_false hl, Bool.false_eq_true, if_false]
        have hsl : slice? (blockAt d bs q1) i1 (i1 + (E - beg)) = some (sl d beg E) := by
          unfold slice?
          rw [if_pos ⟨by omega, by omega⟩]
          have := blockAt_slice d bs q1 i1 bi2 (by omega) g5
          rw [show i1 + (E - beg) - i1 = bi2 - i1 by omega, this, ← g1, ← g3]
        rw [hsl]
        simp only
        rw [if_neg (by rw [sl_length _ _ _ hEL]; omega)]
        exact ⟨r1, hr1, hr1bs, by rw [List.nil_append]⟩
    · -- two adjacent blocks
      have hq : q1 + 1 = bo2 := by
        apply Nat.le_antisymm
        · omega
        · apply Nat.le_of_not_lt
          intro hlt
          have : (q1 + 2) * bs ≤ bo2 * bs := Nat.mul_le_mul_right _ hlt
          rw [Nat.add_mul] at this
          omega
      have hB : bo2 * bs = q1 * bs + bs := by rw [← hq, Nat.add_mul, Nat.one_mul]
      have hnl : q1 ≠ r.last := by
        rw [hlast]
        intro heq
        have := (le_blockOffsetLast_iff d.length bs bo2 hbs (by omega)).2 (by omega)
        omega
      rw [if_neg (by intro h; rcases h with h | h; exact h12 h; exact hnl h)]
      rw [if_pos hq]
      obtain ⟨r2, e2, hr2⟩ := found_block hF r1 bo2 hr1 (by omega)
      obtain ⟨hr2bs, _⟩ := hF.st r2 hr2
      rw [e2]
      simp only
      have hl1 : (blockAt d bs q1).length = bs := by rw [blockAt_length]; omega
      have hb2 : bi2 ≤ (blockAt d bs bo2).length := by rw [blockAt_length]; omega
      have hbi2 : (if bo2 = r.last then min bi2 (blockAt d bs bo2).length else bi2) = bi2 := by
        split
        · exact Nat.min_eq_left hb2
        · rfl
      rw [hbi2]
      simp only [copyTwo, twoFirstN, twoFirstBeg, twoFirstEnd, twoFirstDstFromAt, twoLastN, twoLastBeg, twoLastEnd,
        twoLastDstFromAt, copyStep, lenCheck_iff, List.length_nil, Nat.zero_add, hl1]
      have hs1 : slice? (blockAt d bs q1) i1 bs = some (sl d beg (bo2 * bs)) := by
        unfold slice?
        rw [if_pos ⟨by omega, by omega⟩]
        have := blockAt_slice d bs q1 i1 bs (by omega) (Nat.le_refl _)
        rw [this, ← g1, hB]
      have hs2 : slice? (blockAt d bs bo2) 0 bi2 = some (sl d (bo2 * bs) E) := by
        unfold slice?
        rw [if_pos ⟨by omega, hb2⟩]
        have := blockAt_slice d bs bo2 0 bi2 (by omega) g5
        rw [Nat.sub_zero, List.drop_zero] at *
        rw [this, Nat.add_zero, ← g3]
      have hlen1 : (sl d beg (bo2 * bs)).length = bs - i1 := by rw [sl_length _ _ _ (by omega)]; omega
      have hlen2 : (sl d (bo2 * bs) E).length = bi2 := by rw [sl_length _ _ _ hEL]; omega
      by_cases hl : len < E - beg
      · rw [if_pos hl]
        by_cases hl1' : len < bs - i1
        · simp only [decide_eq_true hl1', if_true, St.bind]
          exact ⟨r2, hr2, hr2bs, rfl⟩
        · simp only [decide_eq_false hl1', Bool.false_eq_true, if_false, hs1, hlen1, ne_eq, not_true_eq_false,
            and_false, or_false, St.bind, if_false]
          simp only [List.nil_append, hlen1]
          rw [decide_eq_true (by omega)]
          simp only [if_true]
          exact ⟨r2, hr2, hr2bs, rfl⟩
      · rw [if_neg hl]
        simp only [decide_eq_false (show ¬ len < bs - i1 by omega), Bool.false_eq_true, if_false, hs1, hlen1, ne_eq,
          not_true_eq_false, and_false, or_false, St.bind]
        simp only [List.nil_append, hlen1]
        rw [decide_eq_false (by omega)]
        simp only [Bool.false_eq_true, if_false, hs2, hlen2, ne_eq, not_true_eq_false, false_or]
        rw [if_neg (by simp)]
        refine ⟨r2, hr2, hr2bs, ?_⟩
        rw [sl_append d (by omega) (by omega)]

/-- `ReadsExact` for requests of at most `bs` bytes -/
theorem readsExact_short {d : Bytes} {bs : Nat} {I : Rd → Prop} (hF : Faithful d bs I) : ReadsExact d I bs where
  fsz := fun r h => (hF.st r h).2
  read := fun r beg e len hr hlen hsp => read_exact_short hF r beg e len hr hlen hsp
  drop := fun r k h => ⟨hF.drop r k h, dropBlock_bs r k⟩

end S4V.Lemmas.FixedWalkRead
