/-
Lemmas about `S4V.Model.Boxptrs` (`Line::get_boxptrs`): what each loop returns.
Core Lean only.
-/
import S4V.Model.Boxptrs

namespace S4V.Lemmas.Boxptrs
open S4V.Model.Boxptrs

/-! ### list facts -/

theorem flat_nil : flat ([] : List Bytes) = [] := rfl
theorem flat_cons (p : Bytes) (ps : List Bytes) : flat (p :: ps) = p ++ flat ps := by
  simp [flat]

/-- the specification in `take`/`drop` form -/
theorem spec_eq (parts : List Bytes) (a b : Nat) :
    spec parts a b = ((flat parts).take b).drop a := by
  unfold spec
  rw [List.drop_take]
  rcases Nat.le_total b (flat parts).length with h | h
  · rw [Nat.min_eq_left h]
  · rw [Nat.min_eq_right h]
    rw [List.take_of_length_le (by simp), List.take_of_length_le (by simp; omega)]

/-- `[a, b)` of `p ++ F` when `b` ends inside `p` -/
theorem td_left (p F : Bytes) (a b : Nat) (hb : b ≤ p.length) :
    ((p ++ F).take b).drop a = (p.take b).drop a := by
  rw [List.take_append_of_le_length hb]

/-- `[a, b)` of `p ++ F` when `a` is inside `p` and `b` is at or beyond its end -/
theorem td_mid (p F : Bytes) (a b : Nat) (ha : a ≤ p.length) (hb : p.length ≤ b) :
    ((p ++ F).take b).drop a = p.drop a ++ F.take (b - p.length) := by
  rw [List.take_append, List.take_of_length_le hb, List.drop_append_of_le_length ha]

/-- `[a, b)` of `p ++ F` when `a` is at or beyond the end of `p` -/
theorem td_right (p F : Bytes) (a b : Nat) (ha : p.length ≤ a) :
    ((p ++ F).take b).drop a = (F.take (b - p.length)).drop (a - p.length) := by
  rw [List.take_append, List.drop_append]
  have h1 : List.drop a (List.take b p) = [] := List.drop_of_length_le (by simp; omega)
  rw [h1, List.nil_append]
  rcases Nat.le_total p.length b with h | h
  · rw [List.take_of_length_le h]
  · have h0 : b - p.length = 0 := by omega
    simp [h0]

/-! ### first loop -/

/-- first loop once `a` has been found (`a_found`, `bptr_a = Some(s)`): the next
part decides between `DoublePtr` and giving up; no next part gives `SinglePtr(s)` -/
theorem loop1_found (ps : List Bytes) (a1 b1 : Nat) (s : Bytes) :
    loop1 ps a1 b1 true (some s) =
      match ps with
      | [] => .ret (.single s)
      | q :: _ => if b1 ≤ q.length then .ret (.double s (boxB q b1)) else .fall := by
  cases ps with
  | nil => rfl
  | cons q qs =>
    simp only [loop1]
    by_cases h : b1 ≤ q.length
    · simp [h]
    · have h' : q.length < b1 := by omega
      simp [h, h']

/-- first loop, `a` not yet found: it returns bytes `[a1, b1)` of the remaining
parts unless three or more parts are needed, in which case it falls through -/
theorem loop1_notfound : ∀ (ps : List Bytes) (a1 b1 : Nat), a1 ≤ b1 → a1 < (flat ps).length →
    if spans3 ps a1 b1 = true then loop1 ps a1 b1 false none = .fall
    else ∃ q, loop1 ps a1 b1 false none = .ret q ∧ q.bytes = ((flat ps).take b1).drop a1 ∧
      (∀ ss, q ≠ .multi ss) ∧ q ≠ .none
  | [], a1, b1, _, h => by simp [flat] at h
  | p :: ps, a1, b1, hab, hlt => by
    rw [flat_cons] at hlt ⊢
    by_cases ha : a1 < p.length
    · by_cases hb : b1 ≤ p.length
      · -- SinglePtr(block_boxptr_ab)
        have hs : spans3 (p :: ps) a1 b1 = false := by
          cases ps with
          | nil => simp [spans3, ha]
          | cons q qs => simp [spans3, ha]; omega
        simp only [hs, Bool.false_eq_true, if_false]
        refine ⟨.single (boxAB p a1 b1), ?_, ?_, by simp, by simp⟩
        · simp [loop1, ha, hb]
        · simp [Ptrs.bytes, boxAB, td_left p (flat ps) a1 b1 hb]
      · have hb' : p.length < b1 := by omega
        have hstep : loop1 (p :: ps) a1 b1 false none
            = loop1 ps a1 (b1 - p.length) true (some (boxA p a1)) := by
          simp [loop1, ha, hb, hb']
        rw [hstep, loop1_found]
        cases ps with
        | nil =>
          simp only [spans3, ha, if_true, Bool.false_eq_true, if_false]
          refine ⟨_, rfl, ?_, by simp, by simp⟩
          simp [Ptrs.bytes, boxA, flat_nil, List.take_of_length_le (Nat.le_of_lt hb')]
        | cons q qs =>
          by_cases hq : b1 - p.length ≤ q.length
          · have hs : spans3 (p :: q :: qs) a1 b1 = false := by simp [spans3, ha]; omega
            simp only [hs, Bool.false_eq_true, if_false, hq, if_true]
            refine ⟨_, rfl, ?_, by simp, by simp⟩
            simp only [Ptrs.bytes, boxA, boxB]
            rw [td_mid p (flat (q :: qs)) a1 b1 (by omega) (by omega), flat_cons,
              List.take_append_of_le_length hq]
          · have hs : spans3 (p :: q :: qs) a1 b1 = true := by simp [spans3, ha]; omega
            simp [hs, hq]
    · -- `a1 -= len_; b1 -= len_`
      have ha' : p.length ≤ a1 := by omega
      have hstep : loop1 (p :: ps) a1 b1 false none
          = loop1 ps (a1 - p.length) (b1 - p.length) false none := by
        simp [loop1, ha]
      have hs : spans3 (p :: ps) a1 b1 = spans3 ps (a1 - p.length) (b1 - p.length) := by
        simp [spans3, ha]
      rw [hstep, hs, td_right p (flat ps) a1 b1 ha']
      exact loop1_notfound ps (a1 - p.length) (b1 - p.length) (by omega)
        (by simp at hlt; omega)

/-- the first loop never returns `NoPtr` -/
theorem loop1_ne_none : ∀ (ps : List Bytes) (a1 b1 : Nat) (f : Bool) (bp : Option Bytes),
    loop1 ps a1 b1 f bp ≠ .ret .none
  | [], _, _, _, bp => by
    cases bp <;> simp [loop1]
  | p :: ps, a1, b1, f, bp => by
    simp only [loop1]
    split
    · simp
    · split
      · exact loop1_ne_none ps _ _ _ _
      · split
        · simp
        · split
          · simp
          · split
            · simp
            · exact loop1_ne_none ps _ _ _ _

/-! ### second loop -/

/-- second loop after `a` has been found: appends bytes `[0, b)` of the remaining parts -/
theorem loop2_found : ∀ (ps : List Bytes) (a b : Nat) (acc : List Bytes),
    ∃ ss, loop2 ps a b true true acc = .multi (acc ++ ss) ∧ ss.flatten = (flat ps).take b
  | [], a, b, acc => ⟨[], by simp [loop2], by simp [flat]⟩
  | p :: ps, a, b, acc => by
    by_cases hb : b < p.length
    · refine ⟨[boxB p b], by simp [loop2, hb], ?_⟩
      rw [flat_cons, List.take_append_of_le_length (by omega)]
      simp [boxB]
    · obtain ⟨ss, h1, h2⟩ := loop2_found ps a (b - p.length) (acc ++ [p])
      refine ⟨p :: ss, ?_, ?_⟩
      · simp only [loop2]
        simp [hb, h1]
      · rw [flat_cons, List.take_append, List.take_of_length_le (by omega)]
        simp [h2]

/-- second loop from the start: the parts wholly before `a` are skipped with
`a -= len_` only, so the result is bytes `[a, b + skipLen)` of the line -/
theorem loop2_notfound : ∀ (ps : List Bytes) (a b : Nat), a ≤ b → a < (flat ps).length →
    ∃ ss, loop2 ps a b false false [] = .multi ss ∧
      ss.flatten = ((flat ps).take (b + skipLen ps a)).drop a
  | [], a, b, _, h => by simp [flat] at h
  | p :: ps, a, b, hab, hlt => by
    rw [flat_cons] at hlt ⊢
    by_cases ha : a < p.length
    · have hk : skipLen (p :: ps) a = 0 := by simp [skipLen, ha]
      rw [hk, Nat.add_zero]
      by_cases hb : b < p.length
      · refine ⟨[boxAB p a b], by simp [loop2, ha, hb], ?_⟩
        rw [td_left p (flat ps) a b (by omega)]
        simp [boxAB]
      · obtain ⟨ss, h1, h2⟩ := loop2_found ps a (b - p.length) ([] ++ [boxA p a])
        refine ⟨[boxA p a] ++ ss, ?_, ?_⟩
        · simp only [loop2]
          simp [ha, hb]
          simpa using h1
        · rw [td_mid p (flat ps) a b (by omega) (by omega)]
          simp [boxA, h2]
    · have ha' : p.length ≤ a := by omega
      have hk : skipLen (p :: ps) a = p.length + skipLen ps (a - p.length) := by
        simp [skipLen, ha]
      obtain ⟨ss, h1, h2⟩ := loop2_notfound ps (a - p.length) b (by omega) (by simp at hlt; omega)
      refine ⟨ss, ?_, ?_⟩
      · simp only [loop2]
        simp [ha, h1]
      · rw [td_right p (flat ps) a _ ha', h2, hk]
        congr 2
        omega

/-! ### `getBoxptrs`: the bytes as coded -/

theorem getBoxptrs_none_of_le (parts : List Bytes) (a b : Nat) (h : (flat parts).length ≤ a) :
    getBoxptrs parts a b = .none := by
  simp [getBoxptrs, lineLen, flat] at h ⊢
  intro h'; omega

/-- the bytes `get_boxptrs(a, b)` returns, exactly as coded -/
theorem getBoxptrs_coded (parts : List Bytes) (a b : Nat) (hab : a ≤ b)
    (hlt : a < (flat parts).length) :
    (getBoxptrs parts a b).bytes =
      if spans3 parts a b = true then ((flat parts).take (b + skipLen parts a)).drop a
      else ((flat parts).take b).drop a := by
  have hn : ¬ lineLen parts ≤ a := by simp [lineLen, flat] at hlt ⊢; omega
  have h1 := loop1_notfound parts a b hab hlt
  unfold getBoxptrs
  rw [if_neg hn]
  by_cases hs : spans3 parts a b = true
  · rw [if_pos hs] at h1 ⊢
    rw [h1]
    obtain ⟨ss, h2, h3⟩ := loop2_notfound parts a b hab hlt
    simp [h2, Ptrs.bytes, h3]
  · rw [if_neg hs] at h1 ⊢
    obtain ⟨q, h2, h3, _⟩ := h1
    simp [h2, h3]

/-- the variant returned -/
theorem getBoxptrs_variant (parts : List Bytes) (a b : Nat) (hab : a ≤ b)
    (hlt : a < (flat parts).length) :
    if spans3 parts a b = true then ∃ ss, getBoxptrs parts a b = .multi ss
    else (∃ s, getBoxptrs parts a b = .single s) ∨ (∃ s t, getBoxptrs parts a b = .double s t) := by
  have hn : ¬ lineLen parts ≤ a := by simp [lineLen, flat] at hlt ⊢; omega
  have h1 := loop1_notfound parts a b hab hlt
  unfold getBoxptrs
  rw [if_neg hn]
  by_cases hs : spans3 parts a b = true
  · rw [if_pos hs] at h1 ⊢
    rw [h1]
    obtain ⟨ss, h2, _⟩ := loop2_notfound parts a b hab hlt
    exact ⟨ss, by simp [h2]⟩
  · rw [if_neg hs] at h1 ⊢
    obtain ⟨q, h2, _, h4, h5⟩ := h1
    rw [h2]
    cases q with
    | none => exact absurd rfl h5
    | single s => exact Or.inl ⟨s, rfl⟩
    | double s t => exact Or.inr ⟨s, t, rfl⟩
    | multi ss => exact absurd rfl (h4 ss)

/-! ### `skipLen` -/

theorem skipLen_zero (parts : List Bytes) : skipLen parts 0 = 0 := by
  induction parts with
  | nil => rfl
  | cons p ps ih =>
    simp only [skipLen]
    by_cases h : 0 < p.length
    · simp [h]
    · have h0 : p.length = 0 := by omega
      simp [h0, ih]

theorem skipLen_first (p : Bytes) (ps : List Bytes) (a : Nat) (h : a < p.length) :
    skipLen (p :: ps) a = 0 := by simp [skipLen, h]

theorem skipLen_pos (p : Bytes) (ps : List Bytes) (a : Nat) (hp : p ≠ []) (h : p.length ≤ a) :
    0 < skipLen (p :: ps) a := by
  have : 0 < p.length := List.length_pos_iff.mpr hp
  simp only [skipLen]
  rw [if_neg (by omega)]
  omega

theorem skipLen_le (parts : List Bytes) (a : Nat) : skipLen parts a ≤ a := by
  induction parts generalizing a with
  | nil => simp [skipLen]
  | cons p ps ih =>
    simp only [skipLen]
    by_cases h : a < p.length
    · simp [h]
    · rw [if_neg h]
      have := ih (a - p.length)
      omega

/-! ### in bounds -/

theorem loop1Ok_found (ps : List Bytes) (a1 b1 : Nat) (s : Bytes) :
    loop1Ok ps a1 b1 true (some s) = true := by
  cases ps with
  | nil => rfl
  | cons q qs =>
    simp only [loop1Ok]
    by_cases h : b1 ≤ q.length
    · simp [h, okB]
    · have h' : q.length < b1 := by omega
      simp [h, h']

theorem loop1Ok_notfound : ∀ (ps : List Bytes) (a1 b1 : Nat), a1 ≤ b1 →
    loop1Ok ps a1 b1 false none = true
  | [], _, _, _ => rfl
  | p :: ps, a1, b1, hab => by
    simp only [loop1Ok]
    by_cases ha : a1 < p.length
    · by_cases hb : b1 ≤ p.length
      · simp [ha, hb, okAB, hab]
      · have hb' : p.length < b1 := by omega
        simp [ha, hb, hb', okA, loop1Ok_found]
        omega
    · simp [ha]
      exact ⟨⟨by omega, by omega⟩, loop1Ok_notfound ps _ _ (by omega)⟩

theorem loop2Ok_found : ∀ (ps : List Bytes) (a b : Nat), loop2Ok ps a b true true = true
  | [], _, _ => rfl
  | p :: ps, a, b => by
    simp only [loop2Ok]
    by_cases hb : b < p.length
    · simp [hb, okB]; omega
    · simp [hb]
      exact ⟨by omega, loop2Ok_found ps a _⟩

theorem loop2Ok_notfound : ∀ (ps : List Bytes) (a b : Nat), a ≤ b →
    loop2Ok ps a b false false = true
  | [], _, _, _ => rfl
  | p :: ps, a, b, hab => by
    simp only [loop2Ok]
    by_cases ha : a < p.length
    · by_cases hb : b < p.length
      · simp [ha, hb, okAB, hab]; omega
      · simp [ha, hb, okA, loop2Ok_found]; omega
    · simp [ha]
      exact ⟨by omega, loop2Ok_notfound ps _ _ (by omega)⟩

theorem getBoxptrsOk_of_le (parts : List Bytes) (a b : Nat) (hab : a ≤ b) :
    getBoxptrsOk parts a b = true := by
  unfold getBoxptrsOk
  split
  · rfl
  · rw [loop1Ok_notfound parts a b hab]
    cases loop1 parts a b false none with
    | ret p => rfl
    | fall => simp [loop2Ok_notfound parts a b hab]

/-! ### every returned slice is a sub-slice of one part -/

/-- `s` is `&p[i..j]` for in-range `i ≤ j ≤ p.len()` -/
def IsSub (s p : Bytes) : Prop := ∃ i j, i ≤ j ∧ j ≤ p.length ∧ s = (p.take j).drop i

theorem isSub_boxAB (p : Bytes) (a b : Nat) (h1 : a ≤ b) (h2 : b ≤ p.length) : IsSub (boxAB p a b) p :=
  ⟨a, b, h1, h2, rfl⟩

theorem isSub_boxA (p : Bytes) (a : Nat) (h : a ≤ p.length) : IsSub (boxA p a) p :=
  ⟨a, p.length, h, Nat.le_refl _, by simp [boxA]⟩

theorem isSub_boxB (p : Bytes) (b : Nat) (h : b ≤ p.length) : IsSub (boxB p b) p :=
  ⟨0, b, Nat.zero_le _, h, by simp [boxB]⟩

theorem isSub_self (p : Bytes) : IsSub p p :=
  ⟨0, p.length, Nat.zero_le _, Nat.le_refl _, by simp⟩

theorem loop1_slices : ∀ (ps : List Bytes) (a1 b1 : Nat), a1 ≤ b1 → ∀ q,
    loop1 ps a1 b1 false none = .ret q → ∀ s ∈ q.slices, ∃ p ∈ ps, IsSub s p
  | [], _, _, _, q, h => by simp [loop1] at h
  | p :: ps, a1, b1, hab, q, h => by
    by_cases ha : a1 < p.length
    · by_cases hb : b1 ≤ p.length
      · have : q = .single (boxAB p a1 b1) := by simpa [loop1, ha, hb] using h.symm
        subst this
        intro s hs
        simp [Ptrs.slices] at hs
        subst hs
        exact ⟨p, by simp, isSub_boxAB p a1 b1 hab hb⟩
      · have hb' : p.length < b1 := by omega
        have hstep : loop1 (p :: ps) a1 b1 false none
            = loop1 ps a1 (b1 - p.length) true (some (boxA p a1)) := by
          simp [loop1, ha, hb, hb']
        rw [hstep, loop1_found] at h
        have hA := isSub_boxA p a1 (by omega)
        cases ps with
        | nil =>
          simp at h
          subst h
          intro s hs
          simp [Ptrs.slices] at hs
          subst hs
          exact ⟨p, by simp, hA⟩
        | cons r rs =>
          by_cases hq : b1 - p.length ≤ r.length
          · simp [hq] at h
            subst h
            intro s hs
            simp [Ptrs.slices] at hs
            rcases hs with hs | hs
            · subst hs; exact ⟨p, by simp, hA⟩
            · subst hs; exact ⟨r, by simp, isSub_boxB r _ hq⟩
          · simp [hq] at h
    · have hstep : loop1 (p :: ps) a1 b1 false none
          = loop1 ps (a1 - p.length) (b1 - p.length) false none := by
        simp [loop1, ha]
      rw [hstep] at h
      intro s hs
      obtain ⟨p', hp', hsub⟩ := loop1_slices ps _ _ (by omega) q h s hs
      exact ⟨p', by simp [hp'], hsub⟩

theorem loop2_found_slices : ∀ (ps : List Bytes) (a b : Nat) (acc ss : List Bytes),
    loop2 ps a b true true acc = .multi ss → ∀ s ∈ ss, s ∈ acc ∨ ∃ p ∈ ps, IsSub s p
  | [], a, b, acc, ss, h => by
    simp [loop2] at h
    subst h
    intro s hs
    exact Or.inl hs
  | p :: ps, a, b, acc, ss, h => by
    by_cases hb : b < p.length
    · simp [loop2, hb] at h
      subst h
      intro s hs
      simp at hs
      rcases hs with hs | hs
      · exact Or.inl hs
      · subst hs; exact Or.inr ⟨p, by simp, isSub_boxB p b (by omega)⟩
    · have hstep : loop2 (p :: ps) a b true true acc = loop2 ps a (b - p.length) true true (acc ++ [p]) := by
        simp only [loop2]
        simp [hb]
      rw [hstep] at h
      intro s hs
      rcases loop2_found_slices ps a _ _ ss h s hs with h1 | ⟨p', hp', hsub⟩
      · simp at h1
        rcases h1 with h1 | h1
        · exact Or.inl h1
        · subst h1; exact Or.inr ⟨s, by simp, isSub_self s⟩
      · exact Or.inr ⟨p', by simp [hp'], hsub⟩

theorem loop2_slices : ∀ (ps : List Bytes) (a b : Nat) (ss : List Bytes), a ≤ b →
    loop2 ps a b false false [] = .multi ss → ∀ s ∈ ss, ∃ p ∈ ps, IsSub s p
  | [], a, b, ss, _, h => by
    simp [loop2] at h
    subst h
    intro s hs
    simp at hs
  | p :: ps, a, b, ss, hab, h => by
    by_cases ha : a < p.length
    · by_cases hb : b < p.length
      · simp [loop2, ha, hb] at h
        subst h
        intro s hs
        simp at hs
        subst hs
        exact ⟨p, by simp, isSub_boxAB p a b hab (by omega)⟩
      · have hstep : loop2 (p :: ps) a b false false [] = loop2 ps a (b - p.length) true true [boxA p a] := by
          simp only [loop2]
          simp [ha, hb]
        rw [hstep] at h
        intro s hs
        rcases loop2_found_slices ps a _ _ ss h s hs with h1 | ⟨p', hp', hsub⟩
        · simp at h1
          subst h1
          exact ⟨p, by simp, isSub_boxA p a (by omega)⟩
        · exact ⟨p', by simp [hp'], hsub⟩
    · have hstep : loop2 (p :: ps) a b false false [] = loop2 ps (a - p.length) b false false [] := by
        simp only [loop2]
        simp [ha]
      rw [hstep] at h
      intro s hs
      obtain ⟨p', hp', hsub⟩ := loop2_slices ps _ b ss (by omega) h s hs
      exact ⟨p', by simp [hp'], hsub⟩

theorem loop2_multi : ∀ (ps : List Bytes) (a b : Nat) (f g : Bool) (acc : List Bytes),
    ∃ ss, loop2 ps a b f g acc = .multi ss
  | [], _, _, _, _, acc => ⟨acc, rfl⟩
  | p :: ps, a, b, f, g, acc => by
    simp only [loop2]
    split
    · split
      · exact ⟨_, rfl⟩
      · exact loop2_multi ps _ _ _ _ _
    · split
      · exact loop2_multi ps _ _ _ _ _
      · split
        · exact ⟨_, rfl⟩
        · exact loop2_multi ps _ _ _ _ _

theorem getBoxptrs_slices_sub (parts : List Bytes) (a b : Nat) (hab : a ≤ b) :
    ∀ s ∈ (getBoxptrs parts a b).slices, ∃ p ∈ parts, IsSub s p := by
  unfold getBoxptrs
  split
  · intro s hs; simp [Ptrs.slices] at hs
  · split
    · next q hq => exact loop1_slices parts a b hab q hq
    · next hq =>
      have := loop2_multi parts a b false false []
      obtain ⟨ss, hss⟩ := this
      rw [hss]
      exact loop2_slices parts a b ss hab hss

/-! ### `MultiPtr` holds at least two slices (`debug_assert_gt!(ptrs.len(), 1)`) -/

theorem loop2_found_len : ∀ (ps : List Bytes) (a b : Nat) (acc ss : List Bytes), ps ≠ [] →
    loop2 ps a b true true acc = .multi ss → acc.length + 1 ≤ ss.length
  | [], _, _, _, _, h, _ => absurd rfl h
  | p :: ps, a, b, acc, ss, _, h => by
    by_cases hb : b < p.length
    · simp [loop2, hb] at h
      subst h
      simp
    · have hstep : loop2 (p :: ps) a b true true acc = loop2 ps a (b - p.length) true true (acc ++ [p]) := by
        simp only [loop2]
        simp [hb]
      rw [hstep] at h
      obtain ⟨ss', h1, _⟩ := loop2_found ps a (b - p.length) (acc ++ [p])
      rw [h1] at h
      simp at h
      subst h
      simp

theorem loop2_len : ∀ (ps : List Bytes) (a b b' : Nat) (ss : List Bytes), b ≤ b' →
    spans3 ps a b = true → loop2 ps a b' false false [] = .multi ss → 2 ≤ ss.length
  | [], _, _, _, _, _, h, _ => by simp [spans3] at h
  | p :: ps, a, b, b', ss, hbb, hs, h => by
    by_cases ha : a < p.length
    · cases ps with
      | nil => simp [spans3, ha] at hs
      | cons r rs =>
        have hb : ¬ b' < p.length := by simp [spans3, ha] at hs; omega
        have hstep : loop2 (p :: r :: rs) a b' false false []
            = loop2 (r :: rs) a (b' - p.length) true true [boxA p a] := by
          simp only [loop2]
          simp [ha, hb]
        rw [hstep] at h
        have := loop2_found_len (r :: rs) a _ [boxA p a] ss (by simp) h
        simpa using this
    · have hstep : loop2 (p :: ps) a b' false false [] = loop2 ps (a - p.length) b' false false [] := by
        simp only [loop2]
        simp [ha]
      rw [hstep] at h
      exact loop2_len ps (a - p.length) (b - p.length) b' ss (by omega)
        (by simpa [spans3, ha] using hs) h

theorem getBoxptrs_multi_len (parts : List Bytes) (a b : Nat) (hab : a ≤ b) (ss : List Bytes)
    (h : getBoxptrs parts a b = .multi ss) : 2 ≤ ss.length := by
  unfold getBoxptrs at h
  split at h
  · simp at h
  · next hn =>
    have hlt : a < (flat parts).length := by simp [lineLen, flat] at hn ⊢; omega
    have h1 := loop1_notfound parts a b hab hlt
    by_cases hs : spans3 parts a b = true
    · rw [if_pos hs] at h1
      rw [h1] at h
      exact loop2_len parts a b b ss (Nat.le_refl _) hs h
    · rw [if_neg hs] at h1
      obtain ⟨q, h2, _, h4, _⟩ := h1
      rw [h2] at h
      exact absurd h (h4 ss)

end S4V.Lemmas.Boxptrs
