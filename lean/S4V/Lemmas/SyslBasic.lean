/-
Basic lemmas for the message layer (`S4V.Model.Syslines`):
* simp characterisations of the generated filter functions,
* well-formed line lists (`WFFrom`, `WFLines`, `endOf`), `lineAt`,
* `linesFrom P d` is well formed and tiles `[0, |d|)`.
-/
import S4V.Model.Syslines

namespace S4V.Lemmas.Syslines
open S4V.Model.Lines S4V.Model.Syslines S4V.Gen.Filter

/-! ### the generated filter functions -/

@[simp] theorem dtAfterOrBefore_none (t : Int) : dtAfterOrBefore t none = .Pass := rfl

theorem dtAfterOrBefore_some (t a : Int) :
    dtAfterOrBefore t (some a) = if t < a then .OccursBefore else .OccursAtOrAfter := by
  by_cases h : t < a <;> simp [dtAfterOrBefore, unwrapD, h]

theorem dtAfterOrBefore_some_lt {t a : Int} (h : t < a) :
    dtAfterOrBefore t (some a) = .OccursBefore := by
  simp [dtAfterOrBefore_some, h]

theorem dtAfterOrBefore_some_ge {t a : Int} (h : a ≤ t) :
    dtAfterOrBefore t (some a) = .OccursAtOrAfter := by
  have : ¬ t < a := by omega
  simp [dtAfterOrBefore_some, this]

/-- "`a ≤ t`, a missing bound being no constraint" -/
def geA (a : Option Int) (t : Int) : Prop := ∀ x, a = some x → x ≤ t
/-- "`t ≤ b`, a missing bound being no constraint" -/
def leB (b : Option Int) (t : Int) : Prop := ∀ y, b = some y → t ≤ y

instance (a : Option Int) (t : Int) : Decidable (geA a t) :=
  match a with
  | none => isTrue (by intro x h; cases h)
  | some x => if h : x ≤ t then isTrue (by intro y hy; cases hy; exact h)
              else isFalse (fun hh => h (hh x rfl))

instance (b : Option Int) (t : Int) : Decidable (leB b t) :=
  match b with
  | none => isTrue (by intro x h; cases h)
  | some x => if h : t ≤ x then isTrue (by intro y hy; cases hy; exact h)
              else isFalse (fun hh => h (hh x rfl))

@[simp] theorem geA_none (t : Int) : geA none t := by intro x h; cases h
@[simp] theorem leB_none (t : Int) : leB none t := by intro x h; cases h
@[simp] theorem geA_some (a t : Int) : geA (some a) t ↔ a ≤ t := by
  constructor
  · intro h; exact h a rfl
  · intro h x hx; cases hx; exact h
@[simp] theorem leB_some (b t : Int) : leB (some b) t ↔ t ≤ b := by
  constructor
  · intro h; exact h b rfl
  · intro h x hx; cases hx; exact h

theorem dtPassFilters_inRange_iff (t : Int) (a b : Option Int) :
    dtPassFilters t a b = .InRange ↔
      (∀ x, a = some x → x ≤ t) ∧ (∀ y, b = some y → t ≤ y) := by
  show _ ↔ geA a t ∧ leB b t
  cases a <;> cases b <;> simp [dtPassFilters] <;> (try split) <;> (try split) <;> simp <;> omega

theorem dtPassFilters_beforeRange_iff (t : Int) (a b : Option Int) :
    dtPassFilters t a b = .BeforeRange ↔ ∃ x, a = some x ∧ t < x := by
  cases a <;> cases b <;> simp [dtPassFilters] <;> (try split) <;> (try split) <;> simp <;> omega

theorem dtPassFilters_afterRange_iff (t : Int) (a b : Option Int) :
    dtPassFilters t a b = .AfterRange ↔ geA a t ∧ ∃ y, b = some y ∧ y < t := by
  cases a <;> cases b <;> simp [dtPassFilters] <;> (try split) <;> (try split) <;> simp <;> omega

theorem dtAfterOrBefore_ne_before_iff (t : Int) (a : Option Int) :
    dtAfterOrBefore t a ≠ .OccursBefore ↔ geA a t := by
  cases a with
  | none => simp
  | some x => by_cases h : t < x <;> simp [dtAfterOrBefore_some, h] <;> omega

/-! ### well-formed line lists -/

/-- the lines tile an interval starting at `s`: non-empty, consecutive -/
def WFFrom : Nat → List LineInfo → Prop
  | _, [] => True
  | s, l :: r => l.beg = s ∧ l.beg ≤ l.fin ∧ WFFrom (l.fin + 1) r

/-- lines are non-empty, the first begins at 0, each next begins right after the
previous one: they tile `[0, fileSz ls)` -/
def WFLines (ls : List LineInfo) : Prop := WFFrom 0 ls

instance decWFFrom : (s : Nat) → (ls : List LineInfo) → Decidable (WFFrom s ls)
  | _, [] => isTrue trivial
  | s, l :: r =>
    have := decWFFrom (l.fin + 1) r
    inferInstanceAs (Decidable (l.beg = s ∧ l.beg ≤ l.fin ∧ WFFrom (l.fin + 1) r))

instance (ls : List LineInfo) : Decidable (WFLines ls) := decWFFrom 0 ls

/-- offset right after the lines `ls` when they start at `s` -/
def endOf : Nat → List LineInfo → Nat
  | s, [] => s
  | _, l :: r => endOf (l.fin + 1) r

@[simp] theorem endOf_nil (s : Nat) : endOf s [] = s := rfl
@[simp] theorem endOf_cons (s : Nat) (l : LineInfo) (r : List LineInfo) :
    endOf s (l :: r) = endOf (l.fin + 1) r := rfl
@[simp] theorem WFFrom_nil (s : Nat) : WFFrom s [] := trivial
@[simp] theorem WFFrom_cons (s : Nat) (l : LineInfo) (r : List LineInfo) :
    WFFrom s (l :: r) ↔ l.beg = s ∧ l.beg ≤ l.fin ∧ WFFrom (l.fin + 1) r := Iff.rfl

theorem endOf_append (s : Nat) (a b : List LineInfo) :
    endOf s (a ++ b) = endOf (endOf s a) b := by
  induction a generalizing s with
  | nil => rfl
  | cons l r ih => simp [ih]

theorem WFFrom_append (s : Nat) (a b : List LineInfo) :
    WFFrom s (a ++ b) ↔ WFFrom s a ∧ WFFrom (endOf s a) b := by
  induction a generalizing s with
  | nil => simp
  | cons l r ih => simp [ih, and_assoc]

theorem fileSz_eq_endOf (ls : List LineInfo) : fileSz ls = endOf 0 ls := by
  have : ∀ s, (match ls.getLast? with | some l => l.fin + 1 | none => s) = endOf s ls := by
    induction ls with
    | nil => intro s; rfl
    | cons l r ih =>
      intro s
      cases r with
      | nil => rfl
      | cons l' r' =>
        rw [List.getLast?_cons_cons, endOf_cons]
        have := ih (l.fin + 1)
        cases h : (l' :: r').getLast? with
        | none => exact absurd h (by simp [List.getLast?_eq_none_iff])
        | some x => rw [h] at this; exact this
  exact this 0

theorem le_endOf {s : Nat} {ls : List LineInfo} (h : WFFrom s ls) : s ≤ endOf s ls := by
  induction ls generalizing s with
  | nil => simp
  | cons l r ih =>
    obtain ⟨h1, h2, h3⟩ := h
    have := ih h3
    simp; omega

theorem lt_endOf_of_ne_nil {s : Nat} {ls : List LineInfo} (h : WFFrom s ls) (hne : ls ≠ []) :
    s < endOf s ls := by
  cases ls with
  | nil => exact absurd rfl hne
  | cons l r =>
    obtain ⟨h1, h2, h3⟩ := h
    have := le_endOf h3
    simp; omega

theorem mem_bounds {s : Nat} {ls : List LineInfo} (h : WFFrom s ls) {x : LineInfo} (hx : x ∈ ls) :
    s ≤ x.beg ∧ x.beg ≤ x.fin ∧ x.fin < endOf s ls := by
  induction ls generalizing s with
  | nil => cases hx
  | cons l r ih =>
    obtain ⟨h1, h2, h3⟩ := h
    rcases List.mem_cons.1 hx with rfl | hx
    · have := le_endOf h3
      simp; omega
    · have := ih h3 hx
      simp; omega

theorem length_le_endOf {s : Nat} {ls : List LineInfo} (h : WFFrom s ls) :
    s + ls.length ≤ endOf s ls := by
  induction ls generalizing s with
  | nil => simp
  | cons l r ih =>
    obtain ⟨h1, h2, h3⟩ := h
    have := ih h3
    simp; omega

/-- every offset of the tiled interval lies in some line -/
theorem exists_line {s : Nat} {ls : List LineInfo} (h : WFFrom s ls) {fo : Nat}
    (h1 : s ≤ fo) (h2 : fo < endOf s ls) : ∃ l ∈ ls, l.beg ≤ fo ∧ fo ≤ l.fin := by
  induction ls generalizing s with
  | nil => simp at h2; omega
  | cons l r ih =>
    obtain ⟨e1, e2, e3⟩ := h
    by_cases hc : fo ≤ l.fin
    · exact ⟨l, by simp, by omega, hc⟩
    · obtain ⟨x, hx, hb⟩ := ih e3 (by omega) (by simpa using h2)
      exact ⟨x, by simp [hx], hb⟩

/-! ### `lineAt` -/

theorem lineAt_mid {X Y : List LineInfo} {l : LineInfo} (h : WFLines (X ++ l :: Y)) {fo : Nat}
    (h1 : l.beg ≤ fo) (h2 : fo ≤ l.fin) : lineAt (X ++ l :: Y) fo = some l := by
  unfold lineAt
  rw [List.find?_eq_some_iff_append]
  refine ⟨by simp [h1, h2], X, Y, rfl, ?_⟩
  intro a ha
  obtain ⟨hX, hl, _, _⟩ := (WFFrom_append 0 X (l :: Y)).1 h
  have := mem_bounds hX ha
  simp; omega

theorem lineAt_none {ls : List LineInfo} (h : WFLines ls) {fo : Nat} (h1 : fileSz ls ≤ fo) :
    lineAt ls fo = none := by
  unfold lineAt
  rw [List.find?_eq_none]
  intro x hx
  have := mem_bounds h hx
  rw [fileSz_eq_endOf] at h1
  simp; omega

theorem lineAt_some_iff {ls : List LineInfo} (h : WFLines ls) (fo : Nat) (l : LineInfo) :
    lineAt ls fo = some l ↔ l ∈ ls ∧ l.beg ≤ fo ∧ fo ≤ l.fin := by
  constructor
  · intro hl
    unfold lineAt at hl
    have h1 := List.find?_some hl
    have h2 := List.mem_of_find?_eq_some hl
    simp at h1
    exact ⟨h2, h1⟩
  · rintro ⟨hm, h1, h2⟩
    obtain ⟨X, Y, rfl⟩ := List.mem_iff_append.1 hm
    exact lineAt_mid h h1 h2

theorem lineAt_none_iff {ls : List LineInfo} (h : WFLines ls) (fo : Nat) :
    lineAt ls fo = none ↔ fileSz ls ≤ fo := by
  constructor
  · intro hn
    apply Decidable.byContradiction
    intro hc
    rw [fileSz_eq_endOf] at hc
    obtain ⟨l, hl, hb⟩ := exists_line h (Nat.zero_le fo) (by omega)
    rw [((lineAt_some_iff h fo l).2 ⟨hl, hb⟩)] at hn
    cases hn
  · exact lineAt_none h

/-! ### `linesFrom` is well formed -/

theorem nlAtOrAfter_bounds (d : Bytes) (fo i : Nat) (h : nlAtOrAfter d fo = some i) :
    fo ≤ i ∧ i < d.length := by
  induction d generalizing fo i with
  | nil => simp [nlAtOrAfter] at h
  | cons b rest ih =>
    cases fo with
    | zero =>
      simp only [nlAtOrAfter] at h
      split at h
      · cases h; simp
      · cases h' : nlAtOrAfter rest 0 with
        | none => simp [h'] at h
        | some j =>
          simp [h'] at h
          have := ih 0 j h'
          simp; omega
    | succ fo =>
      simp only [nlAtOrAfter] at h
      cases h' : nlAtOrAfter rest fo with
      | none => simp [h'] at h
      | some j =>
        simp [h'] at h
        have := ih fo j h'
        simp; omega

theorem lineEnd_ge (d : Bytes) (fo : Nat) (h : fo < d.length) : fo ≤ lineEnd d fo := by
  unfold lineEnd
  split
  · next i hi => exact (nlAtOrAfter_bounds d fo i hi).1
  · omega

theorem lineEnd_lt (d : Bytes) (fo : Nat) (h : fo < d.length) : lineEnd d fo < d.length := by
  unfold lineEnd
  split
  · next i hi => exact (nlAtOrAfter_bounds d fo i hi).2
  · omega

theorem linesFromAux_wf (P : Bytes → Option Int) (d : Bytes) (fuel fo : Nat) :
    WFFrom fo (linesFromAux P d fuel fo) := by
  induction fuel generalizing fo with
  | zero => simp [linesFromAux]
  | succ n ih =>
    simp only [linesFromAux]
    split
    · simp
    · next hlt =>
      have := lineEnd_ge d fo (by omega)
      exact ⟨rfl, this, ih _⟩

theorem linesFromAux_endOf (P : Bytes → Option Int) (d : Bytes) (fuel fo : Nat)
    (hfo : fo ≤ d.length) (hfuel : d.length ≤ fo + fuel) :
    endOf fo (linesFromAux P d fuel fo) = d.length := by
  induction fuel generalizing fo with
  | zero => simp [linesFromAux]; omega
  | succ n ih =>
    simp only [linesFromAux]
    split
    · simp; omega
    · next hlt =>
      have h1 := lineEnd_ge d fo (by omega)
      have h2 := lineEnd_lt d fo (by omega)
      simp only [endOf_cons]
      exact ih _ (by omega) (by omega)

theorem linesFromAux_mem (P : Bytes → Option Int) (d : Bytes) (fuel fo : Nat) (l : LineInfo)
    (h : l ∈ linesFromAux P d fuel fo) :
    l.beg < d.length ∧ l.fin = lineEnd d l.beg ∧
      l.dt = P ((d.drop l.beg).take (l.fin + 1 - l.beg)) := by
  induction fuel generalizing fo with
  | zero => simp [linesFromAux] at h
  | succ n ih =>
    simp only [linesFromAux] at h
    split at h
    · cases h
    · next hlt =>
      rcases List.mem_cons.1 h with rfl | h
      · exact ⟨by simp; omega, rfl, rfl⟩
      · exact ih _ h

/-- `linesFrom P d` is well formed, whatever the parser and the data -/
theorem linesFrom_wf (P : Bytes → Option Int) (d : Bytes) : WFLines (linesFrom P d) :=
  linesFromAux_wf P d d.length 0

/-- … and tiles the whole file -/
theorem linesFrom_fileSz (P : Bytes → Option Int) (d : Bytes) :
    fileSz (linesFrom P d) = d.length := by
  rw [fileSz_eq_endOf]
  exact linesFromAux_endOf P d d.length 0 (Nat.zero_le _) (by omega)

/-- each line ends at `lineEnd` of its first byte and carries the parser's verdict
on exactly its byte range -/
theorem linesFrom_mem (P : Bytes → Option Int) (d : Bytes) (l : LineInfo)
    (h : l ∈ linesFrom P d) :
    l.beg < d.length ∧ l.fin = lineEnd d l.beg ∧
      l.dt = P ((d.drop l.beg).take (l.fin + 1 - l.beg)) :=
  linesFromAux_mem P d d.length 0 l h

end S4V.Lemmas.Syslines
