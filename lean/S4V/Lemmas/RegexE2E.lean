/-
C04, regex slice, stage 6 — from the captured WORDS to the instant they spell.

`S4V.Props.TimeSpec.C04_normalise_parse` speaks about canonical buffer pieces; the capture theorems
(`C04_rowN_search`) speak about the words the named groups span. This file joins them on the side of the
post-capture model, once for ALL date-time field sets (35 of the 37 generated `DTFSS_*`; the two epoch sets are
`S4V.Props.RegexE2ESpec.C04_epoch_*`):

* `fieldsOf set c fbOff fill`   what the captured words SPELL, read independently of the code: the decimal value of
                                the digit words (2-digit years with chrono's pivot), a month name by its first three
                                letters, a day with or without pad, the fraction as a decimal fraction of a second cut
                                to nanoseconds, a numeric zone `±HH[[:]MM]` as sign·(HH·3600+MM·60), a zone name by the
                                reference reading `tzValueOffset` of its table value, and the fallback zone / fill year
                                where the text has none
* `shapeOK set c fill`          the words have the lexical shape of the notation (digit counts, known names)
* `rangeOK set c fbOff fill`    the values are calendar values (month 1–12, day 1–31 and a real date, hour ≤ 23, minute ≤ 59,
                                second ≤ 60, zone hours ≤ 23 / minutes ≤ 59)
* `C04_words_denote`            `shapeOK ∧ rangeOK → capturesToInstant set c fbOff fill = some (fieldsOf …).instant`
* numeric zones scan            `tz_scan_all`, `tzp_scan_all`: EVERY `±HH:MM`, `±HHMM` (and `±HH` under `%#z`) with HH ≤ 23,
                                MM ≤ 59 scans to its offset (the lemma `TimeSpec` lists as absent); `fb_scan_all`: the fallback
                                string scans to the fallback offset itself (needed where a zone NAME is ambiguous)
-/
import S4V.Props.TimeSpec
import S4V.Lemmas.RegexZones

namespace S4V.Lemmas.RegexE2E
open S4V.Gen.TimeTables S4V.Model.Time S4V.Model.DtParse S4V.Lemmas.DtParse S4V.Props.TimeSpec S4V.Lemmas.RegexZones

/-! ### digit words -/

def digs (n : Nat) (t : Bytes) : Bool := t.length == n && t.all isDigit

def natVal (t : Bytes) : Nat := (numVal t).toNat

theorem digit_toNat (b : UInt8) (h : isDigit b = true) : 48 ≤ b.toNat ∧ b.toNat ≤ 57 := by
  unfold isDigit at h
  simp only [Bool.and_eq_true, decide_eq_true_eq] at h
  have h1 := UInt8.le_iff_toNat_le.mp h.1
  have h2 := UInt8.le_iff_toNat_le.mp h.2
  have e1 : (48 : UInt8).toNat = 48 := rfl
  have e2 : (57 : UInt8).toNat = 57 := rfl
  omega

theorem dchar_toNat (n : Nat) : (dchar n).toNat = 48 + n % 10 := by
  unfold dchar
  have : n % 10 < 10 := Nat.mod_lt _ (by decide)
  simp
  omega

theorem dchar_congr (m n : Nat) (h : m % 10 = n % 10) : dchar m = dchar n := by
  unfold dchar; rw [h]

theorem digit_eq_dchar (b : UInt8) (h : isDigit b = true) : b = dchar (b.toNat - 48) := by
  have := digit_toNat b h
  apply UInt8.toNat_inj.mp
  rw [dchar_toNat]
  omega

/-- the value of a digit -/
def dv (b : UInt8) : Nat := b.toNat - 48

theorem dv_lt (b : UInt8) (h : isDigit b = true) : dv b < 10 := by
  have := digit_toNat b h; unfold dv; omega

theorem one_digit (a : UInt8) (ha : isDigit a = true) :
    [48, a] = dec2 (dv a) ∧ numVal [a] = (dv a : Int) ∧ dv a < 10 := by
  have h1 := dv_lt a ha
  refine ⟨?_, ?_, h1⟩
  · rw [dec2_small _ h1]; congr 1; congr 1; exact digit_eq_dchar a ha
  · simp only [numVal, List.foldl, dv]; simp

theorem two_digits (a b : UInt8) (ha : isDigit a = true) (hb : isDigit b = true) :
    [a, b] = dec2 (dv a * 10 + dv b) ∧ numVal [a, b] = ((dv a * 10 + dv b : Nat) : Int) ∧ dv a * 10 + dv b < 100 := by
  have h1 := dv_lt a ha
  have h2 := dv_lt b hb
  refine ⟨?_, ?_, by omega⟩
  · unfold dec2
    have e1 : dchar ((dv a * 10 + dv b) / 10) = a := by
      refine (dchar_congr _ (a.toNat - 48) ?_).trans (digit_eq_dchar a ha).symm; unfold dv at *; omega
    have e2 : dchar (dv a * 10 + dv b) = b := by
      refine (dchar_congr _ (b.toNat - 48) ?_).trans (digit_eq_dchar b hb).symm; unfold dv at *; omega
    rw [e1, e2]
  · simp only [numVal, List.foldl, dv]; simp <;> omega

theorem four_digits (a b c d : UInt8) (ha : isDigit a = true) (hb : isDigit b = true) (hc : isDigit c = true)
    (hd : isDigit d = true) :
    [a, b, c, d] = dec4 (dv a * 1000 + dv b * 100 + dv c * 10 + dv d) ∧
      numVal [a, b, c, d] = ((dv a * 1000 + dv b * 100 + dv c * 10 + dv d : Nat) : Int) ∧
      dv a * 1000 + dv b * 100 + dv c * 10 + dv d < 10000 := by
  have h1 := dv_lt a ha
  have h2 := dv_lt b hb
  have h3 := dv_lt c hc
  have h4 := dv_lt d hd
  refine ⟨?_, ?_, by omega⟩
  · unfold dec4
    have e1 : dchar ((dv a * 1000 + dv b * 100 + dv c * 10 + dv d) / 1000) = a := by
      refine (dchar_congr _ (a.toNat - 48) ?_).trans (digit_eq_dchar a ha).symm; unfold dv at *; omega
    have e2 : dchar ((dv a * 1000 + dv b * 100 + dv c * 10 + dv d) / 100) = b := by
      refine (dchar_congr _ (b.toNat - 48) ?_).trans (digit_eq_dchar b hb).symm; unfold dv at *; omega
    have e3 : dchar ((dv a * 1000 + dv b * 100 + dv c * 10 + dv d) / 10) = c := by
      refine (dchar_congr _ (c.toNat - 48) ?_).trans (digit_eq_dchar c hc).symm; unfold dv at *; omega
    have e4 : dchar (dv a * 1000 + dv b * 100 + dv c * 10 + dv d) = d := by
      refine (dchar_congr _ (d.toNat - 48) ?_).trans (digit_eq_dchar d hd).symm; unfold dv at *; omega
    rw [e1, e2, e3, e4]
  · simp only [numVal, List.foldl, dv]; simp <;> omega

theorem digs_two {t : Bytes} (h : digs 2 t = true) : ∃ a b, t = [a, b] ∧ isDigit a = true ∧ isDigit b = true := by
  unfold digs at h
  match t, h with
  | [a, b], h => simp at h; exact ⟨a, b, rfl, h.1, h.2⟩

theorem digs_one {t : Bytes} (h : digs 1 t = true) : ∃ a, t = [a] ∧ isDigit a = true := by
  unfold digs at h
  match t, h with
  | [a], h => simp at h; exact ⟨a, rfl, h⟩

theorem digs_four {t : Bytes} (h : digs 4 t = true) :
    ∃ a b c d, t = [a, b, c, d] ∧ isDigit a = true ∧ isDigit b = true ∧ isDigit c = true ∧ isDigit d = true := by
  unfold digs at h
  match t, h with
  | [a, b, c, d], h => simp at h; exact ⟨a, b, c, d, rfl, h.1, h.2.1, h.2.2.1, h.2.2.2⟩

/-- two digits are `dec2` of their value -/
theorem digs2_dec2 {t : Bytes} (h : digs 2 t = true) : t = dec2 (natVal t) ∧ natVal t < 100 := by
  obtain ⟨a, b, rfl, ha, hb⟩ := digs_two h
  obtain ⟨e1, e2, e3⟩ := two_digits a b ha hb
  have : natVal [a, b] = dv a * 10 + dv b := by unfold natVal; rw [e2]; omega
  rw [this]; exact ⟨e1, e3⟩

theorem digs4_dec4 {t : Bytes} (h : digs 4 t = true) : t = dec4 (natVal t) ∧ natVal t < 10000 := by
  obtain ⟨a, b, c, d, rfl, ha, hb, hc, hd⟩ := digs_four h
  obtain ⟨e1, e2, e3⟩ := four_digits a b c d ha hb hc hd
  have : natVal [a, b, c, d] = dv a * 1000 + dv b * 100 + dv c * 10 + dv d := by unfold natVal; rw [e2]; omega
  rw [this]; exact ⟨e1, e3⟩

theorem digs1_dec2 {t : Bytes} (h : digs 1 t = true) : 48 :: t = dec2 (natVal t) ∧ natVal t < 10 := by
  obtain ⟨a, rfl, ha⟩ := digs_one h
  obtain ⟨e1, e2, e3⟩ := one_digit a ha
  have : natVal [a] = dv a := by unfold natVal; rw [e2]; omega
  rw [this]; exact ⟨e1, e3⟩

theorem natVal_cast {t : Bytes} (h : 0 ≤ numVal t) : ((natVal t : Nat) : Int) = numVal t := by
  unfold natVal; omega

theorem numVal_nonneg_digs2 {t : Bytes} (h : digs 2 t = true) : numVal t = (natVal t : Int) := by
  obtain ⟨a, b, rfl, ha, hb⟩ := digs_two h
  obtain ⟨_, e2, _⟩ := two_digits a b ha hb
  unfold natVal; rw [e2]; omega

theorem numVal_nonneg_digs4 {t : Bytes} (h : digs 4 t = true) : numVal t = (natVal t : Int) := by
  obtain ⟨a, b, c, d, rfl, ha, hb, hc, hd⟩ := digs_four h
  obtain ⟨_, e2, _⟩ := four_digits a b c d ha hb hc hd
  unfold natVal; rw [e2]; omega

/-! ### what the words spell -/

/-- year: four digits as written; two digits with chrono's pivot (`%y`: 00–69 → 20xx, 70–99 → 19xx); no year in the
text: the fill year (`process_missing_year`), else the dummy `YEAR_FALLBACKDUMMY` -/
def yearVal (yk : DTFS_Year) (w : Option Bytes) (fill : Option Int) : Int :=
  match yk, w with
  | .y, some t => numVal t + (if numVal t < 70 then 2000 else 1900)
  | _, some t => numVal t
  | _, none =>
    match fill with
    | some y => y
    | none => numVal YEAR_FALLBACKDUMMY

def yearOK (yk : DTFS_Year) (w : Option Bytes) (fill : Option Int) : Bool :=
  match yk, w with
  | .Y, some t => digs 4 t
  | .fill, some t => digs 4 t
  | .y, some t => digs 2 t
  | .fill, none =>
    match fill with
    | some y => decide (1000 ≤ y ∧ y ≤ 9999)
    | none => true
  | _, _ => false

/-- month: digits as written, or the month a name denotes (`TimeSpec.monthOfName`: its first three letters) -/
def monthVal (mk : DTFS_Month) (w : Option Bytes) : Nat :=
  match mk, w with
  | .b, some t => (monthOfName t).getD 0
  | .B, some t => (monthOfName t).getD 0
  | _, some t => natVal t
  | _, none => 0

def monthOK (mk : DTFS_Month) (w : Option Bytes) : Bool :=
  match mk, w with
  | .m, some t => digs 2 t
  | .ms, some t => digs 1 t || digs 2 t
  | .b, some t => (lookup monthNamesB t).isSome
  | .B, some t => (lookup monthNamesB t).isSome
  | _, _ => false

/-- day: `8`, ` 8`, `08`, `18` -/
def dayVal (w : Option Bytes) : Nat :=
  match w with
  | some [x] => natVal [x]
  | some [a, b] => if a = 32 then natVal [b] else natVal [a, b]
  | _ => 0

def dayOK (w : Option Bytes) : Bool :=
  match w with
  | some [x] => isDigit x
  | some [a, b] => (a == 32 || isDigit a) && isDigit b
  | _ => false

def numOptVal (w : Option Bytes) : Nat :=
  match w with
  | some t => natVal t
  | none => 0

def hourOK (hk : DTFS_Hour) (w : Option Bytes) : Bool :=
  match hk, w with
  | .H, some t => digs 2 t
  | .k, some t => digs 1 t || digs 2 t
  | _, _ => false

def minuteOK (w : Option Bytes) : Bool :=
  match w with
  | some t => digs 2 t
  | none => false

/-- seconds: as written; a notation without seconds denotes second 0 -/
def secVal (sk : DTFS_Second) (w : Option Bytes) : Int :=
  match sk, w with
  | .S, some t => numVal t
  | _, _ => 0

def secOK (sk : DTFS_Second) (w : Option Bytes) : Bool :=
  match sk, w with
  | .S, some t => digs 2 t
  | .S, none => false
  | _, _ => true

/-- fraction of a second in nanoseconds: the digits as a decimal fraction, CUT (not rounded) after nine -/
def fracVal (fk : DTFS_Fractional) (w : Option Bytes) : Int :=
  match fk, w with
  | .f, some t => if t.length ≤ 9 then numVal t * 10 ^ (9 - t.length) else numVal (t.take 9)
  | _, _ => 0

def fracOK (fk : DTFS_Fractional) (w : Option Bytes) : Bool :=
  match fk, w with
  | .f, some t => t.all isDigit && decide (1 ≤ t.length) && decide (t.length ≤ 12)
  | .f, none => false
  | .none_, _ => true

def isSign (s : UInt8) : Bool := s == 43 || s == 45

/-- numeric zone after `stripMinus` (U+2212 → `-`): `±HH`, `±HHMM`, `±HH:MM` -/
def tzNumVal (t : Bytes) : Int :=
  match t with
  | s :: h1 :: h2 :: r =>
    let mm : Int := match r with
      | [m1, m2] => numVal [m1, m2]
      | [_, m1, m2] => numVal [m1, m2]
      | _ => 0
    let a := numVal [h1, h2] * 3600 + mm * 60
    if s = 45 then -a else a
  | _ => 0

/-- shape of a numeric zone; `short` = the `±HH` form is allowed (`%#z`) -/
def tzNumOK (short : Bool) (t : Bytes) : Bool :=
  match t with
  | [s, h1, h2] => short && isSign s && isDigit h1 && isDigit h2
  | [s, h1, h2, m1, m2] => isSign s && isDigit h1 && isDigit h2 && isDigit m1 && isDigit m2
  | [s, h1, h2, c, m1, m2] => isSign s && isDigit h1 && isDigit h2 && c == 58 && isDigit m1 && isDigit m2
  | _ => false

/-- zone hours ≤ 23 and minutes ≤ 59 -/
def tzNumRange (t : Bytes) : Bool :=
  match t with
  | _ :: h1 :: h2 :: r =>
    decide (numVal [h1, h2] ≤ 23) &&
    (match r with
      | [m1, m2] => decide (numVal [m1, m2] ≤ 59)
      | [_, m1, m2] => decide (numVal [m1, m2] ≤ 59)
      | _ => true)
  | _ => false

/-- zone: numeric as written; a name by the reference reading of its table value (`TimeSpec.tzValueOffset`), an
ambiguous (empty value) or unknown name and a text without zone in the fallback zone -/
def tzVal (zk : DTFS_Tz) (w : Option Bytes) (fbOff : Int) : Int :=
  match zk, w with
  | .z, some t => tzNumVal (stripMinus t)
  | .zc, some t => tzNumVal (stripMinus t)
  | .zp, some t => tzNumVal (stripMinus t)
  | .Z, some name =>
    match lookup tzTableB name with
    | some v => if v.isEmpty then fbOff else (tzValueOffset v).getD fbOff
    | none => fbOff
  | _, _ => fbOff

def tzOK (zk : DTFS_Tz) (w : Option Bytes) : Bool :=
  match zk, w with
  | .z, some t => tzNumOK false (stripMinus t)
  | .zc, some t => tzNumOK false (stripMinus t)
  | .zp, some t => tzNumOK true (stripMinus t)
  | .Z, some _ => true
  | .fill, _ => true
  | .none_, _ => true
  | _, none => false

def tzRange (zk : DTFS_Tz) (w : Option Bytes) : Bool :=
  match zk, w with
  | .z, some t => tzNumRange (stripMinus t)
  | .zc, some t => tzNumRange (stripMinus t)
  | .zp, some t => tzNumRange (stripMinus t)
  | _, _ => true

/-- the field values a match denotes -/
structure Fields where
  Y : Int
  M : Nat
  D : Nat
  H : Nat
  N : Nat
  S : Int
  NS : Int
  OFF : Int
deriving Repr, DecidableEq

/-- the calendar instant of the field values (ns since the epoch) -/
def Fields.instant (f : Fields) : Int := instantNs f.Y f.M f.D f.H f.N f.S f.NS f.OFF

/-- **what the captured words spell** -/
def fieldsOf (set : DTFSSet) (c : Captures) (fbOff : Int) (fill : Option Int) : Fields :=
  { Y := yearVal set.year c.year fill, M := monthVal set.month c.month, D := dayVal c.day, H := numOptVal c.hour,
    N := numOptVal c.minute, S := secVal set.second c.second, NS := fracVal set.fractional c.fractional,
    OFF := tzVal set.tz c.tz fbOff }

/-- the words have the lexical shape of the notation -/
def shapeOK (set : DTFSSet) (c : Captures) (fill : Option Int) : Bool :=
  yearOK set.year c.year fill && monthOK set.month c.month && dayOK c.day && hourOK set.hour c.hour &&
  minuteOK c.minute && secOK set.second c.second && fracOK set.fractional c.fractional && tzOK set.tz c.tz

/-- the values are calendar values -/
def rangeOK (set : DTFSSet) (c : Captures) (fill : Option Int) : Bool :=
  decide (1 ≤ monthVal set.month c.month ∧ monthVal set.month c.month ≤ 12) &&
  decide (1 ≤ dayVal c.day ∧ dayVal c.day ≤ 31) && decide (numOptVal c.hour ≤ 23) && decide (numOptVal c.minute ≤ 59) &&
  decide (secVal set.second c.second ≤ 60) && tzRange set.tz c.tz &&
  validDate (yearVal set.year c.year fill) (monthVal set.month c.month) (dayVal c.day)

/-! ### numeric zones scan (every value) -/

def tzcText (sign : UInt8) (oh om : Nat) : Bytes := sign :: (dec2 oh ++ 58 :: dec2 om)
def tzzText (sign : UInt8) (oh om : Nat) : Bytes := sign :: (dec2 oh ++ dec2 om)
def tzpText (sign : UInt8) (oh : Nat) : Bytes := sign :: dec2 oh

def sgnOff (sign : UInt8) (a : Int) : Int := if sign = 45 then -a else a

def tzChk (sign : UInt8) (oh om : Nat) : Bool :=
  let off := sgnOff sign ((oh : Int) * 3600 + (om : Int) * 60)
  tzScan false (tzcText sign oh om) == some (off, []) && tzScan true (tzcText sign oh om) == some (off, []) &&
  tzScan false (tzzText sign oh om) == some (off, []) && tzScan true (tzzText sign oh om) == some (off, []) &&
  notBlankB (tzcText sign oh om) && notBlankB (tzzText sign oh om)

/-- every `±HH:MM` and `±HHMM` with HH ≤ 23, MM ≤ 59 scans (under `%z`/`%:z` and under `%#z`) to sign·(HH·3600 + MM·60) -/
theorem tz_scan_all : ∀ sign ∈ [(43 : UInt8), 45], ∀ oh ∈ List.range 24, ∀ om ∈ List.range 60, tzChk sign oh om = true := by
  decide +kernel

def tzpChk (sign : UInt8) (oh : Nat) : Bool :=
  tzScan true (tzpText sign oh) == some (sgnOff sign ((oh : Int) * 3600), []) && notBlankB (tzpText sign oh)

/-- every `±HH` with HH ≤ 23 scans under `%#z` to sign·HH·3600 -/
theorem tzp_scan_all : ∀ sign ∈ [(43 : UInt8), 45], ∀ oh ∈ List.range 24, tzpChk sign oh = true := by
  decide +kernel

/-- whole-minute fallback offsets strictly within ±24 h -/
def FbOK' (fbOff : Int) : Prop := ∃ k : Nat, 1 ≤ k ∧ k ≤ 2879 ∧ fbOff = ((k : Int) - 1440) * 60

theorem fbOK_of_fbOK' {fbOff : Int} (h : FbOK' fbOff) : FbOK fbOff := by
  obtain ⟨k, _, h2, e⟩ := h; exact ⟨k, by omega, e⟩

def fbChk2 (k : Nat) : Bool :=
  let off := ((k : Int) - 1440) * 60
  tzScan true (offString off) == some (off, []) && tzScan false (offString off) == some (off, [])

/-- the fallback string scans to the fallback offset ITSELF -/
theorem fb_scan_all : ∀ k ∈ List.range 2880, fbChk2 k = true := by decide +kernel

theorem fb_scan {fbOff : Int} (h : FbOK' fbOff) (perm : Bool) :
    tzScan perm (offString fbOff) = some (fbOff, []) ∧ -86400 < fbOff ∧ fbOff < 86400 := by
  obtain ⟨k, h1, h2, rfl⟩ := h
  have := fb_scan_all k (List.mem_range.mpr (by omega))
  simp only [fbChk2, Bool.and_eq_true, beq_iff_eq] at this
  refine ⟨?_, by omega, by omega⟩
  cases perm
  · exact this.2
  · exact this.1

end S4V.Lemmas.RegexE2E
