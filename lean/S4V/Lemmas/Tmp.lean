/-
Lemmas for C18 (temporary files): invariants of the protocol model
`S4V.Model.Tmp` under the repaired source order (`run true true`), the
formalisation of "no worker creates its file after the SIGINT handler ran",
and the step-preservation proofs the property file appeals to.
-/
import S4V.Model.Tmp

namespace S4V.Lemmas.Tmp
open S4V.Model.Tmp S4V.Gen.Tmp

/-! ## list helpers -/

theorem getD_set {α} (l : List α) (i j : Nat) (a d : α) :
    (l.set i a).getD j d = if i = j ∧ i < l.length then a else l.getD j d := by
  simp only [List.getD_eq_getElem?_getD, List.getElem?_set]
  by_cases hij : i = j
  · subst hij
    by_cases hi : i < l.length
    · simp [hi]
    · simp [hi]
  · simp [hij]

theorem lt_length_of_getD_ne {α} (l : List α) (i : Nat) (d : α) (h : l.getD i d ≠ d) : i < l.length := by
  by_cases hi : i < l.length
  · exact hi
  · exfalso; apply h
    simp [List.getD_eq_getElem?_getD, List.getElem?_eq_none (Nat.le_of_not_lt hi)]

/-- what the handler does to the disk: a file that is listed is removed -/
theorem getD_clear (a b : List Bool) (i : Nat) :
    (((a.zip b).map fun (d, l) => d && !l).getD i false) = (a.getD i false && (!b.getD i false && decide (i < b.length))) := by
  induction a generalizing b i with
  | nil => simp
  | cons x xs ih =>
    cases b with
    | nil => simp
    | cons y ys =>
      cases i with
      | zero => simp
      | succ k => simpa using ih ys k

theorem filter_id_length_eq_zero (l : List Bool) :
    (l.filter id).length = 0 ↔ ∀ i, l.getD i false = false := by
  induction l with
  | nil => simp
  | cons x xs ih =>
    constructor
    · intro h i
      cases x with
      | true => simp at h
      | false =>
        cases i with
        | zero => simp
        | succ k => simpa using (ih.1 (by simpa using h)) k
    · intro h
      have h0 := h 0
      simp at h0
      subst h0
      have : ∀ i, xs.getD i false = false := fun i => by simpa using h (i+1)
      simpa using ih.2 this

/-! ## late creation -/

/-- `noLate ul df s evs`: along the run of `evs` from `s` (as far as it is defined) no event is a
late creation. It is a boolean function of the run's intermediate states. -/
def noLate (ul df : Bool) (s : St) : List Ev → Bool
  | [] => true
  | e :: es => !lateCreate s e && match step ul df s e with
    | some s' => noLate ul df s' es
    | none => true

/-- the variant of `run` that rejects late creations -/
def runNoLate (ul df : Bool) (s : St) : List Ev → Option St
  | [] => some s
  | e :: es => if lateCreate s e then none else match step ul df s e with
    | some s' => runNoLate ul df s' es
    | none => none

/-- both formalisations agree: `runNoLate` accepts exactly the accepted runs without late creation -/
theorem runNoLate_eq_some_iff (ul df : Bool) (s t : St) (evs : List Ev) :
    runNoLate ul df s evs = some t ↔ run ul df s evs = some t ∧ noLate ul df s evs = true := by
  induction evs generalizing s with
  | nil => simp [runNoLate, run, noLate]
  | cons e es ih =>
    unfold runNoLate run noLate
    cases hl : lateCreate s e with
    | true => simp
    | false =>
      cases hs : step ul df s e with
      | none => simp
      | some s' => simpa using ih s'

/-! ## what steps do -/

theorem handlerRan_of_step {ul df s e s'} (h : step ul df s e = some s') (he : e ≠ .sigint) :
    s'.handlerRan = s.handlerRan := by
  cases e with
  | sigint => exact absurd rfl he
  | exit =>
    simp only [step] at h
    split at h
    · cases h
    · split at h
      · cases h; rfl
      · cases h
  | work i =>
    simp only [step] at h
    split at h
    · cases h
    · unfold workerStep at h
      split at h <;> (try split at h) <;> cases h <;> rfl

theorem noLate_of_no_sigint (ul df : Bool) (s : St) (evs : List Ev)
    (hr : s.handlerRan = false) (hno : Ev.sigint ∉ evs) : noLate ul df s evs = true := by
  induction evs generalizing s with
  | nil => rfl
  | cons e es ih =>
    have he : e ≠ .sigint := fun h => hno (by simp [h])
    have hes : Ev.sigint ∉ es := fun h => hno (by simp [h])
    unfold noLate
    have hl : lateCreate s e = false := by
      cases e <;> simp [lateCreate, hr]
    rw [hl]
    cases hs : step ul df s e with
    | none => rfl
    | some s' =>
      have := handlerRan_of_step hs he
      simpa using ih s' (by rw [this, hr]) hes

/-- `noLate` spelled out over the run's intermediate states: whenever the run has reached state `t`
after the prefix `pre`, the next event is not a late creation in `t` -/
theorem noLate_iff (ul df : Bool) (s : St) (evs : List Ev) :
    noLate ul df s evs = true ↔
      ∀ pre e post t, evs = pre ++ e :: post → run ul df s pre = some t → lateCreate t e = false := by
  induction evs generalizing s with
  | nil =>
    constructor
    · intro _ pre e post t h; cases pre <;> cases h
    · intro _; rfl
  | cons e es ih =>
    unfold noLate
    constructor
    · intro hl pre e' post t heq hrun
      simp only [Bool.and_eq_true, Bool.not_eq_true'] at hl
      cases pre with
      | nil =>
        simp only [List.nil_append, List.cons.injEq] at heq
        simp only [run, Option.some.injEq] at hrun
        rw [← hrun, ← heq.1]; exact hl.1
      | cons p pre' =>
        simp only [List.cons_append, List.cons.injEq] at heq
        obtain ⟨rfl, hes⟩ := heq
        unfold run at hrun
        cases hs : step ul df s e with
        | none => simp [hs] at hrun
        | some s1 =>
          simp only [hs] at hrun hl
          exact (ih s1).1 hl.2 pre' e' post t hes hrun
    · intro H
      simp only [Bool.and_eq_true, Bool.not_eq_true']
      refine ⟨H [] e es s rfl rfl, ?_⟩
      cases hs : step ul df s e with
      | none => rfl
      | some s1 =>
        refine (ih s1).2 fun pre e' post t heq hrun => H (e :: pre) e' post t (by rw [heq]; rfl) ?_
        unfold run; simp only [hs]; exact hrun

theorem handlerRan_of_sigint {ul df s s'} (h : step ul df s .sigint = some s') : s'.handlerRan = true := by
  simp only [step] at h
  split at h
  · cases h
  · cases h; rfl

/-- along an accepted run the EXIT_EARLY flag is set exactly when a `.sigint` event occurred -/
theorem handlerRan_run {ul df s evs t} (h : run ul df s evs = some t) :
    t.handlerRan = true ↔ s.handlerRan = true ∨ Ev.sigint ∈ evs := by
  induction evs generalizing s with
  | nil => simp only [run, Option.some.injEq] at h; subst h; simp
  | cons e es ih =>
    unfold run at h
    cases hs : step ul df s e with
    | none => simp [hs] at h
    | some s1 =>
      simp only [hs] at h
      rw [ih h]
      by_cases he : e = .sigint
      · subst he; simp [handlerRan_of_sigint hs]
      · rw [handlerRan_of_step hs he]
        constructor
        · rintro (h' | h')
          · exact .inl h'
          · exact .inr (List.mem_cons_of_mem _ h')
        · rintro (h' | h')
          · exact .inl h'
          · rcases List.mem_cons.1 h' with h'' | h''
            · exact absurd h''.symm he
            · exact .inr h''

/-- lengths of the three per-worker lists -/
def Lens (n : Nat) (s : St) : Prop := s.phase.length = n ∧ s.onDisk.length = n ∧ s.listed.length = n

theorem lens_init (n : Nat) : Lens n (init n) := by simp [Lens, init]

theorem lens_step {ul df n s e s'} (h : step ul df s e = some s') (hl : Lens n s) : Lens n s' := by
  obtain ⟨h1, h2, h3⟩ := hl
  cases e with
  | sigint =>
    simp only [step] at h
    split at h
    · cases h
    · cases h; simp [Lens, h1, h2, h3]
  | exit =>
    simp only [step] at h
    split at h
    · cases h
    · split at h
      · cases h; exact ⟨h1, h2, h3⟩
      · cases h
  | work i =>
    simp only [step] at h
    split at h
    · cases h
    · unfold workerStep at h
      split at h <;> (try split at h) <;> cases h <;> simp [Lens, h1, h2, h3]

theorem lens_run {ul df n s evs s'} (h : run ul df s evs = some s') (hl : Lens n s) : Lens n s' := by
  induction evs generalizing s with
  | nil => simp [run] at h; subst h; exact hl
  | cons e es ih =>
    unfold run at h
    cases hs : step ul df s e with
    | none => simp [hs] at h
    | some s1 => simp only [hs] at h; exact ih h (lens_step hs hl)

/-! ## the invariant of the repaired order -/

/-- under `run true true`: a file on disk belongs to a worker in phase `.listed` and is listed;
the phases `.created` and `.summarised` are never entered -/
structure Inv0 (s : St) : Prop where
  len1 : s.onDisk.length = s.phase.length
  len2 : s.listed.length = s.phase.length
  disk : ∀ i, s.onDisk.getD i false = true → s.phase.getD i .done = .listed ∧ s.listed.getD i false = true
  ph : ∀ i, s.phase.getD i .done ≠ .created ∧ s.phase.getD i .done ≠ .summarised

/-- no file on disk -/
def AllOff (s : St) : Prop := ∀ i, s.onDisk.getD i false = false

/-- once the handler ran, or once the process exited, nothing is on disk -/
structure Inv1 (s : St) : Prop where
  hr : s.handlerRan = true → AllOff s
  ex : s.exited = true → AllOff s

theorem leftovers_eq_zero_iff (s : St) : leftovers s = 0 ↔ AllOff s :=
  filter_id_length_eq_zero s.onDisk

theorem inv0_init (n : Nat) : Inv0 (init n) := by
  refine ⟨by simp [init], by simp [init], ?_, ?_⟩
  · intro i h
    simp [init, List.getD_eq_getElem?_getD, List.getElem?_replicate] at h
    split at h <;> simp at h
  · intro i
    simp only [init, List.getD_eq_getElem?_getD, List.getElem?_replicate]
    split <;> simp

theorem inv1_init (n : Nat) : Inv1 (init n) := by
  constructor <;> intro h <;> simp [init] at h

/-- the possible worker steps under the repaired order -/
theorem workerStep_tt {s i s'} (h : workerStep true true s i = some s') (hph : ∀ i, s.phase.getD i .done ≠ .created ∧ s.phase.getD i .done ≠ .summarised) :
    (s.phase.getD i .done = .start ∧
      s' = { s with phase := s.phase.set i .listed, onDisk := s.onDisk.set i true, listed := s.listed.set i true }) ∨
    (s.phase.getD i .done = .listed ∧
      s' = { s with phase := s.phase.set i .deleted, onDisk := s.onDisk.set i false }) ∨
    (s.phase.getD i .done = .deleted ∧ s' = { s with phase := s.phase.set i .done }) := by
  unfold workerStep at h
  split at h
  · rename_i hp; simp at h; exact .inl ⟨hp, h.symm⟩
  · rename_i hp; exact absurd hp (hph i).1
  · rename_i hp; simp at h; exact .inr (.inl ⟨hp, h.symm⟩)
  · rename_i hp; simp at h; exact .inr (.inr ⟨hp, h.symm⟩)
  · rename_i hp; exact absurd hp (hph i).2
  · cases h

theorem inv0_step {s e s'} (h : step true true s e = some s') (hi : Inv0 s) : Inv0 s' := by
  obtain ⟨l1, l2, hd, hp⟩ := hi
  cases e with
  | sigint =>
    simp only [step] at h
    split at h
    · cases h
    · cases h
      refine ⟨by simp [l1, l2], l2, ?_, hp⟩
      intro i hi
      simp only [getD_clear] at hi
      have : s.onDisk.getD i false = true := by
        rw [Bool.and_eq_true] at hi; exact hi.1
      exact hd i this
  | exit =>
    simp only [step] at h
    split at h
    · cases h
    · split at h
      · cases h; exact ⟨l1, l2, hd, hp⟩
      · cases h
  | work i =>
    simp only [step] at h
    split at h
    · cases h
    · rcases workerStep_tt h hp with ⟨hs, rfl⟩ | ⟨hs, rfl⟩ | ⟨hs, rfl⟩
      all_goals
        have hlt : i < s.phase.length := lt_length_of_getD_ne _ _ _ (by rw [hs]; decide)
      · refine ⟨by simp [l1], by simp [l2], ?_, ?_⟩
        · intro j hj
          simp only [getD_set, l1, l2, hlt, and_true] at hj ⊢
          by_cases hij : i = j
          · simp [hij]
          · simp only [hij, if_false] at hj ⊢; exact hd j hj
        · intro j
          simp only [getD_set, hlt, and_true]
          by_cases hij : i = j
          · simp [hij]
          · simp only [hij, if_false]; exact hp j
      · refine ⟨by simp [l1], by simp [l2], ?_, ?_⟩
        · intro j hj
          simp only [getD_set, l1, hlt, and_true] at hj ⊢
          by_cases hij : i = j
          · simp [hij] at hj
          · simp only [hij, if_false] at hj ⊢; exact hd j hj
        · intro j
          simp only [getD_set, hlt, and_true]
          by_cases hij : i = j
          · simp [hij]
          · simp only [hij, if_false]; exact hp j
      · refine ⟨by simp [l1], by simp [l2], ?_, ?_⟩
        · intro j hj
          simp only [getD_set, hlt, and_true] at hj ⊢
          by_cases hij : i = j
          · subst hij; have := (hd i hj).1; rw [hs] at this; cases this
          · simp only [hij, if_false]; exact hd j hj
        · intro j
          simp only [getD_set, hlt, and_true]
          by_cases hij : i = j
          · simp [hij]
          · simp only [hij, if_false]; exact hp j

theorem inv0_run {s evs s'} (h : run true true s evs = some s') (hi : Inv0 s) : Inv0 s' := by
  induction evs generalizing s with
  | nil => simp [run] at h; subst h; exact hi
  | cons e es ih =>
    unfold run at h
    cases hs : step true true s e with
    | none => simp [hs] at h
    | some s1 => simp only [hs] at h; exact ih h (inv0_step hs hi)

theorem inv1_step {s e s'} (h : step true true s e = some s') (h0 : Inv0 s) (h1 : Inv1 s)
    (hl : lateCreate s e = false) : Inv1 s' := by
  obtain ⟨l1, l2, hd, hp⟩ := h0
  obtain ⟨hr, hx⟩ := h1
  cases e with
  | sigint =>
    simp only [step] at h
    split at h
    · cases h
    · rename_i hc
      cases h
      have hoff : ∀ i, (((s.onDisk.zip s.listed).map fun (d, l) => d && !l).getD i false) = false := by
        intro i
        rw [getD_clear]
        cases hx : s.onDisk.getD i false with
        | false => simp
        | true => rw [(hd i hx).2]; rfl
      constructor
      · intro _; exact hoff
      · intro he; simp at hc; simp [hc.1] at he
  | exit =>
    simp only [step] at h
    split at h
    · cases h
    · split at h
      · rename_i hc
        cases h
        refine ⟨hr, fun _ => ?_⟩
        simp only [Bool.or_eq_true] at hc
        rcases hc with hc | hc
        · intro i
          cases hx : s.onDisk.getD i false with
          | false => rfl
          | true =>
            exfalso
            have hpl := (hd i hx).1
            have hlt : i < s.phase.length := lt_length_of_getD_ne _ _ _ (by rw [hpl]; decide)
            rw [List.all_eq_true] at hc
            have := hc (s.phase[i]) (List.getElem_mem hlt)
            rw [List.getD_eq_getElem?_getD, List.getElem?_eq_getElem hlt] at hpl
            simp at hpl
            rw [hpl] at this
            simp at this
        · exact hr hc
      · cases h
  | work i =>
    simp only [step] at h
    split at h
    · cases h
    · rename_i hne
      rcases workerStep_tt h hp with ⟨hs, rfl⟩ | ⟨hs, rfl⟩ | ⟨hs, rfl⟩
      · have hrf : s.handlerRan = false := by
          cases hh : s.handlerRan with
          | false => rfl
          | true => simp only [lateCreate, hh, hs] at hl; exact absurd hl (by decide)
        constructor
        · intro h'; simp [hrf] at h'
        · intro h'; exact absurd h' hne
      · have key : AllOff s → AllOff { s with phase := s.phase.set i .deleted, onDisk := s.onDisk.set i false } := by
          intro ha j
          simp only [getD_set]
          split
          · rfl
          · exact ha j
        exact ⟨fun h' => key (hr h'), fun h' => key (hx h')⟩
      · exact ⟨hr, hx⟩

theorem inv1_run {s evs s'} (h : run true true s evs = some s') (h0 : Inv0 s) (h1 : Inv1 s)
    (hl : noLate true true s evs = true) : Inv1 s' := by
  induction evs generalizing s with
  | nil => simp [run] at h; subst h; exact h1
  | cons e es ih =>
    unfold run at h
    unfold noLate at hl
    cases hs : step true true s e with
    | none => simp [hs] at h
    | some s1 =>
      simp only [hs, Bool.and_eq_true, Bool.not_eq_true'] at h hl
      exact ih h (inv0_step hs h0) (inv1_step hs h0 h1 hl.1) hl.2

/-- the core of C18, for the repaired order: an exited run without late creation leaves nothing -/
theorem leftovers_zero_of_noLate {n evs s} (h : run true true (init n) evs = some s)
    (hex : s.exited = true) (hl : noLate true true (init n) evs = true) : leftovers s = 0 :=
  (leftovers_eq_zero_iff s).2 ((inv1_run h (inv0_init n) (inv1_init n) hl).ex hex)

/-! ## the closed flag (`stepC` / `runC`) -/

theorem stepC_of_not_late {ul df s e} (hl : lateCreate s e = false) : stepC ul df s e = step ul df s e := by
  cases e with
  | sigint => rfl
  | exit => rfl
  | work i =>
    simp only [lateCreate] at hl
    simp only [stepC, step, hl]
    split <;> simp

theorem stepC_of_late {ul df s i} (hl : lateCreate s (.work i) = true) :
    stepC ul df s (.work i) = if s.exited then none else some { s with phase := s.phase.set i .done } := by
  simp only [lateCreate] at hl
  simp only [stepC, hl]
  split <;> simp

/-- a refused creation keeps both invariants: nothing is created, the worker ends -/
theorem inv0_refuse {s : St} {i : Nat} (hi : Inv0 s) (hs : s.phase.getD i .done = .start) :
    Inv0 { s with phase := s.phase.set i .done } := by
  obtain ⟨l1, l2, hd, hp⟩ := hi
  refine ⟨by simp [l1], by simp [l2], ?_, ?_⟩
  · intro j hj
    have := hd j hj
    simp only [getD_set]
    split
    · rename_i hc
      obtain ⟨rfl, _⟩ := hc
      rw [hs] at this
      exact absurd this.1 (by decide)
    · exact this
  · intro j
    simp only [getD_set]
    split
    · exact ⟨by decide, by decide⟩
    · exact hp j

theorem inv0_stepC {s e s'} (h : stepC true true s e = some s') (hi : Inv0 s) : Inv0 s' := by
  cases hl : lateCreate s e with
  | false => rw [stepC_of_not_late hl] at h; exact inv0_step h hi
  | true =>
    cases e with
    | sigint => simp [lateCreate] at hl
    | exit => simp [lateCreate] at hl
    | work i =>
      rw [stepC_of_late hl] at h
      split at h
      · cases h
      · cases h
        simp only [lateCreate, Bool.and_eq_true, beq_iff_eq] at hl
        exact inv0_refuse hi hl.2

theorem inv1_stepC {s e s'} (h : stepC true true s e = some s') (h0 : Inv0 s) (h1 : Inv1 s) : Inv1 s' := by
  cases hl : lateCreate s e with
  | false => rw [stepC_of_not_late hl] at h; exact inv1_step h h0 h1 hl
  | true =>
    cases e with
    | sigint => simp [lateCreate] at hl
    | exit => simp [lateCreate] at hl
    | work i =>
      rw [stepC_of_late hl] at h
      split at h
      · cases h
      · cases h
        exact ⟨h1.hr, h1.ex⟩

theorem inv_runC {s evs s'} (h : runC true true s evs = some s') (h0 : Inv0 s) (h1 : Inv1 s) : Inv0 s' ∧ Inv1 s' := by
  induction evs generalizing s with
  | nil => simp [runC] at h; subst h; exact ⟨h0, h1⟩
  | cons e es ih =>
    unfold runC at h
    cases hs : stepC true true s e with
    | none => simp [hs] at h
    | some s1 => simp only [hs] at h; exact ih h (inv0_stepC hs h0) (inv1_stepC hs h0 h1)

/-- the core of C18 with the closed flag: an exited run leaves nothing, whatever the schedule -/
theorem leftovers_zero_closed {n evs s} (h : runC true true (init n) evs = some s)
    (hex : s.exited = true) : leftovers s = 0 :=
  (leftovers_eq_zero_iff s).2 ((inv_runC h (inv0_init n) (inv1_init n)).2.ex hex)

/-- without SIGINT the closed flag changes nothing -/
theorem runC_eq_run_of_no_sigint (ul df : Bool) (s : St) (evs : List Ev)
    (hr : s.handlerRan = false) (hno : Ev.sigint ∉ evs) : runC ul df s evs = run ul df s evs := by
  induction evs generalizing s with
  | nil => rfl
  | cons e es ih =>
    have he : e ≠ .sigint := fun h => hno (by simp [h])
    have hes : Ev.sigint ∉ es := fun h => hno (by simp [h])
    have hl : lateCreate s e = false := by cases e <;> simp [lateCreate, hr]
    unfold runC run
    rw [stepC_of_not_late hl]
    cases hs : step ul df s e with
    | none => rfl
    | some s' =>
      have := handlerRan_of_step hs he
      exact ih s' (by rw [this, hr]) hes

end S4V.Lemmas.Tmp
